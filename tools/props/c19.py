"""
C19 — Row objects and the DataFrame assertion helpers behave as PySpark's.

proof      : lean/SqlframeModel/Props/C19.lean (two transcriptions Sf / Ps of Row and of the helpers, equivalence theorems)
tie        : (a) Gen/RowCompat.lean regenerated from sqlframe/base/types.py + sqlframe/testing/utils.py AND the installed
             pyspark sources (decisions + per-method source identity), exercised against the live objects;
             (b) correspondence: generated Row scripts / row-list pairs / schema pairs run on the REAL sqlframe objects and
             on the REAL pyspark objects, each compared with its Lean transcription (Driver/C19.lean)
search     : the same runs compare sqlframe with pyspark directly (the specification is PySpark's behaviour)
"""
from __future__ import annotations

import copy
import decimal
import importlib.util
import inspect
import json
import os
import pickle
import random
import sys
import types as pytypes
import typing as t
import warnings

import vlib
from vlib import Ctx, log

ID = "C19"
LEVEL = "proof"
MODULES = ["SqlframeModel.Codec.C19", "SqlframeModel.Props.C19"]
GEN = ["RowCompat"]
SOURCES = ["SqlframeModel/Props/C19.lean", "SqlframeModel/Impl/C19Row.lean"]
HERE = os.path.dirname(os.path.abspath(__file__))
SCALE = 10**9
PYSPARK_DIR = "/venv/lib/python3.12/site-packages/pyspark"

# ------------------------------------------------------------------------------------------------
# the two real implementations
# ------------------------------------------------------------------------------------------------

_IMPL: t.Dict[str, t.Any] = {}


def impls() -> t.Dict[str, t.Any]:
    """sqlframe's and pyspark's Row / helpers / types, imported once.  pyspark's helper module is loaded from its
    file (the package `pyspark.testing` does not import here: numpy 2) with `pyspark.pandas` made unavailable, so
    that it takes its documented no-pandas path (lists of Rows need no JVM)."""
    if _IMPL:
        return _IMPL
    warnings.filterwarnings("ignore")
    if vlib.REPO not in sys.path:
        sys.path.insert(0, vlib.REPO)
    from sqlframe.base import types as sft
    from sqlframe.base.exceptions import DataFrameDiffError, RowError, SchemaDiffError
    from sqlframe.testing import utils as sfu

    import pyspark.sql.types as pst
    from pyspark.errors import PySparkAssertionError, PySparkTypeError, PySparkValueError

    class _NoPandasOnSpark:
        def find_spec(self, name, path=None, target=None):
            if name == "pyspark.pandas" or name.startswith("pyspark.pandas.") or name == "pyspark.testing.pandasutils":
                raise ImportError("pyspark.pandas is not usable in this sandbox (numpy 2); the helper's no-pandas path is exercised")
            return None

    sys.meta_path.insert(0, _NoPandasOnSpark())
    spec = importlib.util.spec_from_file_location("_verif_pyspark_testing_utils", os.path.join(PYSPARK_DIR, "testing", "utils.py"))
    psu = importlib.util.module_from_spec(spec)
    sys.modules["_verif_pyspark_testing_utils"] = psu
    spec.loader.exec_module(psu)  # type: ignore
    _IMPL.update(
        sf={"Row": sft.Row, "types": sft, "adf": sfu.assertDataFrameEqual, "ase": sfu.assertSchemaEqual, "reject": (DataFrameDiffError, SchemaDiffError), "utils": sfu},
        ps={"Row": pst.Row, "types": pst, "adf": psu.assertDataFrameEqual, "ase": psu.assertSchemaEqual, "reject": (PySparkAssertionError,), "utils": psu},
        errs={RowError: "rowError", PySparkValueError: "psValueError", PySparkTypeError: "psTypeError"},
    )
    return _IMPL


def err_name(e: BaseException) -> str:
    for cls, nm in impls()["errs"].items():
        if isinstance(e, cls):
            return nm
    for cls, nm in ((KeyError, "keyError"), (IndexError, "indexError"), (AttributeError, "attributeError"), (TypeError, "typeError"), (RuntimeError, "runtimeError")):
        if type(e) is cls:
            return nm
    return "other:" + type(e).__name__


ABS = {"psValueError": "rowError", "psTypeError": "rowError"}

# ------------------------------------------------------------------------------------------------
# values: JSON spec (what the Lean codec reads)  <->  Python objects of one package
# ------------------------------------------------------------------------------------------------


def to_py(v: t.Any, Row: t.Any) -> t.Any:
    if v is None:
        return None
    if "int" in v:
        return v["int"]
    if "str" in v:
        return v["str"]
    if "flt" in v:
        return v["flt"]["num"] / SCALE
    if "dec" in v:
        return decimal.Decimal(v["dec"]["repr"][len("Decimal('") : -2])
    if "list" in v:
        return [to_py(x, Row) for x in v["list"]]
    if "dict" in v:
        return {k: to_py(x, Row) for k, x in zip(v["dict"]["ks"], v["dict"]["vs"])}
    if "row" in v:
        r = v["row"]
        vals = [to_py(x, Row) for x in r["vs"]]
        if r["hf"]:
            return Row(**{f["str"]: x for f, x in zip(r["fields"], vals)})
        return Row(*vals)
    raise ValueError(v)


def flt(x: float) -> dict:
    return {"flt": {"num": round(x * SCALE), "repr": repr(x)}}


def dec(s: str) -> dict:
    d = decimal.Decimal(s)
    return {"dec": {"num": int(d * SCALE), "repr": repr(d), "frepr": repr(float(d))}}


def from_py(o: t.Any) -> t.Any:
    I = impls()
    if o is None:
        return None
    if isinstance(o, bool):
        return {"other": repr(o)}
    if isinstance(o, int):
        return {"int": o}
    if isinstance(o, str):
        return {"str": o}
    if isinstance(o, float):
        return flt(o)
    if isinstance(o, decimal.Decimal):
        return {"dec": {"num": int(o * SCALE), "repr": repr(o), "frepr": repr(float(o))}}
    if isinstance(o, (I["sf"]["Row"], I["ps"]["Row"])):
        has = "__fields__" in o.__dict__
        fields = [from_py(f) for f in o.__dict__["__fields__"]] if has else []
        return {"row": {"hf": has, "fields": fields, "vs": [from_py(x) for x in tuple(o)]}}
    if isinstance(o, list):
        return {"list": [from_py(x) for x in o]}
    if isinstance(o, dict):
        return {"dict": {"ks": list(o.keys()), "vs": [from_py(x) for x in o.values()]}}
    return {"other": repr(o)[:60]}


def floatify(v: t.Any) -> t.Any:
    if isinstance(v, dict) and "dec" in v:
        return {"flt": {"num": v["dec"]["num"], "repr": v["dec"]["frepr"]}}
    return v


def ctor_floatify(c: dict) -> dict:
    c = copy.deepcopy(c)
    if "kwargs" in c:
        c["kwargs"]["vals"] = [floatify(x) for x in c["kwargs"]["vals"]]
    elif "factory" in c:
        c["factory"]["vals"] = [floatify(x) for x in c["factory"]["vals"]]
    elif "both" in c:
        c["both"]["kvals"] = [floatify(x) for x in c["both"]["kvals"]]
    elif "recall" in c:
        c["recall"]["vals"] = [floatify(x) for x in c["recall"]["vals"]]
        c["recall"]["vals2"] = [floatify(x) for x in c["recall"]["vals2"]]
    return c


def has_top_decimal(c: dict) -> bool:
    return ctor_floatify(c) != c


# ------------------------------------------------------------------------------------------------
# running Row scripts on a real Row class
# ------------------------------------------------------------------------------------------------


def construct(Row: t.Any, c: dict) -> t.Any:
    if "kwargs" in c:
        return Row(**{n: to_py(v, Row) for n, v in zip(c["kwargs"]["names"], c["kwargs"]["vals"])})
    if "positional" in c:
        return Row(*[to_py(v, Row) for v in c["positional"]["vals"]])
    if "both" in c:
        return Row(*[to_py(v, Row) for v in c["both"]["vals"]], **{n: to_py(v, Row) for n, v in zip(c["both"]["names"], c["both"]["kvals"])})
    if "factory" in c:
        return Row(*c["factory"]["names"])(*[to_py(v, Row) for v in c["factory"]["vals"]])
    if "recall" in c:
        r = Row(**{n: to_py(v, Row) for n, v in zip(c["recall"]["names"], c["recall"]["vals"])})
        return r(*[to_py(v, Row) for v in c["recall"]["vals2"]])
    raise ValueError(c)


def apply_op(r: t.Any, op: t.Any, Row: t.Any) -> t.Any:
    if op == "len":
        return {"n": len(r)}
    if op == "repr":
        return {"s": repr(r)}
    if op == "pickle":
        r2 = pickle.loads(pickle.dumps(r))
        try:
            same_hash = hash(r2) == hash(tuple(r2)) == hash(r)
        except TypeError:  # unhashable values inside (dict / list): tuples behave the same
            same_hash = True
        if type(r2) is not type(r) or not same_hash:
            return {"other": "pickle changed the class / hash differs from the tuple's"}
        return {"val": from_py(r2)}
    if op == "fields":
        return {"val": {"list": [from_py(f) for f in r.__fields__]}}
    k, a = next(iter(op.items()))
    if k == "getIdx":
        return {"val": from_py(r[a["i"]])}
    if k == "getKey":
        return {"val": from_py(r[to_py(a["k"], Row)])}
    if k == "getAttr":
        return {"val": from_py(getattr(r, a["name"]))}
    if k == "contains":
        return {"b": to_py(a["v"], Row) in r}
    if k == "asDict":
        return {"val": from_py(r.asDict(a["recursive"]))}
    if k == "eq":
        return {"b": r == to_py(a["other"], Row)}
    if k == "lt":
        return {"b": r < to_py(a["other"], Row)}
    if k == "setAttr":
        setattr(r, a["name"], 1)
        return {"b": True}
    raise ValueError(op)


def run_script(which: str, c: dict, ops: t.List[t.Any]) -> t.List[t.Any]:
    Row = impls()[which]["Row"]
    try:
        r = construct(Row, c)
    except Exception as e:  # noqa
        return [{"err": err_name(e)}]
    out = [{"val": from_py(r)}]
    for op in ops:
        try:
            out.append(apply_op(r, op, Row))
        except Exception as e:  # noqa
            out.append({"err": err_name(e)})
    return out


def abs_outs(outs: t.List[t.Any]) -> t.List[t.Any]:
    return [{"err": ABS.get(o["err"], o["err"])} if "err" in o else o for o in outs]


# ------------------------------------------------------------------------------------------------
# generators
# ------------------------------------------------------------------------------------------------

NAMES = ["a", "b", "c", "name", "age", "k1", "x_y", "A"]
INTS = [-7, 2, 3, 5, 10]
FLOATS = [1.5, 2.25, -0.125, 3.0, 1000.5, 0.1]
STRS = ["a", "b", "zz", "Alice", "", "x y"]
DECS = ["1.5", "2.25", "2.50", "3"]  # exactly representable in binary: Decimal == float is then decided by the value


def gen_scalar(rng: random.Random, allow_dec: bool) -> t.Any:
    r = rng.random()
    if r < 0.12:
        return None
    if r < 0.4:
        return {"int": rng.choice(INTS)}
    if r < 0.62:
        return {"str": rng.choice(STRS)}
    if r < 0.85 or not allow_dec:
        return flt(rng.choice(FLOATS))
    return dec(rng.choice(DECS))


def gen_value(rng: random.Random, depth: int, allow_dec: bool, top_dec: bool = False) -> t.Any:
    """top_dec: may this position itself be a Decimal (only the row under test's own fields / list & dict elements)"""
    r = rng.random()
    if depth <= 0 or r < 0.55:
        v = gen_scalar(rng, allow_dec)
        if isinstance(v, dict) and "dec" in v and not top_dec:
            return flt(rng.choice(FLOATS))
        return v
    if r < 0.7:
        return {"list": [gen_value(rng, depth - 1, allow_dec, top_dec=True) for _ in range(rng.randint(0, 3))]}
    if r < 0.82:
        ks = rng.sample(NAMES, rng.randint(0, 3))
        return {"dict": {"ks": ks, "vs": [gen_value(rng, depth - 1, allow_dec, top_dec=True) for _ in ks]}}
    # a nested Row built with keyword arguments (its own fields are never Decimal: sqlframe would convert them)
    ks = rng.sample(NAMES, rng.randint(1, 3))
    return {"row": {"hf": True, "fields": [{"str": k} for k in ks], "vs": [gen_value(rng, depth - 1, allow_dec, top_dec=False) for _ in ks]}}


def gen_ctor(rng: random.Random, allow_dec: bool) -> dict:
    r = rng.random()
    n = rng.randint(0, 4)
    vals = [gen_value(rng, 2, allow_dec, top_dec=True) for _ in range(n)]
    if r < 0.4:
        names = rng.sample(NAMES, n)
        return {"kwargs": {"names": names, "vals": vals}}
    if r < 0.55:
        return {"positional": {"vals": vals}}
    if r < 0.6:
        names = rng.sample(NAMES, max(1, n))
        return {"both": {"vals": vals or [{"int": 2}], "names": names, "kvals": [gen_value(rng, 1, allow_dec) for _ in names]}}
    if r < 0.93:
        # Row class factory: duplicate field names allowed; fewer / equal / more values than fields
        names = [rng.choice(NAMES[:4]) for _ in range(rng.randint(0, 4))]
        k = max(0, len(names) + rng.choice([0, 0, 0, -1, 1]))
        vals = [gen_value(rng, 2, allow_dec, top_dec=True) for _ in range(k)]
        return {"factory": {"names": names, "vals": vals}}
    names = rng.sample(NAMES, rng.randint(1, 3))
    v1 = [{"str": rng.choice(NAMES)} for _ in names]
    k = max(0, len(names) + rng.choice([0, -1, 1]))
    return {"recall": {"names": names, "vals": v1, "vals2": [gen_value(rng, 1, allow_dec, top_dec=True) for _ in range(k)]}}


def ctor_names(c: dict) -> t.List[str]:
    for k in ("kwargs", "factory", "recall", "both"):
        if k in c:
            return list(c[k]["names"])
    return []


def ctor_vals(c: dict) -> t.List[t.Any]:
    k = next(iter(c))
    return list(c[k].get("vals2" if k == "recall" else "vals", []))


def gen_ops(rng: random.Random, c: dict, allow_dec: bool) -> t.List[t.Any]:
    names = ctor_names(c) + ["zz", "__x", "age"]
    vals = ctor_vals(c)
    n = len(vals)
    ops: t.List[t.Any] = []
    for _ in range(rng.randint(3, 8)):
        r = rng.random()
        if r < 0.12:
            ops.append({"getIdx": {"i": rng.randint(-n - 1, n + 1)}})
        elif r < 0.26:
            ops.append({"getKey": {"k": {"str": rng.choice(names)}}})
        elif r < 0.4:
            ops.append({"getAttr": {"name": rng.choice(names)}})
        elif r < 0.52:
            item = {"str": rng.choice(names)} if rng.random() < 0.6 else (rng.choice(vals) if vals and rng.random() < 0.7 else gen_scalar(rng, False))
            ops.append({"contains": {"v": item}})
        elif r < 0.64:
            ops.append({"asDict": {"recursive": rng.random() < 0.6}})
        elif r < 0.7:
            ops.append("len")
        elif r < 0.8:
            other = mutate_row_value(rng, c, allow_dec)
            ops.append({"eq": {"other": other}})
        elif r < 0.86:
            other = mutate_row_value(rng, c, False)
            ops.append({"lt": {"other": other}})
        elif r < 0.92:
            ops.append("repr")
        elif r < 0.95:
            ops.append({"setAttr": {"name": rng.choice(["a", "zz", "x"])}})
        elif r < 0.98:
            ops.append("pickle")
        else:
            ops.append("fields")
    return ops


def mutate_row_value(rng: random.Random, c: dict, allow_dec: bool) -> t.Any:
    """another Row value (as a JSON spec) close to the one the constructor builds: same / one value changed / shorter"""
    vals = [floatify(v) for v in ctor_vals(c)]
    r = rng.random()
    if vals and r < 0.35:
        i = rng.randrange(len(vals))
        vals = vals[:i] + [gen_scalar(rng, False)] + vals[i + 1 :]
    elif vals and r < 0.5:
        vals = vals[:-1]
    if rng.random() < 0.5:
        names = (ctor_names(c) + NAMES)[: len(vals)]
        if len(set(names)) == len(names) and len(names) == len(vals) and names:
            return {"row": {"hf": True, "fields": [{"str": k} for k in names], "vs": vals}}
    return {"row": {"hf": False, "fields": [], "vs": vals}}


# ---- row lists for the assertion helper ------------------------------------------------------------


def gen_rows(rng: random.Random, allow_dec: bool) -> t.List[t.Any]:
    ncols = rng.randint(1, 3)
    names = rng.sample(NAMES, ncols)
    kinds = [rng.choice(["int", "str", "flt", "flt", "list", "row", "dict", "mixed"]) for _ in names]

    def cell(kind: str) -> t.Any:
        if rng.random() < 0.1:
            return None
        if kind == "int":
            return {"int": rng.choice(INTS)}
        if kind == "str":
            return {"str": rng.choice(STRS)}
        if kind == "flt":
            return flt(rng.choice(FLOATS)) if not (allow_dec and rng.random() < 0.3) else dec(rng.choice(DECS))
        if kind == "list":
            return {"list": [flt(rng.choice(FLOATS)) if rng.random() < 0.5 else {"int": rng.choice(INTS)} for _ in range(rng.randint(0, 3))]}
        if kind == "dict":
            ks = rng.sample(NAMES, rng.randint(0, 2))
            return {"dict": {"ks": ks, "vs": [flt(rng.choice(FLOATS)) for _ in ks]}}
        if kind == "row":
            ks = rng.sample(NAMES, 2)
            return {"row": {"hf": True, "fields": [{"str": k} for k in ks], "vs": [flt(rng.choice(FLOATS)), {"int": rng.choice(INTS)}]}}
        return gen_value(rng, 1, False)

    rows = []
    for _ in range(rng.randint(0, 4)):
        rows.append({"row": {"hf": True, "fields": [{"str": k} for k in names], "vs": [cell(k) for k in kinds]}})
    if rows and rng.random() < 0.25:
        rows.append(copy.deepcopy(rng.choice(rows)))  # duplicates
    return rows


def perturb_float(v: t.Any, delta: float) -> t.Any:
    x = v["flt"]["num"] / SCALE
    return flt(x + delta)


def float_paths(v: t.Any, path: t.Tuple = ()) -> t.List[t.Tuple]:
    out: t.List[t.Tuple] = []
    if isinstance(v, dict):
        if "flt" in v:
            out.append(path)
        elif "list" in v:
            for i, x in enumerate(v["list"]):
                out += float_paths(x, path + (("list", i),))
        elif "dict" in v:
            for i, x in enumerate(v["dict"]["vs"]):
                out += float_paths(x, path + (("dict", i),))
        elif "row" in v:
            for i, x in enumerate(v["row"]["vs"]):
                out += float_paths(x, path + (("row", i),))
    return out


def set_path(v: t.Any, path: t.Tuple, f: t.Callable[[t.Any], t.Any]) -> t.Any:
    if not path:
        return f(v)
    v = copy.deepcopy(v)
    (k, i), rest = path[0], path[1:]
    if k == "list":
        v["list"][i] = set_path(v["list"][i], rest, f)
    elif k == "dict":
        v["dict"]["vs"][i] = set_path(v["dict"]["vs"][i], rest, f)
    else:
        v["row"]["vs"][i] = set_path(v["row"]["vs"][i], rest, f)
    return v


VARIANTS = ["equal", "permuted", "inside_tol", "outside_tol", "band_accept", "band_reject", "drop_row", "add_row", "drop_field", "null_cell", "nesting", "int_for_float", "rename_field", "none_row", "dup_count"]


def variant(rng: random.Random, rows: t.List[t.Any], kind: str, allow_dec: bool) -> t.List[t.Any]:
    rows = copy.deepcopy(rows)
    if kind in ("band_accept", "band_reject") and not any(float_paths(r) for r in rows if r):
        # make sure there is a float to perturb: plain, inside a list, a nested Row or a map value
        f = flt(1.5)
        cell = rng.choice([f, {"list": [flt(2.25), f]}, {"row": {"hf": True, "fields": [{"str": "f"}], "vs": [f]}}, {"dict": {"ks": ["p"], "vs": [f]}}])
        rows = [{"row": {"hf": True, "fields": [{"str": "k"}, {"str": "v"}], "vs": [{"str": rng.choice(STRS)}, cell]}}]
    if kind == "equal" or not rows:
        if kind == "add_row":
            return rows + gen_rows(rng, allow_dec)[:1]
        return rows
    if kind == "permuted":
        rng.shuffle(rows)
        return rows
    i = rng.randrange(len(rows))
    if kind in ("inside_tol", "outside_tol"):
        paths = float_paths(rows[i])
        if not paths:
            return rows
        p = rng.choice(paths)
        cur = [rows[i]]
        base = abs(_get_path(rows[i], p)["flt"]["num"] / SCALE)
        delta = (1e-7 * max(base, 1e-3)) if kind == "inside_tol" else (1e-3 * max(base, 1.0))
        rows[i] = set_path(rows[i], p, lambda v: perturb_float(v, delta * rng.choice([1, -1])))
        return rows
    if kind in ("band_accept", "band_reject"):
        # the closeness test is asymmetric: |a - b| <= atol + rtol * |b| with b the EXPECTED value.  Make the
        # difference fall between rtol*|actual| and rtol*|expected| (exact binary floats; used with a large rtol, atol 0)
        cand = [j for j, r in enumerate(rows) if r and float_paths(r)]
        if not cand:
            return rows
        i = rng.choice(cand)
        paths = float_paths(rows[i])
        p = rng.choice(paths)
        lo, hi = rng.choice([(1.0, 2.0), (3.0, 4.0), (0.5, 1.0), (-1.0, -2.0)])
        a, b = (lo, hi) if kind == "band_accept" else (hi, lo)   # actual, expected
        rows[i] = set_path(rows[i], p, lambda v: flt(a))
        out = copy.deepcopy(rows)
        out[i] = set_path(out[i], p, lambda v: flt(b))
        rows[:] = rows  # actual is modified in place by the caller through the returned pair
        return ("pair", rows, out)
    if kind == "drop_row":
        return rows[:i] + rows[i + 1 :]
    if kind == "add_row":
        return rows + [copy.deepcopy(rows[i])]
    if kind == "drop_field":
        r = rows[i]["row"]
        if len(r["vs"]) > 1:
            r["fields"], r["vs"] = r["fields"][:-1], r["vs"][:-1]
        return rows
    if kind == "null_cell":
        r = rows[i]["row"]
        j = rng.randrange(len(r["vs"]))
        r["vs"][j] = None if r["vs"][j] is not None else {"int": 2}
        return rows
    if kind == "nesting":
        r = rows[i]["row"]
        j = rng.randrange(len(r["vs"]))
        v = r["vs"][j]
        if isinstance(v, dict) and "list" in v:
            r["vs"][j] = {"list": v["list"] + [{"int": 2}]} if rng.random() < 0.5 else {"row": {"hf": False, "fields": [], "vs": v["list"]}}
        elif isinstance(v, dict) and "row" in v:
            if rng.random() < 0.5:
                r["vs"][j] = {"list": v["row"]["vs"]}
            else:
                # one field fewer (a Row built from no keyword arguments has no __fields__ at all)
                fs, vs = v["row"]["fields"][:-1], v["row"]["vs"][:-1]
                r["vs"][j] = {"row": {"hf": bool(fs), "fields": fs, "vs": vs}}
        elif isinstance(v, dict) and "dict" in v:
            d = v["dict"]
            r["vs"][j] = {"dict": {"ks": d["ks"] + ["q"], "vs": d["vs"] + [{"int": 2}]}} if rng.random() < 0.5 else {"dict": {"ks": list(reversed(d["ks"])), "vs": list(reversed(d["vs"]))}}
        else:
            r["vs"][j] = {"list": [v]}
        return rows
    if kind == "int_for_float":
        paths = float_paths(rows[i])
        if paths:
            p = rng.choice(paths)
            rows[i] = set_path(rows[i], p, lambda v: {"int": round(v["flt"]["num"] / SCALE)} if rng.random() < 0.5 else flt(float(round(v["flt"]["num"] / SCALE))))
        return rows
    if kind == "rename_field":
        r = rows[i]["row"]
        r["fields"][0] = {"str": r["fields"][0]["str"] + "_"}
        return rows
    if kind == "none_row":
        rows[i] = None
        return rows
    if kind == "dup_count":
        # same set of rows, different multiplicities
        return rows + [copy.deepcopy(rows[i])] if rng.random() < 0.5 else rows[:i] + rows[i + 1 :] + [copy.deepcopy(rows[(i + 1) % len(rows)])]
    return rows


def _get_path(v: t.Any, path: t.Tuple) -> t.Any:
    for k, i in path:
        v = v["list"][i] if k == "list" else v["dict"]["vs"][i] if k == "dict" else v["row"]["vs"][i]
    return v


def all_floats(v: t.Any) -> t.List[int]:
    out = []
    if isinstance(v, dict):
        if "flt" in v:
            out.append(v["flt"]["num"])
        for k in ("list",):
            if k in v:
                for x in v[k]:
                    out += all_floats(x)
        if "dict" in v:
            for x in v["dict"]["vs"]:
                out += all_floats(x)
        if "row" in v:
            for x in v["row"]["vs"]:
                out += all_floats(x)
    return out


OPTIONS = [
    {},
    {"checkRowOrder": True},
    {"rtol": 0.0, "atol": 0.0},
    {"rtol": 1e-2},
    {"atol": 0.5, "checkRowOrder": True},
    {"rtol": 0.0, "atol": 1e-12},
]


def run_assert(which: str, actual: t.List[t.Any], expected: t.List[t.Any], opts: dict) -> str:
    I = impls()[which]
    a = [to_py(r, I["Row"]) for r in actual]
    e = [to_py(r, I["Row"]) for r in expected]
    try:
        I["adf"](a, e, **opts)
        return "accept"
    except I["reject"]:
        return "reject"
    except Exception as ex:  # noqa
        return "error:" + type(ex).__name__


def close_table(actual: t.List[t.Any], expected: t.List[t.Any], opts: dict, defaults: dict) -> t.List[t.List[t.Any]]:
    rtol = opts.get("rtol", defaults["rtol"])
    atol = opts.get("atol", defaults["atol"])
    fa = sorted({n for r in actual for n in all_floats(r)})
    fe = sorted({n for r in expected for n in all_floats(r)})
    tbl = []
    for x in fa:
        for y in fe:
            v1, v2 = x / SCALE, y / SCALE
            tbl.append([x, y, not (abs(v1 - v2) > (atol + rtol * abs(v2)))])
    return tbl


# ---- schemas ---------------------------------------------------------------------------------------

ATOMS = ["IntegerType", "LongType", "StringType", "DoubleType", "BooleanType", "DateType"]


def gen_dtype(rng: random.Random, depth: int) -> dict:
    r = rng.random()
    if depth <= 0 or r < 0.6:
        return {"atomic": rng.choice(ATOMS)}
    if r < 0.75:
        return {"array": {"elem": gen_dtype(rng, depth - 1), "null": rng.random() < 0.5}}
    if r < 0.85:
        return {"map": {"key": {"atomic": rng.choice(ATOMS[:3])}, "value": gen_dtype(rng, depth - 1), "null": rng.random() < 0.5}}
    return gen_struct(rng, depth - 1)


def gen_struct(rng: random.Random, depth: int) -> dict:
    names = rng.sample(NAMES, rng.randint(0, 3))
    return {"struct": [{"name": n, "type": gen_dtype(rng, depth), "null": rng.random() < 0.5} for n in names]}


def dtype_to_py(d: dict, T: t.Any) -> t.Any:
    if "atomic" in d:
        return getattr(T, d["atomic"])()
    if "array" in d:
        return T.ArrayType(dtype_to_py(d["array"]["elem"], T), d["array"]["null"])
    if "map" in d:
        return T.MapType(dtype_to_py(d["map"]["key"], T), dtype_to_py(d["map"]["value"], T), d["map"]["null"])
    return T.StructType([T.StructField(f["name"], dtype_to_py(f["type"], T), f["null"]) for f in d["struct"]])


def dtype_to_lean(d: dict, T: t.Any) -> dict:
    """atomic names are sent as typeName() strings"""
    if "atomic" in d:
        return {"atomic": getattr(T, d["atomic"])().typeName()}
    if "array" in d:
        return {"array": {"elem": dtype_to_lean(d["array"]["elem"], T), "null": d["array"]["null"]}}
    if "map" in d:
        return {"map": {"key": dtype_to_lean(d["map"]["key"], T), "value": dtype_to_lean(d["map"]["value"], T), "null": d["map"]["null"]}}
    return {"struct": [{"name": f["name"], "type": dtype_to_lean(f["type"], T), "null": f["null"]} for f in d["struct"]]}


def dtype_paths(d: dict, path: t.Tuple = ()) -> t.List[t.Tuple]:
    out = [path]
    if "array" in d:
        out += dtype_paths(d["array"]["elem"], path + ("elem",))
    elif "map" in d:
        out += dtype_paths(d["map"]["value"], path + ("value",))
    elif "struct" in d:
        for i, f in enumerate(d["struct"]):
            out += dtype_paths(f["type"], path + (i,))
    return out


def mutate_schema(rng: random.Random, s: dict) -> t.Tuple[str, dict]:
    s = copy.deepcopy(s)
    kind = rng.choice(["equal", "nullable", "rename", "retype", "drop", "add", "deep"])
    fields = s["struct"]
    if kind == "equal" or (not fields and kind not in ("add",)):
        return "equal", s
    if kind == "nullable":

        def flip(d: dict) -> None:
            if "array" in d:
                d["array"]["null"] = not d["array"]["null"]
                flip(d["array"]["elem"])
            elif "map" in d:
                d["map"]["null"] = not d["map"]["null"]
            elif "struct" in d:
                for f in d["struct"]:
                    f["null"] = not f["null"]
                    flip(f["type"])

        flip(s)
        return kind, s
    if kind == "rename":
        rng.choice(fields)["name"] += "_"
    elif kind == "retype":
        f = rng.choice(fields)
        f["type"] = {"atomic": rng.choice(ATOMS)}
    elif kind == "drop":
        fields.pop(rng.randrange(len(fields)))
    elif kind == "add":
        fields.append({"name": "extra", "type": {"atomic": "LongType"}, "null": True})
    else:
        # change something below the top level (array element, map value, nested struct field)
        f = rng.choice(fields)
        paths = [p for p in dtype_paths(f["type"]) if p]
        if paths:
            p = rng.choice(paths)
            d = f["type"]
            for step in p[:-1]:
                d = d["array"]["elem"] if step == "elem" else d["map"]["value"] if step == "value" else d["struct"][step]["type"]
            last = p[-1]
            new = {"atomic": rng.choice(ATOMS)}
            if last == "elem":
                d["array"]["elem"] = new
            elif last == "value":
                d["map"]["value"] = new
            else:
                d["struct"][last]["type"] = new
    return kind, s


def run_schema(which: str, a: dict, e: dict) -> str:
    I = impls()[which]
    try:
        I["ase"](dtype_to_py(a, I["types"]), dtype_to_py(e, I["types"]))
        return "accept"
    except I["reject"]:
        return "reject"
    except Exception as ex:  # noqa
        return "error:" + type(ex).__name__


# ------------------------------------------------------------------------------------------------
# cases and evaluation
# ------------------------------------------------------------------------------------------------


def cases_for(ctx: Ctx) -> t.List[dict]:
    rng = ctx.rng
    cases: t.List[dict] = []
    corpus_dir = os.path.join(vlib.VERIF, "corpus", ID)
    if os.path.isdir(corpus_dir):
        for fn in sorted(os.listdir(corpus_dir)):
            if fn.endswith(".json"):
                c = json.load(open(os.path.join(corpus_dir, fn)))
                c["origin"] = "corpus:" + fn
                cases.append(c)
    n_row, n_assert, n_schema = (6000, 4000, 2500) if ctx.thorough else (900, 700, 400)
    for i in range(n_row):
        allow_dec = i % 5 == 0
        c = gen_ctor(rng, allow_dec)
        cases.append({"kind": "row", "ctor": c, "ops": gen_ops(rng, c, allow_dec), "origin": "random"})
    for i in range(n_assert):
        allow_dec = i % 8 == 0
        rows = gen_rows(rng, allow_dec)
        kind = VARIANTS[i % len(VARIANTS)]
        exp = variant(rng, rows, kind, allow_dec)
        opts = rng.choice(OPTIONS)
        if isinstance(exp, tuple):
            # band variants return (actual, expected) and need a tolerance that makes the band wide
            _, rows, exp = exp
            lo = min(abs(x) for x in (n / SCALE for r in rows + exp for n in all_floats(r)) if x) if rows else 1.0
            opts = dict(rng.choice([{"rtol": 0.5, "atol": 0.0}, {"rtol": 0.5, "atol": 0.0, "checkRowOrder": True}]))
            if any(abs(n / SCALE) in (3.0, 4.0) for r in rows + exp for n in all_floats(r)) and rng.random() < 0.5:
                opts["rtol"] = 0.25
        else:
            if rng.random() < 0.3:
                rng.shuffle(exp)
            if rng.random() < 0.15:
                rows, exp = exp, rows
        cases.append({"kind": "assert", "actual": rows, "expected": exp, "opts": opts, "variant": kind, "origin": "random"})
    for _ in range(n_schema):
        s = gen_struct(rng, 2)
        kind, m = mutate_schema(rng, s)
        cases.append({"kind": "schema", "a": s, "e": m, "variant": kind, "origin": "random"})
    return cases


def lean_case(i: int, c: dict, defaults: dict) -> dict:
    if c["kind"] == "row":
        if "recall" in c["ctor"]:
            return {"case": i, "kind": "row", "ctor": {"positional": {"vals": []}}, "ops": []}
        return {"case": i, "kind": "row", "ctor": c["ctor"], "ops": c["ops"]}
    if c["kind"] == "assert":
        return {
            "case": i,
            "kind": "assert",
            "actual": c["actual"],
            "expected": c["expected"],
            "order": bool(c["opts"].get("checkRowOrder", defaults["checkRowOrder"])),
            "close": close_table(c["actual"], c["expected"], c["opts"], defaults),
        }
    T = impls()["sf"]["types"]
    return {"case": i, "kind": "schema", "a": dtype_to_lean(c["a"], T), "e": dtype_to_lean(c["e"], T)}


def has_decimal(v: t.Any) -> bool:
    return "Decimal" in json.dumps(v) or '"dec"' in json.dumps(v)


def evaluate(cases: t.List[dict], with_model: bool = True) -> t.List[dict]:
    defaults = live_defaults()["sf"]
    outs: t.List[t.Optional[dict]] = [None] * len(cases)
    if with_model:
        try:
            outs = vlib.run_driver("C19", [lean_case(i, c, defaults) for i, c in enumerate(cases)])
        except Exception as e:
            log(f"C19: driver unavailable: {str(e)[:300]}")
            outs = [None] * len(cases)
            with_model = False
    res = []
    for c, o in zip(cases, outs):
        if o is not None and c["kind"] == "row" and "recall" in c["ctor"]:
            o = None  # calling a Row object that already has fields is outside the Lean transcription (direct differential only)
        if o is not None and "err" in o:
            raise RuntimeError(f"driver rejected a case: {o} {json.dumps(c)[:300]}")
        r: t.Dict[str, t.Any] = {"case": c}
        if c["kind"] == "row":
            sf = run_script("sf", c["ctor"], c["ops"])
            ps = run_script("ps", c["ctor"], c["ops"])
            dec_top = has_top_decimal(c["ctor"])
            psf = run_script("ps", ctor_floatify(c["ctor"]), c["ops"]) if dec_top else ps
            r.update(sf=sf, ps=ps, spec_ok=abs_outs(sf) == abs_outs(psf), intended_diff=dec_top and abs_outs(sf) != abs_outs(ps))
            if o is not None:
                r["model_ok"] = (o["sf"] == sf) and (o["ps"] == ps)
                r["model"] = {"sf": o["sf"], "ps": o["ps"]}
        elif c["kind"] == "assert":
            sf = run_assert("sf", c["actual"], c["expected"], c["opts"])
            ps = run_assert("ps", c["actual"], c["expected"], c["opts"])
            decimal_case = has_decimal(c["actual"]) or has_decimal(c["expected"])
            r.update(sf=sf, ps=ps, spec_ok=(sf == ps) or decimal_case, intended_diff=decimal_case and sf != ps)
            if o is not None:
                r["model_ok"] = ((("accept" if o["sf"] else "reject") == sf) and (("accept" if o["ps"] else "reject") == ps)) or decimal_case
                r["model"] = {"sf": o["sf"], "ps": o["ps"]}
        else:
            sf = run_schema("sf", c["a"], c["e"])
            ps = run_schema("ps", c["a"], c["e"])
            r.update(sf=sf, ps=ps, spec_ok=sf == ps, intended_diff=False)
            if o is not None:
                r["model_ok"] = (("accept" if o["sf"] else "reject") == sf) and (("accept" if o["ps"] else "reject") == ps)
                r["model"] = {"sf": o["sf"], "ps": o["ps"]}
        if o is None:
            r["model_ok"] = None
        res.append(r)
    return res


def shrink(c: dict) -> dict:
    """greedy: fewer ops / fewer rows / simpler option set while sqlframe still differs from pyspark"""

    def bad(x: dict) -> bool:
        return not evaluate([x], with_model=False)[0]["spec_ok"]

    best = c
    changed = True
    while changed:
        changed = False
        cands: t.List[dict] = []
        if best["kind"] == "row":
            cands = [dict(best, ops=best["ops"][:i] + best["ops"][i + 1 :]) for i in range(len(best["ops"]))]
        elif best["kind"] == "assert":
            for key in ("actual", "expected"):
                cands += [dict(best, **{key: best[key][:i] + best[key][i + 1 :]}) for i in range(len(best[key]))]
            if best["opts"]:
                cands.append(dict(best, opts={}))
        else:
            for key in ("a", "e"):
                cands += [dict(best, **{key: {"struct": best[key]["struct"][:i] + best[key]["struct"][i + 1 :]}}) for i in range(len(best[key]["struct"]))]
        for x in cands:
            if bad(x):
                best, changed = x, True
                break
    return best


def show_case(c: dict) -> str:
    if c["kind"] == "row":
        return f"Row script: construct {json.dumps(c['ctor'])[:300]} then {json.dumps(c['ops'])[:300]}"
    if c["kind"] == "assert":
        return f"assertDataFrameEqual(actual={json.dumps(c['actual'])[:300]}, expected={json.dumps(c['expected'])[:300]}, **{c['opts']})"
    return f"assertSchemaEqual({json.dumps(c['a'])[:300]}, {json.dumps(c['e'])[:300]})"


# ------------------------------------------------------------------------------------------------
# exercising the generated definitions
# ------------------------------------------------------------------------------------------------

_DEFAULTS: t.Dict[str, t.Any] = {}


def live_defaults() -> t.Dict[str, t.Any]:
    if not _DEFAULTS:
        for w in ("sf", "ps"):
            sig = inspect.signature(impls()[w]["adf"])
            _DEFAULTS[w] = {k: sig.parameters[k].default for k in ("checkRowOrder", "rtol", "atol")}
    return _DEFAULTS


def exercise(ctx: Ctx) -> t.Dict[str, t.Any]:
    import gen_c19

    notes: t.Dict[str, t.Any] = {}
    try:
        ext = gen_c19.extract(vlib.REPO)
    except Exception as e:
        notes["extract"] = str(e)
        return notes
    live = live_defaults()
    for w, key in (("sf", "sfDefaults"), ("ps", "psDefaults")):
        if {k: repr(v) for k, v in live[w].items()} != ext[key]:
            ctx.broken.append(f"exercise: Gen.RowCompat {key} {ext[key]} differ from the live signature {live[w]}")
    I = impls()
    # the Decimal decisions, observed
    d = decimal.Decimal("1.5")
    obs_kw = isinstance(I["sf"]["Row"](a=d)[0], float)
    obs_cr = isinstance(I["sf"]["Row"]("a")(d)[0], float)
    if obs_kw != ext["decKwargs"] or obs_cr != ext["decCreateRow"]:
        ctx.broken.append(f"exercise: Decimal conversion observed (kwargs={obs_kw}, factory={obs_cr}) differs from Gen ({ext['decKwargs']}, {ext['decCreateRow']})")
    # the call guard, observed on the boundary
    P = I["sf"]["Row"]("a", "b")
    obs = []
    for k in (1, 2, 3):
        try:
            P(*range(k))
            obs.append(False)
        except Exception:
            obs.append(True)
    want = {"gt": [False, False, True], "ge": [False, True, True], "lt": [True, False, False], "le": [True, True, False], "ne": [True, False, True], "eq": [False, True, False]}[ext["callGuard"]]
    if obs != want:
        ctx.broken.append(f"exercise: Row.__call__ guard observed {obs} but Gen says {ext['callGuard']}")
    notes["same_methods"] = ext["sameMethods"]
    notes["diff_methods"] = ext["diffMethods"]
    notes["same_funcs"] = ext["sameFuncs"]
    notes["diff_funcs"] = ext["diffFuncs"]
    notes["extra_methods"] = ext["extraMethods"]
    return notes


# ------------------------------------------------------------------------------------------------
# the check
# ------------------------------------------------------------------------------------------------


def run(ctx: Ctx) -> None:
    idx = vlib.props_index()[ID]
    vlib.prove(ctx, MODULES, GEN, idx["theorems"], SOURCES)
    ctx.cov["table_exercise"] = exercise(ctx)

    cases = cases_for(ctx)
    log(f"C19: {len(cases)} cases")
    res = evaluate(cases)

    model_bad = [r for r in res if r["model_ok"] is False]
    spec_bad = [r for r in res if not r["spec_ok"]]
    no_model = any(r["model_ok"] is None and not (r["case"]["kind"] == "row" and "recall" in r["case"]["ctor"]) for r in res)
    if no_model:
        ctx.broken.append("the Lean driver is unavailable (model comparison skipped)")
    if model_bad:
        ctx.broken.append(f"correspondence (real Row/helpers vs Impl/C19Row.lean): {len(model_bad)} of {len(res)} cases differ")

    reported = 0
    seen = set()
    for r in spec_bad:
        if reported >= 3:
            break
        c = shrink({k: v for k, v in r["case"].items() if k != "origin"})
        key = json.dumps(c, sort_keys=True)
        if key in seen:
            continue
        seen.add(key)
        rr = evaluate([c], with_model=not no_model)[0]
        vlib.report_violation(
            ctx,
            {
                "kind": "sqlframe differs from pyspark",
                "program": show_case(c),
                "case": c,
                "sqlframe": rr["sf"],
                "pyspark": rr["ps"],
                "model": rr.get("model"),
                "broken": ctx.broken,
            },
        )
        reported += 1
    if ctx.broken and not reported:
        first = model_bad[0] if model_bad else None
        vlib.report_violation(
            ctx,
            {
                "kind": "proof obligation or correspondence no longer checks; no failing input found",
                "broken": ctx.broken,
                "searched": {"cases": len(res)},
                "first_model_mismatch": ({"program": show_case(first["case"]), "case": first["case"], "sqlframe": first["sf"], "pyspark": first["ps"], "model": first.get("model")} if first else None),
            },
            no_input=True,
        )

    kinds: t.Dict[str, int] = {}
    variants: t.Dict[str, int] = {}
    verdicts: t.Dict[str, int] = {}
    errs: t.Dict[str, int] = {}
    nontrivial = set()
    for r in res:
        c = r["case"]
        kinds[c["kind"]] = kinds.get(c["kind"], 0) + 1
        if "variant" in c:
            variants[c["kind"] + ":" + c["variant"]] = variants.get(c["kind"] + ":" + c["variant"], 0) + 1
        if c["kind"] == "row":
            for o in r["sf"]:
                if "err" in o:
                    errs[o["err"]] = errs.get(o["err"], 0) + 1
            if len(r["sf"]) > 1 and any("err" not in o for o in r["sf"][1:]):
                nontrivial.add(vlib.digest([c["ctor"], c["ops"]]))
        else:
            verdicts[c["kind"] + ":" + str(r["sf"])] = verdicts.get(c["kind"] + ":" + str(r["sf"]), 0) + 1
            if (c["kind"] == "assert" and (c["actual"] or c["expected"])) or (c["kind"] == "schema" and (c["a"]["struct"] or c["e"]["struct"])):
                nontrivial.add(vlib.digest({k: v for k, v in c.items() if k != "origin"}))
    ctx.cov.update(
        {
            "evaluations": len(res),
            "distinct_nontrivial": len(nontrivial),
            "rule": "corpus; random Row scripts (kwargs / positional / args+kwargs / Row-class factory with duplicate names and wrong arity / calling a row; "
            "nested Rows, lists, dicts, None, Decimal; 3-8 queries each); random row lists with one of 15 near-miss variants (incl. differences between rtol*|actual| and rtol*|expected| at large rtol) x option settings; random schema pairs with 7 variants; "
            "non-trivial = distinct Row scripts with at least one successful query, distinct non-empty list / schema pairs",
            "traces_validated_against_impl": sum(1 for r in res if r["model_ok"]),
            "sqlframe_vs_pyspark_agree": sum(1 for r in res if r["spec_ok"]),
            "intended_decimal_differences_seen": sum(1 for r in res if r.get("intended_diff")),
            "kind_histogram": kinds,
            "variant_histogram": variants,
            "verdict_histogram": verdicts,
            "row_error_histogram": errs,
            "samples": [{"program": show_case(r["case"]), "sqlframe": r["sf"] if isinstance(r["sf"], str) else r["sf"][:4]} for r in res[:: max(1, len(res) // 4)][:4]],
        }
    )
    ctx.assumptions += [
        "pyspark.testing.utils is loaded from its file with pyspark.pandas made unimportable (its own ImportError fallback), because the package does not import under numpy 2; DataFrame (JVM) arguments are not exercised, only lists of Rows and StructTypes",
        "float closeness is an abstract predicate in Lean; the driver is given the truth table computed by Python for the floats of each case",
        "strings are drawn from an alphabet whose repr is the single-quoted string; field names do not collide with tuple/Row attribute names",
        "the packages' own exception classes are identified (RowError ~ PySparkValueError / PySparkTypeError); sqlframe's RowError is not a ValueError/TypeError subclass",
        "Decimal values in keyword / Row-class construction are converted to float by sqlframe (documented); the equivalence is stated for the floatified construction",
    ]


def replay(ctx: Ctx, rp: dict) -> None:
    c = rp.get("case")
    if not c:
        print("replay names a broken obligation, not an input:", rp.get("broken"))
        return
    r = evaluate([c], with_model=True)[0]
    print(json.dumps({"program": show_case(c), "sqlframe": r["sf"], "pyspark": r["ps"], "agree": r["spec_ok"], "model": r.get("model")}, indent=1, default=str)[:4000])
    if not r["spec_ok"]:
        vlib.report_violation(ctx, dict(rp, sqlframe=r["sf"], pyspark=r["ps"]))
