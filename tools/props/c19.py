"""
C19 — Row objects and the DataFrame assertion helpers behave as PySpark's.

proof      : lean/SqlframeModel/Props/C19.lean (two transcriptions Sf / Ps of Row and of the helpers, equivalence theorems;
             laws: attribute access reaches every non-dunder field, maps compared as mappings, the helper is a pure
             check over any call sequence, unordered comparison invariant under permutation)
tie        : (a) Gen/RowCompat.lean regenerated from sqlframe/base/types.py + sqlframe/testing/utils.py AND the installed
             pyspark sources (decisions + per-method source identity), every definition exercised against the live objects;
             (b) correspondence: generated Row scripts / row-list pairs / call sequences on shared lists / argument
             pairs / schema pairs run on the REAL sqlframe objects and on the REAL pyspark objects, each compared with
             its Lean transcription (Driver/C19.lean)
search     : the same runs compare sqlframe with pyspark directly (the specification is PySpark's behaviour);
             observables include the objects handed in, read back after the calls
"""
from __future__ import annotations

import copy
import decimal
import importlib.util
import inspect
import json
import os
import pickle
import random
import sys
import types as pytypes
import typing as t
import warnings

import vlib
from vlib import Ctx, log

ID = "C19"
LEVEL = "proof"
MODULES = ["SqlframeModel.Codec.C19", "SqlframeModel.Props.C19"]
GEN = ["RowCompat"]
SOURCES = ["SqlframeModel/Props/C19.lean", "SqlframeModel/Impl/C19Row.lean", "SqlframeModel/Lemmas/C19Dict.lean", "SqlframeModel/Lemmas/C19Sort.lean"]
HERE = os.path.dirname(os.path.abspath(__file__))
SCALE = 10**9
PYSPARK_DIR = "/venv/lib/python3.12/site-packages/pyspark"

# ------------------------------------------------------------------------------------------------
# the two real implementations
# ------------------------------------------------------------------------------------------------

_IMPL: t.Dict[str, t.Any] = {}


def impls() -> t.Dict[str, t.Any]:
    """sqlframe's and pyspark's Row / helpers / types, imported once.  pyspark's helper module is loaded from its
    file (the package `pyspark.testing` does not import here: numpy 2) with `pyspark.pandas` made unavailable, so
    that it takes its documented no-pandas path (lists of Rows need no JVM)."""
    if _IMPL:
        return _IMPL
    warnings.filterwarnings("ignore")
    if vlib.REPO not in sys.path:
        sys.path.insert(0, vlib.REPO)
    from sqlframe.base import types as sft
    from sqlframe.base.exceptions import DataFrameDiffError, RowError, SchemaDiffError, SQLFrameException
    from sqlframe.testing import utils as sfu

    import pyspark.sql.types as pst
    from pyspark.errors import PySparkAssertionError, PySparkTypeError, PySparkValueError

    class _NoPandasOnSpark:
        def find_spec(self, name, path=None, target=None):
            if name == "pyspark.pandas" or name.startswith("pyspark.pandas.") or name == "pyspark.testing.pandasutils":
                raise ImportError("pyspark.pandas is not usable in this sandbox (numpy 2); the helper's no-pandas path is exercised")
            return None

    sys.meta_path.insert(0, _NoPandasOnSpark())
    spec = importlib.util.spec_from_file_location("_verif_pyspark_testing_utils", os.path.join(PYSPARK_DIR, "testing", "utils.py"))
    psu = importlib.util.module_from_spec(spec)
    sys.modules["_verif_pyspark_testing_utils"] = psu
    spec.loader.exec_module(psu)  # type: ignore
    # the colour probe of the error MESSAGE spawns a shell (`tput colors`) on every rejected pair; the text of the message
    # is no observable of the property, so both helpers are told "no colour" once instead
    for m in (sfu, psu):
        if hasattr(m, "_terminal_color_support"):
            m._terminal_color_support = lambda: "false\n"
    _IMPL.update(
        sf={"Row": sft.Row, "types": sft, "adf": sfu.assertDataFrameEqual, "ase": sfu.assertSchemaEqual, "reject": (DataFrameDiffError, SchemaDiffError), "refuse": (SQLFrameException,), "utils": sfu},
        ps={"Row": pst.Row, "types": pst, "adf": psu.assertDataFrameEqual, "ase": psu.assertSchemaEqual, "reject": (PySparkAssertionError,), "refuse": (PySparkAssertionError,), "utils": psu},
        errs={RowError: "rowError", PySparkValueError: "psValueError", PySparkTypeError: "psTypeError"},
    )
    return _IMPL


def err_name(e: BaseException) -> str:
    for cls, nm in impls()["errs"].items():
        if isinstance(e, cls):
            return nm
    for cls, nm in ((KeyError, "keyError"), (IndexError, "indexError"), (AttributeError, "attributeError"), (TypeError, "typeError"), (RuntimeError, "runtimeError"), (ValueError, "valueError")):
        if type(e) is cls:
            return nm
    return "other:" + type(e).__name__


ABS = {"psValueError": "rowError", "psTypeError": "rowError"}

# ------------------------------------------------------------------------------------------------
# values: JSON spec (what the Lean codec reads)  <->  Python objects of one package
# ------------------------------------------------------------------------------------------------


def to_py(v: t.Any, Row: t.Any) -> t.Any:
    if v is None:
        return None
    if "int" in v:
        return v["int"]
    if "str" in v:
        return v["str"]
    if "flt" in v:
        return v["flt"]["num"] / SCALE
    if "dec" in v:
        return decimal.Decimal(v["dec"]["repr"][len("Decimal('") : -2])
    if "list" in v:
        return [to_py(x, Row) for x in v["list"]]
    if "dict" in v:
        return {k: to_py(x, Row) for k, x in zip(v["dict"]["ks"], v["dict"]["vs"])}
    if "row" in v:
        r = v["row"]
        vals = [to_py(x, Row) for x in r["vs"]]
        if r["hf"]:
            names = [f["str"] for f in r["fields"]]
            if len(set(names)) < len(names):
                return Row(*names)(*vals)  # duplicate field names (as a join gives them) cannot go through **kwargs
            return Row(**dict(zip(names, vals)))
        return Row(*vals)
    raise ValueError(v)


def flt(x: float) -> dict:
    return {"flt": {"num": round(x * SCALE), "repr": repr(x)}}


def dec(s: str) -> dict:
    d = decimal.Decimal(s)
    return {"dec": {"num": int(d * SCALE), "repr": repr(d), "frepr": repr(float(d))}}


def from_py(o: t.Any) -> t.Any:
    I = impls()
    if o is None:
        return None
    if isinstance(o, bool):
        return {"other": repr(o)}
    if isinstance(o, int):
        return {"int": o}
    if isinstance(o, str):
        return {"str": o}
    if isinstance(o, float):
        return flt(o)
    if isinstance(o, decimal.Decimal):
        return {"dec": {"num": int(o * SCALE), "repr": repr(o), "frepr": repr(float(o))}}
    if isinstance(o, (I["sf"]["Row"], I["ps"]["Row"])):
        has = "__fields__" in o.__dict__
        fields = [from_py(f) for f in o.__dict__["__fields__"]] if has else []
        return {"row": {"hf": has, "fields": fields, "vs": [from_py(x) for x in tuple(o)]}}
    if isinstance(o, list):
        return {"list": [from_py(x) for x in o]}
    if isinstance(o, dict):
        return {"dict": {"ks": list(o.keys()), "vs": [from_py(x) for x in o.values()]}}
    return {"other": repr(o)[:60]}


def floatify(v: t.Any) -> t.Any:
    if isinstance(v, dict) and "dec" in v:
        return {"flt": {"num": v["dec"]["num"], "repr": v["dec"]["frepr"]}}
    return v


def ctor_floatify(c: dict) -> dict:
    c = copy.deepcopy(c)
    if "kwargs" in c:
        c["kwargs"]["vals"] = [floatify(x) for x in c["kwargs"]["vals"]]
    elif "factory" in c:
        c["factory"]["vals"] = [floatify(x) for x in c["factory"]["vals"]]
    elif "both" in c:
        c["both"]["kvals"] = [floatify(x) for x in c["both"]["kvals"]]
    elif "recall" in c:
        c["recall"]["vals"] = [floatify(x) for x in c["recall"]["vals"]]
        c["recall"]["vals2"] = [floatify(x) for x in c["recall"]["vals2"]]
    return c


def has_top_decimal(c: dict) -> bool:
    return ctor_floatify(c) != c


# ------------------------------------------------------------------------------------------------
# running Row scripts on a real Row class
# ------------------------------------------------------------------------------------------------


def construct(Row: t.Any, c: dict) -> t.Any:
    if "kwargs" in c:
        return Row(**{n: to_py(v, Row) for n, v in zip(c["kwargs"]["names"], c["kwargs"]["vals"])})
    if "positional" in c:
        return Row(*[to_py(v, Row) for v in c["positional"]["vals"]])
    if "both" in c:
        return Row(*[to_py(v, Row) for v in c["both"]["vals"]], **{n: to_py(v, Row) for n, v in zip(c["both"]["names"], c["both"]["kvals"])})
    if "factory" in c:
        return Row(*c["factory"]["names"])(*[to_py(v, Row) for v in c["factory"]["vals"]])
    if "recall" in c:
        r = Row(**{n: to_py(v, Row) for n, v in zip(c["recall"]["names"], c["recall"]["vals"])})
        return r(*[to_py(v, Row) for v in c["recall"]["vals2"]])
    raise ValueError(c)


def apply_op(r: t.Any, op: t.Any, Row: t.Any) -> t.Any:
    if op == "len":
        return {"n": len(r)}
    if op == "repr":
        return {"s": repr(r)}
    if op == "pickle":
        r2 = pickle.loads(pickle.dumps(r))
        try:
            same_hash = hash(r2) == hash(tuple(r2)) == hash(r)
        except TypeError:  # unhashable values inside (dict / list): tuples behave the same
            same_hash = True
        if type(r2) is not type(r) or not same_hash:
            return {"other": "pickle changed the class / hash differs from the tuple's"}
        return {"val": from_py(r2)}
    if op == "fields":
        return {"val": {"list": [from_py(f) for f in r.__fields__]}}
    if op == "hash":
        return {"b": hash(r) == hash(tuple(r))}
    if op == "asDictDefault":
        return {"val": from_py(r.asDict())}
    k, a = next(iter(op.items()))
    if k == "getIdx":
        return {"val": from_py(r[a["i"]])}
    if k == "getKey":
        return {"val": from_py(r[to_py(a["k"], Row)])}
    if k == "getAttr":
        x = getattr(r, a["name"])
        return {"callable": True} if callable(x) and not isinstance(x, Row) else {"val": from_py(x)}
    if k == "getSlice":
        x = r[a["i"] : a["j"]]
        return {"tup": [from_py(y) for y in x]} if type(x) is tuple else {"other": "a slice of a Row is a " + type(x).__name__}
    if k == "ne":
        return {"b": r != to_py(a["other"], Row)}
    if k == "le":
        return {"b": r <= to_py(a["other"], Row)}
    if k == "delAttr":
        delattr(r, a["name"])
        return {"b": True}
    if k == "setFields":
        r.__fields__ = list(a["names"])
        return {"b": True}
    if k == "contains":
        return {"b": to_py(a["v"], Row) in r}
    if k == "asDict":
        return {"val": from_py(r.asDict(a["recursive"]))}
    if k == "eq":
        return {"b": r == to_py(a["other"], Row)}
    if k == "lt":
        return {"b": r < to_py(a["other"], Row)}
    if k == "setAttr":
        setattr(r, a["name"], 1)
        return {"b": True}
    raise ValueError(op)


def run_script(which: str, c: dict, ops: t.List[t.Any]) -> t.List[t.Any]:
    Row = impls()[which]["Row"]
    try:
        r = construct(Row, c)
    except Exception as e:  # noqa
        return [{"err": err_name(e)}]
    out = [{"val": from_py(r)}]
    for op in ops:
        try:
            out.append(apply_op(r, op, Row))
        except Exception as e:  # noqa
            out.append({"err": err_name(e)})
    # the row after all queries (its values, its nested lists / dicts / Rows, its __fields__): queries change nothing
    out.append({"val": from_py(r)})
    return out


def abs_outs(outs: t.List[t.Any]) -> t.List[t.Any]:
    return [{"err": ABS.get(o["err"], o["err"])} if "err" in o else o for o in outs]


# ------------------------------------------------------------------------------------------------
# generators
# ------------------------------------------------------------------------------------------------

NAMES = ["a", "b", "c", "name", "age", "k1", "x_y", "A"]
# field names of Rows: every shape a column name takes in practice - Spark's own default names (_1, _2, _c0), a lone
# underscore, leading / trailing / double underscores, dunder-like names, names of tuple / Row methods, a blank inside
FIELD_NAMES = NAMES + ["_1", "_2", "_c0", "_", "__x", "__x__", "x_", "a_", "count", "index", "a b", "é1"]
PROBE_NAMES = ["zz", "__x", "age", "_1", "_zz", "__zz", "_", "x__", "count"]
INTS = [-7, 2, 3, 5, 10]
FLOATS = [1.5, 2.25, -0.125, 3.0, 1000.5, 0.1]
STRS = ["a", "b", "zz", "Alice", "", "x y"]
DECS = ["1.5", "2.25", "2.50", "3"]  # exactly representable in binary: Decimal == float is then decided by the value


def pick_names(rng: random.Random, n: int) -> t.List[str]:
    """n distinct field names: plain ones, or drawn from the whole alphabet of shapes"""
    return rng.sample(NAMES if rng.random() < 0.4 else FIELD_NAMES, n)


def gen_scalar(rng: random.Random, allow_dec: bool) -> t.Any:
    r = rng.random()
    if r < 0.12:
        return None
    if r < 0.4:
        return {"int": rng.choice(INTS)}
    if r < 0.62:
        return {"str": rng.choice(STRS)}
    if r < 0.85 or not allow_dec:
        return flt(rng.choice(FLOATS))
    return dec(rng.choice(DECS))


def gen_value(rng: random.Random, depth: int, allow_dec: bool, top_dec: bool = False) -> t.Any:
    """top_dec: may this position itself be a Decimal (only the row under test's own fields / list & dict elements)"""
    r = rng.random()
    if depth <= 0 or r < 0.55:
        v = gen_scalar(rng, allow_dec)
        if isinstance(v, dict) and "dec" in v and not top_dec:
            return flt(rng.choice(FLOATS))
        return v
    if r < 0.7:
        return {"list": [gen_value(rng, depth - 1, allow_dec, top_dec=True) for _ in range(rng.randint(0, 3))]}
    if r < 0.82:
        ks = rng.sample(NAMES, rng.randint(0, 3))
        return {"dict": {"ks": ks, "vs": [gen_value(rng, depth - 1, allow_dec, top_dec=True) for _ in ks]}}
    # a nested Row built with keyword arguments (its own fields are never Decimal: sqlframe would convert them)
    ks = pick_names(rng, rng.randint(1, 3))
    return {"row": {"hf": True, "fields": [{"str": k} for k in ks], "vs": [gen_value(rng, depth - 1, allow_dec, top_dec=False) for _ in ks]}}


def gen_ctor(rng: random.Random, allow_dec: bool) -> dict:
    r = rng.random()
    n = rng.randint(0, 4)
    vals = [gen_value(rng, 2, allow_dec, top_dec=True) for _ in range(n)]
    if r < 0.4:
        names = pick_names(rng, n)
        return {"kwargs": {"names": names, "vals": vals}}
    if r < 0.55:
        return {"positional": {"vals": vals}}
    if r < 0.6:
        names = pick_names(rng, max(1, n))
        return {"both": {"vals": vals or [{"int": 2}], "names": names, "kvals": [gen_value(rng, 1, allow_dec) for _ in names]}}
    if r < 0.93:
        # Row class factory: duplicate field names allowed; fewer / equal / more values than fields
        pool = NAMES[:4] if rng.random() < 0.4 else rng.sample(FIELD_NAMES, 4)
        names = [rng.choice(pool) for _ in range(rng.randint(0, 4))]
        k = max(0, len(names) + rng.choice([0, 0, 0, -1, 1]))
        vals = [gen_value(rng, 2, allow_dec, top_dec=True) for _ in range(k)]
        return {"factory": {"names": names, "vals": vals}}
    names = pick_names(rng, rng.randint(1, 3))
    v1 = [{"str": rng.choice(NAMES)} for _ in names]
    k = max(0, len(names) + rng.choice([0, -1, 1]))
    return {"recall": {"names": names, "vals": v1, "vals2": [gen_value(rng, 1, allow_dec, top_dec=True) for _ in range(k)]}}


def ctor_names(c: dict) -> t.List[str]:
    for k in ("kwargs", "factory", "recall", "both"):
        if k in c:
            return list(c[k]["names"])
    return []


def ctor_vals(c: dict) -> t.List[t.Any]:
    k = next(iter(c))
    return list(c[k].get("vals2" if k == "recall" else "vals", []))


def gen_ops(rng: random.Random, c: dict, allow_dec: bool) -> t.List[t.Any]:
    names = ctor_names(c) + PROBE_NAMES
    own = ctor_names(c) or PROBE_NAMES
    vals = ctor_vals(c)
    n = len(vals)

    def nm() -> str:
        # a field of the row half of the time (so that hits are as frequent as misses), any probe name otherwise
        r0 = rng.random()
        if r0 < 0.08:
            return rng.choice(own).swapcase()  # the same name in the other case is another name
        return rng.choice(own) if r0 < 0.55 else rng.choice(names)

    ops: t.List[t.Any] = []
    for _ in range(rng.randint(3, 8)):
        r = rng.random()
        if r < 0.09:
            ops.append({"getIdx": {"i": rng.randint(-n - 1, n + 1)}})
        elif r < 0.13:
            ops.append({"getSlice": {"i": rng.randint(-n - 1, n + 1), "j": rng.randint(-n - 1, n + 2)}})
        elif r < 0.25:
            ops.append({"getKey": {"k": {"str": nm()}}})
        elif r < 0.41:
            ops.append({"getAttr": {"name": nm()}})
        elif r < 0.51:
            item = {"str": nm()} if rng.random() < 0.6 else (rng.choice(vals) if vals and rng.random() < 0.7 else gen_scalar(rng, False))
            ops.append({"contains": {"v": item}})
        elif r < 0.60:
            ops.append({"asDict": {"recursive": rng.random() < 0.6}})
        elif r < 0.63:
            ops.append("asDictDefault")
        elif r < 0.67:
            ops.append("len")
        elif r < 0.75:
            other = mutate_row_value(rng, c, allow_dec)
            ops.append({rng.choice(["eq", "eq", "ne"]): {"other": other}})
        elif r < 0.81:
            other = mutate_row_value(rng, c, False)
            ops.append({rng.choice(["lt", "le"]): {"other": other}})
        elif r < 0.86:
            ops.append("repr")
        elif r < 0.90:
            ops.append({"setAttr": {"name": rng.choice(["a", "zz", "x"]) if rng.random() < 0.4 else nm()}})
        elif r < 0.915:
            ops.append({"delAttr": {"name": nm()}})
        elif r < 0.93:
            # the one assignment a Row allows; as many names as values, or one fewer / more.  Not on a row built
            # positionally from Decimals (H_fields_after_decimal: the documented conversion would happen late)
            if not (next(iter(c)) in ("positional", "both") and any(isinstance(v, dict) and "dec" in v for v in c[next(iter(c))]["vals"])):
                k = max(0, n + rng.choice([0, 0, -1, 1]))
                pool = rng.sample(FIELD_NAMES, min(len(FIELD_NAMES), k + 1))
                ops.append({"setFields": {"names": [rng.choice(pool) for _ in range(k)]}})
        elif r < 0.95:
            ops.append("pickle")
        elif r < 0.98:
            ops.append("hash")
        else:
            ops.append("fields")
    return ops


def mutate_row_value(rng: random.Random, c: dict, allow_dec: bool) -> t.Any:
    """another Row value (as a JSON spec) close to the one the constructor builds: same / one value changed / shorter"""
    vals = [floatify(v) for v in ctor_vals(c)]
    r = rng.random()
    if vals and r < 0.35:
        i = rng.randrange(len(vals))
        vals = vals[:i] + [gen_scalar(rng, False)] + vals[i + 1 :]
    elif vals and r < 0.5:
        vals = vals[:-1]
    if rng.random() < 0.5:
        names = (ctor_names(c) + NAMES)[: len(vals)]
        if len(set(names)) == len(names) and len(names) == len(vals) and names:
            return {"row": {"hf": True, "fields": [{"str": k} for k in names], "vs": vals}}
    return {"row": {"hf": False, "fields": [], "vs": vals}}


# ---- row lists for the assertion helper ------------------------------------------------------------


def gen_rows(rng: random.Random, allow_dec: bool) -> t.List[t.Any]:
    ncols = rng.randint(1, 3)
    names = pick_names(rng, ncols)
    kinds = [rng.choice(["int", "str", "flt", "flt", "list", "row", "dict", "mixed"]) for _ in names]

    def cell(kind: str) -> t.Any:
        if rng.random() < 0.1:
            return None
        if kind == "int":
            return {"int": rng.choice(INTS)}
        if kind == "str":
            return {"str": rng.choice(STRS)}
        if kind == "flt":
            return flt(rng.choice(FLOATS)) if not (allow_dec and rng.random() < 0.3) else dec(rng.choice(DECS))
        if kind == "list":
            return {"list": [flt(rng.choice(FLOATS)) if rng.random() < 0.5 else {"int": rng.choice(INTS)} for _ in range(rng.randint(0, 3))]}
        if kind == "dict":
            ks = rng.sample(NAMES, rng.randint(0, 2))
            return {"dict": {"ks": ks, "vs": [flt(rng.choice(FLOATS)) for _ in ks]}}
        if kind == "row":
            ks = pick_names(rng, 2)
            return {"row": {"hf": True, "fields": [{"str": k} for k in ks], "vs": [flt(rng.choice(FLOATS)), {"int": rng.choice(INTS)}]}}
        return gen_value(rng, 1, False)

    rows = []
    for _ in range(rng.randint(0, 4)):
        rows.append({"row": {"hf": True, "fields": [{"str": k} for k in names], "vs": [cell(k) for k in kinds]}})
    if rows and rng.random() < 0.25:
        rows.append(copy.deepcopy(rng.choice(rows)))  # duplicates
    return rows


def perturb_float(v: t.Any, delta: float) -> t.Any:
    x = v["flt"]["num"] / SCALE
    # kept on the 10^-9 grid, so that the value the implementations see is exactly the value the model is told
    return flt(round((x + delta) * SCALE) / SCALE)


def float_paths(v: t.Any, path: t.Tuple = ()) -> t.List[t.Tuple]:
    out: t.List[t.Tuple] = []
    if isinstance(v, dict):
        if "flt" in v:
            out.append(path)
        elif "list" in v:
            for i, x in enumerate(v["list"]):
                out += float_paths(x, path + (("list", i),))
        elif "dict" in v:
            for i, x in enumerate(v["dict"]["vs"]):
                out += float_paths(x, path + (("dict", i),))
        elif "row" in v:
            for i, x in enumerate(v["row"]["vs"]):
                out += float_paths(x, path + (("row", i),))
    return out


def set_path(v: t.Any, path: t.Tuple, f: t.Callable[[t.Any], t.Any]) -> t.Any:
    if not path:
        return f(v)
    v = copy.deepcopy(v)
    (k, i), rest = path[0], path[1:]
    if k == "list":
        v["list"][i] = set_path(v["list"][i], rest, f)
    elif k == "dict":
        v["dict"]["vs"][i] = set_path(v["dict"]["vs"][i], rest, f)
    else:
        v["row"]["vs"][i] = set_path(v["row"]["vs"][i], rest, f)
    return v


VARIANTS = ["equal", "permuted", "inside_tol", "outside_tol", "band_accept", "band_reject", "drop_row", "add_row", "drop_field", "null_cell", "nesting", "int_for_float", "rename_field", "none_row", "dup_count"]


def variant(rng: random.Random, rows: t.List[t.Any], kind: str, allow_dec: bool) -> t.List[t.Any]:
    rows = copy.deepcopy(rows)
    if kind in ("band_accept", "band_reject") and not any(float_paths(r) for r in rows if r):
        # make sure there is a float to perturb: plain, inside a list, a nested Row or a map value
        f = flt(1.5)
        cell = rng.choice([f, {"list": [flt(2.25), f]}, {"row": {"hf": True, "fields": [{"str": "f"}], "vs": [f]}}, {"dict": {"ks": ["p"], "vs": [f]}}])
        rows = [{"row": {"hf": True, "fields": [{"str": "k"}, {"str": "v"}], "vs": [{"str": rng.choice(STRS)}, cell]}}]
    if kind == "equal" or not rows:
        if kind == "add_row":
            return rows + gen_rows(rng, allow_dec)[:1]
        return rows
    if kind == "permuted":
        rng.shuffle(rows)
        return rows
    i = rng.randrange(len(rows))
    if kind in ("inside_tol", "outside_tol"):
        paths = float_paths(rows[i])
        if not paths:
            return rows
        p = rng.choice(paths)
        cur = [rows[i]]
        base = abs(_get_path(rows[i], p)["flt"]["num"] / SCALE)
        delta = (1e-7 * max(base, 1e-3)) if kind == "inside_tol" else (1e-3 * max(base, 1.0))
        rows[i] = set_path(rows[i], p, lambda v: perturb_float(v, delta * rng.choice([1, -1])))
        return rows
    if kind in ("band_accept", "band_reject"):
        # the closeness test is asymmetric: |a - b| <= atol + rtol * |b| with b the EXPECTED value.  Make the
        # difference fall between rtol*|actual| and rtol*|expected| (exact binary floats; used with a large rtol, atol 0)
        cand = [j for j, r in enumerate(rows) if r and float_paths(r)]
        if not cand:
            return rows
        i = rng.choice(cand)
        paths = float_paths(rows[i])
        p = rng.choice(paths)
        lo, hi = rng.choice([(1.0, 2.0), (3.0, 4.0), (0.5, 1.0), (-1.0, -2.0)])
        a, b = (lo, hi) if kind == "band_accept" else (hi, lo)   # actual, expected
        rows[i] = set_path(rows[i], p, lambda v: flt(a))
        out = copy.deepcopy(rows)
        out[i] = set_path(out[i], p, lambda v: flt(b))
        rows[:] = rows  # actual is modified in place by the caller through the returned pair
        return ("pair", rows, out)
    if kind == "drop_row":
        return rows[:i] + rows[i + 1 :]
    if kind == "add_row":
        return rows + [copy.deepcopy(rows[i])]
    if kind == "drop_field":
        r = rows[i]["row"]
        if len(r["vs"]) > 1:
            r["fields"], r["vs"] = r["fields"][:-1], r["vs"][:-1]
        return rows
    if kind == "null_cell":
        r = rows[i]["row"]
        j = rng.randrange(len(r["vs"]))
        r["vs"][j] = None if r["vs"][j] is not None else {"int": 2}
        return rows
    if kind == "nesting":
        r = rows[i]["row"]
        j = rng.randrange(len(r["vs"]))
        v = r["vs"][j]
        if isinstance(v, dict) and "list" in v:
            r["vs"][j] = {"list": v["list"] + [{"int": 2}]} if rng.random() < 0.5 else {"row": {"hf": False, "fields": [], "vs": v["list"]}}
        elif isinstance(v, dict) and "row" in v:
            if rng.random() < 0.5:
                r["vs"][j] = {"list": v["row"]["vs"]}
            else:
                # one field fewer (a Row built from no keyword arguments has no __fields__ at all)
                fs, vs = v["row"]["fields"][:-1], v["row"]["vs"][:-1]
                r["vs"][j] = {"row": {"hf": bool(fs), "fields": fs, "vs": vs}}
        elif isinstance(v, dict) and "dict" in v:
            d = v["dict"]
            r["vs"][j] = {"dict": {"ks": d["ks"] + ["q"], "vs": d["vs"] + [{"int": 2}]}} if rng.random() < 0.5 else {"dict": {"ks": list(reversed(d["ks"])), "vs": list(reversed(d["vs"]))}}
        else:
            r["vs"][j] = {"list": [v]}
        return rows
    if kind == "int_for_float":
        paths = float_paths(rows[i])
        if paths:
            p = rng.choice(paths)
            rows[i] = set_path(rows[i], p, lambda v: {"int": round(v["flt"]["num"] / SCALE)} if rng.random() < 0.5 else flt(float(round(v["flt"]["num"] / SCALE))))
        return rows
    if kind == "rename_field":
        r = rows[i]["row"]
        r["fields"][0] = {"str": r["fields"][0]["str"] + "_"}
        return rows
    if kind == "none_row":
        rows[i] = None
        return rows
    if kind == "dup_count":
        # same set of rows, different multiplicities
        return rows + [copy.deepcopy(rows[i])] if rng.random() < 0.5 else rows[:i] + rows[i + 1 :] + [copy.deepcopy(rows[(i + 1) % len(rows)])]
    return rows


def _get_path(v: t.Any, path: t.Tuple) -> t.Any:
    for k, i in path:
        v = v["list"][i] if k == "list" else v["dict"]["vs"][i] if k == "dict" else v["row"]["vs"][i]
    return v


def all_floats(v: t.Any) -> t.List[int]:
    out = []
    if isinstance(v, dict):
        if "flt" in v:
            out.append(v["flt"]["num"])
        for k in ("list",):
            if k in v:
                for x in v[k]:
                    out += all_floats(x)
        if "dict" in v:
            for x in v["dict"]["vs"]:
                out += all_floats(x)
        if "row" in v:
            for x in v["row"]["vs"]:
                out += all_floats(x)
    return out


OPTIONS = [
    {},
    {"checkRowOrder": True},
    {"rtol": 0.0, "atol": 0.0},
    {"rtol": 1e-2},
    {"atol": 0.5, "checkRowOrder": True},
    {"rtol": 0.0, "atol": 1e-12},
]


def run_assert(which: str, actual: t.List[t.Any], expected: t.List[t.Any], opts: dict) -> str:
    I = impls()[which]
    a = [to_py(r, I["Row"]) for r in actual]
    e = [to_py(r, I["Row"]) for r in expected]
    before = [snapshot(a), snapshot(e)]
    try:
        I["adf"](a, e, **opts)
        v = "accept"
    except I["reject"]:
        v = "reject"
    except Exception as ex:  # noqa
        v = "error:" + type(ex).__name__
    # the caller's lists (order, rows, nested values) are as they were
    return v if [snapshot(a), snapshot(e)] == before else v + "+arguments-changed"


def close_table(actual: t.List[t.Any], expected: t.List[t.Any], opts: dict, defaults: dict) -> t.List[t.List[t.Any]]:
    rtol = opts.get("rtol", defaults["rtol"])
    atol = opts.get("atol", defaults["atol"])
    fa = sorted({n for r in actual for n in all_floats(r)})
    fe = sorted({n for r in expected for n in all_floats(r)})
    tbl = []
    for x in fa:
        for y in fe:
            v1, v2 = x / SCALE, y / SCALE
            tbl.append([x, y, not (abs(v1 - v2) > (atol + rtol * abs(v2)))])
    return tbl



# ---- every single-site structural edit of a nested value (bounded-exhaustive) ----------------------
#
# compare_vals walks lists, Rows and maps; each container kind has its own notion of "the same" (a list: same length,
# position by position; a Row: position by position up to the shorter one, names ignored; a map: same key set, key by
# key, insertion order irrelevant; floats within the tolerance of the EXPECTED value; everything else ==).  The family
# below takes rows with every kind nested in every other and applies, at EVERY node, every edit of that node's kind.


def node_paths(v: t.Any, path: t.Tuple = ()) -> t.List[t.Tuple]:
    out = [path]
    if isinstance(v, dict):
        if "list" in v:
            for i, x in enumerate(v["list"]):
                out += node_paths(x, path + (("list", i),))
        elif "dict" in v:
            for i, x in enumerate(v["dict"]["vs"]):
                out += node_paths(x, path + (("dict", i),))
        elif "row" in v:
            for i, x in enumerate(v["row"]["vs"]):
                out += node_paths(x, path + (("row", i),))
    return out


def node_kind(v: t.Any) -> str:
    return "none" if v is None else next(iter(v))


def edits_of(v: t.Any) -> t.List[t.Tuple[str, t.Any]]:
    """(edit name, edited node) for every edit applicable to this node"""
    k = node_kind(v)
    out: t.List[t.Tuple[str, t.Any]] = []
    if k == "dict":
        ks, vs = v["dict"]["ks"], v["dict"]["vs"]
        n = len(ks)
        if n >= 2:
            out.append(("dict_reversed_insertion", {"dict": {"ks": ks[::-1], "vs": vs[::-1]}}))
            out.append(("dict_values_swapped", {"dict": {"ks": ks, "vs": [vs[1], vs[0]] + vs[2:]}}))
            out.append(("dict_values_swapped_reversed", {"dict": {"ks": ks[::-1], "vs": ([vs[1], vs[0]] + vs[2:])[::-1]}}))
            out.append(("dict_keys_swapped", {"dict": {"ks": [ks[1], ks[0]] + ks[2:], "vs": vs}}))
        if n >= 3:
            out.append(("dict_rotated_insertion", {"dict": {"ks": ks[1:] + ks[:1], "vs": vs[1:] + vs[:1]}}))
        if n >= 1:
            out.append(("dict_drop_key", {"dict": {"ks": ks[:-1], "vs": vs[:-1]}}))
            out.append(("dict_rename_key", {"dict": {"ks": ks[:-1] + [ks[-1] + "_"], "vs": vs}}))
            out.append(("dict_drop_first_key", {"dict": {"ks": ks[1:], "vs": vs[1:]}}))
        out.append(("dict_add_key", {"dict": {"ks": ks + ["zq"], "vs": vs + [{"int": 2}]}}))
        out.append(("dict_to_list", {"list": list(vs)}))
    elif k == "list":
        xs = v["list"]
        if len(xs) >= 2 and xs != xs[::-1]:
            out.append(("list_reversed", {"list": xs[::-1]}))
        if len(xs) >= 1:
            out.append(("list_drop_last", {"list": xs[:-1]}))
            out.append(("list_drop_first", {"list": xs[1:]}))
            out.append(("list_dup_last", {"list": xs + [copy.deepcopy(xs[-1])]}))
        out.append(("list_append", {"list": xs + [{"int": 2}]}))
        out.append(("list_to_row", {"row": {"hf": False, "fields": [], "vs": list(xs)}}))
    elif k == "row":
        r = v["row"]
        fs, vs = r["fields"], r["vs"]
        if r["hf"] and len(vs) >= 2:
            out.append(("row_names_reversed", {"row": {"hf": True, "fields": fs[::-1], "vs": vs}}))
            if vs != vs[::-1]:
                out.append(("row_values_reversed", {"row": {"hf": True, "fields": fs, "vs": vs[::-1]}}))
            out.append(("row_fields_reversed", {"row": {"hf": True, "fields": fs[::-1], "vs": vs[::-1]}}))
            out.append(("row_drop_last_field", {"row": {"hf": True, "fields": fs[:-1], "vs": vs[:-1]}}))
            out.append(("row_drop_first_field", {"row": {"hf": True, "fields": fs[1:], "vs": vs[1:]}}))
        if r["hf"]:
            out.append(("row_add_field", {"row": {"hf": True, "fields": fs + [{"str": "zq"}], "vs": vs + [{"int": 2}]}}))
            out.append(("row_rename_field", {"row": {"hf": True, "fields": [{"str": fs[0]["str"] + "_"}] + fs[1:], "vs": vs}}))
            out.append(("row_without_names", {"row": {"hf": False, "fields": [], "vs": vs}}))
        out.append(("row_to_list", {"list": list(vs)}))
    elif k == "flt":
        x = v["flt"]["num"] / SCALE
        out.append(("float_inside_tol", perturb_float(v, 1e-7 * max(abs(x), 1e-2))))
        out.append(("float_outside_tol", perturb_float(v, 1e-3 * max(abs(x), 1.0))))
        out.append(("float_negated", flt(-x)))
        if x == round(x):
            out.append(("float_to_int", {"int": round(x)}))
        out.append(("float_to_none", None))
        out.append(("float_to_str", {"str": repr(x)}))
    elif k == "int":
        i = v["int"]
        out.append(("int_to_float", flt(float(i))))
        out.append(("int_to_near_float", perturb_float(flt(float(i)), 1e-7 * max(abs(i), 1))))
        out.append(("int_plus_one", {"int": i + 1}))
        out.append(("int_to_none", None))
        out.append(("int_to_str", {"str": str(i)}))
    elif k == "str":
        out.append(("str_other", {"str": v["str"] + "x"}))
        out.append(("str_case", {"str": v["str"].swapcase()}))
        out.append(("str_to_none", None))
    elif k == "none":
        out.append(("none_to_int", {"int": 0}))
        out.append(("none_to_str", {"str": "None"}))
        out.append(("none_to_list", {"list": []}))
    return out


def rich_rows(rng: random.Random) -> t.List[t.Any]:
    """rows in which every container kind occurs inside every other, with leaves of every scalar kind"""
    f = lambda: flt(rng.choice(FLOATS))  # noqa: E731
    i = lambda: {"int": rng.choice(INTS)}  # noqa: E731
    st = lambda: {"str": rng.choice(STRS)}  # noqa: E731
    k3 = rng.sample(NAMES, 3)
    k2 = rng.sample(NAMES, 2)

    def two(a: t.Any, b: t.Any) -> t.List[t.Any]:
        return [a, b] if a != b else [a, flt(7.5)]

    m_flat = {"dict": {"ks": k3, "vs": two(f(), f()) + [i()]}}
    m_nested = {"dict": {"ks": k2, "vs": [{"list": two(f(), i())}, {"row": {"hf": True, "fields": [{"str": "u"}, {"str": "w"}], "vs": two(f(), st())}}]}}
    m_in_m = {"dict": {"ks": k2[::-1], "vs": [{"dict": {"ks": ["p", "q"], "vs": two(f(), f())}}, None]}}
    r1 = {"row": {"hf": True, "fields": [{"str": n} for n in ("k", "f", "m", "l")], "vs": [st(), f(), m_flat, {"list": [f(), m_nested, i()]}]}}
    r2 = {
        "row": {
            "hf": True,
            "fields": [{"str": n} for n in ("_1", "s", "m")],
            "vs": [i(), {"row": {"hf": True, "fields": [{"str": "x"}, {"str": "y"}, {"str": "z"}], "vs": [f(), m_in_m, {"list": two(st(), st())}]}}, {"dict": {"ks": ["only"], "vs": [f()]}}],
        }
    }
    r3 = {"row": {"hf": True, "fields": [{"str": "id"}, {"str": "xs"}], "vs": [i(), {"list": [{"row": {"hf": True, "fields": [{"str": "m"}], "vs": [{"dict": {"ks": ["a", "b"], "vs": two(f(), f())}}]}}]}]}}
    return [r1, r2, r3]


EDIT_OPTS = [{}, {"checkRowOrder": True}, {"rtol": 0.0, "atol": 0.0}]


def edit_cases(rng: random.Random, thorough: bool) -> t.List[dict]:
    out: t.List[dict] = []
    filler = {"row": {"hf": True, "fields": [{"str": "k"}], "vs": [{"str": "zz"}]}}
    for base in rich_rows(rng) * (3 if thorough else 1):
        for path in node_paths(base):
            if not path:
                continue  # the row itself: the near-miss variants of the random stream edit whole rows
            node = _get_path(base, path)
            eds = edits_of(node)
            if node_kind(node) == "dict" and len(node["dict"]["ks"]) >= 2:
                # a reordered map whose values also moved within / outside the tolerance
                rev = {"dict": {"ks": node["dict"]["ks"][::-1], "vs": node["dict"]["vs"][::-1]}}
                for fp in float_paths(rev)[:2]:
                    eds.append(("dict_reversed_and_inside_tol", set_path(rev, fp, lambda v: perturb_float(v, 1e-7 * max(abs(v["flt"]["num"] / SCALE), 1e-3)))))
                    eds.append(("dict_reversed_and_outside_tol", set_path(rev, fp, lambda v: perturb_float(v, 1e-3 * max(abs(v["flt"]["num"] / SCALE), 1.0)))))
            for name, new in eds:
                edited = set_path(base, path, lambda _v, new=new: copy.deepcopy(new))
                opts = EDIT_OPTS[len(out) % len(EDIT_OPTS)] if not thorough else rng.choice(EDIT_OPTS + OPTIONS)
                a, e = [base], [edited]
                r = rng.random()
                if r < 0.3:
                    a, e = e, a  # the edit on the actual side
                elif r < 0.5:
                    a, e = [filler, base], [edited, filler]  # more rows, other order
                out.append({"kind": "assert", "actual": a, "expected": e, "opts": dict(opts), "variant": "edit:" + name, "origin": "edits"})
    return out


# ---- several calls on the same list objects ----------------------------------------------------------


def seq_cases(rng: random.Random, thorough: bool) -> t.List[dict]:
    """The helper is a check, not a transformation: a test may call it several times on the same lists (first the
    content, then the order; with other tolerances; with the roles swapped).  Each case builds two lists ONCE per
    implementation and makes 2-4 calls on those very objects; the verdict of every call and the content of both lists
    after every call are compared with PySpark's."""
    out: t.List[dict] = []
    shapes = ["reversed", "rotated", "same", "perturbed", "shorter", "nested_lists"]
    patterns = [
        [({}, "ae"), ({"checkRowOrder": True}, "ae")],
        [({}, "ea"), ({"checkRowOrder": True}, "ae")],
        [({"checkRowOrder": True}, "ae"), ({}, "ae"), ({"checkRowOrder": True}, "ae")],
        [({}, "aa"), ({"checkRowOrder": True}, "ae")],
        [({}, "ee"), ({"checkRowOrder": True}, "ea")],
        [({"rtol": 0.5}, "ae"), ({"rtol": 0.0, "atol": 0.0}, "ae"), ({"checkRowOrder": True, "rtol": 0.5}, "ea")],
        [({"checkRowOrder": False}, "ae"), ({"checkRowOrder": False}, "ea"), ({"checkRowOrder": True}, "aa"), ({"checkRowOrder": True}, "ae")],
    ]
    reps = 4 if thorough else 1
    for _ in range(reps):
        for shape in shapes:
            for pat in patterns:
                rows = []
                while len(rows) < 3:
                    rows = [r for r in gen_rows(rng, False) if r is not None]
                    # distinct sort keys, and not already in sorted order, so that a sort is visible
                    rows = list({json.dumps(r, sort_keys=True): r for r in rows}.values())
                a = copy.deepcopy(rows)
                if shape == "reversed":
                    e = copy.deepcopy(rows[::-1])
                elif shape == "rotated":
                    e = copy.deepcopy(rows[1:] + rows[:1])
                elif shape == "same":
                    e = copy.deepcopy(rows)
                elif shape == "perturbed":
                    e = variant(rng, rows[::-1], "inside_tol", False)
                elif shape == "shorter":
                    e = copy.deepcopy(rows[:-1][::-1])
                else:
                    # rows holding lists / maps in a non-sorted order: the helper must not normalise them in place either
                    a = [{"row": {"hf": True, "fields": [{"str": "k"}, {"str": "xs"}, {"str": "m"}], "vs": [{"int": j}, {"list": [{"int": 3}, {"int": 2}, {"int": 5}]}, {"dict": {"ks": ["b", "a"], "vs": [flt(2.25), flt(1.5)]}}]}} for j in (5, 3, 2)]
                    e = copy.deepcopy(a[::-1])
                out.append({"kind": "assertseq", "actual": a, "expected": e, "calls": [{"opts": dict(o), "sel": sel} for o, sel in pat], "variant": "seq:" + shape, "origin": "sequences"})
    return out


def snapshot(xs: t.Any) -> t.Any:
    return [from_py(x) for x in xs] if isinstance(xs, list) else {"other": type(xs).__name__}


def verdict_of(I: dict, fn: t.Callable[[], t.Any]) -> str:
    try:
        fn()
        return "accept"
    except I["reject"]:
        return "reject"
    except I["refuse"]:
        return "reject"  # the package's own exception for unusable arguments
    except Exception as ex:  # noqa
        return "error:" + type(ex).__name__


def run_seq(which: str, c: dict) -> dict:
    I = impls()[which]
    lists = {"a": [to_py(r, I["Row"]) for r in c["actual"]], "e": [to_py(r, I["Row"]) for r in c["expected"]]}
    verdicts, states = [], []
    for call in c["calls"]:
        x, y = lists[call["sel"][0]], lists[call["sel"][1]]
        verdicts.append(verdict_of(I, lambda: I["adf"](x, y, **call["opts"])))
        states.append([snapshot(lists["a"]), snapshot(lists["e"])])
    return {"verdicts": verdicts, "states": states}


# ---- None / list / DataFrame arguments ---------------------------------------------------------------


class _Frame:
    """what assertDataFrameEqual uses of a DataFrame: `.schema`, `.collect()` (a fresh list each time), `.isStreaming`
    (pyspark only).  pyspark's helper, on its no-pandas path, makes no isinstance check, so the SAME stand-in goes
    through both implementations."""

    isStreaming = False

    def __init__(self, schema: t.Any, rows: t.List[t.Any]):
        self.schema = schema
        self._rows = rows
        self.collected = 0

    def collect(self) -> t.List[t.Any]:
        self.collected += 1
        return list(self._rows)


def arg_to_py(a: t.Any, I: dict) -> t.Any:
    if a is None:
        return None
    if "rows" in a:
        return [to_py(r, I["Row"]) for r in a["rows"]]
    return _Frame(dtype_to_py(a["frame"]["schema"], I["types"]), [to_py(r, I["Row"]) for r in a["frame"]["rows"]])


def arg_rows(a: t.Any) -> t.List[t.Any]:
    return [] if a is None else a["rows"] if "rows" in a else a["frame"]["rows"]


def run_args(which: str, c: dict) -> str:
    I = impls()[which]
    a, e = arg_to_py(c["actual"], I), arg_to_py(c["expected"], I)
    return verdict_of(I, lambda: I["adf"](a, e, **c["opts"]))


def args_cases(rng: random.Random, thorough: bool) -> t.List[dict]:
    out: t.List[dict] = []
    for _ in range(3 if thorough else 1):
        rows = [r for r in gen_rows(rng, False) if r is not None][:3]
        s = gen_struct(rng, 2)
        schemas = [("equal", s)] + [mutate_schema3(rng, s)[::2] for _ in range(4)]
        row_variants = [("equal", copy.deepcopy(rows)), ("permuted", copy.deepcopy(rows[::-1])), ("dropped", copy.deepcopy(rows[:-1])), ("perturbed", variant(rng, rows, "outside_tol", False))]
        for opts in ({}, {"checkRowOrder": True}):
            for ak in ("none", "rows", "frame"):
                for ek in ("none", "rows", "frame"):
                    for sk, s2 in schemas if (ak == "frame" or ek == "frame") else schemas[:1]:
                        for rk, rows2 in row_variants if "none" not in (ak, ek) else row_variants[:1]:
                            mk = lambda kind, rws, sch: None if kind == "none" else {"rows": rws} if kind == "rows" else {"frame": {"schema": sch, "rows": rws}}  # noqa: E731
                            out.append({"kind": "assertargs", "actual": mk(ak, rows, s), "expected": mk(ek, rows2, s2), "opts": dict(opts), "variant": f"args:{ak}/{ek}/{sk}/{rk}", "origin": "arguments"})
    return out


# ---- schemas ---------------------------------------------------------------------------------------

ATOMS = ["IntegerType", "LongType", "StringType", "DoubleType", "BooleanType", "DateType", "FloatType", "ShortType", "TimestampType", "TimestampNTZType", "BinaryType"]
# types with parameters: same typeName() whatever the parameters are (what the helper compares)
PARAM_ATOMS = [("DecimalType", [10, 2]), ("DecimalType", [12, 3]), ("DecimalType", [10, 0]), ("VarcharType", [5]), ("VarcharType", [20]), ("CharType", [5])]


def gen_atom(rng: random.Random) -> dict:
    if rng.random() < 0.2:
        n, args = rng.choice(PARAM_ATOMS)
        return {"atomic": n, "args": list(args)}
    return {"atomic": rng.choice(ATOMS)}


def gen_dtype(rng: random.Random, depth: int) -> dict:
    r = rng.random()
    if depth <= 0 or r < 0.6:
        return gen_atom(rng)
    if r < 0.75:
        return {"array": {"elem": gen_dtype(rng, depth - 1), "null": rng.random() < 0.5}}
    if r < 0.85:
        return {"map": {"key": {"atomic": rng.choice(ATOMS[:3])}, "value": gen_dtype(rng, depth - 1), "null": rng.random() < 0.5}}
    return gen_struct(rng, depth - 1)


def gen_struct(rng: random.Random, depth: int) -> dict:
    names = rng.sample(NAMES, rng.randint(0, 3))
    return {"struct": [{"name": n, "type": gen_dtype(rng, depth), "null": rng.random() < 0.5} for n in names]}


def dtype_to_py(d: dict, T: t.Any) -> t.Any:
    if "atomic" in d:
        return getattr(T, d["atomic"])(*d.get("args", []))
    if "array" in d:
        return T.ArrayType(dtype_to_py(d["array"]["elem"], T), d["array"]["null"])
    if "map" in d:
        return T.MapType(dtype_to_py(d["map"]["key"], T), dtype_to_py(d["map"]["value"], T), d["map"]["null"])
    return T.StructType([T.StructField(f["name"], dtype_to_py(f["type"], T), f["null"]) for f in d["struct"]])


def dtype_to_lean(d: dict, T: t.Any) -> dict:
    """atomic names are sent as typeName() strings"""
    if "atomic" in d:
        return {"atomic": getattr(T, d["atomic"])(*d.get("args", [])).typeName()}
    if "array" in d:
        return {"array": {"elem": dtype_to_lean(d["array"]["elem"], T), "null": d["array"]["null"]}}
    if "map" in d:
        return {"map": {"key": dtype_to_lean(d["map"]["key"], T), "value": dtype_to_lean(d["map"]["value"], T), "null": d["map"]["null"]}}
    return {"struct": [{"name": f["name"], "type": dtype_to_lean(f["type"], T), "null": f["null"]} for f in d["struct"]]}


def dtype_paths(d: dict, path: t.Tuple = ()) -> t.List[t.Tuple]:
    out = [path]
    if "array" in d:
        out += dtype_paths(d["array"]["elem"], path + ("elem",))
    elif "map" in d:
        out += dtype_paths(d["map"]["value"], path + ("value",))
    elif "struct" in d:
        for i, f in enumerate(d["struct"]):
            out += dtype_paths(f["type"], path + (i,))
    return out


def mutate_schema(rng: random.Random, s: dict) -> t.Tuple[str, dict]:
    s = copy.deepcopy(s)
    kind = rng.choice(["equal", "nullable", "rename", "rename_case", "retype", "reparam", "drop", "add", "deep", "reorder"])
    fields = s["struct"]
    if kind == "equal" or (not fields and kind not in ("add",)):
        return "equal", s
    if kind == "nullable":

        def flip(d: dict) -> None:
            if "array" in d:
                d["array"]["null"] = not d["array"]["null"]
                flip(d["array"]["elem"])
            elif "map" in d:
                d["map"]["null"] = not d["map"]["null"]
            elif "struct" in d:
                for f in d["struct"]:
                    f["null"] = not f["null"]
                    flip(f["type"])

        flip(s)
        return kind, s
    if kind == "rename":
        rng.choice(fields)["name"] += "_"
    elif kind == "rename_case":
        f = rng.choice(fields)
        f["name"] = f["name"].swapcase()
    elif kind == "reorder":
        fields.reverse()
    elif kind == "reparam":
        # the same type with other parameters (decimal(10,2) -> decimal(12,3)): only the type NAME is compared
        f = rng.choice(fields)
        n, args = rng.choice(PARAM_ATOMS)
        f["type"] = {"atomic": n, "args": list(args)}
        if rng.random() < 0.7:
            other = rng.choice([a for m, a in PARAM_ATOMS if m == n and a != args] or [args])
            s0 = copy.deepcopy(s)
            f["type"] = {"atomic": n, "args": list(other)}
            return kind, s0, s  # type: ignore
    elif kind == "retype":
        f = rng.choice(fields)
        f["type"] = gen_atom(rng)
    elif kind == "drop":
        fields.pop(rng.randrange(len(fields)))
    elif kind == "add":
        fields.append({"name": "extra", "type": {"atomic": "LongType"}, "null": True})
    else:
        # change something below the top level (array element, map value, nested struct field)
        f = rng.choice(fields)
        paths = [p for p in dtype_paths(f["type"]) if p]
        if paths:
            p = rng.choice(paths)
            d = f["type"]
            for step in p[:-1]:
                d = d["array"]["elem"] if step == "elem" else d["map"]["value"] if step == "value" else d["struct"][step]["type"]
            last = p[-1]
            new = gen_atom(rng)
            if last == "elem":
                d["array"]["elem"] = new
            elif last == "value":
                d["map"]["value"] = new
            else:
                d["struct"][last]["type"] = new
    return kind, s


def mutate_schema3(rng: random.Random, s: dict) -> t.Tuple[str, dict, dict]:
    """(variant, actual, expected): most variants keep `s` as the actual schema; `reparam` may rewrite both sides"""
    r = mutate_schema(rng, s)
    return (r[0], s, r[1]) if len(r) == 2 else r  # type: ignore


def schema_snapshot(d: t.Any) -> t.Any:
    """every attribute of a schema object that carries meaning (the reprs of sqlframe's types leave the flags out)"""
    n = type(d).__name__
    if n == "StructType":
        return ["struct", [[f.name, schema_snapshot(f.dataType), f.nullable] for f in d.fields]]
    if n == "ArrayType":
        return ["array", schema_snapshot(d.elementType), d.containsNull]
    if n == "MapType":
        return ["map", schema_snapshot(d.keyType), schema_snapshot(d.valueType), d.valueContainsNull]
    return n


def run_schema(which: str, a: dict, e: dict) -> str:
    I = impls()[which]
    sa, se = dtype_to_py(a, I["types"]), dtype_to_py(e, I["types"])
    before = [schema_snapshot(sa), schema_snapshot(se)]
    try:
        I["ase"](sa, se)
        v = "accept"
    except I["reject"]:
        v = "reject"
    except Exception as ex:  # noqa
        v = "error:" + type(ex).__name__
    return v if [schema_snapshot(sa), schema_snapshot(se)] == before else v + "+arguments-changed"


# ------------------------------------------------------------------------------------------------
# cases and evaluation
# ------------------------------------------------------------------------------------------------


def cases_for(ctx: Ctx) -> t.List[dict]:
    rng = ctx.rng
    cases: t.List[dict] = []
    corpus_dir = os.path.join(vlib.VERIF, "corpus", ID)
    if os.path.isdir(corpus_dir):
        for fn in sorted(os.listdir(corpus_dir)):
            if fn.endswith(".json"):
                c = json.load(open(os.path.join(corpus_dir, fn)))
                c["origin"] = "corpus:" + fn
                cases.append(c)
    n_row, n_assert, n_schema = (8000, 5000, 2500) if ctx.thorough else (2400, 1500, 500)
    for i in range(n_row):
        allow_dec = i % 5 == 0
        c = gen_ctor(rng, allow_dec)
        cases.append({"kind": "row", "ctor": c, "ops": gen_ops(rng, c, allow_dec), "origin": "random"})
    for i in range(n_assert):
        allow_dec = i % 8 == 0
        rows = gen_rows(rng, allow_dec)
        kind = VARIANTS[i % len(VARIANTS)]
        exp = variant(rng, rows, kind, allow_dec)
        opts = rng.choice(OPTIONS)
        if isinstance(exp, tuple):
            # band variants return (actual, expected) and need a tolerance that makes the band wide
            _, rows, exp = exp
            lo = min(abs(x) for x in (n / SCALE for r in rows + exp for n in all_floats(r)) if x) if rows else 1.0
            opts = dict(rng.choice([{"rtol": 0.5, "atol": 0.0}, {"rtol": 0.5, "atol": 0.0, "checkRowOrder": True}]))
            if any(abs(n / SCALE) in (3.0, 4.0) for r in rows + exp for n in all_floats(r)) and rng.random() < 0.5:
                opts["rtol"] = 0.25
        else:
            if rng.random() < 0.3:
                rng.shuffle(exp)
            if rng.random() < 0.15:
                rows, exp = exp, rows
        cases.append({"kind": "assert", "actual": rows, "expected": exp, "opts": opts, "variant": kind, "origin": "random"})
    for _ in range(n_schema):
        s = gen_struct(rng, 2)
        kind, s, m = mutate_schema3(rng, s)
        cases.append({"kind": "schema", "a": s, "e": m, "variant": kind, "origin": "random"})
    cases += edit_cases(rng, ctx.thorough)
    cases += seq_cases(rng, ctx.thorough)
    cases += args_cases(rng, ctx.thorough)
    return cases


def lean_case(i: int, c: dict, defaults: dict) -> dict:
    if c["kind"] == "row":
        if "recall" in c["ctor"]:
            return {"case": i, "kind": "row", "ctor": {"positional": {"vals": []}}, "ops": []}
        return {"case": i, "kind": "row", "ctor": c["ctor"], "ops": c["ops"]}
    if c["kind"] == "assert":
        return {
            "case": i,
            "kind": "assert",
            "actual": c["actual"],
            "expected": c["expected"],
            "order": bool(c["opts"].get("checkRowOrder", defaults["checkRowOrder"])),
            "close": close_table(c["actual"], c["expected"], c["opts"], defaults),
        }
    T = impls()["sf"]["types"]
    if c["kind"] == "assertseq":
        return {
            "case": i,
            "kind": "assertseq",
            "actual": c["actual"],
            "expected": c["expected"],
            "calls": [
                {
                    "order": bool(call["opts"].get("checkRowOrder", defaults["checkRowOrder"])),
                    "sel": call["sel"],
                    "close": close_table(c["actual"] + c["expected"], c["actual"] + c["expected"], call["opts"], defaults),
                }
                for call in c["calls"]
            ],
        }
    if c["kind"] == "assertargs":

        def arg(a: t.Any) -> t.Any:
            if a is None or "rows" in a:
                return a
            return {"frame": {"schema": dtype_to_lean(a["frame"]["schema"], T), "rows": a["frame"]["rows"]}}

        return {
            "case": i,
            "kind": "assertargs",
            "actual": arg(c["actual"]),
            "expected": arg(c["expected"]),
            "order": bool(c["opts"].get("checkRowOrder", defaults["checkRowOrder"])),
            "close": close_table(arg_rows(c["actual"]), arg_rows(c["expected"]), c["opts"], defaults),
        }
    return {"case": i, "kind": "schema", "a": dtype_to_lean(c["a"], T), "e": dtype_to_lean(c["e"], T)}


def has_decimal(v: t.Any) -> bool:
    return "Decimal" in json.dumps(v) or '"dec"' in json.dumps(v)


def evaluate(cases: t.List[dict], with_model: bool = True) -> t.List[dict]:
    defaults = live_defaults()["sf"]
    outs: t.List[t.Optional[dict]] = [None] * len(cases)
    if with_model:
        try:
            outs = vlib.run_driver("C19", [lean_case(i, c, defaults) for i, c in enumerate(cases)])
        except Exception as e:
            log(f"C19: driver unavailable: {str(e)[:300]}")
            outs = [None] * len(cases)
            with_model = False
    res = []
    for c, o in zip(cases, outs):
        if o is not None and c["kind"] == "row" and "recall" in c["ctor"]:
            # calling a Row object that already has fields makes a row whose `__fields__` IS that Row object (`in` then
            # asks the inner row's names): outside the Lean transcription, covered by the direct differential only
            o = None
        if o is not None and "err" in o:
            raise RuntimeError(f"driver rejected a case: {o} {json.dumps(c)[:300]}")
        r: t.Dict[str, t.Any] = {"case": c}
        if c["kind"] == "row":
            sf = run_script("sf", c["ctor"], c["ops"])
            ps = run_script("ps", c["ctor"], c["ops"])
            dec_top = has_top_decimal(c["ctor"])
            psf = run_script("ps", ctor_floatify(c["ctor"]), c["ops"]) if dec_top else ps
            r.update(sf=sf, ps=ps, spec_ok=abs_outs(sf) == abs_outs(psf), intended_diff=dec_top and abs_outs(sf) != abs_outs(ps))
            if o is not None:
                r["model_ok"] = (o["sf"] == sf) and (o["ps"] == ps)
                r["model"] = {"sf": o["sf"], "ps": o["ps"]}
        elif c["kind"] == "assertseq":
            sf, ps = run_seq("sf", c), run_seq("ps", c)
            r.update(sf=sf, ps=ps, spec_ok=sf == ps, intended_diff=False)
            if o is not None:
                def seq_ok(m: dict, real: dict) -> bool:
                    return [("accept" if v else "reject") for v in m["verdicts"]] == real["verdicts"] and [m["a"], m["e"]] == real["states"][-1]

                r["model_ok"] = seq_ok(o["sf"], sf) and seq_ok(o["ps"], ps)
                r["model"] = {"sf": o["sf"], "ps": o["ps"]}
        elif c["kind"] == "assertargs":
            sf, ps = run_args("sf", c), run_args("ps", c)
            r.update(sf=sf, ps=ps, spec_ok=sf == ps, intended_diff=False)
            if o is not None:
                r["model_ok"] = (o["sf"] == (sf == "accept")) and (o["ps"] == (ps == "accept"))
                r["model"] = {"sf": o["sf"], "ps": o["ps"]}
        elif c["kind"] == "assert":
            sf = run_assert("sf", c["actual"], c["expected"], c["opts"])
            ps = run_assert("ps", c["actual"], c["expected"], c["opts"])
            decimal_case = has_decimal(c["actual"]) or has_decimal(c["expected"])
            r.update(sf=sf, ps=ps, spec_ok=(sf == ps) or decimal_case, intended_diff=decimal_case and sf != ps)
            if o is not None:
                r["model_ok"] = ((("accept" if o["sf"] else "reject") == sf) and (("accept" if o["ps"] else "reject") == ps)) or decimal_case
                r["model"] = {"sf": o["sf"], "ps": o["ps"]}
        else:
            sf = run_schema("sf", c["a"], c["e"])
            ps = run_schema("ps", c["a"], c["e"])
            r.update(sf=sf, ps=ps, spec_ok=sf == ps, intended_diff=False)
            if o is not None:
                r["model_ok"] = (("accept" if o["sf"] else "reject") == sf) and (("accept" if o["ps"] else "reject") == ps)
                r["model"] = {"sf": o["sf"], "ps": o["ps"]}
        if o is None:
            r["model_ok"] = None
        res.append(r)
    return res


def shrink(c: dict) -> dict:
    """greedy: fewer ops / fewer rows / simpler option set while sqlframe still differs from pyspark"""

    def verdicts_differ(x: dict) -> bool:
        r = evaluate([x], with_model=False)[0]
        return x["kind"] == "assertseq" and r["sf"]["verdicts"] != r["ps"]["verdicts"]

    # a call sequence whose VERDICTS differ is shrunk to a smaller one whose verdicts still differ (not merely to one
    # whose lists were changed)
    keep_verdict = verdicts_differ(c)

    def bad(x: dict) -> bool:
        return verdicts_differ(x) if keep_verdict else not evaluate([x], with_model=False)[0]["spec_ok"]

    best = c
    changed = True
    while changed:
        changed = False
        cands: t.List[dict] = []
        if best["kind"] == "row":
            cands = [dict(best, ops=best["ops"][:i] + best["ops"][i + 1 :]) for i in range(len(best["ops"]))]
            ck = next(iter(best["ctor"]))
            cc = best["ctor"][ck]
            if ck in ("kwargs", "factory") and len(cc["names"]) == len(cc["vals"]):
                # one field fewer; a nested value replaced by a scalar
                for i in range(len(cc["names"])):
                    cands.append(dict(best, ctor={ck: dict(cc, names=cc["names"][:i] + cc["names"][i + 1 :], vals=cc["vals"][:i] + cc["vals"][i + 1 :])}))
            if ck in ("kwargs", "factory", "positional"):
                for i, v in enumerate(cc["vals"]):
                    if isinstance(v, dict) and node_kind(v) in ("list", "dict", "row"):
                        cands.append(dict(best, ctor={ck: dict(cc, vals=cc["vals"][:i] + [{"int": 2}] + cc["vals"][i + 1 :])}))
        elif best["kind"] == "assert":
            # a row that occurs on both sides (same position, or the same row anywhere) dropped from both
            for i in range(min(len(best["actual"]), len(best["expected"]))):
                cands.append(dict(best, actual=best["actual"][:i] + best["actual"][i + 1 :], expected=best["expected"][:i] + best["expected"][i + 1 :]))
            for i, ra in enumerate(best["actual"]):
                for j, re_ in enumerate(best["expected"]):
                    if ra == re_ and i != j:
                        cands.append(dict(best, actual=best["actual"][:i] + best["actual"][i + 1 :], expected=best["expected"][:j] + best["expected"][j + 1 :]))
            for key in ("actual", "expected"):
                cands += [dict(best, **{key: best[key][:i] + best[key][i + 1 :]}) for i in range(len(best[key]))]
            if best["opts"]:
                cands.append(dict(best, opts={}))
            cands += shrink_values(best)
        elif best["kind"] == "assertseq":
            cands = [dict(best, calls=best["calls"][:i] + best["calls"][i + 1 :]) for i in range(len(best["calls"])) if len(best["calls"]) > 1]
            for key in ("actual", "expected"):
                cands += [dict(best, **{key: best[key][:i] + best[key][i + 1 :]}) for i in range(len(best[key]))]
            cands += [dict(best, calls=best["calls"][:i] + [dict(best["calls"][i], opts={})] + best["calls"][i + 1 :]) for i in range(len(best["calls"])) if best["calls"][i]["opts"]]
        elif best["kind"] == "assertargs":
            for key in ("actual", "expected"):
                a = best[key]
                if a is not None:
                    rows = arg_rows(a)
                    for i in range(len(rows)):
                        rs = rows[:i] + rows[i + 1 :]
                        cands.append(dict(best, **{key: {"rows": rs} if "rows" in a else {"frame": dict(a["frame"], rows=rs)}}))
            if best["opts"]:
                cands.append(dict(best, opts={}))
        else:
            for key in ("a", "e"):
                cands += [dict(best, **{key: {"struct": best[key]["struct"][:i] + best[key]["struct"][i + 1 :]}}) for i in range(len(best[key]["struct"]))]
        for x in cands:
            if bad(x):
                best, changed = x, True
                break
    return best


def shrink_values(c: dict) -> t.List[dict]:
    """smaller row pairs: the same field dropped from the i-th row of both lists; a nested container replaced, on
    both sides at once, by one of its own elements"""
    out: t.List[dict] = []
    a, e = c["actual"], c["expected"]
    for i in range(min(len(a), len(e))):
        ra, re_ = a[i], e[i]
        if not (ra and re_ and "row" in ra and "row" in re_):
            continue
        na, ne = len(ra["row"]["vs"]), len(re_["row"]["vs"])
        if na == ne and na > 1 and ra["row"]["hf"] and re_["row"]["hf"]:
            for j in range(na):
                def cut(r: dict) -> dict:
                    return {"row": {"hf": True, "fields": r["row"]["fields"][:j] + r["row"]["fields"][j + 1 :], "vs": r["row"]["vs"][:j] + r["row"]["vs"][j + 1 :]}}

                out.append(dict(c, actual=a[:i] + [cut(ra)] + a[i + 1 :], expected=e[:i] + [cut(re_)] + e[i + 1 :]))
        if na == ne:
            for j in range(na):
                va, ve = ra["row"]["vs"][j], re_["row"]["vs"][j]
                ka, ke = node_kind(va), node_kind(ve)
                if ka == ke and ka in ("list", "dict", "row"):
                    xa = va["list"] if ka == "list" else va[ka]["vs"]
                    xe = ve["list"] if ka == "list" else ve[ka]["vs"]
                    for k in range(min(len(xa), len(xe))):
                        def put(r: dict, x: t.Any) -> dict:
                            return {"row": dict(r["row"], vs=r["row"]["vs"][:j] + [x] + r["row"]["vs"][j + 1 :])}

                        out.append(dict(c, actual=a[:i] + [put(ra, xa[k])] + a[i + 1 :], expected=e[:i] + [put(re_, xe[k])] + e[i + 1 :]))
    return out


def show_case(c: dict) -> str:
    if c["kind"] == "row":
        return f"Row script: construct {json.dumps(c['ctor'])[:300]} then {json.dumps(c['ops'])[:300]}"
    if c["kind"] == "assert":
        return f"assertDataFrameEqual(actual={json.dumps(c['actual'])[:300]}, expected={json.dumps(c['expected'])[:300]}, **{c['opts']})"
    if c["kind"] == "assertseq":
        calls = "; ".join(f"assertDataFrameEqual({call['sel'][0]}, {call['sel'][1]}, **{call['opts']})" for call in c["calls"])
        return f"a = {json.dumps(c['actual'])[:300]}; e = {json.dumps(c['expected'])[:300]}; then on these same list objects: {calls}"
    if c["kind"] == "assertargs":
        return f"assertDataFrameEqual(actual={json.dumps(c['actual'])[:300]}, expected={json.dumps(c['expected'])[:300]}, **{c['opts']})  (null = None, frame = an object with .schema and .collect())"
    return f"assertSchemaEqual({json.dumps(c['a'])[:300]}, {json.dumps(c['e'])[:300]})"


# ------------------------------------------------------------------------------------------------
# exercising the generated definitions
# ------------------------------------------------------------------------------------------------

_DEFAULTS: t.Dict[str, t.Any] = {}


def live_defaults() -> t.Dict[str, t.Any]:
    if not _DEFAULTS:
        for w in ("sf", "ps"):
            sig = inspect.signature(impls()[w]["adf"])
            _DEFAULTS[w] = {k: sig.parameters[k].default for k in ("checkRowOrder", "rtol", "atol")}
    return _DEFAULTS


def exercise(ctx: Ctx) -> t.Dict[str, t.Any]:
    import gen_c19

    notes: t.Dict[str, t.Any] = {}
    try:
        ext = gen_c19.extract(vlib.REPO)
    except Exception as e:
        notes["extract"] = str(e)
        return notes
    live = live_defaults()
    for w, key in (("sf", "sfDefaults"), ("ps", "psDefaults")):
        if {k: repr(v) for k, v in live[w].items()} != ext[key]:
            ctx.broken.append(f"exercise: Gen.RowCompat {key} {ext[key]} differ from the live signature {live[w]}")
    I = impls()
    # the Decimal decisions, observed
    d = decimal.Decimal("1.5")
    obs_kw = isinstance(I["sf"]["Row"](a=d)[0], float)
    obs_cr = isinstance(I["sf"]["Row"]("a")(d)[0], float)
    if obs_kw != ext["decKwargs"] or obs_cr != ext["decCreateRow"]:
        ctx.broken.append(f"exercise: Decimal conversion observed (kwargs={obs_kw}, factory={obs_cr}) differs from Gen ({ext['decKwargs']}, {ext['decCreateRow']})")
    # the call guard, observed on the boundary
    P = I["sf"]["Row"]("a", "b")
    obs = []
    for k in (1, 2, 3):
        try:
            P(*range(k))
            obs.append(False)
        except Exception:
            obs.append(True)
    want = {"gt": [False, False, True], "ge": [False, True, True], "lt": [True, False, False], "le": [True, True, False], "ne": [True, False, True], "eq": [False, True, False]}[ext["callGuard"]]
    if obs != want:
        ctx.broken.append(f"exercise: Row.__call__ guard observed {obs} but Gen says {ext['callGuard']}")
    exercise_accessors(ctx, ext)
    exercise_helpers(ctx, ext)
    notes["same_methods"] = ext["sameMethods"]
    notes["diff_methods"] = ext["diffMethods"]
    notes["same_funcs"] = ext["sameFuncs"]
    notes["diff_funcs"] = ext["diffFuncs"]
    notes["extra_methods"] = ext["extraMethods"]
    return notes


EXC_NAME = {"attributeError": "AttributeError", "keyError": "KeyError", "indexError": "IndexError", "valueError": "ValueError", "typeError": "TypeError", "runtimeError": "RuntimeError", "domainError": "RowError"}


def _raises(fn: t.Callable[[], t.Any]) -> str:
    try:
        fn()
        return "no exception"
    except Exception as e:  # noqa
        return type(e).__name__


def exercise_accessors(ctx: Ctx, ext: dict) -> None:
    """every regenerated decision of Row, observed on the running class"""
    Row = impls()["sf"]["Row"]

    def differ(what: str, gen: t.Any, obs: t.Any) -> None:
        if gen != obs:
            ctx.broken.append(f"exercise: Gen.RowCompat {what} = {gen!r} but the running code shows {obs!r}")

    # the prefix __getattr__ refuses: a row whose fields are named by every prefix length of interest
    probes = ["p", "_p", "__p", "___p", "p_", "_", "__"]
    r = Row(**{n: i for i, n in enumerate(probes)})
    refused = [n for n in probes if _raises(lambda n=n: getattr(r, n)) != "no exception"]
    differ("getattrGuardPrefix (names refused among " + repr(probes) + ")", [n for n in probes if n.startswith(ext["getattrGuardPrefix"])], refused)
    differ("getattrGuardRaises", EXC_NAME[ext["getattrGuardRaises"]], _raises(lambda: getattr(r, ext["getattrGuardPrefix"] + "q")))
    differ("getattrNoField", EXC_NAME[ext["getattrNoField"]], _raises(lambda: getattr(r, "q")))
    differ("getitemNoField", EXC_NAME[ext["getitemNoField"]], _raises(lambda: r["q"]))
    short = Row("a", "b")(1)  # fewer values than fields
    differ("getattrShort", EXC_NAME[ext["getattrShort"]], _raises(lambda: short.b))
    differ("getitemShort", EXC_NAME[ext["getitemShort"]], _raises(lambda: short["b"]))
    differ("getitemInt", ext["getitemInt"], _raises(lambda: r[0]) == "no exception")
    differ("getitemSlice", ext["getitemSlice"], _raises(lambda: r[0:1]) == "no exception")
    # __setattr__: which names are let through
    names = ["__fields__", "x", "_x", "__x", "__fields", "fields__"]
    let = []
    for n in names:
        q = Row(a=1)
        if _raises(lambda: setattr(q, n, ["a"])) == "no exception":
            let.append(n)
    differ("setattrAllowed", [n for n in names if n == ext["setattrAllowed"]], let)
    differ("setattrRaises", EXC_NAME[ext["setattrRaises"]], _raises(lambda: setattr(Row(a=1), "x", 1)))
    # asDict
    nested = Row(r=Row(a=1), l=[Row(a=1)], d={"k": Row(a=1)})
    differ("asDictRecursiveDefault", ext["asDictRecursiveDefault"], isinstance(nested.asDict()["r"], dict))
    full = nested.asDict(True)
    differ("convRow", ext["convRow"], isinstance(full["r"], dict))
    differ("convList", ext["convList"], isinstance(full["l"][0], dict))
    differ("convDict", ext["convDict"], isinstance(full["d"]["k"], dict))
    differ("asDictNoFields", EXC_NAME[ext["asDictNoFields"]], _raises(lambda: Row("a").asDict()))
    differ("rowBases", ext["rowBases"], [b.__name__ for b in Row.__bases__])
    ps_dunders = set(vars(impls()["ps"]["Row"]))
    differ("extraDunders / classAssigns", sorted(set(ext["extraDunders"]) | set(ext["classAssigns"])), sorted(n for n in vars(Row) if n not in ps_dunders and n not in ext["extraMethods"] and n not in ("__annotations__", "__firstlineno__", "__static_attributes__")))


def exercise_helpers(ctx: Ctx, ext: dict) -> None:
    """the regenerated decisions of assertDataFrameEqual, observed by calling it"""
    I = impls()["sf"]
    Row, adf, T = I["Row"], I["adf"], I["types"]

    def ok(fn: t.Callable[[], t.Any]) -> bool:
        return verdict_of(I, fn) == "accept"

    def differ(what: str, gen: t.Any, obs: t.Any) -> None:
        if gen != obs:
            ctx.broken.append(f"exercise: Gen.RowCompat {what} = {gen!r} but the running code shows {obs!r}")

    ab, ba, ba_swapped = {"a": 1.0, "b": 2.0}, {"b": 2.0, "a": 1.0}, {"b": 1.0, "a": 2.0}
    by_key = ok(lambda: adf([Row(m=ab)], [Row(m=ba)])) and not ok(lambda: adf([Row(m=ab)], [Row(m=ba_swapped)]))
    by_pos = not ok(lambda: adf([Row(m=ab)], [Row(m=ba)])) and ok(lambda: adf([Row(m=ab)], [Row(m=ba_swapped)]))
    differ("dictPairing", ext["dictPairing"], "byKey" if by_key else "byPosition" if by_pos else "neither")
    differ("dictKeysChecked or dictLenChecked", ext["dictKeysChecked"] or ext["dictLenChecked"], not ok(lambda: adf([Row(m={"a": 1.0})], [Row(m={"a": 1.0, "b": 2.0})])))
    differ("listLenChecked", ext["listLenChecked"], not ok(lambda: adf([Row(l=[1])], [Row(l=[1, 2])])))
    differ("rowZipTruncates", ext["rowZipTruncates"], ok(lambda: adf([Row(r=Row(a=1))], [Row(r=Row(a=1, b=2))])))
    differ("zipLongest", ext["zipLongest"], not ok(lambda: adf([Row(a=1)], [Row(a=1), Row(a=2)], checkRowOrder=True)))
    # the sort of each argument: is it sorted at all, and is the CALLER's list touched
    for which, key in (("actual", "sortActual"), ("expected", "sortExpected")):
        lst, other = [Row(a=2), Row(a=1)], [Row(a=1), Row(a=2)]
        args = (lst, other) if which == "actual" else (other, lst)
        accepted = ok(lambda: adf(*args))
        touched = [tuple(x) for x in lst] != [(2,), (1,)]
        differ(key, ext[key], "inPlace" if touched else "copy" if accepted else "none")
    differ("noneBothAccepts", ext["noneBothAccepts"], ok(lambda: adf(None, None)))
    s1 = T.StructType([T.StructField("a", T.IntegerType(), True)])
    s2 = T.StructType([T.StructField("a", T.StringType(), True)])
    both = not ok(lambda: adf(_Frame(s1, [Row(a=1)]), _Frame(s2, [Row(a=1)])))
    exp_only = not ok(lambda: adf([Row(a=1)], _Frame(s2, [Row(a=1)])))
    differ("schemaWhen", ext["schemaWhen"], "expectedFrame" if exp_only else "bothFrames" if both else "never")


# ------------------------------------------------------------------------------------------------
# the check
# ------------------------------------------------------------------------------------------------


def run(ctx: Ctx) -> None:
    idx = vlib.props_index()[ID]
    vlib.prove(ctx, MODULES, GEN, idx["theorems"], SOURCES)
    ctx.cov["table_exercise"] = exercise(ctx)

    cases = cases_for(ctx)
    log(f"C19: {len(cases)} cases")
    res = evaluate(cases)

    model_bad = [r for r in res if r["model_ok"] is False]
    spec_bad = [r for r in res if not r["spec_ok"]]
    no_model = any(r["model_ok"] is None and not (r["case"]["kind"] == "row" and "recall" in r["case"]["ctor"]) for r in res)
    if no_model:
        ctx.broken.append("the Lean driver is unavailable (model comparison skipped)")
    if model_bad:
        ctx.broken.append(f"correspondence (real Row/helpers vs Impl/C19Row.lean): {len(model_bad)} of {len(res)} cases differ")

    reported = 0
    seen = set()
    # one failing input per kind of case first (a Row script, a single call, a call sequence, an argument pair, a schema
    # pair show different faces of one defect), then the rest
    firsts: t.Dict[str, dict] = {}
    for r in spec_bad:
        firsts.setdefault(r["case"]["kind"], r)
    ordered = list(firsts.values()) + [r for r in spec_bad if all(r is not f for f in firsts.values())]
    for r in ordered:
        if reported >= 3:
            break
        c = shrink({k: v for k, v in r["case"].items() if k != "origin"})
        key = json.dumps(c, sort_keys=True)
        if key in seen:
            continue
        seen.add(key)
        rr = evaluate([c], with_model=not no_model)[0]
        vlib.report_violation(
            ctx,
            {
                "kind": "sqlframe differs from pyspark",
                "program": show_case(c),
                "case": c,
                "sqlframe": rr["sf"],
                "pyspark": rr["ps"],
                "model": rr.get("model"),
                "broken": ctx.broken,
            },
        )
        reported += 1
    if ctx.broken and not reported:
        first = model_bad[0] if model_bad else None
        vlib.report_violation(
            ctx,
            {
                "kind": "proof obligation or correspondence no longer checks; no failing input found",
                "broken": ctx.broken,
                "searched": {"cases": len(res)},
                "first_model_mismatch": ({"program": show_case(first["case"]), "case": first["case"], "sqlframe": first["sf"], "pyspark": first["ps"], "model": first.get("model")} if first else None),
            },
            no_input=True,
        )

    kinds: t.Dict[str, int] = {}
    variants: t.Dict[str, int] = {}
    verdicts: t.Dict[str, int] = {}
    errs: t.Dict[str, int] = {}
    nontrivial = set()
    for r in res:
        c = r["case"]
        kinds[c["kind"]] = kinds.get(c["kind"], 0) + 1
        if "variant" in c:
            variants[c["kind"] + ":" + c["variant"]] = variants.get(c["kind"] + ":" + c["variant"], 0) + 1
        if c["kind"] == "row":
            for o in r["sf"]:
                if "err" in o:
                    errs[o["err"]] = errs.get(o["err"], 0) + 1
            if len(r["sf"]) > 1 and any("err" not in o for o in r["sf"][1:]):
                nontrivial.add(vlib.digest([c["ctor"], c["ops"]]))
        else:
            vs = r["sf"]["verdicts"] if c["kind"] == "assertseq" else [r["sf"]]
            for v in vs:
                verdicts[c["kind"] + ":" + str(v)] = verdicts.get(c["kind"] + ":" + str(v), 0) + 1
            if (c["kind"] == "schema" and (c["a"]["struct"] or c["e"]["struct"])) or (c["kind"] != "schema" and (c["actual"] or c["expected"])):
                nontrivial.add(vlib.digest({k: v for k, v in c.items() if k != "origin"}))
    op_hist: t.Dict[str, int] = {}
    name_shapes: t.Dict[str, int] = {}
    for r in res:
        c = r["case"]
        if c["kind"] == "row":
            for op in c["ops"]:
                k = op if isinstance(op, str) else next(iter(op))
                op_hist[k] = op_hist.get(k, 0) + 1
            for n in ctor_names(c["ctor"]):
                shape = "dunder" if n.startswith("__") else "underscore" if n.startswith("_") else "method-name" if n in ("count", "index") else "plain"
                name_shapes[shape] = name_shapes.get(shape, 0) + 1
    ctx.cov.update(
        {
            "evaluations": len(res),
            "distinct_nontrivial": len(nontrivial),
            "rule": "corpus; random Row scripts (kwargs / positional / args+kwargs / Row-class factory with duplicate names and wrong arity / calling a row; "
            "field names of every shape: plain, _1/_c0/_, __x, __x__, trailing underscore, names of tuple methods, a blank inside, non-ASCII; "
            "nested Rows, lists, dicts, None, Decimal; 3-8 queries each out of 19 kinds incl. slices, hash, !=, <=, del, asDict() default, assignment to __fields__; the row is read back after the queries); "
            "random row lists with one of 15 near-miss variants (incl. differences between rtol*|actual| and rtol*|expected| at large rtol) x option settings; "
            "EVERY single-site structural edit (by node kind: map insertion order / values swapped between keys / key set, list order / length, Row names / positions / arity, float inside / outside tolerance, int<->float, None) at EVERY node of rows nesting every container in every other; "
            "sequences of 2-4 calls on the SAME list objects (roles swapped, one list as both arguments), lists read back after each call; None / list / DataFrame-like argument pairs x schema variants x row variants; "
            "random schema pairs with 7 variants (arguments read back after the call); "
            "non-trivial = distinct Row scripts with at least one successful query, distinct non-empty list / schema pairs",
            "traces_validated_against_impl": sum(1 for r in res if r["model_ok"]),
            "sqlframe_vs_pyspark_agree": sum(1 for r in res if r["spec_ok"]),
            "intended_decimal_differences_seen": sum(1 for r in res if r.get("intended_diff")),
            "kind_histogram": kinds,
            "variant_histogram": variants,
            "verdict_histogram": verdicts,
            "row_error_histogram": errs,
            "row_op_histogram": op_hist,
            "field_name_shapes": name_shapes,
            "origin_histogram": {o: sum(1 for r in res if r["case"].get("origin") == o) for o in sorted({r["case"].get("origin", "") for r in res})},
            "samples": [{"program": show_case(r["case"]), "sqlframe": r["sf"] if isinstance(r["sf"], str) else r["sf"][:4]} for r in res[:: max(1, len(res) // 4)][:4]],
        }
    )
    ctx.assumptions += [
        "pyspark.testing.utils is loaded from its file with pyspark.pandas made unimportable (its own ImportError fallback), because the package does not import under numpy 2; DataFrame (JVM) arguments are not exercised, only lists of Rows and StructTypes",
        "float closeness is an abstract predicate in Lean; the driver is given the truth table computed by Python for the floats of each case",
        "strings are drawn from an alphabet whose repr is the single-quoted string; field names may collide with tuple methods (count, index: the class answers, modelled) but not with sqlframe's own extra property `_unique_field_names` nor with `__fields__`",
        "DataFrame arguments of assertDataFrameEqual are stand-ins offering .schema / .collect() / .isStreaming (what the helpers use); the same stand-in goes through pyspark's helper, which on its no-pandas path makes no isinstance check",
        "the colour probe of the helpers' error message (a shell call per rejected pair) is stubbed to 'no colour' in both packages; message texts are not compared",
        "a call that raises the package's own exception for unusable arguments (None on one side) counts as a rejection, like PySpark's PySparkAssertionError",
        "`row.__fields__ = names` is not generated on a row built positionally from Decimal values (H_fields_after_decimal: the documented Decimal->float conversion would then happen at pickling time, C19_cex_decimal_late)",
        "the packages' own exception classes are identified (RowError ~ PySparkValueError / PySparkTypeError); sqlframe's RowError is not a ValueError/TypeError subclass",
        "Decimal values in keyword / Row-class construction are converted to float by sqlframe (documented); the equivalence is stated for the floatified construction",
    ]


def replay(ctx: Ctx, rp: dict) -> None:
    c = rp.get("case")
    if not c:
        print("replay names a broken obligation, not an input:", rp.get("broken"))
        return
    r = evaluate([c], with_model=True)[0]
    print(json.dumps({"program": show_case(c), "sqlframe": r["sf"], "pyspark": r["ps"], "agree": r["spec_ok"], "model": r.get("model")}, indent=1, default=str)[:4000])
    if not r["spec_ok"]:
        vlib.report_violation(ctx, dict(rp, sqlframe=r["sf"], pyspark=r["ps"]))
