#!/venv/bin/python
"""
mutate.py — generate small source-level mutants of sqlframe functions (for measuring what the checks detect).

usage: mutate.py --out /root/scratch/mut/<tag> --file sqlframe/base/dataframe.py --funcs join,_expand_star [--max 40] [--seed 0]

Each mutant is one minimal edit of one AST node inside the named functions (comparison / boolean operator swapped,
`not` dropped, boolean or small integer constant changed, keyword flag flipped, `.copy()` dropped, a statement removed,
two positional arguments swapped, an `if` condition forced), written as <out>/<k>/patch.diff (+ meta.json describing the
edit).  Mutants that do not compile are discarded.  Evaluation (pinned suite, then the property's check) is done by
tools/seed_par.py on those directories; survivors are candidates for analysis, not findings: many are equivalent.
This is a development aid only: no registered check depends on it.
"""
from __future__ import annotations

import argparse
import ast
import difflib
import json
import os
import random
import sys

REPO = os.environ.get("VERIF_REPO", "/repo")

CMP = {ast.Lt: ast.LtE, ast.LtE: ast.Lt, ast.Gt: ast.GtE, ast.GtE: ast.Gt, ast.Eq: ast.NotEq, ast.NotEq: ast.Eq,
       ast.In: ast.NotIn, ast.NotIn: ast.In, ast.Is: ast.IsNot, ast.IsNot: ast.Is}


def candidates(fn: ast.AST):
    """yield (node, replacement_source, description)"""
    for n in ast.walk(fn):
        if isinstance(n, ast.Compare) and len(n.ops) == 1 and type(n.ops[0]) in CMP:
            m = ast.Compare(left=n.left, ops=[CMP[type(n.ops[0])]()], comparators=n.comparators)
            yield n, ast.unparse(m), f"comparison {type(n.ops[0]).__name__} -> {CMP[type(n.ops[0])].__name__}"
        if isinstance(n, ast.BoolOp) and len(n.values) >= 2:
            m = ast.BoolOp(op=ast.Or() if isinstance(n.op, ast.And) else ast.And(), values=n.values)
            yield n, ast.unparse(m), f"{type(n.op).__name__} -> {'Or' if isinstance(n.op, ast.And) else 'And'}"
            for i in range(len(n.values)):
                rest = [v for j, v in enumerate(n.values) if j != i]
                m = rest[0] if len(rest) == 1 else ast.BoolOp(op=n.op, values=rest)
                yield n, ast.unparse(m), f"operand {i} of {type(n.op).__name__} dropped"
        if isinstance(n, ast.UnaryOp) and isinstance(n.op, ast.Not):
            yield n, ast.unparse(n.operand), "not dropped"
        if isinstance(n, ast.Constant) and isinstance(n.value, bool):
            yield n, repr(not n.value), f"{n.value} -> {not n.value}"
        elif isinstance(n, ast.Constant) and isinstance(n.value, int) and abs(n.value) <= 3:
            yield n, repr(n.value + 1), f"{n.value} -> {n.value + 1}"
            yield n, repr(n.value - 1), f"{n.value} -> {n.value - 1}"
        if isinstance(n, ast.Call) and isinstance(n.func, ast.Attribute) and n.func.attr in ("copy", "deepcopy") and not n.args and not n.keywords:
            yield n, ast.unparse(n.func.value), ".copy() dropped"
        if isinstance(n, ast.Call) and len(n.args) == 2 and not any(isinstance(a, ast.Starred) for a in n.args):
            m = ast.Call(func=n.func, args=[n.args[1], n.args[0]], keywords=n.keywords)
            yield n, ast.unparse(m), "two positional arguments swapped"
        if isinstance(n, ast.If):
            yield n.test, "True", "if condition forced True"
            yield n.test, "False", "if condition forced False"
        if isinstance(n, ast.IfExp):
            yield n, ast.unparse(n.body), "conditional expression -> its then-branch"
            yield n, ast.unparse(n.orelse), "conditional expression -> its else-branch"
        if isinstance(n, (ast.Expr, ast.Assign, ast.AugAssign)) and not (isinstance(n, ast.Expr) and isinstance(n.value, ast.Constant)):
            yield n, "pass", f"statement removed: {ast.unparse(n)[:60]}"
        if isinstance(n, ast.Subscript) and isinstance(n.slice, ast.UnaryOp) and isinstance(n.slice.op, ast.USub):
            yield n.slice, "0", "negative index -> 0"
        if isinstance(n, ast.Call) and isinstance(n.func, ast.Name) and n.func.id == "reversed" and len(n.args) == 1:
            yield n, ast.unparse(n.args[0]), "reversed() dropped"


def replace_segment(src_lines, node, text):
    l0, c0, l1, c1 = node.lineno - 1, node.col_offset, node.end_lineno - 1, node.end_col_offset
    # col offsets are in utf-8 bytes
    first = src_lines[l0].encode()
    last = src_lines[l1].encode()
    new = first[:c0].decode() + text + last[c1:].decode()
    return src_lines[:l0] + [new] + src_lines[l1 + 1:]


def main() -> int:
    ap = argparse.ArgumentParser()
    ap.add_argument("--out", required=True)
    ap.add_argument("--file", required=True)
    ap.add_argument("--funcs", required=True, help="comma separated function names (any class)")
    ap.add_argument("--max", type=int, default=40)
    ap.add_argument("--seed", type=int, default=0)
    a = ap.parse_args()
    path = os.path.join(REPO, a.file)
    src = open(path, encoding="utf-8").read()
    tree = ast.parse(src)
    want = set(a.funcs.split(","))
    fns = [n for n in ast.walk(tree) if isinstance(n, (ast.FunctionDef, ast.AsyncFunctionDef)) and n.name in want]
    cands = []
    for fn in fns:
        for node, text, desc in candidates(fn):
            if isinstance(node, ast.Expr) and node is fn.body[0] and isinstance(getattr(node, "value", None), ast.Constant):
                continue
            cands.append((fn.name, node, text, desc))
    rng = random.Random(a.seed)
    rng.shuffle(cands)
    os.makedirs(a.out, exist_ok=True)
    lines = src.split("\n")
    k = 0
    seen = set()
    for fname, node, text, desc in cands:
        if k >= a.max:
            break
        try:
            new_lines = replace_segment(lines, node, text if text != "pass" or not isinstance(node, ast.stmt) else "pass")
        except Exception:
            continue
        new = "\n".join(new_lines)
        if new == src or new in seen:
            continue
        seen.add(new)
        try:
            compile(new, path, "exec")
        except SyntaxError:
            continue
        diff = "".join(difflib.unified_diff(src.splitlines(True), new.splitlines(True), "a/" + a.file, "b/" + a.file, n=3))
        d = os.path.join(a.out, f"{k:03d}")
        os.makedirs(d, exist_ok=True)
        open(os.path.join(d, "patch.diff"), "w").write(diff)
        json.dump({"title": f"{a.file}:{fname} line {node.lineno}: {desc}", "mutant": True}, open(os.path.join(d, "meta.json"), "w"), indent=1)
        k += 1
    print(f"{k} mutants of {sorted(want)} written to {a.out} (of {len(cands)} candidates)")
    return 0


if __name__ == "__main__":
    sys.exit(main())
