#!/bin/sh
# usage: seed_eval.sh <seed-dir> <Cxx> [more checks]   — confirm the demo (pass clean / fail patched) and run the checks on the patched tree
D=$1; shift
WT=/tmp/wt_me
git -C $WT checkout -q -- .
echo "--- demo on clean:"; REPO_UNDER_TEST=$WT /venv/bin/python $D/demo.py 2>&1 | tail -1
(git -C $WT apply $D/patch.diff 2>/dev/null || (cd $WT && patch -p1 -s -F3 --no-backup-if-mismatch < $D/patch.diff)) || { echo "PATCH DOES NOT APPLY"; exit 3; }
echo "--- demo on patched:"; REPO_UNDER_TEST=$WT /venv/bin/python $D/demo.py 2>&1 | grep -m3 -i "fail\|pass"
for P in "$@"; do
  echo "--- check $P on patched:"; VERIF_REPO=$WT /verif/check "$P" 2>/dev/null | grep -v "^KNOWN" | tail -3
done
git -C $WT checkout -q -- .
cd /verif/lean && /venv/bin/python ../tools/translate.py >/dev/null 2>&1
