"""
gen_c08.py — translator part of C08: sqlframe/base/window.py and the ordering methods of
sqlframe/base/column.py  ->  lean/SqlframeModel/Gen/Window.lean  (namespace Sqlframe.Gen.Win).

What is extracted (never by importing sqlframe, only from the Python ast):

* the integer class constants of `Window` (`_JAVA_MIN_LONG`, `_JAVA_MAX_LONG`, the two thresholds, the three
  sentinels).  Closed constant arithmetic (ints, `<<`, `+ - *`, unary minus) is evaluated by the
  translator, references to other class constants stay symbolic, `sys.maxsize` becomes `sysMaxsize`
  (assumed 2^63-1: 64-bit CPython; the check compares it with the live interpreter).
* `WindowSpec._calc_start_end.get_value_and_side` as a *function* `Int -> RawValue × Option String`
  from its if/return chain.  Sub-language: `if`/`else`, assignments to local names, `return a, b`,
  conditional expressions, comparisons (== != < <= > >=, and/or/not) between integer expressions
  (the parameter, int literals, `Window.<const>`, `abs`, unary minus, `+ - *`), string constants,
  `None`, and `F.lit(<int expr>).expression`.
* which slot of the returned dict receives which component (`calcStartEnd`), the `kind` string and
  the argument order of `rowsBetween` / `rangeBetween`.
* for every builder whether it works on `self.copy()` (immutability) and whether a repeated
  `partitionBy` / `orderBy` extends or replaces; how `orderBy` treats an order key that is not
  an `exp.Ordered` (left bare, or wrapped with explicit `desc` / `nulls_first`), decided separately for a plain
  column reference and for any other expression from the `isinstance` chain of the rewrite.
* `Column.asc/desc/asc_nulls_first/...`  ->  (desc, nulls_first) table;  `Column.over` copies the spec.

Any other shape raises Untranslatable (the module is removed and every C08 theorem stops building).
"""
from __future__ import annotations

import ast
import re
import typing as t

from translate import HEADER, Untranslatable, find_class, find_func, lean_str, parse

OB = "Gen.Window"

CONST_NAMES = {
    "_JAVA_MIN_LONG": "javaMinLong",
    "_JAVA_MAX_LONG": "javaMaxLong",
    "_PRECEDING_THRESHOLD": "precedingThreshold",
    "_FOLLOWING_THRESHOLD": "followingThreshold",
    "unboundedPreceding": "unboundedPreceding",
    "unboundedFollowing": "unboundedFollowing",
    "currentRow": "currentRow",
}
REQUIRED_CONSTS = ["unboundedPreceding", "unboundedFollowing", "currentRow"]


def _lit(n: int) -> str:
    return str(n) if n >= 0 else f"({n})"


# ----------------------------------------------------------------------------------------------
# integer expressions
# ----------------------------------------------------------------------------------------------


class IntTr:
    """integer expressions -> Lean `Int` terms.  `names`: python name -> lean term; `env`: local ast bindings"""

    def __init__(self, ob: str, names: t.Dict[str, str], consts: t.Dict[str, str], env: t.Optional[t.Dict[str, ast.expr]] = None):
        self.ob = ob
        self.names = names
        self.consts = consts  # python class-constant name -> lean name (only those already defined)
        self.env = env or {}

    def closed(self, node: ast.expr) -> t.Optional[int]:
        """value of a closed constant expression, else None"""
        if isinstance(node, ast.Constant) and isinstance(node.value, int) and not isinstance(node.value, bool):
            return node.value
        if isinstance(node, ast.UnaryOp) and isinstance(node.op, ast.USub):
            v = self.closed(node.operand)
            return None if v is None else -v
        if isinstance(node, ast.BinOp):
            a, b = self.closed(node.left), self.closed(node.right)
            if a is None or b is None:
                return None
            if isinstance(node.op, ast.Add):
                return a + b
            if isinstance(node.op, ast.Sub):
                return a - b
            if isinstance(node.op, ast.Mult):
                return a * b
            if isinstance(node.op, ast.LShift) and 0 <= b <= 4096:
                return a << b
            if isinstance(node.op, ast.Pow) and 0 <= b <= 4096:
                return a**b
        return None

    def expr(self, node: ast.expr) -> str:
        v = self.closed(node)
        if v is not None:
            return _lit(v)
        if isinstance(node, ast.Name):
            if node.id in self.env:
                return self.expr(self.env[node.id])
            if node.id in self.names:
                return self.names[node.id]
            if node.id in self.consts:
                return self.consts[node.id]
            raise Untranslatable(self.ob, f"unknown name {node.id!r} in an integer expression")
        if isinstance(node, ast.Attribute):
            dotted = ast.unparse(node)
            if dotted == "sys.maxsize":
                return "sysMaxsize"
            if isinstance(node.value, ast.Name) and node.value.id in ("Window", "cls", "self") and node.attr in self.consts:
                return self.consts[node.attr]
            raise Untranslatable(self.ob, f"unsupported attribute {dotted!r}")
        if isinstance(node, ast.UnaryOp) and isinstance(node.op, ast.USub):
            return f"(-{self.expr(node.operand)})"
        if isinstance(node, ast.BinOp) and isinstance(node.op, (ast.Add, ast.Sub, ast.Mult)):
            sym = {ast.Add: "+", ast.Sub: "-", ast.Mult: "*"}[type(node.op)]
            return f"({self.expr(node.left)} {sym} {self.expr(node.right)})"
        if isinstance(node, ast.Call) and isinstance(node.func, ast.Name) and not node.keywords:
            if node.func.id == "abs" and len(node.args) == 1:
                return f"(pyAbs {self.expr(node.args[0])})"
            if node.func.id in ("max", "min") and len(node.args) == 2:
                return f"({node.func.id} {self.expr(node.args[0])} {self.expr(node.args[1])})"
            if node.func.id == "int" and len(node.args) == 1:
                return self.expr(node.args[0])
        raise Untranslatable(self.ob, f"unsupported integer expression {ast.unparse(node)!r}")

    def test(self, node: ast.expr) -> str:
        if isinstance(node, ast.BoolOp):
            j = " ∧ " if isinstance(node.op, ast.And) else " ∨ "
            return "(" + j.join(self.test(v) for v in node.values) + ")"
        if isinstance(node, ast.UnaryOp) and isinstance(node.op, ast.Not):
            return f"(¬ {self.test(node.operand)})"
        if isinstance(node, ast.Compare):
            operands = [node.left] + list(node.comparators)
            terms = [self.expr(o) for o in operands]
            parts = []
            for i, op in enumerate(node.ops):
                sym = {ast.Eq: "=", ast.NotEq: "≠", ast.Lt: "<", ast.LtE: "≤", ast.Gt: ">", ast.GtE: "≥"}.get(type(op))
                if sym is None:
                    raise Untranslatable(self.ob, f"unsupported comparison {type(op).__name__}")
                parts.append(f"{terms[i]} {sym} {terms[i + 1]}")
            return "(" + " ∧ ".join(parts) + ")"
        raise Untranslatable(self.ob, f"unsupported condition {ast.unparse(node)!r}")


# ----------------------------------------------------------------------------------------------
# Window class constants
# ----------------------------------------------------------------------------------------------


def _window_constants(cls: ast.ClassDef) -> t.Tuple[t.List[str], t.Dict[str, str]]:
    lines: t.List[str] = []
    consts: t.Dict[str, str] = {}
    for st in cls.body:
        if isinstance(st, ast.Assign) and len(st.targets) == 1 and isinstance(st.targets[0], ast.Name):
            name, value = st.targets[0].id, st.value
        elif isinstance(st, ast.AnnAssign) and isinstance(st.target, ast.Name) and st.value is not None:
            name, value = st.target.id, st.value
        else:
            continue
        if name not in CONST_NAMES:
            continue
        tr = IntTr(f"{OB}.{name}", {}, dict(consts))
        lean = tr.expr(value)
        lines.append(f"/-- `Window.{name} = {ast.unparse(value)}` -/")
        lines.append(f"def {CONST_NAMES[name]} : Int := {lean}")
        consts[name] = CONST_NAMES[name]
    for r in REQUIRED_CONSTS:
        if r not in consts:
            raise Untranslatable(f"{OB}.{r}", "class constant not found")
    return lines, consts


# ----------------------------------------------------------------------------------------------
# get_value_and_side
# ----------------------------------------------------------------------------------------------


class ChainTr:
    def __init__(self, param: str, consts: t.Dict[str, str]):
        self.param = param
        self.consts = consts
        self.ob = f"{OB}.get_value_and_side"

    def ints(self, env: t.Dict[str, ast.expr]) -> IntTr:
        return IntTr(self.ob, {self.param: "x"}, self.consts, env)

    def value(self, node: ast.expr, env: t.Dict[str, ast.expr]) -> str:
        if isinstance(node, ast.Constant) and isinstance(node.value, str):
            return f"(RawValue.kw {lean_str(node.value)})"
        if isinstance(node, ast.Name) and node.id in env:
            return self.value(env[node.id], env)
        if isinstance(node, ast.IfExp):
            return f"(if {self.ints(env).test(node.test)} then {self.value(node.body, env)} else {self.value(node.orelse, env)})"
        # F.lit(<int expr>).expression
        if (
            isinstance(node, ast.Attribute)
            and node.attr == "expression"
            and isinstance(node.value, ast.Call)
            and ast.unparse(node.value.func) in ("F.lit", "lit")
            and len(node.value.args) == 1
            and not node.value.keywords
        ):
            return f"(RawValue.lit {self.ints(env).expr(node.value.args[0])})"
        raise Untranslatable(self.ob, f"unsupported boundary value {ast.unparse(node)!r}")

    def side(self, node: ast.expr, env: t.Dict[str, ast.expr]) -> str:
        if isinstance(node, ast.Constant) and node.value is None:
            return "(none : Option String)"
        if isinstance(node, ast.Constant) and isinstance(node.value, str):
            return f"(some {lean_str(node.value)})"
        if isinstance(node, ast.Name) and node.id in env:
            return self.side(env[node.id], env)
        if isinstance(node, ast.IfExp):
            return f"(if {self.ints(env).test(node.test)} then {self.side(node.body, env)} else {self.side(node.orelse, env)})"
        raise Untranslatable(self.ob, f"unsupported boundary side {ast.unparse(node)!r}")

    def always_returns(self, stmts: t.Sequence[ast.stmt]) -> bool:
        if not stmts:
            return False
        last = stmts[-1]
        if isinstance(last, ast.Return):
            return True
        if isinstance(last, ast.If) and last.orelse:
            return self.always_returns(last.body) and self.always_returns(last.orelse)
        return False

    def block(self, stmts: t.Sequence[ast.stmt], env: t.Dict[str, ast.expr], depth: int = 1) -> str:
        if not stmts:
            raise Untranslatable(self.ob, "a branch falls off the end without returning")
        st, rest = stmts[0], stmts[1:]
        ind = "  " * depth
        if isinstance(st, ast.Expr) and isinstance(st.value, ast.Constant):
            return self.block(rest, env, depth)
        if isinstance(st, ast.Assign):
            if len(st.targets) != 1 or not isinstance(st.targets[0], ast.Name):
                raise Untranslatable(self.ob, f"unsupported assignment {ast.unparse(st)!r}")
            if st.targets[0].id == self.param:
                raise Untranslatable(self.ob, "the parameter is re-assigned")
            # substitute earlier locals now (python evaluates eagerly); conditions cannot have changed since
            env2 = dict(env)
            env2[st.targets[0].id] = _subst(st.value, env)
            return self.block(rest, env2, depth)
        if isinstance(st, ast.Return):
            if rest:
                raise Untranslatable(self.ob, "statements after return")
            if not (isinstance(st.value, ast.Tuple) and len(st.value.elts) == 2):
                raise Untranslatable(self.ob, f"return is not a pair: {ast.unparse(st)!r}")
            return f"({self.value(st.value.elts[0], env)}, {self.side(st.value.elts[1], env)})"
        if isinstance(st, ast.If):
            cond = self.ints(env).test(st.test)
            if st.orelse:
                if rest and not (self.always_returns(st.body) and self.always_returns(st.orelse)):
                    raise Untranslatable(self.ob, "if/else that does not return on both sides followed by more code")
                if not (self.always_returns(st.body) and self.always_returns(st.orelse)):
                    raise Untranslatable(self.ob, "if/else must return on both sides")
                return f"if {cond} then\n{ind}  {self.block(st.body, env, depth + 1)}\n{ind}else\n{ind}  {self.block(st.orelse, env, depth + 1)}"
            if not self.always_returns(st.body):
                raise Untranslatable(self.ob, "an `if` without else must return")
            return f"if {cond} then\n{ind}  {self.block(st.body, env, depth + 1)}\n{ind}else\n{ind}  {self.block(rest, env, depth + 1)}"
        raise Untranslatable(self.ob, f"unsupported statement {ast.unparse(st)[:60]!r}")


def _subst(node: ast.expr, env: t.Dict[str, ast.expr]) -> ast.expr:
    class S(ast.NodeTransformer):
        def visit_Name(self, n: ast.Name) -> ast.AST:
            return env[n.id] if n.id in env else n

    import copy

    return S().visit(copy.deepcopy(node))


def _calc_start_end(ws: ast.ClassDef, consts: t.Dict[str, str]) -> t.List[str]:
    ob = f"{OB}._calc_start_end"
    fn = find_func(ws.body, "_calc_start_end")
    params = [a.arg for a in fn.args.args]
    if params != ["self", "start", "end"]:
        raise Untranslatable(ob, f"unexpected parameters {params}")
    inner = find_func(fn.body, "get_value_and_side")
    ip = [a.arg for a in inner.args.args]
    if len(ip) != 1:
        raise Untranslatable(ob, "get_value_and_side must take one parameter")
    chain = ChainTr(ip[0], consts).block(inner.body, {})
    out = [
        "/-- `get_value_and_side(x)`: (value slot, side slot) of one frame boundary, translated from the if/return chain -/",
        "def getValueAndSide (x : Int) : RawValue × Option String :=",
        "  " + chain,
        "",
    ]
    # the rest of _calc_start_end
    env: t.Dict[str, str] = {}
    rebound: t.Set[str] = set()
    ret = None
    for st in fn.body:
        if st is inner or (isinstance(st, ast.Expr) and isinstance(st.value, ast.Constant)):
            continue
        if (
            isinstance(st, ast.Assign)
            and len(st.targets) == 1
            and isinstance(st.targets[0], ast.Tuple)
            and len(st.targets[0].elts) == 2
            and all(isinstance(e, ast.Name) for e in st.targets[0].elts)
            and isinstance(st.value, ast.Call)
            and isinstance(st.value.func, ast.Name)
            and st.value.func.id == "get_value_and_side"
            and len(st.value.args) == 1
            and isinstance(st.value.args[0], ast.Name)
        ):
            arg = st.value.args[0].id
            if arg not in ("start", "end") or arg in rebound:
                raise Untranslatable(ob, f"get_value_and_side applied to {arg!r} (not an unmodified parameter)")
            a, b = (e.id for e in st.targets[0].elts)  # type: ignore
            lean_arg = "start" if arg == "start" else "end_"
            env[a] = f"(getValueAndSide {lean_arg}).1"
            env[b] = f"(getValueAndSide {lean_arg}).2"
            rebound |= {a, b}
        elif isinstance(st, ast.Return):
            ret = st.value
        else:
            raise Untranslatable(ob, f"unsupported statement {ast.unparse(st)[:60]!r}")
    if not isinstance(ret, ast.Dict):
        raise Untranslatable(ob, "does not return a dict literal")
    slots: t.Dict[str, str] = {}
    for k, v in zip(ret.keys, ret.values):
        if not (isinstance(k, ast.Constant) and isinstance(k.value, str) and isinstance(v, ast.Name) and v.id in env):
            raise Untranslatable(ob, f"unsupported dict item {ast.unparse(k) if k else '**'}: {ast.unparse(v)}")
        slots[k.value] = env[v.id]
    if sorted(slots) != ["end", "end_side", "start", "start_side"]:
        raise Untranslatable(ob, f"unexpected dict keys {sorted(slots)}")
    for k in ("start", "end"):
        if not slots[k].endswith(".1") or not slots[k + "_side"].endswith(".2"):
            raise Untranslatable(ob, f"slot {k!r} does not receive a (value, side) pair in that order")
    out += [
        "/-- the dict `_calc_start_end(start, end)` returns -/",
        "def calcStartEnd (start end_ : Int) : RawFrame :=",
        f"  {{ start := {slots['start']}, startSide := {slots['start_side']}, end_ := {slots['end']}, endSide := {slots['end_side']} }}",
        "",
    ]
    return out


# ----------------------------------------------------------------------------------------------
# builders
# ----------------------------------------------------------------------------------------------


def _body_lines(fn: ast.FunctionDef) -> t.List[str]:
    out = []
    for st in fn.body:
        if isinstance(st, (ast.Import, ast.ImportFrom)):
            continue
        if isinstance(st, ast.Expr) and isinstance(st.value, ast.Constant):
            continue
        out.append(ast.unparse(st))
    return out


FLATTEN = "cols = flatten(cols) if isinstance(cols[0], t.Collection) else cols"  # raises IndexError on no arguments
FLATTEN_SAFE = "cols = flatten(cols) if cols and isinstance(cols[0], t.Collection) else cols"
EXPRS = "expressions = [Column.ensure_col(x).expression for x in cols]"  # keeps the Column's alias (F.<function>() results are auto-aliased)
EXPRS_UNALIASED = "expressions = [Column.ensure_col(x).column_expression for x in cols]"
def _copy_flag(line: str, ob: str) -> bool:
    if line == "window_spec = self.copy()":
        return True
    if line == "window_spec = self":
        return False
    raise Untranslatable(ob, f"expected `window_spec = self.copy()`, found {line[:60]!r}")


def _partition_by(ws: ast.ClassDef) -> t.List[str]:
    ob = f"{OB}.partitionBy"
    lines = _body_lines(find_func(ws.body, "partitionBy"))
    if len(lines) < 5 or lines[0] not in (FLATTEN, FLATTEN_SAFE) or lines[1] not in (EXPRS, EXPRS_UNALIASED) or lines[-1] != "return window_spec":
        raise Untranslatable(ob, "body shape not recognised")
    indexes_first = lines[0] == FLATTEN
    keeps_alias = lines[1] == EXPRS
    copies = _copy_flag(lines[2], ob)
    mid = lines[3:-1]
    if mid == [
        "partition_by_expressions = window_spec.expression.args.get('partition_by', [])",
        "partition_by_expressions.extend(expressions)",
        "window_spec.expression.set('partition_by', partition_by_expressions)",
    ]:
        extends = True
    elif mid == ["window_spec.expression.set('partition_by', expressions)"]:
        extends = False
    else:
        raise Untranslatable(ob, f"body shape not recognised: {mid}")
    return [
        "/-- does `partitionBy` work on `self.copy()`? -/",
        f"def partitionByCopies : Bool := {str(copies).lower()}",
        "/-- does `partitionBy` extend the PARTITION BY list already present (false: it replaces it)? -/",
        f"def partitionByExtends : Bool := {str(extends).lower()}",
        "/-- does `partitionBy()` without arguments evaluate `cols[0]` (IndexError)? -/",
        f"def partitionByIndexesFirst : Bool := {str(indexes_first).lower()}",
        "/-- does `partitionBy` read `Column.expression` (alias included) rather than `column_expression`? -/",
        f"def partitionByKeepsAlias : Bool := {str(keeps_alias).lower()}",
    ]


# classes of order-key expressions the wrap decision is evaluated for
KEY_CLASSES = ("Ordered", "Column", "Other")
# isinstance(x, exp.K) for a key of class c: True / False; anything else is unknown
ISINSTANCE = {
    ("Ordered", "Ordered"): True,
    ("Ordered", "Column"): False,
    ("Column", "Ordered"): False,
    ("Column", "Column"): True,
    ("Column", "Condition"): True,
    ("Other", "Ordered"): False,
    ("Other", "Column"): False,
}


class WrapTr:
    """`expressions = [<elt over x> for x in expressions]` in WindowSpec.orderBy: what becomes of an order key of
    each class (already an exp.Ordered / a plain exp.Column / any other expression).
    Sub-language of <elt>: `x`, `exp.Ordered(this=x[, desc=<bool>][, nulls_first=<bool>])`, conditional
    expressions over `isinstance(x, exp.K)` / `isinstance(x, (exp.K1, exp.K2))`, not / and / or."""

    def __init__(self, ob: str, var: str):
        self.ob = ob
        self.var = var

    def isinst(self, cls: str, k: ast.expr) -> bool:
        if isinstance(k, ast.Tuple):
            return any(self.isinst(cls, e) for e in k.elts)
        if isinstance(k, ast.Attribute) and isinstance(k.value, ast.Name) and k.value.id in ("exp", "expression", "expressions"):
            if k.attr == "Expression":
                return True
            v = ISINSTANCE.get((cls, k.attr))
            if v is None:
                raise Untranslatable(self.ob, f"isinstance(x, exp.{k.attr}) is not decided for an order key of class {cls}")
            return v
        raise Untranslatable(self.ob, f"unsupported class in isinstance: {ast.unparse(k)!r}")

    def test(self, cls: str, node: ast.expr) -> bool:
        if isinstance(node, ast.BoolOp):
            vals = [self.test(cls, v) for v in node.values]
            return all(vals) if isinstance(node.op, ast.And) else any(vals)
        if isinstance(node, ast.UnaryOp) and isinstance(node.op, ast.Not):
            return not self.test(cls, node.operand)
        if (
            isinstance(node, ast.Call)
            and isinstance(node.func, ast.Name)
            and node.func.id == "isinstance"
            and len(node.args) == 2
            and isinstance(node.args[0], ast.Name)
            and node.args[0].id == self.var
        ):
            return self.isinst(cls, node.args[1])
        raise Untranslatable(self.ob, f"unsupported condition {ast.unparse(node)!r}")

    def elt(self, cls: str, node: ast.expr) -> t.Optional[t.Tuple[bool, t.Optional[bool]]]:
        """None = the key is left as it is; (desc, nulls_first) = wrapped in exp.Ordered"""
        if isinstance(node, ast.Name) and node.id == self.var:
            return None
        if isinstance(node, ast.IfExp):
            return self.elt(cls, node.body if self.test(cls, node.test) else node.orelse)
        if isinstance(node, ast.Call) and ast.unparse(node.func) == "exp.Ordered" and not node.args:
            kws = {kw.arg: kw.value for kw in node.keywords}
            if set(kws) - {"this", "desc", "nulls_first"} or not (isinstance(kws.get("this"), ast.Name) and kws["this"].id == self.var):
                raise Untranslatable(self.ob, f"unsupported exp.Ordered call {ast.unparse(node)!r}")
            vals: t.Dict[str, t.Optional[bool]] = {}
            for k in ("desc", "nulls_first"):
                v = kws.get(k)
                if v is None:
                    vals[k] = None
                elif isinstance(v, ast.Constant) and (isinstance(v.value, bool) or v.value is None):
                    vals[k] = v.value
                else:
                    raise Untranslatable(self.ob, f"{k}= is not a literal")
            return (bool(vals["desc"]), vals["nulls_first"])
        raise Untranslatable(self.ob, f"unsupported order-key rewrite {ast.unparse(node)!r}")


def _wrap_stmt(st: ast.stmt, ob: str) -> t.Optional[t.Dict[str, t.Optional[t.Tuple[bool, t.Optional[bool]]]]]:
    """the optional `expressions = [... for x in expressions]` statement of orderBy; None when `st` is not one"""
    if not (
        isinstance(st, ast.Assign)
        and len(st.targets) == 1
        and isinstance(st.targets[0], ast.Name)
        and st.targets[0].id == "expressions"
        and isinstance(st.value, ast.ListComp)
    ):
        return None
    lc = st.value
    if (
        len(lc.generators) != 1
        or lc.generators[0].ifs
        or lc.generators[0].is_async
        or not isinstance(lc.generators[0].target, ast.Name)
        or ast.unparse(lc.generators[0].iter) != "expressions"
    ):
        raise Untranslatable(ob, f"unsupported rewrite of the order keys: {ast.unparse(st)[:80]!r}")
    tr = WrapTr(ob, lc.generators[0].target.id)
    out = {c: tr.elt(c, lc.elt) for c in KEY_CLASSES}
    if out["Ordered"] is not None:
        raise Untranslatable(ob, "a key that already is an exp.Ordered is wrapped again")
    return out


def _order_by(ws: ast.ClassDef) -> t.List[str]:
    ob = f"{OB}.orderBy"
    fn = find_func(ws.body, "orderBy")
    stmts = [
        st
        for st in fn.body
        if not isinstance(st, (ast.Import, ast.ImportFrom)) and not (isinstance(st, ast.Expr) and isinstance(st.value, ast.Constant))
    ]
    lines = _body_lines(fn)
    if len(lines) < 4 or lines[0] not in (FLATTEN, FLATTEN_SAFE) or lines[1] not in (EXPRS, EXPRS_UNALIASED) or lines[-1] != "return window_spec":
        raise Untranslatable(ob, "body shape not recognised")
    indexes_first = lines[0] == FLATTEN
    keeps_alias = lines[1] == EXPRS
    rest = lines[2:-1]
    wrap: t.Dict[str, t.Optional[t.Tuple[bool, t.Optional[bool]]]] = {c: None for c in KEY_CLASSES}
    w = _wrap_stmt(stmts[2], ob)
    if w is not None:
        wrap = w
        rest = rest[1:]
    if not rest:
        raise Untranslatable(ob, "body shape not recognised")
    copies = _copy_flag(rest[0], ob)
    mid = rest[1:]
    if mid == [
        "if window_spec.expression.args.get('order') is None:\n    window_spec.expression.set('order', exp.Order(expressions=[]))",
        "order_by = window_spec.expression.args['order'].expressions",
        "order_by.extend(expressions)",
        "window_spec.expression.args['order'].set('expressions', order_by)",
    ]:
        extends = True
    elif mid == ["window_spec.expression.set('order', exp.Order(expressions=expressions))"]:
        extends = False
    else:
        raise Untranslatable(ob, f"body shape not recognised: {mid}")

    def show(v: t.Optional[t.Tuple[bool, t.Optional[bool]]]) -> str:
        if v is None:
            return "none"
        nf = "none" if v[1] is None else f"some {str(v[1]).lower()}"
        return f"some ({str(v[0]).lower()}, {nf})"

    return [
        f"def orderByCopies : Bool := {str(copies).lower()}",
        "/-- does `orderBy` extend the ORDER BY list already present (false: it replaces it)? -/",
        f"def orderByExtends : Bool := {str(extends).lower()}",
        "/-- what `orderBy` does with an order key that states no ordering (is not an `exp.Ordered`):",
        "    `none` = left bare (the engine's default null placement applies), `some (desc, nulls_first)` = wrapped.",
        "    Decided separately for a plain column reference and for any other expression (`-c`, `c + 1`, `CASE …`). -/",
        f"def orderByColumnWrap : Option (Bool × Option Bool) := {show(wrap['Column'])}",
        f"def orderByExprWrap : Option (Bool × Option Bool) := {show(wrap['Other'])}",
        f"def orderByIndexesFirst : Bool := {str(indexes_first).lower()}",
        "/-- does `orderBy` read `Column.expression` (alias included) rather than `column_expression`? -/",
        f"def orderByKeepsAlias : Bool := {str(keeps_alias).lower()}",
    ]


def _between(ws: ast.ClassDef, name: str) -> t.List[str]:
    ob = f"{OB}.{name}"
    fn = find_func(ws.body, name)
    params = [a.arg for a in fn.args.args]
    if params != ["self", "start", "end"]:
        raise Untranslatable(ob, f"unexpected parameters {params}")
    lines = _body_lines(fn)
    if len(lines) != 5 or lines[-1] != "return window_spec":
        raise Untranslatable(ob, "body shape not recognised")
    copies = _copy_flag(lines[0], ob)
    m = re.match(r"^spec = self\._calc_start_end\((start|end), (start|end)\)$", lines[1])
    if not m:
        raise Untranslatable(ob, f"expected `spec = self._calc_start_end(start, end)`, found {lines[1][:60]!r}")
    a1, a2 = ("start" if g == "start" else "end_" for g in m.groups())
    k = re.match(r"^spec\['kind'\] = '([A-Za-z ]+)'$", lines[2])
    if not k:
        raise Untranslatable(ob, f"expected `spec['kind'] = <string>`, found {lines[2][:60]!r}")
    if lines[3] != "window_spec.expression.set('spec', exp.WindowSpec(**{**window_spec.expression.args.get('spec', exp.WindowSpec()).args, **spec}))":
        raise Untranslatable(ob, f"frame merge not recognised: {lines[3][:80]!r}")
    return [
        f"def {name}Copies : Bool := {str(copies).lower()}",
        f"/-- the frame `{name}(start, end)` stores: the `kind` string and the four boundary slots -/",
        f"def {name}Frame (start end_ : Int) : String × RawFrame := ({lean_str(k.group(1))}, calcStartEnd {a1} {a2})",
    ]


# ----------------------------------------------------------------------------------------------
# Column.asc / desc / ... and Column.over
# ----------------------------------------------------------------------------------------------

ORDER_METHODS = ["asc", "desc", "asc_nulls_first", "asc_nulls_last", "desc_nulls_first", "desc_nulls_last"]


def _kw_bool_opt(call: ast.Call, name: str, ob: str) -> t.Optional[bool]:
    for kw in call.keywords:
        if kw.arg == name:
            if isinstance(kw.value, ast.Constant) and (isinstance(kw.value.value, bool) or kw.value.value is None):
                return kw.value.value
            raise Untranslatable(ob, f"{name}= is not a literal")
    return None


def _column_ordering(col: ast.ClassDef) -> t.List[str]:
    table: t.Dict[str, t.Tuple[bool, t.Optional[bool]]] = {}
    for st in col.body:
        if isinstance(st, ast.FunctionDef) and st.name in ORDER_METHODS:
            ob = f"{OB}.Column.{st.name}"
            lines = _body_lines(st)
            if len(lines) != 2 or lines[1] != "return Column(new_expression)":
                raise Untranslatable(ob, "body shape not recognised")
            asg = [s for s in st.body if isinstance(s, ast.Assign)]
            if len(asg) != 1 or not (isinstance(asg[0].value, ast.Call) and ast.unparse(asg[0].value.func) == "exp.Ordered"):
                raise Untranslatable(ob, "does not build exp.Ordered")
            call = asg[0].value
            this = [kw for kw in call.keywords if kw.arg == "this"]
            if call.args or len(this) != 1 or ast.unparse(this[0].value) != "self.column_expression":
                raise Untranslatable(ob, "exp.Ordered is not applied to self.column_expression")
            if {kw.arg for kw in call.keywords} - {"this", "desc", "nulls_first"}:
                raise Untranslatable(ob, "unexpected keyword of exp.Ordered")
            desc = _kw_bool_opt(call, "desc", ob)
            table[st.name] = (bool(desc), _kw_bool_opt(call, "nulls_first", ob))
        elif (
            isinstance(st, ast.Assign)
            and len(st.targets) == 1
            and isinstance(st.targets[0], ast.Name)
            and st.targets[0].id in ORDER_METHODS
        ):
            if not (isinstance(st.value, ast.Name) and st.value.id in table):
                raise Untranslatable(f"{OB}.Column.{st.targets[0].id}", f"alias of {ast.unparse(st.value)!r}")
            table[st.targets[0].id] = table[st.value.id]
    missing = [m for m in ORDER_METHODS if m not in table]
    if missing:
        raise Untranslatable(f"{OB}.Column", f"ordering methods not found: {missing}")

    def show(v: t.Tuple[bool, t.Optional[bool]]) -> str:
        nf = "none" if v[1] is None else f"some {str(v[1]).lower()}"
        return f"({str(v[0]).lower()}, {nf})"

    out = ["/-- `Column.<method>()` builds `exp.Ordered(desc=…, nulls_first=…)`: (desc, nulls_first) -/"]
    for m in ORDER_METHODS:
        out.append(f"def ord_{m} : Bool × Option Bool := {show(table[m])}")
    out.append("def orderedTable : List (String × (Bool × Option Bool)) := [")
    out.append(",\n".join(f"  ({lean_str(m)}, ord_{m})" for m in ORDER_METHODS))
    out.append("]")
    # over
    ob = f"{OB}.Column.over"
    lines = _body_lines(find_func(col.body, "over"))
    if len(lines) != 3 or lines[1:] != ["window_expression.set('this', self.column_expression)", "return Column(window_expression)"]:
        raise Untranslatable(ob, "body shape not recognised")
    if lines[0] == "window_expression = window.expression.copy()":
        over = True
    elif lines[0] == "window_expression = window.expression":
        over = False
    else:
        raise Untranslatable(ob, f"unexpected first statement {lines[0][:60]!r}")
    out.append("/-- does `Column.over(spec)` attach the function to a *copy* of the spec's expression? -/")
    out.append(f"def overCopies : Bool := {str(over).lower()}")
    return out


# ----------------------------------------------------------------------------------------------

PRELUDE = """namespace Sqlframe.Gen.Win

/-- the value slot of a frame boundary as sqlframe stores it: a keyword string or an integer literal -/
inductive RawValue
  | kw (s : String)
  | lit (n : Int)
  deriving DecidableEq, Repr, Inhabited

/-- the four boundary slots of `exp.WindowSpec` -/
structure RawFrame where
  start : RawValue
  startSide : Option String
  end_ : RawValue
  endSide : Option String
  deriving DecidableEq, Repr, Inhabited

/-- python's `abs` on ints -/
def pyAbs (x : Int) : Int := if x < 0 then -x else x

/-- `sys.maxsize` (ASSUMED: 64-bit CPython; compared with the running interpreter by the check) -/
def sysMaxsize : Int := 9223372036854775807
"""


def gen_window(repo: str) -> str:
    wmod = parse(repo, "sqlframe/base/window.py")
    cmod = parse(repo, "sqlframe/base/column.py")
    w = find_class(wmod, "Window")
    ws = find_class(wmod, "WindowSpec")
    col = find_class(cmod, "Column")
    # Window.partitionBy etc. must delegate to a fresh WindowSpec
    for name in ("partitionBy", "orderBy", "rowsBetween", "rangeBetween"):
        fn = find_func(w.body, name)
        lines = _body_lines(fn)
        args = "*cols" if name in ("partitionBy", "orderBy") else "start, end"
        if lines != [f"return WindowSpec().{name}({args})"]:
            raise Untranslatable(f"{OB}.Window.{name}", f"does not delegate to WindowSpec().{name}: {lines}")
    const_lines, consts = _window_constants(w)
    out = [HEADER, PRELUDE]
    out += const_lines
    out.append("")
    out += _calc_start_end(ws, consts)
    out += _between(ws, "rowsBetween")
    out += _between(ws, "rangeBetween")
    out.append("")
    out += _partition_by(ws)
    out += _order_by(ws)
    out.append("")
    out += _column_ordering(col)
    out.append("")
    out.append("end Sqlframe.Gen.Win")
    return "\n".join(out) + "\n"


# ----------------------------------------------------------------------------------------------
# Gen.C08Chain  <- sqlframe/base/dataframe.py: how a window column enters a chain
# ----------------------------------------------------------------------------------------------

OBC = "Gen.C08Chain"


def _norm(src: str) -> str:
    return re.sub(r"\s+", " ", src).strip()


def _with_column(df: ast.ClassDef) -> t.List[str]:
    ob = f"{OBC}.withColumn"
    fn = find_func(df.body, "withColumn")
    params = [a.arg for a in fn.args.args]
    if params != ["self", "colName", "col"]:
        raise Untranslatable(ob, f"unexpected parameters {params}")
    lines = _body_lines(fn)
    if lines == ["return self.withColumns.__wrapped__(self, {colName: col})"]:
        wrapped = True
    elif lines == ["return self.withColumns({colName: col})"]:
        wrapped = False
    else:
        raise Untranslatable(ob, f"body shape not recognised: {lines[:3]}")
    return [
        "/-- `withColumn(name, col)` runs the *body* of `withColumns` (`withColumns.__wrapped__(self, {name: col})`);",
        "    false: it calls `self.withColumns(...)`, i.e. passes through that method's decorator a second time -/",
        f"def withColumnViaWrapped : Bool := {str(wrapped).lower()}",
    ]


def _with_columns(df: ast.ClassDef) -> t.List[str]:
    ob = f"{OBC}.withColumns"
    fn = find_func(df.body, "withColumns")
    body = [st for st in fn.body if not (isinstance(st, ast.Expr) and isinstance(st.value, ast.Constant))]
    lines = [ast.unparse(st) for st in body]
    # the select list starts as the outer select columns of the open block
    need = [
        "existing_cols = self._get_outer_select_columns(self.expression)",
        "existing_col_names = [x.alias_or_name for x in existing_cols]",
        "select_columns = existing_cols",
    ]
    pos = [lines.index(x) if x in lines else -1 for x in need]
    if -1 in pos or pos != sorted(pos):
        raise Untranslatable(ob, "the select list is not started from `_get_outer_select_columns(self.expression)`")
    loops = [st for st in body if isinstance(st, ast.For)]
    if len(loops) != 1 or body.index(loops[0]) < pos[-1]:
        raise Untranslatable(ob, "expected one loop over the new columns after the select list is started")
    loop = loops[0]
    if ast.unparse(loop.target) != "(col, (col_value, display_name))" or ast.unparse(loop.iter) != "col_map.items()":
        raise Untranslatable(ob, f"loop header not recognised: for {ast.unparse(loop.target)} in {ast.unparse(loop.iter)}")
    lb = [ast.unparse(st) for st in loop.body[:-1]]
    if [_norm(x) for x in lb] != [
        "column_name = col.alias_or_name",
        "existing_col_index = existing_col_names.index(column_name) if column_name in existing_col_names else None",
    ]:
        raise Untranslatable(ob, f"loop body not recognised: {lb}")
    branch = loop.body[-1]
    if not isinstance(branch, ast.If) or ast.unparse(branch.test) != "existing_col_index is not None" or len(branch.body) != 1 or len(branch.orelse) != 1:
        raise Untranslatable(ob, "expected `if existing_col_index is not None: ... else: ...` with one statement on each side")
    item = "col_value.alias(display_name)"
    ex = _norm(ast.unparse(branch.body[0]))
    if ex == f"select_columns[existing_col_index] = {item}":
        in_place = True
    elif ex == f"select_columns.append({item})":
        in_place = False
    else:
        raise Untranslatable(ob, f"what happens to an existing column is not recognised: {ex!r}")
    nw = _norm(ast.unparse(branch.orelse[0]))
    if nw == f"select_columns.append({item})":
        at_end = True
    elif nw == f"select_columns.insert(0, {item})":
        at_end = False
    else:
        raise Untranslatable(ob, f"where a new column goes is not recognised: {nw!r}")
    last = _norm(lines[-1])
    if last == "return df.select.__wrapped__(df, *select_columns, skip_update_display_name_mapping=True)":
        sel_wrapped = True
    elif last == "return df.select(*select_columns, skip_update_display_name_mapping=True)":
        sel_wrapped = False
    else:
        raise Untranslatable(ob, f"final select not recognised: {last[:80]!r}")
    # nothing between the loop and the final select may touch the list again
    tail = lines[body.index(loop) + 1 : -1]
    if any("select_columns" in x or "existing_cols" in x for x in tail):
        raise Untranslatable(ob, "the select list is modified again after the loop")
    return [
        "/-- `withColumns`: a name that already is an outer select column is replaced *at its position*",
        "    (false: the new item is appended and the old column stays) -/",
        f"def withColumnsExistingInPlace : Bool := {str(in_place).lower()}",
        "/-- `withColumns`: a new name goes to the end of the select list (false: to the front) -/",
        f"def withColumnsNewAtEnd : Bool := {str(at_end).lower()}",
        "/-- `withColumns` ends in the *body* of `select` (`select.__wrapped__`); false: in `df.select(...)`, through its decorator -/",
        f"def withColumnsSelectViaWrapped : Bool := {str(sel_wrapped).lower()}",
    ]


def _convert_leaf(df: ast.ClassDef) -> t.List[str]:
    ob = f"{OBC}._convert_leaf_to_cte"
    fn = find_func(df.body, "_convert_leaf_to_cte")
    lines = [_norm(x) for x in _body_lines(fn)]
    need_tail = [
        "sel_columns = df._get_outer_select_columns(cte_expression)",
        "new_expression = new_expression.from_(cte_name).select(*[x.expression for x in sel_columns])",
        "return df.copy(expression=new_expression, sequence_id=sequence_id)",
    ]
    if lines[-3:] != need_tail:
        raise Untranslatable(ob, f"the new block is not `SELECT <outer columns of the CTE> FROM <cte>`: {lines[-3:]}")
    start = [x for x in lines if x.startswith("new_expression = df._add_ctes_to_expression(")]
    if len(start) != 1:
        raise Untranslatable(ob, "expected one `new_expression = df._add_ctes_to_expression(...)`")
    if start[0] == "new_expression = df._add_ctes_to_expression(exp.Select(), expression.ctes + [cte_expression])":
        fresh = True
    elif start[0] == "new_expression = df._add_ctes_to_expression(expression, expression.ctes + [cte_expression])":
        fresh = False
    else:
        raise Untranslatable(ob, f"start of the new block not recognised: {start[0][:100]!r}")
    if not any(x.startswith("cte_expression, cte_name = df._create_cte_from_expression(expression=expression,") for x in lines):
        raise Untranslatable(ob, "the whole open block is not what becomes the CTE")
    return [
        "/-- `_convert_leaf_to_cte` builds the new open block from an empty `exp.Select()`: it carries no WHERE / DISTINCT /",
        "    ORDER BY / LIMIT of the block it froze (false: it is built from the old expression and keeps them) -/",
        f"def convertLeafFreshSelect : Bool := {str(fresh).lower()}",
    ]


def _where_body(df: ast.ClassDef) -> t.List[str]:
    ob = f"{OBC}.where"
    fn = find_func(df.body, "where")
    lines = [_norm(x) for x in _body_lines(fn)]
    src = " ".join(lines)
    if "_convert_leaf_to_cte" in src or "last_op" in src or ".ctes" in src or ".with_" in src:
        raise Untranslatable(ob, "the body takes block decisions of its own (CTE / last_op)")
    if not lines or not re.fullmatch(r"return self\.copy\(expression=self\.expression\.where\(col\.expression(, append=(True|False))?\)\)", lines[-1]):
        raise Untranslatable(ob, f"the predicate does not go into the WHERE of the block handed to the body: {lines[-1][:100] if lines else ''!r}")
    aliases = [n for n in df.body if isinstance(n, ast.Assign) and ast.unparse(n.value) == "where"]
    names = sorted(ast.unparse(a.targets[0]) for a in aliases)
    if names != ["filter"]:
        raise Untranslatable(ob, f"expected `filter = where`, found aliases {names}")
    return [
        "/-- `where` adds its predicate to the WHERE of the very block its decorator handed to it (asserted shape of the body:",
        "    `return self.copy(expression=self.expression.where(col.expression))`, no CTE / last_op decision inside); `filter = where` -/",
        "def whereIntoHandedBlock : Bool := true",
    ]


def gen_chain(repo: str) -> str:
    dmod = parse(repo, "sqlframe/base/dataframe.py")
    df = find_class(dmod, "BaseDataFrame")
    out = [HEADER, "namespace Sqlframe.Gen.WinChain", ""]
    out += _with_column(df)
    out += _with_columns(df)
    out += _convert_leaf(df)
    out += _where_body(df)
    out.append("")
    out.append("end Sqlframe.Gen.WinChain")
    return "\n".join(out) + "\n"


GENERATORS = {"Window": gen_window, "C08Chain": gen_chain}
