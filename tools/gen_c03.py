"""
gen_c03.py — translator part for C03 (what the optimizer can see of an aggregate):
sqlframe/base/functions.py + sqlframe/base/group.py + sqlframe/base/column.py + sqlframe/base/dataframe.py
+ the installed sqlglot (expressions.py, optimizer/merge_subqueries.py; read with `ast`, never imported)
-> Gen/C03Agg.lean

`df.sql(optimize=True)` hands the tree to sqlglot's rule list.  merge_subqueries keeps a block apart from its reader
only if a Select argument outside a short list is set, or one of its projections contains a node of a listed *class*
(AggFunc, Select, Explode).  For an aggregate without grouping keys the class of the emitted node is therefore the only
thing that keeps `SELECT AVG(v) AS a FROM d` from being inlined into `… WHERE v > a`.  Which class a request for an
aggregate ends up as is decided in sqlframe: the functions module (typed node vs. `invoke_anonymous_function`) and
GroupedData's by-name dispatch.

Extracted decisions
  * functions.py: for every top-level function all of whose `return`s are one of
        Column.invoke_expression_over_column(<x>, expression.K, …)   -> typed K
        Column(expression.K(…))                                      -> typed K
        Column.invoke_anonymous_function(<x>, "NAME", …)             -> anonymous NAME (upper-cased by the helper)
    and agree on the node, plus module-level aliases (`mean = avg`)                          -> `fnNodeTable`
    (functions with engine branches / intermediate values are left out: the model does not speak about them)
  * column.py: the two helpers really build `callable_expression(this=…)` / `exp.Anonymous(this=func_name.upper(), …)`
                                                                                              -> checked shape, `anonymousUppers`
  * group.py `_get_function_applied_columns`: dispatch `getattr(F, func_name)(name)` on `sqlframe.base.functions`,
    lower-casing of the name, the alias f-string                                            -> `byNameLowers`, `byNameAlias`
  * group.py shortcut methods (avg/max/min/sum, `mean -> self.avg`), `count()`              -> `byNameShortcuts`, `groupCountFn`, `groupCountAlias`
  * group.py `agg`: the dict branch takes element [0] of the by-name list per (column, function) item; the plain branch
    sets GROUP BY through `Select.group_by(*keys)` (a no-op for no keys)                      -> checked shape
  * dataframe.py `agg` = `groupBy().agg(*cols)`                                              -> checked shape
  * sqlglot/expressions.py: the classes deriving from AggFunc / Select / Explode, `Select.arg_types`
  * sqlglot/optimizer/merge_subqueries.py: `UNMERGABLE_ARGS` and the classes named in
    `not any(e.find(…) for e in inner_select.expressions)` of `_mergeable`                   -> `unmergeableArgs`, `mergeBarrierClasses`
Anything else raises Untranslatable.
"""
from __future__ import annotations

import ast
import importlib.util
import os
import typing as t

from translate import HEADER, Untranslatable, find_class, find_func, lean_str, parse

OB = "Gen.C03Agg"


def _strip(body: t.Sequence[ast.stmt]) -> t.List[ast.stmt]:
    body = list(body)
    if body and isinstance(body[0], ast.Expr) and isinstance(body[0].value, ast.Constant) and isinstance(body[0].value.value, str):
        body = body[1:]
    return [s for s in body if not isinstance(s, (ast.Import, ast.ImportFrom))]


def _returns(fn: ast.FunctionDef) -> t.List[ast.Return]:
    out: t.List[ast.Return] = []

    def go(n: ast.AST) -> None:
        for ch in ast.iter_child_nodes(n):
            if isinstance(ch, (ast.FunctionDef, ast.AsyncFunctionDef, ast.Lambda, ast.ClassDef)):
                continue
            if isinstance(ch, ast.Return):
                out.append(ch)
            go(ch)

    go(fn)
    return out


def _node_of_return(v: t.Optional[ast.expr]) -> t.Optional[t.Tuple[str, str]]:
    """('typed', K) / ('anonymous', NAME) for an understood return expression, else None"""
    if not isinstance(v, ast.Call):
        return None
    f = ast.unparse(v.func)
    if f == "Column.invoke_expression_over_column" and len(v.args) == 2:
        k = v.args[1]
        if isinstance(k, ast.Attribute) and ast.unparse(k.value) in ("expression", "exp"):
            if k.attr == "Anonymous":  # invoke_expression_over_column(None, expression.Anonymous, this="RANK")
                this = next((kw.value for kw in v.keywords if kw.arg == "this"), None)
                if isinstance(this, ast.Constant) and isinstance(this.value, str):
                    return ("anonymous!", this.value)  # name as written (no upper-casing by the helper)
                return None
            return ("typed", k.attr)
        return None
    if f == "Column.invoke_anonymous_function" and len(v.args) >= 2:
        k = v.args[1]
        if isinstance(k, ast.Constant) and isinstance(k.value, str):
            return ("anonymous", k.value)
        return None
    if f == "Column" and len(v.args) == 1 and not v.keywords and isinstance(v.args[0], ast.Call):
        k = v.args[0].func
        if isinstance(k, ast.Attribute) and ast.unparse(k.value) in ("expression", "exp"):
            if k.attr == "Anonymous":  # Column(expression.Anonymous(this="RANK"))
                this = next((kw.value for kw in v.args[0].keywords if kw.arg == "this"), None)
                if isinstance(this, ast.Constant) and isinstance(this.value, str):
                    return ("anonymous!", this.value)
                return None
            return ("typed", k.attr)
    return None


def _function_nodes(mod: ast.Module) -> t.Tuple[t.Dict[str, t.Tuple[str, str]], int]:
    table: t.Dict[str, t.Tuple[str, str]] = {}
    skipped = 0
    for st in mod.body:
        if isinstance(st, ast.FunctionDef) and not st.name.startswith("_"):
            rets = _returns(st)
            nodes = {_node_of_return(r.value) for r in rets}
            if rets and None not in nodes and len(nodes) == 1:
                table[st.name] = next(iter(nodes))  # type: ignore
            else:
                table.pop(st.name, None)
                skipped += 1
        elif isinstance(st, ast.Assign) and len(st.targets) == 1 and isinstance(st.targets[0], ast.Name) and isinstance(st.value, ast.Name):
            # alias = function   (mean = avg)
            if st.value.id in table:
                table[st.targets[0].id] = table[st.value.id]
            else:
                table.pop(st.targets[0].id, None)
    return table, skipped


def _helpers(col_mod: ast.Module) -> bool:
    """checks the two Column helpers; returns whether the anonymous helper upper-cases the name"""
    cls = find_class(col_mod, "Column")
    anon = find_func(cls.body, "invoke_anonymous_function")
    src = ast.unparse(anon)
    ob = OB + ".invoke_anonymous_function"
    if [a.arg for a in anon.args.args][:3] != ["cls", "column", "func_name"]:
        raise Untranslatable(ob, "parameters changed")
    if "new_expression = exp.Anonymous(this=func_name.upper(), expressions=expressions)" in src:
        upper = True
    elif "new_expression = exp.Anonymous(this=func_name, expressions=expressions)" in src:
        upper = False
    else:
        raise Untranslatable(ob, "does not build exp.Anonymous(this=func_name[.upper()], expressions=expressions)")
    if not src.rstrip().endswith("return Column(new_expression)"):
        raise Untranslatable(ob, "does not return Column(new_expression)")
    typed = find_func(cls.body, "invoke_expression_over_column")
    tsrc = ast.unparse(typed)
    ob = OB + ".invoke_expression_over_column"
    if [a.arg for a in typed.args.args][:3] != ["cls", "column", "callable_expression"]:
        raise Untranslatable(ob, "parameters changed")
    want = "new_expression = callable_expression(**ensure_expression_values) if ensured_column is None else callable_expression(this=ensured_column.column_expression, **ensure_expression_values)"
    if want not in tsrc or not tsrc.rstrip().endswith("return Column(new_expression)"):
        raise Untranslatable(ob, "does not return Column(callable_expression(this=<column>, **kwargs))")
    return upper


def _by_name(gd: ast.ClassDef) -> t.Tuple[bool, t.List[t.Tuple[str, str]]]:
    """`_get_function_applied_columns`: (lower-cases the name, alias f-string parts)"""
    ob = OB + "._get_function_applied_columns"
    fn = find_func(gd.body, "_get_function_applied_columns")
    if [a.arg for a in fn.args.args] != ["self", "func_name", "cols"]:
        raise Untranslatable(ob, "parameters changed")
    imports = [ast.unparse(s) for s in fn.body if isinstance(s, (ast.Import, ast.ImportFrom))]
    body = _strip(fn.body)
    lower = False
    if len(body) == 2 and ast.unparse(body[0]) == "func_name = func_name.lower()":
        lower = True
        body = body[1:]
    if len(body) != 1 or not isinstance(body[0], ast.Return) or not isinstance(body[0].value, ast.ListComp):
        raise Untranslatable(ob, "body is not a single list comprehension")
    comp = body[0].value
    g = comp.generators
    if len(g) != 1 or ast.unparse(g[0].iter) != "cols" or ast.unparse(g[0].target) != "name" or g[0].ifs:
        raise Untranslatable(ob, "comprehension does not iterate `for name in cols`")
    elt = comp.elt
    if not (isinstance(elt, ast.Call) and isinstance(elt.func, ast.Attribute) and elt.func.attr == "alias" and len(elt.args) == 1 and not elt.keywords):
        raise Untranslatable(ob, "element is not `<aggregate>.alias(<name>)`")
    call = ast.unparse(elt.func.value)
    if call != "getattr(F, func_name)(name)":
        raise Untranslatable(ob, f"the aggregate is not looked up in the functions module: {call!r} (expected getattr(F, func_name)(name))")
    if "from sqlframe.base import functions as F" not in imports:
        raise Untranslatable(ob, f"F is not sqlframe.base.functions: imports {imports}")
    arg = elt.args[0]
    if isinstance(arg, ast.Call) and ast.unparse(arg.func) == "self.session._sanitize_column_name" and len(arg.args) == 1:
        arg = arg.args[0]
    if not isinstance(arg, ast.JoinedStr):
        raise Untranslatable(ob, "alias is not an f-string")
    parts: t.List[t.Tuple[str, str]] = []
    for v in arg.values:
        if isinstance(v, ast.Constant) and isinstance(v.value, str):
            parts.append(("lit", v.value))
        elif isinstance(v, ast.FormattedValue) and isinstance(v.value, ast.Name) and v.value.id in ("func_name", "name") and v.conversion == -1 and v.format_spec is None:
            parts.append(("var", v.value.id))
        else:
            raise Untranslatable(ob, f"unsupported f-string part {ast.unparse(v)!r}")
    return lower, parts


def _shortcuts(gd: ast.ClassDef) -> t.Tuple[t.List[t.Tuple[str, str]], str, str, str]:
    """shortcut method -> function name; count's function, argument and alias"""
    direct: t.Dict[str, str] = {}
    via: t.Dict[str, str] = {}
    count: t.Optional[t.Tuple[str, str, str]] = None
    for st in gd.body:
        if not isinstance(st, ast.FunctionDef) or st.name.startswith("_") or st.name in ("agg", "pivot"):
            continue
        ob = f"{OB}.GroupedData.{st.name}"
        body = _strip(st.body)
        if len(body) != 1 or not isinstance(body[0], ast.Return):
            raise Untranslatable(ob, "body is not a single return")
        v = body[0].value
        src = ast.unparse(v)
        if st.name == "count":
            # return self.agg(F.count('*').alias('count'))
            ok = isinstance(v, ast.Call) and ast.unparse(v.func) == "self.agg" and len(v.args) == 1 and not v.keywords
            a = v.args[0] if ok else None
            ok = ok and isinstance(a, ast.Call) and isinstance(a.func, ast.Attribute) and a.func.attr == "alias" and len(a.args) == 1 and isinstance(a.args[0], ast.Constant)
            inner = a.func.value if ok else None  # type: ignore
            ok = ok and isinstance(inner, ast.Call) and isinstance(inner.func, ast.Attribute) and ast.unparse(inner.func.value) == "F" and len(inner.args) == 1 and isinstance(inner.args[0], ast.Constant)
            if not ok:
                raise Untranslatable(ob, f"unsupported body {src!r} (expected self.agg(F.<fn>(<literal>).alias(<literal>)))")
            imports = [ast.unparse(s) for s in st.body if isinstance(s, (ast.Import, ast.ImportFrom))]
            if "from sqlframe.base import functions as F" not in imports:
                raise Untranslatable(ob, f"F is not sqlframe.base.functions: imports {imports}")
            count = (inner.func.attr, str(inner.args[0].value), str(a.args[0].value))  # type: ignore
            continue
        if [a.arg for a in st.args.args] != ["self"] or st.args.vararg is None or st.args.vararg.arg != "cols":
            raise Untranslatable(ob, "signature is not (self, *cols)")
        if (
            isinstance(v, ast.Call)
            and ast.unparse(v.func) == "self.agg"
            and len(v.args) == 1
            and not v.keywords
            and isinstance(v.args[0], ast.Starred)
            and isinstance(v.args[0].value, ast.Call)
            and ast.unparse(v.args[0].value.func) == "self._get_function_applied_columns"
            and len(v.args[0].value.args) == 2
            and isinstance(v.args[0].value.args[0], ast.Constant)
            and isinstance(v.args[0].value.args[0].value, str)
            and ast.unparse(v.args[0].value.args[1]) == "cols"
        ):
            direct[st.name] = v.args[0].value.args[0].value
        elif isinstance(v, ast.Call) and isinstance(v.func, ast.Attribute) and ast.unparse(v.func.value) == "self" and [ast.unparse(a) for a in v.args] == ["*cols"] and not v.keywords:
            via[st.name] = v.func.attr
        else:
            raise Untranslatable(ob, f"unsupported body {src!r}")
    table = dict(direct)
    for m, tgt in via.items():
        if tgt not in direct:
            raise Untranslatable(f"{OB}.GroupedData.{m}", f"delegates to unknown shortcut {tgt}")
        table[m] = direct[tgt]
    if count is None:
        raise Untranslatable(OB + ".GroupedData.count", "method not found")
    return sorted(table.items()), count[0], count[1], count[2]


def _agg_shape(gd: ast.ClassDef, dmod: ast.Module) -> None:
    ob = OB + ".GroupedData.agg"
    src = ast.unparse(find_func(gd.body, "agg"))
    needed = [
        "columns = [self._get_function_applied_columns(agg_func, (column_name,))[0] for column_name, agg_func in exprs[0].items()] if isinstance(exprs[0], dict) else exprs",
        "cols = self._df._ensure_and_normalize_cols(columns)",
        "expression = self._df.expression.group_by(*[x.column_expression for x in self.group_by_cols]).select(*[x.expression for x in self.group_by_cols + cols], append=False)",
        "if not self.group_by_cols or not isinstance(self.group_by_cols[0], (list, tuple, set)):",
    ]
    for n in needed:
        if n not in src:
            raise Untranslatable(ob, f"statement missing or changed: {n[:100]!r}")
    df = find_class(dmod, "BaseDataFrame")
    dagg = _strip(find_func(df.body, "agg").body)
    if not dagg or ast.unparse(dagg[-1]) != "return df.groupBy().agg(*cols)":
        raise Untranslatable(OB + ".DataFrame.agg", "does not end in `return df.groupBy().agg(*cols)`")


# ------------------------------------------------------------------------------------------------
# the installed sqlglot, read as source
# ------------------------------------------------------------------------------------------------


def _sqlglot_dir() -> str:
    spec = importlib.util.find_spec("sqlglot")
    if spec is None or not spec.submodule_search_locations:
        raise Untranslatable(OB + ".sqlglot", "package not found")
    return list(spec.submodule_search_locations)[0]


def _parse_file(path: str) -> ast.Module:
    with open(path, encoding="utf-8") as f:
        return ast.parse(f.read(), filename=path)


def _class_bases(mod: ast.Module) -> t.Dict[str, t.List[str]]:
    out: t.Dict[str, t.List[str]] = {}
    for st in mod.body:
        if isinstance(st, ast.ClassDef):
            out[st.name] = [b.id for b in st.bases if isinstance(b, ast.Name)]
    return out


def _descendants(bases: t.Dict[str, t.List[str]], root: str) -> t.List[str]:
    if root not in bases:
        raise Untranslatable(OB + ".sqlglot.expressions", f"class {root} not found")
    out = [root]
    changed = True
    while changed:
        changed = False
        for c, bs in bases.items():
            if c not in out and any(b in out for b in bs):
                out.append(c)
                changed = True
    return [out[0]] + sorted(out[1:])


def _const_dict_keys(node: ast.expr, consts: t.Dict[str, t.List[str]], ob: str) -> t.List[str]:
    if not isinstance(node, ast.Dict):
        raise Untranslatable(ob, "not a dict literal")
    keys: t.List[str] = []
    for k, v in zip(node.keys, node.values):
        if k is None:  # **NAME
            if isinstance(v, ast.Name) and v.id in consts:
                keys += consts[v.id]
            else:
                raise Untranslatable(ob, f"unsupported ** expansion {ast.unparse(v)!r}")
        elif isinstance(k, ast.Constant) and isinstance(k.value, str):
            keys.append(k.value)
        else:
            raise Untranslatable(ob, f"unsupported key {ast.unparse(k)!r}")
    return keys


def _select_args(emod: ast.Module) -> t.List[str]:
    ob = OB + ".sqlglot.Select.arg_types"
    consts: t.Dict[str, t.List[str]] = {}
    for st in emod.body:
        if isinstance(st, ast.Assign) and len(st.targets) == 1 and isinstance(st.targets[0], ast.Name) and st.targets[0].id == "QUERY_MODIFIERS":
            consts["QUERY_MODIFIERS"] = _const_dict_keys(st.value, {}, ob)
    sel = next((s for s in emod.body if isinstance(s, ast.ClassDef) and s.name == "Select"), None)
    if sel is None:
        raise Untranslatable(ob, "class Select not found")
    for st in sel.body:
        if isinstance(st, ast.Assign) and len(st.targets) == 1 and ast.unparse(st.targets[0]) == "arg_types":
            return _const_dict_keys(st.value, consts, ob)
    raise Untranslatable(ob, "arg_types not found")


def _mergeable(mmod: ast.Module, select_args: t.List[str]) -> t.Tuple[t.List[str], t.List[str]]:
    """(UNMERGABLE_ARGS, the classes whose presence in a projection forbids merging)"""
    ob = OB + ".sqlglot._mergeable"
    unmergeable: t.Optional[t.List[str]] = None
    for st in mmod.body:
        if isinstance(st, ast.Assign) and len(st.targets) == 1 and ast.unparse(st.targets[0]) == "UNMERGABLE_ARGS":
            v = st.value
            if not (isinstance(v, ast.BinOp) and isinstance(v.op, ast.Sub) and ast.unparse(v.left) == "set(exp.Select.arg_types)" and isinstance(v.right, ast.Set)):
                raise Untranslatable(ob, f"UNMERGABLE_ARGS is {ast.unparse(v)[:80]!r}")
            minus = []
            for e in v.right.elts:
                if not (isinstance(e, ast.Constant) and isinstance(e.value, str)):
                    raise Untranslatable(ob, "UNMERGABLE_ARGS subtracts a non-literal")
                minus.append(e.value)
            unmergeable = [a for a in select_args if a not in minus]
    if unmergeable is None:
        raise Untranslatable(ob, "UNMERGABLE_ARGS not found")
    fn = find_func(mmod.body, "_mergeable")
    ret = fn.body[-1]
    if not (isinstance(ret, ast.Return) and isinstance(ret.value, ast.BoolOp) and isinstance(ret.value.op, ast.And)):
        raise Untranslatable(ob, "does not end in `return <conjunction>`")
    if "inner_select = inner_scope.expression.unnest()" not in ast.unparse(fn):
        raise Untranslatable(ob, "inner_select is not inner_scope.expression.unnest()")
    conj = [ast.unparse(c) for c in ret.value.values]
    if "not any((inner_select.args.get(arg) for arg in UNMERGABLE_ARGS))" not in conj:
        raise Untranslatable(ob, "the UNMERGABLE_ARGS conjunct is missing")
    classes: t.Optional[t.List[str]] = None
    for c in ret.value.values:
        # not any((e.find(exp.A, exp.B, …) for e in inner_select.expressions))
        if isinstance(c, ast.UnaryOp) and isinstance(c.op, ast.Not) and isinstance(c.operand, ast.Call) and ast.unparse(c.operand.func) == "any" and len(c.operand.args) == 1:
            g = c.operand.args[0]
            if isinstance(g, ast.GeneratorExp) and len(g.generators) == 1 and ast.unparse(g.generators[0].iter) == "inner_select.expressions" and not g.generators[0].ifs:
                e = g.elt
                var = ast.unparse(g.generators[0].target)
                if isinstance(e, ast.Call) and ast.unparse(e.func) == f"{var}.find" and not e.keywords:
                    names = []
                    for a in e.args:
                        if isinstance(a, ast.Attribute) and ast.unparse(a.value) == "exp":
                            names.append(a.attr)
                        else:
                            raise Untranslatable(ob, f"unsupported class argument {ast.unparse(a)!r}")
                    classes = names
    if classes is None:
        raise Untranslatable(ob, "the conjunct `not any(e.find(<classes>) for e in inner_select.expressions)` is missing")
    return unmergeable, classes


def _str_list(xs: t.Iterable[str]) -> str:
    return "[" + ", ".join(lean_str(x) for x in xs) + "]"


def gen_c03agg(repo: str) -> str:
    fmod = parse(repo, "sqlframe/base/functions.py")
    table, skipped = _function_nodes(fmod)
    upper = _helpers(parse(repo, "sqlframe/base/column.py"))
    gmod = parse(repo, "sqlframe/base/group.py")
    gd = find_class(gmod, "_BaseGroupedData")
    lower, parts = _by_name(gd)
    shortcuts, cfn, carg, calias = _shortcuts(gd)
    _agg_shape(gd, parse(repo, "sqlframe/base/dataframe.py"))

    sg = _sqlglot_dir()
    emod = _parse_file(os.path.join(sg, "expressions.py"))
    bases = _class_bases(emod)
    select_args = _select_args(emod)
    unmergeable, roots = _mergeable(_parse_file(os.path.join(sg, "optimizer", "merge_subqueries.py")), select_args)
    if "AggFunc" not in roots:
        raise Untranslatable(OB + ".sqlglot._mergeable", f"AggFunc is not among the classes that forbid merging: {roots}")
    agg_classes = _descendants(bases, "AggFunc")
    for k, (kind, name) in table.items():
        if kind == "typed" and name not in bases:
            raise Untranslatable(f"{OB}.functions.{k}", f"expression.{name} is not a class of the installed sqlglot")

    alias = " ++ ".join(lean_str(x) if k == "lit" else ("fn" if x == "func_name" else "name") for k, x in parts) or '""'
    out = [HEADER, "namespace Sqlframe.Gen", ""]
    out.append("/-- the root node a function of `sqlframe.base.functions` returns: a class of sqlglot's, or `exp.Anonymous` with this name -/")
    out.append("inductive FnNode | typed (cls : String) | anonymous (name : String)")
    out.append("  deriving DecidableEq, Repr")
    out.append("")
    out.append("/-- `Column.invoke_anonymous_function` builds `exp.Anonymous(this=func_name.upper(), …)` -/")
    out.append(f"def anonymousUppers : Bool := {'true' if upper else 'false'}")
    out.append("")
    out.append(f"/-- functions.py: every function all of whose returns build one and the same node ({len(table)} functions; {skipped} with branches on the")
    out.append("    engine or intermediate values are not in the table) -/")
    out.append("def fnNodeTable : List (String × FnNode) := [")
    rows = []
    for k in sorted(table):
        kind, name = table[k]
        if kind == "anonymous" and upper:
            name = name.upper()
        kind = kind.rstrip("!")
        rows.append(f"  ({lean_str(k)}, .{kind} {lean_str(name)})")
    out.append(",\n".join(rows))
    out.append("]")
    out.append("def fnNode (f : String) : Option FnNode := fnNodeTable.lookup f")
    out.append("")
    out.append("/-- `_get_function_applied_columns`: `getattr(F, func_name)(name)` on sqlframe.base.functions (checked shape) -/")
    out.append(f"def byNameLowers : Bool := {'true' if lower else 'false'}")
    out.append(f"def byNameAlias (fn name : String) : String := {alias}")
    out.append("")
    out.append("/-- GroupedData shortcut method -> function name handed to `_get_function_applied_columns` (`mean -> self.avg` resolved) -/")
    out.append("def byNameShortcuts : List (String × String) := [" + ", ".join(f"({lean_str(m)}, {lean_str(f)})" for m, f in shortcuts) + "]")
    out.append("")
    out.append("/-- `count()` = `self.agg(F.<fn>(<arg>).alias(<alias>))` -/")
    out.append(f"def groupCountFn : String := {lean_str(cfn)}")
    out.append(f"def groupCountArg : String := {lean_str(carg)}")
    out.append(f"def groupCountAlias : String := {lean_str(calias)}")
    out.append("")
    out.append("/-- sqlglot/expressions.py: AggFunc and every class deriving from it -/")
    out.append(f"def aggFuncClasses : List String := {_str_list(agg_classes)}")
    out.append("")
    out.append("/-- sqlglot `_mergeable`: `not any(e.find(<roots>) for e in inner_select.expressions)` — the named classes and their subclasses -/")
    out.append(f"def mergeBarrierRoots : List String := {_str_list(roots)}")
    segs = []
    for r in roots:
        segs.append("aggFuncClasses" if r == "AggFunc" else _str_list(_descendants(bases, r)))
    out.append("def mergeBarrierClasses : List String := " + " ++ ".join(segs))
    out.append("")
    out.append("/-- sqlglot `UNMERGABLE_ARGS` = `Select.arg_types` without the mergeable ones -/")
    out.append(f"def selectArgs : List String := {_str_list(select_args)}")
    out.append(f"def unmergeableArgs : List String := {_str_list(unmergeable)}")
    out.append("")
    out.append("end Sqlframe.Gen")
    return "\n".join(out) + "\n"


GENERATORS = {"C03Agg": gen_c03agg}
