import SqlframeModel.Codec.Basic
import SqlframeModel.Impl.C18Columns
namespace Sqlframe.Sess
open Lean Sqlframe
deriving instance FromJson, ToJson for Cte
deriving instance FromJson, ToJson for CteO
deriving instance FromJson, ToJson for Step
deriving instance FromJson, ToJson for Ev
deriving instance FromJson, ToJson for TCte
deriving instance FromJson, ToJson for Ref
deriving instance FromJson, ToJson for NormPath
deriving instance FromJson, ToJson for Accessor
deriving instance FromJson, ToJson for Site
deriving instance FromJson, ToJson for CEv
end Sqlframe.Sess
