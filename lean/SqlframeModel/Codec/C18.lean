import SqlframeModel.Codec.Basic
import SqlframeModel.Impl.C18Session
namespace Sqlframe.Sess
open Lean Sqlframe
deriving instance FromJson, ToJson for Cte
deriving instance FromJson, ToJson for CteO
deriving instance FromJson, ToJson for Step
deriving instance FromJson, ToJson for Ev
deriving instance FromJson, ToJson for TCte
end Sqlframe.Sess
