import SqlframeModel.Codec.Basic
import SqlframeModel.Props.C03
namespace Sqlframe
open Lean
deriving instance FromJson, ToJson for Prog
deriving instance ToJson for Cte
end Sqlframe
