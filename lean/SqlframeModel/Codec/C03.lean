import SqlframeModel.Codec.Basic
import SqlframeModel.Props.C03
import SqlframeModel.Props.C03Text
import SqlframeModel.Props.C03Agg
namespace Sqlframe
open Lean
deriving instance FromJson, ToJson for Prog
deriving instance ToJson for Cte
deriving instance FromJson, ToJson for Route
deriving instance FromJson, ToJson for InnerBlock

structure AggCase where
  keys : List String
  route : Route
  deriving FromJson

def nodeJson : Option Gen.FnNode → Json
  | some (.typed c) => Json.mkObj [("kind", "typed"), ("name", toJson c)]
  | some (.anonymous n) => Json.mkObj [("kind", "anonymous"), ("name", toJson n)]
  | none => Json.mkObj [("kind", "unknown"), ("name", Json.null)]

def itemJson (i : AggItem) : Json :=
  Json.mkObj [("fn", toJson i.fn), ("node", nodeJson i.node), ("arg", toJson i.arg), ("alias", toJson i.alias),
              ("typedAgg", toJson i.typedAgg)]
end Sqlframe
