/-
Codec/C10.lean — JSON codecs for the C10 driver (no proofs depend on it).
-/
import SqlframeModel.Codec.Basic
import SqlframeModel.Impl.C10Names
namespace Sqlframe.C10
open Lean

deriving instance FromJson, ToJson for Item
deriving instance FromJson, ToJson for NStep

/-- the real name functions, as finite tables computed by the harness with sqlglot; identity elsewhere -/
def fnsOfTables (low key typed back : List (String × String)) : NameFns where
  low := fun s => (low.lookup s).getD s
  key := fun s => (key.lookup s).getD s
  typed := fun s => (typed.lookup s).getD s
  back := fun s => (back.lookup s).getD s

end Sqlframe.C10
