import SqlframeModel.Codec.C01
import SqlframeModel.Impl.C06Group
namespace Sqlframe
open Lean
deriving instance FromJson, ToJson for AggFn
deriving instance FromJson, ToJson for AExpr
deriving instance FromJson, ToJson for GOp
deriving instance FromJson, ToJson for GStep
end Sqlframe
