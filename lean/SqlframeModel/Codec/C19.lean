/-
Codec/C19.lean — JSON codecs for the C19 line protocol (driver side only; no proofs depend on it).
Val:  null | {"int": i} | {"str": s} | {"flt": {"num","repr"}} | {"dec": {"num","repr","frepr"}} | {"list": [..]}
      | {"dict": {"ks": [..], "vs": [..]}} | {"row": {"hf": bool, "fields": [..], "vs": [..]}}
-/
import Lean.Data.Json
import SqlframeModel.Impl.C19Row
namespace Sqlframe.C19
open Lean

mutual
partial def valToJson : Val → Json
  | .none => Json.null
  | .int i => Json.mkObj [("int", toJson i)]
  | .str s => Json.mkObj [("str", toJson s)]
  | .flt n r => Json.mkObj [("flt", Json.mkObj [("num", toJson n), ("repr", toJson r)])]
  | .dec n r f => Json.mkObj [("dec", Json.mkObj [("num", toJson n), ("repr", toJson r), ("frepr", toJson f)])]
  | .list xs => Json.mkObj [("list", valsToJson xs)]
  | .dict ks vs => Json.mkObj [("dict", Json.mkObj [("ks", toJson ks), ("vs", valsToJson vs)])]
  | .row hf fs vs => Json.mkObj [("row", Json.mkObj [("hf", toJson hf), ("fields", valsToJson fs), ("vs", valsToJson vs)])]
partial def valsToJson (vs : Vals) : Json := Json.arr (vs.toList.map valToJson).toArray
end

mutual
partial def valFromJson (j : Json) : Except String Val :=
  match j with
  | Json.null => .ok .none
  | _ =>
    if let .ok x := j.getObjVal? "int" then do let i ← x.getInt?; pure (.int i)
    else if let .ok x := j.getObjVal? "str" then do let s ← x.getStr?; pure (.str s)
    else if let .ok x := j.getObjVal? "flt" then do
      let n ← (← x.getObjVal? "num").getInt?; let r ← (← x.getObjVal? "repr").getStr?; pure (.flt n r)
    else if let .ok x := j.getObjVal? "dec" then do
      let n ← (← x.getObjVal? "num").getInt?; let r ← (← x.getObjVal? "repr").getStr?
      let f ← (← x.getObjVal? "frepr").getStr?; pure (.dec n r f)
    else if let .ok x := j.getObjVal? "list" then do pure (.list (← valsFromJson x))
    else if let .ok x := j.getObjVal? "dict" then do
      let ks : List String ← fromJson? (← x.getObjVal? "ks")
      pure (.dict ks (← valsFromJson (← x.getObjVal? "vs")))
    else if let .ok x := j.getObjVal? "row" then do
      let hf ← (← x.getObjVal? "hf").getBool?
      pure (.row hf (← valsFromJson (← x.getObjVal? "fields")) (← valsFromJson (← x.getObjVal? "vs")))
    else .error s!"bad value {j.compress}"
partial def valsFromJson (j : Json) : Except String Vals := do
  let arr ← j.getArr?
  let vs ← arr.toList.mapM valFromJson
  pure (Vals.ofList vs)
end

def ctorFromJson (j : Json) : Except String Ctor := do
  let names (x : Json) (k : String) : Except String (List String) := do fromJson? (← x.getObjVal? k)
  if let .ok x := j.getObjVal? "kwargs" then pure (.kwargs (← names x "names") (← valsFromJson (← x.getObjVal? "vals")))
  else if let .ok x := j.getObjVal? "positional" then pure (.positional (← valsFromJson (← x.getObjVal? "vals")))
  else if let .ok x := j.getObjVal? "both" then
    pure (.both (← valsFromJson (← x.getObjVal? "vals")) (← names x "names") (← valsFromJson (← x.getObjVal? "kvals")))
  else if let .ok x := j.getObjVal? "factory" then pure (.factory (← names x "names") (← valsFromJson (← x.getObjVal? "vals")))
  else .error s!"bad ctor {j.compress}"

def opFromJson (j : Json) : Except String Op := do
  match j with
  | .str "len" => pure .len
  | .str "repr" => pure .repr
  | .str "pickle" => pure .pickle
  | .str "fields" => pure .fields
  | .str "hash" => pure .hash
  | .str "asDictDefault" => pure .asDictDefault
  | _ =>
    if let .ok x := j.getObjVal? "getIdx" then pure (.getIdx (← (← x.getObjVal? "i").getInt?))
    else if let .ok x := j.getObjVal? "getKey" then pure (.getKey (← valFromJson (← x.getObjVal? "k")))
    else if let .ok x := j.getObjVal? "getAttr" then pure (.getAttr (← (← x.getObjVal? "name").getStr?))
    else if let .ok x := j.getObjVal? "contains" then pure (.contains (← valFromJson (← x.getObjVal? "v")))
    else if let .ok x := j.getObjVal? "asDict" then pure (.asDict (← (← x.getObjVal? "recursive").getBool?))
    else if let .ok x := j.getObjVal? "eq" then pure (.eq (← valFromJson (← x.getObjVal? "other")))
    else if let .ok x := j.getObjVal? "lt" then pure (.lt (← valFromJson (← x.getObjVal? "other")))
    else if let .ok x := j.getObjVal? "setAttr" then pure (.setAttr (← (← x.getObjVal? "name").getStr?))
    else if let .ok x := j.getObjVal? "setFields" then do
      let ns : List String ← fromJson? (← x.getObjVal? "names"); pure (.setFields ns)
    else if let .ok x := j.getObjVal? "delAttr" then pure (.delAttr (← (← x.getObjVal? "name").getStr?))
    else if let .ok x := j.getObjVal? "ne" then pure (.ne (← valFromJson (← x.getObjVal? "other")))
    else if let .ok x := j.getObjVal? "le" then pure (.le (← valFromJson (← x.getObjVal? "other")))
    else if let .ok x := j.getObjVal? "getSlice" then
      pure (.getSlice (← (← x.getObjVal? "i").getInt?) (← (← x.getObjVal? "j").getInt?))
    else .error s!"bad op {j.compress}"

def errName : Err → String
  | .rowError => "rowError" | .psValueError => "psValueError" | .psTypeError => "psTypeError"
  | .keyError => "keyError" | .indexError => "indexError" | .attributeError => "attributeError"
  | .typeError => "typeError" | .runtimeError => "runtimeError" | .valueError => "valueError"

def outToJson : Out → Json
  | .val v => Json.mkObj [("val", valToJson v)]
  | .b x => Json.mkObj [("b", toJson x)]
  | .n i => Json.mkObj [("n", toJson i)]
  | .s x => Json.mkObj [("s", toJson x)]
  | .err e => Json.mkObj [("err", toJson (errName e))]
  | .tup vs => Json.mkObj [("tup", valsToJson vs)]
  | .callable => Json.mkObj [("callable", toJson true)]

partial def dtypeFromJson (j : Json) : Except String DType := do
  if let .ok x := j.getObjVal? "atomic" then pure (.atomic (← x.getStr?))
  else if let .ok x := j.getObjVal? "array" then
    pure (.array (← dtypeFromJson (← x.getObjVal? "elem")) (← (← x.getObjVal? "null").getBool?))
  else if let .ok x := j.getObjVal? "map" then
    pure (.map (← dtypeFromJson (← x.getObjVal? "key")) (← dtypeFromJson (← x.getObjVal? "value")) (← (← x.getObjVal? "null").getBool?))
  else if let .ok x := j.getObjVal? "struct" then
    let arr ← x.getArr?
    let fs ← arr.toList.mapM (fun f => do
      let n ← (← f.getObjVal? "name").getStr?
      let d ← dtypeFromJson (← f.getObjVal? "type")
      let nl ← (← f.getObjVal? "null").getBool?
      pure (n, d, nl))
    pure (.struct (fs.foldr (fun (x : String × DType × Bool) acc => SFields.cons x.1 x.2.1 x.2.2 acc) .nil))
  else .error s!"bad dtype {j.compress}"

def selFromJson (j : Json) : Except String ArgSel := do
  match (← j.getStr?) with
  | "ae" => pure .ae | "ea" => pure .ea | "aa" => pure .aa | "ee" => pure .ee
  | s => .error s!"bad argument selection {s}"

def argFromJson (j : Json) : Except String Arg := do
  match j with
  | Json.null => pure .none
  | _ =>
    if let .ok x := j.getObjVal? "rows" then pure (.rows (← valsFromJson x).toList)
    else if let .ok x := j.getObjVal? "frame" then
      match (← dtypeFromJson (← x.getObjVal? "schema")) with
      | .struct fs => pure (.frame fs (← valsFromJson (← x.getObjVal? "rows")).toList)
      | _ => .error "a frame's schema must be a struct"
    else .error s!"bad argument {j.compress}"

end Sqlframe.C19
