import SqlframeModel.Codec.Basic
import SqlframeModel.Impl.C16
namespace Sqlframe.C16
open Lean Sqlframe.Gen

def coercionName : Coercion → String
  | .ensureCol => "ensureCol" | .literal => "literal" | .parsed => "parsed" | .text => "text" | .none => "none"

partial def Ex.render : Ex → String
  | .column n => s!"col[{n}]"
  | .strLit s => s!"'{s}'"
  | .app f args => s!"{f}(" ++ ", ".intercalate (args.map Ex.render) ++ ")"

def renderOpt : Option Ex → Json
  | none => Json.null
  | some e => toJson e.render

def optBeq : Option Ex → Option Ex → Bool
  | none, none => true
  | some a, some b => Ex.beq a b
  | _, _ => false

end Sqlframe.C16
