import SqlframeModel.Codec.Basic
import SqlframeModel.Impl.C02Prog
namespace Sqlframe
open Lean
deriving instance FromJson, ToJson for Ref
deriving instance FromJson, ToJson for PExpr
deriving instance FromJson, ToJson for OnForm
deriving instance FromJson, ToJson for FrameDef
end Sqlframe
