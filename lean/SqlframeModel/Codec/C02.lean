import SqlframeModel.Codec.Basic
import SqlframeModel.Impl.C02Prog
import SqlframeModel.Impl.C02Ctes
namespace Sqlframe
open Lean
deriving instance FromJson, ToJson for Ref
deriving instance FromJson, ToJson for PExpr
deriving instance FromJson, ToJson for OnForm
deriving instance FromJson, ToJson for SItem
deriving instance FromJson, ToJson for SqlSel
deriving instance FromJson, ToJson for SqlBody
deriving instance FromJson, ToJson for SqlCte
deriving instance FromJson, ToJson for FrameDef
deriving instance FromJson, ToJson for Body
deriving instance FromJson, ToJson for NCte
end Sqlframe
