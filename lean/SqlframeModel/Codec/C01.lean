import SqlframeModel.Codec.Basic
import SqlframeModel.Impl.C01Scope
namespace Sqlframe
open Lean
deriving instance FromJson, ToJson for Step
end Sqlframe
