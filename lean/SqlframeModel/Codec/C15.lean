/-
Codec/C15.lean — JSON codecs for the C15 driver (driver side only; no proofs depend on it).
-/
import SqlframeModel.Codec.Basic
import SqlframeModel.Impl.C15Dml
namespace Sqlframe.C15
open Lean Sqlframe Sqlframe.Gen.Dml

deriving instance FromJson, ToJson for Qual
deriving instance FromJson, ToJson for QExpr
deriving instance FromJson, ToJson for PredIn
deriving instance FromJson, ToJson for Dml
deriving instance FromJson, ToJson for Cmd

end Sqlframe.C15
