/-
Codec/Basic.lean — JSON codecs for the line protocol (driver side only; no proofs depend on it).
-/
import Lean.Data.Json
import Lean.Elab.Deriving.FromToJson
import SqlframeModel.Core.Sql
namespace Sqlframe
open Lean

deriving instance FromJson, ToJson for Val
deriving instance FromJson, ToJson for BinOp
deriving instance FromJson, ToJson for Expr
deriving instance FromJson, ToJson for OrdKey
deriving instance FromJson, ToJson for Table
deriving instance FromJson, ToJson for Block

/-- compact value encoding used in outputs: null / int / string / bool as plain JSON,
    with strings tagged so that "1" and 1 cannot be confused -/
def Val.toPlain : Val → Json
  | .null => Json.null
  | .int i => toJson i
  | .str s => Json.mkObj [("s", toJson s)]
  | .bool b => toJson b

def Table.toPlain (T : Table) : Json :=
  Json.mkObj [("cols", toJson T.cols), ("rows", Json.arr (T.rows.map (fun r => Json.arr (r.map Val.toPlain).toArray)).toArray)]

end Sqlframe
