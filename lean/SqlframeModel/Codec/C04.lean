import SqlframeModel.Codec.C01
import SqlframeModel.Impl.C04
namespace Sqlframe
open Lean
deriving instance FromJson, ToJson for Namer
deriving instance FromJson, ToJson for Hint
deriving instance FromJson, ToJson for HintMethod
deriving instance FromJson, ToJson for Via
deriving instance FromJson, ToJson for Call
end Sqlframe
