/-
Codec/C14.lean — JSON codecs for the C14 driver (driver side only; no proofs depend on it).
-/
import SqlframeModel.Codec.Basic
import SqlframeModel.Impl.C14Scope
import SqlframeModel.Impl.C14Options
namespace Sqlframe.C14
open Lean Sqlframe

deriving instance FromJson, ToJson for Ty
deriving instance FromJson, ToJson for Frame
deriving instance FromJson, ToJson for Op
deriving instance FromJson, ToJson for Call
deriving instance FromJson, ToJson for Gen.OptVal
deriving instance FromJson, ToJson for RCall
deriving instance FromJson, ToJson for Via

def tyJson : Ty → Json | .int => "int" | .str => "str"

def TTable.toPlain (T : TTable) : Json :=
  Json.mkObj [("cols", toJson T.cols), ("tys", Json.arr (T.tys.map tyJson).toArray),
    ("rows", Json.arr (T.rows.map (fun r => Json.arr (r.map Val.toPlain).toArray)).toArray)]

def catJson (c : Cat) : Json :=
  Json.arr (c.map (fun e => Json.arr #[toJson e.1, e.2.toPlain])).toArray

def resJson (r : Res) : Json :=
  Json.mkObj [("ok", toJson r.ok), ("out", match r.out with | some T => T.toPlain | none => Json.null)]

def pathResJson : PathRes → Json
  | .ok => "ok" | .refused => "refused" | .notImplemented => "notImplemented" | .failed => "failed"

/-- an option value as plain JSON (the check renders it for the engine, quoting strings) -/
def optValPlain : Gen.OptVal → Json
  | .none => Json.null
  | .bool b => toJson b
  | .str s => toJson s
  | .int i => toJson i

def optsPlain (o : Opts) : Json := Json.arr (o.map (fun e => Json.arr #[toJson e.1, optValPlain e.2])).toArray
def renderedJson (o : List (String × String)) : Json := Json.arr (o.map (fun e => Json.arr #[toJson e.1, toJson e.2])).toArray

end Sqlframe.C14
