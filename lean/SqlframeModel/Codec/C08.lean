import SqlframeModel.Codec.Basic
import SqlframeModel.Impl.C08Spec
import SqlframeModel.Impl.C08Chain
namespace Sqlframe.Win
open Lean
deriving instance FromJson, ToJson for KeyForm
deriving instance FromJson, ToJson for UKey
deriving instance FromJson, ToJson for BOp
deriving instance FromJson, ToJson for WFn
deriving instance FromJson, ToJson for RFn
deriving instance FromJson, ToJson for AggK
deriving instance FromJson, ToJson for AggItem
deriving instance FromJson, ToJson for UItem
deriving instance FromJson, ToJson for UStep
end Sqlframe.Win
