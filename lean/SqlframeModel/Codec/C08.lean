import SqlframeModel.Codec.Basic
import SqlframeModel.Impl.C08Spec
namespace Sqlframe.Win
open Lean
deriving instance FromJson, ToJson for KeyForm
deriving instance FromJson, ToJson for UKey
deriving instance FromJson, ToJson for BOp
deriving instance FromJson, ToJson for WFn
deriving instance FromJson, ToJson for RFn
end Sqlframe.Win
