/-
Codec/C09.lean — JSON codecs for the C09 driver (no proofs depend on it).
-/
import SqlframeModel.Codec.Basic
import SqlframeModel.Impl.C09Scope
namespace Sqlframe.C09
open Lean

deriving instance FromJson, ToJson for RowShape
deriving instance FromJson, ToJson for SchemaForm

def PyKind.ofName : String → Option PyKind
  | "none" => some .none | "bool" => some .bool | "int" => some .int
  | "floatFinite" => some .floatFinite | "floatNan" => some .floatNan | "floatInf" => some .floatInf
  | "str" => some .str | "bytes" => some .bytes | "date" => some .date
  | "datetimeNaive" => some .datetimeNaive | "datetimeTz" => some .datetimeTz
  | "list" => some .list | "set" => some .set | "tuple" => some .tuple | "dict" => some .dict | "row" => some .row
  | _ => none

def LitClass.name : LitClass → String
  | .null => "null" | .boolean => "boolean" | .number => "number" | .string => "string" | .binary => "binary"
  | .dateCast => "cast:DATE" | .castStr ty => "cast:" ++ ty
  | .array => "array" | .tuple => "tuple" | .struct => "struct" | .varmap => "varmap"

/-- value trees: {"s":[kind,falsy]} | {"q":[kind,[elems]]} | {"r":[[names],[vals]]} | {"d":[[keys],[vals]]} -/
partial def PyVal.ofJson (j : Json) : Except String PyVal := do
  if let .ok a := j.getObjVal? "s" then
    let k ← (a.getArrVal? 0) >>= Json.getStr?
    let f ← (a.getArrVal? 1) >>= Json.getBool?
    match PyKind.ofName k with
    | some k => return .scalar k f
    | none => throw s!"unknown kind {k}"
  else if let .ok a := j.getObjVal? "q" then
    let k ← (a.getArrVal? 0) >>= Json.getStr?
    let es ← (a.getArrVal? 1) >>= Json.getArr?
    match PyKind.ofName k with
    | some k => return .seq k (← es.toList.mapM PyVal.ofJson)
    | none => throw s!"unknown kind {k}"
  else if let .ok a := j.getObjVal? "r" then
    let ns ← (a.getArrVal? 0) >>= Json.getArr?
    let vs ← (a.getArrVal? 1) >>= Json.getArr?
    return .row (← ns.toList.mapM Json.getStr?) (← vs.toList.mapM PyVal.ofJson)
  else if let .ok a := j.getObjVal? "d" then
    let ks ← (a.getArrVal? 0) >>= Json.getArr?
    let vs ← (a.getArrVal? 1) >>= Json.getArr?
    return .dict (← ks.toList.mapM PyVal.ofJson) (← vs.toList.mapM PyVal.ofJson)
  else throw "bad value tree"

/-- types: {"p": name} | {"a": elem} | {"m": [k, v]} | {"s": [[names], [types]]} -/
partial def STy.toJson : STy → Json
  | .prim t => Json.mkObj [("p", Lean.toJson t)]
  | .array e => Json.mkObj [("a", e.toJson)]
  | .map k v => Json.mkObj [("m", Json.arr #[k.toJson, v.toJson])]
  | .struct ns ts => Json.mkObj [("s", Json.arr #[Lean.toJson ns, Json.arr (ts.map STy.toJson).toArray])]

def optTy : Option STy → Json
  | some t => t.toJson
  | none => Json.null

def cps (l : List Char) : Json := toJson (l.map Char.toNat)
def ofCps (l : List Nat) : List Char := l.map Char.ofNat

end Sqlframe.C09
