/-
Codec/C09.lean — JSON codecs for the C09 driver (no proofs depend on it).
-/
import SqlframeModel.Codec.Basic
import SqlframeModel.Impl.C09Scope
namespace Sqlframe.C09
open Lean

deriving instance FromJson, ToJson for RowShape
deriving instance FromJson, ToJson for SchemaForm

def PyKind.ofName : String → Option PyKind
  | "none" => some .none | "bool" => some .bool | "int" => some .int
  | "floatFinite" => some .floatFinite | "floatNan" => some .floatNan | "floatInf" => some .floatInf
  | "str" => some .str | "bytes" => some .bytes | "date" => some .date
  | "datetimeNaive" => some .datetimeNaive | "datetimeTz" => some .datetimeTz
  | "list" => some .list | "set" => some .set | "tuple" => some .tuple | "dict" => some .dict | "row" => some .row
  | _ => none

def LitClass.name : LitClass → String
  | .null => "null" | .boolean => "boolean" | .number => "number" | .string => "string" | .binary => "binary"
  | .dateCast => "cast:DATE" | .castStr ty => "cast:" ++ ty
  | .array => "array" | .tuple => "tuple" | .struct => "struct" | .varmap => "varmap"

def cps (l : List Char) : Json := toJson (l.map Char.toNat)
def ofCps (l : List Nat) : List Char := l.map Char.ofNat

end Sqlframe.C09
