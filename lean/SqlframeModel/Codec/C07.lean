import SqlframeModel.Codec.C01
import SqlframeModel.Impl.C07SetOps
namespace Sqlframe
open Lean
deriving instance FromJson, ToJson for SetMethod
deriving instance FromJson, ToJson for Prog
end Sqlframe
