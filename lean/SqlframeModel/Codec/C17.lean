import SqlframeModel.Codec.Basic
import SqlframeModel.Impl.C17
import SqlframeModel.Impl.C17Soundex
import SqlframeModel.Impl.C17Compose
namespace Sqlframe.C17
open Lean

/-- one statement of a column program as the harness sends it -/
structure PStep where
  op : String
  on : Option Nat := none
  cmp : Option String := none
  k : Option Int := none
  v : Option Int := none
  deriving FromJson

def cmpOfName : String → Cmp
  | ">" => .gt | "<" => .lt | ">=" => .ge | "<=" => .le | "==" => .eq | _ => .ne

/-- `none`: a step this model does not speak about -/
def PStep.toStep (p : PStep) : Option Step :=
  let b : Branch := ⟨cmpOfName (p.cmp.getD "!="), p.k.getD 0, p.v.getD 0⟩
  match p.op with
  | "start" => some (.start b)
  | "when" => p.on.map (fun o => .when o b)
  | "otherwise" => p.on.map (fun o => .otherwise o (p.v.getD 0))
  | "neg" => p.on.map (fun o => .un o .neg)
  | "add" => p.on.map (fun o => .un o (.add (p.k.getD 0)))
  | "mul" => p.on.map (fun o => .un o (.mul (p.k.getD 0)))
  | "abs" => p.on.map (fun o => .un o .abs)
  | "coalesce" => p.on.map (fun o => .un o (.coalesce (p.k.getD 0)))
  | "alias" => p.on.map (fun o => .un o .ident)
  | "cast" => p.on.map (fun o => .un o .ident)
  | _ => none

/-- one driver request; unused fields are absent -/
structure Req where
  case : Nat
  op : String
  xs : Option (List Int) := none
  k : Option Int := none
  s : Option Int := none
  l : Option Int := none
  v : Option Int := none
  a : Option Int := none
  b : Option Int := none
  step : Option Int := none
  n : Option Int := none
  d : Option Int := none
  str : Option String := none
  rep : Option String := none
  pos : Option Int := none
  len : Option Int := none
  strs : Option (List String) := none
  ostrs : Option (List (Option String)) := none
  prog : Option (List PStep) := none
  rows : Option (List (Option Int)) := none
  deriving FromJson

def optInt : Option Int → Json | none => Json.null | some i => toJson i
def optNat : Option Nat → Json | none => Json.null | some i => toJson i
def ints (xs : List Int) : Json := toJson xs
def optStr : Option String → Json | none => Json.null | some s => toJson s
def optInts (xs : List (Option Int)) : Json := Json.arr (xs.map optInt).toArray
def table (t : List (List (Option Int))) : Json := Json.arr (t.map optInts).toArray

end Sqlframe.C17
