import SqlframeModel.Codec.Basic
import SqlframeModel.Impl.C17
import SqlframeModel.Impl.C17Soundex
namespace Sqlframe.C17
open Lean

/-- one driver request; unused fields are absent -/
structure Req where
  case : Nat
  op : String
  xs : Option (List Int) := none
  k : Option Int := none
  s : Option Int := none
  l : Option Int := none
  v : Option Int := none
  a : Option Int := none
  b : Option Int := none
  step : Option Int := none
  n : Option Int := none
  d : Option Int := none
  str : Option String := none
  rep : Option String := none
  pos : Option Int := none
  len : Option Int := none
  deriving FromJson

def optInt : Option Int → Json | none => Json.null | some i => toJson i
def optNat : Option Nat → Json | none => Json.null | some i => toJson i
def ints (xs : List Int) : Json := toJson xs

end Sqlframe.C17
