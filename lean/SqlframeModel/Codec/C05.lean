/-
Codec/C05.lean — JSON codecs for the C05 line protocol (driver side only; no proof depends on it).
`SqlExpr.toSexp` prints a tree in the vocabulary tools/props/c05.py prints `Column.expression` in.
-/
import SqlframeModel.Codec.Basic
import SqlframeModel.Impl.C05Engine
namespace Sqlframe.C05
open Lean Sqlframe

deriving instance FromJson, ToJson for Dbl
deriving instance FromJson, ToJson for CVal
deriving instance FromJson, ToJson for PyFloat
deriving instance FromJson, ToJson for PyVal
deriving instance FromJson, ToJson for Arith
deriving instance FromJson, ToJson for Cmp
deriving instance FromJson, ToJson for Logic
deriving instance FromJson, ToJson for StrFn
deriving instance FromJson, ToJson for Ty
deriving instance FromJson, ToJson for Site
deriving instance FromJson, ToJson for PyExpr

/-- compact value encoding used in outputs: null / int / bool as plain JSON, strings tagged, doubles as the
    exact decimal `{"d": [m, e]}` (= m · 10^e) or `{"d": "nan" | "inf" | "-inf"}` -/
def CVal.toPlain : CVal → Json
  | .null => Json.null
  | .int i => toJson i
  | .str s => Json.mkObj [("s", toJson s)]
  | .bool b => toJson b
  | .dbl (.fin m e) => Json.mkObj [("d", Json.arr #[toJson m, toJson e])]
  | .dbl .nan => Json.mkObj [("d", "nan")]
  | .dbl .pinf => Json.mkObj [("d", "inf")]
  | .dbl .ninf => Json.mkObj [("d", "-inf")]

def tokSexp : Tok → Json
  | .null => Json.arr #["Null"]
  | .boolean b => Json.arr #["Boolean", toJson b]
  | .number t => Json.arr #["Number", toJson t]
  | .string s => Json.arr #["Literal", Json.mkObj [("s", toJson s)]]

def litSexp : LitNode → Json
  | .tok t => tokSexp t
  | .cast t ty => Json.arr #["Cast", tokSexp t, toJson ty]
  | .opaque w => Json.arr #["opaque", toJson w]

def SqlExpr.toSexp : SqlExpr → Json
  | .col n => Json.arr #["Column", toJson n]
  | .lit v => litSexp v
  | .paren a => Json.arr #["Paren", a.toSexp]
  | .bin k a b => Json.arr #[toJson k, a.toSexp, b.toSexp]
  | .un k a => Json.arr #[toJson k, a.toSexp]
  | .isNull a => Json.arr #["Is", a.toSexp, Json.arr #["Null"]]
  | .inList a vs => Json.arr #["In", a.toSexp, Json.arr (vs.map litSexp).toArray]
  | .between a lo hi => Json.arr #["Between", a.toSexp, lo.toSexp, hi.toSexp]
  | .fn2 f a b => Json.arr #["Fn", toJson f, a.toSexp, b.toSexp]
  | .fn3 f a b c => Json.arr #["Fn", toJson f, a.toSexp, b.toSexp, c.toSexp]
  | .caseWhen c v r => Json.arr #["CaseWhen", c.toSexp, v.toSexp, r.toSexp]
  | .caseEnd => Json.arr #["CaseEnd"]
  | .caseElse d => Json.arr #["CaseElse", d.toSexp]
  | .cast a ty => Json.arr #["Cast", a.toSexp, toJson ty]
  | .alias a n => Json.arr #["Alias", a.toSexp, toJson n]

end Sqlframe.C05
