/-
Codec/C05.lean — JSON codecs for the C05 line protocol (driver side only; no proof depends on it).
`SqlExpr.toSexp` prints a tree in the vocabulary tools/props/c05.py prints `Column.expression` in.
-/
import SqlframeModel.Codec.Basic
import SqlframeModel.Impl.C05Engine
namespace Sqlframe.C05
open Lean Sqlframe

deriving instance FromJson, ToJson for Arith
deriving instance FromJson, ToJson for Cmp
deriving instance FromJson, ToJson for Logic
deriving instance FromJson, ToJson for StrFn
deriving instance FromJson, ToJson for Ty
deriving instance FromJson, ToJson for PyExpr

def litSexp : Val → Json
  | .null => Json.arr #["Null"]
  | .bool b => Json.arr #["Boolean", toJson b]
  | .int i => Json.arr #["Literal", toJson i]
  | .str s => Json.arr #["Literal", Json.mkObj [("s", toJson s)]]

def SqlExpr.toSexp : SqlExpr → Json
  | .col n => Json.arr #["Column", toJson n]
  | .lit v => litSexp v
  | .paren a => Json.arr #["Paren", a.toSexp]
  | .bin k a b => Json.arr #[toJson k, a.toSexp, b.toSexp]
  | .un k a => Json.arr #[toJson k, a.toSexp]
  | .isNull a => Json.arr #["Is", a.toSexp, Json.arr #["Null"]]
  | .inList a vs => Json.arr #["In", a.toSexp, Json.arr (vs.map litSexp).toArray]
  | .between a lo hi => Json.arr #["Between", a.toSexp, lo.toSexp, hi.toSexp]
  | .fn2 f a b => Json.arr #["Fn", toJson f, a.toSexp, b.toSexp]
  | .fn3 f a b c => Json.arr #["Fn", toJson f, a.toSexp, b.toSexp, c.toSexp]
  | .caseWhen c v r => Json.arr #["CaseWhen", c.toSexp, v.toSexp, r.toSexp]
  | .caseEnd => Json.arr #["CaseEnd"]
  | .caseElse d => Json.arr #["CaseElse", d.toSexp]
  | .cast a ty => Json.arr #["Cast", a.toSexp, toJson ty]
  | .alias a n => Json.arr #["Alias", a.toSexp, toJson n]

end Sqlframe.C05
