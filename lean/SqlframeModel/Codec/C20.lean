/-
Codec/C20.lean — JSON codecs for the C20 line protocol (driver side only; no proofs depend on it).
-/
import Lean.Data.Json
import Lean.Elab.Deriving.FromToJson
import SqlframeModel.Impl.C20Spec
namespace Sqlframe.C20
open Lean Sqlframe.Gen.Act

deriving instance FromJson, ToJson for Exc
deriving instance FromJson, ToJson for Obj
deriving instance FromJson, ToJson for RealMod
deriving instance FromJson, ToJson for Env
deriving instance FromJson, ToJson for Cfg
deriving instance FromJson, ToJson for Pkg
deriving instance FromJson, ToJson for ConnV
deriving instance FromJson, ToJson for Builder
deriving instance FromJson, ToJson for Inst
deriving instance FromJson, ToJson for Single
deriving instance FromJson, ToJson for State
deriving instance FromJson, ToJson for Res
deriving instance FromJson, ToJson for ImportForm
deriving instance FromJson, ToJson for ExitKind
deriving instance FromJson, ToJson for Event
deriving instance FromJson, ToJson for Outcome
deriving instance FromJson, ToJson for Saved
deriving instance FromJson, ToJson for Spec
deriving instance FromJson, ToJson for Want

end Sqlframe.C20
