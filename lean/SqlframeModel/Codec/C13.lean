import SqlframeModel.Codec.Basic
import SqlframeModel.Impl.C13Scope
import SqlframeModel.Impl.C13Spec
namespace Sqlframe.Views
open Lean Sqlframe
deriving instance FromJson, ToJson for AggFn
deriving instance FromJson, ToJson for UnOp
deriving instance FromJson, ToJson for BinOp2
deriving instance FromJson, ToJson for Body
deriving instance FromJson, ToJson for Query
deriving instance FromJson, ToJson for Ev
end Sqlframe.Views
