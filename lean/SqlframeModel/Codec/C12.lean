import SqlframeModel.Codec.Basic
import SqlframeModel.Impl.C12Names
namespace Sqlframe.C12
open Lean Sqlframe.Gen

def roleName : DialRole → String
  | .input => "input" | .output => "output" | .execution => "execution"

def sideName : NsSide → String
  | .from_ => "from" | .to_ => "to"

def strategyName : Strategy → String
  | .lowercase => "LOWERCASE" | .uppercase => "UPPERCASE" | .caseSensitive => "CASE_SENSITIVE" | .caseInsensitive => "CASE_INSENSITIVE"

def pairJson (p : DialRole × DialRole) : Json := Json.arr #[toJson (roleName p.1), toJson (roleName p.2)]

def rowJson (r : EngineRow) : Json :=
  Json.mkObj [
    ("engine", toJson r.engine), ("cls", toJson r.cls),
    ("input", toJson (rowDialects r).input), ("output", toJson (rowDialects r).output), ("execution", toJson (rowDialects r).execution),
    ("stmtDialect", toJson (stmtDialect (rowDialects r))),
    ("sanitize", toJson r.sanitize), ("trueFlags", toJson (trueFlags r)),
    ("flags", Json.arr (r.flags.map (fun p => Json.arr #[toJson p.1, toJson p.2])).toArray),
    ("ownCollect", match r.ownCollect with
      | none => Json.null
      | some (a, b, m) => Json.arr #[toJson (roleName a), toJson (roleName b), toJson m])]

end Sqlframe.C12
