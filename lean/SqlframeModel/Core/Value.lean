/-
Core/Value.lean — SQL values and three-valued logic (import-free core Lean).
Part of the trusted base: this is the *assumed* meaning of the engine's scalar
operators, validated against DuckDB by the correspondence streams.
-/
namespace Sqlframe

abbrev Name := String

inductive Val
  | null
  | int (i : Int)
  | str (s : String)
  | bool (b : Bool)
  deriving DecidableEq, Repr, Inhabited

abbrev Row := List Val

/-- Kleene conjunction on SQL values (non-boolean operands behave as NULL). -/
def and3 : Val → Val → Val
  | .bool false, _ => .bool false
  | _, .bool false => .bool false
  | .bool true, .bool true => .bool true
  | _, _ => .null

/-- Kleene disjunction. -/
def or3 : Val → Val → Val
  | .bool true, _ => .bool true
  | _, .bool true => .bool true
  | .bool false, .bool false => .bool false
  | _, _ => .null

def not3 : Val → Val
  | .bool b => .bool (!b)
  | _ => .null

/-- A WHERE clause keeps a row only when the predicate is TRUE (not NULL, not FALSE). -/
def isTrue (v : Val) : Bool := v = .bool true

/-- Total order used by ORDER BY on non-null values of one type.
    Cross-type comparisons never occur in well-typed programs; they are ordered by constructor. -/
def Val.rank : Val → Nat
  | .null => 0 | .bool _ => 1 | .int _ => 2 | .str _ => 3

def Val.le : Val → Val → Bool
  | .int a, .int b => a ≤ b
  | .str a, .str b => a ≤ b
  | .bool a, .bool b => (!a) || b
  | a, b => a.rank ≤ b.rank

theorem and3_comm (a b : Val) : and3 a b = and3 b a := by
  cases a <;> cases b <;> first | rfl | (rename_i x; cases x <;> rfl) | (rename_i x y; cases x <;> cases y <;> rfl)

theorem or3_comm (a b : Val) : or3 a b = or3 b a := by
  cases a <;> cases b <;> first | rfl | (rename_i x; cases x <;> rfl) | (rename_i x y; cases x <;> cases y <;> rfl)

end Sqlframe
