/-
Core/Table.lean — tables as ordered bags of rows, and PySpark's sequential
single-table operators (the *specification* side of C01/C11).
-/
import SqlframeModel.Core.Expr
namespace Sqlframe

structure Table where
  cols : List Name
  rows : List Row
  deriving Repr, DecidableEq

/-- Well-formed table: column names distinct, every row has the table's arity.
    Duplicate output names (possible after expression joins) are a genuine hazard
    for name-based lookup, so they are excluded explicitly rather than defaulted. -/
def Table.WF (T : Table) : Prop := T.cols.Nodup ∧ ∀ r ∈ T.rows, r.length = T.cols.length

instance (T : Table) : Decidable T.WF := by unfold Table.WF; exact inferInstance

/-! ### sorting -/

def insertBy {α} (le : α → α → Bool) (x : α) : List α → List α
  | [] => [x]
  | y :: ys => if le x y then x :: y :: ys else y :: insertBy le x ys

/-- stable insertion sort; the choice among tie orders is not part of any statement -/
def sortBy {α} (le : α → α → Bool) : List α → List α
  | [] => []
  | x :: xs => insertBy le x (sortBy le xs)

structure OrdKey where
  name : Name
  desc : Bool := false
  nullsFirst : Bool := true
  deriving Repr, DecidableEq

/-- `a` may precede `b` under one key -/
def keyLe (k : OrdKey) (a b : Val) : Bool :=
  match a, b with
  | .null, .null => true
  | .null, _ => k.nullsFirst
  | _, .null => !k.nullsFirst
  | a, b => if k.desc then b.le a else a.le b

def keyEq (a b : Val) : Bool := a == b

/-- lexicographic "may precede" over a key list, reading key values by name -/
def rowLe (cols : List Name) : List OrdKey → Row → Row → Bool
  | [], _, _ => true
  | k :: ks, r1, r2 =>
    let a := lookup cols r1 k.name
    let b := lookup cols r2 k.name
    if a = b then rowLe cols ks r1 r2 else keyLe k a b

/-! ### de-duplication (first occurrence kept) -/
def dedup : List Row → List Row
  | [] => []
  | r :: rs => r :: (dedup rs).filter (fun x => x ≠ r)

/-! ### PySpark-level sequential operators -/
def Table.filter (T : Table) (p : Expr) : Table :=
  { T with rows := T.rows.filter (fun r => isTrue (eval T.cols r p)) }

def Table.project (T : Table) (items : List (Name × Expr)) : Table :=
  { cols := items.map (·.1), rows := T.rows.map (fun r => items.map (fun it => eval T.cols r it.2)) }

def Table.limit (T : Table) (n : Nat) : Table := { T with rows := T.rows.take n }

def Table.distinct (T : Table) : Table := { T with rows := dedup T.rows }

def Table.sort (T : Table) (keys : List OrdKey) : Table :=
  { T with rows := sortBy (rowLe T.cols keys) T.rows }

def identSel (cols : List Name) : List (Name × Expr) := cols.map (fun c => (c, Expr.col c))

end Sqlframe
