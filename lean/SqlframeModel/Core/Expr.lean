/-
Core/Expr.lean — scalar expression language shared by the DataFrame models.
-/
import SqlframeModel.Core.Value
namespace Sqlframe

inductive BinOp
  | add | sub | mul | lt | le | gt | ge | eq | ne | and | or | nseq
  deriving DecidableEq, Repr

inductive Expr
  | col (n : Name)
  | lit (v : Val)
  | bin (op : BinOp) (a b : Expr)
  | not (a : Expr)
  | neg (a : Expr)
  | isNull (a : Expr)
  | ite (c t e : Expr)            -- CASE WHEN c THEN t ELSE e END
  deriving DecidableEq, Repr

/-- positional lookup: the first column with that name -/
def lookup : List Name → Row → Name → Val
  | c :: cs, v :: vs, n => if c = n then v else lookup cs vs n
  | _, _, _ => .null

def cmpSem (f : Int → Int → Bool) (g : String → String → Bool) (h : Bool → Bool → Bool) : Val → Val → Val
  | .int a, .int b => .bool (f a b)
  | .str a, .str b => .bool (g a b)
  | .bool a, .bool b => .bool (h a b)
  | _, _ => .null

def binSem : BinOp → Val → Val → Val
  | .add, .int a, .int b => .int (a + b)
  | .sub, .int a, .int b => .int (a - b)
  | .mul, .int a, .int b => .int (a * b)
  | .add, _, _ => .null
  | .sub, _, _ => .null
  | .mul, _, _ => .null
  | .lt, a, b => cmpSem (· < ·) (· < ·) (fun x y => !x && y) a b
  | .le, a, b => cmpSem (· ≤ ·) (· ≤ ·) (fun x y => !x || y) a b
  | .gt, a, b => cmpSem (· > ·) (· > ·) (fun x y => x && !y) a b
  | .ge, a, b => cmpSem (· ≥ ·) (· ≥ ·) (fun x y => x || !y) a b
  | .eq, a, b => cmpSem (· == ·) (· == ·) (· == ·) a b
  | .ne, a, b => cmpSem (· != ·) (· != ·) (· != ·) a b
  | .and, a, b => and3 a b
  | .or, a, b => or3 a b
  | .nseq, a, b => .bool (a = b)

def eval (cols : List Name) (r : Row) : Expr → Val
  | .col n => lookup cols r n
  | .lit v => v
  | .bin op a b => binSem op (eval cols r a) (eval cols r b)
  | .not a => not3 (eval cols r a)
  | .neg a => match eval cols r a with | .int i => .int (-i) | _ => .null
  | .isNull a => .bool (eval cols r a = .null)
  | .ite c t e => if isTrue (eval cols r c) then eval cols r t else eval cols r e

/-- column names an expression mentions -/
def Expr.refs : Expr → List Name
  | .col n => [n]
  | .lit _ => []
  | .bin _ a b => a.refs ++ b.refs
  | .not a => a.refs
  | .neg a => a.refs
  | .isNull a => a.refs
  | .ite c t e => c.refs ++ t.refs ++ e.refs

end Sqlframe
