/-
Core/Sql.lean — the *assumed* evaluation order of one SQL SELECT block over one
already-evaluated source (FROM → WHERE → SELECT → DISTINCT → ORDER BY → LIMIT).
Trusted base; validated against DuckDB by the correspondence stream (the same
generated pipelines are executed by DuckDB and by `evalBlock`).
ORDER BY keys are bare names resolved against the block's *output* columns
(DuckDB: an output alias wins over an input column of the same name).
-/
import SqlframeModel.Core.Table
namespace Sqlframe

structure Block where
  wher : List Expr := []
  sel : List (Name × Expr)
  distinct : Bool := false
  order : List OrdKey := []
  limit : Option Nat := none
  deriving Repr, DecidableEq

def stWhere (w : List Expr) (T0 : Table) : List Row :=
  T0.rows.filter (fun r => w.all (fun p => isTrue (eval T0.cols r p)))

def stSelect (sel : List (Name × Expr)) (cols : List Name) (rows : List Row) : List Row :=
  rows.map (fun r => sel.map (fun it => eval cols r it.2))

def stDistinct (d : Bool) (rows : List Row) : List Row := if d then dedup rows else rows

def stOrder (outCols : List Name) (ks : List OrdKey) (rows : List Row) : List Row :=
  match ks with
  | [] => rows
  | ks => sortBy (rowLe outCols ks) rows

def stLimit (l : Option Nat) (rows : List Row) : List Row :=
  match l with | none => rows | some n => rows.take n

def evalBlock (b : Block) (T0 : Table) : Table :=
  let outCols := b.sel.map (·.1)
  { cols := outCols,
    rows := stLimit b.limit (stOrder outCols b.order (stDistinct b.distinct (stSelect b.sel T0.cols (stWhere b.wher T0)))) }

end Sqlframe
