/-
Lemmas/C03.lean — closedness / uniqueness of CTE chains under wrap, merge and renaming.
-/
import SqlframeModel.Impl.C03
namespace Sqlframe

theorem cnames_append (a b : Chain) : cnames (a ++ b) = cnames a ++ cnames b := by simp [cnames]

theorem closedFrom_mono : ∀ (c : Chain) (s s' : List Nat), (∀ x ∈ s, x ∈ s') → closedFrom s c → closedFrom s' c := by
  intro c
  induction c with
  | nil => intro _ _ _ _; trivial
  | cons x xs ih =>
    intro s s' hss h
    refine ⟨fun r hr => hss r (h.1 r hr), ih _ _ ?_ h.2⟩
    intro y hy
    simp only [List.mem_append, List.mem_singleton] at hy ⊢
    rcases hy with hy | hy
    · exact Or.inl (hss y hy)
    · exact Or.inr hy

theorem closedFrom_append : ∀ (a b : Chain) (s : List Nat),
    closedFrom s (a ++ b) ↔ closedFrom s a ∧ closedFrom (s ++ cnames a) b := by
  intro a
  induction a with
  | nil => intro b s; simp [closedFrom, cnames]
  | cons x xs ih =>
    intro b s
    simp only [List.cons_append, closedFrom, ih, cnames, List.map_cons, List.append_assoc, and_assoc, List.nil_append, List.cons_append]

/-- appending one CTE whose references are all defined keeps the chain self-contained -/
theorem CU_snoc (c : Chain) (x : Cte) (h : CU c) (hn : x.name ∉ cnames c) (hr : ∀ r ∈ x.refs, r ∈ cnames c) :
    CU (c ++ [x]) := by
  refine ⟨?_, ?_⟩
  · rw [cnames_append, List.nodup_append]
    refine ⟨h.1, by simp [cnames], ?_⟩
    intro a ha b hb
    simp [cnames] at hb; subst hb
    exact fun e => hn (e ▸ ha)
  · rw [closedFrom_append]
    exact ⟨h.2, by simpa [closedFrom] using hr⟩

/-! ### the replacement map -/

theorem lookupRep_cons_eq (k v : Nat) (m : List (Nat × Nat)) : lookupRep ((k, v) :: m) k = v := by
  simp [lookupRep]

theorem lookupRep_cons_ne (k v r : Nat) (m : List (Nat × Nat)) (h : k ≠ r) : lookupRep ((k, v) :: m) r = lookupRep m r := by
  simp [lookupRep, List.find?, h]

theorem lookupRep_not_key (m : List (Nat × Nat)) (r : Nat) (h : ∀ p ∈ m, p.1 ≠ r) : lookupRep m r = r := by
  induction m with
  | nil => rfl
  | cons p ps ih =>
    obtain ⟨k, v⟩ := p
    have hk : k ≠ r := h (k, v) (by simp)
    rw [lookupRep_cons_ne k v r ps hk]
    exact ih (fun q hq => h q (by simp [hq]))

/-- invariant of the merge loop -/
structure MergeInv (ex : Chain) (rep : List (Nat × Nat)) (done : List Nat) (inc : Chain) (fresh : List Nat) : Prop where
  cu : CU ex
  seen : ∀ m ∈ done, lookupRep rep m ∈ cnames ex
  keys : ∀ p ∈ rep, p.1 ∈ done
  incClosed : closedFrom done inc
  incNodup : (done ++ cnames inc).Nodup
  freshNodup : fresh.Nodup
  freshEx : ∀ f ∈ fresh, f ∉ cnames ex
  freshInc : ∀ f ∈ fresh, f ∉ cnames inc
  freshLen : inc.length ≤ fresh.length

theorem addCtes_inv : ∀ (inc ex : Chain) (rep : List (Nat × Nat)) (done fresh : List Nat),
    MergeInv ex rep done inc fresh →
    CU (addCtes ex inc rep fresh).1 ∧
    (∀ m ∈ done ++ cnames inc, lookupRep (addCtes ex inc rep fresh).2 m ∈ cnames (addCtes ex inc rep fresh).1) ∧
    (∀ x ∈ cnames ex, x ∈ cnames (addCtes ex inc rep fresh).1) ∧
    (∀ x ∈ cnames inc, x ∈ cnames (addCtes ex inc rep fresh).1) := by
  intro inc
  induction inc with
  | nil =>
    intro ex rep done fresh h
    simp only [addCtes, cnames, List.map_nil, List.append_nil]
    exact ⟨h.cu, h.seen, fun x hx => hx, fun x hx => by simp at hx⟩
  | cons c cs ih =>
    intro ex rep done fresh h
    have hcd : c.name ∉ done := by
      have := h.incNodup
      simp only [cnames, List.map_cons] at this
      rw [List.nodup_append] at this
      exact fun hm => this.2.2 c.name hm c.name (by simp) rfl
    have hrefs : ∀ r ∈ c.refs.map (lookupRep rep), r ∈ cnames ex := by
      intro r hr
      simp only [List.mem_map] at hr
      obtain ⟨r0, hr0, rfl⟩ := hr
      exact h.seen r0 (h.incClosed.1 r0 hr0)
    have hnod' : (done ++ [c.name] ++ cnames cs).Nodup := by
      have := h.incNodup
      simpa [cnames, List.append_assoc] using this
    simp only [addCtes]
    by_cases hclash : c.name ∈ cnames ex
    · simp only [hclash, if_true]
      cases fresh with
      | nil => have := h.freshLen; simp at this
      | cons f fs =>
        simp only []
        have hfn := List.nodup_cons.mp h.freshNodup
        have hfex : f ∉ cnames ex := h.freshEx f (by simp)
        have hI : MergeInv (ex ++ [{ name := f, refs := c.refs.map (lookupRep rep) }]) ((c.name, f) :: rep)
            (done ++ [c.name]) cs fs := by
          refine ⟨CU_snoc ex _ h.cu hfex hrefs, ?_, ?_, ?_, hnod', hfn.2, ?_, ?_, ?_⟩
          · intro m hm
            rw [cnames_append]
            simp only [List.mem_append, List.mem_singleton] at hm
            rcases hm with hm | rfl
            · have hne : c.name ≠ m := fun e => hcd (e ▸ hm)
              rw [lookupRep_cons_ne _ _ _ _ hne]
              exact List.mem_append_left _ (h.seen m hm)
            · rw [lookupRep_cons_eq]; simp [cnames]
          · intro p hp
            simp only [List.mem_cons] at hp
            rcases hp with rfl | hp
            · simp
            · exact List.mem_append_left _ (h.keys p hp)
          · exact h.incClosed.2
          · intro g hg
            rw [cnames_append]
            simp only [List.mem_append, not_or]
            refine ⟨h.freshEx g (by simp [hg]), ?_⟩
            simp only [cnames, List.map_cons, List.map_nil, List.mem_singleton]
            exact fun e => hfn.1 (e ▸ hg)
          · intro g hg hm
            exact h.freshInc g (by simp [hg]) (by simp [cnames] at hm ⊢; exact Or.inr hm)
          · have := h.freshLen; simp at this ⊢; omega
        obtain ⟨h1, h2, h3, h4⟩ := ih _ _ _ _ hI
        refine ⟨h1, ?_, fun x hx => h3 x (by rw [cnames_append]; exact List.mem_append_left _ hx), ?_⟩
        · intro m hm
          apply h2
          simpa [cnames, List.append_assoc] using hm
        · intro x hx
          simp only [cnames, List.map_cons, List.mem_cons] at hx
          rcases hx with rfl | hx
          · exact h3 _ (by rw [cnames_append]; exact List.mem_append_left _ hclash)
          · exact h4 x hx
    · simp only [hclash, if_false]
      have hI : MergeInv (ex ++ [{ c with refs := c.refs.map (lookupRep rep) }]) rep (done ++ [c.name]) cs fresh := by
        refine ⟨CU_snoc ex _ h.cu hclash hrefs, ?_, ?_, ?_, hnod', h.freshNodup, ?_, ?_, ?_⟩
        · intro m hm
          rw [cnames_append]
          simp only [List.mem_append, List.mem_singleton] at hm
          rcases hm with hm | rfl
          · exact List.mem_append_left _ (h.seen m hm)
          · rw [lookupRep_not_key rep _ (fun p hp e => hcd (by rw [← e]; exact h.keys p hp))]
            simp [cnames]
        · intro p hp; exact List.mem_append_left _ (h.keys p hp)
        · exact h.incClosed.2
        · intro g hg
          rw [cnames_append]
          simp only [List.mem_append, not_or]
          refine ⟨h.freshEx g hg, ?_⟩
          simp only [cnames, List.map_cons, List.map_nil, List.mem_singleton]
          exact fun e => h.freshInc g hg (by simp [cnames, e])
        · intro g hg hm
          exact h.freshInc g hg (by simp [cnames] at hm ⊢; exact Or.inr hm)
        · have := h.freshLen; simp at this ⊢; omega
      obtain ⟨h1, h2, h3, h4⟩ := ih _ _ _ _ hI
      refine ⟨h1, ?_, fun x hx => h3 x (by rw [cnames_append]; exact List.mem_append_left _ hx), ?_⟩
      · intro m hm
        apply h2
        simpa [cnames, List.append_assoc] using hm
      · intro x hx
        simp only [cnames, List.map_cons, List.mem_cons] at hx
        rcases hx with rfl | hx
        · exact h3 _ (by rw [cnames_append]; simp [cnames])
        · exact h4 x hx

end Sqlframe
