/-
Lemmas/C18Columns.lean — helper lemmas for the held-Column part of C18: when every path hands `normalize` a
copy, the heap never changes and a history of the Column model is a history of the session model.
-/
import SqlframeModel.Impl.C18Columns
import SqlframeModel.Lemmas.C18
namespace Sqlframe.Sess
open Sqlframe Sqlframe.Gen

theorem outs_cons (σ : Session) (e : Ev) (r : List Ev) : outs σ (e :: r) = obsEv σ e ++ outs (stepEv σ e) r := by
  cases e <;> rfl

theorem outs_queries (σ : Session) (ctx : List CteO) (j : List Name) (names : List Name) (r : List Ev) :
    outs σ (names.map (fun n => Ev.query ctx j n) ++ r) = names.map (resolveIdentR σ ctx j) ++ outs σ r := by
  induction names with
  | nil => rfl
  | cons n t ih => simp only [List.map_cons, List.cons_append, outs, ih]

theorem onlyOwn_queries (ctx : List CteO) (j : List Name) (names : List Name) (r : List Ev) :
    onlyOwn (names.map (fun n => Ev.query ctx j n) ++ r) = names.map (fun n => Ev.query ctx j n) ++ onlyOwn r := by
  induction names with
  | nil => rfl
  | cons n t ih => simp only [List.map_cons, List.cons_append, onlyOwn, ih]

/-- with copies on every path the heap is never written, and P observes what the session model says about
    the lowered history -/
theorem runC_copy (k : Copying) (hcp : ∀ p, k.cp p = true) (hip : ∀ s, k.ip s = false) (h : Heap) :
    ∀ (I : List CEv) (σ : Session), runC k σ h I = (outs σ (lower h I), h) := by
  intro I
  induction I with
  | nil => intro σ; rfl
  | cons e r ih =>
    intro σ
    cases e with
    | base e =>
      simp only [runC, lower, ih (stepEv σ e), outs_cons σ e]
    | apply own p refs ctx j =>
      cases own with
      | true =>
        simp only [runC, hcp p, if_true, ih σ, lower, normOnCopy]
        have : refs.map (fun rf => Ev.query ctx j (deref h rf)) = (refs.map (deref h)).map (fun n => Ev.query ctx j n) := by
          simp [List.map_map, Function.comp]
        rw [this, outs_queries]
        simp [List.map_map, Function.comp]
      | false =>
        simp only [runC, hcp p, if_true, ih σ, lower]
        simp
    | edit own site o token shielded =>
      simp only [runC, hip site, Bool.false_and, Bool.false_eq_true, if_false, ih σ, lower]
    | use own o extra =>
      cases own with
      | true => simp only [runC, ih σ, lower, outs, if_true, List.singleton_append]
      | false => simp only [runC, ih σ, lower]; simp

theorem lower_onlyOwnC (h : Heap) : ∀ I : List CEv, lower h (onlyOwnC I) = onlyOwn (lower h I) := by
  intro I
  induction I with
  | nil => rfl
  | cons e r ih =>
    cases e with
    | base e =>
      cases e with
      | step own st =>
        cases own with
        | true => simp only [onlyOwnC, lower, onlyOwn, ih]
        | false => simp only [onlyOwnC, lower, onlyOwn, ih]
      | query ctx j ident => simp only [onlyOwnC, lower, onlyOwn, ih]
      | readView n => simp only [onlyOwnC, lower, onlyOwn, ih]
      | readSql srcs cols => simp only [onlyOwnC, lower, onlyOwn, ih]
      | observe ts => simp only [onlyOwnC, lower, onlyOwn, ih]
    | edit own site o token shielded =>
      cases own with
      | true => simp only [onlyOwnC, lower, ih]
      | false => simp only [onlyOwnC, lower, ih]
    | use own o extra =>
      cases own with
      | true => simp only [onlyOwnC, lower, onlyOwn, ih]
      | false => simp only [onlyOwnC, lower, ih]
    | apply own p refs ctx j =>
      cases own with
      | true =>
        simp only [onlyOwnC, lower, ih]
        have : refs.map (fun rf => Ev.query ctx j (deref h rf)) = (refs.map (deref h)).map (fun n => Ev.query ctx j n) := by
          simp [List.map_map, Function.comp]
        rw [this, onlyOwn_queries]
      | false => simp only [onlyOwnC, lower, ih]

/-! ### the first use of a held Column gives the same identifiers in place and on a copy -/

theorem getD_setAt_ne {α : Type} (l : List α) (i k : Nat) (v d : α) (h : k ≠ i) : (setAt l i v).getD k d = l.getD k d := by
  induction l generalizing i k with
  | nil => rfl
  | cons a t ih =>
    cases i with
    | zero =>
      cases k with
      | zero => exact absurd rfl h
      | succ k => simp [setAt]
    | succ i =>
      cases k with
      | zero => simp [setAt]
      | succ k =>
        simp only [setAt, List.getD_cons_succ]
        exact ih i k (fun e => h (by rw [e]))

theorem getD_setAt_eq {α : Type} (l : List α) (i : Nat) (v d : α) (h : i < l.length) : (setAt l i v).getD i d = v := by
  induction l generalizing i with
  | nil => simp at h
  | cons a t ih =>
    cases i with
    | zero => simp [setAt]
    | succ i =>
      simp only [setAt, List.getD_cons_succ]
      exact ih i (by simpa using h)

/-- writing one slot does not change what any other reference stands for -/
theorem deref_writeRef_ne (h : Heap) (r r' : Ref) (o : Obs) (hne : r' ≠ r) : deref (writeRef h r o) r' = deref h r' := by
  cases r with
  | fresh n => cases o <;> rfl
  | held ob i =>
    cases o with
    | ident n =>
      cases r' with
      | fresh m => rfl
      | held ob' i' =>
        simp only [writeRef, deref]
        by_cases hob : ob' = ob
        · subst hob
          have hi : i' ≠ i := fun e => hne (by rw [e])
          by_cases hlen : ob' < h.length
          · rw [getD_setAt_eq h ob' _ [] hlen, getD_setAt_ne _ i i' n "" hi]
          · have hnil : h.getD ob' [] = [] := by
              simp only [List.getD_eq_getElem?_getD]
              rw [List.getElem?_eq_none (by omega)]
              rfl
            have : setAt h ob' (setAt (h.getD ob' []) i n) = h := by
              clear hi hne hnil
              induction h generalizing ob' with
              | nil => rfl
              | cons a t ih =>
                cases ob' with
                | zero => simp at hlen
                | succ k =>
                  simp only [setAt, List.getD_cons_succ]
                  rw [ih k (by simpa using hlen)]
            rw [this]
        · rw [getD_setAt_ne h ob ob' _ [] hob]
    | viewCols cs => rfl
    | raised => rfl
    | resolved ts => rfl
    | state ts => rfl

/-- as long as no identifier is handed over twice in one call, normalising in place yields the very
    identifiers normalising a copy yields: the difference only shows at the *next* use of the object -/
theorem normInPlace_obs (σ : Session) (ctx : List CteO) (j : List Name) : ∀ (refs : List Ref) (h : Heap),
    refs.Nodup → (normInPlace σ ctx j h refs).1 = normOnCopy σ ctx j h refs := by
  intro refs
  induction refs with
  | nil => intro h _; rfl
  | cons r rest ih =>
    intro h hnd
    have hnd' := List.nodup_cons.1 hnd
    simp only [normInPlace, normOnCopy, List.map_cons]
    rw [ih _ hnd'.2]
    congr 1
    unfold normOnCopy
    apply List.map_congr_left
    intro r' hr'
    rw [deref_writeRef_ne h r r' _ (fun e => hnd'.1 (e ▸ hr'))]

end Sqlframe.Sess
