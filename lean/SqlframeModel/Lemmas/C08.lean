/-
Lemmas/C08.lean — helper lemmas for the window theorems (no property statements here).

* the generated boundary function region by region (`gen_bound`) and against PySpark's rule
  (`bound_start`, `bound_end`) — written so that they hold for the source as it is *and* for a source
  that tests `x <= Window._PRECEDING_THRESHOLD` (the constants are unfolded to numerals first);
* the clause stored by `rowsBetween` / `rangeBetween` as the engine reads it;
* one builder call preserves the agreement invariant between the emitted clause and PySpark's window
  (`step_inv`), chains by induction (`chain_inv`);
* list facts about tagged rows, insertion sort and `idxOf` used by the ranking laws.
-/
import SqlframeModel.Impl.C08Spec
namespace Sqlframe.Win
open Sqlframe.Gen.Win
set_option linter.unusedSimpArgs false
set_option linter.unusedVariables false

/-! ### the generated constants as numerals -/

theorem up_eq : unboundedPreceding = -9223372036854775808 := by decide
theorem uf_eq : unboundedFollowing = 9223372036854775807 := by decide
theorem cr_eq : currentRow = 0 := by decide
theorem pt_eq : precedingThreshold = -9223372036854775807 := by decide
theorem ft_eq : followingThreshold = 9223372036854775807 := by decide
theorem jmin_eq : javaMinLong = -9223372036854775808 := by decide
theorem jmax_eq : javaMaxLong = 9223372036854775807 := by decide

/-! ### the generated boundary function -/

/-- the boundary sqlframe stores for `x`, region by region (at `-(2^63-1)` either reading is allowed:
    the source as it is gives `2^63-1 PRECEDING`, PySpark's threshold gives UNBOUNDED PRECEDING) -/
theorem gen_bound (x : Int) :
    (x = 0 → boundOf (getValueAndSide x) = some .currentRow) ∧
    (x ≤ -9223372036854775808 → boundOf (getValueAndSide x) = some .unboundedPreceding) ∧
    (x = -9223372036854775807 →
      boundOf (getValueAndSide x) = some (.preceding bigK) ∨ boundOf (getValueAndSide x) = some .unboundedPreceding) ∧
    (-9223372036854775807 < x → x < 0 → boundOf (getValueAndSide x) = some (.preceding (-x).toNat)) ∧
    (0 < x → x < 9223372036854775807 → boundOf (getValueAndSide x) = some (.following x.toNat)) ∧
    (9223372036854775807 ≤ x → boundOf (getValueAndSide x) = some .unboundedFollowing) := by
  unfold getValueAndSide boundOf pyAbs
  simp only [up_eq, uf_eq, cr_eq, pt_eq, ft_eq, jmin_eq, jmax_eq]
  refine ⟨?_, ?_, ?_, ?_, ?_, ?_⟩
  · intro h; simp [h]
  · intro h
    have h0 : ¬ x = 0 := by omega
    have h1 : x < 0 := by omega
    have h2 : x ≤ -9223372036854775807 := by omega
    simp [h0, h1, h, h2]
  · intro h; subst h; decide
  · intro h1 h2
    have h0 : ¬ x = 0 := by omega
    have h3 : ¬ x ≤ -9223372036854775808 := by omega
    have h4 : ¬ x ≤ -9223372036854775807 := by omega
    have h5 : ¬ (-x < 0) := by omega
    simp [h0, h2, h3, h4, h5]
    try omega
  · intro h1 h2
    have h0 : ¬ x = 0 := by omega
    have h3 : ¬ x < 0 := by omega
    have h4 : ¬ x ≥ 9223372036854775807 := by omega
    simp [h0, h3, h4]
    try omega
  · intro h
    have h0 : ¬ x = 0 := by omega
    have h3 : ¬ x < 0 := by omega
    simp [h0, h3, h]

/-! ### the JVM's boundary mapping -/

theorem jvm_mid_neg (k : FrameKind) (x : Int) (b : Bound) (h1 : -9223372036854775808 < x) (h2 : x < 0)
    (h : jvmBound k x = some b) : b = .preceding (-x).toNat := by
  unfold jvmBound longMin longMax at h
  have a1 : ¬ (x < -9223372036854775808 ∨ x > 9223372036854775807) := by omega
  have a2 : ¬ x = 0 := by omega
  have a3 : ¬ x = -9223372036854775808 := by omega
  have a4 : ¬ x = 9223372036854775807 := by omega
  simp only [a1, a2, a3, a4, if_false, h2, if_true] at h
  split at h
  · cases h
  · cases h; rfl

theorem jvm_mid_pos (k : FrameKind) (x : Int) (b : Bound) (h1 : 0 < x) (h2 : x < 9223372036854775807)
    (h : jvmBound k x = some b) : b = .following x.toNat := by
  unfold jvmBound longMin longMax at h
  have a1 : ¬ (x < -9223372036854775808 ∨ x > 9223372036854775807) := by omega
  have a2 : ¬ x = 0 := by omega
  have a3 : ¬ x = -9223372036854775808 := by omega
  have a4 : ¬ x = 9223372036854775807 := by omega
  have a5 : ¬ x < 0 := by omega
  simp only [a1, a2, a3, a4, a5, if_false] at h
  split at h
  · cases h
  · cases h; rfl

theorem jvm_min (k : FrameKind) : jvmBound k longMin = some .unboundedPreceding := by cases k <;> decide
theorem jvm_max (k : FrameKind) : jvmBound k longMax = some .unboundedFollowing := by cases k <;> decide
theorem jvm_zero (k : FrameKind) : jvmBound k 0 = some .currentRow := by cases k <;> decide

theorem jvm_big (k : FrameKind) (x : Int) (h : x > 9223372036854775807) : jvmBound k x = none := by
  unfold jvmBound longMin longMax
  have a1 : (x < -9223372036854775808 ∨ x > 9223372036854775807) := by omega
  simp only [a1, if_true]

theorem jvm_small (k : FrameKind) (x : Int) (h : x < -9223372036854775808) : jvmBound k x = none := by
  unfold jvmBound longMin longMax
  have a1 : (x < -9223372036854775808 ∨ x > 9223372036854775807) := by omega
  simp only [a1, if_true]

/-- sqlframe's stored start boundary `sq` against PySpark's `sp` for the integer `x` -/
def StartAgrees (x : Int) (sq : Option Bound) (sp : Bound) : Prop :=
  sq = some sp ∨ (x = edgeStart ∧ sq = some (.preceding bigK) ∧ sp = .unboundedPreceding)

/-- same for an end boundary (the second alternative arises only for a source using PySpark's threshold) -/
def EndAgrees (x : Int) (sq : Option Bound) (sp : Bound) : Prop :=
  sq = some sp ∨ (x = edgeStart ∧ sq = some .unboundedPreceding ∧ sp = .preceding bigK)

theorem bound_start (k : FrameKind) (x : Int) (b : Bound) (h : pysparkStart k x = some b) :
    StartAgrees x (boundOf (getValueAndSide x)) b := by
  obtain ⟨g0, g1, g2, g3, g4, g5⟩ := gen_bound x
  unfold pysparkStart at h
  by_cases c1 : x ≤ -9223372036854775808
  · have : x ≤ -9223372036854775807 := by omega
    rw [if_pos this, jvm_min] at h; cases h
    exact Or.inl (g1 c1)
  by_cases c2 : x = -9223372036854775807
  · have : x ≤ -9223372036854775807 := by omega
    rw [if_pos this, jvm_min] at h; cases h
    rcases g2 c2 with g | g
    · exact Or.inr ⟨c2, g, rfl⟩
    · exact Or.inl g
  have c3 : ¬ x ≤ -9223372036854775807 := by omega
  rw [if_neg c3] at h
  by_cases c4 : x < 0
  · have := jvm_mid_neg k x b (by omega) c4 h
    subst this; exact Or.inl (g3 (by omega) c4)
  by_cases c5 : x = 0
  · subst c5; rw [jvm_zero] at h; cases h; exact Or.inl (g0 rfl)
  by_cases c6 : x < 9223372036854775807
  · have := jvm_mid_pos k x b (by omega) c6 h
    subst this; exact Or.inl (g4 (by omega) c6)
  by_cases c7 : x = 9223372036854775807
  · subst c7; rw [show (9223372036854775807 : Int) = longMax from rfl, jvm_max] at h; cases h
    exact Or.inl (g5 (by decide))
  · rw [jvm_big k x (by omega)] at h; cases h

theorem bound_end (k : FrameKind) (x : Int) (b : Bound) (h : pysparkEnd k x = some b) :
    EndAgrees x (boundOf (getValueAndSide x)) b := by
  obtain ⟨g0, g1, g2, g3, g4, g5⟩ := gen_bound x
  unfold pysparkEnd at h
  by_cases c1 : x ≥ 9223372036854775807
  · rw [if_pos c1, jvm_max] at h; cases h
    exact Or.inl (g5 c1)
  rw [if_neg c1] at h
  by_cases c2 : x < -9223372036854775808
  · rw [jvm_small k x c2] at h; cases h
  by_cases c3 : x = -9223372036854775808
  · subst c3; rw [show (-9223372036854775808 : Int) = longMin from rfl, jvm_min] at h; cases h
    exact Or.inl (g1 (by decide))
  by_cases c4 : x = -9223372036854775807
  · have := jvm_mid_neg k x b (by omega) (by omega) h
    subst this
    rcases g2 c4 with g | g
    · left; rw [g, c4]; rfl
    · right; refine ⟨c4, g, ?_⟩; rw [c4]; rfl
  by_cases c5 : x < 0
  · have := jvm_mid_neg k x b (by omega) c5 h
    subst this; exact Or.inl (g3 (by omega) c5)
  by_cases c6 : x = 0
  · subst c6; rw [jvm_zero] at h; cases h; exact Or.inl (g0 rfl)
  · have := jvm_mid_pos k x b (by omega) (by omega) h
    subst this; exact Or.inl (g4 (by omega) (by omega))

theorem start_exact (x : Int) (sp : Bound) (h : StartAgrees x (boundOf (getValueAndSide x)) sp)
    (he : startExact x = true) : boundOf (getValueAndSide x) = some sp := by
  rcases h with h | ⟨hx, hq, _⟩
  · exact h
  · simp only [startExact, Bool.or_eq_true, decide_eq_true_eq] at he
    rcases he with he | he
    · exact absurd hx he
    · rw [hx] at hq; rw [hq] at he; cases he

theorem end_exact (x : Int) (sp : Bound) (h : EndAgrees x (boundOf (getValueAndSide x)) sp)
    (he : endExact x = true) : boundOf (getValueAndSide x) = some sp := by
  rcases h with h | ⟨hx, hq, _⟩
  · exact h
  · simp only [endExact, Bool.or_eq_true, decide_eq_true_eq] at he
    rcases he with he | he
    · exact absurd hx he
    · rw [hx] at hq; rw [hq] at he; cases he

/-! ### the stored frame as the engine reads it -/

theorem engineFrame_rows (s e : Int) (lo hi : Bound) (hl : boundOf (getValueAndSide s) = some lo)
    (hh : boundOf (getValueAndSide e) = some hi) :
    engineFrame (rowsBetweenFrame s e) = some ⟨.rows, lo, hi⟩ := by
  simp [engineFrame, rowsBetweenFrame, calcStartEnd, kindOf, hl, hh]

theorem engineFrame_range (s e : Int) (lo hi : Bound) (hl : boundOf (getValueAndSide s) = some lo)
    (hh : boundOf (getValueAndSide e) = some hi) :
    engineFrame (rangeBetweenFrame s e) = some ⟨.range, lo, hi⟩ := by
  simp [engineFrame, rangeBetweenFrame, calcStartEnd, kindOf, hl, hh]

/-! ### order keys -/

theorem key_agrees (F : Flags) (k : UKey) (h : k.explicitOk F = true) :
    engineKey (emitKey F k) = sparkKey k := by
  obtain ⟨name, form, expr⟩ := k
  simp only [UKey.explicitOk, Bool.or_eq_true, decide_eq_true_eq] at h
  cases form
  case bare =>
    rcases h with h | h
    · exact absurd rfl h
    · simp [emitKey, formOrdered, h, engineKey, sparkKey]
  all_goals
    simp [emitKey, formOrdered, engineKey, sparkKey, ord_asc, ord_desc, ord_asc_nulls_first, ord_asc_nulls_last,
      ord_desc_nulls_first, ord_desc_nulls_last]

/-! ### the agreement invariant -/

/-- two frames denote the same rows: identical, or (non-strict) the ROWS frames
    `2^63-1 PRECEDING .. hi` (engine) and `UNBOUNDED PRECEDING .. hi` (Spark) -/
def FrameRel (strict : Bool) (f' f : Frame) : Prop :=
  f' = f ∨ (strict = false ∧ f.kind = .rows ∧ f'.kind = .rows ∧ f'.hi = f.hi ∧ f'.lo = .preceding bigK ∧ f.lo = .unboundedPreceding)

def FrameInv (strict : Bool) : Option (String × RawFrame) → Option Frame → Prop
  | none, none => True
  | some f, some fr => ∃ fr0, engineFrame f = some fr0 ∧ FrameRel strict fr0 fr
  | _, _ => False

/-- the clause `v` sqlframe holds, read by the engine, is PySpark's window `w` -/
def Inv (strict : Bool) (v : SpecVal) (w : WinDef) : Prop :=
  w.part = v.part ∧ w.order = v.order.map engineKey ∧ FrameInv strict v.frame w.frame

theorem countP_cons_true {α} (p : α → Bool) (a : α) (l : List α) (h : p a = true) : (a :: l).countP p = l.countP p + 1 := by
  simp [List.countP_cons, h]

theorem countP_cons_false {α} (p : α → Bool) (a : α) (l : List α) (h : p a = false) : (a :: l).countP p = l.countP p := by
  simp [List.countP_cons, h]

/-- what the hypotheses say about one call followed by `ops` -/
structure StepHyps (strict : Bool) (F : Flags) (v : SpecVal) (op : BOp) (ops : List BOp) : Prop where
  partFresh : F.partExtends = false ∨ v.part = [] ∨ (op :: ops).countP BOp.isPart = 0
  orderFresh : F.orderExtends = false ∨ v.order = [] ∨ (op :: ops).countP BOp.isOrder = 0
  partOnce : F.partExtends = false ∨ (op :: ops).countP BOp.isPart ≤ 1
  orderOnce : F.orderExtends = false ∨ (op :: ops).countP BOp.isOrder ≤ 1
  explicit : op.bareKeysOk F = true
  edge : op.edgeOk strict = true

theorem step_inv (strict : Bool) (F : Flags) (v : SpecVal) (w w' : WinDef) (op : BOp) (ops : List BOp)
    (hi : Inv strict v w) (hs : StepHyps strict F v op ops) (hu : sparkUpdate w op = some w') :
    Inv strict (update F v op) w' ∧
    (F.partExtends = false ∨ (update F v op).part = [] ∨ ops.countP BOp.isPart = 0) ∧
    (F.orderExtends = false ∨ (update F v op).order = [] ∨ ops.countP BOp.isOrder = 0) := by
  obtain ⟨hp, ho, hf⟩ := hi
  cases op with
  | partitionBy cs =>
    simp only [sparkUpdate, Option.some.injEq] at hu
    subst hu
    have hpart : (if F.partExtends = true then v.part else []) ++ cs = cs := by
      rcases hs.partFresh with h | h | h
      · simp [h]
      · simp [h]
      · simp [countP_cons_true BOp.isPart _ ops (rfl : BOp.isPart (.partitionBy cs) = true)] at h
    refine ⟨⟨?_, ho, hf⟩, ?_, ?_⟩
    · simp only [update]; exact hpart.symm
    · rcases hs.partOnce with h | h
      · exact Or.inl h
      · right; right
        rw [countP_cons_true BOp.isPart _ ops (rfl : BOp.isPart (.partitionBy cs) = true)] at h
        omega
    · rcases hs.orderFresh with h | h | h
      · exact Or.inl h
      · exact Or.inr (Or.inl h)
      · right; right
        rw [countP_cons_false BOp.isOrder _ ops (rfl : BOp.isOrder (.partitionBy cs) = false)] at h
        exact h
  | orderBy ks =>
    simp only [sparkUpdate, Option.some.injEq] at hu
    subst hu
    have hkeys : (ks.map (emitKey F)).map engineKey = ks.map sparkKey := by
      rw [List.map_map]
      apply List.map_congr_left
      intro k hk
      apply key_agrees
      have h := hs.explicit
      simp only [BOp.bareKeysOk, List.all_eq_true] at h
      exact h k hk
    have hord : ((if F.orderExtends = true then v.order else []) ++ ks.map (emitKey F)).map engineKey = ks.map sparkKey := by
      rcases hs.orderFresh with h | h | h
      · simp [h, hkeys]
      · simp [h, hkeys]
      · simp [countP_cons_true BOp.isOrder _ ops (rfl : BOp.isOrder (.orderBy ks) = true)] at h
    refine ⟨⟨hp, ?_, hf⟩, ?_, ?_⟩
    · simp only [update]; exact hord.symm
    · rcases hs.partFresh with h | h | h
      · exact Or.inl h
      · exact Or.inr (Or.inl h)
      · right; right
        rw [countP_cons_false BOp.isPart _ ops (rfl : BOp.isPart (.orderBy ks) = false)] at h
        exact h
    · rcases hs.orderOnce with h | h
      · exact Or.inl h
      · right; right
        rw [countP_cons_true BOp.isOrder _ ops (rfl : BOp.isOrder (.orderBy ks) = true)] at h
        omega
  | rowsBetween s e =>
    simp only [sparkUpdate] at hu
    split at hu
    next lo hi hlo hhi =>
      simp only [Option.some.injEq] at hu
      subst hu
      have hedge := hs.edge
      simp only [BOp.edgeOk, Bool.and_eq_true, Bool.or_eq_true, Bool.not_eq_true'] at hedge
      have he := end_exact e hi (bound_end .rows e hi hhi) hedge.2
      refine ⟨⟨hp, ho, ?_⟩, ?_, ?_⟩
      · simp only [update, FrameInv]
        rcases bound_start .rows s lo hlo with h | ⟨hx, hq, hsp⟩
        · exact ⟨_, engineFrame_rows s e lo hi h he, Or.inl rfl⟩
        · rcases hedge.1 with hst | hst
          · refine ⟨_, engineFrame_rows s e _ hi hq he, Or.inr ⟨hst, rfl, rfl, rfl, rfl, hsp⟩⟩
          · have := start_exact s lo (Or.inr ⟨hx, hq, hsp⟩) hst
            exact ⟨_, engineFrame_rows s e lo hi this he, Or.inl rfl⟩
      · rcases hs.partFresh with h | h | h
        · exact Or.inl h
        · exact Or.inr (Or.inl h)
        · right; right
          rw [countP_cons_false BOp.isPart _ ops (rfl : BOp.isPart (.rowsBetween s e) = false)] at h
          exact h
      · rcases hs.orderFresh with h | h | h
        · exact Or.inl h
        · exact Or.inr (Or.inl h)
        · right; right
          rw [countP_cons_false BOp.isOrder _ ops (rfl : BOp.isOrder (.rowsBetween s e) = false)] at h
          exact h
    next => cases hu
  | rangeBetween s e =>
    simp only [sparkUpdate] at hu
    split at hu
    next lo hi hlo hhi =>
      simp only [Option.some.injEq] at hu
      subst hu
      have hedge := hs.edge
      simp only [BOp.edgeOk, Bool.and_eq_true] at hedge
      have hl := start_exact s lo (bound_start .range s lo hlo) hedge.1
      have he := end_exact e hi (bound_end .range e hi hhi) hedge.2
      refine ⟨⟨hp, ho, ?_⟩, ?_, ?_⟩
      · simp only [update, FrameInv]
        exact ⟨_, engineFrame_range s e lo hi hl he, Or.inl rfl⟩
      · rcases hs.partFresh with h | h | h
        · exact Or.inl h
        · exact Or.inr (Or.inl h)
        · right; right
          rw [countP_cons_false BOp.isPart _ ops (rfl : BOp.isPart (.rangeBetween s e) = false)] at h
          exact h
      · rcases hs.orderFresh with h | h | h
        · exact Or.inl h
        · exact Or.inr (Or.inl h)
        · right; right
          rw [countP_cons_false BOp.isOrder _ ops (rfl : BOp.isOrder (.rangeBetween s e) = false)] at h
          exact h
    next => cases hu

theorem countP_tail_le {α} (p : α → Bool) (a : α) (l : List α) : l.countP p ≤ (a :: l).countP p := by
  simp [List.countP_cons]

/-- chains of builder calls preserve the agreement -/
theorem chain_inv (strict : Bool) (F : Flags) (ops : List BOp) : ∀ (v : SpecVal) (w w' : WinDef),
    Inv strict v w →
    (F.partExtends = false ∨ v.part = [] ∨ ops.countP BOp.isPart = 0) →
    (F.orderExtends = false ∨ v.order = [] ∨ ops.countP BOp.isOrder = 0) →
    (F.partExtends = false ∨ ops.countP BOp.isPart ≤ 1) →
    (F.orderExtends = false ∨ ops.countP BOp.isOrder ≤ 1) →
    ops.all (BOp.bareKeysOk F) = true →
    ops.all (BOp.edgeOk strict) = true →
    sparkFrom w ops = some w' →
    Inv strict (emitFrom F v ops) w' := by
  induction ops with
  | nil =>
    intro v w w' hi _ _ _ _ _ _ hs
    simp only [sparkFrom, Option.some.injEq] at hs
    subst hs
    exact hi
  | cons op ops ih =>
    intro v w w' hi hpf hof hpo hoo hex hed hs
    simp only [sparkFrom] at hs
    split at hs
    next w1 hu =>
      simp only [List.all_cons, Bool.and_eq_true] at hex
      have hex1 := hex.1
      have hex2 := hex.2
      simp only [List.all_cons, Bool.and_eq_true] at hed
      obtain ⟨hinv, hpf', hof'⟩ := step_inv strict F v w w1 op ops hi ⟨hpf, hof, hpo, hoo, hex1, hed.1⟩ hu
      have hpo' : F.partExtends = false ∨ ops.countP BOp.isPart ≤ 1 := by
        rcases hpo with h | h
        · exact Or.inl h
        · exact Or.inr (Nat.le_trans (countP_tail_le _ op ops) h)
      have hoo' : F.orderExtends = false ∨ ops.countP BOp.isOrder ≤ 1 := by
        rcases hoo with h | h
        · exact Or.inl h
        · exact Or.inr (Nat.le_trans (countP_tail_le _ op ops) h)
      simp only [emitFrom, List.foldl_cons]
      exact ih (update F v op) w1 w' hinv hpf' hof' hpo' hoo' hex2 hed.2 hs
    next => cases hs

theorem inv_empty (strict : Bool) : Inv strict {} {} := ⟨rfl, rfl, trivial⟩

/-- from the invariant to the engine's definition -/
theorem engineDef_of_inv (strict : Bool) (v : SpecVal) (w : WinDef) (h : Inv strict v w) :
    ∃ w0, engineDef v = some w0 ∧ w0.part = w.part ∧ w0.order = w.order ∧
      (match w0.frame, w.frame with
       | none, none => True
       | some f0, some f => FrameRel strict f0 f
       | _, _ => False) := by
  obtain ⟨hp, ho, hf⟩ := h
  unfold engineDef
  cases hvf : v.frame with
  | none =>
    rw [hvf] at hf
    cases hwf : w.frame with
    | none => exact ⟨_, rfl, hp.symm, ho.symm, by simp [hwf]⟩
    | some f => rw [hwf] at hf; exact absurd hf (by simp [FrameInv])
  | some f =>
    rw [hvf] at hf
    cases hwf : w.frame with
    | none => rw [hwf] at hf; exact absurd hf (by simp [FrameInv])
    | some fr =>
      rw [hwf] at hf
      obtain ⟨fr0, he, hr⟩ := hf
      simp only [he]
      exact ⟨_, rfl, hp.symm, ho.symm, hr⟩

/-! ### frames -/

/-- `2^63-1 PRECEDING` and `UNBOUNDED PRECEDING` start a ROWS frame at the same row of every partition of at most 2^63-1 rows -/
theorem rowsFrame_edge (P : List Row) (p : Nat) (hi : Bound) (hp : p < P.length) (hl : P.length ≤ bigK) :
    rowsFrame P p (.preceding bigK) hi = rowsFrame P p .unboundedPreceding hi := by
  unfold rowsFrame loIdx
  have : ((p : Int) - (bigK : Nat)).toNat = 0 := by omega
  simp [this]

theorem frameRows_rel (cols : List Name) (w0 w : WinDef) (P : List Row) (p : Nat)
    (ho : w0.order = w.order)
    (hf : match w0.frame, w.frame with
       | none, none => True
       | some f0, some f => FrameRel false f0 f
       | _, _ => False)
    (hp : p < P.length) (hl : P.length ≤ bigK) :
    frameRows cols w0 P p = frameRows cols w P p := by
  unfold frameRows WinDef.effFrame
  cases h0 : w0.frame with
  | none =>
    cases h1 : w.frame with
    | none => simp [ho]
    | some f => simp [h0, h1] at hf
  | some f0 =>
    cases h1 : w.frame with
    | none => simp [h0, h1] at hf
    | some f =>
      simp only [h0, h1] at hf
      rcases hf with hf | ⟨_, hk, hk0, hhi, hlo0, hlo⟩
      · subst hf; simp [ho]
      · simp only [Option.getD_some, hk, hk0, hhi, hlo0, hlo]
        exact rowsFrame_edge P p f.hi hp hl

theorem evalFn_congr (cols : List Name) (w0 w : WinDef) (fn : WFn) (P : List Row) (p : Nat)
    (ho : w0.order = w.order) (hf : frameRows cols w0 P p = frameRows cols w P p) :
    evalFn cols w0 fn P p = evalFn cols w fn P p := by
  cases fn <;> simp [evalFn, ho, hf]

/-! ### insertion sort, tags, positions -/

theorem insertBy_perm {α} (le : α → α → Bool) (x : α) (l : List α) : (insertBy le x l).Perm (x :: l) := by
  induction l with
  | nil => exact List.Perm.refl _
  | cons y ys ih =>
    simp only [insertBy]
    split
    · exact List.Perm.refl _
    · exact ((List.Perm.cons y ih).trans (List.Perm.swap x y ys))

theorem sortBy_perm {α} (le : α → α → Bool) (l : List α) : (sortBy le l).Perm l := by
  induction l with
  | nil => exact List.Perm.refl _
  | cons x xs ih => exact (insertBy_perm le x _).trans (List.Perm.cons x ih)

theorem tagRows_fst (rows : List Row) : (tagRows rows).map (·.1) = List.range rows.length := by
  unfold tagRows
  rw [List.map_fst_zip]
  simp

theorem tagRows_length (rows : List Row) : (tagRows rows).length = rows.length := by
  unfold tagRows; simp

theorem tagRows_nodup (rows : List Row) : ((tagRows rows).map (·.1)).Nodup := by
  rw [tagRows_fst]; exact List.nodup_range

theorem partition_tags_nodup (cols pk : List Name) (rows : List Row) (r : Row) :
    ((partitionOf cols pk (tagRows rows) r).map (·.1)).Nodup := by
  unfold partitionOf
  exact List.Nodup.sublist (List.Sublist.map _ List.filter_sublist) (tagRows_nodup rows)

theorem sortedPartition_perm (cols : List Name) (w : WinDef) (tg : List (Nat × Row)) (r : Row) :
    (sortedPartition cols w tg r).Perm (partitionOf cols w.part tg r) := sortBy_perm _ _

theorem sortedPartition_length_le (cols : List Name) (w : WinDef) (rows : List Row) (r : Row) :
    (sortedPartition cols w (tagRows rows) r).length ≤ rows.length := by
  rw [(sortedPartition_perm cols w _ r).length_eq]
  unfold partitionOf
  exact Nat.le_trans (List.length_filter_le _ _) (Nat.le_of_eq (tagRows_length rows))

theorem mem_own_partition (cols pk : List Name) (tg : List (Nat × Row)) (ir : Nat × Row) (h : ir ∈ tg) :
    ir ∈ partitionOf cols pk tg ir.2 := by
  unfold partitionOf
  simp [List.mem_filter, h]

theorem posOf_lt (cols : List Name) (w : WinDef) (tg : List (Nat × Row)) (ir : Nat × Row) (h : ir ∈ tg) :
    posOf ir.1 (sortedPartition cols w tg ir.2) < (sortedPartition cols w tg ir.2).length := by
  unfold posOf
  have hm : ir ∈ sortedPartition cols w tg ir.2 :=
    (sortedPartition_perm cols w tg ir.2).mem_iff.mpr (mem_own_partition cols w.part tg ir h)
  have : ir.1 ∈ (sortedPartition cols w tg ir.2).map (·.1) := List.mem_map.mpr ⟨ir, hm, rfl⟩
  have := List.idxOf_lt_length_of_mem this
  simpa using this

/-- in a duplicate-free list every element sits at its own index -/
theorem map_idxOf_self : ∀ (l : List Nat), l.Nodup → l.map (fun a => l.idxOf a) = List.range l.length
  | [], _ => rfl
  | b :: l, h => by
    have hb : b ∉ l := (List.nodup_cons.mp h).1
    have hl : l.Nodup := (List.nodup_cons.mp h).2
    have ih := map_idxOf_self l hl
    have htail : l.map (fun a => (b :: l).idxOf a) = (l.map (fun a => l.idxOf a)).map (· + 1) := by
      rw [List.map_map]
      apply List.map_congr_left
      intro a ha
      have hne : (b == a) = false := by
        simp only [beq_eq_false_iff_ne, ne_eq]
        exact fun e => hb (e ▸ ha)
      simp only [List.idxOf_cons, hne, cond_false, Function.comp]
    simp only [List.map_cons, List.idxOf_cons_self, htail, ih, List.length_cons]
    rw [List.range_succ_eq_map]

theorem dedup_length_le : ∀ (l : List Row), (dedup l).length ≤ l.length
  | [] => Nat.le_refl _
  | r :: rs => by
    simp only [dedup, List.length_cons]
    exact Nat.succ_le_succ (Nat.le_trans (List.length_filter_le _ _) (dedup_length_le rs))

end Sqlframe.Win
