/-
Lemmas/C05Parse.lean — printer/parser round trip for the engine's operator-precedence grammar:
a well-parenthesised tree is regrouped by the engine into itself.
-/
import SqlframeModel.Impl.C05Engine
namespace Sqlframe.C05
open Sqlframe

theorem closeAll_append (G F : List Frame) (c : SqlExpr) : closeAll (G ++ F) c = closeAll F (closeAll G c) := by
  induction G generalizing c with
  | nil => rfl
  | cons g G ih => simp [closeAll, ih]

/-- level of the innermost pending operator (0 when nothing is pending) -/
def topLevel : List Frame → Nat
  | [] => 0
  | f :: _ => f.level

/-- pending frames that bind tighter than the arriving operator (or equally, on a left-associative level) are all closed -/
theorem reduceTo_through (p : Nat) (G F : List Frame) (c : SqlExpr)
    (h : ∀ g ∈ G, p < g.level ∨ (p = g.level ∧ leftAssocLevel p = true)) :
    reduceTo p (G ++ F) c = reduceTo p F (closeAll G c) := by
  induction G generalizing c with
  | nil => rfl
  | cons g G ih =>
    have hg := h g (by simp)
    have hG : ∀ g' ∈ G, p < g'.level ∨ (p = g'.level ∧ leftAssocLevel p = true) := fun g' hg' => h g' (by simp [hg'])
    rcases hg with hlt | ⟨heq, hl⟩
    · simp [reduceTo, hlt, closeAll, ih _ hG]
    · simp [reduceTo, ← heq, hl, closeAll, ih _ hG]

/-- a looser pending frame stops the reduction -/
theorem reduceTo_stop (p : Nat) (F : List Frame) (c : SqlExpr) (h : topLevel F < p) :
    reduceTo p F c = some (F, c) := by
  cases F with
  | nil => rfl
  | cons f F =>
    simp only [topLevel] at h
    have h1 : ¬ p < f.level := by omega
    have h2 : ¬ p = f.level := by omega
    simp [reduceTo, h1, h2]

theorem infixLevel_le (k : String) : infixLevel k ≤ 8 := by
  unfold infixLevel; split <;> omega

theorem prefixLevel_le (k : String) : prefixLevel k ≤ 10 := by
  unfold prefixLevel; split <;> omega

theorem level_le (t : SqlExpr) : level t ≤ 100 := by
  cases t <;> simp [level, atomLevel, isNullLevel, inLevel, betweenLevel]
  · exact Nat.le_trans (infixLevel_le _) (by omega)
  · exact Nat.le_trans (prefixLevel_le _) (by omega)

theorem wellParen_level_pos (t : SqlExpr) (h : wellParen t = true) : 0 < level t := by
  cases t <;> simp_all [wellParen, level, atomLevel, isNullLevel, inLevel, betweenLevel]

/-- the heart of the round trip: feeding a well-parenthesised tree to a parser whose pending
    operators all bind looser than the tree's root leaves the pending operators untouched and adds
    frames that close back to exactly that tree, none of them looser than its root -/
theorem feed_wellParen : ∀ t : SqlExpr, wellParen t = true → ∀ F : List Frame, topLevel F < level t →
    ∃ G c, feed t F = some (G ++ F, c) ∧ closeAll G c = t ∧ ∀ g ∈ G, level t ≤ g.level := by
  intro t
  induction t with
  | col n => intro _ F _; exact ⟨[], .col n, rfl, rfl, by simp⟩
  | lit v => intro _ F _; exact ⟨[], .lit v, rfl, rfl, by simp⟩
  | paren a iha =>
    intro h F _
    simp only [wellParen] at h
    obtain ⟨G, c, hf, hc, _⟩ := iha h [] (by simpa [topLevel] using wellParen_level_pos a h)
    refine ⟨[], .paren a, ?_, rfl, by simp⟩
    simp [feed, hf, hc]
  | bin k a b iha ihb =>
    intro h F hF
    simp only [wellParen, Bool.and_eq_true, decide_eq_true_eq] at h
    obtain ⟨⟨⟨⟨ha, hb⟩, hk⟩, hla⟩, hlb⟩ := h
    simp only [level] at hF
    have hla' : infixLevel k ≤ level a := by
      by_cases hl : leftAssocLevel (infixLevel k) = true
      · simpa [hl] using hla
      · have := hla; simp [hl] at this; omega
    obtain ⟨G1, c1, hf1, hc1, hg1⟩ := iha ha F (by omega)
    have hthrough : reduceTo (infixLevel k) (G1 ++ F) c1 = reduceTo (infixLevel k) F (closeAll G1 c1) := by
      apply reduceTo_through
      intro g hg
      have := hg1 g hg
      by_cases hl : leftAssocLevel (infixLevel k) = true
      · by_cases heq : infixLevel k = g.level
        · exact Or.inr ⟨heq, hl⟩
        · exact Or.inl (by omega)
      · have := hla; simp [hl] at this; exact Or.inl (by omega)
    have hstop := reduceTo_stop (infixLevel k) F a hF
    obtain ⟨G2, c2, hf2, hc2, hg2⟩ := ihb hb (.inf a k :: F) (by simpa [topLevel, Frame.level] using hlb)
    refine ⟨G2 ++ [.inf a k], c2, ?_, ?_, ?_⟩
    · simp [feed, hf1, hthrough, hc1, hstop, hf2]
    · simp [closeAll_append, hc2, closeAll, Frame.close]
    · intro g hg
      simp only [List.mem_append, List.mem_singleton] at hg
      simp only [level]
      rcases hg with hg | hg
      · have := hg2 g hg; omega
      · subst hg; simp [Frame.level]
  | un k a iha =>
    intro h F hF
    simp only [wellParen, Bool.and_eq_true, decide_eq_true_eq] at h
    obtain ⟨⟨ha, _⟩, hlt⟩ := h
    obtain ⟨G1, c1, hf1, hc1, hg1⟩ := iha ha (.pre k :: F) (by simpa [topLevel, Frame.level] using hlt)
    refine ⟨G1 ++ [.pre k], c1, ?_, ?_, ?_⟩
    · simp [feed, hf1]
    · simp [closeAll_append, hc1, closeAll, Frame.close]
    · intro g hg
      simp only [List.mem_append, List.mem_singleton] at hg
      simp only [level]
      rcases hg with hg | hg
      · have := hg1 g hg; omega
      · subst hg; simp [Frame.level]
  | isNull a iha =>
    intro h F hF
    simp only [wellParen, Bool.and_eq_true, decide_eq_true_eq] at h
    obtain ⟨ha, hlt⟩ := h
    simp only [level] at hF
    obtain ⟨G1, c1, hf1, hc1, hg1⟩ := iha ha F (by omega)
    have hthrough : reduceTo isNullLevel (G1 ++ F) c1 = reduceTo isNullLevel F (closeAll G1 c1) := by
      apply reduceTo_through
      intro g hg
      have := hg1 g hg
      exact Or.inl (by omega)
    have hstop := reduceTo_stop isNullLevel F a hF
    refine ⟨[], .isNull a, ?_, rfl, by simp⟩
    simp [feed, hf1, hthrough, hc1, hstop]
  | inList a vs iha =>
    intro h F hF
    simp only [wellParen, Bool.and_eq_true, decide_eq_true_eq] at h
    obtain ⟨ha, hlt⟩ := h
    simp only [level] at hF
    obtain ⟨G1, c1, hf1, hc1, hg1⟩ := iha ha F (by omega)
    have hthrough : reduceTo inLevel (G1 ++ F) c1 = reduceTo inLevel F (closeAll G1 c1) := by
      apply reduceTo_through
      intro g hg
      have := hg1 g hg
      exact Or.inl (by omega)
    have hstop := reduceTo_stop inLevel F a hF
    refine ⟨[], .inList a vs, ?_, rfl, by simp⟩
    simp [feed, hf1, hthrough, hc1, hstop]
  | between a lo hi iha ihlo ihhi =>
    intro h F hF
    simp only [wellParen, Bool.and_eq_true, decide_eq_true_eq] at h
    obtain ⟨⟨⟨⟨⟨ha, hlo⟩, hhi⟩, hlt⟩, hlthi⟩, hbe⟩ := h
    simp only [level] at hF
    obtain ⟨G1, c1, hf1, hc1, hg1⟩ := iha ha F (by omega)
    have hthrough : reduceTo betweenLevel (G1 ++ F) c1 = reduceTo betweenLevel F (closeAll G1 c1) := by
      apply reduceTo_through
      intro g hg
      have := hg1 g hg
      exact Or.inl (by omega)
    have hstop := reduceTo_stop betweenLevel F a hF
    obtain ⟨Gl, cl, hfl, hcl, _⟩ := ihlo hlo [] (by simpa [topLevel] using wellParen_level_pos lo hlo)
    obtain ⟨G2, c2, hf2, hc2, hg2⟩ := ihhi hhi (.btw a lo :: F) (by simpa [topLevel, Frame.level] using hlthi)
    refine ⟨G2 ++ [.btw a lo], c2, ?_, ?_, ?_⟩
    · simp [feed, hf1, hthrough, hc1, hstop, hfl, hcl, hbe, hf2]
    · simp [closeAll_append, hc2, closeAll, Frame.close]
    · intro g hg
      simp only [List.mem_append, List.mem_singleton] at hg
      simp only [level]
      rcases hg with hg | hg
      · have := hg2 g hg; omega
      · subst hg; simp [Frame.level]
  | fn2 f a b iha ihb =>
    intro h F _
    simp only [wellParen, Bool.and_eq_true] at h
    obtain ⟨ha, hb⟩ := h
    obtain ⟨Ga, ca, hfa, hca, _⟩ := iha ha [] (by simpa [topLevel] using wellParen_level_pos a ha)
    obtain ⟨Gb, cb, hfb, hcb, _⟩ := ihb hb [] (by simpa [topLevel] using wellParen_level_pos b hb)
    refine ⟨[], .fn2 f a b, ?_, rfl, by simp⟩
    simp [feed, hfa, hfb, hca, hcb]
  | fn3 f a b c iha ihb ihc =>
    intro h F _
    simp only [wellParen, Bool.and_eq_true] at h
    obtain ⟨⟨ha, hb⟩, hc⟩ := h
    obtain ⟨Ga, ca, hfa, hca, _⟩ := iha ha [] (by simpa [topLevel] using wellParen_level_pos a ha)
    obtain ⟨Gb, cb, hfb, hcb, _⟩ := ihb hb [] (by simpa [topLevel] using wellParen_level_pos b hb)
    obtain ⟨Gc, cc, hfc, hcc, _⟩ := ihc hc [] (by simpa [topLevel] using wellParen_level_pos c hc)
    refine ⟨[], .fn3 f a b c, ?_, rfl, by simp⟩
    simp [feed, hfa, hfb, hfc, hca, hcb, hcc]
  | caseWhen c v r ihc ihv ihr =>
    intro h F _
    simp only [wellParen, Bool.and_eq_true] at h
    obtain ⟨⟨hc, hv⟩, hr⟩ := h
    obtain ⟨Gc, cc, hfc, hcc, _⟩ := ihc hc [] (by simpa [topLevel] using wellParen_level_pos c hc)
    obtain ⟨Gv, cv, hfv, hcv, _⟩ := ihv hv [] (by simpa [topLevel] using wellParen_level_pos v hv)
    obtain ⟨Gr, cr, hfr, hcr, _⟩ := ihr hr [] (by simpa [topLevel] using wellParen_level_pos r hr)
    refine ⟨[], .caseWhen c v r, ?_, rfl, by simp⟩
    simp [feed, hfc, hfv, hfr, hcc, hcv, hcr]
  | caseEnd => intro _ F _; exact ⟨[], .caseEnd, rfl, rfl, by simp⟩
  | caseElse d ihd =>
    intro h F _
    simp only [wellParen] at h
    obtain ⟨G, c, hf, hc, _⟩ := ihd h [] (by simpa [topLevel] using wellParen_level_pos d h)
    refine ⟨[], .caseElse d, ?_, rfl, by simp⟩
    simp [feed, hf, hc]
  | cast a ty iha =>
    intro h F _
    simp only [wellParen] at h
    obtain ⟨G, c, hf, hc, _⟩ := iha h [] (by simpa [topLevel] using wellParen_level_pos a h)
    refine ⟨[], .cast a ty, ?_, rfl, by simp⟩
    simp [feed, hf, hc]
  | alias a n _ => intro h; simp [wellParen] at h

/-- **print/parse**: the engine groups the rendered text of a well-parenthesised tree exactly as the tree is grouped -/
theorem engineTree_wellParen (t : SqlExpr) (h : wellParen t = true) : engineTree t = some t := by
  obtain ⟨G, c, hf, hc, _⟩ := feed_wellParen t h [] (by simpa [topLevel] using wellParen_level_pos t h)
  simp [engineTree, hf, hc]

/-- a well-parenthesised expression has no `AS` anywhere the item-alias reading could pick up -/
theorem stripTrailingAlias_wellParen (t : SqlExpr) (h : wellParen t = true) : stripTrailingAlias t = none := by
  induction t with
  | bin k a b _ ihb =>
    simp only [wellParen, Bool.and_eq_true] at h
    simp [stripTrailingAlias, ihb h.1.1.1.2]
  | un k a iha =>
    simp only [wellParen, Bool.and_eq_true] at h
    simp [stripTrailingAlias, iha h.1.1]
  | between a lo hi _ _ ihhi =>
    simp only [wellParen, Bool.and_eq_true] at h
    simp [stripTrailingAlias, ihhi h.1.1.1.2]
  | alias a n _ => simp [wellParen] at h
  | _ => rfl

theorem engineTop_wellParenTop (t : SqlExpr) (h : wellParenTop t = true) : engineTop t = some t := by
  cases t with
  | alias a n =>
    simp only [wellParenTop] at h
    simp [engineTop, stripTrailingAlias, engineTree_wellParen a h]
  | _ =>
    simp only [wellParenTop] at h
    simp [engineTop, stripTrailingAlias_wellParen _ h, engineTree_wellParen _ h]

end Sqlframe.C05
