/-
Lemmas/C20.lean — helper lemmas for Props/C20.lean: association lists, the key-prefix invariant, what
`deactivate` and `activate` do to sys.modules.
-/
import SqlframeModel.Impl.C20Spec
namespace Sqlframe.C20
open Sqlframe.Gen.Act

/-! ### strings -/

theorem pfx_append (p a b : List Char) (h : pfx p a = true) : pfx p (a ++ b) = true := by
  induction p generalizing a with
  | nil => simp [pfx]
  | cons c cs ih =>
    cases a with
    | nil => simp [pfx] at h
    | cons x xs =>
      simp only [pfx, List.cons_append, Bool.and_eq_true] at h ⊢
      exact ⟨h.1, ih xs h.2⟩

theorem startsW_append (s t p : String) (h : startsW s p = true) : startsW (s ++ t) p = true := by
  unfold startsW at *
  rw [String.toList_append]
  exact pfx_append _ _ _ h

theorem splitAux_ne_nil (acc cs : List Char) : splitAux acc cs ≠ [] := by
  induction cs generalizing acc with
  | nil => simp [splitAux]
  | cons c cs ih =>
    simp only [splitAux]
    split
    · simp
    · exact ih _

theorem splitDots_ne_nil (s : String) : splitDots s ≠ [] := by
  unfold splitDots
  intro h
  exact splitAux_ne_nil [] s.toList (List.map_eq_nil_iff.mp h)

/-! ### association lists -/

theorem aget_aset {α} (m : List (String × α)) (k q : String) (v : α) :
    aget (aset m k v) q = if k = q then some v else aget m q := by
  induction m with
  | nil => simp [aset, aget]
  | cons p t ih =>
    obtain ⟨k0, v0⟩ := p
    by_cases h : k0 = k
    · subst h
      simp only [aset, if_true, aget]
      by_cases hq : k0 = q <;> simp [hq]
    · simp only [aset, if_neg h, aget, ih]
      by_cases hq : k0 = q
      · have : k ≠ q := fun hk => h (hq.trans hk.symm)
        simp [hq, this]
      · simp [hq]

theorem aget_aset_self {α} (m : List (String × α)) (k : String) (v : α) : aget (aset m k v) k = some v := by
  simp [aget_aset]

theorem aget_aset_ne {α} (m : List (String × α)) (k q : String) (v : α) (h : k ≠ q) :
    aget (aset m k v) q = aget m q := by
  simp [aget_aset, h]

theorem akeys_aset {α} (m : List (String × α)) (k : String) (v : α) :
    ∀ x ∈ akeys (aset m k v), x = k ∨ x ∈ akeys m := by
  induction m with
  | nil => intro x hx; simp [aset, akeys] at hx; exact Or.inl hx
  | cons p t ih =>
    obtain ⟨k0, v0⟩ := p
    intro x hx
    by_cases h : k0 = k
    · simp only [aset, if_pos h, akeys, List.map_cons, List.mem_cons] at hx
      rcases hx with hx | hx
      · exact Or.inl hx
      · exact Or.inr (by simp [akeys, hx])
    · simp only [aset, if_neg h, akeys, List.map_cons, List.mem_cons] at hx
      rcases hx with hx | hx
      · exact Or.inr (by simp [akeys, hx])
      · rcases ih x (by simpa [akeys] using hx) with h1 | h1
        · exact Or.inl h1
        · exact Or.inr (by simp only [akeys, List.map_cons, List.mem_cons]; exact Or.inr (by simpa [akeys] using h1))

theorem aget_mem_keys {α} (m : List (String × α)) (k : String) (v : α) (h : aget m k = some v) : k ∈ akeys m := by
  induction m with
  | nil => simp [aget] at h
  | cons p t ih =>
    obtain ⟨k0, v0⟩ := p
    simp only [aget] at h
    by_cases hk : k0 = k
    · simp [akeys, hk]
    · simp only [if_neg hk] at h
      have := ih h
      simp only [akeys, List.map_cons, List.mem_cons]
      exact Or.inr (by simpa [akeys] using this)

theorem aget_none_of_not_mem {α} (m : List (String × α)) (k : String) (h : k ∉ akeys m) : aget m k = none := by
  cases hg : aget m k with
  | none => rfl
  | some v => exact absurd (aget_mem_keys m k v hg) h

theorem filter_all_collected {α} (m : List (String × α)) (t : String → Bool) (h : ∀ k ∈ akeys m, t k = true) :
    m.filter (fun kv => !((akeys m).filter t).contains kv.1) = [] := by
  rw [List.filter_eq_nil_iff]
  intro a ha
  have hk : a.1 ∈ akeys m := List.mem_map_of_mem (f := (·.1)) ha
  have : a.1 ∈ (akeys m).filter t := List.mem_filter.mpr ⟨hk, h _ hk⟩
  simp [List.contains_iff_mem, this]

/-! ### the key invariant: every modelled sys.modules key starts with "pyspark" -/

def KeysOk (st : State) : Prop := ∀ k ∈ akeys st.mods, startsW k "pyspark" = true

def EnvOk (env : Env) : Prop :=
  ∀ r ∈ env.real, startsW r.name "pyspark" = true ∧ ∀ k ∈ r.closure, startsW k "pyspark" = true

theorem keysOk_fresh : KeysOk State.fresh := by intro k hk; simp [State.fresh, akeys] at hk

theorem keysOk_aset (m : List (String × Obj)) (k : String) (v : Obj)
    (hm : ∀ x ∈ akeys m, startsW x "pyspark" = true) (hk : startsW k "pyspark" = true) :
    ∀ x ∈ akeys (aset m k v), startsW x "pyspark" = true := by
  intro x hx
  rcases akeys_aset m k v x hx with h | h
  · rw [h]; exact hk
  · exact hm x h

theorem envOk_absent : EnvOk Env.absent := by intro r hr; simp [Env.absent] at hr

theorem env_find_mem (env : Env) (key : String) (r : RealMod) (h : env.find key = some r) :
    r ∈ env.real ∧ r.name = key := by
  unfold Env.find at h
  have h1 := List.mem_of_find?_eq_some h
  have h2 := List.find?_some h
  exact ⟨h1, by simpa using h2⟩

/-! ### imports on a sys.modules that holds only real pyspark modules (what deactivate's re-import sees) -/

def AllReal (st : State) : Prop := ∀ k o, aget st.mods k = some o → o.isReal = true

/-- `b` differs from `a` in `mods` only -/
def SameButMods (a b : State) : Prop := b = { a with mods := b.mods }

theorem sameButMods_refl (a : State) : SameButMods a a := rfl

theorem sameButMods_trans {a b c : State} (h1 : SameButMods a b) (h2 : SameButMods b c) : SameButMods a c := by
  unfold SameButMods at *
  rw [h2, h1]

/-- the ways an import can fail in environment `env` -/
def EnvExc (env : Env) (x : Exc) : Prop := x = .moduleNotFound ∨ ∃ rm ∈ env.real, rm.raises = some x

private def ModsOk (m : List (String × Obj)) : Prop :=
  (∀ x ∈ akeys m, startsW x "pyspark" = true) ∧ (∀ k o, aget m k = some o → o.isReal = true)

private theorem modsOk_add (m : List (String × Obj)) (k : String) (hk : startsW k "pyspark" = true) (hm : ModsOk m) :
    ModsOk (if (aget m k).isSome then m else aset m k (.real k)) := by
  split
  · exact hm
  · refine ⟨keysOk_aset m k _ hm.1 hk, ?_⟩
    intro q o hq
    rw [aget_aset] at hq
    split at hq
    · cases hq; rfl
    · exact hm.2 q o hq

private theorem modsOk_fold (ks : List String) (m : List (String × Obj)) (hks : ∀ k ∈ ks, startsW k "pyspark" = true)
    (hm : ModsOk m) :
    ModsOk (ks.foldl (fun (m : List (String × Obj)) (k : String) => if (aget m k).isSome then m else aset m k (.real k)) m) := by
  induction ks generalizing m with
  | nil => exact hm
  | cons k ks ih =>
    simp only [List.foldl_cons]
    exact ih _ (fun x hx => hks x (List.mem_cons_of_mem _ hx)) (modsOk_add m k (hks k List.mem_cons_self) hm)

structure ImpOk (env : Env) (st st' : State) (r : Res) : Prop where
  same : SameButMods st st'
  keys : KeysOk st'
  real : AllReal st'
  okReal : ∀ o, r = .ok o → o.isReal = true
  exc : ∀ x, r = .error x → EnvExc env x

theorem realImport_ok (env : Env) (st : State) (key : String) (hE : EnvOk env) (hK : KeysOk st) (hR : AllReal st) :
    ImpOk env st (realImport env st key).1 (realImport env st key).2 ∧ ∀ x, (realImport env st key).2 = .error x → EnvExc env x := by
  cases hf : env.find key with
  | none =>
    simp only [realImport, hf]
    exact ⟨⟨rfl, hK, hR, fun o h => (by cases h), fun x h => (by cases h; exact Or.inl rfl)⟩,
      fun x h => (by cases h; exact Or.inl rfl)⟩
  | some rm =>
    obtain ⟨hmem, hname⟩ := env_find_mem env key rm hf
    have hkey : startsW key "pyspark" = true := hname ▸ (hE rm hmem).1
    have h1 := modsOk_fold rm.closure st.mods (hE rm hmem).2 ⟨hK, hR⟩
    cases hr : rm.raises with
    | some x =>
      simp only [realImport, hf, hr]
      exact ⟨⟨rfl, h1.1, h1.2, fun o h => (by cases h), fun y h => (by cases h; exact Or.inr ⟨rm, hmem, hr⟩)⟩,
        fun y h => (by cases h; exact Or.inr ⟨rm, hmem, hr⟩)⟩
    | none =>
      simp only [realImport, hf, hr]
      have h2 := modsOk_add _ key hkey h1
      exact ⟨⟨rfl, h2.1, h2.2, fun o h => (by cases h; rfl), fun y h => (by cases h)⟩, fun y h => (by cases h)⟩

theorem loadTop_ok (env : Env) (st : State) (top : String) (hE : EnvOk env) (hK : KeysOk st) (hR : AllReal st) :
    ImpOk env st (loadTop env st top).1 (loadTop env st top).2 := by
  unfold loadTop
  cases h : aget st.mods top with
  | some o => exact ⟨rfl, hK, hR, fun o' h' => by cases h'; exact hR _ _ h, fun x h' => by cases h'⟩
  | none => exact (realImport_ok env st top hE hK hR).1

theorem loadChild_ok (env : Env) (st : State) (pk c : String) (hE : EnvOk env) (hK : KeysOk st) (hR : AllReal st) :
    ImpOk env st (loadChild env st pk c).1 (loadChild env st pk c).2 := by
  unfold loadChild
  simp only
  cases h : aget st.mods (pk ++ "." ++ c) with
  | some o => exact ⟨rfl, hK, hR, fun o' h' => by cases h'; exact hR _ _ h, fun x h' => by cases h'⟩
  | none =>
    simp only
    cases hp : aget st.mods pk with
    | none => exact ⟨rfl, hK, hR, fun o h' => (by cases h'), fun x h' => (by cases h'; exact Or.inl rfl)⟩
    | some po =>
      have hpr := hR _ _ hp
      cases po with
      | real n => exact (realImport_ok env st _ hE hK hR).1
      | pkg e => simp [Obj.isReal] at hpr
      | mock => exact ⟨rfl, hK, hR, fun o h' => (by cases h'), fun x h' => (by cases h'; exact Or.inl rfl)⟩
      | file e f => exact ⟨rfl, hK, hR, fun o h' => (by cases h'), fun x h' => (by cases h'; exact Or.inl rfl)⟩
      | dup e f => exact ⟨rfl, hK, hR, fun o h' => (by cases h'), fun x h' => (by cases h'; exact Or.inl rfl)⟩
      | cls e n => exact ⟨rfl, hK, hR, fun o h' => (by cases h'), fun x h' => (by cases h'; exact Or.inl rfl)⟩
      | shared n => exact ⟨rfl, hK, hR, fun o h' => (by cases h'), fun x h' => (by cases h'; exact Or.inl rfl)⟩
      | testing => exact ⟨rfl, hK, hR, fun o h' => (by cases h'), fun x h' => (by cases h'; exact Or.inl rfl)⟩
      | testingAttr n => exact ⟨rfl, hK, hR, fun o h' => (by cases h'), fun x h' => (by cases h'; exact Or.inl rfl)⟩
      | realAttr m n => exact ⟨rfl, hK, hR, fun o h' => (by cases h'), fun x h' => (by cases h'; exact Or.inl rfl)⟩

theorem gcdGo_ok (env : Env) (hE : EnvOk env) (rest : List String) :
    ∀ (st : State) (pk : String) (o : Obj), KeysOk st → AllReal st → o.isReal = true →
      ImpOk env st (gcdGo env st pk o rest).1 (gcdGo env st pk o rest).2 := by
  induction rest with
  | nil => intro st pk o hK hR ho; exact ⟨rfl, hK, hR, fun o' h' => by cases h'; exact ho, fun x h' => by cases h'⟩
  | cons c rest ih =>
    intro st pk o hK hR ho
    have h1 := loadChild_ok env st pk c hE hK hR
    simp only [gcdGo]
    cases hr : loadChild env st pk c with
    | mk st1 r1 =>
      rw [hr] at h1
      cases r1 with
      | error x => exact h1
      | ok o1 =>
        have h2 := ih st1 (pk ++ "." ++ c) o1 h1.keys h1.real (h1.okReal o1 rfl)
        exact ⟨sameButMods_trans h1.same h2.same, h2.keys, h2.real, h2.okReal, h2.exc⟩

theorem gcdImport_ok (env : Env) (hE : EnvOk env) (st : State) (path : List String) (hp : path ≠ [])
    (hK : KeysOk st) (hR : AllReal st) :
    ImpOk env st (gcdImport env st path).1 (gcdImport env st path).2 := by
  cases path with
  | nil => exact absurd rfl hp
  | cons top rest =>
    have h1 := loadTop_ok env st top hE hK hR
    simp only [gcdImport]
    cases hr : loadTop env st top with
    | mk st1 r1 =>
      rw [hr] at h1
      cases r1 with
      | error x => exact h1
      | ok o1 =>
        have h2 := gcdGo_ok env hE rest st1 top o1 h1.keys h1.real (h1.okReal o1 rfl)
        exact ⟨sameButMods_trans h1.same h2.same, h2.keys, h2.real, h2.okReal, h2.exc⟩

/-- `deactivate`'s re-import loop from an all-real sys.modules -/
theorem reimport_ok (env : Env) (hE : EnvOk env) (caught : List Exc) (coll : List String)
    (hc : ∀ k ∈ coll, startsW k "pyspark" = true) :
    ∀ st, KeysOk st → AllReal st →
      SameButMods st (reimport env caught st coll).1 ∧ KeysOk (reimport env caught st coll).1 ∧
      AllReal (reimport env caught st coll).1 ∧
      ∀ x, (reimport env caught st coll).2 = some x → EnvExc env x ∧ caught.any (catches · x) = false := by
  induction coll with
  | nil => intro st hK hR; exact ⟨rfl, hK, hR, fun x h => by simp [reimport] at h⟩
  | cons k rest ih =>
    intro st hK hR
    have hrest : ∀ k ∈ rest, startsW k "pyspark" = true := fun x hx => hc x (List.mem_cons_of_mem _ hx)
    have hk := hc k List.mem_cons_self
    have h1 := gcdImport_ok env hE st (splitDots k) (splitDots_ne_nil k) hK hR
    simp only [reimport]
    cases hr : gcdImport env st (splitDots k) with
    | mk st1 r1 =>
      rw [hr] at h1
      cases r1 with
      | ok o =>
        simp only
        have hK2 : KeysOk { st1 with mods := aset st1.mods k o } := keysOk_aset _ _ _ h1.keys hk
        have hR2 : AllReal { st1 with mods := aset st1.mods k o } := by
          intro q o' hq
          simp only [aget_aset] at hq
          split at hq
          · cases hq; exact h1.okReal o rfl
          · exact h1.real q o' hq
        have h2 := ih hrest _ hK2 hR2
        refine ⟨?_, h2.2.1, h2.2.2.1, h2.2.2.2⟩
        exact sameButMods_trans (sameButMods_trans h1.same (show SameButMods st1 { st1 with mods := aset st1.mods k o } from rfl)) h2.1
      | error x =>
        simp only
        cases hcx : caught.any (catches · x) with
        | true =>
          simp only [if_true]
          have h2 := ih hrest st1 h1.keys h1.real
          exact ⟨sameButMods_trans h1.same h2.1, h2.2.1, h2.2.2.1, h2.2.2.2⟩
        | false =>
          simp only [Bool.false_eq_true, if_false]
          exact ⟨h1.same, h1.keys, h1.real, fun y hy => (by cases hy; exact ⟨h1.exc _ rfl, hcx⟩)⟩

/-! ### deactivate (the generated step list) -/

theorem gcdImport_absent_nil (env : Env) (h : env.real = []) (st : State) (hm : st.mods = []) (path : List String)
    (hp : path ≠ []) : gcdImport env st path = (st, .error .moduleNotFound) := by
  cases path with
  | nil => exact absurd rfl hp
  | cons top rest =>
    have hf : env.find top = none := by unfold Env.find; rw [h]; rfl
    simp [gcdImport, loadTop, hm, aget, realImport, hf]

theorem reimport_absent_nil (env : Env) (h : env.real = []) (caught : List Exc) (coll : List String) :
    ∀ st, st.mods = [] → (reimport env caught st coll).1.mods = [] := by
  induction coll with
  | nil => intro st hm; simpa [reimport] using hm
  | cons k rest ih =>
    intro st hm
    simp only [reimport, gcdImport_absent_nil env h st hm _ (splitDots_ne_nil k)]
    split
    · exact ih st hm
    · exact hm

theorem keysOk_nil_mods (st : State) (c : Option String) : KeysOk { st with mods := [], cur := c } := by
  intro k hk; simp [akeys] at hk

theorem allReal_nil_mods (st : State) (c : Option String) : AllReal { st with mods := [], cur := c } := by
  intro k o h; simp [aget] at h

/-- the shapes of `deactivate` the proofs cover: optionally clear the config first, collect every key that
    starts with "pyspark", delete, re-import (catching `c`), optionally clear the config afterwards -/
def canonSteps (b1 : Bool) (c : List Exc) (b2 : Bool) : List DeactStep :=
  (if b1 then [DeactStep.clearConfig] else []) ++
  [.collect (.top "pyspark"), .deleteCollected, .reimportCollected c] ++
  (if b2 then [DeactStep.clearConfig] else [])

def stepsB1 : List DeactStep → Bool
  | .clearConfig :: _ => true
  | _ => false

def stepsCaught : List DeactStep → List Exc
  | [] => []
  | .reimportCollected c :: _ => c
  | _ :: rest => stepsCaught rest

def stepsB2 (s : List DeactStep) : Bool :=
  match s.getLast? with
  | some .clearConfig => true
  | _ => false

/-- the generated step list has the covered shape (fails to check when `deactivate` is edited out of it) -/
theorem deactSteps_shape :
    deactSteps = canonSteps (stepsB1 deactSteps) (stepsCaught deactSteps) (stepsB2 deactSteps) := by decide

theorem deactSteps_catch : (stepsCaught deactSteps).any (catches · .moduleNotFound) = true := by decide

private theorem deactCore (env : Env) (hE : EnvOk env) (c : List Exc) (b2 : Bool)
    (hcm : c.any (catches · .moduleNotFound) = true) (st : State) (hK : KeysOk st) :
    let r := deactRun env (canonSteps false c b2) [] st
    KeysOk r.1 ∧ AllReal r.1 ∧ r.1.pkgs = st.pkgs ∧ r.1.ctx = st.ctx ∧ r.1.inst = st.inst ∧ r.1.builders = st.builders ∧
    (r.1.cur = none ∨ (r.1.cur = st.cur ∧ aget st.mods "pyspark.sql" = none)) ∧
    (r.2 = none → b2 = true → r.1.config = []) ∧ (r.1.config = st.config ∨ r.1.config = []) ∧
    (∀ x, r.2 = some x → ∃ rm ∈ env.real, rm.raises = some x) ∧
    (env.real = [] → r.1.mods = []) := by
  have hall : ∀ k ∈ akeys st.mods, keyTest (.top "pyspark") k = true := fun k hk => by
    simpa [keyTest] using hK k hk
  have hnil := filter_all_collected st.mods (keyTest (.top "pyspark")) hall
  have hcoll : ∀ k ∈ (akeys st.mods).filter (keyTest (.top "pyspark")), startsW k "pyspark" = true :=
    fun k hk => hK k (List.mem_filter.mp hk).1
  have hcur : ((akeys st.mods).filter (keyTest (.top "pyspark"))).contains "pyspark.sql" = false →
      aget st.mods "pyspark.sql" = none := by
    intro hc
    apply aget_none_of_not_mem
    intro hm
    have : "pyspark.sql" ∈ (akeys st.mods).filter (keyTest (.top "pyspark")) := List.mem_filter.mpr ⟨hm, hall _ hm⟩
    simp [this] at hc
  simp only [canonSteps, Bool.false_eq_true, if_false, List.nil_append, List.cons_append, deactRun, hnil]
  generalize hc : (if ((akeys st.mods).filter (keyTest (.top "pyspark"))).contains "pyspark.sql" = true then none else st.cur) = cu
  have hcc : cu = none ∨ (cu = st.cur ∧ aget st.mods "pyspark.sql" = none) := by
    rw [← hc]
    cases hb : ((akeys st.mods).filter (keyTest (.top "pyspark"))).contains "pyspark.sql" with
    | true => simp
    | false => simp; exact Or.inr (hcur hb)
  have h := reimport_ok env hE c _ hcoll { st with mods := [], cur := cu }
    (keysOk_nil_mods st cu) (allReal_nil_mods st cu)
  have habs := fun (ha : env.real = []) => reimport_absent_nil env ha c
    ((akeys st.mods).filter (keyTest (.top "pyspark"))) { st with mods := [], cur := cu } rfl
  cases hr : reimport env c { st with mods := [], cur := cu }
      ((akeys st.mods).filter (keyTest (.top "pyspark"))) with
  | mk st2 r2 =>
    rw [hr] at h habs
    obtain ⟨hsame, hk2, hr2, hx2⟩ := h
    have e2 : st2 = { st with mods := st2.mods, cur := cu } := hsame
    cases r2 with
    | some x =>
      simp only
      refine ⟨hk2, hr2, ?_, ?_, ?_, ?_, ?_, fun h => (by cases h), ?_, ?_, habs⟩
      · rw [e2]
      · rw [e2]
      · rw [e2]
      · rw [e2]
      · rw [e2]; exact hcc
      · left; rw [e2]
      · intro y hy
        cases hy
        obtain ⟨hexc, hnc⟩ := hx2 x rfl
        rcases hexc with h1 | h1
        · subst h1; rw [hcm] at hnc; cases hnc
        · exact h1
    | none =>
      cases b2 with
      | false =>
        simp only [Bool.false_eq_true, if_false, deactRun]
        refine ⟨hk2, hr2, ?_, ?_, ?_, ?_, ?_, fun _ h => (by cases h), ?_, fun x h => (by cases h), habs⟩
        · rw [e2]
        · rw [e2]
        · rw [e2]
        · rw [e2]
        · rw [e2]; exact hcc
        · left; rw [e2]
      | true =>
        simp only [if_true, deactRun]
        refine ⟨hk2, hr2, ?_, ?_, ?_, ?_, ?_, by simp, by simp, fun x h => (by cases h), habs⟩
        · rw [e2]
        · rw [e2]
        · rw [e2]
        · rw [e2]
        · rw [e2]; exact hcc

/-- What `deactivate()` does to a state whose sys.modules keys all start with "pyspark": every entry is
    removed, then only real pyspark modules come back; it can only fail with an exception a real import
    raises; the configuration is cleared if it is cleared first, or if it is cleared last and nothing failed. -/
theorem deactivate_spec (env : Env) (hE : EnvOk env) (st : State) (hK : KeysOk st) :
    KeysOk (deactivate env st).1 ∧ AllReal (deactivate env st).1 ∧
    (deactivate env st).1.pkgs = st.pkgs ∧ (deactivate env st).1.ctx = st.ctx ∧
    (deactivate env st).1.inst = st.inst ∧ (deactivate env st).1.builders = st.builders ∧
    ((deactivate env st).1.cur = none ∨ ((deactivate env st).1.cur = st.cur ∧ aget st.mods "pyspark.sql" = none)) ∧
    (stepsB1 deactSteps = true ∨ (stepsB2 deactSteps = true ∧ (deactivate env st).2 = none) →
      (deactivate env st).1.config = []) ∧
    (∀ x, (deactivate env st).2 = some x → ∃ rm ∈ env.real, rm.raises = some x) ∧
    (env.real = [] → (deactivate env st).1.mods = []) := by
  unfold deactivate
  rw [deactSteps_shape]
  generalize stepsCaught deactSteps = c, deactSteps_catch = hcm
  cases hb1 : stepsB1 deactSteps with
  | false =>
    obtain ⟨h1, h2, h3, h4, h5, h6, h7, h8, _, h10, h11⟩ := deactCore env hE c (stepsB2 deactSteps) hcm st hK
    refine ⟨h1, h2, h3, h4, h5, h6, h7, ?_, h10, h11⟩
    intro h
    rcases h with h | ⟨hb, hn⟩
    · cases h
    · exact h8 hn hb
  | true =>
    have hK' : KeysOk { st with config := [] } := hK
    obtain ⟨h1, h2, h3, h4, h5, h6, h7, _, h9, h10, h11⟩ :=
      deactCore env hE c (stepsB2 deactSteps) hcm { st with config := [] } hK'
    have hunf : deactRun env (canonSteps true c (stepsB2 deactSteps)) [] st =
        deactRun env (canonSteps false c (stepsB2 deactSteps)) [] { st with config := [] } := by
      simp [canonSteps, deactRun]
    rw [hunf]
    refine ⟨h1, h2, h3, h4, h5, h6, h7, ?_, h10, h11⟩
    intro _
    rcases h9 with h | h
    · exact h
    · exact h

/-! ### engine package records -/

theorem append_cancel_left' (a b c : String) (h : a ++ b = a ++ c) : b = c := by
  have h2 := congrArg String.toList h
  simp only [String.toList_append, List.append_cancel_left_eq] at h2
  exact String.toList_inj.mp h2

theorem pkg_updPkg (st : State) (e e' : String) (f : Pkg → Pkg) :
    ({ st with pkgs := updPkg st.pkgs e f } : State).pkg e' = if e = e' then f (st.pkg e) else st.pkg e' := by
  unfold State.pkg updPkg
  simp only [aget_aset]
  split <;> simp

theorem pkg_ensurePkg (st : State) (e e' : String) : (ensurePkg st e).pkg e' = st.pkg e' := by
  unfold ensurePkg
  cases h : (aget st.pkgs e).isSome with
  | true => simp
  | false =>
    simp only [Bool.false_eq_true, if_false, State.pkg, aget_aset]
    by_cases he : e = e'
    · subst he
      have : aget st.pkgs e = none := by cases h2 : aget st.pkgs e <;> simp_all
      simp [this]
    · simp [he]

theorem mods_setPkgAttr (st : State) (e n : String) (o : Obj) : (setPkgAttr st e n o).mods = st.mods := rfl
theorem mods_setFileAttr (st : State) (e f n : String) (o : Obj) : (setFileAttr st e f n o).mods = st.mods := rfl

theorem pkg_setPkgAttr (st : State) (e n : String) (o : Obj) (e' : String) :
    (setPkgAttr st e n o).pkg e' = if e = e' then { st.pkg e with dyn := aset (st.pkg e).dyn n o } else st.pkg e' :=
  pkg_updPkg st e e' (fun p => { p with dyn := aset p.dyn n o })

theorem pkg_setFileAttr (st : State) (e f n : String) (o : Obj) (e' : String) :
    (setFileAttr st e f n o).pkg e' =
      if e = e' then { st.pkg e with fileDyn := aset (st.pkg e).fileDyn (f ++ ":" ++ n) o } else st.pkg e' :=
  pkg_updPkg st e e' (fun p => { p with fileDyn := aset p.fileDyn (f ++ ":" ++ n) o })

/-- everything of the state except `mods` and `pkgs` -/
def Frame (a b : State) : Prop :=
  b.cur = a.cur ∧ b.config = a.config ∧ b.ctx = a.ctx ∧ b.inst = a.inst ∧ b.builders = a.builders ∧
  b.mockSql = a.mockSql ∧ b.mockTesting = a.mockTesting

theorem frame_refl (a : State) : Frame a a := ⟨rfl, rfl, rfl, rfl, rfl, rfl, rfl⟩
theorem frame_trans {a b c : State} (h1 : Frame a b) (h2 : Frame b c) : Frame a c := by
  obtain ⟨a1, a2, a3, a4, a5, a6, a7⟩ := h1
  obtain ⟨b1, b2, b3, b4, b5, b6, b7⟩ := h2
  exact ⟨b1.trans a1, b2.trans a2, b3.trans a3, b4.trans a4, b5.trans a5, b6.trans a6, b7.trans a7⟩


theorem mem_akeys_aget {α} (m : List (String × α)) (k : String) (h : k ∈ akeys m) : ∃ v, aget m k = some v := by
  induction m with
  | nil => simp [akeys] at h
  | cons p t ih =>
    obtain ⟨k0, v0⟩ := p
    by_cases hk : k0 = k
    · exact ⟨v0, by simp [aget, hk]⟩
    · simp only [akeys, List.map_cons, List.mem_cons] at h
      rcases h with h | h
      · exact absurd h.symm hk
      · obtain ⟨v, hv⟩ := ih (by simpa [akeys] using h)
        exact ⟨v, by simp [aget, hk, hv]⟩

theorem akeys_aset_mono {α} (m : List (String × α)) (k : String) (v : α) (x : String) (h : x ∈ akeys m) :
    x ∈ akeys (aset m k v) := by
  obtain ⟨w, hw⟩ := mem_akeys_aget m x h
  by_cases hk : k = x
  · exact aget_mem_keys _ _ v (by rw [aget_aset]; simp [hk])
  · exact aget_mem_keys _ _ w (by rw [aget_aset]; simp [hk, hw])

theorem akeys_aset_self {α} (m : List (String × α)) (k : String) (v : α) : k ∈ akeys (aset m k v) :=
  aget_mem_keys _ _ v (aget_aset_self m k v)

/-- `importlib.import_module("sqlframe.<e>.<f>")`: touches only the record of package `e`; may add the
    attribute `functions` (together with the loaded flag) -/
structure CanonOk (st : State) (e f : String) (st' : State) : Prop where
  mods : st'.mods = st.mods
  frame : Frame st st'
  other : ∀ e', e ≠ e' → st'.pkg e' = st.pkg e'
  dynNew : ∀ n, n ∈ akeys (st'.pkg e).dyn → n ∈ akeys (st.pkg e).dyn ∨ (n = "functions" ∧ f = "functions")
  dynMono : ∀ n, n ∈ akeys (st.pkg e).dyn → n ∈ akeys (st'.pkg e).dyn
  canon : (st'.pkg e).canonFn = true → (st.pkg e).canonFn = true ∨ "functions" ∈ akeys (st'.pkg e).dyn
  fnLoaded : (filesOf e).contains f = true → f = "functions" → (st'.pkg e).canonFn = true

theorem canonOk_refl (st : State) (e f : String) (h : (filesOf e).contains f = true → f = "functions" → (st.pkg e).canonFn = true) :
    CanonOk st e f st :=
  ⟨rfl, frame_refl st, fun _ _ => rfl, fun n hn => Or.inl hn, fun n hn => hn, fun h => Or.inl h, h⟩

theorem importCanon_spec (st : State) (e f : String) :
    CanonOk st e f (importCanon st e f).1 ∧
    ((filesOf e).contains f = true → (importCanon st e f).2 = .ok (.file e f)) := by
  unfold importCanon
  cases hc : (filesOf e).contains f with
  | false => exact ⟨canonOk_refl st e f (fun h => by rw [hc] at h; cases h), by simp⟩
  | true =>
    simp only [Bool.not_true, Bool.false_eq_true, if_false]
    by_cases hf : f = "functions"
    · subst hf
      simp only [if_true]
      cases hcf : (st.pkg e).canonFn with
      | true => simp only [if_true]; exact ⟨canonOk_refl st e _ (fun _ _ => hcf), by simp⟩
      | false =>
        simp only [Bool.false_eq_true, if_false]
        have hp : ∀ e', ({ st with pkgs := updPkg st.pkgs e (fun p => { p with canonFn := true, dyn := aset p.dyn "functions" (.file e "functions") }) } : State).pkg e'
            = if e = e' then { st.pkg e with canonFn := true, dyn := aset (st.pkg e).dyn "functions" (.file e "functions") } else st.pkg e' :=
          fun e' => pkg_updPkg st e e' _
        refine ⟨⟨rfl, ⟨rfl, rfl, rfl, rfl, rfl, rfl, rfl⟩, ?_, ?_, ?_, ?_, ?_⟩, by simp⟩
        · intro e' he'; rw [hp]; simp [he']
        · intro n hn
          rw [hp] at hn; simp only [if_true] at hn
          rcases akeys_aset _ _ _ n hn with h | h
          · exact Or.inr ⟨h, rfl⟩
          · exact Or.inl h
        · intro n hn
          rw [hp]; simp only [if_true]
          exact akeys_aset_mono _ _ _ _ hn
        · intro _
          right
          rw [hp]; simp only [if_true]
          exact akeys_aset_self _ _ _
        · intro _ _
          rw [hp]; simp
    · simp only [if_neg hf]
      exact ⟨canonOk_refl st e f (fun _ h => absurd h hf), by simp⟩


/-! ### activate's loop over the package dict -/

def fileOf (pre n : String) : String := fileFor (unprefixed pre n)

/-- how the dynamic attributes of package `e` may change while the names `ns` are processed -/
structure DynRel (e pre : String) (a b : State) (ns : List String) : Prop where
  dynNew : ∀ n, n ∈ akeys (b.pkg e).dyn → n ∈ akeys (a.pkg e).dyn ∨
    ∃ m ∈ ns, isSelected pre m = true ∧ (n = unprefixed pre m ∨ (n = "functions" ∧ fileOf pre m = "functions"))
  dynMono : ∀ n, n ∈ akeys (a.pkg e).dyn → n ∈ akeys (b.pkg e).dyn
  canon : (b.pkg e).canonFn = true → (a.pkg e).canonFn = true ∨ "functions" ∈ akeys (b.pkg e).dyn
  other : ∀ e', e ≠ e' → b.pkg e' = a.pkg e'

theorem dynRel_refl (e pre : String) (a : State) (ns : List String) : DynRel e pre a a ns :=
  ⟨fun _ h => Or.inl h, fun _ h => h, fun h => Or.inl h, fun _ _ => rfl⟩

theorem dynRel_trans {e pre : String} {a b c : State} {n1 n2 : List String}
    (h1 : DynRel e pre a b n1) (h2 : DynRel e pre b c n2) : DynRel e pre a c (n1 ++ n2) := by
  refine ⟨?_, fun n h => h2.dynMono n (h1.dynMono n h), ?_, fun e' he => (h2.other e' he).trans (h1.other e' he)⟩
  · intro n hn
    rcases h2.dynNew n hn with h | ⟨m, hm, hs, hx⟩
    · rcases h1.dynNew n h with h' | ⟨m, hm, hs, hx⟩
      · exact Or.inl h'
      · exact Or.inr ⟨m, List.mem_append_left _ hm, hs, hx⟩
    · exact Or.inr ⟨m, List.mem_append_right _ hm, hs, hx⟩
  · intro hc
    rcases h2.canon hc with h | h
    · rcases h1.canon h with h' | h'
      · exact Or.inl h'
      · exact Or.inr (h2.dynMono _ h')
    · exact Or.inr h

structure LoopInv (e : String) (st0 st : State) (res : List String) : Prop where
  frame : Frame st0 st
  keys : KeysOk st
  written : ∀ f ∈ res, aget st.mods ("pyspark.sql." ++ f) = some (.file e f)
  others : ∀ q, (∃ f ∈ res, q = "pyspark.sql." ++ f) ∨ aget st.mods q = aget st0.mods q

theorem startsW_sqlkey (f : String) : startsW ("pyspark.sql." ++ f) "pyspark" = true :=
  startsW_append _ _ _ (by decide)

/-- one selected name whose file exists -/
theorem loopStep_spec (e pre : String) (st0 st : State) (res : List String) (kv : String × Obj)
    (hI : LoopInv e st0 st res) (hsel : isSelected pre kv.1 = true)
    (hfile : (filesOf e).contains (fileOf pre kv.1) = true) :
    ∃ st' res', loopStep e pre (st, res) kv = some (st', res') ∧ LoopInv e st0 st' res' ∧
      (∀ f ∈ res, f ∈ res') ∧ fileOf pre kv.1 ∈ res' ∧ (∀ f ∈ res', f ∈ res ∨ f = fileOf pre kv.1) ∧
      DynRel e pre st st' [kv.1] := by
  unfold loopStep
  simp only [hsel, Bool.not_true, Bool.false_eq_true, if_false]
  have hc := importCanon_spec (setPkgAttr st e (unprefixed pre kv.1) kv.2) e (fileFor (unprefixed pre kv.1))
  obtain ⟨hc1, hc2⟩ := hc
  have hok := hc2 hfile
  cases hr : importCanon (setPkgAttr st e (unprefixed pre kv.1) kv.2) e (fileFor (unprefixed pre kv.1)) with
  | mk st1 r1 =>
    rw [hr] at hc1 hok
    simp only at hok
    subst hok
    simp only
    -- the dynamic attributes
    have hdyn : DynRel e pre st st1 [kv.1] := by
      refine ⟨?_, ?_, ?_, ?_⟩
      · intro n hn
        rcases hc1.dynNew n hn with h | ⟨h1, h2⟩
        · rw [pkg_setPkgAttr] at h; simp only [if_true] at h
          rcases akeys_aset _ _ _ n h with h' | h'
          · exact Or.inr ⟨kv.1, List.mem_singleton.mpr rfl, hsel, Or.inl h'⟩
          · exact Or.inl h'
        · exact Or.inr ⟨kv.1, List.mem_singleton.mpr rfl, hsel, Or.inr ⟨h1, h2⟩⟩
      · intro n hn
        apply hc1.dynMono
        rw [pkg_setPkgAttr]; simp only [if_true]
        exact akeys_aset_mono _ _ _ _ hn
      · intro hcf
        rcases hc1.canon hcf with h | h
        · rw [pkg_setPkgAttr] at h; simp only [if_true] at h; exact Or.inl h
        · exact Or.inr h
      · intro e' he'
        rw [hc1.other e' he', pkg_setPkgAttr]; simp [he']
    have hmods1 : st1.mods = st.mods := hc1.mods
    have hfr1 : Frame st st1 := by
      have := hc1.frame
      exact this
    by_cases hg : (guardResolved && res.contains (fileFor (unprefixed pre kv.1))) = true
    · -- already resolved: no write
      simp only [hg, if_true]
      have hin : fileOf pre kv.1 ∈ res := by
        simp only [Bool.and_eq_true] at hg
        exact List.contains_iff_mem.mp hg.2
      refine ⟨_, _, rfl, ⟨?_, ?_, ?_, ?_⟩, fun f h => h, hin, fun f h => Or.inl h, ?_⟩
      · exact frame_trans hI.frame (frame_trans hfr1 ⟨rfl, rfl, rfl, rfl, rfl, rfl, rfl⟩)
      · intro k hk; rw [mods_setFileAttr, hmods1] at hk; exact hI.keys k hk
      · intro f hf; rw [mods_setFileAttr, hmods1]; exact hI.written f hf
      · intro q; rw [mods_setFileAttr, hmods1]; exact hI.others q
      · refine ⟨?_, ?_, ?_, ?_⟩
        · intro n hn; rw [pkg_setFileAttr] at hn; simp only [if_true] at hn; exact hdyn.dynNew n hn
        · intro n hn; rw [pkg_setFileAttr]; simp only [if_true]; exact hdyn.dynMono n hn
        · intro h; rw [pkg_setFileAttr] at h ⊢; simp only [if_true] at h ⊢; exact hdyn.canon h
        · intro e' he'; rw [pkg_setFileAttr]; simp only [if_neg he']; exact hdyn.other e' he'
    · simp only [hg, Bool.false_eq_true, if_false]
      refine ⟨_, _, rfl, ⟨?_, ?_, ?_, ?_⟩, fun f h => List.mem_cons_of_mem _ h, List.mem_cons_self, ?_, ?_⟩
      · exact frame_trans hI.frame (frame_trans hfr1 ⟨rfl, rfl, rfl, rfl, rfl, rfl, rfl⟩)
      · intro k hk
        rw [mods_setFileAttr] at hk
        simp only [hmods1] at hk
        exact keysOk_aset _ _ _ hI.keys (startsW_sqlkey _) k hk
      · intro f hf
        rw [mods_setFileAttr]
        simp only [hmods1, aget_aset]
        rcases List.mem_cons.mp hf with h | h
        · subst h; simp
        · split
          · rename_i heq
            have := append_cancel_left' _ _ _ heq
            rw [this]
          · exact hI.written f h
      · intro q
        rw [mods_setFileAttr]
        simp only [hmods1, aget_aset]
        by_cases hq : "pyspark.sql." ++ fileFor (unprefixed pre kv.1) = q
        · exact Or.inl ⟨_, List.mem_cons_self, hq.symm⟩
        · rcases hI.others q with ⟨f, hf, hqf⟩ | h
          · exact Or.inl ⟨f, List.mem_cons_of_mem _ hf, hqf⟩
          · right; simp [hq, h]
      · intro f hf
        rcases List.mem_cons.mp hf with h | h
        · exact Or.inr h
        · exact Or.inl h
      · refine ⟨?_, ?_, ?_, ?_⟩
        · intro n hn; rw [pkg_setFileAttr] at hn; simp only [if_true] at hn; exact hdyn.dynNew n hn
        · intro n hn; rw [pkg_setFileAttr]; simp only [if_true]; exact hdyn.dynMono n hn
        · intro h; rw [pkg_setFileAttr] at h ⊢; simp only [if_true] at h ⊢; exact hdyn.canon h
        · intro e' he'; rw [pkg_setFileAttr]; simp only [if_neg he']; exact hdyn.other e' he'


theorem loopRun_spec (e pre : String) (st0 : State) (l : List (String × Obj)) :
    ∀ (st : State) (res : List String), LoopInv e st0 st res →
      (∀ kv ∈ l, isSelected pre kv.1 = true → (filesOf e).contains (fileOf pre kv.1) = true) →
      ∃ st' res', loopRun e pre (st, res) l = (st', none) ∧ LoopInv e st0 st' res' ∧
        (∀ f ∈ res, f ∈ res') ∧
        (∀ kv ∈ l, isSelected pre kv.1 = true → fileOf pre kv.1 ∈ res') ∧
        (∀ f ∈ res', f ∈ res ∨ ∃ kv ∈ l, isSelected pre kv.1 = true ∧ f = fileOf pre kv.1) ∧
        DynRel e pre st st' (l.map (·.1)) := by
  induction l with
  | nil =>
    intro st res hI _
    exact ⟨st, res, rfl, hI, fun f h => h, fun kv h => (by cases h), fun f h => Or.inl h, dynRel_refl _ _ _ _⟩
  | cons kv rest ih =>
    intro st res hI hfiles
    have hrest : ∀ kv ∈ rest, isSelected pre kv.1 = true → (filesOf e).contains (fileOf pre kv.1) = true :=
      fun x hx => hfiles x (List.mem_cons_of_mem _ hx)
    cases hsel : isSelected pre kv.1 with
    | false =>
      have hstep : loopStep e pre (st, res) kv = some (st, res) := by
        unfold loopStep; simp [hsel]
      obtain ⟨st', res', h1, h2, h3, h4, h5, h6⟩ := ih st res hI hrest
      refine ⟨st', res', ?_, h2, h3, ?_, ?_, ?_⟩
      · simp only [loopRun, hstep]; exact h1
      · intro x hx hs
        rcases List.mem_cons.mp hx with h | h
        · subst h; rw [hsel] at hs; cases hs
        · exact h4 x h hs
      · intro f hf
        rcases h5 f hf with h | ⟨x, hx, hs, hfx⟩
        · exact Or.inl h
        · exact Or.inr ⟨x, List.mem_cons_of_mem _ hx, hs, hfx⟩
      · have := dynRel_trans (dynRel_refl e pre st [kv.1]) h6
        simpa using this
    | true =>
      obtain ⟨st1, res1, hs1, hI1, hm1, hin1, hsub1, hd1⟩ :=
        loopStep_spec e pre st0 st res kv hI hsel (hfiles kv List.mem_cons_self hsel)
      obtain ⟨st', res', h1, h2, h3, h4, h5, h6⟩ := ih st1 res1 hI1 hrest
      refine ⟨st', res', ?_, h2, fun f hf => h3 f (hm1 f hf), ?_, ?_, ?_⟩
      · simp only [loopRun, hs1]; exact h1
      · intro x hx hs
        rcases List.mem_cons.mp hx with h | h
        · subst h; exact h3 _ hin1
        · exact h4 x h hs
      · intro f hf
        rcases h5 f hf with h | ⟨x, hx, hs, hfx⟩
        · rcases hsub1 f h with h' | h'
          · exact Or.inl h'
          · exact Or.inr ⟨kv, List.mem_cons_self, hsel, h'⟩
        · exact Or.inr ⟨x, List.mem_cons_of_mem _ hx, hs, hfx⟩
      · have := dynRel_trans hd1 h6
        simpa using this


/-! ### table facts -/

def engines : List String := akeys engineToPrefix
def fnKey : String := "pyspark.sql.functions"
def preOf (e : String) : String := (prefixOf e).getD ""
def staticNames (e : String) : List String := akeys (staticAttrs e)
def allowedDyn (e : String) : List String := "functions" :: (staticNames e).map (unprefixed (preOf e))

/-- the table facts the invariant proof needs, per engine (checked by evaluation) -/
def engineFacts (e : String) : Bool :=
  let pre := preOf e
  (prefixOf e).isSome
  && (staticNames e ++ allowedDyn e).all (fun n =>
        !(isSelected pre n) ||
          ((filesOf e).contains (fileOf pre n) && (allowedDyn e).contains (unprefixed pre n)
            && docSqlKeys.contains ("pyspark.sql." ++ fileOf pre n)
            && (n == "functions" || (fileOf pre n != "functions" && unprefixed pre n != "functions"))))
  && docSqlKeys.all (fun k => k == "pyspark.sql" || k == fnKey ||
        (staticNames e).any (fun n => isSelected pre n && ("pyspark.sql." ++ fileOf pre n == k)))
  && isSelected pre "functions" && fileOf pre "functions" == "functions"
  && !(staticNames e).contains "functions"

theorem engineFacts_all : ∀ e ∈ engines, engineFacts e = true := by decide +kernel


/-! ### the package dict -/

theorem pkgDict_names (st : State) (e : String) :
    (∀ kv ∈ pkgDict st e, kv.1 ∈ staticNames e ∨ kv.1 ∈ akeys (st.pkg e).dyn) ∧
    (∀ n ∈ staticNames e, ∃ kv ∈ pkgDict st e, kv.1 = n) ∧
    (∀ n ∈ akeys (st.pkg e).dyn, ∃ kv ∈ pkgDict st e, kv.1 = n) := by
  unfold pkgDict staticNames
  simp only
  refine ⟨?_, ?_, ?_⟩
  · intro kv hkv
    rcases List.mem_append.mp hkv with h | h
    · obtain ⟨x, hx, rfl⟩ := List.mem_map.mp h
      exact Or.inl (List.mem_map_of_mem (f := (·.1)) hx)
    · exact Or.inr (List.mem_map_of_mem (f := (·.1)) (List.mem_filter.mp h).1)
  · intro n hn
    obtain ⟨x, hx, rfl⟩ := List.mem_map.mp hn
    exact ⟨_, List.mem_append_left _ (List.mem_map_of_mem hx), rfl⟩
  · intro n hn
    obtain ⟨x, hx, rfl⟩ := List.mem_map.mp hn
    by_cases hs : (akeys (staticAttrs e)).contains x.1 = true
    · obtain ⟨y, hy, hyx⟩ := List.mem_map.mp (List.contains_iff_mem.mp hs)
      exact ⟨_, List.mem_append_left _ (List.mem_map_of_mem hy), hyx⟩
    · exact ⟨x, List.mem_append_right _ (List.mem_filter.mpr ⟨hx, by simpa using hs⟩), rfl⟩

/-! ### the invariant of activation-only histories -/

def ownedBy (cur : Option String) (k : String) (o : Obj) : Prop :=
  match o.owner with
  | some e => cur = some e
  | none => k ∈ docSqlKeys → cur = none ∧ o.isReal = true

structure Inv (st : State) : Prop where
  keys : KeysOk st
  top : ∀ e, st.cur = some e → aget st.mods "pyspark.sql" = some (.pkg e)
  mix : ∀ k o, aget st.mods k = some o → ownedBy st.cur k o
  owned : ∀ k o, aget st.mods k = some o → o.owner.isSome = true → k ∈ docSqlKeys
  names : ∀ e, e ∈ engines → ∀ n, n ∈ akeys (st.pkg e).dyn → n ∈ allowedDyn e
  fnattr : ∀ e, (st.pkg e).canonFn = true → "functions" ∈ akeys (st.pkg e).dyn

/-- either activate always (re)binds `functions`, or no `pyspark.sql.functions` entry / `functions`
    attribute exists yet -/
def FnState (st : State) : Prop :=
  preimportFunctions = true ∨ (aget st.mods fnKey = none ∧ ∀ e, "functions" ∉ akeys (st.pkg e).dyn)

theorem inv_fresh : Inv State.fresh := by
  refine ⟨keysOk_fresh, ?_, ?_, ?_, ?_, ?_⟩
  · intro e h; simp [State.fresh] at h
  · intro k o h; simp [State.fresh, aget] at h
  · intro k o h; simp [State.fresh, aget] at h
  · intro e _ n h; simp [State.fresh, State.pkg, aget, Pkg.empty, akeys] at h
  · intro e h; simp [State.fresh, State.pkg, aget, Pkg.empty] at h

theorem fnState_fresh : FnState State.fresh := by
  right
  refine ⟨by simp [State.fresh, aget], ?_⟩
  intro e h; simp [State.fresh, State.pkg, aget, Pkg.empty, akeys] at h

theorem sqlkey_ne (f : String) : "pyspark.sql" ≠ "pyspark.sql." ++ f := by
  intro h
  have := congrArg String.length h
  simp only [String.length_append] at this
  have h1 : "pyspark.sql".length = 11 := by decide
  have h2 : "pyspark.sql.".length = 12 := by decide
  omega

theorem topkey_ne (f : String) : "pyspark" ≠ "pyspark.sql." ++ f ∧ "pyspark.testing" ≠ "pyspark.sql." ++ f := by
  constructor
  · intro h
    have := congrArg String.length h
    simp only [String.length_append] at this
    have h1 : "pyspark".length = 7 := by decide
    have h2 : "pyspark.sql.".length = 12 := by decide
    omega
  · intro h
    have h2 := congrArg String.toList h
    simp only [String.toList_append] at h2
    have h3 : "pyspark.testing".toList = "pyspark.".toList ++ "testing".toList := by decide
    have h4 : "pyspark.sql.".toList = "pyspark.".toList ++ "sql.".toList := by decide
    rw [h3, h4, List.append_assoc, List.append_cancel_left_eq] at h2
    have h5 : "testing".toList = 't' :: "esting".toList := by decide
    have h6 : "sql.".toList = 's' :: "ql.".toList := by decide
    rw [h5, h6] at h2
    simp at h2



/-- the conn/config statements touch nothing but ACTIVATE_CONFIG and the caller's dicts -/
theorem cfgStep_frame (conn : Option Nat) (acc : State × Loc) (s : CfgStmt) :
    (cfgStep conn acc s).1.mods = acc.1.mods ∧ (cfgStep conn acc s).1.pkgs = acc.1.pkgs ∧
    (cfgStep conn acc s).1.cur = acc.1.cur ∧ (cfgStep conn acc s).1.ctx = acc.1.ctx ∧
    (cfgStep conn acc s).1.inst = acc.1.inst ∧ (cfgStep conn acc s).1.builders = acc.1.builders ∧
    (cfgStep conn acc s).1.mockSql = acc.1.mockSql ∧ (cfgStep conn acc s).1.mockTesting = acc.1.mockTesting := by
  cases s with
  | rebind copy => unfold cfgStep; simp only; split <;> (try split) <;> exact ⟨rfl, rfl, rfl, rfl, rfl, rfl, rfl, rfl⟩
  | connToGlobal k => unfold cfgStep; cases conn <;> exact ⟨rfl, rfl, rfl, rfl, rfl, rfl, rfl, rfl⟩
  | connToLocal k => unfold cfgStep; simp only; split <;> exact ⟨rfl, rfl, rfl, rfl, rfl, rfl, rfl, rfl⟩
  | itemsToGlobal => exact ⟨rfl, rfl, rfl, rfl, rfl, rfl, rfl, rfl⟩

theorem storeCfg_frame (conn : Option Nat) (ss : List CfgStmt) : ∀ acc : State × Loc,
    (storeCfg conn ss acc).1.mods = acc.1.mods ∧ (storeCfg conn ss acc).1.pkgs = acc.1.pkgs ∧
    (storeCfg conn ss acc).1.cur = acc.1.cur ∧ (storeCfg conn ss acc).1.ctx = acc.1.ctx ∧
    (storeCfg conn ss acc).1.inst = acc.1.inst ∧ (storeCfg conn ss acc).1.builders = acc.1.builders ∧
    (storeCfg conn ss acc).1.mockSql = acc.1.mockSql ∧ (storeCfg conn ss acc).1.mockTesting = acc.1.mockTesting := by
  induction ss with
  | nil => intro acc; exact ⟨rfl, rfl, rfl, rfl, rfl, rfl, rfl, rfl⟩
  | cons s rest ih =>
    intro acc
    obtain ⟨a1, a2, a3, a4, a5, a6, a7, a8⟩ := ih (cfgStep conn acc s)
    obtain ⟨b1, b2, b3, b4, b5, b6, b7, b8⟩ := cfgStep_frame conn acc s
    simp only [storeCfg]
    exact ⟨a1.trans b1, a2.trans b2, a3.trans b3, a4.trans b4, a5.trans b5, a6.trans b6, a7.trans b7, a8.trans b8⟩

theorem ensureCaller_frame (st : State) (d : String) :
    (ensureCaller st d).mods = st.mods ∧ (ensureCaller st d).pkgs = st.pkgs ∧ (ensureCaller st d).cur = st.cur ∧
    (ensureCaller st d).ctx = st.ctx ∧ (ensureCaller st d).inst = st.inst ∧ (ensureCaller st d).builders = st.builders ∧
    (ensureCaller st d).mockSql = st.mockSql ∧ (ensureCaller st d).mockTesting = st.mockTesting ∧
    (ensureCaller st d).config = st.config := by
  unfold ensureCaller; split <;> exact ⟨rfl, rfl, rfl, rfl, rfl, rfl, rfl, rfl, rfl⟩

theorem activatePre_spec (c : Option Nat) (d : Option String) (st : State) :
    (activatePre c d st).mods = aset (aset st.mods "pyspark" .mock) "pyspark.testing" .testing ∧
    (activatePre c d st).pkgs = st.pkgs ∧ (activatePre c d st).cur = st.cur ∧ (activatePre c d st).ctx = st.ctx := by
  unfold activatePre
  simp only [setsTop, setsTesting, if_true]
  cases d with
  | none =>
    obtain ⟨h1, h2, h3, h4, _⟩ := storeCfg_frame c cfgStmts
      ({ st with mods := aset (aset st.mods "pyspark" .mock) "pyspark.testing" .testing, mockSql := none, mockTesting := mockTesting }, Loc.none)
    exact ⟨h1, h2, h3, h4⟩
  | some d =>
    obtain ⟨h1, h2, h3, h4, _⟩ := storeCfg_frame c cfgStmts
      (ensureCaller { st with mods := aset (aset st.mods "pyspark" .mock) "pyspark.testing" .testing, mockSql := none, mockTesting := mockTesting } d, Loc.alias d)
    obtain ⟨e1, e2, e3, e4, _⟩ := ensureCaller_frame
      { st with mods := aset (aset st.mods "pyspark" .mock) "pyspark.testing" .testing, mockSql := none, mockTesting := mockTesting } d
    exact ⟨h1.trans e1, h2.trans e2, h3.trans e3, h4.trans e4⟩

theorem mem_docSqlKeys_not_top : "pyspark" ∉ docSqlKeys ∧ "pyspark.testing" ∉ docSqlKeys := by decide

theorem activatePre_inv (c : Option Nat) (d : Option String) (st : State) (hI : Inv st) :
    Inv (activatePre c d st) ∧ (FnState st → FnState (activatePre c d st)) := by
  obtain ⟨hm, hp, hc, _⟩ := activatePre_spec c d st
  have hpk : ∀ e, (activatePre c d st).pkg e = st.pkg e := fun e => by unfold State.pkg; rw [hp]
  have hget : ∀ q o, aget (activatePre c d st).mods q = some o →
      (q = "pyspark" ∧ o = .mock) ∨ (q = "pyspark.testing" ∧ o = .testing) ∨ aget st.mods q = some o := by
    intro q o h
    rw [hm, aget_aset] at h
    split at h
    · rename_i hq; cases h; exact Or.inr (Or.inl ⟨hq.symm, rfl⟩)
    · rw [aget_aset] at h
      split at h
      · rename_i hq; cases h; exact Or.inl ⟨hq.symm, rfl⟩
      · exact Or.inr (Or.inr h)
  refine ⟨⟨?_, ?_, ?_, ?_, ?_, ?_⟩, ?_⟩
  · intro k hk
    rw [hm] at hk
    exact keysOk_aset _ _ _ (keysOk_aset _ _ _ hI.keys (by decide)) (by decide) k hk
  · intro e he
    rw [hc] at he
    rw [hm, aget_aset_ne _ _ _ _ (by decide), aget_aset_ne _ _ _ _ (by decide)]
    exact hI.top e he
  · intro k o h
    rcases hget k o h with ⟨rfl, rfl⟩ | ⟨rfl, rfl⟩ | h'
    · intro hk; exact absurd hk mem_docSqlKeys_not_top.1
    · intro hk; exact absurd hk mem_docSqlKeys_not_top.2
    · rw [hc]; exact hI.mix k o h'
  · intro k o h ho
    rcases hget k o h with ⟨rfl, rfl⟩ | ⟨rfl, rfl⟩ | h'
    · simp [Obj.owner] at ho
    · simp [Obj.owner] at ho
    · exact hI.owned k o h' ho
  · intro e he n hn; rw [hpk] at hn; exact hI.names e he n hn
  · intro e he; rw [hpk] at he ⊢; exact hI.fnattr e he
  · intro hF
    rcases hF with h | ⟨h1, h2⟩
    · exact Or.inl h
    · right
      refine ⟨?_, fun e => by rw [hpk]; exact h2 e⟩
      rw [hm, aget_aset_ne _ _ _ _ (by decide), aget_aset_ne _ _ _ _ (by decide)]
      exact h1


structure Facts (e : String) : Prop where
  pre : prefixOf e = some (preOf e)
  sel : ∀ n, n ∈ staticNames e ++ allowedDyn e → isSelected (preOf e) n = true →
    (filesOf e).contains (fileOf (preOf e) n) = true ∧ unprefixed (preOf e) n ∈ allowedDyn e ∧
    "pyspark.sql." ++ fileOf (preOf e) n ∈ docSqlKeys ∧
    (n ≠ "functions" → fileOf (preOf e) n ≠ "functions" ∧ unprefixed (preOf e) n ≠ "functions")
  cover : ∀ k, k ∈ docSqlKeys → k = "pyspark.sql" ∨ k = fnKey ∨
    ∃ n, n ∈ staticNames e ∧ isSelected (preOf e) n = true ∧ "pyspark.sql." ++ fileOf (preOf e) n = k
  fnSel : isSelected (preOf e) "functions" = true ∧ fileOf (preOf e) "functions" = "functions"
  fnStatic : "functions" ∉ staticNames e

theorem facts_of (e : String) (he : e ∈ engines) : Facts e := by
  have h := engineFacts_all e he
  unfold engineFacts at h
  simp only [Bool.and_eq_true, List.all_eq_true, Bool.or_eq_true, Bool.not_eq_true', List.any_eq_true,
    beq_iff_eq, bne_iff_ne, ne_eq, List.contains_iff_mem, Option.isSome_iff_exists] at h
  obtain ⟨⟨⟨⟨⟨⟨p, hp⟩, hsel⟩, hcov⟩, hfs⟩, hff⟩, hst⟩ := h
  refine ⟨?_, ?_, ?_, ⟨hfs, hff⟩, ?_⟩
  · unfold preOf; rw [hp]; rfl
  · intro n hn hs
    rcases hsel n hn with h | h
    · rw [hs] at h; cases h
    · obtain ⟨⟨⟨h1, h2⟩, h3⟩, h4⟩ := h
      refine ⟨by simpa [List.contains_iff_mem] using h1, h2, h3, ?_⟩
      intro hne
      rcases h4 with h4 | h4
      · exact absurd h4 hne
      · exact h4
  · intro k hk
    rcases hcov k hk with (h | h) | ⟨n, hn, hs, hk'⟩
    · exact Or.inl h
    · exact Or.inr (Or.inl h)
    · exact Or.inr (Or.inr ⟨n, hn, hs, hk'⟩)
  · simpa using hst


/-! ### activate for a valid engine -/

theorem mods_ensurePkg (st : State) (e : String) : (ensurePkg st e).mods = st.mods := by
  unfold ensurePkg; split <;> rfl

theorem frame_ensurePkg (st : State) (e : String) : Frame st (ensurePkg st e) := by
  unfold ensurePkg; split <;> exact ⟨rfl, rfl, rfl, rfl, rfl, rfl, rfl⟩

/-- the state handed to the loop -/
structure PreLoop (e : String) (st s4 : State) : Prop where
  mods : s4.mods = aset st.mods "pyspark.sql" (.pkg e)
  cur : s4.cur = some e
  ctx : s4.ctx = st.ctx
  other : ∀ e', e ≠ e' → s4.pkg e' = st.pkg e'
  dynNew : ∀ n, n ∈ akeys (s4.pkg e).dyn → n ∈ akeys (st.pkg e).dyn ∨ (n = "functions" ∧ preimportFunctions = true)
  dynMono : ∀ n, n ∈ akeys (st.pkg e).dyn → n ∈ akeys (s4.pkg e).dyn
  canon : (s4.pkg e).canonFn = true → (st.pkg e).canonFn = true ∨ "functions" ∈ akeys (s4.pkg e).dyn
  fnIn : preimportFunctions = true → (filesOf e).contains "functions" = true → (s4.pkg e).canonFn = true

theorem preLoop_exists (e pre : String) (st : State) :
    ∃ s4, activateEngine e pre st = loopRun e pre (s4, []) (pkgDict s4 e) ∧ PreLoop e st s4 := by
  unfold activateEngine
  simp only [setsSql, setsTop, mockSql, if_true, Bool.and_self]
  by_cases hpf : preimportFunctions = true
  · simp only [hpf, if_true]
    obtain ⟨hc, _⟩ := importCanon_spec (ensurePkg st e) e "functions"
    refine ⟨_, rfl, ⟨?_, rfl, ?_, ?_, ?_, ?_, ?_, ?_⟩⟩
    · simp only [hc.mods, mods_ensurePkg]
    · have := hc.frame.2.2.1; simp only [this]; exact (frame_ensurePkg st e).2.2.1
    · intro e' he'
      show (State.pkg _ e') = _
      unfold State.pkg
      simp only
      have := hc.other e' he'
      unfold State.pkg at this
      rw [this]
      have h2 := pkg_ensurePkg st e e'
      unfold State.pkg at h2
      exact h2
    · intro n hn
      have hn' : n ∈ akeys ((importCanon (ensurePkg st e) e "functions").1.pkg e).dyn := hn
      rcases hc.dynNew n hn' with h | ⟨h, _⟩
      · rw [pkg_ensurePkg] at h; exact Or.inl h
      · exact Or.inr ⟨h, hpf⟩
    · intro n hn
      have : n ∈ akeys ((importCanon (ensurePkg st e) e "functions").1.pkg e).dyn :=
        hc.dynMono n (by rw [pkg_ensurePkg]; exact hn)
      exact this
    · intro h
      have h' : ((importCanon (ensurePkg st e) e "functions").1.pkg e).canonFn = true := h
      rcases hc.canon h' with h1 | h1
      · rw [pkg_ensurePkg] at h1; exact Or.inl h1
      · exact Or.inr h1
    · intro _ hf
      exact hc.fnLoaded hf rfl
  · simp only [hpf, Bool.false_eq_true, if_false]
    refine ⟨_, rfl, ⟨?_, rfl, ?_, ?_, ?_, ?_, ?_, ?_⟩⟩
    · simp only [mods_ensurePkg]
    · exact (frame_ensurePkg st e).2.2.1
    · intro e' _
      have h2 := pkg_ensurePkg st e e'
      unfold State.pkg at h2 ⊢
      exact h2
    · intro n hn
      have hn' : n ∈ akeys ((ensurePkg st e).pkg e).dyn := hn
      rw [pkg_ensurePkg] at hn'; exact Or.inl hn'
    · intro n hn
      have : n ∈ akeys ((ensurePkg st e).pkg e).dyn := by rw [pkg_ensurePkg]; exact hn
      exact this
    · intro h
      have h' : ((ensurePkg st e).pkg e).canonFn = true := h
      rw [pkg_ensurePkg] at h'; exact Or.inl h'
    · intro h; exact absurd h hpf


theorem fnKey_eq : "pyspark.sql." ++ "functions" = fnKey := by decide

theorem activateEngine_inv (e : String) (he : e ∈ engines) (st : State) (hI : Inv st) (hF : FnState st) :
    (activateEngine e (preOf e) st).2 = none ∧ Inv (activateEngine e (preOf e) st).1 ∧
    FnState (activateEngine e (preOf e) st).1 ∧ (activateEngine e (preOf e) st).1.ctx = st.ctx ∧
    (activateEngine e (preOf e) st).1.cur = some e ∧
    (∀ k, k ∈ docSqlKeys → (k ≠ fnKey ∨ preimportFunctions = true) →
      (k = "pyspark.sql" ∧ aget (activateEngine e (preOf e) st).1.mods k = some (.pkg e)) ∨
      (∃ f, k = "pyspark.sql." ++ f ∧ aget (activateEngine e (preOf e) st).1.mods k = some (.file e f))) := by
  obtain ⟨s4, heq, hP⟩ := preLoop_exists e (preOf e) st
  rw [heq]
  have F := facts_of e he
  obtain ⟨hpd1, hpd2, hpd3⟩ := pkgDict_names s4 e
  -- attributes of the package when the loop starts
  have hdyn4 : ∀ n, n ∈ akeys (s4.pkg e).dyn → n ∈ allowedDyn e := by
    intro n hn
    rcases hP.dynNew n hn with h | ⟨h, _⟩
    · exact hI.names e he n h
    · rw [h]; exact List.mem_cons_self
  have hnames : ∀ kv ∈ pkgDict s4 e, kv.1 ∈ staticNames e ++ allowedDyn e := by
    intro kv hkv
    rcases hpd1 kv hkv with h | h
    · exact List.mem_append_left _ h
    · exact List.mem_append_right _ (hdyn4 _ h)
  have hfiles : ∀ kv ∈ pkgDict s4 e, isSelected (preOf e) kv.1 = true →
      (filesOf e).contains (fileOf (preOf e) kv.1) = true :=
    fun kv hkv hs => (F.sel kv.1 (hnames kv hkv) hs).1
  have hkeys4 : KeysOk s4 := by
    intro k hk; rw [hP.mods] at hk
    exact keysOk_aset _ _ _ hI.keys (by decide) k hk
  have hL0 : LoopInv e s4 s4 [] :=
    ⟨frame_refl s4, hkeys4, fun f hf => (by cases hf), fun q => Or.inr rfl⟩
  obtain ⟨st', res', hrun, hL, _, hin, hsub, hD⟩ := loopRun_spec e (preOf e) s4 (pkgDict s4 e) s4 [] hL0 hfiles
  rw [hrun]
  simp only
  have hW : ∀ f ∈ res', ∃ kv ∈ pkgDict s4 e, isSelected (preOf e) kv.1 = true ∧ f = fileOf (preOf e) kv.1 := by
    intro f hf
    rcases hsub f hf with h | h
    · cases h
    · exact h
  have hs4 : ∀ q, aget s4.mods q = if "pyspark.sql" = q then some (.pkg e) else aget st.mods q := by
    intro q; rw [hP.mods, aget_aset]
  have hV : ∀ q o, aget st'.mods q = some o →
      (∃ f ∈ res', q = "pyspark.sql." ++ f ∧ o = .file e f) ∨
      ((¬ ∃ f ∈ res', q = "pyspark.sql." ++ f) ∧ aget s4.mods q = some o) := by
    intro q o h
    by_cases hq : ∃ f ∈ res', q = "pyspark.sql." ++ f
    · obtain ⟨f, hf, rfl⟩ := hq
      rw [hL.written f hf] at h; cases h
      exact Or.inl ⟨f, hf, rfl, rfl⟩
    · rcases hL.others q with h' | h'
      · exact absurd h' hq
      · right; exact ⟨hq, by rw [← h']; exact h⟩
  have hfnfile : (filesOf e).contains "functions" = true := by
    have := (F.sel "functions" (List.mem_append_right _ List.mem_cons_self) F.fnSel.1).1
    rw [F.fnSel.2] at this; exact this
  -- every documented key (except possibly functions) is rewritten
  have hCov : ∀ k, k ∈ docSqlKeys → k ≠ "pyspark.sql" → (k ≠ fnKey ∨ "functions" ∈ akeys (s4.pkg e).dyn) →
      ∃ f ∈ res', k = "pyspark.sql." ++ f := by
    intro k hk hne hfn
    rcases F.cover k hk with h | h | ⟨n, hn, hs, hkn⟩
    · exact absurd h hne
    · rcases hfn with h' | h'
      · exact absurd h h'
      · obtain ⟨kv, hkv, hkn⟩ := hpd3 "functions" h'
        have hsel : isSelected (preOf e) kv.1 = true := by rw [hkn]; exact F.fnSel.1
        have := hin kv hkv hsel
        rw [hkn, F.fnSel.2] at this
        exact ⟨"functions", this, by rw [h]; exact fnKey_eq.symm⟩
    · obtain ⟨kv, hkv, hkvn⟩ := hpd2 n hn
      have hsel : isSelected (preOf e) kv.1 = true := by rw [hkvn]; exact hs
      have := hin kv hkv hsel
      rw [hkvn] at this
      exact ⟨_, this, hkn.symm⟩
  -- when is `functions` among the package attributes at loop time?
  have hfnAttr : ∀ o, aget st.mods fnKey = some o → "functions" ∈ akeys (s4.pkg e).dyn := by
    intro o ho
    rcases hF with hpf | ⟨h1, _⟩
    · have hc4 := hP.fnIn hpf hfnfile
      rcases hP.canon hc4 with h | h
      · exact hP.dynMono _ (hI.fnattr e h)
      · exact h
    · rw [h1] at ho; cases ho
  have hcur' : st'.cur = some e := by rw [hL.frame.1]; exact hP.cur
  -- an old entry under a documented key cannot survive unwritten
  have hOld : ∀ q o, q ∈ docSqlKeys → (¬ ∃ f ∈ res', q = "pyspark.sql." ++ f) → aget s4.mods q = some o →
      q = "pyspark.sql" ∧ o = .pkg e := by
    intro q o hq hnw h4
    rw [hs4] at h4
    by_cases hqs : "pyspark.sql" = q
    · rw [if_pos hqs] at h4; cases h4; exact ⟨hqs.symm, rfl⟩
    · rw [if_neg hqs] at h4
      exfalso
      apply hnw
      apply hCov q hq (fun h => hqs h.symm)
      by_cases hqf : q = fnKey
      · right; rw [hqf] at h4; exact hfnAttr o h4
      · exact Or.inl hqf
  have htop : aget st'.mods "pyspark.sql" = some (.pkg e) := by
    rcases hL.others "pyspark.sql" with ⟨f, _, hf⟩ | h
    · exact absurd hf (sqlkey_ne f)
    · rw [h, hs4]; simp
  refine ⟨trivial, ⟨hL.keys, ?_, ?_, ?_, ?_, ?_⟩, ?_, ?_, hcur', ?_⟩
  · -- top
    intro e1 he1
    rw [hcur'] at he1; cases he1
    rcases hL.others "pyspark.sql" with ⟨f, _, hf⟩ | h
    · exact absurd hf (sqlkey_ne f)
    · rw [h, hs4]; simp
  · -- mix
    intro q o h
    rw [hcur']
    rcases hV q o h with ⟨f, _, _, rfl⟩ | ⟨hnw, h4⟩
    · simp [ownedBy, Obj.owner]
    · by_cases hq : q ∈ docSqlKeys
      · obtain ⟨_, rfl⟩ := hOld q o hq hnw h4
        simp [ownedBy, Obj.owner]
      · rw [hs4] at h4
        by_cases hqs : "pyspark.sql" = q
        · exact absurd (hqs ▸ (by decide : "pyspark.sql" ∈ docSqlKeys)) hq
        · rw [if_neg hqs] at h4
          unfold ownedBy
          cases ho : o.owner with
          | some e1 => exact absurd (hI.owned q o h4 (by rw [ho]; rfl)) hq
          | none => simp only; intro hq'; exact absurd hq' hq
  · -- owned
    intro q o h ho
    rcases hV q o h with ⟨f, hf, rfl, rfl⟩ | ⟨_, h4⟩
    · obtain ⟨kv, hkv, hs, rfl⟩ := hW f hf
      exact (F.sel kv.1 (hnames kv hkv) hs).2.2.1
    · rw [hs4] at h4
      by_cases hqs : "pyspark.sql" = q
      · rw [← hqs]; decide
      · rw [if_neg hqs] at h4; exact hI.owned q o h4 ho
  · -- names
    intro e2 he2 n hn
    by_cases h2 : e = e2
    · subst h2
      rcases hD.dynNew n hn with h | ⟨m, hm, hs, hx⟩
      · exact hdyn4 n h
      · obtain ⟨kv, hkv, rfl⟩ := List.mem_map.mp hm
        rcases hx with rfl | ⟨rfl, _⟩
        · exact (F.sel kv.1 (hnames kv hkv) hs).2.1
        · exact List.mem_cons_self
    · rw [hD.other e2 h2, hP.other e2 h2] at hn
      exact hI.names e2 he2 n hn
  · -- fnattr
    intro e2 hc
    by_cases h2 : e = e2
    · subst h2
      rcases hD.canon hc with h | h
      · rcases hP.canon h with h' | h'
        · exact hD.dynMono _ (hP.dynMono _ (hI.fnattr e h'))
        · exact hD.dynMono _ h'
      · exact h
    · rw [hD.other e2 h2, hP.other e2 h2] at hc ⊢
      exact hI.fnattr e2 hc
  · -- FnState
    rcases hF with hpf | ⟨h1, h2⟩
    · exact Or.inl hpf
    · by_cases hpf : preimportFunctions = true
      · exact Or.inl hpf
      · right
        have hno4 : "functions" ∉ akeys (s4.pkg e).dyn := by
          intro h
          rcases hP.dynNew _ h with h' | ⟨_, h'⟩
          · exact h2 e h'
          · exact hpf h'
        have hnoName : ∀ kv ∈ pkgDict s4 e, kv.1 ≠ "functions" := by
          intro kv hkv hk
          rcases hpd1 kv hkv with h | h
          · rw [hk] at h; exact F.fnStatic h
          · rw [hk] at h; exact hno4 h
        refine ⟨?_, ?_⟩
        · cases hg : aget st'.mods fnKey with
          | none => rfl
          | some o =>
            exfalso
            rcases hV fnKey o hg with ⟨f, hf, hk, _⟩ | ⟨_, h4⟩
            · obtain ⟨kv, hkv, hs, rfl⟩ := hW f hf
              have hff : fileOf (preOf e) kv.1 = "functions" := by
                rw [← fnKey_eq] at hk
                exact (append_cancel_left' _ _ _ hk).symm
              exact ((F.sel kv.1 (hnames kv hkv) hs).2.2.2 (hnoName kv hkv)).1 hff
            · rw [hs4, if_neg (by decide)] at h4
              rw [h1] at h4; cases h4
        · intro e2 hn
          by_cases h2e : e = e2
          · subst h2e
            rcases hD.dynNew _ hn with h | ⟨m, hm, hs, hx⟩
            · exact hno4 h
            · obtain ⟨kv, hkv, rfl⟩ := List.mem_map.mp hm
              have hsel := (F.sel kv.1 (hnames kv hkv) hs).2.2.2 (hnoName kv hkv)
              rcases hx with hx | ⟨_, hx⟩
              · exact hsel.2 hx.symm
              · exact hsel.1 hx
          · rw [hD.other e2 h2e, hP.other e2 h2e] at hn
            exact h2 e2 hn
  · rw [hL.frame.2.2.1]; exact hP.ctx
  · -- every documented key is (re)bound to this engine's module
    intro k hk hcase
    by_cases hks : k = "pyspark.sql"
    · exact Or.inl ⟨hks, hks ▸ htop⟩
    · right
      have hfn : k ≠ fnKey ∨ "functions" ∈ akeys (s4.pkg e).dyn := by
        rcases hcase with h | hpf
        · exact Or.inl h
        · right
          have hc4 := hP.fnIn hpf hfnfile
          rcases hP.canon hc4 with h | h
          · exact hP.dynMono _ (hI.fnattr e h)
          · exact h
      obtain ⟨f, hf, hkf⟩ := hCov k hk hks hfn
      exact ⟨f, hkf, hkf ▸ hL.written f hf⟩


theorem activate_inv (env : Env) (eng : Option String) (c : Option Nat) (d : Option String) (st : State)
    (hI : Inv st) (hF : FnState st ∨ eng = none) :
    Inv (activate env eng c d st).1 ∧ (FnState st → FnState (activate env eng c d st).1) ∧
    (activate env eng c d st).1.ctx = st.ctx := by
  obtain ⟨hpI, hpF⟩ := activatePre_inv c d st hI
  have hpc := (activatePre_spec c d st).2.2.2
  unfold activate
  simp only
  cases eng with
  | none => exact ⟨hpI, hpF, hpc⟩
  | some e0 =>
    simp only
    cases hp : prefixOf (lower e0) with
    | none => exact ⟨hpI, hpF, hpc⟩
    | some pre =>
      simp only
      by_cases hb : env.brokenPkgs.contains (lower e0) = true
      · simp only [hb, if_true]; exact ⟨hpI, hpF, hpc⟩
      · simp only [hb, Bool.false_eq_true, if_false]
        have he : lower e0 ∈ engines := aget_mem_keys _ _ _ hp
        have hpre : pre = preOf (lower e0) := by unfold preOf; rw [hp]; rfl
        have hFs : FnState st := by
          rcases hF with h | h
          · exact h
          · cases h
        obtain ⟨_, h2, h3, h4, _, _⟩ := activateEngine_inv (lower e0) he _ hpI (hpF hFs)
        rw [hpre]
        exact ⟨h2, fun _ => h3, h4.trans hpc⟩

theorem isReal_owner (o : Obj) (h : o.isReal = true) : o.owner = none := by
  cases o <;> simp [Obj.isReal] at h <;> rfl

theorem deactivate_inv (env : Env) (hE : EnvOk env) (st : State) (hI : Inv st) :
    Inv (deactivate env st).1 ∧ (deactivate env st).1.ctx = st.ctx ∧
    (FnState st → (preimportFunctions = true ∨ env.real = []) → FnState (deactivate env st).1) := by
  obtain ⟨hk, hr, hpk, hctx, _, _, hcur, _, _, habs⟩ := deactivate_spec env hE st hI.keys
  have hpkg : ∀ e, (deactivate env st).1.pkg e = st.pkg e := fun e => by unfold State.pkg; rw [hpk]
  have hcn : (deactivate env st).1.cur = none := by
    rcases hcur with h | ⟨h1, h2⟩
    · exact h
    · cases hc : st.cur with
      | none => rw [h1, hc]
      | some e => rw [hI.top e hc] at h2; cases h2
  refine ⟨⟨hk, ?_, ?_, ?_, ?_, ?_⟩, hctx, ?_⟩
  · intro e he; rw [hcn] at he; cases he
  · intro k o h
    have hreal := hr k o h
    unfold ownedBy
    rw [isReal_owner o hreal]
    intro _
    exact ⟨hcn, hreal⟩
  · intro k o h ho
    rw [isReal_owner o (hr k o h)] at ho; cases ho
  · intro e he n hn; rw [hpkg] at hn; exact hI.names e he n hn
  · intro e he; rw [hpkg] at he ⊢; exact hI.fnattr e he
  · intro hF hcase
    rcases hF with h | ⟨_, h2⟩
    · exact Or.inl h
    · rcases hcase with h | h
      · exact Or.inl h
      · right
        refine ⟨by rw [habs h]; rfl, fun e => by rw [hpkg]; exact h2 e⟩

/-! ### activate_context -/

theorem runCalls_bare_inv (env : Env) (hE : EnvOk env) (calls : List CtxCall) :
    ∀ st, Inv st → Inv (runCalls env none none none calls st).1 ∧ (runCalls env none none none calls st).1.ctx = st.ctx ∧
      (FnState st → (preimportFunctions = true ∨ env.real = []) → FnState (runCalls env none none none calls st).1) := by
  induction calls with
  | nil => intro st hI; exact ⟨hI, rfl, fun h _ => h⟩
  | cons c rest ih =>
    intro st hI
    simp only [runCalls]
    have hstep : Inv (runCall env none none none c st).1 ∧ (runCall env none none none c st).1.ctx = st.ctx ∧
        (FnState st → (preimportFunctions = true ∨ env.real = []) → FnState (runCall env none none none c st).1) := by
      cases c with
      | activate =>
        obtain ⟨h1, h2, h3⟩ := activate_inv env none none none st hI (Or.inr rfl)
        exact ⟨h1, h3, fun h _ => h2 h⟩
      | deactivate => exact deactivate_inv env hE st hI
    cases hr : runCall env none none none c st with
    | mk st1 r1 =>
      rw [hr] at hstep
      cases r1 with
      | some x => exact hstep
      | none =>
        simp only
        obtain ⟨h1, h2, h3⟩ := ih st1 hstep.1
        exact ⟨h1, h2.trans hstep.2.1, fun hF hc => h3 (hstep.2.2 hF hc) hc⟩

theorem runCalls_inv (env : Env) (hE : EnvOk env) (eng : Option String) (c : Option Nat) (d : Option String)
    (calls : List CtxCall) :
    ∀ st, Inv st → (FnState st ∨ eng = none) → (calls.contains .deactivate = false ∨ preimportFunctions = true ∨ env.real = [] ∨ eng = none) →
      Inv (runCalls env eng c d calls st).1 ∧ (runCalls env eng c d calls st).1.ctx = st.ctx ∧
      (FnState st → (calls.contains .deactivate = false ∨ preimportFunctions = true ∨ env.real = []) →
        FnState (runCalls env eng c d calls st).1) := by
  induction calls with
  | nil => intro st hI _ _; exact ⟨hI, rfl, fun h _ => h⟩
  | cons cl rest ih =>
    intro st hI hF hD
    simp only [runCalls]
    cases cl with
    | activate =>
      obtain ⟨h1, h2, h3⟩ := activate_inv env eng c d st hI hF
      simp only [runCall]
      cases hr : activate env eng c d st with
      | mk st1 r1 =>
        rw [hr] at h1 h2 h3
        cases r1 with
        | some x => exact ⟨h1, h3, fun h _ => h2 h⟩
        | none =>
          simp only
          have hD' : rest.contains .deactivate = false ∨ preimportFunctions = true ∨ env.real = [] ∨ eng = none := by
            rcases hD with h | h
            · left; simpa [List.contains_cons] using h
            · exact Or.inr h
          have hF' : FnState st1 ∨ eng = none := by
            rcases hF with h | h
            · exact Or.inl (h2 h)
            · exact Or.inr h
          obtain ⟨i1, i2, i3⟩ := ih st1 h1 hF' hD'
          refine ⟨i1, i2.trans h3, fun hf hc => i3 (h2 hf) ?_⟩
          rcases hc with h | h
          · left; simpa [List.contains_cons] using h
          · exact Or.inr h
    | deactivate =>
      obtain ⟨h1, h2, h3⟩ := deactivate_inv env hE st hI
      simp only [runCall]
      have hcase : preimportFunctions = true ∨ env.real = [] ∨ eng = none := by
        rcases hD with h | h
        · simp [List.contains_cons] at h
        · exact h
      cases hr : deactivate env st with
      | mk st1 r1 =>
        rw [hr] at h1 h2 h3
        have hFn : FnState st → (preimportFunctions = true ∨ env.real = []) → FnState st1 := h3
        cases r1 with
        | some x =>
          refine ⟨h1, h2, fun hf hc => ?_⟩
          rcases hc with h | h
          · simp [List.contains_cons] at h
          · exact hFn hf h
        | none =>
          simp only
          -- after a deactivate the remaining calls need FnState only when they activate an engine
          have hF' : FnState st1 ∨ eng = none := by
            rcases hcase with h | h | h
            · exact Or.inl (Or.inl h)
            · rcases hF with hf | hf
              · exact Or.inl (hFn hf (Or.inr h))
              · exact Or.inr hf
            · exact Or.inr h
          have hD' : rest.contains .deactivate = false ∨ preimportFunctions = true ∨ env.real = [] ∨ eng = none :=
            Or.inr hcase
          obtain ⟨i1, i2, i3⟩ := ih st1 h1 hF' hD'
          refine ⟨i1, i2.trans h2, fun hf hc => ?_⟩
          rcases hc with h | h
          · simp [List.contains_cons] at h
          · exact i3 (hFn hf h) (Or.inr h)


/-! ### activation-only histories -/

def Event.actOnly : Event → Bool
  | .activate _ _ _ => true
  | .deactivate => true
  | .ctxEnter _ _ _ => true
  | .ctxExit _ => true
  | _ => false

theorem inv_ctx (st : State) (n : Nat) (h : Inv st) : Inv { st with ctx := n } :=
  ⟨h.keys, h.top, h.mix, h.owned, h.names, h.fnattr⟩

theorem fnState_ctx (st : State) (n : Nat) (h : FnState st) : FnState { st with ctx := n } := h

theorem real_nil_of_isEmpty (env : Env) (h : (!env.real.isEmpty) = false) : env.real = [] := by
  cases hr : env.real with
  | nil => rfl
  | cons a b => rw [hr] at h; simp at h

/-- one activation event keeps the invariant; `FnState` survives unless the event may have loaded a real
    `pyspark.sql.functions` -/
theorem step_inv (env : Env) (hE : EnvOk env) (st : State) (ev : Event) (ha : ev.actOnly = true) (hI : Inv st)
    (hF : FnState st ∨ ev.isEngineActivation = false) :
    Inv (step env st ev).1 ∧
    (FnState st → (preimportFunctions = true ∨ ev.touchesFunctions env = false) → FnState (step env st ev).1) := by
  cases ev with
  | userImport f => simp [Event.actOnly] at ha
  | sessionCreate => simp [Event.actOnly] at ha
  | activate eng c d =>
    have hF' : FnState st ∨ eng = none := by
      rcases hF with h | h
      · exact Or.inl h
      · cases eng with
        | none => exact Or.inr rfl
        | some e => simp [Event.isEngineActivation] at h
    obtain ⟨h1, h2, _⟩ := activate_inv env eng c d st hI hF'
    exact ⟨h1, fun hf _ => h2 hf⟩
  | deactivate =>
    obtain ⟨h1, _, h3⟩ := deactivate_inv env hE st hI
    refine ⟨h1, fun hf hc => h3 hf ?_⟩
    rcases hc with h | h
    · exact Or.inl h
    · exact Or.inr (real_nil_of_isEmpty env (by simpa [Event.touchesFunctions] using h))
  | ctxEnter eng c d =>
    have hF' : FnState st ∨ eng = none := by
      rcases hF with h | h
      · exact Or.inl h
      · cases eng with
        | none => exact Or.inr rfl
        | some e => simp [Event.isEngineActivation] at h
    have hpre : ctxIR.pre.contains .deactivate = false := by decide
    obtain ⟨h1, _, h3⟩ := runCalls_inv env hE eng c d ctxIR.pre st hI hF' (Or.inl hpre)
    simp only [step, ctxEnter]
    cases hr : runCalls env eng c d ctxIR.pre st with
    | mk st1 r1 =>
      rw [hr] at h1 h3
      cases r1 with
      | none => exact ⟨inv_ctx _ _ h1, fun hf _ => fnState_ctx _ _ (h3 hf (Or.inl hpre))⟩
      | some x =>
        simp only
        by_cases hpt : ctxIR.preInTry = true
        · simp only [hpt, if_true]
          obtain ⟨i1, _, i3⟩ := runCalls_bare_inv env hE ctxIR.fin st1 h1
          refine ⟨i1, fun hf hc => i3 (h3 hf (Or.inl hpre)) ?_⟩
          rcases hc with h | h
          · exact Or.inl h
          · exact Or.inr (real_nil_of_isEmpty env (by simpa [Event.touchesFunctions, hpt] using h))
        · simp only [hpt, Bool.false_eq_true, if_false]
          exact ⟨h1, fun hf _ => h3 hf (Or.inl hpre)⟩
  | ctxExit k =>
    simp only [step, ctxExit]
    cases hc : st.ctx with
    | zero => exact ⟨hI, fun hf _ => hf⟩
    | succ n =>
      simp only
      have hI0 : Inv { st with ctx := n } := inv_ctx st n hI
      have hcase : ∀ (hcs : preimportFunctions = true ∨ (Event.ctxExit k).touchesFunctions env = false),
          preimportFunctions = true ∨ env.real = [] := by
        intro hcs
        rcases hcs with h | h
        · exact Or.inl h
        · exact Or.inr (real_nil_of_isEmpty env (by simpa [Event.touchesFunctions] using h))
      obtain ⟨a1, _, a3⟩ := runCalls_bare_inv env hE (exitSegment ctxIR k) _ hI0
      obtain ⟨b1, _, b3⟩ := runCalls_bare_inv env hE ctxIR.fin _ a1
      exact ⟨b1, fun hf hcs => b3 (a3 (fnState_ctx st n hf) (hcase hcs)) (hcase hcs)⟩

theorem run_inv (env : Env) (hE : EnvOk env) :
    ∀ (evs : List Event) (st : State), evs.all Event.actOnly = true → Inv st →
      (FnState st ∨ evs.any Event.isEngineActivation = false) →
      (preimportFunctions = true ∨ noActivationAfterFunctions env evs = true) →
      Inv (run env st evs) := by
  intro evs
  induction evs with
  | nil => intro st _ hI _ _; exact hI
  | cons ev rest ih =>
    intro st ha hI hT hH
    simp only [List.all_cons, Bool.and_eq_true] at ha
    have hTev : FnState st ∨ ev.isEngineActivation = false := by
      rcases hT with h | h
      · exact Or.inl h
      · right
        simp only [List.any_cons, Bool.or_eq_false_iff] at h
        exact h.1
    obtain ⟨h1, h2⟩ := step_inv env hE st ev ha.1 hI hTev
    simp only [run]
    apply ih _ ha.2 h1
    · -- the functions-state hypothesis for the rest
      rcases hT with hf | hn
      · rcases hH with hp | hp
        · exact Or.inl (h2 hf (Or.inl hp))
        · simp only [noActivationAfterFunctions, Bool.and_eq_true] at hp
          cases ht : ev.touchesFunctions env with
          | false => exact Or.inl (h2 hf (Or.inr ht))
          | true =>
            right
            have := hp.1
            simp only [ht, if_true, Bool.not_eq_true'] at this
            exact this
      · right
        simp only [List.any_cons, Bool.or_eq_false_iff] at hn
        exact hn.2
    · rcases hH with hp | hp
      · exact Or.inl hp
      · right
        simp only [noActivationAfterFunctions, Bool.and_eq_true] at hp
        exact hp.2


end Sqlframe.C20
