/-
Lemmas/C05Meaning.lean — the tree `build` produces, evaluated with the grouping it has, denotes the
value the user's expression has under three-valued logic (for every configuration whose table names
the right classes and orients the operands the right way).
-/
import SqlframeModel.Impl.C05Engine
namespace Sqlframe.C05
open Sqlframe

theorem evalSql_unaliasS (env : Env) (t : SqlExpr) : evalSql env (unaliasS t) = evalSql env t := by
  cases t <;> simp [unaliasS, evalSql]

theorem evalSql_wrapUnder (cfg : Cfg) (env : Env) (p : String) (t : SqlExpr) :
    evalSql env (wrapUnder cfg p t) = evalSql env t := by
  unfold wrapUnder
  split
  · rfl
  · split <;> simp [evalSql]

theorem evalSql_wrapOperand (cfg : Cfg) (env : Env) (p : String) (t : SqlExpr) :
    evalSql env (wrapOperand cfg p t) = evalSql env t := by
  unfold wrapOperand
  split
  · exact evalSql_wrapUnder cfg env p t
  · rfl

theorem evalSql_subject (cfg : Cfg) (env : Env) (m : Gen.DirectOp) (p : String) (t : SqlExpr) :
    evalSql env (subject cfg m p t) = evalSql env t := by
  unfold subject
  split
  · exact evalSql_wrapUnder cfg env p t
  · rfl

theorem evalSql_bound (cfg : Cfg) (env : Env) (t : SqlExpr) : evalSql env (bound cfg t) = evalSql env t := by
  unfold bound
  cases cfg.betweenBoundsUnalias <;> cases cfg.betweenBoundsWrap <;>
    simp [evalSql_wrapUnder, evalSql_unaliasS]

theorem evalSql_applyBin (cfg : Cfg) (env : Env) (o : Gen.ColOp) (s t : SqlExpr) :
    evalSql env (applyBin cfg o s t) =
      if o.selfFirst then binSemOf o.klass (evalSql env s) (evalSql env t)
      else binSemOf o.klass (evalSql env t) (evalSql env s) := by
  cases h1 : o.paren <;> cases h2 : o.selfFirst <;>
    simp [applyBin, h1, h2, evalSql, evalSql_wrapOperand]

theorem evalSql_applyUn (cfg : Cfg) (env : Env) (o : Gen.ColOp) (s : SqlExpr) :
    evalSql env (applyUn cfg o s) = unSemOf o.klass (evalSql env s) := by
  cases h : cfg.unaryWrapsParen <;> simp [applyUn, h, evalSql]

theorem binSemOf_arith (op : Arith) : binSemOf (arithKlass op) = arithSem op := by cases op <;> rfl
theorem binSemOf_cmp (op : Cmp) : binSemOf (cmpKlass op) = cmpVal op := by cases op <;> rfl
theorem binSemOf_logic (op : Logic) : binSemOf (logicKlass op) = logicSem op := by cases op <;> rfl
theorem castSemOf_idem (ty : String) (v : CVal) : castSemOf ty (castSemOf ty v) = castSemOf ty v := by
  unfold castSemOf
  split
  · cases v <;> simp [castSem]
  · cases v <;> simp [castSem]
  · cases v <;> simp [castSem]
  · rfl

theorem evalSql_mkCast (env : Env) (t : SqlExpr) (ty : String) :
    evalSql env (mkCast t ty) = castSemOf ty (evalSql env t) := by
  unfold mkCast
  split
  · split
    · next h => subst h; simp [evalSql, castSemOf_idem]
    · simp [evalSql]
  · simp [evalSql]

theorem castSemOf_ty (ty : Ty) : castSemOf ty.sqlName = castSem ty := by cases ty <;> rfl

/-- a comparison written with the Python value on the left and mirrored by Python means the same -/
theorem cmpVal_swap (op : Cmp) (a b : CVal) : cmpVal op.swap b a = cmpVal op a b := by
  unfold cmpVal
  cases ltVal a b <;> cases ltVal b a <;> cases op <;> simp [Cmp.swap, Bool.and_comm, Bool.or_comm]

/-! literals -/

theorem evalSql_fnExpr (env : Env) (c : LitCfg) (v : PyVal) : evalSql env (fnExpr c v) = (fnNode c v).value := by
  unfold fnExpr
  split <;> simp [evalSql]

theorem evalSql_litExpr (env : Env) (c : LitCfg) (k : Gen.Coerce) (v : PyVal) :
    evalSql env (litExpr c k v) = (coerceNode c k v).value := by
  cases k <;> simp [litExpr, evalSql, evalSql_fnExpr, coerceNode]

theorem value_of_readsBack {l : LitNode} {v : PyVal} (h : readsBack l v = true) : l.value = pyValue v := by
  simp [readsBack] at h
  simp [LitNode.value, h]

theorem map_value_of_readsBack (f : PyVal → LitNode) (vs : List PyVal)
    (h : vs.all (fun v => readsBack (f v) v) = true) : (vs.map f).map LitNode.value = vs.map pyValue := by
  induction vs with
  | nil => rfl
  | cons v vs ih =>
    simp only [List.all_cons, Bool.and_eq_true] at h
    simp [value_of_readsBack h.1, ih h.2]

/-! facts a good table provides -/

theorem tableOK_arith {cfg : Cfg} (h : tableOK cfg = true) (op : Arith) :
    (cfg.arith op).klass = arithKlass op ∧ (cfg.arith op).selfFirst = true
    ∧ (cfg.rarith op).klass = arithKlass op ∧ (cfg.rarith op).selfFirst = false := by
  simp [tableOK] at h
  cases op <;> simp_all

theorem tableOK_cmp {cfg : Cfg} (h : tableOK cfg = true) (op : Cmp) :
    (cfg.cmp op).klass = cmpKlass op ∧ (cfg.cmp op).selfFirst = true := by
  simp [tableOK] at h
  cases op <;> simp_all

theorem tableOK_logic {cfg : Cfg} (h : tableOK cfg = true) (op : Logic) :
    (cfg.logic op).klass = logicKlass op ∧ (cfg.logic op).selfFirst = true
    ∧ (cfg.rlogic op).klass = logicKlass op ∧ (cfg.rlogic op).selfFirst = false := by
  simp [tableOK] at h
  cases op <;> simp_all

theorem tableOK_misc {cfg : Cfg} (h : tableOK cfg = true) :
    cfg.neg.klass = "Neg" ∧ cfg.inv.klass = "Not" ∧ cfg.eqNullSafe.klass = "NullSafeEQ"
    ∧ cfg.eqNullSafe.selfFirst = true ∧ cfg.like.klass = "Like" ∧ cfg.substr.klass = "Substring" := by
  simp [tableOK] at h
  simp_all

theorem tableOK_strFn {cfg : Cfg} (h : tableOK cfg = true) (f : StrFn) :
    fn2SemOf (cfg.strFn f).klass = strFnSem f := by
  simp [tableOK] at h
  cases f
  · have : (cfg.strFn .startswith).klass = "StartsWith" := by simp_all [strFnKlasses]
    rw [this]; rfl
  · have : (cfg.strFn .endswith).klass = "Anonymous:ENDSWITH" ∨ (cfg.strFn .endswith).klass = "Session:endswith" := by
      simp_all [strFnKlasses]
    rcases this with h' | h' <;> (rw [h']; rfl)
  · have : (cfg.strFn .rlike).klass = "RegexpLike" := by simp_all [strFnKlasses]
    rw [this]; rfl

/-- **meaning**: operand order, grouping and negation scope of the built tree are those of the user's
    expression; every plain Python value means itself as long as the engine reads its literal back (`litAt`) -/
theorem build_meaning (cfg : Cfg) (h : tableOK cfg = true) (env : Env) :
    ∀ e : PyExpr, allNodes (litAt cfg) e = true → evalSql env (build cfg e) = denote env e := by
  intro e
  induction e with
  | col n => intro _; rfl
  | lit v =>
    intro hl; simp only [allNodes, litAt] at hl
    simp [build, denote, evalSql_fnExpr, value_of_readsBack hl]
  | raw s v =>
    intro hl; simp only [allNodes, litAt] at hl
    simp [build, denote, evalSql_litExpr, value_of_readsBack hl]
  | arith op a b iha ihb =>
    intro hl; simp only [allNodes, Bool.and_eq_true] at hl
    obtain ⟨hk, hs, _, _⟩ := tableOK_arith h op
    simp [build, denote, evalSql_applyBin, evalSql_unaliasS, iha hl.1.2, ihb hl.2, hk, hs, binSemOf_arith]
  | arithL op v b ihb =>
    intro hl; simp only [allNodes, Bool.and_eq_true, litAt] at hl
    obtain ⟨_, _, hk, hs⟩ := tableOK_arith h op
    simp [build, denote, evalSql_applyBin, evalSql_unaliasS, ihb hl.2, hk, hs, binSemOf_arith, evalSql, value_of_readsBack hl.1]
  | cmp op a b iha ihb =>
    intro hl; simp only [allNodes, Bool.and_eq_true] at hl
    obtain ⟨hk, hs⟩ := tableOK_cmp h op
    simp [build, denote, evalSql_applyBin, evalSql_unaliasS, iha hl.1.2, ihb hl.2, hk, hs, binSemOf_cmp]
  | cmpL op v b ihb =>
    intro hl; simp only [allNodes, Bool.and_eq_true, litAt] at hl
    obtain ⟨hk, hs⟩ := tableOK_cmp h op.swap
    simp [build, denote, evalSql_applyBin, evalSql_unaliasS, ihb hl.2, hk, hs, binSemOf_cmp, evalSql, cmpVal_swap, value_of_readsBack hl.1]
  | logic op a b iha ihb =>
    intro hl; simp only [allNodes, Bool.and_eq_true] at hl
    obtain ⟨hk, hs, _, _⟩ := tableOK_logic h op
    simp [build, denote, evalSql_applyBin, evalSql_unaliasS, iha hl.1.2, ihb hl.2, hk, hs, binSemOf_logic]
  | logicL op v b ihb =>
    intro hl; simp only [allNodes, Bool.and_eq_true, litAt] at hl
    obtain ⟨_, _, hk, hs⟩ := tableOK_logic h op
    simp [build, denote, evalSql_applyBin, evalSql_unaliasS, ihb hl.2, hk, hs, binSemOf_logic, evalSql, value_of_readsBack hl.1]
  | neg a iha =>
    intro hl; simp only [allNodes, Bool.and_eq_true] at hl
    obtain ⟨hk, _⟩ := tableOK_misc h
    simp [build, denote, evalSql_applyUn, evalSql_unaliasS, iha hl.2, hk, unSemOf]
  | not a iha =>
    intro hl; simp only [allNodes, Bool.and_eq_true] at hl
    obtain ⟨_, hk, _⟩ := tableOK_misc h
    simp [build, denote, evalSql_applyUn, evalSql_unaliasS, iha hl.2, hk, unSemOf]
  | isNull a iha =>
    intro hl; simp only [allNodes, Bool.and_eq_true] at hl
    simp [build, denote, evalSql, evalSql_subject, evalSql_unaliasS, iha hl.2]
  | isNotNull a iha =>
    intro hl; simp only [allNodes, Bool.and_eq_true] at hl
    simp [build, denote, evalSql, evalSql_subject, evalSql_unaliasS, iha hl.2, unSemOf]
  | eqNullSafe a b iha ihb =>
    intro hl; simp only [allNodes, Bool.and_eq_true] at hl
    obtain ⟨_, _, hk, hs, _⟩ := tableOK_misc h
    simp [build, denote, evalSql_applyBin, evalSql_unaliasS, iha hl.1.2, ihb hl.2, hk, hs, binSemOf]
  | isin a vs iha =>
    intro hl; simp only [allNodes, Bool.and_eq_true, litAt] at hl
    simp [build, denote, evalSql, evalSql_subject, evalSql_unaliasS, iha hl.2, map_value_of_readsBack _ vs hl.1]
  | between a lo hi iha ihlo ihhi =>
    intro hl; simp only [allNodes, Bool.and_eq_true] at hl
    simp [build, denote, evalSql, evalSql_subject, evalSql_bound, evalSql_unaliasS, iha hl.1.1.2, ihlo hl.1.2, ihhi hl.2]
  | like a p iha =>
    intro hl; simp only [allNodes, Bool.and_eq_true, litAt] at hl
    obtain ⟨_, _, _, _, hk, _⟩ := tableOK_misc h
    have hp := value_of_readsBack hl.1
    simp only [pyValue] at hp
    simp [build, denote, evalSql, evalSql_subject, evalSql_unaliasS, iha hl.2, hk, binSemOf, hp]
  | strFn f a b iha ihb =>
    intro hl; simp only [allNodes, Bool.and_eq_true] at hl
    simp [build, denote, evalSql, evalSql_unaliasS, iha hl.1.2, ihb hl.2, tableOK_strFn h f]
  | substr a s l iha ihs ihl =>
    intro hl; simp only [allNodes, Bool.and_eq_true] at hl
    obtain ⟨_, _, _, _, _, hk⟩ := tableOK_misc h
    simp [build, denote, evalSql, evalSql_unaliasS, iha hl.1.1.2, ihs hl.1.2, ihl hl.2, hk, fn3SemOf]
  | when c v rest ihc ihv ihr =>
    intro hl; simp only [allNodes, Bool.and_eq_true] at hl
    simp [build, denote, evalSql, evalSql_unaliasS, ihc hl.1.1.2, ihv hl.1.2, ihr hl.2]
  | noElse => intro _; rfl
  | otherwise d ihd =>
    intro hl; simp only [allNodes, Bool.and_eq_true] at hl
    simp [build, denote, evalSql, evalSql_unaliasS, ihd hl.2]
  | cast a ty iha =>
    intro hl; simp only [allNodes, Bool.and_eq_true] at hl
    simp [build, denote, evalSql_mkCast, evalSql_unaliasS, iha hl.2, castSemOf_ty]
  | alias a n iha =>
    intro hl; simp only [allNodes, Bool.and_eq_true] at hl
    simp [build, denote, evalSql, evalSql_unaliasS, iha hl.2]

end Sqlframe.C05
