/-
Lemmas/C05Scope.lean — inside the scope hypotheses, the tree `build` produces is well-parenthesised.
Proved for an arbitrary configuration whose table is right (`tableOK`) and whose arithmetic / `&` / `|`
/ unary entries parenthesise (`parenOK`); the generated configuration is checked against both by `decide`.
-/
import SqlframeModel.Lemmas.C05Parse
import SqlframeModel.Lemmas.C05Meaning
namespace Sqlframe.C05
open Sqlframe

/-- the operand form of a sub-expression: built, alias stripped -/
abbrev opnd (cfg : Cfg) (e : PyExpr) : SqlExpr := unaliasS (build cfg e)

/-! `unalias()` on each node class -/
theorem unaliasS_alias (a : SqlExpr) (n : Name) : unaliasS (.alias a n) = a := rfl
theorem unaliasS_bin (k : String) (a b : SqlExpr) : unaliasS (.bin k a b) = .bin k a b := rfl
theorem unaliasS_un (k : String) (a : SqlExpr) : unaliasS (.un k a) = .un k a := rfl
theorem unaliasS_paren (a : SqlExpr) : unaliasS (.paren a) = .paren a := rfl
theorem unaliasS_isNull (a : SqlExpr) : unaliasS (.isNull a) = .isNull a := rfl
theorem unaliasS_inList (a : SqlExpr) (vs : List LitNode) : unaliasS (.inList a vs) = .inList a vs := rfl
theorem unaliasS_between (a lo hi : SqlExpr) : unaliasS (.between a lo hi) = .between a lo hi := rfl
theorem unaliasS_fn2 (f : String) (a b : SqlExpr) : unaliasS (.fn2 f a b) = .fn2 f a b := rfl
theorem unaliasS_fn3 (f : String) (a b c : SqlExpr) : unaliasS (.fn3 f a b c) = .fn3 f a b c := rfl
theorem unaliasS_caseWhen (c v r : SqlExpr) : unaliasS (.caseWhen c v r) = .caseWhen c v r := rfl
theorem unaliasS_caseElse (d : SqlExpr) : unaliasS (.caseElse d) = .caseElse d := rfl
theorem unaliasS_cast (a : SqlExpr) (ty : String) : unaliasS (.cast a ty) = .cast a ty := rfl

/-- a literal, un-aliased, is a literal leaf -/
theorem unaliasS_fnExpr (c : LitCfg) (v : PyVal) : unaliasS (fnExpr c v) = .lit (fnNode c v) := by
  unfold fnExpr
  split <;> rfl

theorem unaliasS_litExpr (c : LitCfg) (k : Gen.Coerce) (v : PyVal) : unaliasS (litExpr c k v) = .lit (coerceNode c k v) := by
  cases k
  · simp [litExpr, unaliasS]
  · simp [litExpr, unaliasS]
  · simp only [litExpr, coerceNode]; exact unaliasS_fnExpr c v

theorem mkCast_cases (t : SqlExpr) (ty : String) : (∃ a, t = .cast a ty ∧ mkCast t ty = .cast a ty) ∨ mkCast t ty = .cast t ty := by
  unfold mkCast
  split
  · split
    · next a ty' h => subst h; exact Or.inl ⟨a, rfl, rfl⟩
    · exact Or.inr rfl
  · exact Or.inr rfl

theorem unaliasS_mkCast (t : SqlExpr) (ty : String) : unaliasS (mkCast t ty) = mkCast t ty := by
  rcases mkCast_cases t ty with ⟨a, _, h⟩ | h <;> rw [h] <;> rfl

theorem level_mkCast (t : SqlExpr) (ty : String) : level (mkCast t ty) = atomLevel := by
  rcases mkCast_cases t ty with ⟨a, _, h⟩ | h <;> rw [h] <;> rfl

theorem wellParen_mkCast (t : SqlExpr) (ty : String) : wellParen (mkCast t ty) = wellParen t := by
  rcases mkCast_cases t ty with ⟨a, ht, h⟩ | h
  · rw [h, ht]
  · rw [h]; rfl

theorem bExpr_mkCast (t : SqlExpr) (ty : String) : bExpr (mkCast t ty) = true := by
  rcases mkCast_cases t ty with ⟨a, _, h⟩ | h <;> rw [h] <;> rfl

theorem wellParenTop_eq (t : SqlExpr) : wellParenTop t = wellParen (unaliasS t) := by
  cases t <;> rfl

/-! ### shape of what the helpers return -/

theorem unaliasS_applyBin (cfg : Cfg) (o : Gen.ColOp) (s t : SqlExpr) :
    unaliasS (applyBin cfg o s t) = applyBin cfg o s t := by
  cases h1 : o.paren <;> cases h2 : o.selfFirst <;> simp [applyBin, h1, h2, unaliasS]

theorem level_applyBin (cfg : Cfg) (o : Gen.ColOp) (s t : SqlExpr) :
    level (applyBin cfg o s t) = if o.paren then atomLevel else infixLevel o.klass := by
  cases h1 : o.paren <;> cases h2 : o.selfFirst <;> simp [applyBin, h1, h2, level]

theorem rootClass_applyBin (cfg : Cfg) (o : Gen.ColOp) (s t : SqlExpr) (h : o.paren = false) :
    rootClass (applyBin cfg o s t) = o.klass := by
  cases h2 : o.selfFirst <;> simp [applyBin, h, h2, rootClass]

theorem level_wrapUnder_ge (cfg : Cfg) (p : String) (t : SqlExpr) : level t ≤ level (wrapUnder cfg p t) := by
  unfold wrapUnder
  split
  · exact Nat.le_refl _
  · split
    · simpa [level, atomLevel] using level_le t
    · exact Nat.le_refl _

theorem wellParen_wrapUnder (cfg : Cfg) (p : String) (t : SqlExpr) : wellParen (wrapUnder cfg p t) = wellParen t := by
  unfold wrapUnder
  split
  · rfl
  · split <;> simp [wellParen]

/-- under a parent that is not AND/OR, the repaired `_operand` turns every operand whose root is a
    predicate, NOT, AND or OR into an atom -/
theorem level_wrapUnder_atom (cfg : Cfg) (hw : wrapOK cfg = true) (p : String) (hp : isA p "Connector" = false)
    (t : SqlExpr) (ht : isA (rootClass t) "Predicate" = true ∨ isA (rootClass t) "Not" = true ∨ isA (rootClass t) "Connector" = true) :
    level (wrapUnder cfg p t) = atomLevel := by
  simp only [wrapOK, Bool.and_eq_true, beq_iff_eq, List.contains_iff_mem] at hw
  obtain ⟨⟨⟨hs, h1⟩, h2⟩, h3⟩ := hw
  have hany : cfg.wrapClasses.any (isA (rootClass t)) = true := by
    rw [List.any_eq_true]
    rcases ht with h | h | h
    · exact ⟨_, h1, h⟩
    · exact ⟨_, h2, h⟩
    · exact ⟨_, h3, h⟩
  simp [wrapUnder, hs, hp, hany, level]

/-! ### what a built operand looks like -/

theorem infixLevel_arith (op : Arith) : 7 ≤ infixLevel (arithKlass op) := by cases op <;> decide
theorem infixLevel_cmp (op : Cmp) : infixLevel (cmpKlass op) = 5 := by cases op <;> rfl
theorem infixLevel_logic (op : Logic) : 1 ≤ infixLevel (logicKlass op) ∧ infixLevel (logicKlass op) ≤ 2 := by
  cases op <;> decide
theorem isA_arith_conn (op : Arith) : isA (arithKlass op) "Connector" = false := by cases op <;> decide
theorem isA_cmp_conn (op : Cmp) : isA (cmpKlass op) "Connector" = false := by cases op <;> decide
theorem isA_cmp_pred (op : Cmp) : isA (cmpKlass op) "Predicate" = true := by cases op <;> decide
theorem isA_logic_conn (op : Logic) : isA (logicKlass op) "Connector" = true := by cases op <;> decide

theorem parenOK_arith {cfg : Cfg} (h : parenOK cfg = true) (op : Arith) :
    (cfg.arith op).paren = true ∧ (cfg.rarith op).paren = true := by
  simp [parenOK] at h
  cases op <;> simp_all

theorem parenOK_logic {cfg : Cfg} (h : parenOK cfg = true) (op : Logic) : (cfg.logic op).paren = true := by
  simp [parenOK] at h
  cases op <;> simp_all

theorem parenOK_unary {cfg : Cfg} (h : parenOK cfg = true) : cfg.unaryWrapsParen = true := by
  simp [parenOK] at h
  simp_all

/-- every built operand is an atom or unary minus (level ≥ 10), or its root is a predicate, NOT, AND or OR -/
theorem opnd_atom_or_class (cfg : Cfg) (ht : tableOK cfg = true) (hp : parenOK cfg = true) : ∀ e : PyExpr,
    10 ≤ level (opnd cfg e) ∨ isA (rootClass (opnd cfg e)) "Predicate" = true
      ∨ isA (rootClass (opnd cfg e)) "Not" = true ∨ isA (rootClass (opnd cfg e)) "Connector" = true := by
  intro e
  obtain ⟨hneg, hinv, hens, _, hlike, _⟩ := tableOK_misc ht
  induction e with
  | col n => left; simp [opnd, build, unaliasS, level, atomLevel]
  | lit v => left; simp [opnd, build, unaliasS_fnExpr, level, atomLevel]
  | raw s v => left; simp [opnd, build, unaliasS_litExpr, level, atomLevel]
  | arith op a b _ _ =>
    left; simp [opnd, build, unaliasS_applyBin, level_applyBin, (parenOK_arith hp op).1, atomLevel]
  | arithL op v b _ =>
    left; simp [opnd, build, unaliasS_applyBin, level_applyBin, (parenOK_arith hp op).2, atomLevel]
  | cmp op a b _ _ =>
    cases hpar : (cfg.cmp op).paren
    · right; left
      simp [opnd, build, unaliasS_applyBin, rootClass_applyBin _ _ _ _ hpar, (tableOK_cmp ht op).1, isA_cmp_pred]
    · left; simp [opnd, build, unaliasS_applyBin, level_applyBin, hpar, atomLevel]
  | cmpL op v b _ =>
    cases hpar : (cfg.cmp op.swap).paren
    · right; left
      simp [opnd, build, unaliasS_applyBin, rootClass_applyBin _ _ _ _ hpar, (tableOK_cmp ht op.swap).1, isA_cmp_pred]
    · left; simp [opnd, build, unaliasS_applyBin, level_applyBin, hpar, atomLevel]
  | logic op a b _ _ =>
    left; simp [opnd, build, unaliasS_applyBin, level_applyBin, parenOK_logic hp op, atomLevel]
  | logicL op v b _ =>
    cases hpar : (cfg.rlogic op).paren
    · right; right; right
      simp [opnd, build, unaliasS_applyBin, rootClass_applyBin _ _ _ _ hpar, (tableOK_logic ht op).2.2.1, isA_logic_conn]
    · left; simp [opnd, build, unaliasS_applyBin, level_applyBin, hpar, atomLevel]
  | neg a _ => left; simp [opnd, build, applyUn, unaliasS, level, hneg, prefixLevel]
  | not a _ => right; right; left; simp [opnd, build, applyUn, unaliasS, rootClass, hinv, isA]
  | isNull a _ => right; left; simp [opnd, build, unaliasS, rootClass, isA]
  | isNotNull a _ => right; right; left; simp [opnd, build, unaliasS, rootClass, isA]
  | eqNullSafe a b _ _ =>
    cases hpar : cfg.eqNullSafe.paren
    · right; left
      simp [opnd, build, unaliasS_applyBin, rootClass_applyBin _ _ _ _ hpar, hens, isA]
    · left; simp [opnd, build, unaliasS_applyBin, level_applyBin, hpar, atomLevel]
  | isin a vs _ => right; left; simp [opnd, build, unaliasS, rootClass, isA]
  | between a lo hi _ _ _ => right; left; simp [opnd, build, unaliasS, rootClass, isA]
  | like a p _ => right; left; simp [opnd, build, unaliasS, rootClass, hlike, isA]
  | strFn f a b _ _ => left; simp [opnd, build, unaliasS, level, atomLevel]
  | substr a s l _ _ _ => left; simp [opnd, build, unaliasS, level, atomLevel]
  | when c v r _ _ _ => left; simp [opnd, build, unaliasS, level, atomLevel]
  | noElse => left; simp [opnd, build, unaliasS, level, atomLevel]
  | otherwise d _ => left; simp [opnd, build, unaliasS, level, atomLevel]
  | cast a ty _ => left; simp [opnd, build, unaliasS_mkCast, level_mkCast, atomLevel]
  | alias a n iha => simpa [opnd, build, unaliasS] using iha

/-- an operand the user-level predicate `atomicP` accepts renders as an atom or unary minus -/
theorem level_atomicP (cfg : Cfg) (ht : tableOK cfg = true) (hp : parenOK cfg = true) : ∀ e : PyExpr,
    atomicP cfg e = true → 10 ≤ level (opnd cfg e) := by
  intro e
  obtain ⟨hneg, _, _, _, _, _⟩ := tableOK_misc ht
  induction e with
  | col n => intro _; simp [opnd, build, unaliasS, level, atomLevel]
  | lit v => intro _; simp [opnd, build, unaliasS_fnExpr, level, atomLevel]
  | raw s v => intro _; simp [opnd, build, unaliasS_litExpr, level, atomLevel]
  | arith op a b _ _ =>
    intro _; simp [opnd, build, unaliasS_applyBin, level_applyBin, (parenOK_arith hp op).1, atomLevel]
  | arithL op v b _ =>
    intro _; simp [opnd, build, unaliasS_applyBin, level_applyBin, (parenOK_arith hp op).2, atomLevel]
  | cmp op a b _ _ =>
    intro h; simp only [atomicP] at h
    simp [opnd, build, unaliasS_applyBin, level_applyBin, h, atomLevel]
  | cmpL op v b _ =>
    intro h; simp only [atomicP] at h
    simp [opnd, build, unaliasS_applyBin, level_applyBin, h, atomLevel]
  | logic op a b _ _ =>
    intro _; simp [opnd, build, unaliasS_applyBin, level_applyBin, parenOK_logic hp op, atomLevel]
  | logicL op v b _ =>
    intro h; simp only [atomicP] at h
    simp [opnd, build, unaliasS_applyBin, level_applyBin, h, atomLevel]
  | neg a _ => intro _; simp [opnd, build, applyUn, unaliasS, level, hneg, prefixLevel]
  | not a _ => intro h; simp [atomicP] at h
  | isNull a _ => intro h; simp [atomicP] at h
  | isNotNull a _ => intro h; simp [atomicP] at h
  | eqNullSafe a b _ _ =>
    intro h; simp only [atomicP] at h
    simp [opnd, build, unaliasS_applyBin, level_applyBin, h, atomLevel]
  | isin a vs _ => intro h; simp [atomicP] at h
  | between a lo hi _ _ _ => intro h; simp [atomicP] at h
  | like a p _ => intro h; simp [atomicP] at h
  | strFn f a b _ _ => intro _; simp [opnd, build, unaliasS, level, atomLevel]
  | substr a s l _ _ _ => intro _; simp [opnd, build, unaliasS, level, atomLevel]
  | when c v r _ _ _ => intro _; simp [opnd, build, unaliasS, level, atomLevel]
  | noElse => intro _; simp [opnd, build, unaliasS, level, atomLevel]
  | otherwise d _ => intro _; simp [opnd, build, unaliasS, level, atomLevel]
  | cast a ty _ => intro _; simp [opnd, build, unaliasS_mkCast, level_mkCast, atomLevel]
  | alias a n iha => intro h; simp only [atomicP] at h; simpa [opnd, build, unaliasS] using iha h

/-- anything but a bare reflected `&`/`|` binds at least as tightly as NOT -/
theorem level_ge3 (cfg : Cfg) (ht : tableOK cfg = true) (hp : parenOK cfg = true) : ∀ e : PyExpr,
    (((cfg.rlogic .and).paren && (cfg.rlogic .or).paren) = true ∨ notReflected e = true) → 3 ≤ level (opnd cfg e) := by
  intro e
  obtain ⟨hneg, hinv, hens, _, hlike, _⟩ := tableOK_misc ht
  induction e with
  | col n => intro _; simp [opnd, build, unaliasS, level, atomLevel]
  | lit v => intro _; simp [opnd, build, unaliasS_fnExpr, level, atomLevel]
  | raw s v => intro _; simp [opnd, build, unaliasS_litExpr, level, atomLevel]
  | arith op a b _ _ =>
    intro _; simp [opnd, build, unaliasS_applyBin, level_applyBin, (parenOK_arith hp op).1, atomLevel]
  | arithL op v b _ =>
    intro _; simp [opnd, build, unaliasS_applyBin, level_applyBin, (parenOK_arith hp op).2, atomLevel]
  | cmp op a b _ _ =>
    intro _
    cases hpar : (cfg.cmp op).paren <;>
      simp [opnd, build, unaliasS_applyBin, level_applyBin, hpar, atomLevel, (tableOK_cmp ht op).1, infixLevel_cmp]
  | cmpL op v b _ =>
    intro _
    cases hpar : (cfg.cmp op.swap).paren <;>
      simp [opnd, build, unaliasS_applyBin, level_applyBin, hpar, atomLevel, (tableOK_cmp ht op.swap).1, infixLevel_cmp]
  | logic op a b _ _ =>
    intro _; simp [opnd, build, unaliasS_applyBin, level_applyBin, parenOK_logic hp op, atomLevel]
  | logicL op v b _ =>
    intro h
    have hpar : (cfg.rlogic op).paren = true := by
      rcases h with h | h
      · simp only [Bool.and_eq_true] at h; cases op <;> simp [h.1, h.2]
      · simp [notReflected] at h
    simp [opnd, build, unaliasS_applyBin, level_applyBin, hpar, atomLevel]
  | neg a _ => intro _; simp [opnd, build, applyUn, unaliasS, level, hneg, prefixLevel]
  | not a _ => intro _; simp [opnd, build, applyUn, unaliasS, level, hinv, prefixLevel]
  | isNull a _ => intro _; simp [opnd, build, unaliasS, level, isNullLevel]
  | isNotNull a _ => intro _; simp [opnd, build, unaliasS, level, prefixLevel]
  | eqNullSafe a b _ _ =>
    intro _
    cases hpar : cfg.eqNullSafe.paren <;>
      simp [opnd, build, unaliasS_applyBin, level_applyBin, hpar, atomLevel, hens, infixLevel]
  | isin a vs _ => intro _; simp [opnd, build, unaliasS, level, inLevel]
  | between a lo hi _ _ _ => intro _; simp [opnd, build, unaliasS, level, betweenLevel]
  | like a p _ => intro _; simp [opnd, build, unaliasS, level, hlike, infixLevel]
  | strFn f a b _ _ => intro _; simp [opnd, build, unaliasS, level, atomLevel]
  | substr a s l _ _ _ => intro _; simp [opnd, build, unaliasS, level, atomLevel]
  | when c v r _ _ _ => intro _; simp [opnd, build, unaliasS, level, atomLevel]
  | noElse => intro _; simp [opnd, build, unaliasS, level, atomLevel]
  | otherwise d _ => intro _; simp [opnd, build, unaliasS, level, atomLevel]
  | cast a ty _ => intro _; simp [opnd, build, unaliasS_mkCast, level_mkCast, atomLevel]
  | alias a n iha =>
    intro h
    have : ((cfg.rlogic .and).paren && (cfg.rlogic .or).paren) = true ∨ notReflected a = true := by
      rcases h with h | h
      · exact Or.inl h
      · exact Or.inr (by simpa [notReflected] using h)
    simpa [opnd, build, unaliasS] using iha this

theorem bExpr_wrapUnder (cfg : Cfg) (p : String) (t : SqlExpr) (h : bExpr t = true) : bExpr (wrapUnder cfg p t) = true := by
  unfold wrapUnder
  split
  · exact h
  · split
    · rfl
    · exact h

/-- a built operand that is an atom or unary minus is a `b_expr` -/
theorem bExpr_opnd (cfg : Cfg) (ht : tableOK cfg = true) (hp : parenOK cfg = true) : ∀ e : PyExpr,
    10 ≤ level (opnd cfg e) → bExpr (opnd cfg e) = true := by
  intro e
  obtain ⟨hneg, hinv, hens, _, hlike, _⟩ := tableOK_misc ht
  have hun := parenOK_unary hp
  have hbin : ∀ (o : Gen.ColOp) (s t : SqlExpr), infixLevel o.klass ≤ 8 →
      10 ≤ level (applyBin cfg o s t) → bExpr (applyBin cfg o s t) = true := by
    intro o s t hk hl
    cases hpar : o.paren
    · rw [level_applyBin, hpar] at hl; simp at hl; omega
    · cases hsf : o.selfFirst <;> simp [applyBin, hpar, hsf, bExpr]
  induction e with
  | col n => intro _; rfl
  | lit v => intro _; simp [opnd, build, unaliasS_fnExpr, bExpr]
  | raw s v => intro _; simp [opnd, build, unaliasS_litExpr, bExpr]
  | arith op a b _ _ => intro h; simp only [opnd, build, unaliasS_applyBin] at h ⊢; exact hbin _ _ _ (infixLevel_le _) h
  | arithL op v b _ => intro h; simp only [opnd, build, unaliasS_applyBin] at h ⊢; exact hbin _ _ _ (infixLevel_le _) h
  | cmp op a b _ _ => intro h; simp only [opnd, build, unaliasS_applyBin] at h ⊢; exact hbin _ _ _ (infixLevel_le _) h
  | cmpL op v b _ => intro h; simp only [opnd, build, unaliasS_applyBin] at h ⊢; exact hbin _ _ _ (infixLevel_le _) h
  | logic op a b _ _ => intro h; simp only [opnd, build, unaliasS_applyBin] at h ⊢; exact hbin _ _ _ (infixLevel_le _) h
  | logicL op v b _ => intro h; simp only [opnd, build, unaliasS_applyBin] at h ⊢; exact hbin _ _ _ (infixLevel_le _) h
  | eqNullSafe a b _ _ => intro h; simp only [opnd, build, unaliasS_applyBin] at h ⊢; exact hbin _ _ _ (infixLevel_le _) h
  | neg a _ => intro _; simp [opnd, build, applyUn, hun, unaliasS_un, bExpr, hneg]
  | not a _ => intro h; simp [opnd, build, applyUn, unaliasS_un, level, hinv, prefixLevel] at h
  | isNull a _ => intro h; simp [opnd, build, unaliasS_isNull, level, isNullLevel] at h
  | isNotNull a _ => intro h; simp [opnd, build, unaliasS_un, level, prefixLevel] at h
  | isin a vs _ => intro h; simp [opnd, build, unaliasS_inList, level, inLevel] at h
  | between a lo hi _ _ _ => intro h; simp [opnd, build, unaliasS_between, level, betweenLevel] at h
  | like a p _ => intro h; simp [opnd, build, unaliasS_bin, level, hlike, infixLevel] at h
  | strFn f a b _ _ => intro _; rfl
  | substr a s l _ _ _ => intro _; rfl
  | when c v r _ _ _ => intro _; rfl
  | noElse => intro _; rfl
  | otherwise d _ => intro _; rfl
  | cast a ty _ => intro _; simp [opnd, build, unaliasS_mkCast, bExpr_mkCast]
  | alias a n iha => intro h; simp only [opnd, build, unaliasS_alias] at h ⊢; exact iha h

end Sqlframe.C05
