/-
Lemmas/C01Dropna.lean — `dropna` as the composition the real code runs
(select-append of the helper column, where, re-select) equals the null-count filter.
-/
import SqlframeModel.Lemmas.C01Steps
namespace Sqlframe
open Gen

/-- number of NULLs among `sub` in a row -/
def nullCount (cols : List Name) (r : Row) (sub : List Name) : Nat :=
  (sub.filter (fun c => lookup cols r c = .null)).length

theorem nullCount_cons (cols : List Name) (r : Row) (c : Name) (cs : List Name) :
    nullCount cols r (c :: cs) = (if lookup cols r c = .null then 1 else 0) + nullCount cols r cs := by
  simp only [nullCount, List.filter_cons]
  split <;> simp_all <;> omega

theorem iteNull_eval (cols : List Name) (r : Row) (c : Name) :
    eval cols r (.ite (.isNull (.col c)) (.lit (.int 1)) (.lit (.int 0)))
      = .int ((if lookup cols r c = .null then 1 else 0 : Nat) : Int) := by
  simp only [eval, isTrue]
  by_cases h : lookup cols r c = .null <;> simp [h]

/-- the helper column evaluates to the number of NULLs -/
theorem numNulls_eval (cols : List Name) (r : Row) : ∀ sub : List Name,
    eval cols r (numNullsExpr sub) = .int ((nullCount cols r sub : Nat) : Int)
  | [] => by simp [numNullsExpr, eval, nullCount]
  | [c] => by
    rw [numNullsExpr, iteNull_eval, nullCount_cons]
    simp [nullCount]
  | c :: c' :: cs => by
    have ih := numNulls_eval cols r (c' :: cs)
    have e : numNullsExpr (c :: c' :: cs)
        = .bin .add (.ite (.isNull (.col c)) (.lit (.int 1)) (.lit (.int 0))) (numNullsExpr (c' :: cs)) := rfl
    rw [e]
    show binSem .add (eval cols r (.ite (.isNull (.col c)) (.lit (.int 1)) (.lit (.int 0)))) (eval cols r (numNullsExpr (c' :: cs))) = _
    rw [ih, iteNull_eval, nullCount_cons (c := c)]
    simp only [binSem]
    congr 1

theorem numNulls_refs : ∀ sub : List Name, ∀ n ∈ (numNullsExpr sub).refs, n ∈ sub
  | [], n, h => by simp [numNullsExpr, Expr.refs] at h
  | [c], n, h => by simp [numNullsExpr, Expr.refs] at h; simp [h]
  | c :: c' :: cs, n, h => by
    have e : numNullsExpr (c :: c' :: cs)
        = .bin .add (.ite (.isNull (.col c)) (.lit (.int 1)) (.lit (.int 0))) (numNullsExpr (c' :: cs)) := rfl
    rw [e] at h
    simp only [Expr.refs, List.mem_append, List.append_nil] at h
    rcases h with h | h
    · simp at h; simp [h]
    · have := numNulls_refs (c' :: cs) n h
      exact List.mem_cons_of_mem _ this

/-! ### lookups in a row extended by one column -/

theorem lookup_append_old : ∀ (cols : List Name) (r : Row) (x : Name) (v : Val) (c : Name),
    r.length = cols.length → c ∈ cols → lookup (cols ++ [x]) (r ++ [v]) c = lookup cols r c
  | [], _, _, _, _, _, h => by simp at h
  | k :: ks, [], _, _, _, hl, _ => by simp at hl
  | k :: ks, w :: ws, x, v, c, hl, hc => by
    simp only [List.cons_append, lookup]
    by_cases hk : k = c
    · simp [hk]
    · simp only [hk, if_false]
      have hc' : c ∈ ks := by
        simp only [List.mem_cons] at hc
        rcases hc with rfl | hc
        · exact absurd rfl hk
        · exact hc
      exact lookup_append_old ks ws x v c (by simpa using hl) hc'

theorem lookup_append_new : ∀ (cols : List Name) (r : Row) (x : Name) (v : Val),
    r.length = cols.length → x ∉ cols → lookup (cols ++ [x]) (r ++ [v]) x = v
  | [], [], _, _, _, _ => by simp [lookup]
  | [], _ :: _, _, _, h, _ => by simp at h
  | _ :: _, [], _, _, h, _ => by simp at h
  | k :: ks, w :: ws, x, v, hl, hx => by
    have hk : k ≠ x := fun e => hx (by simp [e])
    simp only [List.cons_append, lookup, hk, if_false]
    exact lookup_append_new ks ws x v (by simpa using hl) (fun h => hx (by simp [h]))

/-- the three projections / filters dropna performs, on one row -/
theorem dropna_row (cols : List Name) (r : Row) (sub : List Name) (k : Int)
    (hnd : cols.Nodup) (hl : r.length = cols.length) (hnn : "num_nulls" ∉ cols) :
    let items1 := identSel cols ++ [("num_nulls", numNullsExpr sub)]
    let r1 := items1.map (fun it => eval cols r it.2)
    r1 = r ++ [.int (nullCount cols r sub)] ∧
    isTrue (eval (cols ++ ["num_nulls"]) r1 (.bin .lt (.col "num_nulls") (.lit (.int k))))
      = decide ((nullCount cols r sub : Int) < k) ∧
    (identSel cols).map (fun it => eval (cols ++ ["num_nulls"]) r1 it.2) = r := by
  intro items1 r1
  have h1 : r1 = r ++ [.int (nullCount cols r sub)] := by
    simp only [r1, items1, List.map_append, List.map_cons, List.map_nil]
    rw [ident_row cols r hnd hl, numNulls_eval]
  refine ⟨h1, ?_, ?_⟩
  · rw [h1]
    simp only [eval, lookup_append_new cols r "num_nulls" _ hl hnn, binSem, cmpSem, isTrue]
    simp
  · rw [h1]
    simp only [identSel, List.map_map, Function.comp_def, eval]
    calc cols.map (fun c => lookup (cols ++ ["num_nulls"]) (r ++ [Val.int (nullCount cols r sub)]) c)
        = cols.map (fun c => lookup cols r c) := by
          apply List.map_congr_left
          intro c hc
          exact lookup_append_old cols r _ _ c hl hc
      _ = r := map_lookup_self cols r hnd hl

/-- table level: project ∘ filter ∘ project-with-helper = filter on the null count -/
theorem dropna_table (T : Table) (sub : List Name) (k : Int) (hT : T.WF) (hnn : "num_nulls" ∉ T.cols) :
    (((T.project (identSel T.cols ++ [("num_nulls", numNullsExpr sub)])).filter
        (.bin .lt (.col "num_nulls") (.lit (.int k)))).project (identSel T.cols))
      = { T with rows := T.rows.filter (fun r => decide ((nullCount T.cols r sub : Int) < k)) } := by
  obtain ⟨cols, rows⟩ := T
  simp only [Table.project, Table.filter, List.map_append, List.map_cons, List.map_nil, identSel_names]
  congr 1
  induction rows with
  | nil => simp
  | cons r rs ih =>
    have hr := hT.2 r (by simp)
    have hrs : Table.WF { cols := cols, rows := rs } := ⟨hT.1, fun x hx => hT.2 x (by simp [hx])⟩
    obtain ⟨_, h2, h3⟩ := dropna_row cols r sub k hT.1 hr hnn
    simp only [List.map_cons, List.filter_cons]
    simp only [List.map_append, List.map_cons, List.map_nil] at h2 h3
    rw [h2]
    by_cases hd : decide ((nullCount cols r sub : Int) < k) = true
    · simp only [hd, if_true, List.map_cons]
      rw [h3, ih hrs hnn]
    · have hd' : decide ((nullCount cols r sub : Int) < k) = false := by simpa using hd
      simp only [hd', Bool.false_eq_true, if_false]
      exact ih hrs hnn

end Sqlframe
