/-
Lemmas/C14Options.lean — helper lemmas about Python dictionaries as association lists
(`dictSet`, `dictUpdate`, `mergeBy`, `dictErase`, `lastGet`) and about `toCsvP`, used by the option
theorems of Props/C14.lean.
-/
import SqlframeModel.Impl.C14Options
namespace Sqlframe.C14
open Sqlframe.Gen

/-! ### lookups -/

theorem dictGet_dictSet (d : Opts) (k : String) (v : OptVal) (k' : String) :
    dictGet (dictSet d k v) k' = if k = k' then some v else dictGet d k' := by
  induction d with
  | nil => simp [dictSet, dictGet]
  | cons a r ih =>
    obtain ⟨a, w⟩ := a
    by_cases h : a = k
    · subst h
      simp only [dictSet, if_true, dictGet]
      by_cases h2 : a = k' <;> simp [h2]
    · simp only [dictSet, h, if_false, dictGet, ih]
      by_cases h2 : a = k'
      · subst h2
        have : ¬ k = a := fun e => h e.symm
        simp [this]
      · simp [h2]

theorem dictGet_foldl_set (e : Opts) : ∀ (d : Opts) (k : String),
    dictGet (e.foldl (fun acc kv => dictSet acc kv.1 kv.2) d) k = (lastGet e k).or (dictGet d k) := by
  induction e with
  | nil => intro d k; simp [lastGet]
  | cons a r ih =>
    intro d k
    obtain ⟨a, w⟩ := a
    simp only [List.foldl_cons, ih, dictGet_dictSet, lastGet]
    cases lastGet r k with
    | some x => simp
    | none => by_cases h : a = k <;> simp [h]

theorem dictGet_dictUpdate (d e : Opts) (k : String) :
    dictGet (dictUpdate d e) k = (lastGet e k).or (dictGet d k) := dictGet_foldl_set e d k

theorem lastGet_append (a b : Opts) (k : String) :
    lastGet (a ++ b) k = (lastGet b k).or (lastGet a k) := by
  induction a with
  | nil => simp [lastGet]
  | cons x r ih =>
    obtain ⟨x, w⟩ := x
    simp only [List.cons_append, lastGet, ih]
    cases lastGet b k with
    | some y => simp
    | none =>
      cases lastGet r k with
      | some z => simp
      | none => by_cases h : x = k <;> simp [h]

theorem dictGet_none_of_not_mem (o : Opts) (k : String) (h : k ∉ keys o) : dictGet o k = none := by
  induction o with
  | nil => rfl
  | cons a r ih =>
    obtain ⟨a, w⟩ := a
    simp only [keys, List.map_cons, List.mem_cons, not_or] at h
    have h1 : ¬ a = k := fun e => h.1 e.symm
    simp only [dictGet, h1, if_false]
    exact ih h.2

theorem lastGet_none_of_not_mem (o : Opts) (k : String) (h : k ∉ keys o) : lastGet o k = none := by
  induction o with
  | nil => rfl
  | cons a r ih =>
    obtain ⟨a, w⟩ := a
    simp only [keys, List.map_cons, List.mem_cons, not_or] at h
    have h1 : ¬ a = k := fun e => h.1 e.symm
    simp only [lastGet, ih h.2, h1, if_false]

theorem lastGet_eq_dictGet (o : Opts) (k : String) (h : (keys o).Nodup) : lastGet o k = dictGet o k := by
  induction o with
  | nil => rfl
  | cons a r ih =>
    obtain ⟨a, w⟩ := a
    simp only [keys, List.map_cons, List.nodup_cons] at h
    simp only [lastGet, dictGet, ih h.2]
    by_cases h1 : a = k
    · subst h1
      simp [dictGet_none_of_not_mem r a h.1]
    · simp only [h1, if_false]
      cases dictGet r k <;> rfl

theorem mem_iff_dictGet (o : Opts) (k : String) (v : OptVal) (h : (keys o).Nodup) :
    (k, v) ∈ o ↔ dictGet o k = some v := by
  induction o with
  | nil => simp [dictGet]
  | cons a r ih =>
    obtain ⟨a, w⟩ := a
    simp only [keys, List.map_cons, List.nodup_cons] at h
    simp only [List.mem_cons, Prod.mk.injEq, dictGet, ih h.2]
    by_cases h1 : a = k
    · subst h1
      simp only [if_true, Option.some.injEq, true_and]
      constructor
      · rintro (h2 | h2)
        · exact h2.symm
        · rw [dictGet_none_of_not_mem r a h.1] at h2; cases h2
      · intro h2; exact Or.inl h2.symm
    · simp only [h1, if_false]
      constructor
      · rintro (h2 | h2)
        · exact absurd h2.1.symm h1
        · exact h2
      · intro h2; exact Or.inr h2

/-! ### keys stay unique -/

theorem keys_dictSet (d : Opts) (k : String) (v : OptVal) :
    keys (dictSet d k v) = if k ∈ keys d then keys d else keys d ++ [k] := by
  induction d with
  | nil => simp [dictSet, keys]
  | cons a r ih =>
    obtain ⟨a, w⟩ := a
    by_cases h : a = k
    · subst h; simp [dictSet, keys]
    · have h' : ¬ k = a := fun e => h e.symm
      simp only [dictSet, h, if_false, keys, List.map_cons, List.mem_cons, h', false_or] at ih ⊢
      rw [ih]
      by_cases h2 : k ∈ List.map (fun x => x.1) r <;> simp [h2]

theorem nodup_dictSet (d : Opts) (k : String) (v : OptVal) (h : (keys d).Nodup) : (keys (dictSet d k v)).Nodup := by
  rw [keys_dictSet]
  by_cases h2 : k ∈ keys d
  · simp [h2, h]
  · simp only [h2, if_false]
    rw [List.nodup_append]
    refine ⟨h, by simp, ?_⟩
    intro a ha b hb
    simp only [List.mem_singleton] at hb
    subst hb
    intro e; subst e; exact h2 ha

theorem nodup_foldl_set (e : Opts) : ∀ (d : Opts), (keys d).Nodup →
    (keys (e.foldl (fun acc kv => dictSet acc kv.1 kv.2) d)).Nodup := by
  induction e with
  | nil => intro d h; exact h
  | cons a r ih => intro d h; exact ih _ (nodup_dictSet d a.1 a.2 h)

theorem nodup_mergeBy_aux (order : List OptSrc) (st c : Opts) : ∀ (acc : Opts), (keys acc).Nodup →
    (keys (order.foldl (fun acc s => dictUpdate acc (match s with | .state => st | .call => c)) acc)).Nodup := by
  induction order with
  | nil => intro acc h; exact h
  | cons s r ih => intro acc h; exact ih _ (nodup_foldl_set _ acc h)

theorem nodup_mergeBy (order : List OptSrc) (st c : Opts) : (keys (mergeBy order st c)).Nodup :=
  nodup_mergeBy_aux order st c [] (by simp [keys])

theorem nodup_filter (o : Opts) (q : String × OptVal → Bool) (h : (keys o).Nodup) : (keys (o.filter q)).Nodup := by
  have : List.Sublist (keys (o.filter q)) (keys o) := List.Sublist.map _ (List.filter_sublist)
  exact List.Nodup.sublist this h

theorem nodup_foldl_erase (pops : List String) : ∀ (d : Opts), (keys d).Nodup → (keys (pops.foldl dictErase d)).Nodup := by
  induction pops with
  | nil => intro d h; exact h
  | cons p r ih => intro d h; exact ih _ (nodup_filter d _ h)

/-! ### erase, filter -/

theorem dictGet_filter_key (d : Opts) (p k : String) (h : p ≠ k) : dictGet (dictErase d p) k = dictGet d k := by
  induction d with
  | nil => rfl
  | cons a r ih =>
    obtain ⟨a, w⟩ := a
    simp only [dictErase, List.filter_cons] at ih ⊢
    by_cases h1 : a = p
    · subst h1
      simp only [bne_self_eq_false, Bool.false_eq_true, if_false, dictGet, h]
      exact ih
    · have : (a != p) = true := by simp [h1]
      simp only [this, if_true, dictGet, ih]

theorem dictGet_foldl_erase (pops : List String) (k : String) (h : k ∉ pops) : ∀ (d : Opts),
    dictGet (pops.foldl dictErase d) k = dictGet d k := by
  induction pops with
  | nil => intro d; rfl
  | cons p r ih =>
    intro d
    simp only [List.mem_cons, not_or] at h
    simp only [List.foldl_cons, ih h.2]
    exact dictGet_filter_key d p k (fun e => h.1 e.symm)

/-- filtering a dictionary by value -/
theorem dictGet_filter_val (o : Opts) (q : OptVal → Bool) (k : String) (h : (keys o).Nodup) :
    dictGet (o.filter (fun e => q e.2)) k = (dictGet o k).filter q := by
  induction o with
  | nil => rfl
  | cons a r ih =>
    obtain ⟨a, w⟩ := a
    simp only [keys, List.map_cons, List.nodup_cons] at h
    simp only [List.filter_cons]
    by_cases h1 : a = k
    · subst h1
      by_cases hq : q w = true
      · simp [hq, dictGet, Option.filter]
      · have hq' : q w = false := by simpa using hq
        simp only [hq', Bool.false_eq_true, if_false, dictGet, if_true, Option.filter]
        rw [ih h.2, dictGet_none_of_not_mem r a h.1]
        rfl
    · by_cases hq : q w = true
      · simp [hq, dictGet, h1, ih h.2]
      · have hq' : q w = false := by simpa using hq
        simp [hq', dictGet, h1, ih h.2]

/-! ### to_csv -/

theorem mem_toCsvP (keep : OptVal → Bool) (o : Opts) (k s : String) :
    (k, s) ∈ toCsvP keep o ↔ ∃ v, (k, v) ∈ o ∧ keep v = true ∧ s = v.pyStr := by
  simp only [toCsvP, List.mem_map, List.mem_filter, Prod.mk.injEq]
  constructor
  · rintro ⟨⟨a, w⟩, ⟨hm, hk⟩, h1, h2⟩
    simp only at h1 h2 hk
    subst h1
    exact ⟨w, hm, hk, h2.symm⟩
  · rintro ⟨v, hm, hk, hs⟩
    exact ⟨(k, v), ⟨hm, hk⟩, rfl, hs.symm⟩

/-- a dictionary rendered by `to_csv` with the filter `v is not None` -/
theorem mem_toCsvP_dict (keep : OptVal → Bool) (hkeep : ∀ v, keep v = !v.isNone) (o : Opts) (h : (keys o).Nodup) (k s : String) :
    (k, s) ∈ toCsvP keep o ↔ (optLookup o k).isNone = false ∧ s = (optLookup o k).pyStr := by
  rw [mem_toCsvP]
  constructor
  · rintro ⟨v, hm, hk, hs⟩
    rw [mem_iff_dictGet o k v h] at hm
    rw [hkeep] at hk
    simp only [optLookup, hm, Option.getD_some]
    exact ⟨by simpa using hk, hs⟩
  · rintro ⟨h1, h2⟩
    cases hg : dictGet o k with
    | none => simp [optLookup, hg, OptVal.isNone] at h1
    | some v =>
      simp only [optLookup, hg, Option.getD_some] at h1 h2
      exact ⟨v, (mem_iff_dictGet o k v h).2 hg, by rw [hkeep, h1]; rfl, h2⟩

/-! ### forwarding tables -/

/-- a forwarding table whose every entry passes a parameter under its own name -/
def selfForward (c : List (String × WArg)) : Prop := ∀ e ∈ c, e.2 = WArg.param e.1

theorem writerOptionsP_cons_param (a : String) (r : List (String × WArg)) (named : Opts) :
    writerOptionsP ((a, WArg.param a) :: r) named = (a, optLookup named a) :: writerOptionsP r named := rfl

theorem lastGet_forward (c : List (String × WArg)) (hc : selfForward c) (named : Opts) (q : OptVal → Bool) (k : String) :
    lastGet ((writerOptionsP c named).filter (fun e => q e.2)) k =
      if k ∈ c.map (·.1) ∧ q (optLookup named k) = true then some (optLookup named k) else none := by
  induction c with
  | nil => simp [writerOptionsP, lastGet]
  | cons a r ih =>
    obtain ⟨a, w⟩ := a
    have hw : w = WArg.param a := hc (a, w) (by simp)
    subst hw
    have hr : selfForward r := fun e he => hc e (by simp [he])
    have ih := ih hr
    rw [writerOptionsP_cons_param, List.filter_cons]
    simp only [List.map_cons, List.mem_cons]
    by_cases hk : k = a
    · subst hk
      by_cases hq : q (optLookup named k) = true
      · simp only [hq, if_true, lastGet, ih, and_true, true_or]
        by_cases hm : k ∈ List.map (fun x => x.1) r <;> simp [hm]
      · have hq' : q (optLookup named k) = false := by simpa using hq
        simp [hq', ih]
    · have hk' : ¬ a = k := fun e => hk e.symm
      by_cases hq : q (optLookup named a) = true
      · simp only [hq, if_true, lastGet, ih, hk, false_or, hk', if_false]
        by_cases hm : (k ∈ List.map (fun x => x.1) r ∧ q (optLookup named k) = true)
        · simp only [hm, and_self, if_true]
        · simp only [hm, if_false]
      · have hq' : q (optLookup named a) = false := by simpa using hq
        simp only [hq', Bool.false_eq_true, if_false, ih, hk, false_or]

/-! ### the writer's option list, for any forwarding table that passes `callOk` -/

theorem writer_options_generic (fmt : String) (params : List String) (call : List (String × WArg))
    (keep : OptVal → Bool) (hkeep : ∀ v, keep v = !v.isNone) (hok : callOk fmt params call = true)
    (named : Opts) (k s : String) :
    (k, s) ∈ writerRenderedP keep call named ↔
      (k = "format" ∧ s = fmt) ∨
      (k ∈ params ∧ (optLookup named k).isNone = false ∧ s = (optLookup named k).pyStr) := by
  simp only [callOk, Bool.and_eq_true, List.all_eq_true, Bool.or_eq_true, beq_iff_eq, List.contains_iff_mem,
    Bool.not_eq_true', ] at hok
  obtain ⟨⟨⟨hall, hfmt⟩, hpar⟩, hnf⟩ := hok
  have hnf' : "format" ∉ params := by
    intro h
    have := List.contains_iff_mem.2 h
    rw [hnf] at this; cases this
  rw [writerRenderedP, mem_toCsvP]
  constructor
  · rintro ⟨v, hm, hk, hs⟩
    simp only [writerOptionsP, List.mem_map, Prod.mk.injEq] at hm
    obtain ⟨e, he, h1, h2⟩ := hm
    rcases hall e he with h | ⟨hp, hq⟩
    · subst h
      simp only [evalArg] at h1 h2
      subst h1; subst h2
      exact Or.inl ⟨rfl, hs⟩
    · obtain ⟨e1, e2⟩ := e
      simp only at h1 h2 hp hq
      subst h1; subst hq
      simp only [evalArg] at h2
      subst h2
      rw [hkeep] at hk
      exact Or.inr ⟨hp, by simpa using hk, hs⟩
  · rintro (⟨h1, h2⟩ | ⟨h1, h2, h3⟩)
    · subst h1; subst h2
      refine ⟨.str s, ?_, by rw [hkeep]; rfl, rfl⟩
      simp only [writerOptionsP, List.mem_map, Prod.mk.injEq]
      exact ⟨("format", WArg.lit s), hfmt, rfl, rfl⟩
    · refine ⟨optLookup named k, ?_, by rw [hkeep, h2]; rfl, h3⟩
      simp only [writerOptionsP, List.mem_map, Prod.mk.injEq]
      exact ⟨(k, WArg.param k), hpar k h1, rfl, rfl⟩

theorem mem_specWriterOpts (fmt : String) (params : List String) (named : Opts) (k s : String) :
    (k, s) ∈ toCsvP (fun _ => true) (specWriterOpts fmt params named) ↔
      (k = "format" ∧ s = fmt) ∨
      (k ∈ params ∧ (optLookup named k).isNone = false ∧ s = (optLookup named k).pyStr) := by
  rw [mem_toCsvP]
  simp only [specWriterOpts, List.mem_cons, Prod.mk.injEq, List.mem_map, List.mem_filter, Bool.not_eq_true', true_and]
  constructor
  · rintro ⟨v, (⟨h1, h2⟩ | ⟨p, ⟨hp, hn⟩, h1, h2⟩), hs⟩
    · subst h1; subst h2; exact Or.inl ⟨rfl, hs⟩
    · subst h1; subst h2; exact Or.inr ⟨hp, hn, hs⟩
  · rintro (⟨h1, h2⟩ | ⟨h1, h2, h3⟩)
    · exact ⟨.str fmt, Or.inl ⟨h1, rfl⟩, by rw [h2]; rfl⟩
    · exact ⟨optLookup named k, Or.inr ⟨k, ⟨h1, h2⟩, rfl, rfl⟩, h3⟩

/-! ### the reader's option dictionary, for any flags that pass `RFlagsOk` -/

theorem or_or_self {α} (a b : Option α) : (a.or b).or b = a.or b := by
  cases a <;> cases b <;> rfl

theorem dictGet_mergeBy_sc (st c : Opts) (k : String) :
    dictGet (mergeBy [.state, .call] st c) k = (lastGet c k).or (lastGet st k) := by
  simp only [mergeBy, List.foldl_cons, List.foldl_nil, dictGet_dictUpdate, dictGet, Option.or_none]

structure RFlagsOk (fl : RFlags) (params : List String) : Prop where
  front : fl.frontMerge = [.state, .call]
  load : fl.loadMerge = [.state, .call]
  keeps : ∀ v, fl.keeps v = !v.isNone
  call : ∀ c, fl.call = some c → selfForward c ∧ ∀ p ∈ params, p ∈ c.map (·.1)

/-- the arguments of one read call as Python accepts them: distinct keywords, no explicit None, and (for
    front ends with a fixed signature) only parameters of the signature -/
structure NamedOk (fl : RFlags) (params : List String) (via : Via) (named : Opts) : Prop where
  nodup : (keys named).Nodup
  noNone : ∀ e ∈ named, e.2.isNone = false
  known : via = .method → fl.call.isSome = true → ∀ k ∈ keys named, k ∈ params

theorem dictGet_named_notNone (named : Opts) (hn : (keys named).Nodup) (hnn : ∀ e ∈ named, e.2.isNone = false)
    (k : String) (v : OptVal) (h : dictGet named k = some v) : v.isNone = false :=
  hnn (k, v) ((mem_iff_dictGet named k v hn).2 h)

theorem mem_keys_of_dictGet (o : Opts) (k : String) (v : OptVal) (h : dictGet o k = some v) : k ∈ keys o := by
  apply Classical.byContradiction
  intro hn
  rw [dictGet_none_of_not_mem o k hn] at h
  cases h

theorem front_lookup (fl : RFlags) (params : List String) (hok : RFlagsOk fl params) (state named : Opts)
    (hs : (keys state).Nodup) (hn : (keys named).Nodup) (hnn : ∀ e ∈ named, e.2.isNone = false)
    (hknown : fl.call.isSome = true → ∀ k ∈ keys named, k ∈ params) (k : String) :
    dictGet (frontOptions fl state named) k = (dictGet named k).or (dictGet state k) := by
  simp only [frontOptions, hok.front, dictGet_mergeBy_sc, lastGet_eq_dictGet state k hs]
  congr 1
  cases hc : fl.call with
  | none =>
    simp only
    rw [lastGet_eq_dictGet _ _ (nodup_filter named _ hn), dictGet_filter_val named fl.keeps k hn]
    cases hg : dictGet named k with
    | none => rfl
    | some v => simp [Option.filter, hok.keeps, dictGet_named_notNone named hn hnn k v hg]
  | some c =>
    obtain ⟨hsf, hpar⟩ := hok.call c hc
    simp only
    rw [lastGet_forward c hsf named fl.keeps k, hok.keeps]
    cases hg : dictGet named k with
    | none => simp [optLookup, hg, OptVal.isNone]
    | some v =>
      have h1 : k ∈ c.map (·.1) := hpar k (hknown (by simp [hc]) k (mem_keys_of_dictGet named k v hg))
      have h2 := dictGet_named_notNone named hn hnn k v hg
      simp [optLookup, hg, h1, h2]

theorem nodup_loadPass (fl : RFlags) (cols : Option String) (state options : Opts) :
    (keys (loadPass fl cols state options)).Nodup := by
  unfold loadPass
  apply nodup_foldl_erase
  cases cols with
  | none => exact nodup_mergeBy _ _ _
  | some c =>
    simp only
    split
    · exact nodup_dictSet _ _ _ (nodup_mergeBy _ _ _)
    · exact nodup_mergeBy _ _ _

theorem loadPass_lookup (fl : RFlags) (hl : fl.loadMerge = [.state, .call]) (cols : Option String) (state options : Opts)
    (hs : (keys state).Nodup) (k : String) (hk : k ∉ fl.pops) (hc : k ≠ "columns") :
    dictGet (loadPass fl cols state options) k = (lastGet options k).or (dictGet state k) := by
  unfold loadPass
  rw [dictGet_foldl_erase fl.pops k hk]
  have hm : dictGet (mergeBy fl.loadMerge state options) k = (lastGet options k).or (dictGet state k) := by
    rw [hl, dictGet_mergeBy_sc, lastGet_eq_dictGet state k hs]
  cases cols with
  | none => exact hm
  | some c =>
    simp only
    split
    · rw [dictGet_dictSet]
      have : ¬ "columns" = k := fun e => hc e.symm
      simp only [this, if_false]
      exact hm
    · exact hm

theorem nodup_frontOptions (fl : RFlags) (state named : Opts) : (keys (frontOptions fl state named)).Nodup :=
  nodup_mergeBy _ _ _

theorem nodup_readerFinalP (fl : RFlags) (via : Via) (state named : Opts) (sc : Option String) (inferred : String) :
    (keys (readerFinalP fl via state named sc inferred)).Nodup := by
  unfold readerFinalP
  cases sc with
  | some c => exact nodup_loadPass _ _ _ _
  | none =>
    simp only
    split
    · exact nodup_loadPass _ _ _ _
    · exact nodup_loadPass _ _ _ _

theorem readerFinal_lookup (fl : RFlags) (params : List String) (hok : RFlagsOk fl params) (via : Via) (state named : Opts)
    (hs : (keys state).Nodup) (hnamed : NamedOk fl params via named)
    (sc : Option String) (inferred : String) (k : String) (hk : k ∉ fl.pops) (hc : k ≠ "columns") :
    dictGet (readerFinalP fl via state named sc inferred) k = (dictGet named k).or (dictGet state k) := by
  have hopt : (lastGet (loadOptionsOf fl via state named) k).or (dictGet state k) = (dictGet named k).or (dictGet state k) := by
    cases via with
    | method =>
      simp only [loadOptionsOf]
      rw [lastGet_eq_dictGet _ _ (nodup_frontOptions fl state named),
        front_lookup fl params hok state named hs hnamed.nodup hnamed.noNone (hnamed.known rfl) k, or_or_self]
    | load =>
      simp only [loadOptionsOf]
      rw [lastGet_eq_dictGet _ _ hnamed.nodup]
  unfold readerFinalP
  cases sc with
  | some c =>
    simp only
    rw [loadPass_lookup fl hok.load _ state _ hs k hk hc]
    exact hopt
  | none =>
    simp only
    have hfirst := loadPass_lookup fl hok.load none state (loadOptionsOf fl via state named) hs k hk hc
    rw [hopt] at hfirst
    split
    · rw [loadPass_lookup fl hok.load _ state _ hs k hk hc,
        lastGet_eq_dictGet _ _ (nodup_loadPass fl none state _), hfirst, or_or_self]
    · exact hfirst

/-! ### the reader's stored options -/

theorem readerState_aux (calls : List RCall) : ∀ (acc : Opts), (keys acc).Nodup → ∀ k,
    (keys (calls.foldl (applyRCallP [.state, .call]) acc)).Nodup ∧
    dictGet (calls.foldl (applyRCallP [.state, .call]) acc) k = (lastGet (flatCalls calls) k).or (dictGet acc k) := by
  induction calls with
  | nil => intro acc h k; exact ⟨h, by simp [flatCalls, lastGet]⟩
  | cons c r ih =>
    intro acc h k
    cases c with
    | option k' v =>
      have h' := nodup_dictSet acc k' v h
      obtain ⟨h1, h2⟩ := ih (dictSet acc k' v) h' k
      refine ⟨h1, ?_⟩
      simp only [List.foldl_cons, applyRCallP] at h2 ⊢
      rw [h2, dictGet_dictSet, flatCalls, lastGet]
      cases lastGet (flatCalls r) k with
      | some x => simp
      | none => by_cases hh : k' = k <;> simp [hh]
    | options kv =>
      have h' : (keys (mergeBy [.state, .call] acc kv)).Nodup := nodup_mergeBy _ _ _
      obtain ⟨h1, h2⟩ := ih (mergeBy [.state, .call] acc kv) h' k
      refine ⟨h1, ?_⟩
      simp only [List.foldl_cons, applyRCallP] at h2 ⊢
      rw [h2, dictGet_mergeBy_sc, lastGet_eq_dictGet acc k h, flatCalls, lastGet_append]
      cases lastGet (flatCalls r) k <;> simp

theorem readerState_lookup (calls : List RCall) (k : String) :
    (keys (readerStateP [.state, .call] calls)).Nodup ∧
    dictGet (readerStateP [.state, .call] calls) k = lastGet (flatCalls calls) k := by
  obtain ⟨h1, h2⟩ := readerState_aux calls [] (by simp [keys]) k
  exact ⟨h1, by simpa [readerStateP, dictGet] using h2⟩

/-! ### the specification's option list -/

theorem mem_dedupKeys (l : List String) (k : String) : k ∈ dedupKeys l ↔ k ∈ l := by
  induction l with
  | nil => simp [dedupKeys]
  | cons a r ih =>
    simp only [dedupKeys, List.mem_cons, List.mem_filter, ih, bne_iff_ne, ne_eq]
    by_cases h : k = a <;> simp [h]

theorem specReaderVal_none_of_not_mem (calls : List RCall) (named : Opts) (k : String)
    (h1 : k ∉ keys (flatCalls calls)) (h2 : k ∉ keys named) : specReaderVal calls named k = .none := by
  simp [specReaderVal, optLookup, lastSet, dictGet_none_of_not_mem named k h2, lastGet_none_of_not_mem _ k h1]

theorem mem_specReaderOpts (pops : List String) (columns : Bool) (calls : List RCall) (named : Opts) (sc : Option String)
    (k : String) (v : OptVal) (hk : k ∉ pops) (hc : k ≠ "columns") :
    (k, v) ∈ specReaderOpts pops columns calls named sc ↔ specReaderVal calls named k = v ∧ v.isNone = false := by
  have hbase : (k, v) ∈ ((((dedupKeys (keys (flatCalls calls) ++ keys named)).filter
      (fun k => !pops.contains k && k != "columns")).map (fun k => (k, specReaderVal calls named k))).filter
        (fun e => !e.2.isNone)) ↔ specReaderVal calls named k = v ∧ v.isNone = false := by
    simp only [List.mem_filter, List.mem_map, Prod.mk.injEq, mem_dedupKeys, List.mem_append, Bool.and_eq_true,
      Bool.not_eq_true', bne_iff_ne, ne_eq]
    constructor
    · rintro ⟨⟨k', _, h1, h2⟩, h3⟩
      subst h1
      exact ⟨h2, h3⟩
    · rintro ⟨h1, h2⟩
      refine ⟨⟨k, ⟨?_, ?_, hc⟩, rfl, h1⟩, h2⟩
      · apply Classical.byContradiction
        intro hn
        simp only [not_or] at hn
        rw [specReaderVal_none_of_not_mem calls named k hn.1 hn.2] at h1
        subst h1
        simp [OptVal.isNone] at h2
      · cases hcon : pops.contains k with
        | false => rfl
        | true => exact absurd (List.contains_iff_mem.1 hcon) hk
  unfold specReaderOpts
  simp only
  cases sc with
  | none => exact hbase
  | some c =>
    simp only
    split
    · rw [List.mem_append]
      constructor
      · rintro (h | h)
        · exact hbase.1 h
        · simp only [List.mem_singleton, Prod.mk.injEq] at h
          exact absurd h.1 hc
      · intro h; exact Or.inl (hbase.2 h)
    · exact hbase

/-- `columns` is rendered for a csv read with a schema -/
theorem loadPass_columns (fl : RFlags) (c : String) (state options : Opts) (hcol : fl.columns = true)
    (hp : "columns" ∉ fl.pops) : dictGet (loadPass fl (some c) state options) "columns" = some (.str c) := by
  unfold loadPass
  rw [dictGet_foldl_erase fl.pops "columns" hp]
  simp [hcol, dictGet_dictSet]

end Sqlframe.C14
