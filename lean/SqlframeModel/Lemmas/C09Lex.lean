/-
Lemmas/C09Lex.lean — the scanner reads a quoted token back, whatever its content (shared by C09 and C10).
-/
import SqlframeModel.Impl.C09Lex
namespace Sqlframe.C09

theorem SQ_ne_NUL : SQ ≠ NUL := by decide
theorem DQ_ne_NUL : DQ ≠ NUL := by decide

theorem isQuoteChar_ne_NUL {q : Char} (h : isQuoteChar q) : q ≠ NUL := by
  rcases h with h | h <;> subst h <;> decide

theorem stepNorm_quote {q : Char} (h : isQuoteChar q) : stepNorm q = (.inQ q [], []) := by
  rcases h with h | h <;> subst h <;> decide

theorem run_append (st : LexSt) (a b : List Char) :
    run st (a ++ b) = emitted st a ++ run (stateAfter st a) b := by
  induction a generalizing st with
  | nil => simp [emitted, stateAfter]
  | cons c cs ih => simp [run, emitted, stateAfter, ih, List.append_assoc]

/-- inside a quoted token: the doubled body followed by the closing quote is consumed completely and
    leaves the scanner "just after a quote" with exactly the original characters collected -/
theorem run_quoteBody (q : Char) (hq : q ≠ NUL) (s : List Char) (hs : NoNul s) (acc rest : List Char) :
    run (.inQ q acc) (quoteBody q s ++ q :: rest) = run (.endQ q (s.reverse ++ acc)) rest := by
  induction s generalizing acc with
  | nil => simp [quoteBody, run, step, hq]
  | cons c cs ih =>
    have hc : c ≠ NUL := hs c (by simp)
    have hcs : NoNul cs := fun x hx => hs x (by simp [hx])
    by_cases h : c = q
    · subst h
      simp [quoteBody, run, step, hc, ih hcs, List.append_assoc]
    · simp [quoteBody, h, run, step, hc, ih hcs, List.append_assoc]

theorem run_endQ_sep (q : Char) (acc rest : List Char) (h : Sep q rest) :
    run (.endQ q acc) rest = .quoted q acc.reverse :: run .norm rest := by
  cases rest with
  | nil => simp [run, finish]
  | cons c cs =>
    have hc : c ≠ q := by
      intro e; apply h; simp [e]
    simp [run, step, hc]

/-- the core: a quoted token is read back as ONE token carrying exactly `s`, and scanning continues in
    the default state — for every `s` without NUL -/
theorem lex_quoteWith (q : Char) (hq : isQuoteChar q) (s rest : List Char) (hs : NoNul s) (hsep : Sep q rest) :
    run .norm (quoteWith q s ++ rest) = .quoted q s :: run .norm rest := by
  have h0 : q ≠ NUL := isQuoteChar_ne_NUL hq
  have : quoteWith q s ++ rest = q :: (quoteBody q s ++ q :: rest) := by
    simp [quoteWith, List.append_assoc]
  rw [this]
  simp only [run, step, stepNorm_quote hq, List.nil_append]
  rw [run_quoteBody q h0 s hs [] rest, run_endQ_sep q _ rest hsep]
  simp

theorem stateAfter_append (st : LexSt) (a b : List Char) :
    stateAfter st (a ++ b) = stateAfter (stateAfter st a) b := by
  induction a generalizing st with
  | nil => simp [stateAfter]
  | cons c cs ih => simp [stateAfter, ih]

end Sqlframe.C09
