/-
Lemmas/C01Bodies.lean — the hand-written composition of `DF.apply` is the composition the source has now.
-/
import SqlframeModel.Impl.C01Bodies
namespace Sqlframe
open Gen

/-- every method body of the model runs exactly the inner calls dataframe.py runs, entered the same way
    (decorated / `.__wrapped__`), and writes into the open SELECT itself exactly where dataframe.py does -/
theorem applyGen_eq (d : DF) (s : Step) : d.applyGen s = d.apply s := by
  cases s <;> rfl

end Sqlframe
