/-
Lemmas/Sorted.lean — the specification's `Table.sort` really sorts: its result is a permutation of the
input in which every earlier row may precede every later row under the key list (`rowLe`), for every
table and key list.  This is what "row order is the order requested by the last orderBy" means; the
particular stable insertion sort used by the model is not part of any statement.
-/
import SqlframeModel.Lemmas.C01
namespace Sqlframe

theorem insertBy_pairwise {α} (le : α → α → Bool)
    (htot : ∀ a b, le a b = true ∨ le b a = true)
    (htr : ∀ a b c, le a b = true → le b c = true → le a c = true)
    (x : α) : ∀ l : List α, l.Pairwise (fun a b => le a b = true) →
      (insertBy le x l).Pairwise (fun a b => le a b = true) := by
  intro l
  induction l with
  | nil => intro _; simp [insertBy]
  | cons y ys ih =>
    intro h
    have hy := List.pairwise_cons.mp h
    simp only [insertBy]
    split
    · rename_i hxy
      refine List.pairwise_cons.mpr ⟨?_, h⟩
      intro z hz
      simp only [List.mem_cons] at hz
      rcases hz with rfl | hz
      · exact hxy
      · exact htr _ _ _ hxy (hy.1 z hz)
    · rename_i hxy
      have hyx : le y x = true := by
        rcases htot x y with h1 | h1
        · exact absurd h1 hxy
        · exact h1
      refine List.pairwise_cons.mpr ⟨?_, ih hy.2⟩
      intro z hz
      rcases (insertBy_mem le x ys z).mp hz with rfl | hz
      · exact hyx
      · exact hy.1 z hz

theorem sortBy_pairwise {α} (le : α → α → Bool)
    (htot : ∀ a b, le a b = true ∨ le b a = true)
    (htr : ∀ a b c, le a b = true → le b c = true → le a c = true) :
    ∀ l : List α, (sortBy le l).Pairwise (fun a b => le a b = true) := by
  intro l
  induction l with
  | nil => simp [sortBy]
  | cons x xs ih => exact insertBy_pairwise le htot htr x _ ih

/-! ### `Val.le` is a total order, `keyLe` a total preorder whose ties are equalities -/

theorem Val.le_total (a b : Val) : a.le b = true ∨ b.le a = true := by
  cases a <;> cases b <;> simp [Val.le, Val.rank]
  · omega
  · rename_i s t; exact String.le_total s t
  · rename_i x y; cases x <;> cases y <;> simp

theorem Val.le_trans (a b c : Val) : a.le b = true → b.le c = true → a.le c = true := by
  cases a <;> cases b <;> cases c <;> simp [Val.le, Val.rank]
  · omega
  · rename_i s t u; exact String.le_trans
  · rename_i x y z; cases x <;> cases y <;> cases z <;> simp

theorem Val.le_antisymm (a b : Val) : a.le b = true → b.le a = true → a = b := by
  cases a <;> cases b <;> simp [Val.le, Val.rank]
  · omega
  · rename_i s t; exact fun h1 h2 => String.le_antisymm h1 h2
  · rename_i x y; cases x <;> cases y <;> simp

theorem keyLe_total (k : OrdKey) (a b : Val) : keyLe k a b = true ∨ keyLe k b a = true := by
  cases a <;> cases b <;> simp [keyLe] <;>
    first
    | (cases k.nullsFirst <;> simp)
    | (split <;> first | exact Val.le_total _ _ | (rcases Val.le_total _ _ with h | h <;> simp [h]))

theorem keyLe_trans (k : OrdKey) (a b c : Val) : keyLe k a b = true → keyLe k b c = true → keyLe k a c = true := by
  cases a <;> cases b <;> cases c <;> simp [keyLe] <;>
    first
    | (cases k.nullsFirst <;> simp)
    | (cases k.desc <;> simp <;> intro h1 h2 <;> first | exact Val.le_trans _ _ _ h1 h2 | exact Val.le_trans _ _ _ h2 h1)

theorem keyLe_null_left (k : OrdKey) (b : Val) (hb : b ≠ .null) : keyLe k .null b = k.nullsFirst := by
  cases b <;> simp_all [keyLe]

theorem keyLe_null_right (k : OrdKey) (a : Val) (ha : a ≠ .null) : keyLe k a .null = !k.nullsFirst := by
  cases a <;> simp_all [keyLe]

theorem keyLe_nonnull (k : OrdKey) (a b : Val) (ha : a ≠ .null) (hb : b ≠ .null) :
    keyLe k a b = if k.desc then b.le a else a.le b := by
  cases a <;> cases b <;> simp_all [keyLe]

theorem keyLe_antisymm (k : OrdKey) (a b : Val) (h1 : keyLe k a b = true) (h2 : keyLe k b a = true) : a = b := by
  by_cases ha : a = .null
  · subst ha
    by_cases hb : b = .null
    · exact hb.symm
    · rw [keyLe_null_left k b hb] at h1
      rw [keyLe_null_right k b hb] at h2
      simp [h1] at h2
  · by_cases hb : b = .null
    · subst hb
      rw [keyLe_null_right k a ha] at h1
      rw [keyLe_null_left k a ha] at h2
      simp [h2] at h1
    · rw [keyLe_nonnull k a b ha hb] at h1
      rw [keyLe_nonnull k b a hb ha] at h2
      cases hd : k.desc
      · simp only [hd, Bool.false_eq_true, if_false] at h1 h2
        exact Val.le_antisymm _ _ h1 h2
      · simp only [hd, if_true] at h1 h2
        exact Val.le_antisymm _ _ h2 h1

theorem rowLe_total (cols : List Name) : ∀ (ks : List OrdKey) (r1 r2 : Row),
    rowLe cols ks r1 r2 = true ∨ rowLe cols ks r2 r1 = true := by
  intro ks
  induction ks with
  | nil => intro _ _; simp [rowLe]
  | cons k ks ih =>
    intro r1 r2
    simp only [rowLe]
    by_cases h : lookup cols r1 k.name = lookup cols r2 k.name
    · simp only [h, if_true]; exact ih r1 r2
    · have h' : ¬ lookup cols r2 k.name = lookup cols r1 k.name := fun e => h e.symm
      simp only [h, h', if_false]
      exact keyLe_total k _ _

theorem rowLe_trans (cols : List Name) : ∀ (ks : List OrdKey) (r1 r2 r3 : Row),
    rowLe cols ks r1 r2 = true → rowLe cols ks r2 r3 = true → rowLe cols ks r1 r3 = true := by
  intro ks
  induction ks with
  | nil => intro _ _ _ _ _; simp [rowLe]
  | cons k ks ih =>
    intro r1 r2 r3
    simp only [rowLe]
    generalize lookup cols r1 k.name = a
    generalize lookup cols r2 k.name = b
    generalize lookup cols r3 k.name = c
    by_cases hab : a = b
    · subst hab
      by_cases hbc : a = c
      · subst hbc; simp only [if_true]; exact ih r1 r2 r3
      · simp only [hbc, if_false, if_true]; intro _ h; exact h
    · by_cases hbc : b = c
      · subst hbc; simp only [hab, if_false, if_true]; intro h _; exact h
      · simp only [hab, hbc, if_false]
        intro h1 h2
        have hac : a ≠ c := by
          intro e; subst e
          exact hab (keyLe_antisymm k _ _ h1 h2)
        simp only [hac, if_false]
        exact keyLe_trans k _ _ _ h1 h2

/-- **the specification's sort sorts**: a permutation of the input in which every earlier row may
    precede every later one under the requested keys (directions and NULL placement included) -/
theorem sort_spec (T : Table) (keys : List OrdKey) :
    (T.sort keys).cols = T.cols ∧ (T.sort keys).rows.Perm T.rows ∧
    (T.sort keys).rows.Pairwise (fun r1 r2 => rowLe T.cols keys r1 r2 = true) :=
  ⟨rfl, sortBy_perm _ _, sortBy_pairwise _ (rowLe_total T.cols keys) (rowLe_trans T.cols keys) _⟩

end Sqlframe
