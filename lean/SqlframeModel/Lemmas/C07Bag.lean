/-
Lemmas/C07Bag.lean — bag algebra of the SQL set operators (multiplicity = `List.count`).
-/
import SqlframeModel.Impl.C07SetOps
namespace Sqlframe
open Gen

theorem count_filter_ne_self (r : Row) (l : List Row) : (l.filter (fun x => x ≠ r)).count r = 0 := by
  apply List.count_eq_zero.mpr
  intro h
  have := (List.mem_filter.mp h).2
  simp at this

/-- `dedup` keeps exactly one copy of every row that occurs -/
theorem count_dedup (r : Row) (l : List Row) : (dedup l).count r = if r ∈ l then 1 else 0 := by
  induction l with
  | nil => simp [dedup]
  | cons x xs ih =>
    simp only [dedup]
    by_cases hx : x = r
    · subst hx
      rw [List.count_cons_self, count_filter_ne_self]
      simp
    · rw [List.count_cons_of_ne hx]
      rw [List.count_filter (by simpa using fun e => hx e.symm)]
      rw [ih]
      have : (r ∈ x :: xs) ↔ r ∈ xs := by
        simp only [List.mem_cons]
        constructor
        · rintro (e | h)
          · exact absurd e.symm hx
          · exact h
        · exact Or.inr
      simp only [this]

theorem mem_dedup (r : Row) (l : List Row) : r ∈ dedup l ↔ r ∈ l := by
  rw [← List.count_pos_iff, count_dedup]
  by_cases h : r ∈ l <;> simp [h]

theorem dedup_nodup (l : List Row) : (dedup l).Nodup := by
  rw [List.nodup_iff_count]
  intro a
  rw [count_dedup]
  split <;> omega

theorem count_interAll (r : Row) : ∀ A B : List Row, (interAll A B).count r = min (A.count r) (B.count r)
  | [], B => by simp [interAll]
  | a :: as, B => by
    have ih1 := count_interAll r as (B.erase a)
    have ih2 := count_interAll r as B
    simp only [interAll]
    by_cases hm : a ∈ B
    · rw [if_pos hm]
      by_cases ha : a = r
      · subst ha
        have hpos : 0 < B.count a := List.count_pos_iff.mpr hm
        rw [List.count_cons_self, List.count_cons_self, ih1, List.count_erase_self]
        omega
      · rw [List.count_cons_of_ne ha, List.count_cons_of_ne ha, ih1,
          List.count_erase_of_ne (fun e => ha e.symm)]
    · rw [if_neg hm, ih2]
      by_cases ha : a = r
      · subst ha
        have : B.count a = 0 := List.count_eq_zero.mpr hm
        rw [this]; simp
      · rw [List.count_cons_of_ne ha]

theorem count_exceptAllRows (r : Row) : ∀ B A : List Row, (exceptAllRows A B).count r = A.count r - B.count r
  | [], A => by simp [exceptAllRows]
  | b :: bs, A => by
    have ih := count_exceptAllRows r bs (A.erase b)
    simp only [exceptAllRows]
    rw [ih]
    by_cases hb : b = r
    · subst hb
      rw [List.count_erase_self, List.count_cons_self]; omega
    · rw [List.count_erase_of_ne (fun e => hb e.symm), List.count_cons_of_ne hb]

theorem count_filter_mem (r : Row) (A B : List Row) :
    (A.filter (fun x => x ∈ B)).count r = if r ∈ B then A.count r else 0 := by
  by_cases h : r ∈ B
  · rw [if_pos h, List.count_filter (by simpa using h)]
  · rw [if_neg h]
    apply List.count_eq_zero.mpr
    intro hm
    have := (List.mem_filter.mp hm).2
    simp [h] at this

theorem count_filter_not_mem (r : Row) (A B : List Row) :
    (A.filter (fun x => x ∉ B)).count r = if r ∈ B then 0 else A.count r := by
  by_cases h : r ∈ B
  · rw [if_pos h]
    apply List.count_eq_zero.mpr
    intro hm
    have := (List.mem_filter.mp hm).2
    simp [h] at this
  · rw [if_neg h, List.count_filter (by simpa using h)]

theorem ite_mem_count (r : Row) (l : List Row) : (if r ∈ l then 1 else 0 : Nat) = if 0 < l.count r then 1 else 0 := by
  by_cases h : r ∈ l
  · rw [if_pos h, if_pos (List.count_pos_iff.mpr h)]
  · rw [if_neg h, if_neg (by rw [List.count_pos_iff]; exact h)]

/-- **bag semantics of the six SQL set operators**: the multiplicity of every row in the result is
    `sqlMult` of its multiplicities in the operands (NULL rows are rows like any other) -/
theorem evalSetop_count (op : SetKind × Bool) (A B : List Row) (r : Row) :
    (evalSetop op A B).count r = sqlMult op (A.count r) (B.count r) := by
  obtain ⟨k, d⟩ := op
  cases k <;> cases d <;> simp only [evalSetop, sqlMult]
  · exact List.count_append
  · rw [count_dedup, ite_mem_count, List.count_append]
  · exact count_interAll r A B
  · rw [count_dedup, ite_mem_count, count_filter_mem]
    by_cases hB : r ∈ B
    · have : 0 < B.count r := List.count_pos_iff.mpr hB
      simp only [hB, if_true]
      by_cases hA : 0 < A.count r
      · rw [if_pos hA, if_pos (by omega)]
      · rw [if_neg hA, if_neg (by omega)]
    · have : B.count r = 0 := List.count_eq_zero.mpr hB
      simp [hB, this]
  · exact count_exceptAllRows r B A
  · rw [count_dedup, ite_mem_count, count_filter_not_mem]
    by_cases hB : r ∈ B
    · have : 0 < B.count r := List.count_pos_iff.mpr hB
      simp only [hB, if_true]
      rw [if_neg (by omega), if_neg (by omega)]
    · have : B.count r = 0 := List.count_eq_zero.mpr hB
      simp [hB, this]

theorem sqlMult_zero (op : SetKind × Bool) : sqlMult op 0 0 = 0 := by
  obtain ⟨k, d⟩ := op
  cases k <;> cases d <;> simp [sqlMult]

/-- a set operator invents no rows -/
theorem mem_evalSetop (op : SetKind × Bool) (A B : List Row) (r : Row) (h : r ∈ evalSetop op A B) : r ∈ A ∨ r ∈ B := by
  have hc := List.count_pos_iff.mpr h
  rw [evalSetop_count] at hc
  by_cases hA : r ∈ A
  · exact Or.inl hA
  · by_cases hB : r ∈ B
    · exact Or.inr hB
    · rw [List.count_eq_zero.mpr hA, List.count_eq_zero.mpr hB, sqlMult_zero] at hc
      omega

/-- the operators are functions of the operand *bags* -/
theorem evalSetop_perm (op : SetKind × Bool) {A A' B B' : List Row} (hA : A.Perm A') (hB : B.Perm B') :
    (evalSetop op A B).Perm (evalSetop op A' B') := by
  rw [List.perm_iff_count]
  intro r
  rw [evalSetop_count, evalSetop_count, hA.count_eq, hB.count_eq]

/-! ### the specification bag -/

theorem count_flatMap_replicate (g : Row → Nat) (r : Row) : ∀ l : List Row, l.Nodup →
    (l.flatMap (fun x => List.replicate (g x) x)).count r = if r ∈ l then g r else 0
  | [], _ => by simp
  | x :: xs, hnd => by
    have hnd' := List.nodup_cons.mp hnd
    rw [List.flatMap_cons, List.count_append, count_flatMap_replicate g r xs hnd'.2, List.count_replicate]
    by_cases hx : x = r
    · subst hx
      simp [hnd'.1]
    · have : ¬ (x == r) = true := by simpa using hx
      rw [if_neg this]
      have hm : (r ∈ x :: xs) ↔ r ∈ xs := by
        simp only [List.mem_cons]
        exact ⟨fun h => h.resolve_left (fun e => hx e.symm), Or.inr⟩
      simp only [hm, Nat.zero_add]

theorem count_specRows (f : Nat → Nat → Nat) (hf : f 0 0 = 0) (A B : List Row) (r : Row) :
    (specRows f A B).count r = f (A.count r) (B.count r) := by
  unfold specRows
  rw [count_flatMap_replicate (fun r => f (A.count r) (B.count r)) r _ (dedup_nodup _)]
  by_cases h : r ∈ dedup (A ++ B)
  · rw [if_pos h]
  · rw [if_neg h]
    rw [mem_dedup, List.mem_append] at h
    have hA : A.count r = 0 := List.count_eq_zero.mpr (fun x => h (Or.inl x))
    have hB : B.count r = 0 := List.count_eq_zero.mpr (fun x => h (Or.inr x))
    rw [hA, hB, hf]

theorem setSpec_zero (m : SetMethod) : setSpec m 0 0 = 0 := by cases m <;> simp [setSpec]

theorem mem_specRows (f : Nat → Nat → Nat) (A B : List Row) (r : Row) (h : r ∈ specRows f A B) : r ∈ A ∨ r ∈ B := by
  unfold specRows at h
  rw [List.mem_flatMap] at h
  obtain ⟨x, hx, hr⟩ := h
  have := (List.mem_replicate.mp hr).2
  subst this
  rw [mem_dedup, List.mem_append] at hx
  exact hx

theorem specRows_perm (f : Nat → Nat → Nat) (hf : f 0 0 = 0) {A A' B B' : List Row} (hA : A.Perm A') (hB : B.Perm B') :
    (specRows f A B).Perm (specRows f A' B') := by
  rw [List.perm_iff_count]
  intro r
  rw [count_specRows f hf, count_specRows f hf, hA.count_eq, hB.count_eq]

end Sqlframe
