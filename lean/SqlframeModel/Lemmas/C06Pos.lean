/-
Lemmas/C06Pos.lean — the positional reading of integer constants in a plain GROUP BY is *loud*: the statement
`GroupedData.agg` builds for a key list with integer literals is either rejected by the engine or evaluates
to the specification (a position that names a key of the select list adds nothing to the grouping, and the
constant itself is evaluated as a constant in the select list).
-/
import SqlframeModel.Lemmas.C06Const
import SqlframeModel.Lemmas.C06DF
namespace Sqlframe
open Gen

/-! ### representatives: grouping depends only on the kernel of the key function -/

/-- the rows whose key is seen for the last time (one representative per distinct key, in `distinctL` order) -/
def repsBy (f : Row → List Val) : List Row → List Row
  | [] => []
  | r :: rs => if f r ∈ rs.map f then repsBy f rs else r :: repsBy f rs

theorem distinctL_reps (f : Row → List Val) : ∀ rows : List Row, distinctL (rows.map f) = (repsBy f rows).map f
  | [] => rfl
  | r :: rs => by
    simp only [List.map_cons, distinctL, repsBy]
    by_cases h : f r ∈ rs.map f
    · rw [if_pos h, if_pos h, distinctL_reps f rs]
    · rw [if_neg h, if_neg h, List.map_cons, distinctL_reps f rs]

theorem repsBy_subset (f : Row → List Val) : ∀ (rows : List Row) (r : Row), r ∈ repsBy f rows → r ∈ rows
  | [], _, h => by simp [repsBy] at h
  | x :: xs, r, h => by
    simp only [repsBy] at h
    by_cases hx : f x ∈ xs.map f
    · rw [if_pos hx] at h; exact List.mem_cons_of_mem _ (repsBy_subset f xs r h)
    · rw [if_neg hx] at h
      rcases List.mem_cons.mp h with rfl | h'
      · exact List.mem_cons_self
      · exact List.mem_cons_of_mem _ (repsBy_subset f xs r h')

theorem repsBy_congr (f g : Row → List Val) (hk : ∀ r r' : Row, f r = f r' ↔ g r = g r') :
    ∀ rows : List Row, repsBy f rows = repsBy g rows
  | [] => rfl
  | r :: rs => by
    have hm : f r ∈ rs.map f ↔ g r ∈ rs.map g := by
      simp only [List.mem_map]
      constructor
      · rintro ⟨r', hr', e⟩; exact ⟨r', hr', (hk r' r).mp e⟩
      · rintro ⟨r', hr', e⟩; exact ⟨r', hr', (hk r' r).mpr e⟩
    simp only [repsBy]
    by_cases h : f r ∈ rs.map f
    · rw [if_pos h, if_pos (hm.mp h), repsBy_congr f g hk rs]
    · rw [if_neg h, if_neg (fun h' => h (hm.mpr h')), repsBy_congr f g hk rs]

theorem filter_kernel (f g : Row → List Val) (hk : ∀ r r' : Row, f r = f r' ↔ g r = g r') (rows : List Row) (r0 : Row) :
    rows.filter (fun r => f r = f r0) = rows.filter (fun r => g r = g r0) := by
  apply List.filter_congr
  intro r _
  by_cases h : f r = f r0
  · simp [h, (hk r r0).mp h]
  · have : ¬ g r = g r0 := fun h' => h ((hk r r0).mpr h')
    simp [h, this]

/-! ### what a successful resolution looks like -/

theorem resolve_facts (sel : List (Name × GItem)) : ∀ (es gs : List Expr), resolveGroupBy sel es = some gs →
    (∀ e ∈ es, e.isIntLit = false → e ∈ gs) ∧ (∀ g ∈ gs, ∃ e ∈ es, groupByTerm sel e = some g) ∧ (es = [] ↔ gs = [])
  | [], gs, h => by
    simp only [resolveGroupBy, Option.some.injEq] at h
    subst h
    exact ⟨fun e he => by simp at he, fun g hg => by simp at hg, by simp⟩
  | e :: es, gs, h => by
    simp only [resolveGroupBy] at h
    cases ht : groupByTerm sel e with
    | none => rw [ht] at h; simp at h
    | some a =>
      cases hr : resolveGroupBy sel es with
      | none => rw [ht, hr] at h; simp at h
      | some as =>
        rw [ht, hr] at h
        simp only [Option.some.injEq] at h
        subst h
        obtain ⟨h1, h2, _⟩ := resolve_facts sel es as hr
        refine ⟨fun e' he' hn => ?_, fun g hg => ?_, by simp⟩
        · rcases List.mem_cons.mp he' with rfl | he''
          · have := groupByTerm_self sel e' hn
            rw [ht] at this
            simp only [Option.some.injEq] at this
            subst this
            exact List.mem_cons_self
          · exact List.mem_cons_of_mem _ (h1 e' he'' hn)
        · rcases List.mem_cons.mp hg with rfl | hg'
          · exact ⟨e, List.mem_cons_self, ht⟩
          · obtain ⟨e', he', ht'⟩ := h2 g hg'
            exact ⟨e', List.mem_cons_of_mem _ he', ht'⟩

/-- a position of the select list `keys ++ aggregates` that is accepted names one of the keys -/
theorem term_names_key (keys : List (Name × Expr)) (aggs : List (Name × AExpr)) (e g : Expr) (he : e ∈ keys.map (·.2))
    (h : groupByTerm (keys.map (fun k => (k.1, GItem.key k.2)) ++ aggs.map (fun a => (a.1, GItem.agg a.2))) e = some g) :
    g ∈ keys.map (·.2) := by
  by_cases hn : e.isIntLit = false
  · rw [groupByTerm_self _ e hn] at h
    simp only [Option.some.injEq] at h
    exact h ▸ he
  · cases e with
    | lit v =>
      cases v with
      | int n =>
        simp only [groupByTerm] at h
        by_cases h0 : n ≤ 0
        · rw [if_pos h0] at h; simp at h
        · rw [if_neg h0] at h
          cases hs : (keys.map (fun k => (k.1, GItem.key k.2)) ++ aggs.map (fun a => (a.1, GItem.agg a.2)))[(n - 1).toNat]? with
          | none => rw [hs] at h; simp at h
          | some it =>
            rw [hs] at h
            obtain ⟨nm, gi⟩ := it
            cases gi with
            | agg a => simp at h
            | key e' =>
              simp only [Option.some.injEq] at h
              subst h
              have hmem := List.mem_of_getElem? hs
              rcases List.mem_append.mp hmem with hm | hm
              · obtain ⟨k, hk, e⟩ := List.mem_map.mp hm
                simp only [Prod.mk.injEq, GItem.key.injEq] at e
                exact List.mem_map.mpr ⟨k, hk, e.2⟩
              · obtain ⟨a, _, e⟩ := List.mem_map.mp hm
                simp at e
      | _ => simp [Expr.isIntLit] at hn
    | _ => simp [Expr.isIntLit] at hn

theorem isIntLit_refs (e : Expr) (h : e.isIntLit = true) : e.refs = [] := by
  cases e with
  | lit v => rfl
  | _ => simp [Expr.isIntLit] at h

/-- a grouped expression, or a constant, has its own value inside the group of a row -/
theorem keyValue_map_eval (cols : List Name) (r0 : Row) : ∀ (G : List Expr) (e : Expr), (e ∈ G ∨ e.refs = []) →
    keyValue G (G.map (eval cols r0)) e = eval cols r0 e
  | [], e, h => by
    rcases h with h | h
    · simp at h
    · simp only [List.map_nil, keyValue]
      exact (eval_constValue cols r0 e h).symm
  | g :: gs, e, h => by
    simp only [List.map_cons, keyValue]
    by_cases hg : g = e
    · rw [if_pos hg, hg]
    · rw [if_neg hg]
      apply keyValue_map_eval cols r0 gs e
      rcases h with h | h
      · rcases List.mem_cons.mp h with rfl | h'
        · exact absurd rfl hg
        · exact Or.inl h'
      · exact Or.inr h

/-- **loud, not silent**: for *every* key list (integer literals included) the GROUP BY block `agg` builds is
    either rejected by the engine or equal to the specification -/
theorem evalGBlock_loud (wher : List Expr) (keys : List (Name × Expr)) (aggs : List (Name × AExpr)) (T0 : Table) :
    evalGBlock { wher := wher, groupBy := groupByList keys,
                 sel := keys.map (fun k => (k.1, GItem.key k.2)) ++ aggs.map (fun a => (a.1, GItem.agg a.2)) } T0 = aggErrTable ∨
    evalGBlock { wher := wher, groupBy := groupByList keys,
                 sel := keys.map (fun k => (k.1, GItem.key k.2)) ++ aggs.map (fun a => (a.1, GItem.agg a.2)) } T0
      = aggSpec keys aggs { cols := T0.cols, rows := stWhere wher T0 } := by
  rw [groupByList_eq]
  cases hres : resolveGroupBy (keys.map (fun k => (k.1, GItem.key k.2)) ++ aggs.map (fun a => (a.1, GItem.agg a.2))) (keys.map (·.2)) with
  | none => left; simp only [evalGBlock, hres]
  | some G =>
    right
    obtain ⟨h1, h2, h3⟩ := resolve_facts _ _ _ hres
    have hGK : ∀ g ∈ G, g ∈ keys.map (·.2) := by
      intro g hg
      obtain ⟨e, he, ht⟩ := h2 g hg
      exact term_names_key keys aggs e g he ht
    -- both key functions have the same kernel
    have hker : ∀ r r' : Row, G.map (eval T0.cols r) = G.map (eval T0.cols r') ↔
        keys.map (fun k => eval T0.cols r k.2) = keys.map (fun k => eval T0.cols r' k.2) := by
      intro r r'
      rw [List.map_inj_left, List.map_inj_left]
      constructor
      · intro h k hk
        cases hn : k.2.isIntLit with
        | false => exact h k.2 (h1 k.2 (List.mem_map.mpr ⟨k, hk, rfl⟩) hn)
        | true =>
          rw [eval_constValue _ _ _ (isIntLit_refs _ hn), eval_constValue _ _ _ (isIntLit_refs _ hn)]
      · intro h g hg
        obtain ⟨k, hk, e⟩ := List.mem_map.mp (hGK g hg)
        rw [← e]; exact h k hk
    simp only [evalGBlock, hres, aggSpec]
    congr 1
    · simp [List.map_append, List.map_map, Function.comp_def]
    · by_cases hk : keys = []
      · subst hk
        have hG : G = [] := h3.mp rfl
        subst hG
        simp only [List.map_nil, if_true, List.map_cons, List.nil_append]
        congr 1
        simp only [List.map_map, Function.comp_def]
        rw [filter_true' _ _ (by simp)]
      · have hG : ¬ G = [] := fun h => hk (List.map_eq_nil_iff.mp (h3.mpr h))
        rw [if_neg hG, if_neg hk, groupR_spec, distinctL_reps, distinctL_reps,
          repsBy_congr _ _ hker, List.map_map, List.map_map, List.map_map]
        apply List.map_congr_left
        intro r0 _
        simp only [Function.comp, List.map_append, List.map_map]
        congr 1
        · apply List.map_congr_left
          intro k hkm
          apply keyValue_map_eval
          cases hn : k.2.isIntLit with
          | false => exact Or.inl (h1 k.2 (List.mem_map.mpr ⟨k, hkm, rfl⟩) hn)
          | true => exact Or.inr (isIntLit_refs _ hn)
        · apply List.map_congr_left
          intro a _
          rw [filter_kernel _ _ hker]
          rfl

/-- the same on the DataFrame model, in any reachable state: `groupBy(keys).agg(aggs)` is either rejected by
    the engine (the model's error table, no columns) or evaluates to the specification -/
theorem groupAgg_df_loud (d : DF) (hi : Inv d) (keys : List (Name × Expr)) (aggs : List (Name × AExpr))
    (hwf : aggsWF d.eval.cols keys aggs) :
    ((d.groupBy keys).agg aggs).eval.cols = [] ∨
    (((d.groupBy keys).agg aggs).eval = aggSpec keys aggs d.eval ∧ Fresh ((d.groupBy keys).agg aggs)) := by
  have hs : Op.select ≠ Op.noOp := by decide
  have htag : tag_groupBy = some Op.groupBy := rfl
  have hatag : groupAggTag = some Op.select := rfl
  obtain ⟨hi1, he1⟩ := enter_inv .groupBy d hi
  obtain ⟨hi2, he2⟩ := enter_inv .select (enter .groupBy d) hi1
  have hr2 := enter_ready .select hs (by decide) (enter .groupBy d) hi1
  simp only [GroupedData.agg, DF.groupBy, htag, hatag, enterOp_some, wrapperGroup_eq, wrapper_eq _ hs]
  generalize enter Op.select (enter Op.groupBy d) = d2 at hi2 he2 hr2
  have hb : (bodyAgg keys none aggs d2).src =
      evalGBlock { wher := d2.blk.wher, groupBy := groupByList keys,
                   sel := keys.map (fun k => (k.1, GItem.key k.2)) ++ aggs.map (fun a => (a.1, GItem.agg a.2)) } d2.src := by
    simp only [bodyAgg, hr2.2.1, hr2.2.2.1, hr2.2.2.2, and_self, if_true]
  rcases evalGBlock_loud d2.blk.wher keys aggs d2.src with he | he
  · left
    show ((bodyAgg keys none aggs d2).blk.sel.map (·.1)) = []
    have : (bodyAgg keys none aggs d2).blk.sel = identSel (bodyAgg keys none aggs d2).src.cols := rfl
    rw [this, hb, he]
    rfl
  · right
    have hsrc : (bodyAgg keys none aggs d2).src = aggSpec keys aggs d.eval := by
      rw [hb, he, ← ready_eval d2 hi2 hr2, he2, he1]
    have hf : Fresh (bodyAgg keys none aggs d2) := by
      refine ⟨?_, rfl, rfl, rfl, rfl, rfl⟩
      rw [hsrc]; exact aggSpec_WF keys aggs _ hwf.1
    refine ⟨?_, hf.setLast _⟩
    show (bodyAgg keys none aggs d2).eval = _
    rw [fresh_eval _ hf, hsrc]

/-- does the engine reject the statement this step builds? (the test `DF.runGErr` applies per step) -/
def stepRejected (d : DF) (s : GStep) : Bool :=
  match s with
  | .group _ => decide ((d.applyG s).eval.cols = [])
  | .plain _ => false

theorem runGErr_cons (d : DF) (s : GStep) (ss : List GStep) :
    d.runGErr (s :: ss) = (stepRejected d s || (d.applyG s).runGErr ss) := by
  cases s <;> rfl

/-- one step of a chain, integer-literal keys allowed: rejected, or the specification -/
theorem applyG_step_loud (d : DF) (s : GStep) (hi : Inv d) (hs : s.WF d.eval.cols) (hok : s.okForChain = true) :
    stepRejected d s = true ∨ ((d.applyG s).eval = specG d.eval s ∧ Inv (d.applyG s)) := by
  cases s with
  | plain s => exact Or.inr (applyG_step d (.plain s) hi hs hok rfl)
  | group g =>
    have hc : g.isCube = false := by simpa [GStep.okForChain] using hok
    simp only [stepRejected, DF.applyG, specG, implParts_spec, decide_eq_true_eq]
    simp only [GStep.WF, GOp.WF] at hs
    cases hp : g.specParts with
    | none => rw [hp] at hs; exact absurd hs (by simp)
    | some p =>
      obtain ⟨keys, aggs⟩ := p
      rw [hp] at hs
      simp only [hc, Bool.false_eq_true, if_false]
      by_cases hd : g.isDfAgg = true
      · have hk : keys = [] := by
          cases g <;> simp_all [GOp.isDfAgg, GOp.specParts]
        subst hk
        rw [if_pos hd]
        obtain ⟨he, hf⟩ := dfAgg_df d hi aggs hs
        exact Or.inr ⟨he, hf.inv⟩
      · rw [if_neg hd]
        rcases groupAgg_df_loud d hi keys aggs hs with h | ⟨he, hf⟩
        · exact Or.inl h
        · exact Or.inr ⟨he, hf.inv⟩

end Sqlframe
