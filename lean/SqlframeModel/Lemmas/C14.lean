/-
Lemmas/C14.lean — helper lemmas for the writer theorems (no property statements here).
-/
import SqlframeModel.Impl.C14Scope
namespace Sqlframe.C14
open Sqlframe Sqlframe.Gen

/-! ### name-based lookup -/

theorem alookup_not_mem {α} (d : α) (cs : List Name) (c : Name) (vs : List α) (v : α) (h : c ∉ cs)
    (n : Name) (hn : n ∈ cs) : alookup d (c :: cs) (v :: vs) n = alookup d cs vs n := by
  have : c ≠ n := fun e => h (e ▸ hn)
  simp [alookup, this]

theorem map_alookup_self {α} (d : α) : ∀ (cs : List Name) (vs : List α), cs.Nodup → vs.length = cs.length →
    cs.map (alookup d cs vs) = vs
  | [], [], _, _ => rfl
  | [], _ :: _, _, h => by simp at h
  | _ :: _, [], _, h => by simp at h
  | c :: cs, v :: vs, hnd, hlen => by
    have hnd' := List.nodup_cons.mp hnd
    simp only [List.map_cons, alookup, if_true]
    congr 1
    have ih := map_alookup_self d cs vs hnd'.2 (by simpa using hlen)
    rw [← ih]
    apply List.map_congr_left
    intro n hn
    rw [ih]
    exact alookup_not_mem d cs c vs v hnd'.1 n hn

/-- looking a name up in a row that was built column by column gives that column's value -/
theorem alookup_map {α} (d : α) (g : Name → α) : ∀ (cs : List Name) (c : Name), c ∈ cs →
    alookup d cs (cs.map g) c = g c
  | [], _, h => by simp at h
  | k :: ks, c, h => by
    simp only [List.map_cons, alookup]
    by_cases hk : k = c
    · simp [hk]
    · simp only [hk, if_false]
      have : c ∈ ks := by
        rcases List.mem_cons.mp h with h | h
        · exact absurd h.symm hk
        · exact h
      exact alookup_map d g ks c this

theorem Frame.project_self (f : Frame) (h : f.WF) : f.project f.cols = f := by
  obtain ⟨hnd, hty, hrows⟩ := h
  cases f with
  | mk cols tys rows fails =>
    simp only [Frame.project, Frame.mk.injEq, true_and, and_true]
    refine ⟨map_alookup_self _ cols tys hnd hty, ?_⟩
    calc rows.map (fun r => cols.map (alookup Val.null cols r)) = rows.map id := by
          apply List.map_congr_left
          intro r hr
          exact map_alookup_self _ cols r hnd (hrows r hr)
      _ = rows := by simp

theorem TTable.project_self (T : TTable) (h : T.WF) : T.project T.cols = T := by
  obtain ⟨hnd, hty, hrows⟩ := h
  cases T with
  | mk cols tys rows =>
    simp only [TTable.project, TTable.mk.injEq, true_and]
    refine ⟨map_alookup_self _ cols tys hnd hty, ?_⟩
    calc rows.map (fun r => cols.map (alookup Val.null cols r)) = rows.map id := by
          apply List.map_congr_left
          intro r hr
          exact map_alookup_self _ cols r hnd (hrows r hr)
      _ = rows := by simp

/-! ### the catalog behaves as a finite map -/

theorem get_del_same (c : Cat) (n : Name) : (c.del n).get n = none := by
  induction c with
  | nil => rfl
  | cons e rest ih =>
    obtain ⟨k, T⟩ := e
    by_cases h : k = n
    · simp only [Cat.del, List.filter, h, ne_eq, not_true_eq_false, decide_false]
      simpa [Cat.del] using ih
    · simp only [Cat.del, List.filter, h, ne_eq, not_false_eq_true, decide_true, Cat.get, if_false]
      simpa [Cat.del] using ih

theorem get_del_other (c : Cat) (n m : Name) (hm : m ≠ n) : (c.del n).get m = c.get m := by
  induction c with
  | nil => rfl
  | cons e rest ih =>
    obtain ⟨k, T⟩ := e
    by_cases h : k = n
    · have hk : k ≠ m := fun e => hm (e ▸ h)
      simp only [Cat.del, List.filter, h, ne_eq, not_true_eq_false, decide_false, Cat.get]
      rw [if_neg (h ▸ hk)]
      simpa [Cat.del] using ih
    · simp only [Cat.del, List.filter, h, ne_eq, not_false_eq_true, decide_true, Cat.get]
      by_cases hk : k = m
      · simp [hk]
      · simp only [hk, if_false]; simpa [Cat.del] using ih

theorem get_put_same (c : Cat) (n : Name) (T : TTable) : (c.put n T).get n = some T := by
  simp [Cat.put, Cat.get]

theorem get_put_other (c : Cat) (n m : Name) (T : TTable) (hm : m ≠ n) : (c.put n T).get m = c.get m := by
  simp only [Cat.put, Cat.get]
  rw [if_neg (fun e => hm e.symm)]
  exact get_del_other c n m hm

theorem mem_names_iff (c : Cat) (n : Name) : n ∈ c.names ↔ (c.get n).isSome = true := by
  induction c with
  | nil => simp [Cat.names, Cat.get]
  | cons e rest ih =>
    obtain ⟨k, T⟩ := e
    by_cases h : k = n
    · simp [Cat.names, Cat.get, h]
    · have h' : n ≠ k := fun e => h e.symm
      simp only [Cat.names, List.map_cons, List.mem_cons, Cat.get, h, if_false, h', false_or]
      simpa [Cat.names] using ih

theorem get_mem (c : Cat) (n : Name) (T : TTable) (h : c.get n = some T) : (n, T) ∈ c := by
  induction c with
  | nil => simp [Cat.get] at h
  | cons e rest ih =>
    obtain ⟨k, U⟩ := e
    by_cases hk : k = n
    · simp only [Cat.get, hk, if_true, Option.some.injEq] at h
      simp [hk, h]
    · simp only [Cat.get, hk, if_false] at h
      exact List.mem_cons_of_mem _ (ih h)

/-! ### well-formedness is preserved -/

theorem catWF_del (c : Cat) (n : Name) (h : CatWF c) : CatWF (c.del n) := by
  intro e he
  exact h e (List.mem_filter.mp he).1

theorem catWF_put (c : Cat) (n : Name) (T : TTable) (h : CatWF c) (hT : T.WF ∧ T.cols ≠ []) : CatWF (c.put n T) := by
  intro e he
  rcases List.mem_cons.mp he with rfl | he
  · exact hT
  · exact catWF_del c n h e he

theorem catWF_get (c : Cat) (n : Name) (T : TTable) (h : CatWF c) (hg : c.get n = some T) : T.WF ∧ T.cols ≠ [] :=
  h (n, T) (get_mem c n T hg)

theorem castRow_length : ∀ (tys : List Ty) (r r' : Row), castRow tys r = some r' → r'.length = tys.length
  | [], [], r', h => by simp [castRow] at h; simp [← h]
  | [], _ :: _, _, h => by simp [castRow] at h
  | _ :: _, [], _, h => by simp [castRow] at h
  | t :: ts, v :: vs, r', h => by
    simp only [castRow] at h
    cases hv : castVal t v with
    | none => simp [hv] at h
    | some a =>
      cases hr : castRow ts vs with
      | none => simp [hv, hr] at h
      | some b =>
        simp only [hv, hr, Option.some.injEq] at h
        subst h
        simp [castRow_length ts vs b hr]

theorem castRows_length (tys : List Ty) : ∀ (rs rs' : List Row), castRows tys rs = some rs' →
    ∀ r ∈ rs', r.length = tys.length
  | [], rs', h => by simp [castRows] at h; subst h; simp
  | r :: rs, rs', h => by
    simp only [castRows] at h
    cases hr : castRow tys r with
    | none => simp [hr] at h
    | some a =>
      cases hrs : castRows tys rs with
      | none => simp [hr, hrs] at h
      | some b =>
        simp only [hr, hrs, Option.some.injEq] at h
        subst h
        intro x hx
        rcases List.mem_cons.mp hx with rfl | hx
        · exact castRow_length tys r _ hr
        · exact castRows_length tys rs b hrs x hx

theorem insertRows_WF (T T' : TTable) (f : Frame) (hT : T.WF ∧ T.cols ≠ []) (h : insertRows T f = some T') :
    T'.WF ∧ T'.cols ≠ [] := by
  unfold insertRows at h
  split at h
  · simp at h
  · split at h
    · simp at h
    · split at h
      · simp at h
      · rename_i rs hrs
        simp only [Option.some.injEq] at h
        subst h
        obtain ⟨⟨hnd, hty, hrows⟩, hne⟩ := hT
        refine ⟨⟨hnd, hty, ?_⟩, hne⟩
        intro r hr
        rcases List.mem_append.mp hr with hr | hr
        · exact hrows r hr
        · rw [castRows_length T.tys f.rows rs hrs r hr, hty]

theorem frame_table_WF (f : Frame) (h : f.WF) (hne : f.cols ≠ []) : f.table.WF ∧ f.table.cols ≠ [] := ⟨h, hne⟩

/-! ### the column cache -/

theorem cacheGet_cons_self (n : Name) (v : List Name) (rest : List (Name × List Name)) :
    cacheGet ((n, v) :: rest) n = some v := by simp [cacheGet]

theorem addTableP_cat (skips : Bool) (st : St) (n : Name) : (addTableP skips st n).cat = st.cat := by
  unfold addTableP
  split
  · rfl
  · split <;> rfl

/-- after `add_table`, the cache entry for an existing table is its column list — provided a kept
    entry was fresh -/
theorem addTableP_cached (skips : Bool) (st : St) (n : Name) (T : TTable) (hg : st.cat.get n = some T)
    (hfresh : skips = false ∨ st.cached n = none ∨ st.cached n = some T.cols) :
    (addTableP skips st n).cached n = some T.cols := by
  unfold addTableP
  split
  · rename_i hc
    simp only [Bool.and_eq_true] at hc
    rcases hfresh with h | h | h
    · simp [h] at hc
    · simp [h] at hc
    · exact h
  · simp [hg, St.cached, cacheGet]

end Sqlframe.C14
