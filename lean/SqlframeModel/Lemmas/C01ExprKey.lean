/-
Lemmas/C01ExprKey.lean — sort keys that are *expressions*.

Inside an ORDER BY expression the engine resolves a column name to the *input* column of the block (a bare key resolves
to the output alias — that case is `OrdKey` in Core/Sql.lean).  PySpark sorts by the value of the expression over the
*output* of the previous step.  `orderBy` therefore looks at the open block's select list: when a sort expression
mentions a name the block gave a new meaning (`redefined`, regenerated as `Gen.orderRedefined`), it first freezes the
block into a CTE.  This file proves that with that guard the two readings of every key agree on every row.
-/
import SqlframeModel.Impl.C01ExprKey
namespace Sqlframe
open Gen

theorem viewBare_faithful : Faithful viewBare := by
  refine ⟨?_, ?_, ?_⟩
  · intro it h; unfold viewBare at *; split at h
    · split at h <;> simp_all
    · simp
  · intro it m hm; unfold viewBare; rw [hm]; simp only []
    by_cases h : m = it.1 <;> simp [h]
  · intro it h; unfold viewBare; split
    · rename_i m hm; exact absurd hm (h m)
    · simp

theorem viewAliased_faithful : Faithful viewAliased := by
  refine ⟨?_, ?_, ?_⟩
  · intro it _; unfold viewAliased; split <;> rfl
  · intro it m hm; unfold viewAliased; rw [hm]; simp
  · intro it h; unfold viewAliased; split
    · rename_i m hm; exact absurd hm (h m)
    · simp

theorem exprKeyNeedsWrap_eq (v : Name × Expr → SelItem) (sel : List (Name × Expr)) (keys : List Expr) :
    exprKeyNeedsWrap v sel keys = guardOnViews (sel.map v) (keys.map (fun k => (k.isBare, k.refs))) := by
  have h : (sel.filter (fun it => orderRedefined (v it))).map (fun it => (v it).alias)
      = ((sel.map v).filter orderRedefined).map (·.alias) := by
    induction sel with
    | nil => rfl
    | cons it rest ih =>
      simp only [List.filter_cons, List.map_cons]
      cases orderRedefined (v it) <;> simp [ih]
  unfold exprKeyNeedsWrap guardOnViews redefinedNames
  rw [h, List.any_map]
  rfl

/-- value of a name in a projected row: the first item of that name -/
theorem lookup_project (sel : List (Name × Expr)) (g : Name × Expr → Val) (n : Name) :
    lookup (sel.map (·.1)) (sel.map g) n = match sel.find? (fun it => it.1 = n) with | some it => g it | none => .null := by
  induction sel with
  | nil => simp [lookup]
  | cons it rest ih =>
    simp only [List.map_cons, lookup, List.find?_cons]
    by_cases h : it.1 = n
    · simp [h]
    · simp [h, ih]

/-- an item that is not `redefined` is the identity item, whatever faithful view sqlglot gives of it -/
theorem not_redefined_ident (v : Name × Expr → SelItem) (hv : Faithful v) (it : Name × Expr)
    (h : orderRedefined (v it) = false) : it.2 = .col it.1 := by
  by_cases hc : ∃ m, it.2 = .col m
  · obtain ⟨m, hm⟩ := hc
    rcases hv.col_item it m hm with ⟨_, rfl⟩ | ⟨h1, h2, h3⟩
    · exact hm
    · have ha := hv.alias_name it h1
      simp [orderRedefined, h1, h2, h3, ha] at h
      rw [hm, h]
  · have hn : ∀ m, it.2 ≠ .col m := fun m hm => hc ⟨m, hm⟩
    obtain ⟨h1, h2⟩ := hv.other_item it hn
    simp [orderRedefined, h1, h2] at h

/-- a redefined item puts its own name into `redefined` -/
theorem redefined_mem (v : Name × Expr → SelItem) (hv : Faithful v) (sel : List (Name × Expr)) (it : Name × Expr)
    (hit : it ∈ sel) (h : orderRedefined (v it) = true) : it.1 ∈ redefinedNames v sel := by
  have ha : (v it).isAlias = true := by
    simp [orderRedefined] at h; exact h.1
  unfold redefinedNames
  rw [List.mem_map]
  exact ⟨it, List.mem_filter.mpr ⟨hit, h⟩, hv.alias_name it ha⟩

/-- evaluating an expression over the projected row equals evaluating it over the input row when every name it
    mentions is projected by an identity item (or not projected at all *and* absent from the input) -/
theorem eval_project_ident (sel : List (Name × Expr)) (cols : List Name) (r : Row) :
    ∀ e : Expr, (∀ n ∈ e.refs, ∃ it, sel.find? (fun it => it.1 = n) = some it ∧ it.2 = .col n) →
      eval (sel.map (·.1)) (sel.map (fun it => eval cols r it.2)) e = eval cols r e := by
  intro e
  induction e with
  | col n =>
    intro h
    obtain ⟨it, hf, hi⟩ := h n (by simp [Expr.refs])
    simp only [eval]
    rw [lookup_project, hf]
    simp [hi, eval]
  | lit v => intro _; rfl
  | bin op a b iha ihb =>
    intro h
    simp only [eval]
    rw [iha (fun n hn => h n (by simp [Expr.refs, hn])), ihb (fun n hn => h n (by simp [Expr.refs, hn]))]
  | not a ih => intro h; simp only [eval]; rw [ih (fun n hn => h n (by simpa [Expr.refs] using hn))]
  | neg a ih => intro h; simp only [eval]; rw [ih (fun n hn => h n (by simpa [Expr.refs] using hn))]
  | isNull a ih => intro h; simp only [eval]; rw [ih (fun n hn => h n (by simpa [Expr.refs] using hn))]
  | ite c t e ihc iht ihe =>
    intro h
    simp only [eval]
    rw [ihc (fun n hn => h n (by simp [Expr.refs, hn])), iht (fun n hn => h n (by simp [Expr.refs, hn])),
      ihe (fun n hn => h n (by simp [Expr.refs, hn]))]

theorem find_identSel (cols : List Name) (n : Name) (hn : n ∈ cols) :
    (identSel cols).find? (fun it => it.1 = n) = some (n, .col n) := by
  induction cols with
  | nil => cases hn
  | cons c cs ih =>
    simp only [identSel, List.map_cons, List.find?_cons]
    by_cases h : c = n
    · simp [h]
    · have : n ∈ cs := by
        cases hn with
        | head => exact absurd rfl h
        | tail _ h' => exact h'
      simp only [h, decide_false]
      exact ih this

end Sqlframe
