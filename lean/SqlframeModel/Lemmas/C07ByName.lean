/-
Lemmas/C07ByName.lean — what the *generated* list programs of `unionByName` compute.

`byNameMissing_unfold` re-states the generated fold with named loop bodies (by `rfl`: any change of
the source loops breaks it); the remaining lemmas characterise the two loops.
-/
import SqlframeModel.Lemmas.C07Bag
namespace Sqlframe
open Gen

/-- first loop of the `allowMissingColumns` branch: `for l_column in l_columns` -/
def bnLoop1 (R : List PItem) (st : BNState) (c : PItem) : BNState :=
  let st : BNState := { st with l_expressions := st.l_expressions ++ [c] }
  if c ∈ R then
    { st with r_expressions := st.r_expressions ++ [c], r_columns_unused := st.r_columns_unused.erase c }
  else
    { st with r_expressions := st.r_expressions ++ [PItem.null c.name] }

/-- second loop: `for r_column in r_columns_unused` -/
def bnLoop2 (st : BNState) (c : PItem) : BNState :=
  { st with l_expressions := st.l_expressions ++ [PItem.null c.name], r_expressions := st.r_expressions ++ [c] }

theorem byNameMissing_unfold (L R : List PItem) :
    byNameMissing L R =
      (let st := L.foldl (bnLoop1 R) { l_expressions := [], r_expressions := [], r_columns_unused := R }
       st.r_columns_unused.foldl bnLoop2 st) := by
  unfold byNameMissing bnLoop1 bnLoop2
  congr 1
  all_goals (first | rfl | (congr 1; funext st c; split <;> rfl))

theorem byNameStrict_unfold (L R : List PItem) :
    byNameStrict L R = { l_expressions := L, r_expressions := L, r_columns_unused := [] } := rfl

def rSide (R : List PItem) (c : PItem) : PItem := if c ∈ R then c else PItem.null c.name

def eraseIn (R : List PItem) (u : List PItem) (c : PItem) : List PItem := if c ∈ R then u.erase c else u

theorem bnLoop1_fold (R : List PItem) : ∀ (L : List PItem) (st : BNState),
    (L.foldl (bnLoop1 R) st).l_expressions = st.l_expressions ++ L ∧
    (L.foldl (bnLoop1 R) st).r_expressions = st.r_expressions ++ L.map (rSide R) ∧
    (L.foldl (bnLoop1 R) st).r_columns_unused = L.foldl (eraseIn R) st.r_columns_unused
  | [], st => by simp
  | c :: cs, st => by
    obtain ⟨h1, h2, h3⟩ := bnLoop1_fold R cs (bnLoop1 R st c)
    simp only [List.foldl_cons]
    rw [h1, h2, h3]
    by_cases hc : c ∈ R <;> simp [bnLoop1, rSide, eraseIn, hc]

theorem bnLoop2_fold : ∀ (U : List PItem) (st : BNState),
    (U.foldl bnLoop2 st).l_expressions = st.l_expressions ++ U.map (fun c => PItem.null c.name) ∧
    (U.foldl bnLoop2 st).r_expressions = st.r_expressions ++ U
  | [], st => by simp
  | c :: cs, st => by
    obtain ⟨h1, h2⟩ := bnLoop2_fold cs (bnLoop2 st c)
    simp only [List.foldl_cons]
    rw [h1, h2]
    simp [bnLoop2]

/-- `r_columns_unused` after the first loop: the right columns that are not left columns -/
theorem eraseIn_fold (R : List PItem) : ∀ (L u : List PItem), u.Nodup → (∀ x ∈ u, x ∈ R) →
    L.foldl (eraseIn R) u = u.filter (fun x => x ∉ L)
  | [], u, _, _ => by
    simp only [List.foldl_nil]
    exact (List.filter_eq_self.mpr (by simp)).symm
  | c :: cs, u, hnd, hsub => by
    simp only [List.foldl_cons]
    have hstep : eraseIn R u c = u.filter (fun x => x ≠ c) := by
      unfold eraseIn
      by_cases hc : c ∈ R
      · rw [if_pos hc, hnd.erase_eq_filter]
        congr 1; funext x
        by_cases hx : x = c <;> simp [hx]
      · rw [if_neg hc]
        symm
        apply List.filter_eq_self.mpr
        intro x hx
        have : x ≠ c := fun e => hc (e ▸ hsub x hx)
        simpa using this
    rw [hstep, eraseIn_fold R cs _ (hnd.filter _) (fun x hx => hsub x (List.mem_filter.mp hx).1), List.filter_filter]
    congr 1; funext x
    simp only [List.mem_cons, not_or]
    by_cases h1 : x = c <;> by_cases h2 : x ∈ cs <;> simp [h1, h2]

/-- the generated `allowMissingColumns` branch, in closed form -/
theorem byNameMissing_spec (L R : List PItem) (hR : R.Nodup) :
    (byNameMissing L R).l_expressions = L ++ (R.filter (fun x => x ∉ L)).map (fun c => PItem.null c.name) ∧
    (byNameMissing L R).r_expressions = L.map (rSide R) ++ R.filter (fun x => x ∉ L) := by
  rw [byNameMissing_unfold]
  obtain ⟨h1, h2, h3⟩ := bnLoop1_fold R L { l_expressions := [], r_expressions := [], r_columns_unused := R }
  simp only
  obtain ⟨g1, g2⟩ := bnLoop2_fold (L.foldl (bnLoop1 R) { l_expressions := [], r_expressions := [], r_columns_unused := R }).r_columns_unused
    (L.foldl (bnLoop1 R) { l_expressions := [], r_expressions := [], r_columns_unused := R })
  rw [g1, g2, h1, h2, h3, eraseIn_fold R L R hR (fun _ h => h)]
  simp

/-! ### on column names -/

theorem own_mem (c : Name) (l : List Name) : PItem.own c ∈ l.map PItem.own ↔ c ∈ l := by
  simp [List.mem_map]

theorem own_nodup (l : List Name) (h : l.Nodup) : (l.map PItem.own).Nodup := by
  induction l with
  | nil => simp
  | cons x xs ih =>
    have h' := List.nodup_cons.mp h
    rw [List.map_cons, List.nodup_cons]
    exact ⟨by rw [own_mem]; exact h'.1, ih h'.2⟩

theorem filter_own (l r : List Name) :
    (r.map PItem.own).filter (fun x => x ∉ l.map PItem.own) = (r.filter (fun c => c ∉ l)).map PItem.own := by
  induction r with
  | nil => rfl
  | cons c cs ih =>
    simp only [List.map_cons, List.filter_cons]
    by_cases hc : c ∈ l
    · have h1 : decide (¬ PItem.own c ∈ List.map PItem.own l) = false :=
        decide_eq_false (by rw [own_mem]; exact fun h => h hc)
      have h2 : decide (¬ c ∈ l) = false := decide_eq_false (fun h => h hc)
      rw [h1, h2]
      simpa using ih
    · have h1 : decide (¬ PItem.own c ∈ List.map PItem.own l) = true :=
        decide_eq_true (by rw [own_mem]; exact hc)
      have h2 : decide (¬ c ∈ l) = true := decide_eq_true hc
      rw [h1, h2]
      simpa using ih

/-- which entry a side with columns `cols` contributes for output column `c` -/
def sideItem (cols : List Name) (c : Name) : PItem := if c ∈ cols then .own c else .null c

/-- **the two projection lists of `unionByName(allowMissingColumns=True)`**: over the output columns
    `l ++ (r \ l)`, each side contributes its own column where it has one and `NULL AS c` otherwise -/
theorem byNameMissing_names (l r : List Name) (hr : r.Nodup) :
    (byNameMissing (l.map .own) (r.map .own)).l_expressions = (byNameCols true l r).map (sideItem l) ∧
    (byNameMissing (l.map .own) (r.map .own)).r_expressions = (byNameCols true l r).map (sideItem r) := by
  obtain ⟨h1, h2⟩ := byNameMissing_spec (l.map .own) (r.map .own) (own_nodup r hr)
  rw [h1, h2, filter_own]
  simp only [byNameCols, if_true, List.map_append, List.map_map]
  refine ⟨?_, ?_⟩
  · congr 1
    · apply List.map_congr_left; intro c hc; simp [sideItem, hc]
    · apply List.map_congr_left; intro c hc
      have := (List.mem_filter.mp hc).2
      simp at this
      simp [sideItem, this, PItem.name]
  · congr 1
    · apply List.map_congr_left; intro c _
      simp only [Function.comp, rSide, own_mem, sideItem, PItem.name]
    · apply List.map_congr_left; intro c hc
      have := (List.mem_filter.mp hc).1
      simp [sideItem, this]

theorem sideItem_name (cols : List Name) (c : Name) : (sideItem cols c).toItem.1 = c := by
  unfold sideItem; split <;> rfl

theorem byNameCols_nodup (am : Bool) (l r : List Name) (hl : l.Nodup) (hr : r.Nodup) : (byNameCols am l r).Nodup := by
  cases am
  · simpa [byNameCols] using hl
  · simp only [byNameCols, if_true]
    rw [List.nodup_append]
    refine ⟨hl, hr.filter _, ?_⟩
    intro a ha b hb e
    subst e
    have := (List.mem_filter.mp hb).2
    simp [ha] at this

end Sqlframe
