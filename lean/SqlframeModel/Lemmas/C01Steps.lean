/-
Lemmas/C01Steps.lean — per-clause lemmas: adding a clause to a ready block equals applying the
PySpark operation to the block's result; and the names of the projection lists built by the
select-family bodies.
-/
import SqlframeModel.Lemmas.C01Wrap
namespace Sqlframe
open Gen

/-! ### shape of a ready block -/

theorem ready_blk (d : DF) (h : Ready d) :
    d.blk = { wher := d.blk.wher, sel := identSel d.src.cols, distinct := false, order := [], limit := none } := by
  obtain ⟨h1, h2, h3, h4⟩ := h
  cases hb : d.blk; simp_all

theorem ready_eval (d : DF) (hi : Inv d) (h : Ready d) :
    d.eval = { cols := d.src.cols, rows := stWhere d.blk.wher d.src } := by
  simp only [DF.eval]
  rw [ready_blk d h, evalBlock_plain _ _ hi.1]

theorem ready_outNames (d : DF) (h : Ready d) : d.outNames = d.src.cols := by
  simp [DF.outNames, h.1]

/-! ### clauses -/

theorem clause_where (d : DF) (hi : Inv d) (h : Ready d) (p : Expr) :
    (bodyWhere p d).eval = d.eval.filter p := by
  rw [ready_eval d hi h]
  simp only [bodyWhere, whereAppend, if_true, DF.eval, Table.filter]
  rw [ready_blk d h]
  simp only []
  rw [evalBlock_plain _ _ hi.1]
  simp only [stWhere]
  rw [filter_all_append]

theorem clause_select (d : DF) (hi : Inv d) (h : Ready d) (items : List (Name × Expr)) :
    (bodySelect items d).eval = d.eval.project items := by
  rw [ready_eval d hi h]
  simp only [bodySelect, selectAppendDefault, DF.eval, Table.project]
  rw [ready_blk d h]
  simp [evalBlock, stLimit, stOrder, stDistinct, stSelect]

theorem clause_selectNoAppend (d : DF) (hi : Inv d) (h : Ready d) (items : List (Name × Expr)) :
    (bodySelectNoAppend dropSelectAppend items d).eval = d.eval.project items := by
  rw [ready_eval d hi h]
  simp only [bodySelectNoAppend, dropSelectAppend, DF.eval, Table.project]
  rw [ready_blk d h]
  simp [evalBlock, stLimit, stOrder, stDistinct, stSelect]

theorem clause_distinct (d : DF) (hi : Inv d) (h : Ready d) :
    (bodyDistinct d).eval = d.eval.distinct := by
  rw [ready_eval d hi h]
  simp only [bodyDistinct, DF.eval, Table.distinct]
  rw [ready_blk d h]
  simp only [evalBlock, identSel_names, stLimit, stOrder, stDistinct, if_true]
  rw [stSelect_ident d.src _ hi.1.1 (stWhere_len _ _ hi.1)]

theorem clause_orderBy (d : DF) (h : ReadyO d) (keys : List OrdKey) (hk : keys ≠ []) :
    (bodyOrderBy keys d).eval = d.eval.sort keys := by
  obtain ⟨ho, hl⟩ := h
  simp only [bodyOrderBy, orderByAppend, DF.eval, Table.sort, evalBlock, ho, hl, stLimit, stOrder]
  cases keys with
  | nil => exact absurd rfl hk
  | cons k ks => simp

theorem clause_limit (d : DF) (n : Nat) : (bodyLimit n d).eval = d.eval.limit n := by
  simp only [bodyLimit, DF.eval, Table.limit, evalBlock]
  cases hl : d.blk.limit with
  | none => simp [stLimit, mergeLimit]
  | some m => simp [stLimit, mergeLimit, limitMerge, List.take_take]

/-! ### names of the projection lists -/

theorem withColItems_names (cols : List Name) (n : Name) (e : Expr) :
    (withColItems cols n e).map (·.1) = if n ∈ cols then cols else cols ++ [n] := by
  unfold withColItems
  split
  · simp only [List.map_map]
    calc _ = cols.map id := by
            apply List.map_congr_left; intro c _; simp only [Function.comp]; split <;> simp_all
      _ = cols := by simp
  · simp

theorem withColItems_nodup (cols : List Name) (n : Name) (e : Expr) (h : cols.Nodup) :
    ((withColItems cols n e).map (·.1)).Nodup := by
  rw [withColItems_names]
  split
  · exact h
  · rename_i hn
    rw [List.nodup_append]
    refine ⟨h, by simp, ?_⟩
    intro a ha b hb
    simp at hb; subst hb
    exact fun e => hn (e ▸ ha)

theorem renameItems_nodup (cols : List Name) (a b : Name) (h : cols.Nodup) (hb : b ∉ cols) :
    ((renameItems cols a b).map (·.1)).Nodup := by
  simp only [renameItems, List.map_map, Function.comp_def]
  induction cols with
  | nil => simp
  | cons c cs ih =>
    have hc := List.nodup_cons.mp h
    simp only [List.map_cons, List.nodup_cons]
    refine ⟨?_, ih hc.2 (fun hm => hb (by simp [hm]))⟩
    intro hm
    simp only [List.mem_map] at hm
    obtain ⟨x, hx, hxe⟩ := hm
    by_cases h1 : x = a <;> by_cases h2 : c = a
    · subst h1 h2; exact hc.1 hx
    · simp [h1, h2] at hxe; subst hxe; exact hb (by simp)
    · simp [h1, h2] at hxe; subst hxe; exact hb (by simp [hx])
    · simp [h1, h2] at hxe; subst hxe; exact hc.1 hx

theorem dropItems_nodup (cols ns : List Name) (h : cols.Nodup) : ((dropItems cols ns).map (·.1)).Nodup := by
  simp only [dropItems, identSel_names]
  exact h.sublist List.filter_sublist

theorem fillItems_names (cols : List Name) (v : Val) (sub : List Name) : (fillItems cols v sub).map (·.1) = cols := by
  simp only [fillItems, List.map_map]
  calc _ = cols.map id := by
          apply List.map_congr_left; intro c _; simp only [Function.comp]; split <;> rfl
    _ = cols := by simp

theorem replaceItems_names (cols : List Name) (pairs : List (Val × Val)) (sub : List Name) : (replaceItems cols pairs sub).map (·.1) = cols := by
  simp only [replaceItems, List.map_map]
  calc _ = cols.map id := by
          apply List.map_congr_left; intro c _; simp only [Function.comp]; split <;> rfl
    _ = cols := by simp

theorem toDFItems_ident : ∀ (cols names : List Name),
    toDFItems (identSel cols) names = List.zipWith (fun c n => (n, Expr.col c)) cols names := by
  intro cols
  induction cols with
  | nil => intro names; simp [toDFItems, identSel]
  | cons c cs ih =>
    intro names
    cases names with
    | nil => simp [toDFItems, identSel]
    | cons n ns =>
      have := ih ns
      simp only [toDFItems, identSel, List.map_cons, List.zipWith_cons_cons] at this ⊢
      rw [this]

theorem zipWith_names : ∀ (cols names : List Name), names.length = cols.length →
    (List.zipWith (fun c n => (n, Expr.col c)) cols names).map (·.1) = names := by
  intro cols
  induction cols with
  | nil => intro names h; cases names <;> simp_all
  | cons c cs ih =>
    intro names h
    cases names with
    | nil => simp at h
    | cons n ns => simp only [List.zipWith_cons_cons, List.map_cons]; rw [ih ns (by simpa using h)]

end Sqlframe
