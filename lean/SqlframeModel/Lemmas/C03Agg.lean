/-
Lemmas/C03Agg.lean — `str.lower()` as the model reads it (`pyLower`) is idempotent: a name that went through
`func_name.lower()` once is looked up under the same spelling when it goes through it again.
-/
import SqlframeModel.Impl.C03Agg
namespace Sqlframe

theorem toLower_idem (c : Char) : c.toLower.toLower = c.toLower := by
  unfold Char.toLower
  split
  · rename_i h
    split
    · rename_i h2
      exfalso
      simp only [ge_iff_le] at h h2
      have h0 : 65 ≤ c.val.toNat := by
        have := UInt32.le_iff_toNat_le.mp h.1
        simpa using this
      have h3 := UInt32.le_iff_toNat_le.mp h2.2
      simp only [UInt32.toNat_add] at h3
      have e : ('a'.val - 'A'.val).toNat = 32 := by decide
      have e2 : 'Z'.val.toNat = 90 := by decide
      have h1 : c.val.toNat ≤ 90 := by
        have := UInt32.le_iff_toNat_le.mp h.2
        rw [e2] at this
        exact this
      rw [e, e2] at h3
      omega
    · rfl
  · rfl

theorem pyLower_idem (s : String) : pyLower (pyLower s) = pyLower s := by
  unfold pyLower
  rw [String.toList_ofList, List.map_map]
  congr 1
  apply List.map_congr_left
  intro c _
  exact toLower_idem c

end Sqlframe
