/-
Lemmas/C12Fns.lean — helper lemmas for the function part of C12 (Impl/C12Fns.lean).
-/
import SqlframeModel.Impl.C12Fns
namespace Sqlframe.C12
open Sqlframe.Gen

/-! ### SUBSTRING -/

/-- `SUBSTRING(s, k, LENGTH(s))` with k ≥ 1 is the whole tail `SUBSTRING(s FROM k)` -/
theorem sqlSubstr_to_end (s : Str) (k : Int) (hk : 1 ≤ k) : sqlSubstr s k s.length = sqlSubstrFrom s k := by
  unfold sqlSubstr sqlSubstrFrom
  have hlt : ¬ k < 1 := by omega
  by_cases hs : (s.length : Int) ≤ 0
  · have h0 : s.length = 0 := by omega
    have hnil : s = [] := List.eq_nil_of_length_eq_zero h0
    subst hnil
    simp
  · simp only [hs, hlt, if_false]
    have hn : (k + (s.length : Int) - k).toNat = s.length := by omega
    rw [hn]
    apply List.take_of_length_le
    simp only [List.length_drop]
    omega

/-! ### overlay: the three evaluation modes agree with the specification -/

theorem emulOverlayCore_eq (form : ArgForm) (s r : Str) (p l : Int) (hp : 1 ≤ p) (hl : 0 ≤ l)
    (hh : overlayHeadLenOffset = -1) (ht : overlayTailStartOffset = 0)
    (hk : ∀ f, overlayEmulKeepsLen f = (match f with | .omitted => false | _ => true)) :
    emulOverlayCore form s r p l = overlaySpecCore form s r p l := by
  unfold emulOverlayCore overlaySpecCore nativeOverlay
  rw [hh, ht, hk form]
  cases form
  · simp only [Bool.false_eq_true, if_false]
    have h1 : 1 ≤ p + (r.length : Int) + 0 := by omega
    rw [sqlSubstr_to_end s _ h1]
    have e1 : p + (-1 : Int) = p - 1 := by omega
    have e2 : p + (r.length : Int) + 0 = p + (r.length : Int) := by omega
    rw [e1, e2]
  · simp only [if_true]
    have h1 : 1 ≤ p + l + 0 := by omega
    rw [sqlSubstr_to_end s _ h1]
    have e1 : p + (-1 : Int) = p - 1 := by omega
    have e2 : p + l + 0 = p + l := by omega
    rw [e1, e2]
  · simp only [if_true]
    have h1 : 1 ≤ p + l + 0 := by omega
    rw [sqlSubstr_to_end s _ h1]
    have e1 : p + (-1 : Int) = p - 1 := by omega
    have e2 : p + l + 0 = p + l := by omega
    rw [e1, e2]

theorem nativeOverlayCore_eq (form : ArgForm) (s r : Str) (p l : Int)
    (hf : ∀ f, overlayNativeHasFor f = (match f with | .omitted => false | _ => true)) :
    nativeOverlayCore form s r p l = overlaySpecCore form s r p l := by
  unfold nativeOverlayCore overlaySpecCore
  rw [hf form]
  cases form <;> simp

/-- two strict evaluations agree when their cores agree on the row's (non-NULL, in-domain) operands -/
theorem strictOverlay_congr (f g : Str → Str → Int → Int → Str) (form : ArgForm) (x : OverlayRow)
    (h : ∀ s r p l, x.src = some s → x.rep = some r → x.pos = some p →
      (form = .omitted ∧ l = 0 ∨ form ≠ .omitted ∧ x.len = some l) → f s r p l = g s r p l) :
    strictOverlay f form x = strictOverlay g form x := by
  unfold strictOverlay
  cases hs : x.src with
  | none => rfl
  | some s =>
    cases hr : x.rep with
    | none => rfl
    | some r =>
      cases hp : x.pos with
      | none => rfl
      | some p =>
        cases form with
        | omitted => simp only; rw [h s r p 0 hs hr hp (Or.inl ⟨rfl, rfl⟩)]
        | pyInt =>
          cases hl : x.len with
          | none => rfl
          | some l => simp only [Option.map_some]; rw [h s r p l hs hr hp (Or.inr ⟨by simp, hl⟩)]
        | column =>
          cases hl : x.len with
          | none => rfl
          | some l => simp only [Option.map_some]; rw [h s r p l hs hr hp (Or.inr ⟨by simp, hl⟩)]

/-- DuckDB's NULL-skipping CONCAT gives the strict value when no operand is NULL -/
theorem skippingOverlay_present (form : ArgForm) (x : OverlayRow) (hall : x.allPresent form = true)
    (hk : ∀ f, overlayEmulKeepsLen f = (match f with | .omitted => false | _ => true)) :
    skippingOverlay form x = strictOverlay (emulOverlayCore form) form x := by
  unfold OverlayRow.allPresent at hall
  unfold skippingOverlay strictOverlay emulOverlayCore
  rw [hk form]
  cases hs : x.src with
  | none => simp [hs] at hall
  | some s =>
    cases hr : x.rep with
    | none => simp [hs, hr] at hall
    | some r =>
      cases hp : x.pos with
      | none => simp [hs, hr, hp] at hall
      | some p =>
        cases form with
        | omitted => simp
        | pyInt =>
          cases hl : x.len with
          | none => simp [hs, hr, hp, hl] at hall
          | some l => simp
        | column =>
          cases hl : x.len with
          | none => simp [hs, hr, hp, hl] at hall
          | some l => simp

/-! ### sequence -/

theorem sqlframeSequence_direction (a b : Int) : sqlframeSequence .direction a b = sparkSequence a b := by
  unfold sqlframeSequence sparkSequence genSeries
  by_cases h : a ≤ b
  · simp [h]
  · have hb : b ≤ a := by omega
    simp [h, hb]

theorem sqlframeSequence_const_one (a b : Int) (h : a ≤ b) : sqlframeSequence (.const 1) a b = sparkSequence a b := by
  unfold sqlframeSequence sparkSequence genSeries
  simp [h]

/-- with the constant step 1 a descending range comes out empty, Spark's does not -/
theorem sqlframeSequence_const_one_desc (a b : Int) (h : b < a) :
    sqlframeSequence (.const 1) a b = [] ∧ sparkSequence a b ≠ [] := by
  unfold sqlframeSequence sparkSequence genSeries
  have h1 : ¬ a ≤ b := by omega
  refine ⟨by simp [h1], ?_⟩
  simp only [h1, if_false]
  have : (a - b + 1).toNat = (a - b).toNat + 1 := by omega
  rw [this]
  simp [rangeDown]

/-! ### regexp_replace -/

theorem keepAll_eq_replaceAll_iff (ps : List Piece) : keepAll ps = replaceAll ps ↔ hits ps = 0 := by
  induction ps with
  | nil => simp [keepAll, replaceAll, hits]
  | cons p ps ih =>
    cases p with
    | hit => simp [keepAll, replaceAll, hits]
    | ch c => simp [keepAll, replaceAll, hits, ih]

/-- replacing only the first match equals replacing every match exactly when there is at most one match -/
theorem replaceFirst_eq_replaceAll_iff (ps : List Piece) : replaceFirst ps = replaceAll ps ↔ hits ps ≤ 1 := by
  induction ps with
  | nil => simp [replaceFirst, replaceAll, hits]
  | cons p ps ih =>
    cases p with
    | hit =>
      simp only [replaceFirst, replaceAll, hits, List.cons.injEq, true_and]
      rw [keepAll_eq_replaceAll_iff]
      omega
    | ch c => simp [replaceFirst, replaceAll, hits, ih]

end Sqlframe.C12
