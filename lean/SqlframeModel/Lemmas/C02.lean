/-
Lemmas/C02.lean — helper lemmas for the join theorems (no property statements here).
-/
import SqlframeModel.Impl.C02Prog
import SqlframeModel.Lemmas.C01Wrap
set_option linter.unusedSimpArgs false
namespace Sqlframe
open Gen

/-! ### lookup over padded / qualified / concatenated rows -/

theorem lookup_nulls (cols : List Name) (n : Nat) (c : Name) : lookup cols (nulls n) c = .null := by
  induction cols generalizing n with
  | nil => simp [lookup]
  | cons x xs ih =>
    cases n with
    | zero => simp [nulls, lookup]
    | succ m =>
      simp only [nulls, List.replicate_succ, lookup]
      split
      · rfl
      · exact ih m

theorem lookup_nil (cols : List Name) (c : Name) : lookup cols [] c = .null := by
  cases cols <;> simp [lookup]

theorem lookup_map_inj (f : Name → Name) (cols : List Name) (row : Row) (c : Name)
    (h : ∀ x ∈ cols, f x = f c → x = c) : lookup (cols.map f) row (f c) = lookup cols row c := by
  induction cols generalizing row with
  | nil => simp [lookup]
  | cons x xs ih =>
    cases row with
    | nil => simp [lookup]
    | cons v vs =>
      simp only [List.map_cons, lookup]
      by_cases hx : x = c
      · simp [hx]
      · have : f x ≠ f c := fun e => hx (h x (by simp) e)
        simp only [this, hx, if_false]
        exact ih vs (fun y hy => h y (by simp [hy]))

theorem lookup_append_left (A B : List Name) (ra rb : Row) (n : Name) (hn : n ∈ A) (hl : ra.length = A.length) :
    lookup (A ++ B) (ra ++ rb) n = lookup A ra n := by
  induction A generalizing ra with
  | nil => simp at hn
  | cons x xs ih =>
    cases ra with
    | nil => simp at hl
    | cons v vs =>
      simp only [List.cons_append, lookup]
      by_cases hx : x = n
      · simp [hx]
      · simp only [hx, if_false]
        have : n ∈ xs := by
          rcases List.mem_cons.mp hn with h | h
          · exact absurd h.symm hx
          · exact h
        exact ih vs this (by simpa using hl)

theorem lookup_append_right (A B : List Name) (ra rb : Row) (n : Name) (hn : n ∉ A) (hl : ra.length = A.length) :
    lookup (A ++ B) (ra ++ rb) n = lookup B rb n := by
  induction A generalizing ra with
  | nil =>
    have : ra = [] := by cases ra <;> simp_all
    simp [this]
  | cons x xs ih =>
    cases ra with
    | nil => simp at hl
    | cons v vs =>
      have hx : x ≠ n := fun e => hn (by simp [e])
      simp only [List.cons_append, lookup, hx, if_false]
      exact ih vs (fun h => hn (by simp [h])) (by simpa using hl)

theorem nodup_map_inj {f : Name → Name} : ∀ {cols : List Name}, (cols.map f).Nodup →
    ∀ x ∈ cols, ∀ c ∈ cols, f x = f c → x = c
  | [], _, x, hx, _, _, _ => by simp at hx
  | y :: ys, h, x, hx, c, hc, e => by
    simp only [List.map_cons, List.nodup_cons, List.mem_map, not_exists, not_and] at h
    rcases List.mem_cons.mp hx with rfl | hx'
    · rcases List.mem_cons.mp hc with rfl | hc'
      · rfl
      · exact absurd e.symm (h.1 c hc')
    · rcases List.mem_cons.mp hc with rfl | hc'
      · exact absurd e (h.1 x hx')
      · exact nodup_map_inj h.2 x hx' c hc' e

/-- the facts about a two-table FROM clause that the join theorems need -/
structure QualOK (lt rt : Name) (L R : List Name) : Prop where
  nd : (L.map (qual lt) ++ R.map (qual rt)).Nodup

theorem QualOK.left {lt rt : Name} {L R : List Name} (h : QualOK lt rt L R) (l r : Row) (c : Name)
    (hc : c ∈ L) (hl : l.length = L.length) :
    lookup (L.map (qual lt) ++ R.map (qual rt)) (l ++ r) (qual lt c) = lookup L l c := by
  have hnd := (List.nodup_append.mp h.nd).1
  rw [lookup_append_left _ _ _ _ _ (List.mem_map.mpr ⟨c, hc, rfl⟩) (by simpa using hl)]
  exact lookup_map_inj _ _ _ _ (fun x hx e => nodup_map_inj hnd x hx c hc e)

theorem QualOK.right {lt rt : Name} {L R : List Name} (h : QualOK lt rt L R) (l r : Row) (c : Name)
    (hc : c ∈ R) (hl : l.length = L.length) :
    lookup (L.map (qual lt) ++ R.map (qual rt)) (l ++ r) (qual rt c) = lookup R r c := by
  obtain ⟨_, hndr, hdis⟩ := List.nodup_append.mp h.nd
  have hnot : qual rt c ∉ L.map (qual lt) := by
    intro hm
    exact hdis _ hm _ (List.mem_map.mpr ⟨c, hc, rfl⟩) rfl
  rw [lookup_append_right _ _ _ _ _ hnot (by simpa using hl)]
  exact lookup_map_inj _ _ _ _ (fun x hx e => nodup_map_inj hndr x hx c hc e)

theorem QualOK.leftOnly {lt rt : Name} {L R : List Name} (h : QualOK lt rt L R) (l : Row) (c : Name) (hc : c ∈ L) :
    lookup (L.map (qual lt)) l (qual lt c) = lookup L l c := by
  have hnd := (List.nodup_append.mp h.nd).1
  exact lookup_map_inj _ _ _ _ (fun x hx e => nodup_map_inj hnd x hx c hc e)

/-! ### three-valued conjunction and the ON clause of a name-join -/

theorem isTrue_and3 (a b : Val) : isTrue (and3 a b) = (isTrue a && isTrue b) := by
  cases a <;> cases b <;>
    first | rfl | (rename_i x; cases x <;> rfl) | (rename_i x y; cases x <;> cases y <;> rfl)

theorem eval_foldl_and (env : List Name) (row : Row) (es : List Expr) (acc : Expr) :
    isTrue (eval env row (es.foldl (fun a x => .bin .and a x) acc)) =
      (isTrue (eval env row acc) && es.all (fun e => isTrue (eval env row e))) := by
  induction es generalizing acc with
  | nil => simp
  | cons e es ih =>
    simp only [List.foldl_cons, List.all_cons]
    rw [ih]
    simp only [eval, binSem, isTrue_and3, Bool.and_assoc]

/-- the ON clause `nameJoinOn` builds is TRUE exactly when every key pair is `=`-equal -/
theorem nameJoinOn_eval (env : List Name) (row : Row) (p : KeyPair) (ps : List KeyPair) :
    onHolds env (nameJoinOn (p :: ps)) row =
      (p :: ps).all (fun q => eqTrue (lookup env row (qual q.2.1 q.1)) (lookup env row (qual q.2.2 q.1))) := by
  simp only [onHolds, nameJoinOn, List.all_cons]
  rw [show ps.foldl (fun acc q => Expr.bin .and acc (keyEqExpr q)) (keyEqExpr p) =
        (ps.map keyEqExpr).foldl (fun a x => Expr.bin .and a x) (keyEqExpr p) by
        rw [List.foldl_map]]
  rw [eval_foldl_and]
  simp only [keyEqExpr, eval, eqTrue, List.all_map, Function.comp_def]

/-! ### `joinPairs` only looks at the match predicate on the rows it is given -/

theorem all_congr_mem {α} (l : List α) (f g : α → Bool) (h : ∀ x ∈ l, f x = g x) : l.all f = l.all g := by
  induction l with
  | nil => rfl
  | cons x xs ih =>
    simp only [List.all_cons]
    rw [h x (by simp), ih (fun y hy => h y (by simp [hy]))]

theorem flatMap_congr' {α β} (l : List α) (f g : α → List β) (h : ∀ x ∈ l, f x = g x) : l.flatMap f = l.flatMap g := by
  induction l with
  | nil => rfl
  | cons x xs ih =>
    simp only [List.flatMap_cons]
    rw [h x (by simp), ih (fun y hy => h y (by simp [hy]))]

theorem joinPairs_congr (kind : JoinKind) (m m' : Row → Row → Bool) (ls rs : List Row)
    (h : ∀ l ∈ ls, ∀ r ∈ rs, m l r = m' l r) : joinPairs kind m ls rs = joinPairs kind m' ls rs := by
  have hf : ∀ l ∈ ls, rs.filter (m l) = rs.filter (m' l) := fun l hl =>
    List.filter_congr (fun r hr => h l hl r hr)
  have hany : ∀ l ∈ ls, rs.any (m l) = rs.any (m' l) := fun l hl => by
    rw [List.any_eq, List.any_eq]
    simp only [decide_eq_decide]
    exact ⟨fun ⟨r, hr, e⟩ => ⟨r, hr, by rw [← h l hl r hr]; exact e⟩, fun ⟨r, hr, e⟩ => ⟨r, hr, by rw [h l hl r hr]; exact e⟩⟩
  have hany2 : ∀ r ∈ rs, ls.any (fun l => m l r) = ls.any (fun l => m' l r) := fun r hr => by
    rw [List.any_eq, List.any_eq]
    simp only [decide_eq_decide]
    exact ⟨fun ⟨l, hl, e⟩ => ⟨l, hl, by rw [← h l hl r hr]; exact e⟩, fun ⟨l, hl, e⟩ => ⟨l, hl, by rw [h l hl r hr]; exact e⟩⟩
  have hm : ls.flatMap (fun l => (rs.filter (m l)).map (fun r => ((some l, some r) : Pair)))
      = ls.flatMap (fun l => (rs.filter (m' l)).map (fun r => ((some l, some r) : Pair))) := by
    apply flatMap_congr'; intro l hl; rw [hf l hl]
  have hl : (ls.filter (fun l => !(rs.any (m l)))) = (ls.filter (fun l => !(rs.any (m' l)))) :=
    List.filter_congr (fun l hl => by rw [hany l hl])
  have hl2 : (ls.filter (fun l => rs.any (m l))) = (ls.filter (fun l => rs.any (m' l))) :=
    List.filter_congr (fun l hl => by rw [hany l hl])
  have hr : (rs.filter (fun r => !(ls.any (fun l => m l r)))) = (rs.filter (fun r => !(ls.any (fun l => m' l r)))) :=
    List.filter_congr (fun r hr => by rw [hany2 r hr])
  cases kind <;> simp only [joinPairs, hm, hl, hl2, hr]

/-- a cross join is an inner join whose condition is always true -/
theorem joinPairs_cross (m : Row → Row → Bool) (ls rs : List Row) :
    joinPairs .cross m ls rs = joinPairs .inner (fun _ _ => true) ls rs := by
  simp only [joinPairs]
  apply flatMap_congr'; intro l _
  rw [filter_true]

/-- every pair a join produces is made of rows of its inputs -/
theorem joinPairs_mem (kind : JoinKind) (m : Row → Row → Bool) (ls rs : List Row) (p : Pair)
    (hp : p ∈ joinPairs kind m ls rs) : (∀ l, p.1 = some l → l ∈ ls) ∧ (∀ r, p.2 = some r → r ∈ rs) := by
  have key : ∀ (q : Pair), (q ∈ ls.flatMap (fun l => (rs.filter (m l)).map (fun r => ((some l, some r) : Pair))) ∨
      q ∈ ls.flatMap (fun l => rs.map (fun r => ((some l, some r) : Pair))) ∨
      (∃ P : Row → Bool, q ∈ (ls.filter P).map (fun l => ((some l, none) : Pair))) ∨
      (∃ P : Row → Bool, q ∈ (rs.filter P).map (fun r => ((none, some r) : Pair)))) →
      (∀ l, q.1 = some l → l ∈ ls) ∧ (∀ r, q.2 = some r → r ∈ rs) := by
    intro q hq
    rcases hq with h | h | ⟨P, h⟩ | ⟨P, h⟩
    · simp only [List.mem_flatMap, List.mem_map, List.mem_filter] at h
      obtain ⟨l, hl, r, ⟨hr, _⟩, rfl⟩ := h
      exact ⟨fun _ e => (by cases e; exact hl), fun _ e => (by cases e; exact hr)⟩
    · simp only [List.mem_flatMap, List.mem_map] at h
      obtain ⟨l, hl, r, hr, rfl⟩ := h
      exact ⟨fun _ e => (by cases e; exact hl), fun _ e => (by cases e; exact hr)⟩
    · simp only [List.mem_map, List.mem_filter] at h
      obtain ⟨l, ⟨hl, _⟩, rfl⟩ := h
      exact ⟨fun _ e => (by cases e; exact hl), fun _ e => (by cases e)⟩
    · simp only [List.mem_map, List.mem_filter] at h
      obtain ⟨r, ⟨hr, _⟩, rfl⟩ := h
      exact ⟨fun _ e => (by cases e), fun _ e => (by cases e; exact hr)⟩
  apply key
  cases kind <;> simp only [joinPairs, List.mem_append] at hp
  · exact Or.inl hp
  · exact Or.inr (Or.inl hp)
  · rcases hp with h | h
    · exact Or.inl h
    · exact Or.inr (Or.inr (Or.inl ⟨_, h⟩))
  · rcases hp with h | h
    · exact Or.inl h
    · exact Or.inr (Or.inr (Or.inr ⟨_, h⟩))
  · rcases hp with (h | h) | h
    · exact Or.inl h
    · exact Or.inr (Or.inr (Or.inl ⟨_, h⟩))
    · exact Or.inr (Or.inr (Or.inr ⟨_, h⟩))
  · exact Or.inr (Or.inr (Or.inl ⟨_, hp⟩))
  · exact Or.inr (Or.inr (Or.inl ⟨_, hp⟩))

/-- a semi or anti join never produces a right row -/
theorem joinPairs_noRight (kind : JoinKind) (hk : kind.keepsRight = false) (m : Row → Row → Bool) (ls rs : List Row)
    (p : Pair) (hp : p ∈ joinPairs kind m ls rs) : p.2 = none := by
  cases kind <;> simp [JoinKind.keepsRight] at hk <;> simp only [joinPairs, List.mem_map] at hp <;>
    (obtain ⟨l, _, rfl⟩ := hp; rfl)

/-! ### `_resolve_ambiguous_columns` on the select list `join` builds -/

def SelArg.outName : SelArg → Name
  | .name c => c
  | .coalesce _ _ _ a => a

def plainNames (as : List SelArg) : List Name :=
  as.filterMap (fun a => match a with | .name c => some c | _ => none)

theorem resolveArgs_names (t : List (Name × List Name)) (b : List Name) (as : List SelArg) :
    (resolveArgs t b as).map (·.1) = as.map SelArg.outName := by
  induction as generalizing b with
  | nil => rfl
  | cons a as ih => cases a <;> simp [resolveArgs, SelArg.outName, ih]

theorem resolveArgs_append (t : List (Name × List Name)) (b : List Name) (as1 as2 : List SelArg) :
    resolveArgs t b (as1 ++ as2) = resolveArgs t b as1 ++ resolveArgs t (b ++ plainNames as1) as2 := by
  induction as1 generalizing b with
  | nil => simp [resolveArgs, plainNames]
  | cons a as ih =>
    cases a with
    | name c => simp [resolveArgs, plainNames, ih, List.append_assoc]
    | coalesce t1 t2 k al => simp [resolveArgs, plainNames, ih]

theorem plainNames_map_name (ns : List Name) : plainNames (ns.map .name) = ns := by
  induction ns with
  | nil => rfl
  | cons c cs ih => simp [plainNames] at ih ⊢; exact ih

theorem resolveName_count (t : List (Name × List Name)) (b b' : List Name) (c : Name) (h : b.count c = b'.count c) :
    resolveName t b c = resolveName t b' c := by
  simp only [resolveName, h]

/-- names that occur once in the list are each resolved against what was resolved before the list -/
theorem resolveArgs_nodup (t : List (Name × List Name)) (b : List Name) (ns : List Name) (hnd : ns.Nodup) :
    resolveArgs t b (ns.map .name) = ns.map (fun c => (c, resolveName t b c)) := by
  induction ns generalizing b with
  | nil => rfl
  | cons c cs ih =>
    have hc := List.nodup_cons.mp hnd
    simp only [List.map_cons, resolveArgs]
    rw [ih (b ++ [c]) hc.2]
    congr 1
    apply List.map_congr_left
    intro x hx
    have hne : c ≠ x := fun e => hc.1 (e ▸ hx)
    rw [resolveName_count t (b ++ [c]) b x (by simp [List.count_append, List.count_cons, hne])]

/-! ### non-key columns -/

theorem eraseKey_eq_filter {α} (k : Name) : ∀ (cvs : List (Name × α)), (cvs.map (·.1)).Nodup →
    eraseKey k cvs = cvs.filter (fun cv => cv.1 ≠ k)
  | [], _ => rfl
  | cv :: rest, h => by
    have hc : cv.1 ∉ rest.map (·.1) ∧ (rest.map (·.1)).Nodup := List.nodup_cons.mp h
    simp only [eraseKey, List.filter_cons]
    by_cases e : cv.1 = k
    · simp only [e, if_true, ne_eq, not_true_eq_false, decide_false]
      symm
      simp only [Bool.false_eq_true, if_false]
      apply List.filter_eq_self.mpr
      intro x hx
      have : x.1 ≠ k := fun ex => hc.1 (by rw [e, ← ex]; exact List.mem_map.mpr ⟨x, hx, rfl⟩)
      simpa using this
    · simp only [e, if_false, ne_eq, not_false_eq_true, decide_true, if_true]
      rw [eraseKey_eq_filter k rest hc.2]

theorem nodup_map_filter {α} (P : Name × α → Bool) (cvs : List (Name × α)) (h : (cvs.map (·.1)).Nodup) :
    ((cvs.filter P).map (·.1)).Nodup :=
  List.Nodup.sublist (List.Sublist.map _ (List.filter_sublist)) h

theorem restOf_eq_filter {α} (keys : List Name) : ∀ (cvs : List (Name × α)), (cvs.map (·.1)).Nodup →
    restOf keys cvs = cvs.filter (fun cv => cv.1 ∉ keys) := by
  induction keys with
  | nil => intro cvs _; simp [restOf, filter_true]
  | cons k ks ih =>
    intro cvs h
    have : restOf (k :: ks) cvs = restOf ks (eraseKey k cvs) := rfl
    rw [this, eraseKey_eq_filter k cvs h, ih _ (nodup_map_filter _ cvs h), List.filter_filter]
    apply List.filter_congr
    intro x _
    simp only [List.mem_cons, not_or, ne_eq, decide_not, Bool.decide_and]
    exact Bool.and_comm _ _

theorem restCols_eq_filter (cols keys : List Name) (h : cols.Nodup) :
    restCols cols keys = cols.filter (fun c => c ∉ keys) := by
  have hz : cols.zip cols = cols.map (fun c => (c, c)) := by
    induction cols with
    | nil => rfl
    | cons c cs ih => simp [ih (List.nodup_cons.mp h).2]
  simp only [restCols]
  rw [restOf_eq_filter keys _ (by rw [hz]; simpa [Function.comp_def] using h), hz, List.filter_map, List.map_map]
  simp [Function.comp_def]

/-- reading the non-key columns by name gives their positional values -/
theorem filter_lookup (P : Name → Bool) : ∀ (cols : List Name) (row : Row), cols.Nodup → row.length = cols.length →
    (cols.filter P).map (lookup cols row) = ((cols.zip row).filter (fun cv => P cv.1)).map (·.2)
  | [], [], _, _ => rfl
  | [], _ :: _, _, h => by simp at h
  | _ :: _, [], _, h => by simp at h
  | c :: cs, v :: vs, hnd, hl => by
    have hc := List.nodup_cons.mp hnd
    have ih := filter_lookup P cs vs hc.2 (by simpa using hl)
    have hrest : (cs.filter P).map (lookup (c :: cs) (v :: vs)) = (cs.filter P).map (lookup cs vs) := by
      apply List.map_congr_left
      intro x hx
      exact lookup_not_mem cs c vs v hc.1 x (List.mem_filter.mp hx).1
    simp only [List.filter_cons, List.zip_cons_cons]
    by_cases hp : P c = true
    · simp only [hp, if_true, List.map_cons, hrest, ih]
      simp [lookup]
    · simp only [hp, Bool.false_eq_true, if_false, hrest, ih]

theorem restVals_eq (cols keys : List Name) (row : Row) (h : cols.Nodup) (hl : row.length = cols.length) :
    ((cols.zip row).filter (fun (cv : Name × Val) => cv.1 ∉ keys)).map (fun cv => cv.2) =
      (restOf keys (cols.zip row)).map (fun cv => cv.2) := by
  rw [restOf_eq_filter keys _ (by rw [List.map_fst_zip (by omega)]; exact h)]


/-! ### obligations on the generated decisions (`Gen.Joins`) -/


theorem jt_kind : ∀ k : JoinKind, kindOfJoinType k.jt = some k := by intro k; cases k <;> rfl

/-! obligations on the generated decisions -/
theorem gen_selectColumns (kind : JoinKind) (L R : List Name) :
    selectColumns kind.jt L R = if kind.keepsRight then L ++ R else L := by
  cases kind <;> simp [selectColumns, JoinKind.jt, leftOnlyJoinTypes, leftOnlyKeeps, selectColumnsOrder, sideCols, JoinKind.keepsRight]

theorem gen_keyArg (kind : JoinKind) (p : KeyPair) :
    keyArg kind.jt p = if kind = .fullOuter then .coalesce p.2.1 p.2.2 p.1 p.1 else .name p.1 := by
  cases kind <;> simp [keyArg, JoinKind.jt, coalesceJoinType, coalesceArgs, sideCte]

/-! #### renderings of column names -/

def NoBacktick (n : Name) : Prop := '`' ∉ n.toList

theorem bt_toList : ("`" : String).toList = ['`'] := rfl

/-- the quote-preserving rendering tells backtick-free names apart -/
theorem quoteName_inj (a b : Name) (ha : NoBacktick a) (hb : NoBacktick b) (h : quoteName a = quoteName b) : a = b := by
  unfold quoteName at h
  cases qa : needsQuote a <;> cases qb : needsQuote b <;> simp only [qa, qb, if_true, if_false, Bool.false_eq_true] at h
  · exact h
  · exfalso; apply ha; rw [h]; simp [String.toList_append, bt_toList]
  · exfalso; apply hb; rw [← h]; simp [String.toList_append, bt_toList]
  · have := congrArg String.toList h
    simp only [String.toList_append, bt_toList, List.cons_append, List.nil_append, List.cons.injEq, true_and] at this
    exact String.ext (List.append_cancel_right this)

/-- no column is confused with a key by the rendering the de-duplication compares (`renderOK_of_noBacktick`: true whenever
    no name contains a backtick) -/
def RenderOK (cols keys : List Name) : Prop := ∀ c ∈ cols, ∀ k ∈ keys, quoteName c = quoteName k → c = k

theorem renderOK_of_noBacktick (cols keys : List Name) (hc : ∀ c ∈ cols, NoBacktick c) (hk : ∀ k ∈ keys, NoBacktick k) :
    RenderOK cols keys := fun c hcm k hkm h => quoteName_inj c k (hc c hcm) (hk k hkm) h

theorem RenderOK.mono {cols cols' keys : List Name} (h : RenderOK cols keys) (hs : ∀ c ∈ cols', c ∈ cols) : RenderOK cols' keys :=
  fun c hc k hk e => h c (hs c hc) k hk e

/-- the generated renderings agree on both sides of the de-duplication test: a select column is dropped iff it is a key -/
theorem gen_dedup_test (jt : String) (pairs : List KeyPair) (c : Name) (hr : ∀ k ∈ pairs.map (·.1), quoteName c = quoteName k → c = k) :
    (selectNameRender.apply c ∈ dedupKeyNames jt pairs) ↔ c ∈ pairs.map (·.1) := by
  have hk : dedupKeyNames jt pairs = pairs.map (fun p => quoteName p.1) := by
    simp [dedupKeyNames, dedupKeyRender, keyNameRender, Render.apply]
  rw [hk]
  simp only [selectNameRender, Render.apply, List.mem_map]
  constructor
  · rintro ⟨p, hp, e⟩
    have := hr p.1 (List.mem_map.mpr ⟨p, hp, rfl⟩) e.symm
    exact ⟨p, hp, this.symm⟩
  · rintro ⟨p, hp, e⟩
    exact ⟨p, hp, by rw [e]⟩

theorem gen_nameJoinArgs (kind : JoinKind) (L R : List Name) (pairs : List KeyPair)
    (hr : RenderOK (selectColumns kind.jt L R) (pairs.map (·.1))) :
    nameJoinArgs kind.jt L R pairs = pairs.map (keyArg kind.jt) ++
      ((selectColumns kind.jt L R).filter (fun c => c ∉ pairs.map (·.1))).map .name := by
  simp only [nameJoinArgs, keysFirst, dedupKeysOnly, if_true]
  congr 2
  apply List.filter_congr
  intro c hc
  have := gen_dedup_test kind.jt pairs c (hr c hc)
  by_cases h : c ∈ pairs.map (·.1)
  · simp [h, this.mpr h]
  · have h' : ¬ (selectNameRender.apply c ∈ dedupKeyNames kind.jt pairs) := fun x => h (this.mp x)
    simp [h, h']

theorem gen_walkOrder (kind : JoinKind) (a b : Name × List Name) :
    walkOrder kind.jt [a, b] = if kind = .rightOuter then [b, a] else [a, b] := by
  cases kind <;> simp [walkOrder, JoinKind.jt, sideOfJoinType, resolveReversed]

theorem gen_keyPairs (lt rt : Name) (Lc : List Name) : ∀ (keys : List Name), (∀ k ∈ keys, k ∈ Lc) →
    keyPairs [(lt, Lc)] rt keys = some (keys.map (fun k => (k, lt, rt)))
  | [], _ => rfl
  | k :: ks, h => by
    have hk : k ∈ Lc := h k (by simp)
    simp [keyPairs, keyLeftmostFirst, keyLookupRender, Render.apply, hk, gen_keyPairs lt rt Lc ks (fun x hx => h x (by simp [hx]))]


/-! ### where one name goes, two tables -/


theorem candidates_two (t1 t2 : Name) (C1 C2 : List Name) (c : Name) :
    candidates [(t1, C1), (t2, C2)] c = (if c ∈ C1 then [t1] else []) ++ (if c ∈ C2 then [t2] else []) := by
  by_cases h1 : c ∈ C1 <;> by_cases h2 : c ∈ C2 <;> simp [candidates, List.filter, h1, h2]

/-- first occurrence of a name the first table has -/
theorem resolveName_first (t1 t2 : Name) (C1 C2 : List Name) (b : List Name) (c : Name)
    (h1 : c ∈ C1) (hb : b.count c = 0) :
    resolveName [(t1, C1), (t2, C2)] b c = .col (qual t1 c) := by
  simp only [resolveName, candidates_two, h1, if_true, hb, pickCte]
  by_cases h2 : c ∈ C2 <;> simp [h2]

/-- a name only the second table has -/
theorem resolveName_second_only (t1 t2 : Name) (C1 C2 : List Name) (b : List Name) (c : Name)
    (h1 : c ∉ C1) (h2 : c ∈ C2) :
    resolveName [(t1, C1), (t2, C2)] b c = .col (qual t2 c) := by
  simp [resolveName, candidates_two, h1, h2, pickCte]

/-- a name only the first table has -/
theorem resolveName_first_only (t1 t2 : Name) (C1 C2 : List Name) (b : List Name) (c : Name)
    (h1 : c ∈ C1) (h2 : c ∉ C2) :
    resolveName [(t1, C1), (t2, C2)] b c = .col (qual t1 c) := by
  simp [resolveName, candidates_two, h1, h2, pickCte]

/-- second occurrence of a name both tables have -/
theorem resolveName_second (t1 t2 : Name) (C1 C2 : List Name) (b : List Name) (c : Name)
    (h1 : c ∈ C1) (h2 : c ∈ C2) (hb : b.count c = 1) :
    resolveName [(t1, C1), (t2, C2)] b c = .col (qual t2 c) := by
  simp [resolveName, candidates_two, h1, h2, pickCte, hb]

theorem evalBlock_sel_only (items : List (Name × Expr)) (src : Table) :
    evalBlock { sel := items } src =
      { cols := items.map (·.1), rows := src.rows.map (fun r => items.map (fun it => eval src.cols r it.2)) } := by
  simp [evalBlock, stLimit, stOrder, stDistinct, stSelect, stWhere, filter_true]



theorem count_one_of_mem_nodup : ∀ (l : List Name) (a : Name), l.Nodup → a ∈ l → l.count a = 1
  | [], _, _, h => by simp at h
  | x :: xs, a, hnd, h => by
    have hx := List.nodup_cons.mp hnd
    by_cases e : x = a
    · subst e
      simp [List.count_eq_zero_of_not_mem hx.1]
    · have : a ∈ xs := by
        rcases List.mem_cons.mp h with h' | h'
        · exact absurd h'.symm e
        · exact h'
      simp [e, count_one_of_mem_nodup xs a hx.2 this]

theorem nodup_filter (P : Name → Bool) (l : List Name) (h : l.Nodup) : (l.filter P).Nodup :=
  List.Nodup.sublist List.filter_sublist h

/-! the three segments of the select list a name-join builds -/
section segments
variable (lt rt : Name) (Lc Rc : List Name)

/-- left-to-right walk: a key both sides have goes to the left table -/
theorem seg_keys_ltr (keys : List Name) (hkn : keys.Nodup) (hkL : ∀ k ∈ keys, k ∈ Lc) :
    resolveArgs [(lt, Lc), (rt, Rc)] [] (keys.map .name) = keys.map (fun k => (k, Expr.col (qual lt k))) := by
  rw [resolveArgs_nodup _ _ _ hkn]
  apply List.map_congr_left
  intro k hk
  rw [resolveName_first lt rt Lc Rc [] k (hkL k hk) (by simp)]

theorem seg_left_ltr (b ns : List Name) (hnd : ns.Nodup) (hL : ∀ c ∈ ns, c ∈ Lc) (hb : ∀ c ∈ ns, b.count c = 0) :
    resolveArgs [(lt, Lc), (rt, Rc)] b (ns.map .name) = ns.map (fun c => (c, Expr.col (qual lt c))) := by
  rw [resolveArgs_nodup _ _ _ hnd]
  apply List.map_congr_left
  intro c hc
  rw [resolveName_first lt rt Lc Rc b c (hL c hc) (hb c hc)]

theorem seg_right_ltr (b ns : List Name) (hnd : ns.Nodup) (hR : ∀ c ∈ ns, c ∈ Rc)
    (hb : ∀ c ∈ ns, b.count c = if c ∈ Lc then 1 else 0) :
    resolveArgs [(lt, Lc), (rt, Rc)] b (ns.map .name) = ns.map (fun c => (c, Expr.col (qual rt c))) := by
  rw [resolveArgs_nodup _ _ _ hnd]
  apply List.map_congr_left
  intro c hc
  by_cases h1 : c ∈ Lc
  · rw [resolveName_second lt rt Lc Rc b c h1 (hR c hc) (by rw [hb c hc]; simp [h1])]
  · rw [resolveName_second_only lt rt Lc Rc b c h1 (hR c hc)]

/-- right-to-left walk (tables listed in walk order): a key both sides have goes to the right table -/
theorem seg_keys_rtl (keys : List Name) (hkn : keys.Nodup) (hkR : ∀ k ∈ keys, k ∈ Rc) :
    resolveArgs [(rt, Rc), (lt, Lc)] [] (keys.map .name) = keys.map (fun k => (k, Expr.col (qual rt k))) := by
  rw [resolveArgs_nodup _ _ _ hkn]
  apply List.map_congr_left
  intro k hk
  rw [resolveName_first rt lt Rc Lc [] k (hkR k hk) (by simp)]

theorem seg_left_rtl (b ns : List Name) (hnd : ns.Nodup) (hL : ∀ c ∈ ns, c ∈ Lc) (hnR : ∀ c ∈ ns, c ∉ Rc) :
    resolveArgs [(rt, Rc), (lt, Lc)] b (ns.map .name) = ns.map (fun c => (c, Expr.col (qual lt c))) := by
  rw [resolveArgs_nodup _ _ _ hnd]
  apply List.map_congr_left
  intro c hc
  rw [resolveName_second_only rt lt Rc Lc b c (hnR c hc) (hL c hc)]

theorem seg_right_rtl (b ns : List Name) (hnd : ns.Nodup) (hR : ∀ c ∈ ns, c ∈ Rc) (hnL : ∀ c ∈ ns, c ∉ Lc) :
    resolveArgs [(rt, Rc), (lt, Lc)] b (ns.map .name) = ns.map (fun c => (c, Expr.col (qual rt c))) := by
  rw [resolveArgs_nodup _ _ _ hnd]
  apply List.map_congr_left
  intro c hc
  rw [resolveName_first_only rt lt Rc Lc b c (hR c hc) (hnL c hc)]

/-- COALESCE items are already qualified: they are not resolved and do not count as occurrences -/
theorem seg_keys_coalesce (t : List (Name × List Name)) (b : List Name) (keys : List Name) :
    resolveArgs t b (keys.map (fun k => SelArg.coalesce lt rt k k)) =
      keys.map (fun k => (k, Expr.ite (.isNull (.col (qual lt k))) (.col (qual rt k)) (.col (qual lt k)))) := by
  induction keys with
  | nil => rfl
  | cons k ks ih => simp [resolveArgs, ih]

theorem plainNames_coalesce (keys : List Name) :
    plainNames (keys.map (fun k => SelArg.coalesce lt rt k k)) = [] := by
  induction keys with
  | nil => rfl
  | cons k ks ih => simp [plainNames] at ih ⊢

end segments


/-! ### the select list of a name-join -/


/-- the select item a name-join is meant to build for a key -/
def keyItem (kind : JoinKind) (lt rt : Name) (k : Name) : Name × Expr :=
  match kind with
  | .fullOuter => (k, .ite (.isNull (.col (qual lt k))) (.col (qual rt k)) (.col (qual lt k)))
  | .rightOuter => (k, .col (qual rt k))
  | _ => (k, .col (qual lt k))

/-- H_reversedWalkDupNames for one join: a right join whose sides share a non-key column name is out of scope -/
def NoRightCollision (kind : JoinKind) (Lc Rc keys : List Name) : Prop :=
  kind = .rightOuter → ∀ c ∈ Lc, c ∈ Rc → c ∈ keys

theorem pairs_keys (lt rt : Name) (keys : List Name) :
    (keys.map (fun k => ((k, lt, rt) : KeyPair))).map (·.1) = keys := by
  simp [Function.comp_def]

theorem nameJoin_items (kind : JoinKind) (hk : kind ≠ .cross) (lt rt : Name) (Lc Rc keys : List Name)
    (hL : Lc.Nodup) (hR : Rc.Nodup) (hkn : keys.Nodup) (hkL : ∀ k ∈ keys, k ∈ Lc) (hkR : ∀ k ∈ keys, k ∈ Rc)
    (hcoll : NoRightCollision kind Lc Rc keys) (hr : RenderOK (Lc ++ Rc) keys) :
    resolveArgs (walkOrder kind.jt [(lt, Lc), (rt, Rc)]) []
        (nameJoinArgs kind.jt Lc Rc (keys.map (fun k => (k, lt, rt)))) =
      keys.map (keyItem kind lt rt) ++ (Lc.filter (fun c => c ∉ keys)).map (fun c => (c, Expr.col (qual lt c))) ++
        (if kind.keepsRight then (Rc.filter (fun c => c ∉ keys)).map (fun c => (c, Expr.col (qual rt c))) else []) := by
  have hLr : (Lc.filter (fun c => c ∉ keys)).Nodup := nodup_filter _ Lc hL
  have hRr : (Rc.filter (fun c => c ∉ keys)).Nodup := nodup_filter _ Rc hR
  have hLm : ∀ c ∈ Lc.filter (fun c => c ∉ keys), c ∈ Lc := fun c hc => (List.mem_filter.mp hc).1
  have hRm : ∀ c ∈ Rc.filter (fun c => c ∉ keys), c ∈ Rc := fun c hc => (List.mem_filter.mp hc).1
  have hLk : ∀ c ∈ Lc.filter (fun c => c ∉ keys), c ∉ keys := fun c hc => by simpa using (List.mem_filter.mp hc).2
  have hRk : ∀ c ∈ Rc.filter (fun c => c ∉ keys), c ∉ keys := fun c hc => by simpa using (List.mem_filter.mp hc).2
  -- how often a right rest name was resolved before its turn
  have hcnt : ∀ (b : List Name), (∀ c, c ∉ keys → b.count c = 0) → ∀ c ∈ Rc.filter (fun c => c ∉ keys),
      (b ++ Lc.filter (fun c => c ∉ keys)).count c = if c ∈ Lc then 1 else 0 := by
    intro b hb c hc
    rw [List.count_append, hb c (hRk c hc)]
    by_cases h1 : c ∈ Lc
    · simp only [h1, if_true, Nat.zero_add]
      exact count_one_of_mem_nodup _ c hLr (List.mem_filter.mpr ⟨h1, by simpa using hRk c hc⟩)
    · simp only [h1, if_false, Nat.zero_add]
      exact List.count_eq_zero_of_not_mem (fun h => h1 (hLm c h))
  have hkeys0 : ∀ c, c ∉ keys → keys.count c = 0 := fun c h => List.count_eq_zero_of_not_mem h
  rw [gen_nameJoinArgs kind Lc Rc _ (by
      rw [pairs_keys, gen_selectColumns]
      exact hr.mono (fun c hc => by cases kind <;> simp_all [JoinKind.keepsRight])),
    gen_selectColumns, gen_walkOrder, pairs_keys, List.map_map]
  have hka : (fun k => keyArg kind.jt ((k, lt, rt) : KeyPair)) =
      fun k => if kind = .fullOuter then SelArg.coalesce lt rt k k else SelArg.name k := by
    funext k; rw [gen_keyArg]
  simp only [Function.comp_def, hka]
  cases kind with
  | cross => exact absurd rfl hk
  | inner =>
    simp only [JoinKind.keepsRight, if_true, reduceCtorEq, if_false, List.filter_append, List.map_append, keyItem]
    rw [resolveArgs_append, resolveArgs_append, plainNames_map_name, plainNames_map_name, List.nil_append,
      seg_keys_ltr lt rt Lc Rc keys hkn hkL,
      seg_left_ltr lt rt Lc Rc keys _ hLr hLm (fun c hc => hkeys0 c (hLk c hc)),
      seg_right_ltr lt rt Lc Rc _ _ hRr hRm (hcnt keys hkeys0)]
    simp only [List.append_assoc, List.nil_append, List.append_nil]
    rfl
  | leftOuter =>
    simp only [JoinKind.keepsRight, if_true, reduceCtorEq, if_false, List.filter_append, List.map_append, keyItem]
    rw [resolveArgs_append, resolveArgs_append, plainNames_map_name, plainNames_map_name, List.nil_append,
      seg_keys_ltr lt rt Lc Rc keys hkn hkL,
      seg_left_ltr lt rt Lc Rc keys _ hLr hLm (fun c hc => hkeys0 c (hLk c hc)),
      seg_right_ltr lt rt Lc Rc _ _ hRr hRm (hcnt keys hkeys0)]
    simp only [List.append_assoc, List.nil_append, List.append_nil]
    rfl
  | rightOuter =>
    have hc := hcoll rfl
    simp only [JoinKind.keepsRight, if_true, reduceCtorEq, if_false, List.filter_append, List.map_append, keyItem]
    rw [resolveArgs_append, resolveArgs_append, plainNames_map_name, plainNames_map_name, List.nil_append,
      seg_keys_rtl lt rt Lc Rc keys hkn hkR,
      seg_left_rtl lt rt Lc Rc keys _ hLr hLm (fun c h hr => hLk c h (hc c (hLm c h) hr)),
      seg_right_rtl lt rt Lc Rc _ _ hRr hRm (fun c h hl => hRk c h (hc c hl (hRm c h)))]
    simp only [List.append_assoc, List.nil_append, List.append_nil]
    rfl
  | fullOuter =>
    simp only [JoinKind.keepsRight, if_true, reduceCtorEq, if_false, List.filter_append, List.map_append, keyItem]
    rw [resolveArgs_append, resolveArgs_append, plainNames_coalesce, plainNames_map_name, List.nil_append,
      seg_keys_coalesce,
      seg_left_ltr lt rt Lc Rc [] _ hLr hLm (fun c _ => by simp),
      seg_right_ltr lt rt Lc Rc _ _ hRr hRm (by simpa using hcnt [] (fun c _ => by simp))]
    simp only [List.append_assoc, List.nil_append, List.append_nil]
    rfl
  | leftSemi =>
    simp only [JoinKind.keepsRight, if_true, reduceCtorEq, if_false, List.map_append, keyItem, Bool.false_eq_true]
    rw [resolveArgs_append, plainNames_map_name, List.nil_append,
      seg_keys_ltr lt rt Lc Rc keys hkn hkL,
      seg_left_ltr lt rt Lc Rc keys _ hLr hLm (fun c hc => hkeys0 c (hLk c hc))]
    simp only [List.append_assoc, List.nil_append, List.append_nil]
    rfl
  | leftAnti =>
    simp only [JoinKind.keepsRight, if_true, reduceCtorEq, if_false, List.map_append, keyItem, Bool.false_eq_true]
    rw [resolveArgs_append, plainNames_map_name, List.nil_append,
      seg_keys_ltr lt rt Lc Rc keys hkn hkL,
      seg_left_ltr lt rt Lc Rc keys _ hLr hLm (fun c hc => hkeys0 c (hLk c hc))]
    simp only [List.append_assoc, List.nil_append, List.append_nil]
    rfl


/-! ### values -/


theorem keyItem_fst (kind : JoinKind) (lt rt k : Name) : (keyItem kind lt rt k).1 = k := by
  cases kind <;> rfl

theorem lookup_getD (cols : List Name) (o : Option Row) (c : Name) :
    lookup cols (o.getD (nulls cols.length)) c = lookup cols (o.getD []) c := by
  cases o with
  | some r => rfl
  | none => simp [lookup_nulls, lookup_nil]

theorem side_len (T : Table) (h : T.WF) (o : Option Row) (ho : ∀ r, o = some r → r ∈ T.rows) :
    (o.getD (nulls T.cols.length)).length = T.cols.length := by
  cases o with
  | some r => exact h.2 r (ho r rfl)
  | none => simp [nulls]

/-- reading the non-key columns of one side through their qualified names gives PySpark's positional values -/
theorem rest_vals (cols keys : List Name) (row : Option Row) (hnd : cols.Nodup)
    (hl : (row.getD (nulls cols.length)).length = cols.length) :
    (cols.filter (fun c => c ∉ keys)).map (lookup cols (row.getD (nulls cols.length))) = restVals cols keys row := by
  simp only [restVals]
  rw [restOf_eq_filter keys _ (by rw [List.map_fst_zip (by omega)]; exact hnd)]
  exact filter_lookup (fun c => c ∉ keys) cols _ hnd hl

theorem coalesce_eval (env : List Name) (row : Row) (a b : Name) :
    eval env row (.ite (.isNull (.col a)) (.col b) (.col a)) = coalesce2 (lookup env row a) (lookup env row b) := by
  simp only [eval, isTrue, coalesce2]
  by_cases h : lookup env row a = .null <;> simp [h]




/-- one output row of the name-join block equals PySpark's row (key columns, left rest, right rest) -/
theorem nameJoin_row (kind : JoinKind) (lt rt : Name) (keys : List Name) (L R : Table)
    (hL : L.WF) (hR : R.WF) (hq : QualOK lt rt L.cols R.cols)
    (hkL : ∀ k ∈ keys, k ∈ L.cols) (hkR : ∀ k ∈ keys, k ∈ R.cols)
    (p : Pair) (h1 : ∀ l, p.1 = some l → l ∈ L.rows) (h2 : ∀ r, p.2 = some r → r ∈ R.rows)
    (hnr : kind.keepsRight = false → p.2 = none) :
    (keys.map (keyItem kind lt rt) ++ (L.cols.filter (fun c => c ∉ keys)).map (fun c => (c, Expr.col (qual lt c))) ++
        (if kind.keepsRight then (R.cols.filter (fun c => c ∉ keys)).map (fun c => (c, Expr.col (qual rt c))) else [])).map
      (fun it => eval (if kind.keepsRight then (qtable lt L).cols ++ (qtable rt R).cols else (qtable lt L).cols)
        (Pair.flat kind L.cols.length R.cols.length p) it.2) =
    keys.map (specKeyVal kind L.cols R.cols p) ++ restVals L.cols keys p.1 ++
      (if kind.keepsRight then restVals R.cols keys p.2 else []) := by
  have hll := side_len L hL p.1 h1
  have hrl := side_len R hR p.2 h2
  by_cases hkr : kind.keepsRight = true
  · -- both sides visible
    simp only [hkr, if_true, Pair.flat, qtable, List.map_append, List.map_map, Function.comp_def, eval]
    have eL : ∀ c ∈ L.cols, lookup (L.cols.map (qual lt) ++ R.cols.map (qual rt))
        (p.1.getD (nulls L.cols.length) ++ p.2.getD (nulls R.cols.length)) (qual lt c) =
        lookup L.cols (p.1.getD (nulls L.cols.length)) c := fun c hc => hq.left _ _ c hc hll
    have eR : ∀ c ∈ R.cols, lookup (L.cols.map (qual lt) ++ R.cols.map (qual rt))
        (p.1.getD (nulls L.cols.length) ++ p.2.getD (nulls R.cols.length)) (qual rt c) =
        lookup R.cols (p.2.getD (nulls R.cols.length)) c := fun c hc => hq.right _ _ c hc hll
    congr 1
    · congr 1
      · apply List.map_congr_left
        intro k hk
        cases kind <;> simp only [keyItem, specKeyVal, eval, coalesce_eval, eL k (hkL k hk), eR k (hkR k hk), lookup_getD]
      · rw [← rest_vals L.cols keys p.1 hL.1 hll]
        apply List.map_congr_left
        intro c hc
        exact eL c (List.mem_filter.mp hc).1
    · rw [← rest_vals R.cols keys p.2 hR.1 hrl]
      apply List.map_congr_left
      intro c hc
      exact eR c (List.mem_filter.mp hc).1
  · -- semi / anti: only the left side is visible
    have hkr' : kind.keepsRight = false := by simpa using hkr
    simp only [hkr', Bool.false_eq_true, if_false, Pair.flat, qtable, List.map_append, List.map_map, Function.comp_def,
      eval, List.append_nil, List.map_nil]
    have eL : ∀ c ∈ L.cols, lookup (L.cols.map (qual lt)) (p.1.getD (nulls L.cols.length)) (qual lt c) =
        lookup L.cols (p.1.getD (nulls L.cols.length)) c := fun c hc => hq.leftOnly _ c hc
    congr 1
    · apply List.map_congr_left
      intro k hk
      cases kind <;> simp [JoinKind.keepsRight] at hkr' <;>
        simp only [keyItem, specKeyVal, eval, eL k (hkL k hk), lookup_getD]
    · rw [← rest_vals L.cols keys p.1 hL.1 hll]
      apply List.map_congr_left
      intro c hc
      exact eL c (List.mem_filter.mp hc).1




/-- on rows of the right arity the ON clause a name-join builds is PySpark's USING match -/
theorem nameJoin_match (lt rt : Name) (keys : List Name) (L R : Table) (hq : QualOK lt rt L.cols R.cols)
    (hne : keys ≠ []) (hkL : ∀ k ∈ keys, k ∈ L.cols) (hkR : ∀ k ∈ keys, k ∈ R.cols)
    (l r : Row) (hl : l.length = L.cols.length) :
    onHolds ((qtable lt L).cols ++ (qtable rt R).cols) (nameJoinOn (keys.map (fun k => ((k, lt, rt) : KeyPair)))) (l ++ r) =
      keyMatch L.cols R.cols keys l r := by
  cases keys with
  | nil => exact absurd rfl hne
  | cons k ks =>
    simp only [List.map_cons]
    rw [nameJoinOn_eval]
    rw [show ((k, lt, rt) : KeyPair) :: ks.map (fun k => ((k, lt, rt) : KeyPair)) = (k :: ks).map (fun k => (k, lt, rt)) from rfl,
      List.all_map]
    simp only [keyMatch, qtable, Function.comp_def]
    apply all_congr_mem
    intro x hx
    rw [hq.left l r x (hkL x hx) hl, hq.right l r x (hkR x hx) hl]



/-! ### expression joins -/


theorem gen_exprJoinArgs (kind : JoinKind) (L R : List Name) :
    exprJoinArgs kind.jt L R = ((if kind.keepsRight then L ++ R else L)).map .name := by
  simp [exprJoinArgs, gen_selectColumns]

/-- the select list of an expression join / cross join: every left column, then every right column -/
theorem exprJoin_items (kind : JoinKind) (lt rt : Name) (Lc Rc : List Name) (hL : Lc.Nodup) (hR : Rc.Nodup)
    (hcoll : NoRightCollision kind Lc Rc []) :
    resolveArgs (walkOrder kind.jt [(lt, Lc), (rt, Rc)]) [] (exprJoinArgs kind.jt Lc Rc) =
      Lc.map (fun c => (c, Expr.col (qual lt c))) ++
        (if kind.keepsRight then Rc.map (fun c => (c, Expr.col (qual rt c))) else []) := by
  have hcnt : ∀ c ∈ Rc, ([] ++ Lc).count c = if c ∈ Lc then 1 else 0 := by
    intro c _
    by_cases h1 : c ∈ Lc
    · simp only [h1, if_true, List.nil_append]; exact count_one_of_mem_nodup _ c hL h1
    · simp only [h1, if_false, List.nil_append]; exact List.count_eq_zero_of_not_mem h1
  rw [gen_exprJoinArgs, gen_walkOrder]
  cases kind with
  | rightOuter =>
    have hc := hcoll rfl
    simp only [JoinKind.keepsRight, if_true, List.map_append]
    rw [resolveArgs_append, plainNames_map_name,
      seg_left_rtl lt rt Lc Rc [] _ hL (fun _ h => h) (fun c h hr => by simpa using hc c h hr),
      seg_right_rtl lt rt Lc Rc _ _ hR (fun _ h => h) (fun c h hl => by simpa using hc c hl h)]
  | leftSemi =>
    simp only [JoinKind.keepsRight, reduceCtorEq, if_false, Bool.false_eq_true, List.append_nil]
    rw [seg_left_ltr lt rt Lc Rc [] _ hL (fun _ h => h) (fun c _ => by simp)]
  | leftAnti =>
    simp only [JoinKind.keepsRight, reduceCtorEq, if_false, Bool.false_eq_true, List.append_nil]
    rw [seg_left_ltr lt rt Lc Rc [] _ hL (fun _ h => h) (fun c _ => by simp)]
  | _ =>
    simp only [JoinKind.keepsRight, if_true, reduceCtorEq, if_false, List.map_append]
    rw [resolveArgs_append, plainNames_map_name,
      seg_left_ltr lt rt Lc Rc [] _ hL (fun _ h => h) (fun c _ => by simp),
      seg_right_ltr lt rt Lc Rc _ _ hR (fun _ h => h) hcnt]

/-- evaluating that select list on a joined row returns the row itself -/
theorem exprJoin_row (kind : JoinKind) (lt rt : Name) (L R : Table) (hL : L.WF) (hR : R.WF)
    (hq : QualOK lt rt L.cols R.cols)
    (p : Pair) (h1 : ∀ l, p.1 = some l → l ∈ L.rows) (h2 : ∀ r, p.2 = some r → r ∈ R.rows) :
    (L.cols.map (fun c => (c, Expr.col (qual lt c))) ++
        (if kind.keepsRight then R.cols.map (fun c => (c, Expr.col (qual rt c))) else [])).map
      (fun it => eval (if kind.keepsRight then (qtable lt L).cols ++ (qtable rt R).cols else (qtable lt L).cols)
        (Pair.flat kind L.cols.length R.cols.length p) it.2) =
    Pair.flat kind L.cols.length R.cols.length p := by
  have hll := side_len L hL p.1 h1
  have hrl := side_len R hR p.2 h2
  by_cases hkr : kind.keepsRight = true
  · simp only [hkr, if_true, Pair.flat, qtable, List.map_append, List.map_map, Function.comp_def, eval]
    congr 1
    · exact (List.map_congr_left (fun c hc => hq.left _ _ c hc hll)).trans (map_lookup_self L.cols _ hL.1 hll)
    · exact (List.map_congr_left (fun c hc => hq.right _ _ c hc hll)).trans (map_lookup_self R.cols _ hR.1 hrl)
  · have hkr' : kind.keepsRight = false := by simpa using hkr
    simp only [hkr', Bool.false_eq_true, if_false, Pair.flat, qtable, List.map_append, List.map_map,
      Function.comp_def, eval, List.append_nil, List.map_nil]
    exact (List.map_congr_left (fun c hc => hq.leftOnly _ c hc)).trans (map_lookup_self L.cols _ hL.1 hll)


/-! ### `select` with star arguments -/

theorem popSeq_append_last {α} (is : List Nat) (xs : List α) (x : α) (ys : List α) (h : popSeq is xs = some ys) :
    popSeq is (xs ++ [x]) = some (ys ++ [x]) := by
  induction is generalizing xs with
  | nil => simp [popSeq] at h ⊢; rw [h]
  | cons i is ih =>
    simp only [popSeq] at h ⊢
    by_cases hi : i < xs.length
    · simp only [hi, if_true] at h
      have hi' : i < (xs ++ [x]).length := by simp; omega
      simp only [hi', if_true]
      rw [List.eraseIdx_append_of_lt_length hi]
      exact ih _ h
    · simp [hi] at h

theorem idxOf_append_single {α} (p : α → Bool) (xs : List α) (x : α) :
    idxOf p (xs ++ [x]) = idxOf p xs ++ (if p x then [xs.length] else []) := by
  simp only [idxOf, List.zipIdx_append, List.filter_append, List.map_append]
  congr 1
  by_cases h : p x <;> simp [List.zipIdx, h]

theorem popSeq_back_to_front_rev {α} (p : α → Bool) (xs : List α) :
    popSeq (idxOf p xs.reverse).reverse xs.reverse = some (xs.reverse.filter (fun x => !p x)) := by
  induction xs with
  | nil => rfl
  | cons x xs ih =>
    rw [List.reverse_cons, idxOf_append_single]
    by_cases h : p x
    · simp only [h, if_true, List.reverse_append, List.reverse_cons, List.reverse_nil, List.nil_append, List.singleton_append, popSeq]
      have : xs.reverse.length < (xs.reverse ++ [x]).length := by simp
      simp only [this, if_true]
      rw [List.eraseIdx_append_of_length_le (Nat.le_refl _)]
      simp [ih, List.filter_append, h]
    · simp only [h, Bool.false_eq_true, if_false, List.append_nil]
      rw [popSeq_append_last _ _ _ _ ih]
      simp [List.filter_append, h]

/-- popping the positions of the `p`-elements from the back removes exactly those elements -/
theorem popSeq_back_to_front {α} (p : α → Bool) (l : List α) :
    popSeq (idxOf p l).reverse l = some (l.filter (fun x => !p x)) := by
  have := popSeq_back_to_front_rev p l.reverse
  simpa using this

theorem eraseIdx_map' {α β} (f : α → β) : ∀ (l : List α) (i : Nat), (l.map f).eraseIdx i = (l.eraseIdx i).map f
  | [], _ => rfl
  | _ :: _, 0 => rfl
  | a :: as, i + 1 => by simp [List.eraseIdx, eraseIdx_map' f as i]

theorem popSeq_map {α β} (f : α → β) (is : List Nat) (l : List α) :
    popSeq is (l.map f) = (popSeq is l).map (fun r => r.map f) := by
  induction is generalizing l with
  | nil => rfl
  | cons i is ih =>
    simp only [popSeq, List.length_map]
    by_cases hi : i < l.length
    · simp only [hi, if_true]
      rw [← ih]
      congr 1
      exact eraseIdx_map' f l i
    · simp [hi]

/-- bare names resolved as expressions (`select('*')`) and as `join`'s own select arguments go the same way -/
theorem resolveAllQ_bare (t : List (Name × List Name)) (b : List Name) (ns : List Name) :
    toExprs (resolveAllQ t b (ns.map (fun n => QExpr.col none n none))) =
      some ((resolveArgs t b (ns.map .name)).map (·.2)) := by
  induction ns generalizing b with
  | nil => rfl
  | cons c cs ih =>
    simp only [List.map_cons, resolveAllQ, resolveQ, resolveArgs, toExprs, ih, resolveName]
    cases pickCte (candidates t c) (b.count c) <;> simp [QExpr.toExpr]

end Sqlframe
