/-
Lemmas/C13History.lean — wrap keeps the value; registry / frame-list lemmas for event histories.
-/
import SqlframeModel.Lemmas.C13Lexical
namespace Sqlframe.Views
open Sqlframe Sqlframe.Gen

/-! ### `_convert_leaf_to_cte` keeps the value (given a fresh CTE name) -/

/-- the new CTE name is not bound in the frame and not mentioned by it (content-hash naming) -/
def FreshName (h : Name) (fr : Frame) : Prop :=
  h ∉ names fr.ctes ∧ h ∉ fr.leaf.refs ∧ ∀ c ∈ fr.ctes, h ∉ c.2.refs

/-- what `_convert_leaf_to_cte` does when the conversion keeps the chain and clears only the leaf's WITH list -/
theorem wrap_eq (hc : cteClearedArgs = ["with"]) (hk : wrapKeepsChain = true) (nm : Namer) (fr : Frame) :
    wrap nm fr = ⟨fr.ctes ++ [(nm fr.ctes fr.leaf, fr.leaf)], .un .byName (.scan (nm fr.ctes fr.leaf))⟩ := by
  simp [wrap, movedLeaf_id hc, keptChain, hk]

theorem wrap_value (hc : cteClearedArgs = ["with"]) (hk : wrapKeepsChain = true)
    (nm : Namer) (db : Db) (fr : Frame) (hf : FreshName (nm fr.ctes fr.leaf) fr) (T : Table) :
    Evaluates db (wrap nm fr).query T ↔ ∃ T₀, Evaluates db fr.query T₀ ∧ UnOp.byName.apply T₀ = some T := by
  obtain ⟨h1, h2, h3⟩ := hf
  generalize hh : nm fr.ctes fr.leaf = h at h1 h2 h3
  have hC : (wrap nm fr).query = ⟨fr.ctes ++ [(h, fr.leaf)], .un .byName (.scan h)⟩ := by
    rw [wrap_eq hc hk]; simp [Frame.query, hh]
  have hassoc : assoc (fr.ctes ++ [(h, fr.leaf)]) h = some fr.leaf := by
    rw [assoc_append, (assoc_none_iff _ h).2 h1]; simp [assoc]
  have hclosed : ClosedIn fr.ctes (fr.ctes ++ [(h, fr.leaf)]) := by
    intro n b hb
    refine ⟨by rw [assoc_append, hb], ?_⟩
    intro m hm
    by_cases hmem : m ∈ names fr.ctes
    · exact Or.inl hmem
    · refine Or.inr ⟨hmem, ?_⟩
      have hne : m ≠ h := fun e => h3 (n, b) (assoc_some_pair_mem _ n b hb) (e ▸ hm)
      simp only [names, List.map_append, List.mem_append, List.map_cons, List.map_nil, List.mem_singleton, not_or]
      exact ⟨hmem, hne⟩
  have hleaf : ∀ f, evalBody (resolveFuel db fr.ctes f) fr.leaf
      = evalBody (resolveFuel db (fr.ctes ++ [(h, fr.leaf)]) f) fr.leaf := by
    intro f
    apply evalBody_congr_id
    intro m hm
    apply resolveFuel_embed db _ _ hclosed f m
    by_cases hmem : m ∈ names fr.ctes
    · exact Or.inl hmem
    · refine Or.inr ⟨hmem, ?_⟩
      have hne : m ≠ h := fun e => h2 (e ▸ hm)
      simp only [names, List.map_append, List.mem_append, List.map_cons, List.map_nil, List.mem_singleton, not_or]
      exact ⟨hmem, hne⟩
  rw [hC]
  constructor
  · rintro ⟨f, hf⟩
    unfold evalQueryFuel at hf
    simp only [evalBody, Option.bind_eq_some_iff] at hf
    obtain ⟨T₀, hT₀, hb⟩ := hf
    cases f with
    | zero => simp [resolveFuel, hassoc] at hT₀
    | succ f =>
      simp only [resolveFuel, hassoc] at hT₀
      exact ⟨T₀, ⟨f, by unfold evalQueryFuel Frame.query; simp only; rw [hleaf f]; exact hT₀⟩, hb⟩
  · rintro ⟨T₀, ⟨f, hf⟩, hb⟩
    refine ⟨f + 1, ?_⟩
    unfold evalQueryFuel at hf ⊢
    simp only [evalBody, resolveFuel, hassoc, Option.bind_eq_some_iff]
    unfold Frame.query at hf
    simp only at hf
    exact ⟨T₀, by rw [← hleaf f]; exact hf, hb⟩

/-- with distinct output names the wrapped frame has exactly the frame's value -/
theorem wrap_value_wf (hc : cteClearedArgs = ["with"]) (hk : wrapKeepsChain = true)
    (nm : Namer) (db : Db) (fr : Frame) (hf : FreshName (nm fr.ctes fr.leaf) fr)
    (hU : ∀ T₀, Evaluates db fr.query T₀ → T₀.WF) (T : Table) :
    Evaluates db (wrap nm fr).query T ↔ Evaluates db fr.query T := by
  rw [wrap_value hc hk nm db fr hf T]
  constructor
  · rintro ⟨T₀, h, hb⟩
    rw [byName_of_wf T₀ (hU T₀ h)] at hb
    cases hb; exact h
  · intro h
    exact ⟨T, h, byName_of_wf T (hU T h)⟩

theorem wrap_wrapped (nm : Namer) (fr : Frame) : (wrap nm fr).Wrapped :=
  ⟨nm fr.ctes fr.leaf, movedLeaf fr.leaf, by simp [wrap], rfl⟩

theorem wrap_isWrapped (nm : Namer) (fr : Frame) : (wrap nm fr).isWrapped = true := by
  simp [wrap, Frame.isWrapped]

/-- a DataFrame-level operator acts on the value -/
theorem transform_value (db : Db) (fr : Frame) (op : UnOp) (T' : Table) :
    Evaluates db (transform fr op).query T' ↔ ∃ T, Evaluates db fr.query T ∧ op.apply T = some T' := by
  unfold Evaluates evalQueryFuel transform Frame.query
  simp only [evalBody, Option.bind_eq_some_iff]
  constructor
  · rintro ⟨f, T, h1, h2⟩; exact ⟨T, ⟨f, h1⟩, h2⟩
  · rintro ⟨T, ⟨f, h1⟩, h2⟩; exact ⟨f, T, h1, h2⟩

/-- with exact catalog columns `qualify`'s eager check cannot fail where the statement is fine -/
theorem sqlFrameChecked_eq (nm : Namer) (norm : Name → Name) (db : Db) (reg : Registry) (q : Query)
    (hF : schemaFresh genCfg norm reg q = true) : sqlFrameChecked nm norm db reg q = sqlFrame nm norm reg q := by
  have : anyStale norm reg q = false := by
    unfold anyStale
    unfold schemaFresh visited at hF
    rw [List.all_eq_true] at hF
    rw [List.any_eq_false]
    intro e he
    simpa using hF e he
  unfold sqlFrameChecked qualifyFails
  simp [this]

/-! ### registry -/

theorem assoc_setAssoc_self {β : Type} (l : List (Name × β)) (k : Name) (v : β) : assoc (setAssoc l k v) k = some v := by
  simp [setAssoc, assoc]

theorem assoc_setAssoc_other {β : Type} (l : List (Name × β)) (k k' : Name) (v : β) (h : k' ≠ k) :
    assoc (setAssoc l k v) k' = assoc l k' := by
  simp only [setAssoc, assoc, if_neg (Ne.symm h)]
  have := assoc_filter_key l (fun x => decide (x ≠ k)) k'
  simp only [decide_eq_true_eq] at this
  rw [this]; simp [h]

/-! ### histories -/

theorem run_append (nm : Namer) (norm : Name → Name) (db : Db) (σ : St) (e₁ e₂ : List Ev) :
    run nm norm db σ (e₁ ++ e₂) = run nm norm db (run nm norm db σ e₁) e₂ := by
  induction e₁ generalizing σ with
  | nil => rfl
  | cons e es ih => simp [run, ih]

/-- a step only appends to the frame list -/
theorem step_frames_prefix (nm : Namer) (norm : Name → Name) (db : Db) (σ : St) (e : Ev) :
    ∃ ext, (step nm norm db σ e).frames = σ.frames ++ ext := by
  cases e with
  | create T => exact ⟨_, rfl⟩
  | register name i =>
    simp only [step]
    cases σ.frames[i]? <;> exact ⟨[], by simp⟩
  | table name => exact ⟨_, rfl⟩
  | sql q => exact ⟨_, rfl⟩
  | transform i op =>
    simp only [step]
    cases σ.frames[i]? with
    | none => exact ⟨[], by simp⟩
    | some fr => exact ⟨_, rfl⟩
  | joinBack i name k =>
    simp only [step]
    cases σ.frames[i]? with
    | none => exact ⟨[], by simp⟩
    | some fr => exact ⟨_, rfl⟩

theorem run_frames_prefix (nm : Namer) (norm : Name → Name) (db : Db) (evs : List Ev) :
    ∀ σ, ∃ ext, (run nm norm db σ evs).frames = σ.frames ++ ext := by
  induction evs with
  | nil => intro σ; exact ⟨[], by simp [run]⟩
  | cons e es ih =>
    intro σ
    obtain ⟨x, hx⟩ := step_frames_prefix nm norm db σ e
    obtain ⟨y, hy⟩ := ih (step nm norm db σ e)
    exact ⟨x ++ y, by simp [run, hy, hx]⟩

/-- does the event register a name with this registry key? -/
def Ev.registersKey (norm : Name → Name) (key : Name) : Ev → Bool
  | .register name _ => regKey norm name = key
  | _ => false

theorem step_reg_other (nm : Namer) (norm : Name → Name) (db : Db) (σ : St) (e : Ev) (key : Name)
    (h : e.registersKey norm key = false) : assoc (step nm norm db σ e).reg key = assoc σ.reg key := by
  cases e with
  | register name i =>
    simp only [step]
    cases σ.frames[i]? with
    | none => rfl
    | some fr =>
      simp only [register]
      apply assoc_setAssoc_other
      simpa [Ev.registersKey] using Ne.symm (by simpa [Ev.registersKey] using h : ¬ regKey norm name = key)
  | transform i op => simp only [step]; cases σ.frames[i]? <;> rfl
  | joinBack i name k => simp only [step]; cases σ.frames[i]? <;> rfl
  | _ => rfl

theorem run_reg_other (nm : Namer) (norm : Name → Name) (db : Db) (key : Name) (evs : List Ev)
    (h : ∀ e ∈ evs, e.registersKey norm key = false) : ∀ σ, assoc (run nm norm db σ evs).reg key = assoc σ.reg key := by
  induction evs with
  | nil => intro σ; rfl
  | cons e es ih =>
    intro σ
    simp only [run]
    rw [ih (fun e' he' => h e' (by simp [he'])), step_reg_other nm norm db σ e key (h e (by simp))]

/-- every registered frame is wrapped -/
def RegWrapped (reg : Registry) : Prop := ∀ k e, assoc reg k = some e → e.frame.isWrapped = true

theorem register_wrapped (nm : Namer) (norm : Name → Name) (reg : Registry) (name : Name) (fr : Frame) (cols : List Name)
    (hs : viewStores = .wrappedCopy) (h : RegWrapped reg) : RegWrapped (register nm norm reg name fr cols) := by
  intro k e he
  unfold register at he
  by_cases hk : k = regKey norm name
  · subst hk
    rw [assoc_setAssoc_self] at he
    cases he
    simp only [storeFrame, hs]
    exact wrap_isWrapped nm fr
  · rw [assoc_setAssoc_other _ _ _ _ hk] at he
    exact h k e he

theorem step_wrapped (nm : Namer) (norm : Name → Name) (db : Db) (hs : viewStores = .wrappedCopy) (σ : St) (e : Ev)
    (h : RegWrapped σ.reg) : RegWrapped (step nm norm db σ e).reg := by
  cases e with
  | register name i =>
    simp only [step]
    cases σ.frames[i]? with
    | none => exact h
    | some fr => exact register_wrapped nm norm σ.reg name fr _ hs h
  | transform i op => simp only [step]; cases σ.frames[i]? <;> exact h
  | joinBack i name k => simp only [step]; cases σ.frames[i]? <;> exact h
  | _ => exact h

theorem run_wrapped (nm : Namer) (norm : Name → Name) (db : Db) (hs : viewStores = .wrappedCopy) (evs : List Ev) :
    ∀ σ, RegWrapped σ.reg → RegWrapped (run nm norm db σ evs).reg := by
  induction evs with
  | nil => intro σ h; exact h
  | cons e es ih => intro σ h; exact ih _ (step_wrapped nm norm db hs σ e h)

/-- the catalog's column list of every entry is the entry's column list -/
def RegFresh (reg : Registry) : Prop := ∀ k e, assoc reg k = some e → e.stale = false

/-- a re-registration under a known key keeps the column list (the scope of `H_reregisterKeepsColumns`) -/
def Ev.keepsColumns (norm : Name → Name) (db : Db) (σ : St) : Ev → Prop
  | .register name i =>
    match σ.frames[i]?, assoc σ.reg (regKey norm name) with
    | some fr, some old => old.schemaCols = frameCols db fr
    | _, _ => True
  | _ => True

theorem step_fresh (nm : Namer) (norm : Name → Name) (db : Db) (σ : St) (e : Ev)
    (hk : viewSchemaKeptOnReregister = false ∨ e.keepsColumns norm db σ)
    (h : RegFresh σ.reg) : RegFresh (step nm norm db σ e).reg := by
  cases e with
  | register name i =>
    simp only [step]
    cases hfr : σ.frames[i]? with
    | none => exact h
    | some fr =>
      intro k e he
      simp only [register] at he
      by_cases hkey : k = regKey norm name
      · subst hkey
        rw [assoc_setAssoc_self] at he
        cases he
        simp only [Entry.stale, decide_eq_false_iff_not, Decidable.not_not]
        cases hold : assoc σ.reg (regKey norm name) with
        | none => rfl
        | some old =>
          simp only
          cases hk with
          | inl hflag => simp [hflag]
          | inr hkeep =>
            simp only [Ev.keepsColumns, hfr, hold] at hkeep
            split
            · exact hkeep
            · rfl
      · rw [assoc_setAssoc_other _ _ _ _ hkey] at he
        exact h k e he
  | transform i op => simp only [step]; cases σ.frames[i]? <;> exact h
  | joinBack i name k => simp only [step]; cases σ.frames[i]? <;> exact h
  | _ => exact h

/-- every event of the history keeps column lists on re-registration -/
def KeepsColumns (nm : Namer) (norm : Name → Name) (db : Db) : St → List Ev → Prop
  | _, [] => True
  | σ, e :: es => e.keepsColumns norm db σ ∧ KeepsColumns nm norm db (step nm norm db σ e) es

theorem run_fresh (nm : Namer) (norm : Name → Name) (db : Db) (evs : List Ev) :
    ∀ σ, (viewSchemaKeptOnReregister = false ∨ KeepsColumns nm norm db σ evs) → RegFresh σ.reg →
      RegFresh (run nm norm db σ evs).reg := by
  induction evs with
  | nil => intro σ _ h; exact h
  | cons e es ih =>
    intro σ hk h
    simp only [run]
    apply ih
    · cases hk with
      | inl hf => exact Or.inl hf
      | inr hk => exact Or.inr hk.2
    · apply step_fresh nm norm db σ e _ h
      cases hk with
      | inl hf => exact Or.inl hf
      | inr hk => exact Or.inr hk.1

/-- canonical `vals`: the registered frames evaluated with the canonical fuel -/
def canonVals (db : Db) (reg : Registry) : Name → Option Table :=
  fun k => match assoc reg k with
    | some e => evalQuery db e.frame.query
    | none => none

theorem viewVals_canon (db : Db) (reg : Registry)
    (h : ∀ k e, assoc reg k = some e → (evalQuery db e.frame.query).isSome = true) :
    ViewVals db reg (canonVals db reg) := by
  intro k e he T
  have := h k e he
  unfold canonVals
  simp only [he]
  cases hv : evalQuery db e.frame.query with
  | none => simp [hv] at this
  | some T₀ =>
    constructor
    · intro h'; cases h'; exact ⟨_, hv⟩
    · intro h'
      rw [Evaluates_det db _ T T₀ h' ⟨_, hv⟩]

end Sqlframe.Views
