/-
Lemmas/C15.lean — helper lemmas for the update / delete theorems (no property statements here).
-/
import SqlframeModel.Impl.C15Dml
namespace Sqlframe.C15
open Sqlframe Sqlframe.Gen.Dml

theorem all_congr_mem {α} (l : List α) (f g : α → Bool) (h : ∀ x ∈ l, f x = g x) : l.all f = l.all g := by
  induction l with
  | nil => rfl
  | cons a as ih =>
    simp only [List.all_cons]
    rw [h a (List.mem_cons_self ..), ih (fun x hx => h x (List.mem_cons_of_mem _ hx))]

theorem strip_mapQ (f : Qual → Qual) : ∀ e : QExpr, (e.mapQ f).strip = e.strip
  | .col _ _ => rfl
  | .lit _ => rfl
  | .bin _ a b => by simp [QExpr.mapQ, QExpr.strip, strip_mapQ f a, strip_mapQ f b]
  | .not a => by simp [QExpr.mapQ, QExpr.strip, strip_mapQ f a]
  | .neg a => by simp [QExpr.mapQ, QExpr.strip, strip_mapQ f a]
  | .isNull a => by simp [QExpr.mapQ, QExpr.strip, strip_mapQ f a]
  | .ite c t e => by simp [QExpr.mapQ, QExpr.strip, strip_mapQ f c, strip_mapQ f t, strip_mapQ f e]

theorem quals_mapQ (f : Qual → Qual) : ∀ e : QExpr, (e.mapQ f).quals = e.quals.map f
  | .col _ _ => rfl
  | .lit _ => rfl
  | .bin _ a b => by simp [QExpr.mapQ, QExpr.quals, quals_mapQ f a, quals_mapQ f b]
  | .not a => by simp [QExpr.mapQ, QExpr.quals, quals_mapQ f a]
  | .neg a => by simp [QExpr.mapQ, QExpr.quals, quals_mapQ f a]
  | .isNull a => by simp [QExpr.mapQ, QExpr.quals, quals_mapQ f a]
  | .ite c t e => by simp [QExpr.mapQ, QExpr.quals, quals_mapQ f c, quals_mapQ f t, quals_mapQ f e]

/-- a reference the user can write resolves, after the loop, in the statement on the physical table -/
theorem qmap_scope (m : Qual → Bool) (to : Qual) (hc : m .cte = true) (ht : to = .phys) (q : Qual)
    (hq : userScope q = true) : dmlScope (qmap m to q) = true := by
  subst ht
  cases q with
  | none => by_cases h : m .none = true <;> simp [qmap, h, dmlScope]
  | cte => simp [qmap, hc, dmlScope]
  | phys => simp [userScope] at hq
  | other => simp [userScope] at hq

theorem bindable_requal (m : Qual → Bool) (to : Qual) (hc : m .cte = true) (ht : to = .phys)
    (cols : List Name) (e : QExpr) (hq : ∀ q ∈ e.quals, userScope q = true) :
    bindable dmlScope cols (e.mapQ (qmap m to)) = refsIn cols e.strip := by
  have h1 : ((e.mapQ (qmap m to)).quals.all dmlScope) = true := by
    rw [quals_mapQ]
    simp only [List.all_map, List.all_eq_true, Function.comp]
    intro q hqm
    exact qmap_scope m to hc ht q (hq q hqm)
  simp [bindable, h1, strip_mapQ, refsIn]

theorem rejects_false (m : Qual → Bool) (er : Bool) (hc : m .cte = true) (e : QExpr)
    (hq : ∀ q ∈ e.quals, userScope q = true)
    (h : er = false ∨ m .none = true ∨ Qual.none ∉ e.quals) : rejects m er e = false := by
  rcases h with h | h | h
  · simp [rejects, h]
  · simp only [rejects, Bool.and_eq_false_iff, List.any_eq_false]
    right
    intro q hqm
    have := hq q hqm
    cases q <;> simp_all [userScope]
  · simp only [rejects, Bool.and_eq_false_iff, List.any_eq_false]
    right
    intro q hqm
    have := hq q hqm
    cases q with
    | none => exact absurd hqm h
    | cte => simp [hc]
    | phys => simp [userScope] at this
    | other => simp [userScope] at this

theorem flagsOk_iff (fl : Flags) (h : flagsOk fl = true) :
    fl.defaultPred = true ∧ fl.predMatches .cte = true ∧ fl.predTo = .phys ∧ fl.predAliasStripped = true ∧
    fl.rhsMatches .cte = true ∧ fl.rhsTo = .phys ∧ fl.updateTarget = .phys ∧ fl.deleteTarget = .phys ∧
    fl.buildExecutes = false ∧ fl.executeRuns = true := by
  simp only [flagsOk, Bool.and_eq_true, decide_eq_true_eq, Bool.not_eq_true'] at h
  obtain ⟨⟨⟨⟨⟨⟨⟨⟨⟨⟨⟨h1, h2⟩, h3⟩, h4⟩, h5⟩, h6⟩, h7⟩, h8⟩, h9⟩, h10⟩, _⟩, _⟩ := h
  exact ⟨h1, h2, h3, h4, h5, h6, h7, h8, h9, h10⟩

/-- the predicate the builder produces means what the user wrote and binds iff the user's columns exist -/
theorem buildPred_ok (fl : Flags) (hok : flagsOk fl = true) (p : PredIn) (cols : List Name)
    (hq : ∀ q ∈ p.quals, userScope q = true)
    (hun : fl.predElseRaises = false ∨ fl.predMatches .none = true ∨ Qual.none ∉ p.quals)
    (hstr : fl.predStringParsed = true ∨ p.isSql = false) :
    ∃ c, buildPred fl p = some (c, false) ∧ c.strip = specPred p ∧
      bindable dmlScope cols c = refsIn cols (specPred p) := by
  obtain ⟨hd, hpc, hpt, hps, _, _, _, _, _, _⟩ := flagsOk_iff fl hok
  cases p with
  | absent =>
    refine ⟨.lit (.bool fl.defaultPred), rfl, ?_, ?_⟩
    · simp [QExpr.strip, specPred, hd]
    · simp [bindable, QExpr.quals, QExpr.strip, Expr.refs, specPred, refsIn]
  | expr e al =>
    have hr := rejects_false fl.predMatches fl.predElseRaises hpc e hq hun
    refine ⟨e.mapQ (qmap fl.predMatches fl.predTo), ?_, strip_mapQ _ e, ?_⟩
    · simp [buildPred, hr, hps]
    · exact bindable_requal _ _ hpc hpt cols e hq
  | sql e txt wrapped =>
    have hparsed : (fl.predStringParsed || wrapped) = true := by
      rcases hstr with h | h
      · simp [h]
      · simp only [PredIn.isSql, Bool.not_eq_false'] at h
        simp [h]
    have hr := rejects_false fl.predMatches fl.predElseRaises hpc e hq hun
    refine ⟨e.mapQ (qmap fl.predMatches fl.predTo), ?_, strip_mapQ _ e, ?_⟩
    · simp only [buildPred, hparsed, hr]
      simp
    · exact bindable_requal _ _ hpc hpt cols e hq

theorem buildSets_ok (fl : Flags) (hok : flagsOk fl = true) (sets : List (Name × QExpr)) (cols : List Name)
    (hq : ∀ s ∈ sets, ∀ q ∈ s.2.quals, userScope q = true)
    (hun : fl.rhsElseRaises = false ∨ fl.rhsMatches .none = true ∨ ∀ s ∈ sets, Qual.none ∉ s.2.quals) :
    ∃ ss, buildSets fl sets = some ss ∧ ss.map (fun s => (s.1, s.2.strip)) = sets.map (fun s => (s.1, s.2.strip)) ∧
      setsBind cols ss = (sets.all (fun s => decide (s.1 ∈ cols) && refsIn cols s.2.strip) && decide (sets.map (·.1)).Nodup) := by
  obtain ⟨_, _, _, _, hrc, hrt, _, _, _, _⟩ := flagsOk_iff fl hok
  have hrej : sets.any (fun s => rejects fl.rhsMatches fl.rhsElseRaises s.2) = false := by
    simp only [List.any_eq_false]
    intro s hs
    have : rejects fl.rhsMatches fl.rhsElseRaises s.2 = false := by
      apply rejects_false _ _ hrc s.2 (hq s hs)
      rcases hun with h | h | h
      · exact Or.inl h
      · exact Or.inr (Or.inl h)
      · exact Or.inr (Or.inr (h s hs))
    simp [this]
  refine ⟨sets.map (fun s => (s.1, s.2.mapQ (qmap fl.rhsMatches fl.rhsTo))), ?_, ?_, ?_⟩
  · simp [buildSets, hrej]
  · simp [List.map_map, Function.comp_def, strip_mapQ]
  · simp only [setsBind, List.map_map, Function.comp_def, List.all_map]
    congr 1
    apply all_congr_mem
    intro s hs
    rw [bindable_requal _ _ hrc hrt cols s.2 (hq s hs)]

end Sqlframe.C15
