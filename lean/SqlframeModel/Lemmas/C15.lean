/-
Lemmas/C15.lean — helper lemmas for the update / delete theorems (no property statements here).
-/
import SqlframeModel.Impl.C15Dml
namespace Sqlframe.C15
open Sqlframe Sqlframe.Gen.Dml

theorem all_congr_mem {α} (l : List α) (f g : α → Bool) (h : ∀ x ∈ l, f x = g x) : l.all f = l.all g := by
  induction l with
  | nil => rfl
  | cons a as ih =>
    simp only [List.all_cons]
    rw [h a (List.mem_cons_self ..), ih (fun x hx => h x (List.mem_cons_of_mem _ hx))]

theorem quals_mapQ (f : Qual → Qual) : ∀ e : QExpr, (e.mapQ f).quals = e.quals.map f := by
  intro e
  induction e with
  | col q n => rfl
  | lit v => rfl
  | tok r d => rfl
  | bin op a b iha ihb => simp [QExpr.mapQ, QExpr.quals, iha, ihb]
  | not a ih => simp [QExpr.mapQ, QExpr.quals, ih]
  | neg a ih => simp [QExpr.mapQ, QExpr.quals, ih]
  | isNull a ih => simp [QExpr.mapQ, QExpr.quals, ih]
  | ite c t e ihc iht ihe => simp [QExpr.mapQ, QExpr.quals, ihc, iht, ihe]
  | inList a vs ih => simp [QExpr.mapQ, QExpr.quals, ih]
  | like a p ih => simp [QExpr.mapQ, QExpr.quals, ih]
  | inSub a s w iha ihs ihw => simp [QExpr.mapQ, QExpr.quals, iha, ihs, ihw]
  | exists_ w ih => simp [QExpr.mapQ, QExpr.quals, ih]

/-- an expression over the row's own values has no reference inside a subquery -/
theorem flat_noCapture (oc : List Name) : ∀ e : QExpr, e.flat = true → e.noCapture oc false = true := by
  intro e
  induction e with
  | col q n => intro _; simp [QExpr.noCapture]
  | lit v => intro _; rfl
  | tok r d => intro _; rfl
  | bin op a b iha ihb => intro h; simp only [QExpr.flat, Bool.and_eq_true] at h; simp [QExpr.noCapture, iha h.1, ihb h.2]
  | not a ih => intro h; exact ih h
  | neg a ih => intro h; exact ih h
  | isNull a ih => intro h; exact ih h
  | ite c t e ihc iht ihe =>
    intro h; simp only [QExpr.flat, Bool.and_eq_true] at h
    simp [QExpr.noCapture, ihc h.1.1, iht h.1.2, ihe h.2]
  | inList a vs ih => intro h; exact ih h
  | like a p ih => intro h; exact ih h
  | inSub a s w _ _ _ => intro h; simp [QExpr.flat] at h
  | exists_ w _ => intro h; simp [QExpr.flat] at h

/-! ### the re-qualification rewrite preserves values and binding -/

/-- one reference: re-targeting `table['c']` (and, when the loop also matches bare names, a bare name
    that no enclosing subquery could claim) to the physical table reads the same value -/
theorem resolve_qmap (m : Qual → Bool) (to : Qual) (ht : to = .phys) (hs : m .sub = false)
    (O : Table) (cols : List Name) (r : Row) (inner : List Row) (q : Qual) (n : Name)
    (hcap : m .none = false ∨ (QExpr.col q n).noCapture O.cols (!inner.isEmpty) = true) :
    resolve O cols r inner (qmap m to q) n = resolve O cols r inner q n := by
  subst ht
  cases q with
  | none =>
    by_cases hm : m .none = true
    · have hc : (QExpr.col Qual.none n).noCapture O.cols (!inner.isEmpty) = true := by
        rcases hcap with h | h
        · rw [hm] at h; exact absurd h (by decide)
        · exact h
      cases inner with
      | nil => simp [qmap, hm, resolve]
      | cons i rest =>
        simp [QExpr.noCapture] at hc
        simp [qmap, hm, resolve, hc]
    · simp [qmap, hm]
  | sub => simp [qmap, hs]
  | cte => by_cases hm : m .cte = true <;> simp [qmap, hm, resolve]
  | phys => by_cases hm : m .phys = true <;> simp [qmap, hm]
  | other => by_cases hm : m .other = true <;> simp [qmap, hm, resolve]

theorem evalS_requal (m : Qual → Bool) (to : Qual) (ht : to = .phys) (hs : m .sub = false)
    (O : Table) (cols : List Name) (r : Row) :
    ∀ (e : QExpr) (inner : List Row), (m .none = false ∨ e.noCapture O.cols (!inner.isEmpty) = true) →
      evalS O cols r (e.mapQ (qmap m to)) inner = evalS O cols r e inner := by
  intro e
  induction e with
  | col q n => intro inner h; simp only [QExpr.mapQ, evalS]; exact resolve_qmap m to ht hs O cols r inner q n h
  | lit v => intro _ _; rfl
  | tok rw d => intro _ _; rfl
  | bin op a b iha ihb =>
    intro inner h
    have h' : (m .none = false ∨ a.noCapture O.cols (!inner.isEmpty) = true) ∧ (m .none = false ∨ b.noCapture O.cols (!inner.isEmpty) = true) := by
      rcases h with h | h
      · exact ⟨Or.inl h, Or.inl h⟩
      · simp only [QExpr.noCapture, Bool.and_eq_true] at h; exact ⟨Or.inr h.1, Or.inr h.2⟩
    simp only [QExpr.mapQ, evalS, iha inner h'.1, ihb inner h'.2]
  | not a ih => intro inner h; simp only [QExpr.mapQ, evalS, ih inner h]
  | neg a ih => intro inner h; simp only [QExpr.mapQ, evalS, ih inner h]
  | isNull a ih => intro inner h; simp only [QExpr.mapQ, evalS, ih inner h]
  | ite c t e ihc iht ihe =>
    intro inner h
    have h' : (m .none = false ∨ c.noCapture O.cols (!inner.isEmpty) = true) ∧ (m .none = false ∨ t.noCapture O.cols (!inner.isEmpty) = true)
        ∧ (m .none = false ∨ e.noCapture O.cols (!inner.isEmpty) = true) := by
      rcases h with h | h
      · exact ⟨Or.inl h, Or.inl h, Or.inl h⟩
      · simp only [QExpr.noCapture, Bool.and_eq_true] at h; exact ⟨Or.inr h.1.1, Or.inr h.1.2, Or.inr h.2⟩
    simp only [QExpr.mapQ, evalS, ihc inner h'.1, iht inner h'.2.1, ihe inner h'.2.2]
  | inList a vs ih => intro inner h; simp only [QExpr.mapQ, evalS, ih inner h]
  | like a p ih => intro inner h; simp only [QExpr.mapQ, evalS, ih inner h]
  | inSub a s w iha ihs ihw =>
    intro inner h
    have h' : (m .none = false ∨ a.noCapture O.cols (!inner.isEmpty) = true) ∧ (m .none = false ∨ s.noCapture O.cols true = true)
        ∧ (m .none = false ∨ w.noCapture O.cols true = true) := by
      rcases h with h | h
      · exact ⟨Or.inl h, Or.inl h, Or.inl h⟩
      · simp only [QExpr.noCapture, Bool.and_eq_true] at h; exact ⟨Or.inr h.1.1, Or.inr h.1.2, Or.inr h.2⟩
    have e1 : (fun i => isTrue (evalS O cols r (w.mapQ (qmap m to)) (i :: inner))) = (fun i => isTrue (evalS O cols r w (i :: inner))) := by
      funext i; rw [ihw (i :: inner) (by simpa using h'.2.2)]
    have e2 : (fun i => evalS O cols r (s.mapQ (qmap m to)) (i :: inner)) = (fun i => evalS O cols r s (i :: inner)) := by
      funext i; rw [ihs (i :: inner) (by simpa using h'.2.1)]
    simp only [QExpr.mapQ, evalS, iha inner h'.1, e1, e2]
  | exists_ w ih =>
    intro inner h
    have h' : m .none = false ∨ w.noCapture O.cols true = true := by
      rcases h with h | h
      · exact Or.inl h
      · exact Or.inr (by simpa [QExpr.noCapture] using h)
    have e1 : (fun i => isTrue (evalS O cols r (w.mapQ (qmap m to)) (i :: inner))) = (fun i => isTrue (evalS O cols r w (i :: inner))) := by
      funext i; rw [ih (i :: inner) (by simpa using h')]
    simp only [QExpr.mapQ, evalS, e1]

theorem binds_requal (m : Qual → Bool) (to : Qual) (hc : m .cte = true) (ht : to = .phys) (hs : m .sub = false)
    (ocols cols : List Name) :
    ∀ (e : QExpr) (ins : Bool), (∀ q ∈ e.quals, userScope q = true) → (m .none = false ∨ e.noCapture ocols ins = true) →
      binds dmlScope ocols cols (e.mapQ (qmap m to)) ins = binds userScope ocols cols e ins := by
  subst ht
  intro e
  induction e with
  | col q n =>
    intro ins hq h
    have hu := hq q (by simp [QExpr.quals])
    cases q with
    | none =>
      by_cases hm : m .none = true
      · have hc' : (QExpr.col Qual.none n).noCapture ocols ins = true := by
          rcases h with h | h
          · rw [hm] at h; exact absurd h (by decide)
          · exact h
        simp [QExpr.noCapture] at hc'
        cases ins with
        | false => simp [QExpr.mapQ, qmap, hm, binds, dmlScope]
        | true =>
          have : n ∉ ocols := by simpa using hc'
          simp [QExpr.mapQ, qmap, hm, binds, dmlScope, this]
      · simp [QExpr.mapQ, qmap, hm, binds]
    | cte => simp [QExpr.mapQ, qmap, hc, binds, dmlScope, userScope]
    | sub => simp [QExpr.mapQ, qmap, hs, binds]
    | phys => simp [userScope] at hu
    | other => simp [userScope] at hu
  | lit v => intro _ _ _; rfl
  | tok rw d => intro _ _ _; rfl
  | bin op a b iha ihb =>
    intro ins hq h
    have hqa : ∀ q ∈ a.quals, userScope q = true := fun q hq' => hq q (by simp [QExpr.quals, hq'])
    have hqb : ∀ q ∈ b.quals, userScope q = true := fun q hq' => hq q (by simp [QExpr.quals, hq'])
    have h' : (m .none = false ∨ a.noCapture ocols ins = true) ∧ (m .none = false ∨ b.noCapture ocols ins = true) := by
      rcases h with h | h
      · exact ⟨Or.inl h, Or.inl h⟩
      · simp only [QExpr.noCapture, Bool.and_eq_true] at h; exact ⟨Or.inr h.1, Or.inr h.2⟩
    simp only [QExpr.mapQ, binds, iha ins hqa h'.1, ihb ins hqb h'.2]
  | not a ih => intro ins hq h; simp only [QExpr.mapQ, binds]; exact ih ins hq h
  | neg a ih => intro ins hq h; simp only [QExpr.mapQ, binds]; exact ih ins hq h
  | isNull a ih => intro ins hq h; simp only [QExpr.mapQ, binds]; exact ih ins hq h
  | ite c t e ihc iht ihe =>
    intro ins hq h
    have hqc : ∀ q ∈ c.quals, userScope q = true := fun q hq' => hq q (by simp [QExpr.quals, hq'])
    have hqt : ∀ q ∈ t.quals, userScope q = true := fun q hq' => hq q (by simp [QExpr.quals, hq'])
    have hqe : ∀ q ∈ e.quals, userScope q = true := fun q hq' => hq q (by simp [QExpr.quals, hq'])
    have h' : (m .none = false ∨ c.noCapture ocols ins = true) ∧ (m .none = false ∨ t.noCapture ocols ins = true)
        ∧ (m .none = false ∨ e.noCapture ocols ins = true) := by
      rcases h with h | h
      · exact ⟨Or.inl h, Or.inl h, Or.inl h⟩
      · simp only [QExpr.noCapture, Bool.and_eq_true] at h; exact ⟨Or.inr h.1.1, Or.inr h.1.2, Or.inr h.2⟩
    simp only [QExpr.mapQ, binds, ihc ins hqc h'.1, iht ins hqt h'.2.1, ihe ins hqe h'.2.2]
  | inList a vs ih => intro ins hq h; simp only [QExpr.mapQ, binds]; exact ih ins hq h
  | like a p ih => intro ins hq h; simp only [QExpr.mapQ, binds]; exact ih ins hq h
  | inSub a s w iha ihs ihw =>
    intro ins hq h
    have hqa : ∀ q ∈ a.quals, userScope q = true := fun q hq' => hq q (by simp [QExpr.quals, hq'])
    have hqs : ∀ q ∈ s.quals, userScope q = true := fun q hq' => hq q (by simp [QExpr.quals, hq'])
    have hqw : ∀ q ∈ w.quals, userScope q = true := fun q hq' => hq q (by simp [QExpr.quals, hq'])
    have h' : (m .none = false ∨ a.noCapture ocols ins = true) ∧ (m .none = false ∨ s.noCapture ocols true = true)
        ∧ (m .none = false ∨ w.noCapture ocols true = true) := by
      rcases h with h | h
      · exact ⟨Or.inl h, Or.inl h, Or.inl h⟩
      · simp only [QExpr.noCapture, Bool.and_eq_true] at h; exact ⟨Or.inr h.1.1, Or.inr h.1.2, Or.inr h.2⟩
    simp only [QExpr.mapQ, binds, iha ins hqa h'.1, ihs true hqs h'.2.1, ihw true hqw h'.2.2]
  | exists_ w ih =>
    intro ins hq h
    have h' : m .none = false ∨ w.noCapture ocols true = true := by
      rcases h with h | h
      · exact Or.inl h
      · exact Or.inr (by simpa [QExpr.noCapture] using h)
    simp only [QExpr.mapQ, binds]
    exact ih true hq h'

/-! ### reading SQL text -/

theorem unescape_id : ∀ l : List Char, '\\' ∉ l → unescape l = l := by
  intro l
  induction l with
  | nil => intro _; rfl
  | cons c rest ih =>
    intro h
    have hc : c ≠ '\\' := fun hc => h (by simp [hc])
    have hr : '\\' ∉ rest := fun hr => h (List.mem_cons_of_mem _ hr)
    rw [unescape.eq_def]
    simp [hc, ih hr]

/-- Spark SQL's own lexer reads every token the way the specification does -/
theorem readTok_spark : ∀ e : QExpr, e.readTok sparkLex = e := by
  intro e
  induction e with
  | col q n => rfl
  | lit v => rfl
  | tok r d => simp [QExpr.readTok, sparkLex]
  | bin op a b iha ihb => simp [QExpr.readTok, iha, ihb]
  | not a ih => simp [QExpr.readTok, ih]
  | neg a ih => simp [QExpr.readTok, ih]
  | isNull a ih => simp [QExpr.readTok, ih]
  | ite c t e ihc iht ihe => simp [QExpr.readTok, ihc, iht, ihe]
  | inList a vs ih => simp [QExpr.readTok, ih]
  | like a p ih => simp [QExpr.readTok, ih]
  | inSub a s w iha ihs ihw => simp [QExpr.readTok, iha, ihs, ihw]
  | exists_ w ih => simp [QExpr.readTok, ih]

/-- a text without double-quoted tokens and backslashes: every lexer's reading has the same
    references, … -/
theorem readTok_plain_quals (lx : Lex) : ∀ e : QExpr, e.plainToks = true → (e.readTok lx).quals = e.quals := by
  intro e
  induction e with
  | col q n => intro _; rfl
  | lit v => intro _; rfl
  | tok r d =>
    intro h
    simp only [QExpr.plainToks, Bool.and_eq_true, Bool.not_eq_true'] at h
    simp only [QExpr.readTok, h.1, Bool.false_and]
    cases lx.escapes <;> rfl
  | bin op a b iha ihb => intro h; simp only [QExpr.plainToks, Bool.and_eq_true] at h; simp [QExpr.readTok, QExpr.quals, iha h.1, ihb h.2]
  | not a ih => intro h; exact ih h
  | neg a ih => intro h; exact ih h
  | isNull a ih => intro h; exact ih h
  | ite c t e ihc iht ihe =>
    intro h; simp only [QExpr.plainToks, Bool.and_eq_true] at h
    simp [QExpr.readTok, QExpr.quals, ihc h.1.1, iht h.1.2, ihe h.2]
  | inList a vs ih => intro h; exact ih h
  | like a p ih => intro h; exact ih h
  | inSub a s w iha ihs ihw =>
    intro h; simp only [QExpr.plainToks, Bool.and_eq_true] at h
    simp [QExpr.readTok, QExpr.quals, iha h.1.1, ihs h.1.2, ihw h.2]
  | exists_ w ih => intro h; simp only [QExpr.readTok, QExpr.quals]; exact ih h

/-- … the same capture profile, … -/
theorem readTok_plain_noCapture (lx : Lex) (oc : List Name) :
    ∀ (e : QExpr) (ins : Bool), e.plainToks = true → (e.readTok lx).noCapture oc ins = e.noCapture oc ins := by
  intro e
  induction e with
  | col q n => intro _ _; rfl
  | lit v => intro _ _; rfl
  | tok r d =>
    intro ins h
    simp only [QExpr.plainToks, Bool.and_eq_true, Bool.not_eq_true'] at h
    simp only [QExpr.readTok, h.1, Bool.false_and]
    cases lx.escapes <;> rfl
  | bin op a b iha ihb => intro ins h; simp only [QExpr.plainToks, Bool.and_eq_true] at h; simp [QExpr.readTok, QExpr.noCapture, iha ins h.1, ihb ins h.2]
  | not a ih => intro ins h; exact ih ins h
  | neg a ih => intro ins h; exact ih ins h
  | isNull a ih => intro ins h; exact ih ins h
  | ite c t e ihc iht ihe =>
    intro ins h; simp only [QExpr.plainToks, Bool.and_eq_true] at h
    simp [QExpr.readTok, QExpr.noCapture, ihc ins h.1.1, iht ins h.1.2, ihe ins h.2]
  | inList a vs ih => intro ins h; exact ih ins h
  | like a p ih => intro ins h; exact ih ins h
  | inSub a s w iha ihs ihw =>
    intro ins h; simp only [QExpr.plainToks, Bool.and_eq_true] at h
    simp [QExpr.readTok, QExpr.noCapture, iha ins h.1.1, ihs true h.1.2, ihw true h.2]
  | exists_ w ih => intro ins h; simp only [QExpr.readTok, QExpr.noCapture]; exact ih true h

/-- … binds the same way, … -/
theorem readTok_plain_binds (lx : Lex) (sc : Qual → Bool) (oc cols : List Name) :
    ∀ (e : QExpr) (ins : Bool), e.plainToks = true → binds sc oc cols (e.readTok lx) ins = binds sc oc cols e ins := by
  intro e
  induction e with
  | col q n => intro _ _; rfl
  | lit v => intro _ _; rfl
  | tok r d =>
    intro ins h
    simp only [QExpr.plainToks, Bool.and_eq_true, Bool.not_eq_true'] at h
    simp only [QExpr.readTok, h.1, Bool.false_and]
    cases lx.escapes <;> rfl
  | bin op a b iha ihb => intro ins h; simp only [QExpr.plainToks, Bool.and_eq_true] at h; simp [QExpr.readTok, binds, iha ins h.1, ihb ins h.2]
  | not a ih => intro ins h; exact ih ins h
  | neg a ih => intro ins h; exact ih ins h
  | isNull a ih => intro ins h; exact ih ins h
  | ite c t e ihc iht ihe =>
    intro ins h; simp only [QExpr.plainToks, Bool.and_eq_true] at h
    simp [QExpr.readTok, binds, ihc ins h.1.1, iht ins h.1.2, ihe ins h.2]
  | inList a vs ih => intro ins h; exact ih ins h
  | like a p ih => intro ins h; exact ih ins h
  | inSub a s w iha ihs ihw =>
    intro ins h; simp only [QExpr.plainToks, Bool.and_eq_true] at h
    simp [QExpr.readTok, binds, iha ins h.1.1, ihs true h.1.2, ihw true h.2]
  | exists_ w ih => intro ins h; simp only [QExpr.readTok, binds]; exact ih true h

/-- … and the same value -/
theorem readTok_plain_eval (lx : Lex) (O : Table) (cols : List Name) (r : Row) :
    ∀ (e : QExpr) (inner : List Row), e.plainToks = true → evalS O cols r (e.readTok lx) inner = evalS O cols r e inner := by
  intro e
  induction e with
  | col q n => intro _ _; rfl
  | lit v => intro _ _; rfl
  | tok rw d =>
    intro inner h
    simp only [QExpr.plainToks, Bool.and_eq_true, Bool.not_eq_true', decide_eq_true_eq] at h
    simp only [QExpr.readTok, h.1, Bool.false_and]
    cases lx.escapes
    · simp [evalS, tokVal, unescape_id _ h.2]
    · rfl
  | bin op a b iha ihb => intro inner h; simp only [QExpr.plainToks, Bool.and_eq_true] at h; simp only [QExpr.readTok, evalS, iha inner h.1, ihb inner h.2]
  | not a ih => intro inner h; simp only [QExpr.readTok, evalS, ih inner h]
  | neg a ih => intro inner h; simp only [QExpr.readTok, evalS, ih inner h]
  | isNull a ih => intro inner h; simp only [QExpr.readTok, evalS, ih inner h]
  | ite c t e ihc iht ihe =>
    intro inner h; simp only [QExpr.plainToks, Bool.and_eq_true] at h
    simp only [QExpr.readTok, evalS, ihc inner h.1.1, iht inner h.1.2, ihe inner h.2]
  | inList a vs ih => intro inner h; simp only [QExpr.readTok, evalS, ih inner h]
  | like a p ih => intro inner h; simp only [QExpr.readTok, evalS, ih inner h]
  | inSub a s w iha ihs ihw =>
    intro inner h; simp only [QExpr.plainToks, Bool.and_eq_true] at h
    have e1 : (fun i => isTrue (evalS O cols r (w.readTok lx) (i :: inner))) = (fun i => isTrue (evalS O cols r w (i :: inner))) := by
      funext i; rw [ihw (i :: inner) h.2]
    have e2 : (fun i => evalS O cols r (s.readTok lx) (i :: inner)) = (fun i => evalS O cols r s (i :: inner)) := by
      funext i; rw [ihs (i :: inner) h.1.2]
    simp only [QExpr.readTok, evalS, iha inner h.1.1, e1, e2]
  | exists_ w ih =>
    intro inner h
    have e1 : (fun i => isTrue (evalS O cols r (w.readTok lx) (i :: inner))) = (fun i => isTrue (evalS O cols r w (i :: inner))) := by
      funext i; rw [ih (i :: inner) h]
    simp only [QExpr.readTok, evalS, e1]

/-! ### the builder -/

theorem rejects_false (m : Qual → Bool) (er : Bool) (e : QExpr)
    (h : er = false ∨ ∀ q ∈ e.quals, m q = true) : rejects m er e = false := by
  rcases h with h | h
  · simp [rejects, h]
  · simp only [rejects, Bool.and_eq_false_iff, List.any_eq_false]
    right
    intro q hqm
    simp [h q hqm]

theorem flagsOk_iff (fl : Flags) (h : flagsOk fl = true) :
    fl.defaultPred = true ∧ fl.predMatches .cte = true ∧ fl.predTo = .phys ∧ fl.predAliasStripped = true ∧
    fl.rhsMatches .cte = true ∧ fl.rhsTo = .phys ∧ fl.updateTarget = .phys ∧ fl.deleteTarget = .phys ∧
    fl.buildExecutes = false ∧ fl.executeRuns = true ∧ fl.predMatches .sub = false ∧ fl.rhsMatches .sub = false := by
  simp only [flagsOk, Bool.and_eq_true, decide_eq_true_eq, Bool.not_eq_true'] at h
  obtain ⟨⟨⟨⟨⟨⟨⟨⟨⟨⟨⟨⟨⟨h1, h2⟩, h3⟩, h4⟩, h5⟩, h6⟩, h7⟩, h8⟩, h9⟩, h10⟩, _⟩, _⟩, h13⟩, h14⟩ := h
  exact ⟨h1, h2, h3, h4, h5, h6, h7, h8, h9, h10, h13, h14⟩

/-- the rewritten expression means, and binds, what the user's expression does -/
theorem requal_ok (m : Qual → Bool) (to : Qual) (hc : m .cte = true) (ht : to = .phys) (hs : m .sub = false)
    (O : Table) (cols : List Name) (x : QExpr) (hq : ∀ q ∈ x.quals, userScope q = true)
    (hcap : m .none = false ∨ x.noCapture O.cols false = true) :
    (∀ r, evalS O cols r (x.mapQ (qmap m to)) [] = evalS O cols r x []) ∧
    binds dmlScope O.cols cols (x.mapQ (qmap m to)) false = binds userScope O.cols cols x false :=
  ⟨fun r => evalS_requal m to ht hs O cols r x [] (by simpa using hcap),
   binds_requal m to hc ht hs O.cols cols x false hq hcap⟩

/-- the predicate the builder produces means what the user wrote and binds iff the user's references do -/
theorem buildPred_ok (fl : Flags) (hok : flagsOk fl = true) (p : PredIn) (O : Table) (cols : List Name)
    (hq : ∀ q ∈ p.quals, userScope q = true)
    (hun : fl.predElseRaises = false ∨ ∀ q ∈ p.quals, fl.predMatches q = true)
    (hstr : fl.predStringParsed = true ∨ p.isSql = false)
    (hcap : fl.predMatches .none = false ∨ (specPred p).noCapture O.cols false = true)
    (hdia : fl.predLex = sparkLex ∨ p.lexSensitive = false) :
    ∃ c, buildPred fl p = some (c, false) ∧ (∀ r, evalS O cols r c [] = evalS O cols r (specPred p) []) ∧
      binds dmlScope O.cols cols c false = binds userScope O.cols cols (specPred p) false := by
  obtain ⟨hd, hpc, hpt, hps, _, _, _, _, _, _, hsub, _⟩ := flagsOk_iff fl hok
  cases p with
  | absent =>
    refine ⟨.lit (.bool fl.defaultPred), rfl, ?_, ?_⟩
    · intro r; simp [evalS, specPred, hd]
    · simp [binds, specPred]
  | expr e al =>
    have hr := rejects_false fl.predMatches fl.predElseRaises e hun
    obtain ⟨h1, h2⟩ := requal_ok fl.predMatches fl.predTo hpc hpt hsub O cols e hq hcap
    exact ⟨e.mapQ (qmap fl.predMatches fl.predTo), by simp [buildPred, hr, hps], h1, h2⟩
  | sql e txt wrapped bt =>
    simp only [PredIn.quals] at hq hun
    simp only [specPred] at hcap
    by_cases hparsed : fl.predStringParsed = true
    · -- the text goes through the lexer of `predLex`
      have key : (bt && !fl.predLex.backtick) = false ∧ (e.readTok fl.predLex).quals = e.quals ∧
          (∀ r inner, evalS O cols r (e.readTok fl.predLex) inner = evalS O cols r e inner) ∧
          (∀ sc ins, binds sc O.cols cols (e.readTok fl.predLex) ins = binds sc O.cols cols e ins) ∧
          (∀ ins, (e.readTok fl.predLex).noCapture O.cols ins = e.noCapture O.cols ins) := by
        rcases hdia with h | h
        · rw [h, readTok_spark]
          exact ⟨by simp [sparkLex], rfl, fun _ _ => rfl, fun _ _ => rfl, fun _ => rfl⟩
        · simp only [PredIn.lexSensitive, Bool.or_eq_false_iff, Bool.not_eq_false'] at h
          exact ⟨by simp [h.1], readTok_plain_quals _ e h.2, fun r inner => readTok_plain_eval _ O cols r e inner h.2,
            fun sc ins => readTok_plain_binds _ sc O.cols cols e ins h.2, fun ins => readTok_plain_noCapture _ O.cols e ins h.2⟩
      obtain ⟨kb, kq, ke, kbi, kc⟩ := key
      have hr := rejects_false fl.predMatches fl.predElseRaises (e.readTok fl.predLex) (by rw [kq]; exact hun)
      obtain ⟨h1, h2⟩ := requal_ok fl.predMatches fl.predTo hpc hpt hsub O cols (e.readTok fl.predLex)
        (by rw [kq]; exact hq) (by rw [kc]; exact hcap)
      refine ⟨(e.readTok fl.predLex).mapQ (qmap fl.predMatches fl.predTo), ?_, ?_, ?_⟩
      · simp [buildPred, hparsed, kb, hr]
      · intro r; rw [h1 r, ke r []]; rfl
      · rw [h2, kbi]; rfl
    · -- the text is handed to `F.col`, which parses it (Spark's reading) when it is parenthesised
      have hw : wrapped = true := by
        rcases hstr with h | h
        · exact absurd h hparsed
        · simpa [PredIn.isSql] using h
      have hr := rejects_false fl.predMatches fl.predElseRaises e hun
      obtain ⟨h1, h2⟩ := requal_ok fl.predMatches fl.predTo hpc hpt hsub O cols e hq hcap
      refine ⟨e.mapQ (qmap fl.predMatches fl.predTo), ?_, h1, h2⟩
      simp [buildPred, hparsed, hw, hr]

theorem setLookup_map (g : QExpr → QExpr) : ∀ (sets : List (Name × QExpr)) (n : Name),
    setLookup (sets.map (fun s => (s.1, g s.2))) n = (setLookup sets n).map g
  | [], _ => rfl
  | (k, e) :: rest, n => by
    simp only [List.map_cons, setLookup]
    by_cases h : k = n
    · simp [h]
    · simp [h, setLookup_map g rest n]

theorem setLookup_mem : ∀ (sets : List (Name × QExpr)) (n : Name) (e : QExpr), setLookup sets n = some e → ∃ s ∈ sets, s.2 = e
  | [], _, _, h => by simp [setLookup] at h
  | (k, e') :: rest, n, e, h => by
    simp only [setLookup] at h
    by_cases hk : k = n
    · simp only [hk, if_true, Option.some.injEq] at h
      exact ⟨(k, e'), List.mem_cons_self .., h⟩
    · simp only [hk, if_false] at h
      obtain ⟨s, hs, he⟩ := setLookup_mem rest n e h
      exact ⟨s, List.mem_cons_of_mem _ hs, he⟩

theorem assignRow_map (g : QExpr → QExpr) (O : Table) (cols : List Name) (sets : List (Name × QExpr)) (r : Row)
    (h : ∀ s ∈ sets, evalS O cols r (g s.2) [] = evalS O cols r s.2 []) :
    assignRow O cols (sets.map (fun s => (s.1, g s.2))) r = assignRow O cols sets r := by
  simp only [assignRow]
  apply List.map_congr_left
  intro cv _
  rw [setLookup_map]
  cases hl : setLookup sets cv.1 with
  | none => rfl
  | some e =>
    obtain ⟨s, hs, he⟩ := setLookup_mem sets cv.1 e hl
    simp only [Option.map_some]
    rw [← he]; exact h s hs

theorem sqlUpdate_congr (O T : Table) (sets sets' : List (Name × QExpr)) (p p' : QExpr)
    (hp : ∀ r, evalS O T.cols r p' [] = evalS O T.cols r p [])
    (hs : ∀ r, assignRow O T.cols sets' r = assignRow O T.cols sets r) :
    sqlUpdate O T sets' p' = sqlUpdate O T sets p := by
  simp only [sqlUpdate]
  congr 1
  apply List.map_congr_left
  intro r _
  rw [hp r, hs r]

theorem sqlDelete_congr (O T : Table) (p p' : QExpr)
    (hp : ∀ r, evalS O T.cols r p' [] = evalS O T.cols r p []) : sqlDelete O T p' = sqlDelete O T p := by
  simp only [sqlDelete]
  congr 1
  apply List.filter_congr
  intro r _
  rw [hp r]

theorem buildSets_ok (fl : Flags) (hok : flagsOk fl = true) (sets : List (Name × QExpr)) (O : Table) (cols : List Name)
    (hq : ∀ s ∈ sets, ∀ q ∈ s.2.quals, userScope q = true)
    (hflat : ∀ s ∈ sets, s.2.flat = true)
    (hun : fl.rhsElseRaises = false ∨ ∀ s ∈ sets, ∀ q ∈ s.2.quals, fl.rhsMatches q = true) :
    ∃ ss, buildSets fl sets = some ss ∧ (∀ r, assignRow O cols ss r = assignRow O cols sets r) ∧
      setsBind dmlScope O.cols cols ss = setsBind userScope O.cols cols sets := by
  obtain ⟨_, _, _, _, hrc, hrt, _, _, _, _, _, hsub⟩ := flagsOk_iff fl hok
  have hrej : sets.any (fun s => rejects fl.rhsMatches fl.rhsElseRaises s.2) = false := by
    simp only [List.any_eq_false]
    intro s hs
    have : rejects fl.rhsMatches fl.rhsElseRaises s.2 = false := by
      apply rejects_false
      rcases hun with h | h
      · exact Or.inl h
      · exact Or.inr (h s hs)
    simp [this]
  have hreq : ∀ s ∈ sets, (∀ r, evalS O cols r (s.2.mapQ (qmap fl.rhsMatches fl.rhsTo)) [] = evalS O cols r s.2 []) ∧
      binds dmlScope O.cols cols (s.2.mapQ (qmap fl.rhsMatches fl.rhsTo)) false = binds userScope O.cols cols s.2 false :=
    fun s hs => requal_ok fl.rhsMatches fl.rhsTo hrc hrt hsub O cols s.2 (hq s hs) (Or.inr (flat_noCapture O.cols s.2 (hflat s hs)))
  refine ⟨sets.map (fun s => (s.1, s.2.mapQ (qmap fl.rhsMatches fl.rhsTo))), ?_, ?_, ?_⟩
  · simp [buildSets, hrej]
  · intro r
    exact assignRow_map _ O cols sets r (fun s hs => (hreq s hs).1 r)
  · simp only [setsBind, List.map_map, Function.comp_def, List.all_map]
    congr 1
    apply all_congr_mem
    intro s hs
    rw [(hreq s hs).2]

end Sqlframe.C15
