/-
Lemmas/C09Infer.lean — helper lemmas for the value-tree inference theorems of Props/C09.lean.
-/
import SqlframeModel.Impl.C09Scope
namespace Sqlframe.C09
open Gen

theorem keepTyped_all (su : StructUntyped) : ∀ (ns : List String) (us : List STy), ns.length = us.length →
    keepTyped su ns (us.map some) = some (ns, us)
  | [], [], _ => by simp [keepTyped]
  | [], _ :: _, h => by simp at h
  | _ :: _, [], h => by simp at h
  | n :: ns, u :: us, h => by
    have ih := keepTyped_all su ns us (by simpa using h)
    simp [keepTyped, ih]

theorem allSome_cons_some {o : Option STy} {os : List (Option STy)} {ts : List STy}
    (h : allSome (o :: os) = some ts) : ∃ t rest, o = some t ∧ allSome os = some rest ∧ ts = t :: rest := by
  cases o with
  | none => simp [allSome] at h
  | some t =>
    simp only [allSome] at h
    cases hr : allSome os with
    | none => rw [hr] at h; simp at h
    | some rest =>
      rw [hr] at h
      simp at h
      exact ⟨t, rest, rfl, rfl, h.symm⟩

theorem allSome_length : ∀ (os : List (Option STy)) (ts : List STy), allSome os = some ts → ts.length = os.length
  | [], ts, h => by simp [allSome] at h; subst h; rfl
  | o :: os, ts, h => by
    obtain ⟨t, rest, _, h2, h3⟩ := allSome_cons_some h
    subst h3
    simp [allSome_length os rest h2]

theorem specTys_length : ∀ vs : List PyVal, (specTys vs).length = vs.length
  | [] => by simp [specTys]
  | _ :: vs => by simp [specTys, specTys_length vs]

theorem families_length : ∀ us : List STy, (STy.families us).length = us.length
  | [] => by simp [STy.families]
  | _ :: us => by simp [STy.families, families_length us]

end Sqlframe.C09
