/-
Lemmas/C18.lean — helper lemmas for C18: lookups only see the part of the registries that concerns the ids
of the expression's own CTE chain; steps of other work only add their own (fresh) ids.
-/
import SqlframeModel.Impl.C18Session
namespace Sqlframe.Sess
open Sqlframe Sqlframe.Gen

theorem find?_congr {α : Type} (l : List α) (p q : α → Bool) (h : ∀ x ∈ l, p x = q x) : l.find? p = l.find? q := by
  induction l with
  | nil => rfl
  | cons a t ih =>
    simp only [List.find?_cons, h a (by simp)]
    rw [ih (fun x hx => h x (by simp [hx]))]

theorem mem_scan (o : SessLookupOrder) (ctx : List Cte) (c : Cte) : c ∈ scan o ctx ↔ c ∈ ctx := by
  cases o <;> simp [scan]

theorem mem_lookupAlias_addAlias (m : List (Name × List Id)) (n k : Name) (id x : Id) :
    x ∈ lookupAlias (addAlias m n id) k ↔ x ∈ lookupAlias m k ∨ (k = n ∧ x = id) := by
  induction m with
  | nil =>
    simp only [addAlias, lookupAlias]
    by_cases h : n = k
    · subst h; simp
    · have h' : ¬ k = n := fun e => h e.symm
      simp [h, h']
  | cons hd t ih =>
    obtain ⟨k', v⟩ := hd
    simp only [addAlias]
    by_cases h1 : k' = n
    · subst h1
      simp only [if_true, lookupAlias]
      by_cases h2 : k' = k
      · subst h2; simp
      · have h2' : ¬ k = k' := fun e => h2 e.symm
        simp [h2, h2']
    · simp only [h1, if_false, lookupAlias]
      by_cases h2 : k' = k
      · subst h2
        simp [fun e : k' = n => h1 e]
      · simp [h2, ih]

theorem colsOf_setCols (m : List (Name × List Name)) (n k : Name) (cs : List Name) :
    colsOf (setCols m n cs) k = if k = n then some cs else colsOf m k := by
  induction m with
  | nil =>
    simp only [setCols, colsOf]
    by_cases h : n = k
    · subst h; simp
    · have h' : ¬ k = n := fun e => h e.symm
      simp [h, h']
  | cons hd t ih =>
    obtain ⟨k', v⟩ := hd
    simp only [setCols]
    by_cases h1 : k' = n
    · subst h1
      simp only [if_true, colsOf]
      by_cases h2 : k' = k
      · subst h2; simp
      · have h2' : ¬ k = k' := fun e => h2 e.symm
        simp [h2, h2']
    · simp only [h1, if_false, colsOf]
      by_cases h2 : k' = k
      · subst h2
        have : ¬ k' = n := h1
        simp [this]
      · simp [h2, ih]

/-- two sessions agree on everything that does not involve the ids in `X` -/
def AgreeOff (X : List Id) (σ σ' : Session) : Prop :=
  ∀ x, x ∉ X →
    (x ∈ σ.knownIds ↔ x ∈ σ'.knownIds) ∧ (x ∈ σ.branchIds ↔ x ∈ σ'.branchIds) ∧
    ∀ n, (x ∈ lookupAlias σ.aliasMap n ↔ x ∈ lookupAlias σ'.aliasMap n)

theorem agree_refl (X : List Id) (σ : Session) : AgreeOff X σ σ := fun _ _ => ⟨Iff.rfl, Iff.rfl, fun _ => Iff.rfl⟩

/-- two sessions hold the same catalog columns for every view name outside `V` -/
def ColsAgreeOff (V : List Name) (σ σ' : Session) : Prop :=
  ∀ n, n ∉ V → colsOf σ.catalogCols n = colsOf σ'.catalogCols n

theorem cols_step_both (V : List Name) (σ σ' : Session) (st : Step) (h : ColsAgreeOff V σ σ') :
    ColsAgreeOff V (applyStep σ st) (applyStep σ' st) := by
  intro n hn
  have hn' := h n hn
  cases st with
  | registerView m cols =>
    simp only [applyStep]
    by_cases hm : m ∈ V
    · -- the registered name is outside the agreement; other names are untouched on both sides
      have hne : ¬ n = m := fun e => hn (e ▸ hm)
      cases h1 : colsOf σ.catalogCols m <;> cases h2 : colsOf σ'.catalogCols m <;>
        (try split) <;> (try split) <;> simp [colsOf_setCols, hne, hn']
    · have hm' := h m hm
      rw [hm']
      cases h2 : colsOf σ'.catalogCols m with
      | none => simp [colsOf_setCols, hn']
      | some _ =>
        simp only
        split
        · exact hn'
        · simp [colsOf_setCols, hn']
  | cacheCols m cols =>
    simp only [applyStep]
    by_cases hm : m ∈ V
    · have hne : ¬ n = m := fun e => hn (e ▸ hm)
      cases h1 : colsOf σ.catalogCols m <;> cases h2 : colsOf σ'.catalogCols m <;>
        (try split) <;> (try split) <;> simp [colsOf_setCols, hne, hn']
    · have hm' := h m hm
      rw [hm']
      cases h2 : colsOf σ'.catalogCols m with
      | none => simp [colsOf_setCols, hn']
      | some _ =>
        simp only
        split
        · exact hn'
        · simp [colsOf_setCols, hn']
  | alias a s => simp only [applyStep]; split <;> exact hn'
  | _ => exact hn'

theorem cols_step_left (V : List Name) (σ σ' : Session) (st : Step)
    (hv : ∀ m cols, (st = .registerView m cols ∨ st = .cacheCols m cols) → m ∈ V) (h : ColsAgreeOff V σ σ') :
    ColsAgreeOff V (applyStep σ st) σ' := by
  intro n hn
  have hn' := h n hn
  cases st with
  | registerView m cols =>
    have hm := hv m cols (Or.inl rfl)
    have hne : ¬ n = m := fun e => hn (e ▸ hm)
    simp only [applyStep]
    cases h1 : colsOf σ.catalogCols m with
    | none => simp [colsOf_setCols, hne, hn']
    | some _ =>
      simp only
      split
      · exact hn'
      · simp [colsOf_setCols, hne, hn']
  | cacheCols m cols =>
    have hm := hv m cols (Or.inr rfl)
    have hne : ¬ n = m := fun e => hn (e ▸ hm)
    simp only [applyStep]
    cases h1 : colsOf σ.catalogCols m with
    | none => simp [colsOf_setCols, hne, hn']
    | some _ =>
      simp only
      split
      · exact hn'
      · simp [colsOf_setCols, hne, hn']
  | alias a s => simp only [applyStep]; split <;> exact hn'
  | _ => exact hn'

/-- the same step on both sides keeps the agreement -/
theorem agree_step_both (X : List Id) (σ σ' : Session) (st : Step) (h : AgreeOff X σ σ') :
    AgreeOff X (applyStep σ st) (applyStep σ' st) := by
  intro x hx
  obtain ⟨h1, h2, h3⟩ := h x hx
  cases st with
  | create b s => simp only [applyStep, List.mem_append, h1, h2]; exact ⟨trivial, trivial, h3⟩
  | derive b s => simp only [applyStep, List.mem_append, h1, h2]; exact ⟨trivial, trivial, h3⟩
  | alias n s =>
    simp only [applyStep]
    split
    · simp only [List.mem_append, h1]
      refine ⟨trivial, h2, fun k => ?_⟩
      rw [mem_lookupAlias_addAlias, mem_lookupAlias_addAlias, h3 k]
    · exact ⟨h1, h2, h3⟩
  | schemaLookup v => simp only [applyStep, List.mem_append, h1]; exact ⟨trivial, h2, h3⟩
  | registerView n cols => exact ⟨h1, h2, h3⟩
  | cacheCols n cols => exact ⟨h1, h2, h3⟩
  | transform => exact ⟨h1, h2, h3⟩
  | action => exact ⟨h1, h2, h3⟩
  | failedAction => exact ⟨h1, h2, h3⟩

/-- a step of other work, all of whose ids are in `X`, keeps the agreement with the session that did not take it -/
theorem agree_step_left (X : List Id) (σ σ' : Session) (st : Step) (hids : ∀ id ∈ st.ids, id ∈ X)
    (h : AgreeOff X σ σ') : AgreeOff X (applyStep σ st) σ' := by
  intro x hx
  obtain ⟨h1, h2, h3⟩ := h x hx
  have hne : ∀ id ∈ st.ids, x ≠ id := fun id hid e => hx (e ▸ hids id hid)
  cases st with
  | create b s =>
    have hb := hne b (by simp [Step.ids]); have hs := hne s (by simp [Step.ids])
    simp only [applyStep, List.mem_append, List.mem_cons, List.mem_singleton, List.not_mem_nil, or_false, hb, hs]
    exact ⟨by simpa using h1, by simpa using h2, h3⟩
  | derive b s =>
    have hb := hne b (by simp [Step.ids]); have hs := hne s (by simp [Step.ids])
    simp only [applyStep, List.mem_append, List.mem_cons, List.mem_singleton, List.not_mem_nil, or_false, hb, hs]
    exact ⟨by simpa using h1, by simpa using h2, h3⟩
  | alias n s =>
    have hs := hne s (by simp [Step.ids])
    simp only [applyStep]
    split
    · simp only [List.mem_append, List.mem_singleton, hs, or_false]
      refine ⟨h1, h2, fun k => ?_⟩
      rw [mem_lookupAlias_addAlias]
      simp [hs, h3 k]
    · exact ⟨h1, h2, h3⟩
  | schemaLookup v =>
    have hv := hne v (by simp [Step.ids])
    simp only [applyStep, List.mem_append, List.mem_singleton, hv, or_false]
    exact ⟨h1, h2, h3⟩
  | registerView n cols => exact ⟨h1, h2, h3⟩
  | cacheCols n cols => exact ⟨h1, h2, h3⟩
  | transform => exact ⟨h1, h2, h3⟩
  | action => exact ⟨h1, h2, h3⟩
  | failedAction => exact ⟨h1, h2, h3⟩

/-- the alias lookup depends only on the part of the alias map that concerns the sequence ids of the
    expression's own CTE chain -/
theorem resolveAlias_scope (m₁ m₂ : List (Name × List Id)) (ctx : List Cte) (n : Name)
    (h : ∀ c ∈ ctx, (c.seq ∈ lookupAlias m₁ n ↔ c.seq ∈ lookupAlias m₂ n)) :
    resolveAlias m₁ ctx n = resolveAlias m₂ ctx n := by
  unfold resolveAlias aliasCandidates
  rw [find?_congr _ _ (fun c => (lookupAlias m₂ n).contains c.seq)]
  intro c hc
  have := h c ((mem_scan _ ctx c).1 hc)
  cases h1 : (lookupAlias m₁ n).contains c.seq <;> cases h2 : (lookupAlias m₂ n).contains c.seq <;> simp_all

theorem resolveAlias_name (m : List (Name × List Id)) (ctx : List Cte) (n a : Name)
    (h : resolveAlias m ctx n = some a) : ∃ c ∈ ctx, c.name = a := by
  unfold resolveAlias aliasCandidates at h
  simp only [Option.map_eq_some_iff] at h
  obtain ⟨c, hc, rfl⟩ := h
  exact ⟨c, (mem_scan _ ctx c).1 (List.mem_of_find?_eq_some hc), rfl⟩

theorem resolveId_agree (X : List Id) (σ σ' : Session) (hag : AgreeOff X σ σ') (ctx : List Cte) (joined : List Name)
    (a : Name) (ha : a ∉ X) : resolveId σ ctx joined a = resolveId σ' ctx joined a := by
  obtain ⟨h1, h2, _⟩ := hag a ha
  have e1 : σ.knownIds.contains a = σ'.knownIds.contains a := by
    cases x : σ.knownIds.contains a <;> cases y : σ'.knownIds.contains a <;> simp_all
  have e2 : σ.branchIds.contains a = σ'.branchIds.contains a := by
    cases x : σ.branchIds.contains a <;> cases y : σ'.branchIds.contains a <;> simp_all
  unfold resolveId
  rw [e1, e2]

/-- normalising one identifier gives the same result in two sessions that agree off `X`, when neither the
    identifier nor the names / ids of the CTE chain are in `X` -/
theorem resolveIdent_agree (X : List Id) (σ σ' : Session) (hag : AgreeOff X σ σ') (ctx : List Cte) (joined : List Name)
    (ident : Name) (hq : ∀ n ∈ queryNames ctx ident, n ∉ X) :
    resolveIdent σ ctx joined ident = resolveIdent σ' ctx joined ident := by
  have hident : ident ∉ X := hq ident (by simp [queryNames])
  have hctx : ∀ c ∈ ctx, c.name ∉ X ∧ c.branch ∉ X ∧ c.seq ∉ X := by
    intro c hc
    have hm : ∀ n ∈ [c.name, c.branch, c.seq], n ∈ queryNames ctx ident := by
      intro n hn
      simp only [queryNames, List.mem_cons, List.mem_flatMap]
      exact Or.inr ⟨c, hc, by simpa using hn⟩
    exact ⟨hq _ (hm _ (by simp)), hq _ (hm _ (by simp)), hq _ (hm _ (by simp))⟩
  have ealias : resolveAlias σ.aliasMap ctx ident = resolveAlias σ'.aliasMap ctx ident :=
    resolveAlias_scope _ _ ctx ident (fun c hc => (hag c.seq (hctx c hc).2.2).2.2 ident)
  unfold resolveIdent
  rw [ealias]
  have ha : (resolveAlias σ'.aliasMap ctx ident).getD ident ∉ X := by
    cases hr : resolveAlias σ'.aliasMap ctx ident with
    | none => simpa using hident
    | some a =>
      obtain ⟨c, hc, rfl⟩ := resolveAlias_name _ ctx ident a hr
      simpa using (hctx c hc).1
  simp only
  rw [resolveId_agree X σ σ' hag ctx joined _ ha]

theorem aliasHitsBare_all (ids : List Id) (l : List CteO) (h : ∀ c ∈ l, c.ids.isSome = true) : aliasHitsBare ids l = false := by
  induction l with
  | nil => rfl
  | cons c t ih =>
    have hc := h c (by simp)
    simp only [aliasHitsBare]
    cases hi : c.ids with
    | none => simp [hi] at hc
    | some p =>
      simp only
      split
      · rfl
      · exact ih (fun x hx => h x (by simp [hx]))

theorem idHitsBare_all (id : Name) (l : List CteO) (h : ∀ c ∈ l, c.ids.isSome = true) : idHitsBare id l = false := by
  induction l with
  | nil => rfl
  | cons c t ih =>
    have hc := h c (by simp)
    simp only [idHitsBare]
    cases hi : c.ids with
    | none => simp [hi] at hc
    | some p =>
      simp only
      split
      · rfl
      · exact ih (fun x hx => h x (by simp [hx]))

theorem mem_scanO (o : SessLookupOrder) (ctx : List CteO) (c : CteO) : c ∈ scanO o ctx ↔ c ∈ ctx := by
  cases o <;> simp [scanO]

/-- with ids on every CTE (or lookups that skip CTEs without ids) nothing raises -/
theorem raisesR_false (σ : Session) (ctx : List CteO) (joined : List Name) (ident : Name)
    (h : (sessLookupTotal || allHaveIds ctx) = true) : raisesR σ ctx joined ident = false := by
  unfold raisesR
  cases ht : sessLookupTotal with
  | true => simp
  | false =>
    simp only [ht, Bool.false_or] at h
    have hall : ∀ c ∈ ctx, c.ids.isSome = true := by
      unfold allHaveIds at h; rw [List.all_eq_true] at h; exact h
    have h1 : ∀ ids, aliasHitsBare ids (scanO sessAliasOrder ctx) = false :=
      fun ids => aliasHitsBare_all ids _ (fun c hc => hall c ((mem_scanO _ ctx c).1 hc))
    have h2 : ∀ id, idHitsBare id (scanO sessIdOrder ctx) = false :=
      fun id => idHitsBare_all id _ (fun c hc => hall c ((mem_scanO _ ctx c).1 hc))
    simp only [Bool.not_false, Bool.true_and, h1, Bool.and_false, Bool.false_or, h2]
    rw [Bool.and_eq_false_iff]
    by_cases hk : σ.knownIds.contains ((resolveAlias σ.aliasMap (withIds ctx) ident).getD ident) = true
    · right
      split
      · rename_i _ _ l r tl hcnd hm
        have hmem : ∀ x ∈ ctx.filter (fun c => joined.contains c.name), x.ids.isSome = true :=
          fun x hx => hall x (List.mem_filter.1 hx).1
        rw [hm] at hmem
        have hl := hmem l (by simp)
        have hr := hmem r (by simp)
        cases hli : l.ids with
        | none => simp [hli] at hl
        | some pl =>
          cases hri : r.ids with
          | none => simp [hri] at hr
          | some pr =>
            simp only [Option.isNone_some, Bool.or_self, Bool.false_eq_true, if_false]
            split <;> rfl
      · rfl
    · left; simpa using hk

theorem resolveIdentR_eq (σ : Session) (ctx : List CteO) (joined : List Name) (ident : Name)
    (h : (sessLookupTotal || allHaveIds ctx) = true) :
    resolveIdentR σ ctx joined ident = .ident (resolveIdent σ (withIds ctx) joined ident) := by
  unfold resolveIdentR
  rw [raisesR_false σ ctx joined ident h]
  rfl

/-- names whose catalog columns the history's steps set: registrations and lookups -/
def foreignCat : List Ev → List Name
  | [] => []
  | .step false (.registerView n _) :: r => n :: foreignCat r
  | .step false (.cacheCols n _) :: r => n :: foreignCat r
  | _ :: r => foreignCat r

theorem foreignCat_sub : ∀ (I : List Ev) (v : Name), v ∈ foreignCat I → v ∈ foreignViews I ++ foreignLookups I := by
  intro I
  induction I with
  | nil => intro v h; simp [foreignCat] at h
  | cons e r ih =>
    intro v h
    cases e with
    | step own st =>
      cases own with
      | true => simp only [foreignCat, foreignViews, foreignLookups] at h ⊢; exact ih v h
      | false =>
        cases st <;> simp only [foreignCat, foreignViews, foreignLookups, List.mem_cons] at h ⊢ <;>
          first
          | exact ih v h
          | (rcases h with h | h
             · simp [h]
             · have := ih v h
               simp only [List.mem_append] at this ⊢
               rcases this with t | t
               · simp [t]
               · simp [t])
    | query ctx j ident => simp only [foreignCat, foreignViews, foreignLookups] at h ⊢; exact ih v h
    | readView n => simp only [foreignCat, foreignViews, foreignLookups] at h ⊢; exact ih v h
    | readSql srcs cols => simp only [foreignCat, foreignViews, foreignLookups] at h ⊢; exact ih v h
    | observe ts => simp only [foreignCat, foreignViews, foreignLookups] at h ⊢; exact ih v h

theorem viewsOwn_append : ∀ (I : List Ev) (A B : List Name), viewsOwn I A = true → viewsOwn I B = true →
    viewsOwn I (A ++ B) = true := by
  intro I
  induction I with
  | nil => intro A B _ _; rfl
  | cons e r ih =>
    intro A B ha hb
    cases e with
    | step own st => simpa [viewsOwn] using ih A B (by simpa [viewsOwn] using ha) (by simpa [viewsOwn] using hb)
    | query ctx j ident => simpa [viewsOwn] using ih A B (by simpa [viewsOwn] using ha) (by simpa [viewsOwn] using hb)
    | observe ts => simpa [viewsOwn] using ih A B (by simpa [viewsOwn] using ha) (by simpa [viewsOwn] using hb)
    | readView n =>
      simp only [viewsOwn, Bool.and_eq_true] at ha hb ⊢
      refine ⟨?_, ih A B ha.2 hb.2⟩
      have h1 := ha.1; have h2 := hb.1
      simp only [Bool.not_eq_true', List.contains_eq_mem, decide_eq_false_iff_not, List.mem_append, not_or] at h1 h2 ⊢
      exact ⟨h1, h2⟩
    | readSql srcs cols =>
      simp only [viewsOwn, Bool.and_eq_true, List.all_eq_true] at ha hb ⊢
      refine ⟨fun s hs => ?_, ih A B ha.2 hb.2⟩
      have h1 := ha.1 s hs; have h2 := hb.1 s hs
      simp only [Bool.not_eq_true', List.contains_eq_mem, decide_eq_false_iff_not, List.mem_append, not_or] at h1 h2 ⊢
      exact ⟨h1, h2⟩

/-- when `Gen.sessSqlInferSchema` is constant, `session.sql` passes the same `infer_schema` in every session -/
theorem sqlInfer_const (h : sqlInferConst = true) (σ σ' : Session) : sqlInfer σ = sqlInfer σ' := by
  unfold sqlInferConst at h
  simp only [List.all_cons, List.all_nil, Bool.and_true, Bool.and_eq_true, beq_iff_eq] at h
  obtain ⟨⟨h1, h2⟩, h3, h4⟩ := h
  unfold sqlInfer
  cases !σ.catalogObjects.isEmpty <;> cases σ.catalogCols.isEmpty <;>
    cases !σ'.catalogObjects.isEmpty <;> cases σ'.catalogCols.isEmpty <;> simp_all

/-- a statement whose sources the two sessions know alike is qualified alike -/
theorem resolveSql_agree (V : List Name) (σ σ' : Session) (hcg : ColsAgreeOff V σ σ')
    (srcs : List (Name × Name)) (cols : List Name) (hsrc : ∀ s ∈ srcs, s.2 ∉ V)
    (hinf : sqlInfer σ = sqlInfer σ' ∨ cols = []) : resolveSql σ srcs cols = resolveSql σ' srcs cols := by
  rcases hinf with hinf | hinf
  · have hs : sourceCols σ srcs = sourceCols σ' srcs := by
      unfold sourceCols
      apply List.map_congr_left
      intro s hs
      rw [hcg s.2 (hsrc s hs)]
    unfold resolveSql
    rw [hinf, hs]
  · subst hinf; rfl

/-- the interleaving theorem, generalised over the two sessions, the fixed set `X` of foreign ids and the
    fixed set `V` of foreign view names -/
theorem outs_interleaved (X : List Id) (V : List Name) : ∀ (I : List Ev) (σ σ' : Session),
    AgreeOff X σ σ' → ColsAgreeOff V σ σ' →
    (∀ id ∈ foreignIds I, id ∈ X) → (∀ v ∈ foreignCat I, v ∈ V) →
    idsFresh I X = true → viewsOwn I V = true → ctesHaveIds I = true →
    (sqlInferConst = true ∨ noUnqualifiedSql I = true) →
    outs σ I = outs σ' (onlyOwn I) := by
  intro I
  induction I with
  | nil => intro σ σ' _ _ _ _ _ _ _ _; rfl
  | cons e r ih =>
    intro σ σ' hag hcg hX hV hf hv hi hq
    have hq' : sqlInferConst = true ∨ noUnqualifiedSql r = true := by
      rcases hq with hq | hq
      · exact Or.inl hq
      · right
        cases e <;> simp only [noUnqualifiedSql, Bool.and_eq_true] at hq <;> first | exact hq | exact hq.2
    cases e with
    | step own st =>
      cases own with
      | true =>
        simp only [outs, onlyOwn]
        exact ih _ _ (agree_step_both X σ σ' st hag) (cols_step_both V σ σ' st hcg)
          (by simpa [foreignIds] using hX) (by simpa [foreignCat] using hV)
          (by simpa [idsFresh] using hf) (by simpa [viewsOwn] using hv) (by simpa [ctesHaveIds] using hi) hq'
      | false =>
        simp only [outs, onlyOwn]
        refine ih _ _ (agree_step_left X σ σ' st (fun id hid => hX id (by simp [foreignIds, hid])) hag)
          (cols_step_left V σ σ' st (fun m cols e => hV m (by rcases e with e | e <;> subst e <;> simp [foreignCat])) hcg)
          (fun id hid => hX id (by simp [foreignIds, hid])) ?_ (by simpa [idsFresh] using hf) (by simpa [viewsOwn] using hv)
          (by simpa [ctesHaveIds] using hi) hq'
        intro v hvm
        apply hV
        cases st <;> simp [foreignCat, hvm]
    | query ctx j ident =>
      simp only [idsFresh, Bool.and_eq_true, List.all_eq_true] at hf
      simp only [ctesHaveIds, Bool.and_eq_true] at hi
      simp only [outs, onlyOwn]
      rw [resolveIdentR_eq σ ctx j ident hi.1, resolveIdentR_eq σ' ctx j ident hi.1]
      rw [resolveIdent_agree X σ σ' hag (withIds ctx) j ident (fun n hn => by simpa using hf.1 n hn)]
      rw [ih σ σ' hag hcg (by simpa [foreignIds] using hX) (by simpa [foreignCat] using hV) hf.2 (by simpa [viewsOwn] using hv) hi.2 hq']
    | readView n =>
      simp only [viewsOwn, Bool.and_eq_true] at hv
      simp only [outs, onlyOwn]
      rw [hcg n (by simpa using hv.1)]
      rw [ih σ σ' hag hcg (by simpa [foreignIds] using hX) (by simpa [foreignCat] using hV) (by simpa [idsFresh] using hf) hv.2
        (by simpa [ctesHaveIds] using hi) hq']
    | readSql srcs cols =>
      simp only [viewsOwn, Bool.and_eq_true, List.all_eq_true] at hv
      simp only [outs, onlyOwn]
      have hinf : sqlInfer σ = sqlInfer σ' ∨ cols = [] := by
        rcases hq with hq | hq
        · exact Or.inl (sqlInfer_const hq σ σ')
        · right
          simp only [noUnqualifiedSql, Bool.and_eq_true, List.isEmpty_iff] at hq
          exact hq.1
      rw [resolveSql_agree V σ σ' hcg srcs cols (fun s hs => by simpa using hv.1 s hs) hinf]
      rw [ih σ σ' hag hcg (by simpa [foreignIds] using hX) (by simpa [foreignCat] using hV) (by simpa [idsFresh] using hf) hv.2
        (by simpa [ctesHaveIds] using hi) hq']
    | observe ts =>
      simp only [outs, onlyOwn]
      rw [ih σ σ' hag hcg (by simpa [foreignIds] using hX) (by simpa [foreignCat] using hV) (by simpa [idsFresh] using hf)
        (by simpa [viewsOwn] using hv) (by simpa [ctesHaveIds] using hi) hq']

/-- read-only steps never change what the catalog API reports -/
theorem readOnly_catalog (steps : List Step) : ∀ σ : Session,
    sessSchemaViewTemporary = true → (∀ st ∈ steps, st.readOnly = true) →
    (runSteps σ steps).catalogObjects = σ.catalogObjects := by
  induction steps with
  | nil => intro σ _ _; rfl
  | cons st r ih =>
    intro σ ht h
    simp only [runSteps]
    rw [ih _ ht (fun s hs => h s (by simp [hs]))]
    have := h st (by simp)
    cases st with
    | registerView n cols => simp [Step.readOnly] at this
    | alias n s => simp only [applyStep]; split <;> rfl
    | schemaLookup v => simp [applyStep, ht]
    | _ => rfl

end Sqlframe.Sess
