/-
Lemmas/C12Format.lean — the format-rewriting algorithm `fmtTime` (Impl/C12Fns.lean) on SEPARATED formats:
a format that is a sequence of table elements, each followed by separator characters that start no element, is rewritten
element by element (`fmtTime_segments`).  Everything here is for an arbitrary table.
-/
import SqlframeModel.Impl.C12Fns
namespace Sqlframe.C12

/-! ### `longestMatch` -/

/-- a table entry whose (non-empty) key is a prefix of `s` -/
def Cand (s : List Char) (kv : List Char × List Char) : Prop := kv.1 ≠ [] ∧ kv.1.isPrefixOf s = true

def lmStep (s : List Char) (best : Option (List Char × List Char)) (kv : List Char × List Char) : Option (List Char × List Char) :=
  if !kv.1.isEmpty && kv.1.isPrefixOf s && betterThan best kv.1.length then some kv else best

theorem longestMatch_eq_foldl (tbl : Tbl) (s : List Char) : longestMatch tbl s = tbl.foldl (lmStep s) none := rfl

/-- what the fold has established after looking at the entries `seen` -/
def LmInv (s : List Char) (seen : Tbl) (best : Option (List Char × List Char)) : Prop :=
  (∀ kv, best = some kv → kv ∈ seen ∧ Cand s kv) ∧
  (∀ kv' ∈ seen, Cand s kv' → ∃ kv, best = some kv ∧ kv'.1.length ≤ kv.1.length)

theorem cand_iff (s : List Char) (kv : List Char × List Char) :
    (!kv.1.isEmpty && kv.1.isPrefixOf s) = true ↔ Cand s kv := by
  unfold Cand
  cases hk : kv.1 with
  | nil => simp
  | cons a l => simp

theorem lmStep_inv (s : List Char) (seen : Tbl) (best : Option (List Char × List Char)) (kv : List Char × List Char)
    (h : LmInv s seen best) : LmInv s (seen ++ [kv]) (lmStep s best kv) := by
  obtain ⟨h1, h2⟩ := h
  unfold lmStep
  by_cases hc : (!kv.1.isEmpty && kv.1.isPrefixOf s) = true
  · have hcand : Cand s kv := (cand_iff s kv).1 hc
    by_cases hb : betterThan best kv.1.length = true
    · -- kv becomes the best
      have hcond : (!kv.1.isEmpty && kv.1.isPrefixOf s && betterThan best kv.1.length) = true := by
        rw [hc, hb]; rfl
      rw [if_pos hcond]
      refine ⟨?_, ?_⟩
      · intro kv0 h0
        cases h0
        exact ⟨by simp, hcand⟩
      · intro kv' hm hc'
        refine ⟨kv, rfl, ?_⟩
        rcases List.mem_append.1 hm with hm | hm
        · obtain ⟨b, hb1, hb2⟩ := h2 kv' hm hc'
          rw [hb1] at hb
          simp only [betterThan, decide_eq_true_eq] at hb
          omega
        · simp only [List.mem_singleton] at hm
          rw [hm]
          exact Nat.le_refl _
    · -- best stays
      have hcond : ¬ (!kv.1.isEmpty && kv.1.isPrefixOf s && betterThan best kv.1.length) = true := by
        rw [hc]; simpa using hb
      rw [if_neg hcond]
      refine ⟨?_, ?_⟩
      · intro kv0 h0
        obtain ⟨a, b⟩ := h1 kv0 h0
        exact ⟨List.mem_append.2 (Or.inl a), b⟩
      · intro kv' hm hc'
        rcases List.mem_append.1 hm with hm | hm
        · exact h2 kv' hm hc'
        · simp only [List.mem_singleton] at hm
          rw [hm]
          cases hbest : best with
          | none => rw [hbest] at hb; simp [betterThan] at hb
          | some b =>
            rw [hbest] at hb
            simp only [betterThan, decide_eq_true_eq] at hb
            exact ⟨b, rfl, by omega⟩
  · have hcond : ¬ (!kv.1.isEmpty && kv.1.isPrefixOf s && betterThan best kv.1.length) = true := by
      intro hx
      apply hc
      cases h1' : (!kv.1.isEmpty && kv.1.isPrefixOf s) with
      | true => rfl
      | false => rw [h1'] at hx; simp at hx
    rw [if_neg hcond]
    refine ⟨?_, ?_⟩
    · intro kv0 h0
      obtain ⟨a, b⟩ := h1 kv0 h0
      exact ⟨List.mem_append.2 (Or.inl a), b⟩
    · intro kv' hm hc'
      rcases List.mem_append.1 hm with hm | hm
      · exact h2 kv' hm hc'
      · simp only [List.mem_singleton] at hm
        rw [hm] at hc'
        exact absurd ((cand_iff s kv).2 hc') hc

theorem foldl_lmStep_inv (s : List Char) : ∀ (rest seen : Tbl) (best : Option (List Char × List Char)),
    LmInv s seen best → LmInv s (seen ++ rest) (rest.foldl (lmStep s) best)
  | [], seen, best, h => by simpa using h
  | kv :: rest, seen, best, h => by
    have h' := foldl_lmStep_inv s rest (seen ++ [kv]) (lmStep s best kv) (lmStep_inv s seen best kv h)
    simpa [List.append_assoc] using h'

theorem longestMatch_inv (tbl : Tbl) (s : List Char) : LmInv s tbl (longestMatch tbl s) := by
  have h := foldl_lmStep_inv s tbl [] none ⟨(by intro kv h; cases h), (by intro kv' hm; cases hm)⟩
  simpa [longestMatch_eq_foldl] using h

theorem longestMatch_some (tbl : Tbl) (s : List Char) (kv : List Char × List Char) (h : longestMatch tbl s = some kv) :
    kv ∈ tbl ∧ kv.1 ≠ [] ∧ kv.1.isPrefixOf s = true := by
  obtain ⟨a, b⟩ := (longestMatch_inv tbl s).1 kv h
  exact ⟨a, b.1, b.2⟩

/-- a character that starts no key is not rewritten -/
theorem longestMatch_none_of_head (tbl : Tbl) (c : Char) (rest : List Char)
    (h : ∀ kv ∈ tbl, kv.1.head? ≠ some c) : longestMatch tbl (c :: rest) = none := by
  cases hl : longestMatch tbl (c :: rest) with
  | none => rfl
  | some kv =>
    obtain ⟨hm, hne, hp⟩ := longestMatch_some tbl _ kv hl
    exfalso
    apply h kv hm
    cases hk : kv.1 with
    | nil => exact absurd hk hne
    | cons a l =>
      rw [hk] at hp
      simp only [List.isPrefixOf, Bool.and_eq_true, beq_iff_eq] at hp
      simp [hp.1]

/-- the keys of a table determine their values (a Python dict) -/
def Functional (tbl : Tbl) : Prop := ∀ kv ∈ tbl, ∀ kv' ∈ tbl, kv.1 = kv'.1 → kv.2 = kv'.2

instance (tbl : Tbl) : Decidable (Functional tbl) := by unfold Functional; infer_instance

theorem prefix_eq_of_length_eq {a b s : List Char} (ha : a.isPrefixOf s = true) (hb : b.isPrefixOf s = true)
    (hl : a.length = b.length) : a = b := by
  rw [List.isPrefixOf_iff_prefix] at ha hb
  rw [List.prefix_iff_eq_take] at ha hb
  rw [ha, hb, hl]

/-- an element followed by something no longer key covers is matched as itself -/
theorem longestMatch_tok (tbl : Tbl) (hf : Functional tbl) (tok v rest : List Char) (hm : (tok, v) ∈ tbl) (hne : tok ≠ [])
    (hmax : ∀ kv ∈ tbl, kv.1.isPrefixOf (tok ++ rest) = true → kv.1.length ≤ tok.length) :
    longestMatch tbl (tok ++ rest) = some (tok, v) := by
  have hpre : tok.isPrefixOf (tok ++ rest) = true := by
    rw [List.isPrefixOf_iff_prefix]; exact List.prefix_append tok rest
  have hcand : Cand (tok ++ rest) (tok, v) := ⟨hne, hpre⟩
  obtain ⟨h1, h2⟩ := longestMatch_inv tbl (tok ++ rest)
  obtain ⟨kv, hkv, hle⟩ := h2 (tok, v) hm hcand
  obtain ⟨hmem, hc⟩ := h1 kv hkv
  have hle' : kv.1.length ≤ tok.length := hmax kv hmem hc.2
  have hkey : kv.1 = tok := prefix_eq_of_length_eq hc.2 hpre (by simp only at hle; omega)
  have hval : kv.2 = v := hf kv hmem (tok, v) hm hkey
  rw [hkv]
  congr 1
  exact Prod.ext hkey hval

/-! ### fuel -/

theorem fmtTimeAux_cons (tbl : Tbl) (fuel : Nat) (c : Char) (rest : List Char) :
    fmtTimeAux tbl (fuel + 1) (c :: rest) =
      (match longestMatch tbl (c :: rest) with
       | some (k, v) => v ++ fmtTimeAux tbl fuel ((c :: rest).drop k.length)
       | none => c :: fmtTimeAux tbl fuel rest) := rfl

theorem fmtTimeAux_fuel (tbl : Tbl) : ∀ (f1 f2 : Nat) (s : List Char), s.length ≤ f1 → s.length ≤ f2 →
    fmtTimeAux tbl f1 s = fmtTimeAux tbl f2 s
  | 0, f2, s, h1, _ => by
    have : s = [] := List.eq_nil_of_length_eq_zero (by omega)
    subst this
    cases f2 <;> simp [fmtTimeAux]
  | f1 + 1, 0, s, _, h2 => by
    have : s = [] := List.eq_nil_of_length_eq_zero (by omega)
    subst this
    simp [fmtTimeAux]
  | f1 + 1, f2 + 1, [], _, _ => by simp [fmtTimeAux]
  | f1 + 1, f2 + 1, c :: rest, h1, h2 => by
    simp only [List.length_cons] at h1 h2
    rw [fmtTimeAux_cons, fmtTimeAux_cons]
    cases hl : longestMatch tbl (c :: rest) with
    | none =>
      simp only
      rw [fmtTimeAux_fuel tbl f1 f2 rest (by omega) (by omega)]
    | some kv =>
      obtain ⟨k, v⟩ := kv
      simp only
      obtain ⟨_, hne, _⟩ := longestMatch_some tbl _ (k, v) hl
      have hk : 1 ≤ k.length := by
        cases k with
        | nil => exact absurd rfl hne
        | cons a l => simp
      have hd : ((c :: rest).drop k.length).length ≤ rest.length := by
        simp only [List.length_drop, List.length_cons]; omega
      rw [fmtTimeAux_fuel tbl f1 f2 _ (by omega) (by omega)]

/-- an element matched at the front is rewritten, the rest is processed on its own -/
theorem fmtTime_tok (tbl : Tbl) (tok v rest : List Char) (hne : tok ≠ [])
    (h : longestMatch tbl (tok ++ rest) = some (tok, v)) : fmtTime tbl (tok ++ rest) = v ++ fmtTime tbl rest := by
  unfold fmtTime
  cases tok with
  | nil => exact absurd rfl hne
  | cons c t' =>
    have hlen : ((c :: t') ++ rest).length = (t' ++ rest).length + 1 := by simp
    rw [hlen]
    have hcons : (c :: t') ++ rest = c :: (t' ++ rest) := rfl
    rw [hcons] at h ⊢
    rw [fmtTimeAux_cons, h]
    simp only
    have hd : (c :: (t' ++ rest)).drop (c :: t').length = rest := by simp
    rw [hd]
    rw [fmtTimeAux_fuel tbl (t' ++ rest).length rest.length rest (by simp) (Nat.le_refl _)]

/-- a character that starts no element is copied -/
theorem fmtTime_char (tbl : Tbl) (c : Char) (rest : List Char) (h : longestMatch tbl (c :: rest) = none) :
    fmtTime tbl (c :: rest) = c :: fmtTime tbl rest := by
  unfold fmtTime
  simp only [List.length_cons]
  rw [fmtTimeAux_cons, h]

/-- separator characters (none of which starts an element) are copied -/
theorem fmtTime_sep (tbl : Tbl) : ∀ (sep rest : List Char), (∀ c ∈ sep, ∀ kv ∈ tbl, kv.1.head? ≠ some c) →
    fmtTime tbl (sep ++ rest) = sep ++ fmtTime tbl rest
  | [], rest, _ => rfl
  | c :: sep, rest, h => by
    have hc : longestMatch tbl (c :: (sep ++ rest)) = none :=
      longestMatch_none_of_head tbl c _ (h c (by simp))
    have : (c :: sep) ++ rest = c :: (sep ++ rest) := rfl
    rw [this, fmtTime_char tbl c _ hc, fmtTime_sep tbl sep rest (fun c' hc' => h c' (by simp [hc']))]
    rfl

/-! ### separated formats -/

/-- one element of a format and the separator text after it -/
structure Seg where
  tok : List Char
  sep : List Char
  deriving DecidableEq, Repr

def flatSegs : List Seg → List Char
  | [] => []
  | g :: gs => g.tok ++ (g.sep ++ flatSegs gs)

def lookupKey (tbl : Tbl) (k : List Char) : Option (List Char) := (tbl.find? (fun kv => kv.1 == k)).map (·.2)

/-- the same format with every element replaced by its table value -/
def mapSegs (tbl : Tbl) : List Seg → List Seg
  | [] => []
  | g :: gs => { tok := (lookupKey tbl g.tok).getD g.tok, sep := g.sep } :: mapSegs tbl gs

/-- every element is a key; separator characters start no key; a separator is missing only after the last element; and no key
    continues an element into its separator -/
def SegsOk (tbl : Tbl) : List Seg → Prop
  | [] => True
  | g :: gs =>
    g.tok ≠ [] ∧ (lookupKey tbl g.tok).isSome = true ∧ (∀ c ∈ g.sep, ∀ kv ∈ tbl, kv.1.head? ≠ some c) ∧
    (g.sep = [] → gs = []) ∧
    (match g.sep with | [] => True | c :: _ => ∀ kv ∈ tbl, (g.tok ++ [c]).isPrefixOf kv.1 = false) ∧
    SegsOk tbl gs

instance (tbl : Tbl) : ∀ segs, Decidable (SegsOk tbl segs)
  | [] => isTrue trivial
  | g :: gs => by
    unfold SegsOk
    have := instDecidableSegsOk tbl gs
    cases hs : g.sep <;> infer_instance

theorem lookupKey_mem (tbl : Tbl) (k v : List Char) (h : lookupKey tbl k = some v) : (k, v) ∈ tbl := by
  unfold lookupKey at h
  cases hf : tbl.find? (fun kv => kv.1 == k) with
  | none => rw [hf] at h; cases h
  | some kv =>
    rw [hf] at h
    simp only [Option.map_some, Option.some.injEq] at h
    have hm := List.mem_of_find?_eq_some hf
    have hk := List.find?_some hf
    simp only [beq_iff_eq] at hk
    rw [← hk, ← h]
    exact hm

/-- a key that reaches past `tok` into `c :: more` has `tok ++ [c]` as a prefix -/
theorem prefix_extends (k tok more : List Char) (c : Char) (hp : k.isPrefixOf (tok ++ c :: more) = true)
    (hl : tok.length < k.length) : (tok ++ [c]).isPrefixOf k = true := by
  rw [List.isPrefixOf_iff_prefix] at hp ⊢
  rw [List.prefix_iff_eq_take] at hp
  have h2 : tok ++ c :: more = (tok ++ [c]) ++ more := by simp
  rw [h2] at hp
  rw [hp]
  have h3 : (tok ++ [c]).length ≤ k.length := by simp; omega
  generalize k.length = n at hp h3
  subst hp
  rw [List.take_append, List.take_of_length_le h3]
  exact List.prefix_append _ _

/-- THE REWRITING THEOREM: a separated format is rewritten element by element, separators are copied — for every table whose
    keys determine their values and every format, of any length, that meets `SegsOk` -/
theorem fmtTime_segments (tbl : Tbl) (hf : Functional tbl) : ∀ (segs : List Seg), SegsOk tbl segs →
    fmtTime tbl (flatSegs segs) = flatSegs (mapSegs tbl segs)
  | [], _ => rfl
  | g :: gs, h => by
    obtain ⟨hne, hkey, hsep, hlast, hext, hrest⟩ := h
    cases hv : lookupKey tbl g.tok with
    | none => rw [hv] at hkey; cases hkey
    | some v =>
      have hm : (g.tok, v) ∈ tbl := lookupKey_mem tbl g.tok v hv
      have hmax : ∀ kv ∈ tbl, kv.1.isPrefixOf (g.tok ++ (g.sep ++ flatSegs gs)) = true → kv.1.length ≤ g.tok.length := by
        intro kv hkv hp
        cases hs : g.sep with
        | nil =>
          have hgs : gs = [] := hlast hs
          rw [hs, hgs] at hp
          simp only [flatSegs, List.append_nil] at hp
          rw [List.isPrefixOf_iff_prefix] at hp
          exact hp.length_le
        | cons c more =>
          rw [hs] at hp hext
          simp only at hext
          by_cases hl : g.tok.length < kv.1.length
          · have hx := prefix_extends kv.1 g.tok (more ++ flatSegs gs) c (by simpa using hp) hl
            rw [hext kv hkv] at hx
            cases hx
          · omega
      have hlm := longestMatch_tok tbl hf g.tok v (g.sep ++ flatSegs gs) hm hne hmax
      simp only [flatSegs, mapSegs, hv, Option.getD_some]
      rw [fmtTime_tok tbl g.tok v _ hne hlm, fmtTime_sep tbl g.sep _ hsep, fmtTime_segments tbl hf gs hrest]

end Sqlframe.C12
