/-
Lemmas/C08Chain.lean — helper lemmas for the chain theorem of C08 (window columns inside a DataFrame chain):
the clause-order invariant of the open block, what the *generated* wrap rule must guarantee, and the
per-clause lemmas ("adding a clause to a ready block = applying the PySpark operation to the block's result")
for blocks whose select list may hold window functions.  No property statements here.
-/
import SqlframeModel.Lemmas.C08
import SqlframeModel.Impl.C08Chain
namespace Sqlframe.Win
open Sqlframe.Gen Sqlframe.Gen.WinChain

/-! ### lists -/

theorem filter_all_appendW (ps : List Expr) (p : Expr) (cols : List Name) (rows : List Row) :
    rows.filter (fun r => (ps ++ [p]).all (fun q => isTrue (eval cols r q)))
      = (rows.filter (fun r => ps.all (fun q => isTrue (eval cols r q)))).filter
          (fun r => isTrue (eval cols r p)) := by
  rw [List.filter_filter]
  congr 1
  funext r
  simp [List.all_append, Bool.and_comm]

theorem lookup_not_memW (cs : List Name) (c : Name) (vs : Row) (v : Val) (h : c ∉ cs) (n : Name) (hn : n ∈ cs) :
    lookup (c :: cs) (v :: vs) n = lookup cs vs n := by
  have : c ≠ n := fun e => h (e ▸ hn)
  simp [lookup, this]

theorem map_lookup_selfW : ∀ (cs : List Name) (r : Row), cs.Nodup → r.length = cs.length →
    cs.map (fun c => lookup cs r c) = r
  | [], [], _, _ => rfl
  | [], _ :: _, _, h => by simp at h
  | _ :: _, [], _, h => by simp at h
  | c :: cs, v :: vs, hnd, hlen => by
    have hnd' := List.nodup_cons.mp hnd
    simp only [List.map_cons, lookup, if_true]
    congr 1
    have ih := map_lookup_selfW cs vs hnd'.2 (by simpa using hlen)
    rw [← ih]
    apply List.map_congr_left
    intro n hn
    rw [ih]
    exact lookup_not_memW cs c vs v hnd'.1 n hn

theorem filter_trueW {α} (l : List α) : l.filter (fun _ => true) = l := by
  induction l <;> simp_all

theorem tagRows_snd (rows : List Row) : (tagRows rows).map (·.2) = rows := by
  unfold tagRows
  exact List.map_snd_zip (by simp)

theorem tagRows_mem (rows : List Row) (ir : Nat × Row) (h : ir ∈ tagRows rows) : ir.2 ∈ rows := by
  unfold tagRows at h
  exact (List.of_mem_zip h).2

theorem dedup_lenW (l : List Row) (n : Nat) (h : ∀ r ∈ l, r.length = n) : ∀ r ∈ dedup l, r.length = n := by
  induction l with
  | nil => intro r hr; simp [dedup] at hr
  | cons x xs ih =>
    intro r hr
    simp only [dedup, List.mem_cons, List.mem_filter] at hr
    rcases hr with rfl | ⟨hr, _⟩
    · exact h _ (by simp)
    · exact ih (fun r hr => h r (by simp [hr])) r hr

theorem insertBy_memW {α} (le : α → α → Bool) (x : α) (l : List α) (y : α) :
    y ∈ insertBy le x l ↔ y = x ∨ y ∈ l := by
  induction l with
  | nil => simp [insertBy]
  | cons z zs ih =>
    simp only [insertBy]
    split
    · simp
    · simp only [List.mem_cons, ih]
      constructor
      · rintro (h | h | h) <;> simp [h]
      · rintro (h | h | h) <;> simp [h]

theorem sortBy_memW {α} (le : α → α → Bool) (l : List α) (y : α) : y ∈ sortBy le l ↔ y ∈ l := by
  induction l with
  | nil => simp [sortBy]
  | cons x xs ih => simp [sortBy, insertBy_memW, ih]

/-! ### select lists -/

@[simp] theorem identItems_names (cols : List Name) : (identItems cols).map Item.name = cols := by
  simp [identItems, Function.comp_def, Item.name]

theorem ident_rowW (Tw : Table) (ir : Nat × Row) (hnd : Tw.cols.Nodup) (hl : ir.2.length = Tw.cols.length) :
    (identItems Tw.cols).map (itemVal Tw ir) = ir.2 := by
  simp only [identItems, List.map_map, Function.comp_def, itemVal, eval]
  exact map_lookup_selfW Tw.cols ir.2 hnd hl

theorem stSelectW_ident (Tw : Table) (h : Tw.WF) : stSelectW (identItems Tw.cols) Tw = Tw.rows := by
  simp only [stSelectW]
  calc _ = (tagRows Tw.rows).map (·.2) :=
          List.map_congr_left (fun ir hir => ident_rowW Tw ir h.1 (h.2 _ (tagRows_mem _ _ hir)))
    _ = Tw.rows := tagRows_snd _

theorem stSelectW_len (sel : List Item) (Tw : Table) : ∀ r ∈ stSelectW sel Tw, r.length = sel.length := by
  intro r hr
  simp only [stSelectW, List.mem_map] at hr
  obtain ⟨a, _, rfl⟩ := hr
  simp

/-! ### block evaluation -/

/-- the rows a block's select list (and its window functions) ranges over -/
def filtered (w : List Expr) (T0 : Table) : Table := { cols := T0.cols, rows := stWhere w T0 }

theorem filtered_WF (w : List Expr) (T0 : Table) (h : T0.WF) : (filtered w T0).WF :=
  ⟨h.1, fun r hr => h.2 r (List.mem_filter.mp hr).1⟩

/-- a block whose later clauses are still empty evaluates to the filtered source -/
theorem evalWBlock_plain (w : List Expr) (T0 : Table) (h : T0.WF) :
    evalWBlock { wher := w, sel := identItems T0.cols, distinct := false, order := [], limit := none } T0
      = filtered w T0 := by
  simp only [evalWBlock, identItems_names, stLimit, stOrder, stDistinct, filtered]
  congr 1
  exact stSelectW_ident (filtered w T0) (filtered_WF w T0 h)

theorem stDistinct_lenW (d : Bool) (rows : List Row) (n : Nat) (h : ∀ r ∈ rows, r.length = n) :
    ∀ r ∈ stDistinct d rows, r.length = n := by
  cases d
  · simpa [stDistinct] using h
  · simpa [stDistinct] using dedup_lenW rows n h

theorem stOrder_lenW (c : List Name) (ks : List OrdKey) (rows : List Row) (n : Nat) (h : ∀ r ∈ rows, r.length = n) :
    ∀ r ∈ stOrder c ks rows, r.length = n := by
  cases ks with
  | nil => simpa [stOrder] using h
  | cons k ks => intro r hr; simp only [stOrder] at hr; exact h r ((sortBy_memW _ _ _).mp hr)

theorem stLimit_lenW (l : Option Nat) (rows : List Row) (n : Nat) (h : ∀ r ∈ rows, r.length = n) :
    ∀ r ∈ stLimit l rows, r.length = n := by
  cases l with
  | none => simpa [stLimit] using h
  | some k => intro r hr; simp only [stLimit] at hr; exact h r (List.mem_of_mem_take hr)

/-- every output row of a block has the arity of its select list -/
theorem evalWBlock_WF (b : WBlock) (T0 : Table) (hs : (b.sel.map Item.name).Nodup) : (evalWBlock b T0).WF := by
  refine ⟨hs, ?_⟩
  have hlen : (evalWBlock b T0).cols.length = b.sel.length := by simp [evalWBlock]
  rw [hlen]
  exact stLimit_lenW _ _ _ (stOrder_lenW _ _ _ _ (stDistinct_lenW _ _ _ (stSelectW_len _ _)))

/-! ### obligations on the generated decorator (`Gen.Operations`) -/

/-- Everything the wrap rule must guarantee, decided over the generated predicate: without a wrap the new
    clause is not earlier (in SQL's clause order) than the last one, and two SELECTs never share a block.
    In particular a WHERE never joins a block that already has a select list — the block a window function
    lives in. -/
theorem wrapCond_soundW : ∀ last new : Op, wrapCond last new = false →
    last.toInt ≤ new.toInt ∧ ¬ (last = .select ∧ new = .select) := by
  intro last new; cases last <;> cases new <;> decide

theorem newOp_tagW : ∀ op last : Op, op ≠ .noOp → newOp op last = op := by
  intro op last; cases op <;> cases last <;> decide

theorem lastAfter_newW : ∀ new last : Op, lastAfter new last = new := by
  intro new last; rfl

/-! ### invariant -/

/-- a block that has just been started by `_convert_leaf_to_cte` -/
def FreshW (d : WDF) : Prop :=
  d.src.WF ∧ d.blk.wher = [] ∧ d.blk.sel = identItems d.src.cols ∧ d.blk.distinct = false ∧
  d.blk.order = [] ∧ d.blk.limit = none

/-- clause-order invariant: clauses later (in SQL order) than `last` are still empty.  In particular a block
    whose select list holds a window function has `last ≥ SELECT`. -/
def InvW (d : WDF) : Prop :=
  d.src.WF ∧ (d.blk.sel.map Item.name).Nodup ∧
  (d.last.toInt < Op.select.toInt → d.blk.sel = identItems d.src.cols ∧ d.blk.distinct = false) ∧
  (d.last.toInt < Op.orderBy.toInt → d.blk.order = []) ∧
  (d.last.toInt < Op.limit.toInt → d.blk.limit = none)

/-- the block can take a WHERE / SELECT / DISTINCT -/
def ReadyW (d : WDF) : Prop :=
  d.blk.sel = identItems d.src.cols ∧ d.blk.distinct = false ∧ d.blk.order = [] ∧ d.blk.limit = none

/-- the block can take an ORDER BY -/
def ReadyOW (d : WDF) : Prop := d.blk.order = [] ∧ d.blk.limit = none

theorem FreshW.inv {d : WDF} (h : FreshW d) : InvW d := by
  obtain ⟨hwf, _, hs, hd, ho, hl⟩ := h
  refine ⟨hwf, ?_, fun _ => ⟨hs, hd⟩, fun _ => ho, fun _ => hl⟩
  rw [hs, identItems_names]; exact hwf.1

theorem FreshW.ready {d : WDF} (h : FreshW d) : ReadyW d := ⟨h.2.2.1, h.2.2.2.1, h.2.2.2.2.1, h.2.2.2.2.2⟩

theorem FreshW.setLast {d : WDF} (h : FreshW d) (l : Op) : FreshW { d with last := l } := h

theorem init_freshW (T : Table) (h : T.WF) : FreshW (WDF.init T) := ⟨h, rfl, rfl, rfl, rfl, rfl⟩

theorem wrap_freshW (d : WDF) (h : InvW d) : FreshW d.wrap := by
  simp only [WDF.wrap, convertLeafFreshSelect, if_true]
  exact ⟨evalWBlock_WF d.blk d.src h.2.1, rfl, rfl, rfl, rfl, rfl⟩

theorem fresh_evalW (d : WDF) (h : FreshW d) : d.eval = d.src := by
  obtain ⟨hwf, hw, hs, hd, ho, hl⟩ := h
  have e : d.blk = { wher := [], sel := identItems d.src.cols, distinct := false, order := [], limit := none } := by
    cases hb : d.blk; simp_all
  simp only [WDF.eval]
  rw [e, evalWBlock_plain _ _ hwf]
  simp [filtered, stWhere, filter_trueW]

theorem wrap_evalW (d : WDF) (h : InvW d) : d.wrap.eval = d.eval := by
  have hf := wrap_freshW d h
  have := fresh_evalW d.wrap hf
  rw [this]
  simp only [WDF.wrap]

/-! ### what the body of a decorated method sees -/

/-- the INIT branch of the wrapper -/
def afterInitW (d : WDF) : WDF := if initCond d.last then { d.wrap with last := initReset } else d

/-- the wrap test of the wrapper -/
def maybeWrapW (new : Op) (d : WDF) : WDF := if wrapCond d.last new then d.wrap else d

/-- the DataFrame handed to the body by `operation(op).wrapper` -/
def enterW (op : Op) (d : WDF) : WDF :=
  let d1 := afterInitW d
  maybeWrapW (newOp op d1.last) d1

theorem wrapperW_eq (op : Op) (hop : op ≠ .noOp) (body : WDF → WDF) (d : WDF) :
    wrapperW (some op) body d = { body (enterW op d) with last := op } := by
  simp only [wrapperW, enterW, afterInitW, maybeWrapW, lastAfter_newW, newOp_tagW _ _ hop]

theorem afterInitW_inv (d : WDF) (h : InvW d) : InvW (afterInitW d) ∧ (afterInitW d).eval = d.eval := by
  unfold afterInitW
  by_cases hi : initCond d.last = true
  · rw [if_pos hi]
    exact ⟨((wrap_freshW d h).setLast _).inv, wrap_evalW d h⟩
  · rw [if_neg hi]; exact ⟨h, rfl⟩

theorem maybeWrapW_inv (new : Op) (d : WDF) (h : InvW d) : InvW (maybeWrapW new d) ∧ (maybeWrapW new d).eval = d.eval := by
  unfold maybeWrapW
  by_cases hw : wrapCond d.last new = true
  · rw [if_pos hw]; exact ⟨(wrap_freshW d h).inv, wrap_evalW d h⟩
  · rw [if_neg hw]; exact ⟨h, rfl⟩

/-- the DataFrame the body sees evaluates like the receiver and satisfies the invariant -/
theorem enterW_inv (op : Op) (d : WDF) (h : InvW d) : InvW (enterW op d) ∧ (enterW op d).eval = d.eval := by
  unfold enterW
  have h1 := afterInitW_inv d h
  have h2 := maybeWrapW_inv (newOp op (afterInitW d).last) (afterInitW d) h1.1
  exact ⟨h2.1, h2.2.trans h1.2⟩

/-- readiness for clauses up to SELECT, from the invariant and the generated wrap rule -/
theorem maybeWrapW_ready (op : Op) (hle : op.toInt ≤ Op.select.toInt) (d : WDF) (h : InvW d) :
    ReadyW (maybeWrapW op d) := by
  unfold maybeWrapW
  by_cases hw : wrapCond d.last op = true
  · rw [if_pos hw]; exact (wrap_freshW d h).ready
  · rw [if_neg hw]
    have hw' : wrapCond d.last op = false := by simpa using hw
    obtain ⟨hle', hns⟩ := wrapCond_soundW _ _ hw'
    obtain ⟨_, _, hsel, hord, hlim⟩ := h
    have hlt : d.last.toInt < Op.select.toInt := by
      by_cases he : op = .select
      · subst he
        have hne : d.last ≠ .select := fun e => hns ⟨e, rfl⟩
        revert hle' hne; cases d.last <;> simp [Op.toInt]
      · have : op.toInt < Op.select.toInt := by
          revert hle he; cases op <;> simp [Op.toInt]
        omega
    have h1 := hsel hlt
    exact ⟨h1.1, h1.2, hord (by simp [Op.toInt] at hlt ⊢; omega), hlim (by simp [Op.toInt] at hlt ⊢; omega)⟩

theorem enterW_ready (op : Op) (hop : op ≠ .noOp) (hle : op.toInt ≤ Op.select.toInt) (d : WDF) (h : InvW d) :
    ReadyW (enterW op d) := by
  unfold enterW
  simp only [newOp_tagW _ _ hop]
  exact maybeWrapW_ready op hle _ (afterInitW_inv d h).1

theorem afterInitW_last (d : WDF) (hno : d.last ≠ .orderBy) : (afterInitW d).last ≠ .orderBy := by
  unfold afterInitW
  by_cases hi : initCond d.last = true
  · rw [if_pos hi]; show initReset ≠ Op.orderBy; decide
  · rw [if_neg hi]; exact hno

/-- readiness for ORDER BY needs, in addition, that the previous operation was not itself an ORDER BY -/
theorem enterW_readyO (d : WDF) (h : InvW d) (hno : d.last ≠ .orderBy) : ReadyOW (enterW .orderBy d) := by
  unfold enterW
  simp only [newOp_tagW _ _ (show Op.orderBy ≠ .noOp by decide)]
  have h1 := (afterInitW_inv d h).1
  have hno1 := afterInitW_last d hno
  generalize afterInitW d = d1 at h1 hno1
  unfold maybeWrapW
  by_cases hw : wrapCond d1.last .orderBy = true
  · rw [if_pos hw]
    have := (wrap_freshW d1 h1)
    exact ⟨this.2.2.2.2.1, this.2.2.2.2.2⟩
  · rw [if_neg hw]
    have hw' : wrapCond d1.last .orderBy = false := by simpa using hw
    obtain ⟨hle', _⟩ := wrapCond_soundW _ _ hw'
    obtain ⟨_, _, _, hord, hlim⟩ := h1
    have hlt : d1.last.toInt < Op.orderBy.toInt := by
      revert hle' hno1; cases d1.last <;> simp [Op.toInt]
    exact ⟨hord hlt, hlim (by simp [Op.toInt] at hlt ⊢; omega)⟩

/-! ### shape of a ready block -/

theorem ready_blkW (d : WDF) (h : ReadyW d) :
    d.blk = { wher := d.blk.wher, sel := identItems d.src.cols, distinct := false, order := [], limit := none } := by
  obtain ⟨h1, h2, h3, h4⟩ := h
  cases hb : d.blk; simp_all

theorem ready_evalW (d : WDF) (hi : InvW d) (h : ReadyW d) : d.eval = filtered d.blk.wher d.src := by
  simp only [WDF.eval]
  rw [ready_blkW d h, evalWBlock_plain _ _ hi.1]

theorem ready_outNamesW (d : WDF) (h : ReadyW d) : d.outNames = d.src.cols := by
  simp [WDF.outNames, h.1]

/-! ### clauses -/

theorem clause_whereW (d : WDF) (hi : InvW d) (h : ReadyW d) (p : Expr) :
    (bodyWhereW p d).eval = d.eval.filter p := by
  rw [ready_evalW d hi h]
  simp only [bodyWhereW, whereAppend, if_true, WDF.eval, Table.filter]
  rw [ready_blkW d h]
  simp only []
  rw [evalWBlock_plain _ _ hi.1]
  simp only [filtered, stWhere]
  rw [filter_all_appendW]

/-- **the select list of a ready block ranges over the block's result so far**: its window functions see
    exactly the rows the previous calls produced -/
theorem clause_selectW (d : WDF) (hi : InvW d) (h : ReadyW d) (items : List Item) :
    (bodySelectW items d).eval = projectW d.eval items := by
  rw [ready_evalW d hi h]
  simp only [bodySelectW, selectAppendDefault, WDF.eval, projectW]
  rw [ready_blkW d h]
  simp [evalWBlock, stLimit, stOrder, stDistinct, filtered]

theorem clause_selectNoAppendW (d : WDF) (hi : InvW d) (h : ReadyW d) (items : List Item) :
    (bodySelectNoAppendW dropSelectAppend items d).eval = projectW d.eval items := by
  rw [ready_evalW d hi h]
  simp only [bodySelectNoAppendW, dropSelectAppend, WDF.eval, projectW]
  rw [ready_blkW d h]
  simp [evalWBlock, stLimit, stOrder, stDistinct, filtered]

theorem clause_distinctW (d : WDF) (hi : InvW d) (h : ReadyW d) :
    (bodyDistinctW d).eval = d.eval.distinct := by
  rw [ready_evalW d hi h]
  simp only [bodyDistinctW, WDF.eval, Table.distinct]
  rw [ready_blkW d h]
  simp only [evalWBlock, identItems_names, stLimit, stOrder, stDistinct, if_true, filtered]
  congr 2
  exact stSelectW_ident (filtered d.blk.wher d.src) (filtered_WF _ _ hi.1)

theorem clause_orderByW (d : WDF) (h : ReadyOW d) (keys : List OrdKey) (hk : keys ≠ []) :
    (bodyOrderByW keys d).eval = d.eval.sort keys := by
  obtain ⟨ho, hl⟩ := h
  simp only [bodyOrderByW, orderByAppend, WDF.eval, Table.sort, evalWBlock, ho, hl, stLimit, stOrder]
  cases keys with
  | nil => exact absurd rfl hk
  | cons k ks => simp

theorem clause_limitW (d : WDF) (n : Nat) : (bodyLimitW n d).eval = d.eval.limit n := by
  simp only [bodyLimitW, WDF.eval, Table.limit, evalWBlock]
  cases hl : d.blk.limit with
  | none => simp [stLimit, mergeLimit]
  | some m => simp [stLimit, mergeLimit, limitMerge, List.take_take]

/-! ### names of the select list `withColumns` builds -/

theorem withItem_names (cols : List Name) (it : Item) :
    (withItem cols it).map Item.name = if it.name ∈ cols then cols else cols ++ [it.name] := by
  unfold withItem
  simp only [withColumnsExistingInPlace, withColumnsNewAtEnd, if_true]
  split
  · simp only [List.map_map]
    calc _ = cols.map id := by
            apply List.map_congr_left; intro c _; simp only [Function.comp]; split <;> simp_all [Item.name]
      _ = cols := by simp
  · simp

theorem withItem_nodup (cols : List Name) (it : Item) (h : cols.Nodup) :
    ((withItem cols it).map Item.name).Nodup := by
  rw [withItem_names]
  split
  · exact h
  · rename_i hn
    rw [List.nodup_append]
    refine ⟨h, by simp, ?_⟩
    intro a ha b hb
    simp at hb; subst hb
    exact fun e => hn (e ▸ ha)


/-! ### `groupBy(...).agg(...)` -/

/-- the `group_operation` copy of the decorator takes the same decisions as `operation` (generated separately) -/
theorem initCondGroup_eq : ∀ l : Op, initCondGroup l = initCond l := by intro l; cases l <;> rfl
theorem wrapCondGroup_eq : ∀ a b : Op, wrapCondGroup a b = wrapCond a b := by intro a b; cases a <;> cases b <;> rfl
theorem newOpGroup_eq : ∀ a b : Op, newOpGroup a b = newOp a b := by intro a b; cases a <;> cases b <;> rfl
theorem initResetGroup_eq : initResetGroup = initReset := rfl
theorem lastAfterGroup_eq : ∀ a b : Op, lastAfterGroup a b = lastAfter a b := by intro a b; rfl

theorem wrapperGroupW_eq (tag : Option Op) (body : WDF → WDF) (d : WDF) : wrapperGroupW tag body d = wrapperW tag body d := by
  cases tag with
  | none => rfl
  | some op => simp only [wrapperGroupW, wrapperW, initCondGroup_eq, wrapCondGroup_eq, newOpGroup_eq, initResetGroup_eq, lastAfterGroup_eq]

theorem enterOpW_eq (op : Op) (d : WDF) : enterOpW (some op) d = enterW op d := rfl

theorem dedup_subW : ∀ (l : List Row) (r : Row), r ∈ dedup l → r ∈ l := by
  intro l
  induction l with
  | nil => intro r hr; simp [dedup] at hr
  | cons x xs ih =>
    intro r hr
    simp only [dedup, List.mem_cons, List.mem_filter] at hr
    rcases hr with rfl | ⟨hr, _⟩
    · simp
    · exact List.mem_cons_of_mem _ (ih r hr)

theorem groupAggTable_WF (T : Table) (keys : List Name) (aggs : List AggItem) (h : (keys ++ aggs.map (·.name)).Nodup) :
    (groupAggTable T keys aggs).WF := by
  refine ⟨h, ?_⟩
  intro r hr
  simp only [groupAggTable, List.mem_map] at hr
  obtain ⟨kv, hkv, rfl⟩ := hr
  have := dedup_subW _ _ hkv
  simp only [List.mem_map] at this
  obtain ⟨r0, _, rfl⟩ := this
  simp [partKey, groupAggTable]

theorem clause_aggW (d : WDF) (hi : InvW d) (h : ReadyW d) (keys : List Name) (aggs : List AggItem)
    (hn : (keys ++ aggs.map (·.name)).Nodup) :
    (bodyAggW keys aggs d).eval = groupAggTable d.eval keys aggs ∧ FreshW (bodyAggW keys aggs d) := by
  have hT : bodyAggW keys aggs d =
      { src := groupAggTable d.eval keys aggs, blk := { sel := identItems (groupAggTable d.eval keys aggs).cols },
        last := d.last, ctes := d.ctes } := by
    rw [ready_evalW d hi h]
    simp only [bodyAggW, h.2.1, h.2.2.1, h.2.2.2, stLimit, stOrder, stDistinct, filtered]
    rfl
  have hf : FreshW (bodyAggW keys aggs d) := by
    rw [hT]
    exact ⟨groupAggTable_WF _ _ _ hn, rfl, rfl, rfl, rfl, rfl⟩
  refine ⟨?_, hf⟩
  rw [fresh_evalW _ hf, hT]

/-! ### one public call -/

theorem inv_of_ready_selectW (d : WDF) (hi : InvW d) (hr : ReadyW d) (items : List Item)
    (hn : (items.map Item.name).Nodup) (b : WBlock) (hb : b = { d.blk with sel := items }) (c : Nat) :
    InvW { src := d.src, blk := b, last := Op.select, ctes := c } := by
  subst hb
  exact ⟨hi.1, hn, fun hlt => by simp [Op.toInt] at hlt, fun _ => hr.2.2.1, fun _ => hr.2.2.2⟩

/-- every public call acts on the *result* of the receiver, whatever block structure the receiver has -/
theorem chain_stepW (d : WDF) (s : CStep) (h : InvW d) (hs : s.WF d.eval.cols)
    (hno : s.isOrderBy = true → d.last ≠ .orderBy) :
    (d.apply s).eval = specStepW d.eval s ∧ InvW (d.apply s) ∧
      (s.isOrderBy = false → (d.apply s).last ≠ .orderBy) := by
  cases s with
  | wher p =>
    have hop : Op.wher ≠ Op.noOp := by decide
    obtain ⟨hi, he⟩ := enterW_inv .wher d h
    have hr := enterW_ready .wher hop (by decide) d h
    simp only [WDF.apply, tag_where, wrapperW_eq _ hop, specStepW]
    refine ⟨?_, ?_, fun _ => by simp⟩
    · rw [← he]; exact clause_whereW _ hi hr p
    · refine ⟨hi.1, ?_, fun _ => ⟨hr.1, hr.2.1⟩, fun _ => hr.2.2.1, fun _ => hr.2.2.2⟩
      simpa [bodyWhereW] using hi.2.1
  | select items =>
    have hop : Op.select ≠ Op.noOp := by decide
    obtain ⟨hi, he⟩ := enterW_inv .select d h
    have hr := enterW_ready .select hop (by decide) d h
    simp only [WDF.apply, tag_select, wrapperW_eq _ hop, specStepW]
    refine ⟨?_, ?_, fun _ => by simp⟩
    · rw [← he]; exact clause_selectW _ hi hr items
    · exact inv_of_ready_selectW _ hi hr items hs _ (by simp [bodySelectW, selectAppendDefault]) _
  | withColumn it =>
    have hop : Op.select ≠ Op.noOp := by decide
    obtain ⟨hi, he⟩ := enterW_inv .select d h
    have hr := enterW_ready .select hop (by decide) d h
    have hcols : (enterW .select d).outNames = d.eval.cols := by
      rw [ready_outNamesW _ hr, ← he, ready_evalW _ hi hr]; rfl
    simp only [WDF.apply, tag_withColumn, via, withColumnViaWrapped, withColumnsSelectViaWrapped, if_true,
      wrapperW_eq _ hop, specStepW, hcols]
    refine ⟨?_, ?_, fun _ => by simp⟩
    · rw [← he]; exact clause_selectW _ hi hr _
    · refine inv_of_ready_selectW _ hi hr (withItem d.eval.cols it) ?_ _ (by simp [bodySelectW, selectAppendDefault]) _
      apply withItem_nodup
      rw [← he, ready_evalW _ hi hr]; exact hi.1.1
  | distinct =>
    have hop : Op.select ≠ Op.noOp := by decide
    obtain ⟨hi, he⟩ := enterW_inv .select d h
    have hr := enterW_ready .select hop (by decide) d h
    simp only [WDF.apply, tag_distinct, wrapperW_eq _ hop, specStepW]
    refine ⟨?_, ?_, fun _ => by simp⟩
    · rw [← he]; exact clause_distinctW _ hi hr
    · refine ⟨hi.1, ?_, fun hlt => by simp [Op.toInt] at hlt, fun _ => hr.2.2.1, fun _ => hr.2.2.2⟩
      simpa [bodyDistinctW] using hi.2.1
  | orderBy keys =>
    have hop : Op.orderBy ≠ Op.noOp := by decide
    obtain ⟨hi, he⟩ := enterW_inv .orderBy d h
    have hr := enterW_readyO d h (hno rfl)
    simp only [WDF.apply, tag_orderBy, wrapperW_eq _ hop, specStepW]
    refine ⟨?_, ?_, fun hf => by simp [CStep.isOrderBy] at hf⟩
    · rw [← he]; exact clause_orderByW _ hr keys hs
    · refine ⟨hi.1, ?_, fun hlt => by simp [Op.toInt] at hlt, fun hlt => by simp [Op.toInt] at hlt, fun _ => hr.2⟩
      simpa [bodyOrderByW] using hi.2.1
  | limit n =>
    have hop : Op.limit ≠ Op.noOp := by decide
    obtain ⟨hi, he⟩ := enterW_inv .limit d h
    simp only [WDF.apply, tag_limit, wrapperW_eq _ hop, specStepW]
    refine ⟨?_, ?_, fun _ => by simp⟩
    · rw [← he]; exact clause_limitW _ n
    · refine ⟨hi.1, ?_, fun hlt => by simp [Op.toInt] at hlt, fun hlt => by simp [Op.toInt] at hlt, fun hlt => by simp [Op.toInt] at hlt⟩
      simpa [bodyLimitW] using hi.2.1
  | groupAgg keys aggs =>
    have hop : Op.select ≠ Op.noOp := by decide
    obtain ⟨hi, he⟩ := enterW_inv .groupBy d h
    obtain ⟨hi2, he2⟩ := enterW_inv .select (enterW .groupBy d) hi
    have hr2 := enterW_ready .select hop (by decide) (enterW .groupBy d) hi
    have hn : (keys ++ aggs.map (·.name)).Nodup := hs
    obtain ⟨hev, hfr⟩ := clause_aggW _ hi2 hr2 keys aggs hn
    simp only [WDF.apply, tag_groupBy, gtag_agg, wrapperGroupW_eq, enterOpW_eq, wrapperW_eq _ hop, specStepW]
    refine ⟨?_, ?_, fun _ => by simp⟩
    · rw [← he, ← he2]; exact hev
    · exact (hfr.setLast Op.select).inv
  | drop ns =>
    have hop : Op.select ≠ Op.noOp := by decide
    obtain ⟨hi, he⟩ := enterW_inv .select d h
    have hr := enterW_ready .select hop (by decide) d h
    -- the body runs select's wrapper once more on what the outer wrapper handed it
    obtain ⟨hi2, he2⟩ := enterW_inv .select (enterW .select d) hi
    have hr2 := enterW_ready .select hop (by decide) (enterW .select d) hi
    have hcols : (enterW .select d).outNames = d.eval.cols := by
      rw [ready_outNamesW _ hr, ← he, ready_evalW _ hi hr]; rfl
    simp only [WDF.apply, tag_drop, tag_select, wrapperW_eq _ hop, specStepW, hcols]
    refine ⟨?_, ?_, fun _ => by simp⟩
    · rw [← he, ← he2]; exact clause_selectNoAppendW _ hi2 hr2 _
    · refine inv_of_ready_selectW _ hi2 hr2 (identItems (d.eval.cols.filter (fun c => c ∉ ns))) ?_ _
        (by simp [bodySelectNoAppendW, dropSelectAppend]) _
      rw [identItems_names]
      have hnd : d.eval.cols.Nodup := by rw [← he, ready_evalW _ hi hr]; exact hi.1.1
      exact hnd.sublist List.filter_sublist

/-- chains of any length, by induction over the list of calls -/
theorem chain_runW : ∀ (steps : List CStep) (d : WDF) (po : Bool), InvW d → (po = false → d.last ≠ .orderBy) →
    ChainOK d.eval po steps → (d.run steps).eval = specRunW d.eval steps ∧ InvW (d.run steps)
  | [], d, _, h, _, _ => ⟨rfl, h⟩
  | s :: ss, d, po, h, hpo, hok => by
    obtain ⟨hwf, hadj, hrest⟩ := hok
    have hno : s.isOrderBy = true → d.last ≠ .orderBy := fun hs => hpo (hadj hs)
    obtain ⟨he, hi, hl⟩ := chain_stepW d s h hwf hno
    have hpo' : s.isOrderBy = false → (d.apply s).last ≠ .orderBy := hl
    rw [← he] at hrest
    have ih := chain_runW ss (d.apply s) s.isOrderBy hi hpo' hrest
    simp only [WDF.run, specRunW, List.foldl_cons] at ih ⊢
    rw [← he]
    exact ih

/-! ### resolving the window specs of a program -/

theorem resolveItems_congr (f g : List BOp → Option WinDef) : ∀ (items : List UItem),
    (∀ ops ∈ items.flatMap UItem.ops, f ops = g ops) → resolveItems f items = resolveItems g items
  | [], _ => rfl
  | it :: its, h => by
    have h1 : it.resolve f = it.resolve g := by
      cases it with
      | expr n e => rfl
      | win n ops fn =>
        have := h ops (by simp [UItem.ops])
        simp [UItem.resolve, this]
    have h2 := resolveItems_congr f g its (fun ops ho => h ops (by
      simp only [List.flatMap_cons, List.mem_append]; exact Or.inr ho))
    simp only [resolveItems, h1, h2]

theorem resolveSteps_congr (f g : List BOp → Option WinDef) : ∀ (prog : List UStep),
    (∀ ops ∈ progSpecs prog, f ops = g ops) → resolveSteps f prog = resolveSteps g prog
  | [], _ => rfl
  | s :: ss, h => by
    have hs : ∀ ops ∈ s.specs, f ops = g ops := fun ops ho => h ops (by
      simp only [progSpecs, List.flatMap_cons, List.mem_append]; exact Or.inl ho)
    have h1 : s.resolve f = s.resolve g := by
      cases s with
      | select items => simp only [UStep.resolve, resolveItems_congr f g items hs]
      | withColumn it =>
        cases it with
        | expr n e => rfl
        | win n ops fn =>
          have := hs ops (by simp [UStep.specs, UItem.ops])
          simp [UStep.resolve, UItem.resolve, this]
      | _ => rfl
    have h2 := resolveSteps_congr f g ss (fun ops ho => h ops (by
      simp only [progSpecs, List.flatMap_cons, List.mem_append]; exact Or.inr ho))
    simp only [resolveSteps, h1, h2]

end Sqlframe.Win
