/-
Lemmas/C06Const.lean — constant grouping keys, and the engine's positional reading of integer constants in
GROUP BY.
-/
import SqlframeModel.Lemmas.C06Group
namespace Sqlframe
open Gen

/-- an expression without column references has the same value in every row of every table -/
theorem eval_const (cols : List Name) (r : Row) : ∀ e : Expr, e.refs = [] → eval cols r e = eval [] [] e
  | .col n, h => by simp [Expr.refs] at h
  | .lit _, _ => rfl
  | .bin op a b, h => by
    simp only [Expr.refs, List.append_eq_nil_iff] at h
    simp only [eval, eval_const cols r a h.1, eval_const cols r b h.2]
  | .not a, h => by
    simp only [Expr.refs] at h
    simp only [eval, eval_const cols r a h]
  | .neg a, h => by
    simp only [Expr.refs] at h
    simp only [eval, eval_const cols r a h]
  | .isNull a, h => by
    simp only [Expr.refs] at h
    simp only [eval, eval_const cols r a h]
  | .ite c t e, h => by
    simp only [Expr.refs, List.append_eq_nil_iff] at h
    simp only [eval, eval_const cols r c h.1.1, eval_const cols r t h.1.2, eval_const cols r e h.2]

theorem eval_constValue (cols : List Name) (r : Row) (e : Expr) (h : e.refs = []) : eval cols r e = constValue e := by
  rw [constValue, if_pos h, eval_const cols r e h]

theorem distinctL_const (c : List Val) : ∀ (rows : List Row), rows ≠ [] → distinctL (rows.map (fun _ => c)) = [c]
  | [], h => absurd rfl h
  | [_], _ => by simp [distinctL]
  | _ :: b :: rs, _ => by
    have ih := distinctL_const c (b :: rs) (by simp)
    simp only [List.map_cons] at ih ⊢
    simp only [distinctL, List.mem_cons, true_or, if_true]
    simpa [distinctL] using ih

/-- PySpark's grouped aggregate over keys that are all constants: one row (the constants, then the aggregates
    over *all* rows) iff the input has a row — never a row over an empty input -/
theorem aggSpec_const_keys (keys : List (Name × Expr)) (aggs : List (Name × AExpr)) (T : Table)
    (hk : keys ≠ []) (hc : ∀ k ∈ keys, k.2.refs = []) :
    (aggSpec keys aggs T).rows =
      if T.rows = [] then []
      else [keys.map (fun k => constValue k.2) ++ aggs.map (fun a => evalAExpr T.cols T.rows a.2)] := by
  have hkey : ∀ r : Row, keys.map (fun k => eval T.cols r k.2) = keys.map (fun k => constValue k.2) :=
    fun r => List.map_congr_left (fun k hkm => eval_constValue T.cols r k.2 (hc k hkm))
  simp only [aggSpec, if_neg hk, hkey]
  by_cases he : T.rows = []
  · simp [he, distinctL]
  · rw [if_neg he, distinctL_const _ _ he]
    have hf : T.rows.filter (fun _ => true) = T.rows := List.filter_eq_self.mpr (fun _ _ => rfl)
    simp [hf]

/-! ### positions -/

theorem resolveGroupBy_none (sel : List (Name × GItem)) : ∀ es : List Expr, (∃ e ∈ es, groupByTerm sel e = none) →
    resolveGroupBy sel es = none
  | [], h => by obtain ⟨_, he, _⟩ := h; simp at he
  | x :: xs, h => by
    obtain ⟨e, he, hn⟩ := h
    rcases List.mem_cons.mp he with rfl | he'
    · simp only [resolveGroupBy, hn]
    · have := resolveGroupBy_none sel xs ⟨e, he', hn⟩
      simp only [resolveGroupBy, this]
      cases groupByTerm sel x <;> rfl

/-- an integer constant in GROUP BY that is not the position of a key of the select list
    `keys ++ aggregates` is rejected -/
theorem groupByTerm_out (keys : List (Name × Expr)) (aggs : List (Name × AExpr)) (n : Int)
    (h : n ≤ 0 ∨ (keys.length : Int) < n) :
    groupByTerm (keys.map (fun k => (k.1, GItem.key k.2)) ++ aggs.map (fun a => (a.1, GItem.agg a.2))) (.lit (.int n)) = none := by
  simp only [groupByTerm]
  by_cases h0 : n ≤ 0
  · rw [if_pos h0]
  · rw [if_neg h0]
    have hlt : (keys.length : Int) < n := by rcases h with h | h; exact absurd h h0; exact h
    have hidx : (keys.map (fun k => (k.1, GItem.key k.2))).length ≤ (n - 1).toNat := by
      rw [List.length_map]; omega
    rw [List.getElem?_append_right hidx, List.getElem?_map]
    cases aggs[(n - 1).toNat - (keys.map (fun k => (k.1, GItem.key k.2))).length]? <;> rfl

end Sqlframe
