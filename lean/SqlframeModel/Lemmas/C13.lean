/-
Lemmas/C13.lean — helper lemmas for C13: congruence of `evalBody`, monotonicity of fuel,
embedding of a closed CTE chain into a larger WITH list, and the exact content of the WITH list
after the splice added view chains.
-/
import SqlframeModel.Impl.C13Views
namespace Sqlframe.Views
open Sqlframe Sqlframe.Gen

/-! ### association lists -/

theorem assoc_append {β : Type} (l₁ l₂ : List (Name × β)) (n : Name) :
    assoc (l₁ ++ l₂) n = match assoc l₁ n with | some b => some b | none => assoc l₂ n := by
  induction l₁ with
  | nil => simp [assoc]
  | cons h t ih =>
    obtain ⟨k, v⟩ := h
    simp only [List.cons_append, assoc]
    split <;> simp_all

theorem assoc_none_iff {β : Type} (l : List (Name × β)) (n : Name) : assoc l n = none ↔ n ∉ names l := by
  induction l with
  | nil => simp [assoc, names]
  | cons h t ih =>
    obtain ⟨k, v⟩ := h
    simp only [assoc, names, List.map_cons, List.mem_cons, not_or]
    split
    · rename_i hk; subst hk; simp
    · rename_i hk
      simp only [names] at ih
      rw [ih]
      constructor
      · intro h; exact ⟨fun e => hk e.symm, h⟩
      · intro h; exact h.2

theorem assoc_some_mem {β : Type} (l : List (Name × β)) (n : Name) (b : β) (h : assoc l n = some b) : n ∈ names l := by
  have : assoc l n ≠ none := by rw [h]; simp
  rw [Ne, assoc_none_iff] at this
  exact Decidable.of_not_not this

theorem assoc_filter_key {β : Type} (l : List (Name × β)) (p : Name → Bool) (n : Name) :
    assoc (l.filter (fun c => p c.1)) n = if p n then assoc l n else none := by
  induction l with
  | nil => simp [assoc]
  | cons h t ih =>
    obtain ⟨k, v⟩ := h
    by_cases hk : p k = true
    · simp only [List.filter_cons, hk, if_true, assoc]
      by_cases hkn : k = n
      · subst hkn; simp [hk]
      · simp [hkn, ih]
    · simp only [List.filter_cons, hk, assoc]
      by_cases hkn : k = n
      · subst hkn; simp [hk, ih]
      · simp [hkn, ih]

theorem assoc_map_snd {β γ : Type} (l : List (Name × β)) (g : β → γ) (n : Name) :
    assoc (l.map (fun c => (c.1, g c.2))) n = (assoc l n).map g := by
  induction l with
  | nil => simp [assoc]
  | cons h t ih =>
    obtain ⟨k, v⟩ := h
    simp only [List.map_cons, assoc]
    split <;> simp_all

theorem assoc_map_cond {β : Type} (l : List (Name × β)) (p : Name → Bool) (g : β → β) (n : Name) :
    assoc (l.map (fun c => if p c.1 then (c.1, g c.2) else c)) n = (assoc l n).map (fun b => if p n then g b else b) := by
  induction l with
  | nil => simp [assoc]
  | cons h t ih =>
    obtain ⟨k, v⟩ := h
    simp only [List.map_cons]
    by_cases hp : p k = true
    · simp only [hp, if_true, assoc]
      by_cases hk : k = n
      · subst hk; simp [hp]
      · simp [hk, ih]
    · simp only [hp, assoc]
      by_cases hk : k = n
      · subst hk; simp [hp]
      · simp [hk, ih]

/-- like `assoc_map_cond`, with a rewrite that may depend on the key -/
theorem assoc_map_cond_key {β : Type} (l : List (Name × β)) (p : Name → Bool) (g : Name → β → β) (n : Name) :
    assoc (l.map (fun c => if p c.1 then (c.1, g c.1 c.2) else c)) n = (assoc l n).map (fun b => if p n then g n b else b) := by
  induction l with
  | nil => simp [assoc]
  | cons h t ih =>
    obtain ⟨k, v⟩ := h
    simp only [List.map_cons]
    by_cases hp : p k = true
    · simp only [hp, if_true, assoc]
      by_cases hk : k = n
      · subst hk; simp [hp]
      · simp [hk, ih]
    · simp only [hp, assoc]
      by_cases hk : k = n
      · subst hk; simp [hp]
      · simp [hk, ih]

/-! ### bodies -/

/-- `_create_cte_from_expression` clears only the WITH list of the copied leaf: every operator of the leaf moves into the CTE -/
theorem movedLeaf_id (hc : cteClearedArgs = ["with"]) (b : Body) : movedLeaf b = b := by
  cases b with
  | un op b =>
    have : cteClearedArgs.contains op.clause = false := by
      rw [hc]; cases op <;> simp [UnOp.clause]
    unfold movedLeaf
    rw [this]; rfl
  | _ => rfl

theorem rename_eq_self (ρ : Name → Name) (b : Body) (h : ∀ m ∈ b.refs, ρ m = m) : b.rename ρ = b := by
  induction b with
  | lit T => rfl
  | scan n => simp [Body.rename, h n (by simp [Body.refs])]
  | un op b ih => simp [Body.rename, ih (by simpa [Body.refs] using h)]
  | bin op l r ihl ihr =>
    simp only [Body.refs, List.mem_append] at h
    simp [Body.rename, ihl (fun m hm => h m (Or.inl hm)), ihr (fun m hm => h m (Or.inr hm))]

/-- evaluation only depends on the meaning of the referenced names (up to a renaming of the references) -/
theorem evalBody_congr (res₁ res₂ : Name → Option Table) (ρ : Name → Name) (b : Body)
    (h : ∀ n ∈ b.refs, res₁ n = res₂ (ρ n)) : evalBody res₁ b = evalBody res₂ (b.rename ρ) := by
  induction b with
  | lit T => rfl
  | scan n => simpa [evalBody, Body.rename] using h n (by simp [Body.refs])
  | un op b ih => simp [evalBody, Body.rename, ih (by simpa [Body.refs] using h)]
  | bin op l r ihl ihr =>
    simp only [Body.refs, List.mem_append] at h
    simp [evalBody, Body.rename, ihl (fun m hm => h m (Or.inl hm)), ihr (fun m hm => h m (Or.inr hm))]

theorem evalBody_congr_id (res₁ res₂ : Name → Option Table) (b : Body)
    (h : ∀ n ∈ b.refs, res₁ n = res₂ n) : evalBody res₁ b = evalBody res₂ b := by
  have := evalBody_congr res₁ res₂ id b h
  rwa [rename_eq_self id b (fun _ _ => rfl)] at this

/-- successful evaluation is preserved when every referenced name keeps its (successful) meaning -/
theorem evalBody_mono (res₁ res₂ : Name → Option Table) (ρ : Name → Name) (b : Body)
    (h : ∀ n ∈ b.refs, ∀ T, res₁ n = some T → res₂ (ρ n) = some T) :
    ∀ T, evalBody res₁ b = some T → evalBody res₂ (b.rename ρ) = some T := by
  induction b with
  | lit T => intro T' h'; simpa [evalBody, Body.rename] using h'
  | scan n => intro T h'; exact h n (by simp [Body.refs]) T (by simpa [evalBody] using h')
  | un op b ih =>
    intro T h'
    simp only [evalBody, Option.bind_eq_some_iff] at h'
    obtain ⟨X, hX, hop⟩ := h'
    simp only [evalBody, Body.rename, Option.bind_eq_some_iff]
    exact ⟨X, ih (by simpa [Body.refs] using h) X hX, hop⟩
  | bin op l r ihl ihr =>
    intro T h'
    simp only [Body.refs, List.mem_append] at h
    simp only [evalBody, Option.bind_eq_some_iff] at h'
    obtain ⟨L, hL, R, hR, hop⟩ := h'
    simp only [evalBody, Body.rename, Option.bind_eq_some_iff]
    exact ⟨L, ihl (fun m hm => h m (Or.inl hm)) L hL, R, ihr (fun m hm => h m (Or.inr hm)) R hR, hop⟩

theorem evalBody_mono_id (res₁ res₂ : Name → Option Table) (b : Body)
    (h : ∀ n ∈ b.refs, ∀ T, res₁ n = some T → res₂ n = some T) :
    ∀ T, evalBody res₁ b = some T → evalBody res₂ b = some T := by
  have := evalBody_mono res₁ res₂ id b h
  rwa [rename_eq_self id b (fun _ _ => rfl)] at this

/-! ### the identity select by name -/

theorem map_lookup_self : ∀ (cs : List Name) (r : Row), cs.Nodup → r.length = cs.length →
    cs.map (fun c => lookup cs r c) = r := by
  intro cs
  induction cs with
  | nil => intro r _ hl; cases r with | nil => rfl | cons _ _ => simp at hl
  | cons c cs ih =>
    intro r hn hl
    cases r with
    | nil => simp at hl
    | cons v r =>
      have hn' := List.nodup_cons.1 hn
      simp only [List.map_cons, lookup, if_true]
      congr 1
      have e1 : cs.map (fun n => if c = n then v else lookup cs r n) = cs.map (fun n => lookup cs r n) := by
        apply List.map_congr_left
        intro n hmem
        have : c ≠ n := fun e => hn'.1 (e ▸ hmem)
        simp [this]
      rw [e1]
      exact ih r hn'.2 (by simpa using hl)

/-- on a well-formed table (distinct column names, rows of the table's arity) reading every column back
    by name is the identity -/
theorem byName_of_wf (T : Table) (h : T.WF) : UnOp.byName.apply T = some T := by
  obtain ⟨hn, hr⟩ := h
  simp only [UnOp.apply]
  congr 1
  cases T with
  | mk cols rows =>
    simp only [Table.mk.injEq, true_and]
    simp only at hn hr
    have : ∀ r ∈ rows, cols.map (fun c => lookup cols r c) = r := fun r hm => map_lookup_self cols r hn (hr r hm)
    rw [List.map_congr_left this]; simp

/-! ### fuel -/

theorem resolveFuel_succ (db : Db) (ctes : List CTE) :
    ∀ f n T, resolveFuel db ctes f n = some T → resolveFuel db ctes (f + 1) n = some T := by
  intro f
  induction f with
  | zero =>
    intro n T h
    simp only [resolveFuel] at h ⊢
    cases hc : assoc ctes n with
    | none => simpa [hc] using h
    | some b => simp [hc] at h
  | succ f ih =>
    intro n T h
    simp only [resolveFuel] at h ⊢
    cases hc : assoc ctes n with
    | none => simpa [hc] using h
    | some b =>
      simp only [hc] at h ⊢
      exact evalBody_mono_id _ _ b (fun m _ T' => ih m T') T h

theorem resolveFuel_mono (db : Db) (ctes : List CTE) (f f' : Nat) (hle : f ≤ f') :
    ∀ n T, resolveFuel db ctes f n = some T → resolveFuel db ctes f' n = some T := by
  induction hle with
  | refl => intro n T h; exact h
  | step _ ih => intro n T h; exact resolveFuel_succ db ctes _ n T (ih n T h)

theorem evalQueryFuel_mono (db : Db) (q : Query) (f f' : Nat) (hle : f ≤ f') (T : Table)
    (h : evalQueryFuel db q f = some T) : evalQueryFuel db q f' = some T :=
  evalBody_mono_id _ _ q.final (fun n _ T' => resolveFuel_mono db q.ctes f f' hle n T') T h

/-- a statement has at most one value -/
theorem Evaluates_det (db : Db) (q : Query) (T T' : Table) (h : Evaluates db q T) (h' : Evaluates db q T') : T = T' := by
  obtain ⟨f, hf⟩ := h
  obtain ⟨f', hf'⟩ := h'
  have a := evalQueryFuel_mono db q f (max f f') (Nat.le_max_left _ _) T hf
  have b := evalQueryFuel_mono db q f' (max f f') (Nat.le_max_right _ _) T' hf'
  rw [a] at b
  exact Option.some.inj b

/-! ### a closed chain means the same inside a larger WITH list -/

/-- `chain` sits inside `C` unchanged, and its bodies mention only chain names or names `C` does not bind -/
def ClosedIn (chain C : List CTE) : Prop :=
  ∀ n b, assoc chain n = some b →
    assoc C n = some b ∧ ∀ m ∈ b.refs, m ∈ names chain ∨ (m ∉ names chain ∧ m ∉ names C)

theorem resolveFuel_embed (db : Db) (chain C : List CTE) (hc : ClosedIn chain C) :
    ∀ f n, (n ∈ names chain ∨ (n ∉ names chain ∧ n ∉ names C)) →
      resolveFuel db chain f n = resolveFuel db C f n := by
  intro f
  induction f with
  | zero =>
    intro n hn
    simp only [resolveFuel]
    cases hch : assoc chain n with
    | some b => simp [(hc n b hch).1]
    | none =>
      have hnot : n ∉ names chain := (assoc_none_iff chain n).1 hch
      cases hn with
      | inl h => exact absurd h hnot
      | inr h => simp [(assoc_none_iff C n).2 h.2]
  | succ f ih =>
    intro n hn
    simp only [resolveFuel]
    cases hch : assoc chain n with
    | some b =>
      obtain ⟨hC, hrefs⟩ := hc n b hch
      simp only [hC]
      exact evalBody_congr_id _ _ b (fun m hm => ih m (hrefs m hm))
    | none =>
      have hnot : n ∉ names chain := (assoc_none_iff chain n).1 hch
      cases hn with
      | inl h => exact absurd h hnot
      | inr h => simp [(assoc_none_iff C n).2 h.2]

/-! ### the WITH list after the splice -/

/-- first chain that binds `n` -/
def firstBind : List (List CTE) → Name → Option Body
  | [], _ => none
  | ch :: rest, n => match assoc ch n with | some b => some b | none => firstBind rest n

def addAll (cs : List CTE) (chains : List (List CTE)) : List CTE :=
  chains.foldl (fun cs ch => cs ++ ch.filter (fun c => !(names cs).contains c.1)) cs

/-- exact content of the WITH list: the statement's own bindings win, then the first chain that binds the name -/
theorem assoc_addAll (chains : List (List CTE)) : ∀ (cs : List CTE) (n : Name),
    assoc (addAll cs chains) n = match assoc cs n with | some b => some b | none => firstBind chains n := by
  induction chains with
  | nil => intro cs n; simp only [addAll, List.foldl_nil, firstBind]; cases assoc cs n <;> rfl
  | cons ch rest ih =>
    intro cs n
    have := ih (cs ++ ch.filter (fun c => !(names cs).contains c.1)) n
    simp only [addAll, List.foldl_cons] at this ⊢
    rw [this, assoc_append]
    cases hcs : assoc cs n with
    | some b => simp
    | none =>
      have hn : n ∉ names cs := (assoc_none_iff cs n).1 hcs
      rw [assoc_filter_key ch (fun k => !(names cs).contains k) n]
      simp only [firstBind]
      have : (names cs).contains n = false := by simpa using hn
      simp only [this, Bool.not_false, if_true]

theorem addChains_eq_addAll (cfg : SpliceCfg) (ha : cfg.append = .ifAbsent) (hp : cfg.pos = .append) :
    ∀ (es : List Entry) (cs : List CTE), addChains cfg es cs = addAll cs (es.map (fun e => e.frame.ctes)) := by
  intro es
  induction es with
  | nil => intro cs; simp [addChains, addAll]
  | cons e rest ih =>
    intro cs
    simp only [addChains, ih, List.map_cons, addAll, List.foldl_cons, addCtes, hp, ctesToAdd, ha]

theorem firstBind_some (chains : List (List CTE)) (n : Name) (b : Body) (h : firstBind chains n = some b) :
    ∃ ch ∈ chains, assoc ch n = some b := by
  induction chains with
  | nil => simp [firstBind] at h
  | cons ch rest ih =>
    simp only [firstBind] at h
    cases hc : assoc ch n with
    | some b' =>
      simp only [hc, Option.some.injEq] at h
      exact ⟨ch, by simp, by rw [hc, h]⟩
    | none =>
      simp only [hc] at h
      obtain ⟨c, hm, hb⟩ := ih h
      exact ⟨c, by simp [hm], hb⟩

theorem firstBind_none (chains : List (List CTE)) (n : Name) (h : ∀ ch ∈ chains, n ∉ names ch) :
    firstBind chains n = none := by
  induction chains with
  | nil => rfl
  | cons ch rest ih =>
    simp only [firstBind]
    have : assoc ch n = none := (assoc_none_iff ch n).2 (h ch (by simp))
    simp only [this]
    exact ih (fun c hc => h c (by simp [hc]))

/-- with agreeing chains, every binding of a member chain is found in the merged list -/
theorem firstBind_agree (chains : List (List CTE))
    (hag : ∀ c₁ ∈ chains, ∀ c₂ ∈ chains, ∀ n b₁ b₂, assoc c₁ n = some b₁ → assoc c₂ n = some b₂ → b₁ = b₂)
    (ch : List CTE) (hm : ch ∈ chains) (n : Name) (b : Body) (hb : assoc ch n = some b) :
    firstBind chains n = some b := by
  cases hf : firstBind chains n with
  | some b' =>
    obtain ⟨c, hc, hcb⟩ := firstBind_some chains n b' hf
    rw [hag c hc ch hm n b' b hcb hb]
  | none =>
    exfalso
    clear hag
    induction chains with
    | nil => simp at hm
    | cons c rest ih =>
      simp only [firstBind] at hf
      cases hc : assoc c n with
      | some x => simp [hc] at hf
      | none =>
        simp only [hc] at hf
        cases List.mem_cons.1 hm with
        | inl h => subst h; rw [hb] at hc; cases hc
        | inr h => exact ih h hf

end Sqlframe.Views
