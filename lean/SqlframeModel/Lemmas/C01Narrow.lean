/-
Lemmas/C01Narrow.lean — what removing items from the select list of an *open* block does (an "in-place drop").

`drop` is tagged SELECT and selects the remaining columns through `select`'s wrapper, so after a DISTINCT / ORDER BY /
LIMIT it starts a new block.  Folding it into the open block instead (removing the items from the block's own select
list) is the same thing only when the block does not de-duplicate and no sort key is among the dropped names: SQL
de-duplicates and sorts the *projected* rows.
-/
import SqlframeModel.Lemmas.C01
namespace Sqlframe
open Gen

/-- remove the items named in `ns` from the block's select list; every other clause stays -/
def Block.narrow (b : Block) (ns : List Name) : Block := { b with sel := b.sel.filter (fun it => it.1 ∉ ns) }

/-- the narrowed output row, read off the full output row by name -/
def narrowRow (names ns : List Name) (r : Row) : Row := (names.filter (fun c => c ∉ ns)).map (fun c => lookup names r c)

theorem lookup_map_sel (g : Name × Expr → Val) : ∀ (sel : List (Name × Expr)), (sel.map (·.1)).Nodup →
    ∀ it ∈ sel, lookup (sel.map (·.1)) (sel.map g) it.1 = g it
  | [], _, it, h => by simp at h
  | hd :: tl, hnd, it, h => by
    simp only [List.map_cons] at hnd
    have hnd' := List.nodup_cons.mp hnd
    simp only [List.map_cons, lookup]
    rcases List.mem_cons.mp h with rfl | hin
    · simp
    · have hne : hd.1 ≠ it.1 := fun e => hnd'.1 (e ▸ List.mem_map_of_mem hin)
      rw [if_neg hne]
      exact lookup_map_sel g tl hnd'.2 it hin

theorem lookup_absent : ∀ (cs : List Name) (r : Row) (k : Name), k ∉ cs → lookup cs r k = .null
  | [], _, _, _ => by simp [lookup]
  | _ :: _, [], _, _ => by simp [lookup]
  | c :: cs, v :: vs, k, h => by
    have h' : c ≠ k ∧ k ∉ cs := by
      constructor
      · intro e; exact h (by simp [e])
      · intro e; exact h (by simp [e])
    simp only [lookup, if_neg h'.1]
    exact lookup_absent cs vs k h'.2

theorem lookup_map_fn (f : Name → Val) : ∀ (xs : List Name) (k : Name), k ∈ xs → lookup xs (xs.map f) k = f k
  | [], _, h => by simp at h
  | x :: xs, k, h => by
    simp only [List.map_cons, lookup]
    by_cases e : x = k
    · simp [e]
    · rw [if_neg e]
      exact lookup_map_fn f xs k (by rcases List.mem_cons.mp h with h | h; exact absurd h.symm e; exact h)

theorem lookup_narrow (names ns : List Name) (r : Row) (k : Name) (hk : k ∉ ns) :
    lookup (names.filter (fun c => c ∉ ns)) (narrowRow names ns r) k = lookup names r k := by
  unfold narrowRow
  by_cases hin : k ∈ names
  · exact lookup_map_fn _ _ k (List.mem_filter.mpr ⟨hin, by simpa using hk⟩)
  · rw [lookup_absent _ _ k (fun h => hin (List.mem_filter.mp h).1), lookup_absent _ _ k hin]

theorem rowLe_narrow (names ns : List Name) (r1 r2 : Row) : ∀ (ks : List OrdKey), (∀ k ∈ ks, k.name ∉ ns) →
    rowLe (names.filter (fun c => c ∉ ns)) ks (narrowRow names ns r1) (narrowRow names ns r2) = rowLe names ks r1 r2
  | [], _ => rfl
  | k :: ks, h => by
    have hk := h k (by simp)
    simp only [rowLe, lookup_narrow names ns _ k.name hk]
    rw [rowLe_narrow names ns r1 r2 ks (fun k' hk' => h k' (by simp [hk']))]

theorem insertBy_map {α β} (f : α → β) (le : α → α → Bool) (le' : β → β → Bool) (h : ∀ a b, le' (f a) (f b) = le a b)
    (x : α) : ∀ l : List α, insertBy le' (f x) (l.map f) = (insertBy le x l).map f
  | [] => rfl
  | y :: ys => by
    simp only [List.map_cons, insertBy, h]
    split
    · simp
    · simp [insertBy_map f le le' h x ys]

theorem sortBy_map {α β} (f : α → β) (le : α → α → Bool) (le' : β → β → Bool) (h : ∀ a b, le' (f a) (f b) = le a b) :
    ∀ l : List α, sortBy le' (l.map f) = (sortBy le l).map f
  | [] => rfl
  | x :: xs => by
    simp only [List.map_cons, sortBy, sortBy_map f le le' h xs]
    exact insertBy_map f le le' h x _

theorem narrowRow_sel (sel : List (Name × Expr)) (cols : List Name) (r0 : Row) (ns : List Name)
    (hnd : (sel.map (·.1)).Nodup) :
    narrowRow (sel.map (·.1)) ns (sel.map (fun it => eval cols r0 it.2))
      = (sel.filter (fun it => it.1 ∉ ns)).map (fun it => eval cols r0 it.2) := by
  unfold narrowRow
  rw [List.filter_map, List.map_map]
  apply List.map_congr_left
  intro it hit
  exact lookup_map_sel (fun it => eval cols r0 it.2) sel hnd it (List.mem_filter.mp hit).1

theorem narrow_names (sel : List (Name × Expr)) (ns : List Name) :
    (sel.filter (fun it => it.1 ∉ ns)).map (·.1) = (sel.map (·.1)).filter (fun c => c ∉ ns) := by
  rw [List.filter_map]; rfl

/-- folding a narrowing projection into an open block is the narrowing of the block's result — provided the block does not
    de-duplicate and sorts by none of the removed names -/
theorem evalBlock_narrow (b : Block) (T0 : Table) (ns : List Name) (hnd : (b.sel.map (·.1)).Nodup)
    (hd : b.distinct = false) (hk : ∀ k ∈ b.order, k.name ∉ ns) :
    evalBlock (b.narrow ns) T0 = (evalBlock b T0).project (dropItems (b.sel.map (·.1)) ns) := by
  have hproj : ∀ r : Row, (dropItems (b.sel.map (·.1)) ns).map (fun it => eval (b.sel.map (·.1)) r it.2)
      = narrowRow (b.sel.map (·.1)) ns r := by
    intro r
    simp [dropItems, identSel, narrowRow, List.map_map, Function.comp_def, eval]
  have hsel : stSelect (b.sel.filter (fun it => it.1 ∉ ns)) T0.cols (stWhere b.wher T0)
      = (stSelect b.sel T0.cols (stWhere b.wher T0)).map (narrowRow (b.sel.map (·.1)) ns) := by
    simp only [stSelect, List.map_map]
    apply List.map_congr_left
    intro r0 _
    simp only [Function.comp]
    exact (narrowRow_sel b.sel T0.cols r0 ns hnd).symm
  have hord : ∀ rows : List Row,
      stOrder ((b.sel.map (·.1)).filter (fun c => c ∉ ns)) b.order (rows.map (narrowRow (b.sel.map (·.1)) ns))
        = (stOrder (b.sel.map (·.1)) b.order rows).map (narrowRow (b.sel.map (·.1)) ns) := by
    intro rows
    cases hb : b.order with
    | nil => rfl
    | cons k ks =>
      simp only [stOrder]
      exact sortBy_map _ _ _ (fun r1 r2 => rowLe_narrow _ ns r1 r2 (k :: ks) (by rw [← hb]; exact hk)) rows
  have hlim : ∀ rows : List Row, stLimit b.limit (rows.map (narrowRow (b.sel.map (·.1)) ns))
      = (stLimit b.limit rows).map (narrowRow (b.sel.map (·.1)) ns) := by
    intro rows
    cases b.limit with
    | none => rfl
    | some n => simp [stLimit, List.map_take]
  simp only [evalBlock, Block.narrow, Table.project, hd, stDistinct, Bool.false_eq_true, if_false]
  rw [narrow_names, hsel, hord, hlim]
  congr 1
  · simp [dropItems]
  · apply List.map_congr_left
    intro r _
    exact (hproj r).symm

end Sqlframe
