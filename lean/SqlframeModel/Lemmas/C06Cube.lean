/-
Lemmas/C06Cube.lean — `cube`'s enumeration (`for i in <sizes>: itertools.combinations(cols, i)`) lists every
sub-list of the key list exactly once (as a permutation of the canonical enumeration `sublistsL`).
-/
import SqlframeModel.Impl.C06Group
namespace Sqlframe
open Gen

theorem flatMap_congr_mem {α β} (l : List α) (f g : α → List β) (h : ∀ a ∈ l, f a = g a) :
    l.flatMap f = l.flatMap g := by
  induction l with
  | nil => rfl
  | cons x xs ih =>
    rw [List.flatMap_cons, List.flatMap_cons, h x (by simp), ih (fun a ha => h a (by simp [ha]))]

theorem flatMap_append_perm {α β} (l : List α) (f g : α → List β) :
    (l.flatMap (fun a => f a ++ g a)).Perm (l.flatMap f ++ l.flatMap g) := by
  induction l with
  | nil => exact List.Perm.refl _
  | cons x xs ih =>
    simp only [List.flatMap_cons]
    -- (f x ++ g x) ++ R  ~  (f x ++ F) ++ (g x ++ G)   with R ~ F ++ G
    have h1 : ((f x ++ g x) ++ xs.flatMap (fun a => f a ++ g a)).Perm ((f x ++ g x) ++ (xs.flatMap f ++ xs.flatMap g)) :=
      List.Perm.append (List.Perm.refl _) ih
    refine h1.trans ?_
    rw [List.append_assoc, List.append_assoc]
    refine List.Perm.append (List.Perm.refl _) ?_
    rw [← List.append_assoc, ← List.append_assoc]
    exact List.Perm.append List.perm_append_comm (List.Perm.refl _)

/-- all combinations of all sizes 0..n (n at least the length) are all the sub-lists -/
theorem range_combos_perm {α} : ∀ (l : List α) (n : Nat), l.length ≤ n →
    ((List.range (n + 1)).flatMap (combos l)).Perm (sublistsL l)
  | [], n, _ => by
    rw [List.range_succ_eq_map, List.flatMap_cons, List.flatMap_map]
    have : (List.range n).flatMap (fun k => combos ([] : List α) (Nat.succ k)) = [] := by
      rw [List.flatMap_eq_nil_iff]; intro k _; rfl
    rw [this]
    exact List.Perm.refl _
  | x :: xs, 0, h => by simp at h
  | x :: xs, m + 1, h => by
    have hm : xs.length ≤ m := by simpa using h
    have ih1 := range_combos_perm xs m hm
    have ih2 := range_combos_perm xs (m + 1) (Nat.le_succ_of_le hm)
    rw [List.range_succ_eq_map, List.flatMap_cons, List.flatMap_map]
    have e : (List.range (m + 1)).flatMap (fun k => combos (x :: xs) (Nat.succ k))
        = (List.range (m + 1)).flatMap (fun k => (combos xs k).map (x :: ·) ++ combos xs (k + 1)) := rfl
    rw [e]
    have hp := flatMap_append_perm (List.range (m + 1)) (fun k => (combos xs k).map (x :: ·)) (fun k => combos xs (k + 1))
    have hA : (List.range (m + 1)).flatMap (fun k => (combos xs k).map (x :: ·))
        = ((List.range (m + 1)).flatMap (combos xs)).map (x :: ·) := by
      rw [List.map_flatMap]
    have hB : combos xs 0 ++ (List.range (m + 1)).flatMap (fun k => combos xs (k + 1))
        = (List.range (m + 1 + 1)).flatMap (combos xs) := by
      rw [List.range_succ_eq_map (n := m + 1), List.flatMap_cons, List.flatMap_map]
    -- [[]] ++ (A ++ B)  ~  A ++ ([[]] ++ B)
    have hc : combos (x :: xs) 0 = combos xs 0 := by cases xs <;> rfl
    rw [hc]
    have h0 : (combos xs 0 ++ (List.range (m + 1)).flatMap (fun k => (combos xs k).map (x :: ·) ++ combos xs (k + 1))).Perm
        (combos xs 0 ++ ((List.range (m + 1)).flatMap (fun k => (combos xs k).map (x :: ·)) ++ (List.range (m + 1)).flatMap (fun k => combos xs (k + 1)))) :=
      List.Perm.append (List.Perm.refl _) hp
    refine h0.trans ?_
    rw [hA]
    have h1 : (combos xs 0 ++ (((List.range (m + 1)).flatMap (combos xs)).map (x :: ·) ++ (List.range (m + 1)).flatMap (fun k => combos xs (k + 1)))).Perm
        (((List.range (m + 1)).flatMap (combos xs)).map (x :: ·) ++ (combos xs 0 ++ (List.range (m + 1)).flatMap (fun k => combos xs (k + 1)))) := by
      rw [← List.append_assoc, ← List.append_assoc]
      exact List.Perm.append List.perm_append_comm (List.Perm.refl _)
    refine h1.trans ?_
    rw [hB]
    exact List.Perm.append (ih1.map _) ih2

/-- the generated size sequence is a permutation of 0..n -/
theorem cubeSizes_perm (n : Nat) : (cubeSizes n).Perm (List.range (n + 1)) := by
  unfold cubeSizes
  exact List.reverse_perm _

theorem cubeSets_perm {α} (keys : List α) : (cubeSets keys).Perm (sublistsL keys) := by
  unfold cubeSets
  exact ((cubeSizes_perm keys.length).flatMap_right _).trans (range_combos_perm keys keys.length (Nat.le_refl _))

/-! ### `sublistsL` really is "every subset once" -/

theorem mem_sublistsL {α} : ∀ (l s : List α), s ∈ sublistsL l ↔ s.Sublist l
  | [], s => by simp [sublistsL]
  | x :: xs, s => by
    simp only [sublistsL, List.mem_append, List.mem_map]
    constructor
    · rintro (⟨t, ht, rfl⟩ | h)
      · exact ((mem_sublistsL xs t).mp ht).cons_cons x
      · exact ((mem_sublistsL xs s).mp h).cons x
    · intro h
      cases h with
      | cons _ h' => exact Or.inr ((mem_sublistsL xs s).mpr h')
      | cons_cons _ h' => exact Or.inl ⟨_, (mem_sublistsL xs _).mpr h', rfl⟩

theorem sublistsL_subset {α} (l s : List α) (h : s ∈ sublistsL l) : ∀ x ∈ s, x ∈ l :=
  fun _ hx => ((mem_sublistsL l s).mp h).subset hx

theorem nodup_map_cons {α} (x : α) : ∀ (L : List (List α)), L.Nodup → (L.map (x :: ·)).Nodup
  | [], _ => by simp
  | t :: ts, h => by
    have h' := List.nodup_cons.mp h
    rw [List.map_cons, List.nodup_cons]
    refine ⟨?_, nodup_map_cons x ts h'.2⟩
    intro hm
    obtain ⟨u, hu, e⟩ := List.mem_map.mp hm
    have : u = t := by simpa using e
    exact h'.1 (this ▸ hu)

theorem sublistsL_nodup {α} : ∀ (l : List α), l.Nodup → (sublistsL l).Nodup
  | [], _ => by simp [sublistsL]
  | x :: xs, h => by
    have h' := List.nodup_cons.mp h
    have ih := sublistsL_nodup xs h'.2
    simp only [sublistsL]
    rw [List.nodup_append]
    refine ⟨?_, ih, ?_⟩
    · exact nodup_map_cons x _ ih
    · intro a ha b hb e
      subst e
      obtain ⟨t, _, rfl⟩ := List.mem_map.mp ha
      exact h'.1 (sublistsL_subset xs _ hb x (by simp))

end Sqlframe
