/-
Lemmas/C05Fns.lean — every function the built tree calls exists in the engine's catalog, unless the
program uses `endswith` while it is still emitted as the fixed name `ENDSWITH`.
-/
import SqlframeModel.Lemmas.C05Build
namespace Sqlframe.C05
open Sqlframe

theorem fnsOK_unaliasS (t : SqlExpr) : fnsOK (unaliasS t) = fnsOK t := by
  cases t <;> simp [unaliasS, fnsOK]

theorem fnsOK_wrapUnder (cfg : Cfg) (p : String) (t : SqlExpr) : fnsOK (wrapUnder cfg p t) = fnsOK t := by
  unfold wrapUnder
  split
  · rfl
  · split <;> simp [fnsOK]

theorem fnsOK_wrapOperand (cfg : Cfg) (p : String) (t : SqlExpr) : fnsOK (wrapOperand cfg p t) = fnsOK t := by
  unfold wrapOperand
  split
  · exact fnsOK_wrapUnder cfg p t
  · rfl

theorem fnsOK_subject (cfg : Cfg) (m : Gen.DirectOp) (p : String) (t : SqlExpr) : fnsOK (subject cfg m p t) = fnsOK t := by
  unfold subject
  split
  · exact fnsOK_wrapUnder cfg p t
  · rfl

theorem fnsOK_bound (cfg : Cfg) (t : SqlExpr) : fnsOK (bound cfg t) = fnsOK t := by
  unfold bound
  cases cfg.betweenBoundsUnalias <;> cases cfg.betweenBoundsWrap <;> simp [fnsOK_wrapUnder, fnsOK_unaliasS]

theorem fnsOK_mkCast (t : SqlExpr) (ty : String) : fnsOK (mkCast t ty) = fnsOK t := by
  rcases mkCast_cases t ty with ⟨a, ht, h⟩ | h
  · rw [h, ht]
  · rw [h]; rfl

theorem fnsOK_applyBin (cfg : Cfg) (o : Gen.ColOp) (s t : SqlExpr) (hs : fnsOK s = true) (ht : fnsOK t = true) :
    fnsOK (applyBin cfg o s t) = true := by
  cases h1 : o.paren <;> cases h2 : o.selfFirst <;> simp [applyBin, h1, h2, fnsOK, fnsOK_wrapOperand, hs, ht]

theorem fnsOK_applyUn (cfg : Cfg) (o : Gen.ColOp) (s : SqlExpr) (hs : fnsOK s = true) : fnsOK (applyUn cfg o s) = true := by
  cases h : cfg.unaryWrapsParen <;> simp [applyUn, h, fnsOK, hs]

theorem build_fnsOK (cfg : Cfg) (ht : tableOK cfg = true) : ∀ e : PyExpr,
    allNodes (fun n => fixEndswith cfg || endswithAt n) e = true → fnsOK (build cfg e) = true := by
  intro e
  obtain ⟨_, _, _, _, _, hsub⟩ := tableOK_misc ht
  have hstr : ∀ f : StrFn, (fixEndswith cfg || endswithAt (.strFn f (.col "") (.col ""))) = true → engineHasFn (cfg.strFn f).klass = true := by
    intro f hf
    have hk := ht
    simp [tableOK] at hk
    cases f
    · have : (cfg.strFn .startswith).klass = "StartsWith" := by simp_all [strFnKlasses]
      rw [this]; rfl
    · have h2 : (cfg.strFn .endswith).klass = "Anonymous:ENDSWITH" ∨ (cfg.strFn .endswith).klass = "Session:endswith" := by
        simp_all [strFnKlasses]
      have h3 : (cfg.strFn .endswith).klass ≠ "Anonymous:ENDSWITH" := by
        simpa [fixEndswith, endswithAt] using hf
      rcases h2 with h2 | h2
      · exact absurd h2 h3
      · rw [h2]; rfl
    · have : (cfg.strFn .rlike).klass = "RegexpLike" := by simp_all [strFnKlasses]
      rw [this]; rfl
  induction e with
  | col n => intro _; rfl
  | lit v => intro _; rfl
  | arith op a b iha ihb =>
    intro h; simp only [allNodes, Bool.and_eq_true] at h
    simp only [build]
    exact fnsOK_applyBin _ _ _ _ (by rw [fnsOK_unaliasS]; exact iha h.1.2) (by rw [fnsOK_unaliasS]; exact ihb h.2)
  | arithL op v b ihb =>
    intro h; simp only [allNodes, Bool.and_eq_true] at h
    simp only [build]
    exact fnsOK_applyBin _ _ _ _ (by rw [fnsOK_unaliasS]; exact ihb h.2) rfl
  | cmp op a b iha ihb =>
    intro h; simp only [allNodes, Bool.and_eq_true] at h
    simp only [build]
    exact fnsOK_applyBin _ _ _ _ (by rw [fnsOK_unaliasS]; exact iha h.1.2) (by rw [fnsOK_unaliasS]; exact ihb h.2)
  | cmpL op v b ihb =>
    intro h; simp only [allNodes, Bool.and_eq_true] at h
    simp only [build]
    exact fnsOK_applyBin _ _ _ _ (by rw [fnsOK_unaliasS]; exact ihb h.2) rfl
  | logic op a b iha ihb =>
    intro h; simp only [allNodes, Bool.and_eq_true] at h
    simp only [build]
    exact fnsOK_applyBin _ _ _ _ (by rw [fnsOK_unaliasS]; exact iha h.1.2) (by rw [fnsOK_unaliasS]; exact ihb h.2)
  | logicL op v b ihb =>
    intro h; simp only [allNodes, Bool.and_eq_true] at h
    simp only [build]
    exact fnsOK_applyBin _ _ _ _ (by rw [fnsOK_unaliasS]; exact ihb h.2) rfl
  | neg a iha =>
    intro h; simp only [allNodes, Bool.and_eq_true] at h
    simp only [build]
    exact fnsOK_applyUn _ _ _ (by rw [fnsOK_unaliasS]; exact iha h.2)
  | not a iha =>
    intro h; simp only [allNodes, Bool.and_eq_true] at h
    simp only [build]
    exact fnsOK_applyUn _ _ _ (by rw [fnsOK_unaliasS]; exact iha h.2)
  | isNull a iha =>
    intro h; simp only [allNodes, Bool.and_eq_true] at h
    simp [build, fnsOK, fnsOK_subject, fnsOK_unaliasS, iha h.2]
  | isNotNull a iha =>
    intro h; simp only [allNodes, Bool.and_eq_true] at h
    simp [build, fnsOK, fnsOK_subject, fnsOK_unaliasS, iha h.2]
  | eqNullSafe a b iha ihb =>
    intro h; simp only [allNodes, Bool.and_eq_true] at h
    simp only [build]
    exact fnsOK_applyBin _ _ _ _ (by rw [fnsOK_unaliasS]; exact iha h.1.2) (by rw [fnsOK_unaliasS]; exact ihb h.2)
  | isin a vs iha =>
    intro h; simp only [allNodes, Bool.and_eq_true] at h
    simp [build, fnsOK, fnsOK_subject, fnsOK_unaliasS, iha h.2]
  | between a lo hi iha ihlo ihhi =>
    intro h; simp only [allNodes, Bool.and_eq_true] at h
    simp [build, fnsOK, fnsOK_subject, fnsOK_bound, fnsOK_unaliasS, iha h.1.1.2, ihlo h.1.2, ihhi h.2]
  | like a p iha =>
    intro h; simp only [allNodes, Bool.and_eq_true] at h
    simp [build, fnsOK, fnsOK_subject, fnsOK_unaliasS, iha h.2]
  | strFn f a b iha ihb =>
    intro h; simp only [allNodes, Bool.and_eq_true] at h
    have hf : engineHasFn (cfg.strFn f).klass = true := by
      apply hstr f
      have := h.1.1
      cases f <;> simp_all [endswithAt]
    simp [build, fnsOK, fnsOK_unaliasS, iha h.1.2, ihb h.2, hf]
  | substr a s l iha ihs ihl =>
    intro h; simp only [allNodes, Bool.and_eq_true] at h
    simp [build, fnsOK, fnsOK_unaliasS, iha h.1.1.2, ihs h.1.2, ihl h.2, hsub, engineHasFn]
  | when c v r ihc ihv ihr =>
    intro h; simp only [allNodes, Bool.and_eq_true] at h
    simp [build, fnsOK, fnsOK_unaliasS, ihc h.1.1.2, ihv h.1.2, ihr h.2]
  | noElse => intro _; rfl
  | otherwise d ihd =>
    intro h; simp only [allNodes, Bool.and_eq_true] at h
    simp [build, fnsOK, fnsOK_unaliasS, ihd h.2]
  | cast a ty iha =>
    intro h; simp only [allNodes, Bool.and_eq_true] at h
    simp [build, fnsOK_mkCast, fnsOK_unaliasS, iha h.2]
  | alias a n iha =>
    intro h; simp only [allNodes, Bool.and_eq_true] at h
    simp [build, fnsOK, fnsOK_unaliasS, iha h.2]

end Sqlframe.C05
