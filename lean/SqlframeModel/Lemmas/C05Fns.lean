/-
Lemmas/C05Fns.lean — every function the built tree calls exists in the engine's catalog, unless the
program uses `endswith` while it is still emitted as the fixed name `ENDSWITH`.
-/
import SqlframeModel.Lemmas.C05Build
namespace Sqlframe.C05
open Sqlframe

theorem fnsOK_unaliasS (t : SqlExpr) : fnsOK (unaliasS t) = fnsOK t := by
  cases t <;> simp [unaliasS, fnsOK]

theorem fnsOK_wrapUnder (cfg : Cfg) (p : String) (t : SqlExpr) : fnsOK (wrapUnder cfg p t) = fnsOK t := by
  unfold wrapUnder
  split
  · rfl
  · split <;> simp [fnsOK]

theorem fnsOK_wrapOperand (cfg : Cfg) (p : String) (t : SqlExpr) : fnsOK (wrapOperand cfg p t) = fnsOK t := by
  unfold wrapOperand
  split
  · exact fnsOK_wrapUnder cfg p t
  · rfl

theorem fnsOK_subject (cfg : Cfg) (m : Gen.DirectOp) (p : String) (t : SqlExpr) : fnsOK (subject cfg m p t) = fnsOK t := by
  unfold subject
  split
  · exact fnsOK_wrapUnder cfg p t
  · rfl

theorem fnsOK_bound (cfg : Cfg) (t : SqlExpr) : fnsOK (bound cfg t) = fnsOK t := by
  unfold bound
  cases cfg.betweenBoundsUnalias <;> cases cfg.betweenBoundsWrap <;> simp [fnsOK_wrapUnder, fnsOK_unaliasS]

theorem fnsOK_mkCast (t : SqlExpr) (ty : String) : fnsOK (mkCast t ty) = fnsOK t := by
  rcases mkCast_cases t ty with ⟨a, ht, h⟩ | h
  · rw [h, ht]
  · rw [h]; rfl

theorem fnsOK_applyBin (cfg : Cfg) (o : Gen.ColOp) (s t : SqlExpr) (hs : fnsOK s = true) (ht : fnsOK t = true) :
    fnsOK (applyBin cfg o s t) = true := by
  cases h1 : o.paren <;> cases h2 : o.selfFirst <;> simp [applyBin, h1, h2, fnsOK, fnsOK_wrapOperand, hs, ht]

theorem fnsOK_applyUn (cfg : Cfg) (o : Gen.ColOp) (s : SqlExpr) (hs : fnsOK s = true) : fnsOK (applyUn cfg o s) = true := by
  cases h : cfg.unaryWrapsParen <;> simp [applyUn, h, fnsOK, hs]

theorem build_fnsOK (cfg : Cfg) (ht : tableOK cfg = true) : ∀ e : PyExpr,
    allNodes (fun n => fixEndswith cfg || endswithAt n) e = true → fnsOK (build cfg e) = true := by
  intro e
  obtain ⟨_, _, _, _, _, hsub⟩ := tableOK_misc ht
  have hstr : ∀ f : StrFn, (fixEndswith cfg || endswithAt (.strFn f (.col "") (.col ""))) = true → engineHasFn (cfg.strFn f).klass = true := by
    intro f hf
    have hk := ht
    simp [tableOK] at hk
    cases f
    · have : (cfg.strFn .startswith).klass = "StartsWith" := by simp_all [strFnKlasses]
      rw [this]; rfl
    · have h2 : (cfg.strFn .endswith).klass = "Anonymous:ENDSWITH" ∨ (cfg.strFn .endswith).klass = "Session:endswith" := by
        simp_all [strFnKlasses]
      have h3 : (cfg.strFn .endswith).klass ≠ "Anonymous:ENDSWITH" := by
        simpa [fixEndswith, endswithAt] using hf
      rcases h2 with h2 | h2
      · exact absurd h2 h3
      · rw [h2]; rfl
    · have : (cfg.strFn .rlike).klass = "RegexpLike" := by simp_all [strFnKlasses]
      rw [this]; rfl
  induction e with
  | col n => intro _; rfl
  | lit v => intro _; simp only [build, fnExpr]; split <;> rfl
  | raw s v =>
    intro _; simp only [build]
    cases cfg.coerce s <;> simp only [litExpr, fnExpr] <;> first | rfl | (split <;> rfl)
  | arith op a b iha ihb =>
    intro h; simp only [allNodes, Bool.and_eq_true] at h
    simp only [build]
    exact fnsOK_applyBin _ _ _ _ (by rw [fnsOK_unaliasS]; exact iha h.1.2) (by rw [fnsOK_unaliasS]; exact ihb h.2)
  | arithL op v b ihb =>
    intro h; simp only [allNodes, Bool.and_eq_true] at h
    simp only [build]
    exact fnsOK_applyBin _ _ _ _ (by rw [fnsOK_unaliasS]; exact ihb h.2) rfl
  | cmp op a b iha ihb =>
    intro h; simp only [allNodes, Bool.and_eq_true] at h
    simp only [build]
    exact fnsOK_applyBin _ _ _ _ (by rw [fnsOK_unaliasS]; exact iha h.1.2) (by rw [fnsOK_unaliasS]; exact ihb h.2)
  | cmpL op v b ihb =>
    intro h; simp only [allNodes, Bool.and_eq_true] at h
    simp only [build]
    exact fnsOK_applyBin _ _ _ _ (by rw [fnsOK_unaliasS]; exact ihb h.2) rfl
  | logic op a b iha ihb =>
    intro h; simp only [allNodes, Bool.and_eq_true] at h
    simp only [build]
    exact fnsOK_applyBin _ _ _ _ (by rw [fnsOK_unaliasS]; exact iha h.1.2) (by rw [fnsOK_unaliasS]; exact ihb h.2)
  | logicL op v b ihb =>
    intro h; simp only [allNodes, Bool.and_eq_true] at h
    simp only [build]
    exact fnsOK_applyBin _ _ _ _ (by rw [fnsOK_unaliasS]; exact ihb h.2) rfl
  | neg a iha =>
    intro h; simp only [allNodes, Bool.and_eq_true] at h
    simp only [build]
    exact fnsOK_applyUn _ _ _ (by rw [fnsOK_unaliasS]; exact iha h.2)
  | not a iha =>
    intro h; simp only [allNodes, Bool.and_eq_true] at h
    simp only [build]
    exact fnsOK_applyUn _ _ _ (by rw [fnsOK_unaliasS]; exact iha h.2)
  | isNull a iha =>
    intro h; simp only [allNodes, Bool.and_eq_true] at h
    simp [build, fnsOK, fnsOK_subject, fnsOK_unaliasS, iha h.2]
  | isNotNull a iha =>
    intro h; simp only [allNodes, Bool.and_eq_true] at h
    simp [build, fnsOK, fnsOK_subject, fnsOK_unaliasS, iha h.2]
  | eqNullSafe a b iha ihb =>
    intro h; simp only [allNodes, Bool.and_eq_true] at h
    simp only [build]
    exact fnsOK_applyBin _ _ _ _ (by rw [fnsOK_unaliasS]; exact iha h.1.2) (by rw [fnsOK_unaliasS]; exact ihb h.2)
  | isin a vs iha =>
    intro h; simp only [allNodes, Bool.and_eq_true] at h
    simp [build, fnsOK, fnsOK_subject, fnsOK_unaliasS, iha h.2]
  | between a lo hi iha ihlo ihhi =>
    intro h; simp only [allNodes, Bool.and_eq_true] at h
    simp [build, fnsOK, fnsOK_subject, fnsOK_bound, fnsOK_unaliasS, iha h.1.1.2, ihlo h.1.2, ihhi h.2]
  | like a p iha =>
    intro h; simp only [allNodes, Bool.and_eq_true] at h
    simp [build, fnsOK, fnsOK_subject, fnsOK_unaliasS, iha h.2]
  | strFn f a b iha ihb =>
    intro h; simp only [allNodes, Bool.and_eq_true] at h
    have hf : engineHasFn (cfg.strFn f).klass = true := by
      apply hstr f
      have := h.1.1
      cases f <;> simp_all [endswithAt]
    simp [build, fnsOK, fnsOK_unaliasS, iha h.1.2, ihb h.2, hf]
  | substr a s l iha ihs ihl =>
    intro h; simp only [allNodes, Bool.and_eq_true] at h
    simp [build, fnsOK, fnsOK_unaliasS, iha h.1.1.2, ihs h.1.2, ihl h.2, hsub, engineHasFn]
  | when c v r ihc ihv ihr =>
    intro h; simp only [allNodes, Bool.and_eq_true] at h
    simp [build, fnsOK, fnsOK_unaliasS, ihc h.1.1.2, ihv h.1.2, ihr h.2]
  | noElse => intro _; rfl
  | otherwise d ihd =>
    intro h; simp only [allNodes, Bool.and_eq_true] at h
    simp [build, fnsOK, fnsOK_unaliasS, ihd h.2]
  | cast a ty iha =>
    intro h; simp only [allNodes, Bool.and_eq_true] at h
    simp [build, fnsOK_mkCast, fnsOK_unaliasS, iha h.2]
  | alias a n iha =>
    intro h; simp only [allNodes, Bool.and_eq_true] at h
    simp [build, fnsOK, fnsOK_unaliasS, iha h.2]

/-! ### every literal of the built tree is text the engine reads as a literal (inside `H_floatLitFinite`) -/

theorem litsOK_unaliasS (t : SqlExpr) : litsOK (unaliasS t) = litsOK t := by
  cases t <;> simp [unaliasS, litsOK]

theorem litsOK_wrapUnder (cfg : Cfg) (p : String) (t : SqlExpr) : litsOK (wrapUnder cfg p t) = litsOK t := by
  unfold wrapUnder
  split
  · rfl
  · split <;> simp [litsOK]

theorem litsOK_wrapOperand (cfg : Cfg) (p : String) (t : SqlExpr) : litsOK (wrapOperand cfg p t) = litsOK t := by
  unfold wrapOperand
  split
  · exact litsOK_wrapUnder cfg p t
  · rfl

theorem litsOK_subject (cfg : Cfg) (m : Gen.DirectOp) (p : String) (t : SqlExpr) : litsOK (subject cfg m p t) = litsOK t := by
  unfold subject
  split
  · exact litsOK_wrapUnder cfg p t
  · rfl

theorem litsOK_bound (cfg : Cfg) (t : SqlExpr) : litsOK (bound cfg t) = litsOK t := by
  unfold bound
  cases cfg.betweenBoundsUnalias <;> cases cfg.betweenBoundsWrap <;> simp [litsOK_wrapUnder, litsOK_unaliasS]

theorem litsOK_mkCast (t : SqlExpr) (ty : String) : litsOK (mkCast t ty) = litsOK t := by
  rcases mkCast_cases t ty with ⟨a, ht, h⟩ | h
  · rw [h, ht]
  · rw [h]; rfl

theorem litsOK_applyBin (cfg : Cfg) (o : Gen.ColOp) (s t : SqlExpr) (hs : litsOK s = true) (ht : litsOK t = true) :
    litsOK (applyBin cfg o s t) = true := by
  cases h1 : o.paren <;> cases h2 : o.selfFirst <;> simp [applyBin, h1, h2, litsOK, litsOK_wrapOperand, hs, ht]

theorem litsOK_applyUn (cfg : Cfg) (o : Gen.ColOp) (s : SqlExpr) (hs : litsOK s = true) : litsOK (applyUn cfg o s) = true := by
  cases h : cfg.unaryWrapsParen <;> simp [applyUn, h, litsOK, hs]

theorem isSome_of_readsBack {l : LitNode} {v : PyVal} (h : readsBack l v = true) : l.value?.isSome = true := by
  simp [readsBack] at h
  simp [h]

theorem litsOK_fnExpr (c : LitCfg) (v : PyVal) (h : readsBack (fnNode c v) v = true) : litsOK (fnExpr c v) = true := by
  unfold fnExpr
  split <;> simp [litsOK, isSome_of_readsBack h]

theorem litsOK_litExpr (c : LitCfg) (k : Gen.Coerce) (v : PyVal) (h : readsBack (coerceNode c k v) v = true) :
    litsOK (litExpr c k v) = true := by
  cases k
  · simp [litExpr, litsOK, isSome_of_readsBack h]
  · simp [litExpr, litsOK, isSome_of_readsBack h]
  · simp only [litExpr]; exact litsOK_fnExpr c v h

theorem all_isSome_of_readsBack (f : PyVal → LitNode) (vs : List PyVal)
    (h : vs.all (fun v => readsBack (f v) v) = true) : (vs.map f).all (fun l => l.value?.isSome) = true := by
  induction vs with
  | nil => rfl
  | cons v vs ih =>
    simp only [List.all_cons, Bool.and_eq_true] at h
    simp [isSome_of_readsBack h.1, ih h.2]

theorem build_litsOK (cfg : Cfg) : ∀ e : PyExpr, allNodes (litAt cfg) e = true → litsOK (build cfg e) = true := by
  intro e
  induction e with
  | col n => intro _; rfl
  | lit v => intro h; simp only [allNodes, litAt] at h; exact litsOK_fnExpr _ _ h
  | raw s v => intro h; simp only [allNodes, litAt] at h; exact litsOK_litExpr _ _ _ h
  | arith op a b iha ihb =>
    intro h; simp only [allNodes, Bool.and_eq_true] at h
    simp only [build]
    exact litsOK_applyBin _ _ _ _ (by rw [litsOK_unaliasS]; exact iha h.1.2) (by rw [litsOK_unaliasS]; exact ihb h.2)
  | arithL op v b ihb =>
    intro h; simp only [allNodes, Bool.and_eq_true, litAt] at h
    simp only [build]
    exact litsOK_applyBin _ _ _ _ (by rw [litsOK_unaliasS]; exact ihb h.2) (by simp [litsOK, isSome_of_readsBack h.1])
  | cmp op a b iha ihb =>
    intro h; simp only [allNodes, Bool.and_eq_true] at h
    simp only [build]
    exact litsOK_applyBin _ _ _ _ (by rw [litsOK_unaliasS]; exact iha h.1.2) (by rw [litsOK_unaliasS]; exact ihb h.2)
  | cmpL op v b ihb =>
    intro h; simp only [allNodes, Bool.and_eq_true, litAt] at h
    simp only [build]
    exact litsOK_applyBin _ _ _ _ (by rw [litsOK_unaliasS]; exact ihb h.2) (by simp [litsOK, isSome_of_readsBack h.1])
  | logic op a b iha ihb =>
    intro h; simp only [allNodes, Bool.and_eq_true] at h
    simp only [build]
    exact litsOK_applyBin _ _ _ _ (by rw [litsOK_unaliasS]; exact iha h.1.2) (by rw [litsOK_unaliasS]; exact ihb h.2)
  | logicL op v b ihb =>
    intro h; simp only [allNodes, Bool.and_eq_true, litAt] at h
    simp only [build]
    exact litsOK_applyBin _ _ _ _ (by rw [litsOK_unaliasS]; exact ihb h.2) (by simp [litsOK, isSome_of_readsBack h.1])
  | neg a iha =>
    intro h; simp only [allNodes, Bool.and_eq_true] at h
    simp only [build]
    exact litsOK_applyUn _ _ _ (by rw [litsOK_unaliasS]; exact iha h.2)
  | not a iha =>
    intro h; simp only [allNodes, Bool.and_eq_true] at h
    simp only [build]
    exact litsOK_applyUn _ _ _ (by rw [litsOK_unaliasS]; exact iha h.2)
  | isNull a iha =>
    intro h; simp only [allNodes, Bool.and_eq_true] at h
    simp [build, litsOK, litsOK_subject, litsOK_unaliasS, iha h.2]
  | isNotNull a iha =>
    intro h; simp only [allNodes, Bool.and_eq_true] at h
    simp [build, litsOK, litsOK_subject, litsOK_unaliasS, iha h.2]
  | eqNullSafe a b iha ihb =>
    intro h; simp only [allNodes, Bool.and_eq_true] at h
    simp only [build]
    exact litsOK_applyBin _ _ _ _ (by rw [litsOK_unaliasS]; exact iha h.1.2) (by rw [litsOK_unaliasS]; exact ihb h.2)
  | isin a vs iha =>
    intro h; simp only [allNodes, Bool.and_eq_true, litAt] at h
    have hv := all_isSome_of_readsBack _ vs h.1
    simp only [build, litsOK, litsOK_subject, litsOK_unaliasS, iha h.2, hv, Bool.and_self]
  | between a lo hi iha ihlo ihhi =>
    intro h; simp only [allNodes, Bool.and_eq_true] at h
    simp [build, litsOK, litsOK_subject, litsOK_bound, litsOK_unaliasS, iha h.1.1.2, ihlo h.1.2, ihhi h.2]
  | like a p iha =>
    intro h; simp only [allNodes, Bool.and_eq_true, litAt] at h
    simp [build, litsOK, litsOK_subject, litsOK_unaliasS, iha h.2, isSome_of_readsBack h.1]
  | strFn f a b iha ihb =>
    intro h; simp only [allNodes, Bool.and_eq_true] at h
    simp [build, litsOK, litsOK_unaliasS, iha h.1.2, ihb h.2]
  | substr a s l iha ihs ihl =>
    intro h; simp only [allNodes, Bool.and_eq_true] at h
    simp [build, litsOK, litsOK_unaliasS, iha h.1.1.2, ihs h.1.2, ihl h.2]
  | when c v r ihc ihv ihr =>
    intro h; simp only [allNodes, Bool.and_eq_true] at h
    simp [build, litsOK, litsOK_unaliasS, ihc h.1.1.2, ihv h.1.2, ihr h.2]
  | noElse => intro _; rfl
  | otherwise d ihd =>
    intro h; simp only [allNodes, Bool.and_eq_true] at h
    simp [build, litsOK, litsOK_unaliasS, ihd h.2]
  | cast a ty iha =>
    intro h; simp only [allNodes, Bool.and_eq_true] at h
    simp [build, litsOK_mkCast, litsOK_unaliasS, iha h.2]
  | alias a n iha =>
    intro h; simp only [allNodes, Bool.and_eq_true] at h
    simp [build, litsOK, litsOK_unaliasS, iha h.2]

end Sqlframe.C05
