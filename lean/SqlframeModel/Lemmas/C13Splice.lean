/-
Lemmas/C13Splice.lean — the simulation behind `C13_splice`: under the scope hypotheses, name resolution in
the spliced statement (over the plain database) and in the original statement (over the database extended
with the views' rows) agree, by induction on the unfolding depth.
-/
import SqlframeModel.Lemmas.C13
import SqlframeModel.Impl.C13Scope
namespace Sqlframe.Views
open Sqlframe Sqlframe.Gen

theorem assoc_some_pair_mem {β : Type} (l : List (Name × β)) (n : Name) (b : β) (h : assoc l n = some b) : (n, b) ∈ l := by
  induction l with
  | nil => simp [assoc] at h
  | cons hd t ih =>
    obtain ⟨k, v⟩ := hd
    simp only [assoc] at h
    split at h
    · rename_i hk; subst hk; cases h; simp
    · exact List.mem_cons_of_mem _ (ih h)

theorem names_map_snd {β γ : Type} (l : List (Name × β)) (g : Name × β → γ) :
    names (l.map (fun c => (c.1, g c))) = names l := by
  simp [names, List.map_map, Function.comp_def]

theorem resolveFuel_unbound (db : Db) (ctes : List CTE) (n : Name) (h : assoc ctes n = none) :
    ∀ f, resolveFuel db ctes f n = db n := by
  intro f; cases f <;> simp [resolveFuel, h]

theorem viewOf_some (cfg : SpliceCfg) (norm : Name → Name) (reg : Registry) (users : List Name) (n : Name) (e : Entry)
    (h : viewOf cfg norm reg users n = some e) : assoc reg (norm n) = some e := by
  unfold viewOf at h
  split at h
  · cases h
  · exact h

theorem wrapped_of_isWrapped (fr : Frame) (h : fr.isWrapped = true) : fr.Wrapped := by
  unfold Frame.isWrapped at h
  split at h
  · rename_i n b m hl hf
    exact ⟨n, b, hl, by rw [hf]; simp at h; rw [h]⟩
  · cases h

theorem isTableSrc_rename (ρ : Name → Name) (b : Body) : isTableSrc (b.rename ρ) = isTableSrc b := by
  cases b with
  | un op b =>
    cases op <;> cases b <;> try rfl
    rename_i op2 b2
    cases op2 <;> cases b2 <;> rfl
  | _ => rfl

theorem isSubSrc_rename (ρ : Name → Name) (b : Body) : isSubSrc (b.rename ρ) = isSubSrc b := by
  cases b with
  | un op b => cases op <;> cases b <;> rfl
  | _ => rfl

theorem needsSwap_rename (ρ : Name → Name) (b : Body) : needsSwap (b.rename ρ) = needsSwap b := by
  induction b with
  | un op b ih => cases op <;> simp [Body.rename, needsSwap, ih]
  | bin op l r _ _ => cases op <;> simp [Body.rename, needsSwap, isTableSrc_rename, isSubSrc_rename]
  | _ => rfl

theorem swap_id (b : Body) (h : needsSwap b = false) : swapSubFirst b = b := by
  induction b with
  | un op b ih =>
    cases op <;> try rfl
    simp only [needsSwap] at h
    simp [swapSubFirst, ih h]
  | bin op l r _ _ =>
    cases op <;> try rfl
    simp only [needsSwap] at h
    simp [swapSubFirst, h]
  | _ => rfl

/-- without stale catalog columns, shadowing CTEs and reordered `*` the rewrite of a body is the plain
    renaming of its references -/
theorem spliceBody_eq_rename (cfg : SpliceCfg) (norm : Name → Name) (reg : Registry) (users : List Name)
    (ucols : Name → Option (List Name)) (b : Body)
    (h : ∀ n ∈ b.refs, ∀ e, viewOf cfg norm reg users n = some e → e.stale = false ∧ users.contains n = false)
    (hsw : starSwaps b = false) :
    spliceBody cfg norm reg users ucols b = b.rename (spliceRho cfg norm reg users) := by
  induction b with
  | lit T => rfl
  | scan n => rfl
  | un op b ih =>
    simp only [starSwaps, Bool.or_eq_false_iff] at hsw
    have hb := ih (by simpa [Body.refs] using h) hsw.2
    have hs : hasStale cfg norm reg users b = false := by
      unfold hasStale
      rw [List.any_eq_false]
      intro n hn
      cases hv : viewOf cfg norm reg users n with
      | none => simp
      | some e =>
        have := h n (by simpa [Body.refs] using hn) e hv
        have h2 : n ∉ users := by simpa using this.2
        simp [this.1, h2]
    unfold spliceBody
    simp only [Body.rename]
    split
    · rename_i a n
      simp only [Body.rename, spliceBody] at hb ⊢
      cases hv : viewOf cfg norm reg users n with
      | none => rfl
      | some e =>
        have := h n (by simp [Body.refs]) e hv
        simp [this.1]
    · have hns : needsSwap b = false := by simpa using hsw.1
      simp only [hs, Bool.false_eq_true, if_false, hb]
      rw [swap_id _ (by rw [needsSwap_rename]; exact hns)]
    · simp only [hb]
  | bin op l r ihl ihr =>
    simp only [Body.refs, List.mem_append] at h
    simp only [starSwaps, Bool.or_eq_false_iff] at hsw
    simp [spliceBody, Body.rename, ihl (fun m hm => h m (Or.inl hm)) hsw.1, ihr (fun m hm => h m (Or.inr hm)) hsw.2]

theorem mem_refs_of_cte (q : Query) (n : Name) (b : Body) (h : (n, b) ∈ q.ctes) : ∀ m ∈ b.refs, m ∈ q.refs := by
  intro m hm
  unfold Query.refs
  rw [List.mem_append, List.mem_flatMap]
  exact Or.inr ⟨(n, b), h, hm⟩

/-- a fuel that suffices for every listed view that evaluates at all -/
theorem exists_fuel (db : Db) (V : List Entry) :
    ∃ K, ∀ e ∈ V, ∀ T, Evaluates db e.frame.query T → evalQueryFuel db e.frame.query K = some T := by
  induction V with
  | nil => exact ⟨0, by simp⟩
  | cons e rest ih =>
    obtain ⟨K, hK⟩ := ih
    by_cases hex : ∃ T, Evaluates db e.frame.query T
    · obtain ⟨T, f, hf⟩ := hex
      refine ⟨max K f, ?_⟩
      intro e' he' T' hT'
      cases List.mem_cons.1 he' with
      | inl h =>
        subst h
        have : T' = T := Evaluates_det db _ T' T hT' ⟨f, hf⟩
        subst this
        exact evalQueryFuel_mono db _ f _ (Nat.le_max_right _ _) _ hf
      | inr h => exact evalQueryFuel_mono db _ K _ (Nat.le_max_left _ _) _ (hK e' h T' hT')
    · refine ⟨K, ?_⟩
      intro e' he' T' hT'
      cases List.mem_cons.1 he' with
      | inl h => subst h; exact absurd ⟨T', hT'⟩ hex
      | inr h => exact hK e' h T' hT'

section
variable (cfg : SpliceCfg) (norm : Name → Name) (reg : Registry) (q : Query)
variable (ha : cfg.append = .ifAbsent) (ht : cfg.target = .last) (hp : cfg.pos = .append)
variable (hS : noShadow cfg norm reg q = true) (hC : noClash cfg norm reg q = true)
variable (hV : viewsClosed cfg norm reg q = true) (hF : schemaFresh cfg norm reg q = true)
variable (hO : starsOrdered q = true)

local notation "U" => names q.ctes
local notation "ρ" => spliceRho cfg norm reg (names q.ctes)
local notation "V" => visited cfg norm reg q
local notation "UC" => stmtCols norm reg q.ctes (q.ctes.length + 1)

theorem visited_mem (n : Name) (hn : n ∈ q.refs) (e : Entry) (h : viewOf cfg norm reg U n = some e) : e ∈ V := by
  unfold visited
  rw [List.mem_filterMap]
  exact ⟨n, hn, h⟩

include hS in
/-- a CTE of the statement is never treated as a view reference -/
theorem user_not_view (n : Name) (hn : n ∈ U) : viewOf cfg norm reg U n = none := by
  unfold viewOf
  unfold noShadow at hS
  rw [Bool.or_eq_true] at hS
  cases hS with
  | inl h => simp [h, hn]
  | inr h =>
    rw [List.all_eq_true] at h
    have := h n hn
    split
    · rfl
    · simpa using this

include hS in
theorem rho_user (n : Name) (hn : n ∈ U) : ρ n = n := by
  unfold spliceRho
  rw [user_not_view cfg norm reg q hS n hn]

include hF in
theorem fresh_of_ref (n : Name) (hn : n ∈ q.refs) (e : Entry) (h : viewOf cfg norm reg U n = some e) : e.stale = false := by
  unfold schemaFresh at hF
  rw [List.all_eq_true] at hF
  have := hF e (visited_mem cfg norm reg q n hn e h)
  simpa using this

include hS in
/-- a reference that is treated as a view reference is not a CTE of the statement -/
theorem view_not_user (n : Name) (e : Entry) (h : viewOf cfg norm reg U n = some e) : (names q.ctes).contains n = false := by
  cases hc : (names q.ctes).contains n with
  | false => rfl
  | true =>
    rw [user_not_view cfg norm reg q hS n (by simpa using hc)] at h
    cases h

include hS hF hO in
theorem spliceBody_final : spliceBody cfg norm reg U UC q.final = q.final.rename ρ :=
  spliceBody_eq_rename cfg norm reg U UC q.final
    (fun n hn e h => ⟨fresh_of_ref cfg norm reg q hF n (by unfold Query.refs; simp [hn]) e h,
      view_not_user cfg norm reg q hS n e h⟩)
    (by unfold starsOrdered at hO; simp only [Bool.and_eq_true, Bool.not_eq_true'] at hO; exact hO.1)

include hS hF hO in
theorem spliceBody_cte (n : Name) (b : Body) (h : (n, b) ∈ q.ctes) : spliceBody cfg norm reg U UC b = b.rename ρ :=
  spliceBody_eq_rename cfg norm reg U UC b
    (fun m hm e he => ⟨fresh_of_ref cfg norm reg q hF m (mem_refs_of_cte q n b h m hm) e he,
      view_not_user cfg norm reg q hS m e he⟩)
    (by
      unfold starsOrdered at hO
      simp only [Bool.and_eq_true, Bool.not_eq_true', List.all_eq_true] at hO
      exact hO.2 (n, b) h)

/-- facts about one referenced view, unpacked from the Boolean scope hypotheses -/
structure ViewFacts (e : Entry) : Prop where
  wrapped : e.frame.Wrapped
  disjoint : ∀ n ∈ names e.frame.ctes, n ∉ U
  agree : ∀ e' ∈ V, ∀ n b₁ b₂, assoc e.frame.ctes n = some b₁ → assoc e'.frame.ctes n = some b₂ → b₁ = b₂
  refs : ∀ c ∈ e.frame.ctes, ∀ m ∈ c.2.refs,
      (m ∈ names e.frame.ctes ∨ (m ∉ U ∧ ∀ e' ∈ V, m ∉ names e'.frame.ctes))

include hC hV in
theorem view_facts (e : Entry) (he : e ∈ V) : ViewFacts cfg norm reg q e := by
  unfold noClash at hC
  simp only [Bool.and_eq_true] at hC
  obtain ⟨⟨h1, h2⟩, _⟩ := hC
  unfold viewsClosed at hV
  rw [List.all_eq_true] at h1 h2 hV
  have hv := hV e he
  rw [Bool.and_eq_true] at hv
  refine ⟨wrapped_of_isWrapped _ hv.1, ?_, ?_, ?_⟩
  · intro n hn
    have := h1 e he
    rw [List.all_eq_true] at this
    simpa using this n hn
  · intro e' he' n b₁ b₂ hb₁ hb₂
    have := h2 e he
    rw [List.all_eq_true] at this
    have := this e' he'
    unfold chainsAgree at this
    rw [List.all_eq_true] at this
    have := this n (assoc_some_mem _ n b₁ hb₁)
    simpa [hb₁, hb₂] using this
  · intro c hc m hm
    have := hv.2
    rw [List.all_eq_true] at this
    have := this c hc
    rw [List.all_eq_true] at this
    have := this m hm
    rw [Bool.or_eq_true] at this
    cases this with
    | inl h => exact Or.inl (by simpa using h)
    | inr h =>
      unfold isBaseName at h
      rw [Bool.and_eq_true, List.all_eq_true] at h
      exact Or.inr ⟨by simpa using h.1, fun e' he' => by simpa using h.2 e' he'⟩

include hC in
/-- a reference that is neither a CTE of the statement nor a view is not a generated name -/
theorem base_not_generated (n : Name) (hn : n ∈ q.refs) (hu : n ∉ U) (hv : viewOf cfg norm reg U n = none) :
    ∀ e ∈ V, n ∉ names e.frame.ctes := by
  unfold noClash at hC
  simp only [Bool.and_eq_true] at hC
  obtain ⟨_, h3⟩ := hC
  rw [List.all_eq_true] at h3
  have := h3 n hn
  simp only [Bool.or_eq_true, hv, Option.isSome_none, Bool.false_eq_true, or_false] at this
  cases this with
  | inl h => exact absurd (by simpa using h) hu
  | inr h =>
    rw [List.all_eq_true] at h
    intro e he
    simpa using h e he

/-- chains of the referenced views, in reference order -/
def chainsOf : List (List CTE) := (visited cfg norm reg q).map (fun e => e.frame.ctes)

/-- the WITH list of the spliced statement -/
def splicedCtes : List CTE :=
  (spliceCtes cfg norm reg (names q.ctes) q.refs q.ctes).map
    (fun c => if (names q.ctes).contains c.1
      then (c.1, spliceBody cfg norm reg (names q.ctes) (stmtCols norm reg q.ctes (q.ctes.length + 1)) c.2) else c)

local notation "C'" => splicedCtes cfg norm reg q

include ha hp in
theorem assoc_spliced (n : Name) :
    assoc C' n = (match assoc q.ctes n with
      | some b => some b
      | none => firstBind (chainsOf cfg norm reg q) n).map
        (fun b => if (names q.ctes).contains n then spliceBody cfg norm reg U UC b else b) := by
  unfold splicedCtes
  rw [assoc_map_cond _ (fun k => (names q.ctes).contains k), spliceCtes_eq_addAll cfg norm reg U ha hp, assoc_addAll]
  rfl

include ha hp hS hF hO in
theorem assoc_spliced_user (n : Name) (b : Body) (h : assoc q.ctes n = some b) : assoc C' n = some (b.rename ρ) := by
  rw [assoc_spliced cfg norm reg q ha hp, h]
  have hmem : n ∈ names q.ctes := assoc_some_mem _ n b h
  simp [spliceBody_cte cfg norm reg q hS hF hO n b (assoc_some_pair_mem _ n b h), hmem]

include ha hp hC hV in
theorem assoc_spliced_chain (e : Entry) (he : e ∈ V) (n : Name) (b : Body) (h : assoc e.frame.ctes n = some b) :
    assoc C' n = some b := by
  have vf := view_facts cfg norm reg q hC hV e he
  have hu : assoc q.ctes n = none := (assoc_none_iff _ n).2 (vf.disjoint n (assoc_some_mem _ n b h))
  rw [assoc_spliced cfg norm reg q ha hp, hu]
  have hfb : firstBind (chainsOf cfg norm reg q) n = some b := by
    apply firstBind_agree _ _ e.frame.ctes (List.mem_map.2 ⟨e, he, rfl⟩) n b h
    intro c₁ hc₁ c₂ hc₂ m b₁ b₂ h₁ h₂
    obtain ⟨e₁, he₁, rfl⟩ := List.mem_map.1 hc₁
    obtain ⟨e₂, he₂, rfl⟩ := List.mem_map.1 hc₂
    exact (view_facts cfg norm reg q hC hV e₁ he₁).agree e₂ he₂ m b₁ b₂ h₁ h₂
  have hnu : n ∉ names q.ctes := vf.disjoint n (assoc_some_mem _ n b h)
  simp [hfb, hnu]

include ha hp in
theorem assoc_spliced_none (n : Name) (hu : n ∉ U) (hg : ∀ e ∈ V, n ∉ names e.frame.ctes) : assoc C' n = none := by
  rw [assoc_spliced cfg norm reg q ha hp, (assoc_none_iff _ n).2 hu]
  rw [firstBind_none _ n (fun ch hch => by
    obtain ⟨e, he, rfl⟩ := List.mem_map.1 hch
    exact hg e he)]
  rfl

include ha hp hC hV in
theorem chain_closedIn (e : Entry) (he : e ∈ V) : ClosedIn e.frame.ctes C' := by
  intro n b hb
  have vf := view_facts cfg norm reg q hC hV e he
  refine ⟨assoc_spliced_chain cfg norm reg q ha hp hC hV e he n b hb, ?_⟩
  intro m hm
  by_cases hmem : m ∈ names e.frame.ctes
  · exact Or.inl hmem
  · refine Or.inr ⟨hmem, ?_⟩
    cases (vf.refs (n, b) (assoc_some_pair_mem _ n b hb) m hm) with
    | inl h => exact absurd h hmem
    | inr h =>
      rw [← assoc_none_iff]
      exact assoc_spliced_none cfg norm reg q ha hp m h.1 h.2

/-- H_uniqueOutputNames for the referenced views: the value of a view's last CTE is well-formed -/
def ViewsWF (db : Db) : Prop :=
  ∀ e ∈ visited cfg norm reg q, ∀ l, e.frame.lastName = some l → ∀ f T, resolveFuel db e.frame.ctes f l = some T → T.WF

include ha hp ht hC hV in
/-- inside the spliced statement the replacement name of a view reference means what the view's own frame means -/
theorem view_target (db : Db) (hW : ViewsWF cfg norm reg q db) (n : Name) (hn : n ∈ q.refs) (e : Entry)
    (hv : viewOf cfg norm reg U n = some e) :
    ∀ f T, resolveFuel db C' f (ρ n) = some T ↔ evalQueryFuel db e.frame.query f = some T := by
  intro f T
  have he := visited_mem cfg norm reg q n hn e hv
  have vf := view_facts cfg norm reg q hC hV e he
  obtain ⟨l, b, hl, hleaf⟩ := vf.wrapped
  have hlast : e.frame.lastName = some l := by simp [Frame.lastName, hl]
  have hρ : ρ n = l := by
    unfold spliceRho
    simp [hv, viewTarget, ht, hlast]
  have hmem : l ∈ names e.frame.ctes := by
    have : (l, b) ∈ e.frame.ctes := List.mem_of_getLast? hl
    exact List.mem_map.2 ⟨(l, b), this, rfl⟩
  have hemb := resolveFuel_embed db _ _ (chain_closedIn cfg norm reg q ha hp hC hV e he) f l (Or.inl hmem)
  rw [hρ, ← hemb]
  unfold evalQueryFuel Frame.query
  simp only [hleaf, evalBody]
  cases hx : resolveFuel db e.frame.ctes f l with
  | none => simp
  | some T₀ =>
    have := byName_of_wf T₀ (hW e he l hlast f T₀ hx)
    simp [Option.bind, this]

variable (db : Db) (vals : Name → Option Table) (hvals : ViewVals db reg vals)

local notation "dbV" => withViews norm reg vals db

include ha hp ht hS hC hV hF hO hvals in
/-- original statement over the extended database ⟹ spliced statement over the plain database -/
theorem sim_fwd (hW : ViewsWF cfg norm reg q db) (K : Nat) (hK : ∀ e ∈ V, ∀ T, Evaluates db e.frame.query T → evalQueryFuel db e.frame.query K = some T) :
    ∀ f, ∀ n ∈ q.refs, ∀ T, resolveFuel dbV q.ctes f n = some T → resolveFuel db C' (f + K + 1) (ρ n) = some T := by
  intro f
  induction f with
  | zero =>
    intro n hn T h
    cases hu : assoc q.ctes n with
    | some b => simp [resolveFuel, hu] at h
    | none =>
      have hnu : n ∉ U := (assoc_none_iff _ n).1 hu
      rw [resolveFuel_unbound _ _ n hu] at h
      cases hv : viewOf cfg norm reg U n with
      | some e =>
        have hreg := viewOf_some cfg norm reg U n e hv
        simp only [withViews, hreg] at h
        have hev : Evaluates db e.frame.query T := (hvals (norm n) e hreg T).1 h
        exact (view_target cfg norm reg q ha ht hp hC hV db hW n hn e hv _ T).2
          (evalQueryFuel_mono db _ K _ (by omega) T (hK e (visited_mem cfg norm reg q n hn e hv) T hev))
      | none =>
        have hreg : assoc reg (norm n) = none := by
          unfold viewOf at hv
          split at hv
          · rename_i hc; simp at hc; exact absurd hc.2 hnu
          · exact hv
        simp only [withViews, hreg] at h
        have hρ : ρ n = n := by unfold spliceRho; rw [hv]
        rw [hρ, resolveFuel_unbound _ _ n (assoc_spliced_none cfg norm reg q ha hp n hnu
          (base_not_generated cfg norm reg q hC n hn hnu hv))]
        exact h
  | succ f ih =>
    intro n hn T h
    cases hu : assoc q.ctes n with
    | some b =>
      have hmemU : n ∈ U := assoc_some_mem _ n b hu
      rw [rho_user cfg norm reg q hS n hmemU]
      simp only [resolveFuel, hu] at h
      have : f + 1 + K + 1 = (f + K + 1) + 1 := by omega
      rw [this]
      simp only [resolveFuel, assoc_spliced_user cfg norm reg q ha hp hS hF hO n b hu]
      exact evalBody_mono _ _ _ b
        (fun m hm T' h' => ih m (mem_refs_of_cte q n b (assoc_some_pair_mem _ n b hu) m hm) T' h') T h
    | none =>
      -- unbound names do not depend on the fuel: reuse the base case
      have h0 : resolveFuel dbV q.ctes 0 n = some T := by
        rw [resolveFuel_unbound _ _ n hu] at h ⊢; exact h
      have hnu : n ∉ U := (assoc_none_iff _ n).1 hu
      rw [resolveFuel_unbound _ _ n hu] at h
      cases hv : viewOf cfg norm reg U n with
      | some e =>
        have hreg := viewOf_some cfg norm reg U n e hv
        simp only [withViews, hreg] at h
        have hev : Evaluates db e.frame.query T := (hvals (norm n) e hreg T).1 h
        exact (view_target cfg norm reg q ha ht hp hC hV db hW n hn e hv _ T).2
          (evalQueryFuel_mono db _ K _ (by omega) T (hK e (visited_mem cfg norm reg q n hn e hv) T hev))
      | none =>
        have hreg : assoc reg (norm n) = none := by
          unfold viewOf at hv
          split at hv
          · rename_i hc; simp at hc; exact absurd hc.2 hnu
          · exact hv
        simp only [withViews, hreg] at h
        have hρ : ρ n = n := by unfold spliceRho; rw [hv]
        rw [hρ, resolveFuel_unbound _ _ n (assoc_spliced_none cfg norm reg q ha hp n hnu
          (base_not_generated cfg norm reg q hC n hn hnu hv))]
        exact h

include ha hp ht hS hC hV hF hO hvals in
/-- spliced statement over the plain database ⟹ original statement over the extended database -/
theorem sim_bwd (hW : ViewsWF cfg norm reg q db) :
    ∀ f, ∀ n ∈ q.refs, ∀ T, resolveFuel db C' f (ρ n) = some T → resolveFuel dbV q.ctes f n = some T := by
  intro f
  induction f with
  | zero =>
    intro n hn T h
    cases hu : assoc q.ctes n with
    | some b =>
      have hmemU : n ∈ U := assoc_some_mem _ n b hu
      rw [rho_user cfg norm reg q hS n hmemU] at h
      simp [resolveFuel, assoc_spliced_user cfg norm reg q ha hp hS hF hO n b hu] at h
    | none =>
      have hnu : n ∉ U := (assoc_none_iff _ n).1 hu
      rw [resolveFuel_unbound _ _ n hu]
      cases hv : viewOf cfg norm reg U n with
      | some e =>
        have hreg := viewOf_some cfg norm reg U n e hv
        have h := (view_target cfg norm reg q ha ht hp hC hV db hW n hn e hv _ T).1 h
        simp only [withViews, hreg]
        exact (hvals (norm n) e hreg T).2 ⟨_, h⟩
      | none =>
        have hreg : assoc reg (norm n) = none := by
          unfold viewOf at hv
          split at hv
          · rename_i hc; simp at hc; exact absurd hc.2 hnu
          · exact hv
        have hρ : ρ n = n := by unfold spliceRho; rw [hv]
        rw [hρ, resolveFuel_unbound _ _ n (assoc_spliced_none cfg norm reg q ha hp n hnu
          (base_not_generated cfg norm reg q hC n hn hnu hv))] at h
        simp only [withViews, hreg]
        exact h
  | succ f ih =>
    intro n hn T h
    cases hu : assoc q.ctes n with
    | some b =>
      have hmemU : n ∈ U := assoc_some_mem _ n b hu
      rw [rho_user cfg norm reg q hS n hmemU] at h
      simp only [resolveFuel, assoc_spliced_user cfg norm reg q ha hp hS hF hO n b hu] at h
      simp only [resolveFuel, hu]
      -- read the renamed body back: evaluate `b` where every reference m means what ρ m means on the other side
      have hcongr := evalBody_congr (fun m => resolveFuel db C' f (ρ m)) (resolveFuel db C' f) ρ b (fun _ _ => rfl)
      rw [← hcongr] at h
      exact evalBody_mono_id _ _ b
        (fun m hm T' h' => ih m (mem_refs_of_cte q n b (assoc_some_pair_mem _ n b hu) m hm) T' h') T h
    | none =>
      have hnu : n ∉ U := (assoc_none_iff _ n).1 hu
      rw [resolveFuel_unbound _ _ n hu]
      cases hv : viewOf cfg norm reg U n with
      | some e =>
        have hreg := viewOf_some cfg norm reg U n e hv
        have h := (view_target cfg norm reg q ha ht hp hC hV db hW n hn e hv _ T).1 h
        simp only [withViews, hreg]
        exact (hvals (norm n) e hreg T).2 ⟨_, h⟩
      | none =>
        have hreg : assoc reg (norm n) = none := by
          unfold viewOf at hv
          split at hv
          · rename_i hc; simp at hc; exact absurd hc.2 hnu
          · exact hv
        have hρ : ρ n = n := by unfold spliceRho; rw [hv]
        rw [hρ, resolveFuel_unbound _ _ n (assoc_spliced_none cfg norm reg q ha hp n hnu
          (base_not_generated cfg norm reg q hC n hn hnu hv))] at h
        simp only [withViews, hreg]
        exact h

include ha hp ht hS hC hV hF hO hvals in
/-- the splice theorem for any configuration that appends absent CTEs and targets the last CTE -/
theorem splice_correct (hW : ViewsWF cfg norm reg q db) (T : Table) :
    Evaluates db (spliceWith cfg norm reg q) T ↔ Evaluates dbV q T := by
  have hq : spliceWith cfg norm reg q = ⟨C', q.final.rename ρ⟩ := by
    unfold spliceWith splicedCtes
    simp only [spliceBody_final cfg norm reg q hS hF hO]
  have hfin : ∀ m ∈ q.final.refs, m ∈ q.refs := fun m hm => by unfold Query.refs; simp [hm]
  rw [hq]
  constructor
  · rintro ⟨f, hf⟩
    refine ⟨f, ?_⟩
    unfold evalQueryFuel at hf ⊢
    simp only at hf
    have hcongr := evalBody_congr (fun m => resolveFuel db C' f (ρ m)) (resolveFuel db C' f) ρ q.final (fun _ _ => rfl)
    rw [← hcongr] at hf
    exact evalBody_mono_id _ _ q.final
      (fun m hm T' h' => sim_bwd cfg norm reg q ha ht hp hS hC hV hF hO db vals hvals hW f m (hfin m hm) T' h') T hf
  · rintro ⟨f, hf⟩
    obtain ⟨K, hK⟩ := exists_fuel db V
    refine ⟨f + K + 1, ?_⟩
    unfold evalQueryFuel at hf ⊢
    simp only
    exact evalBody_mono _ _ ρ q.final
      (fun m hm T' h' => sim_fwd cfg norm reg q ha ht hp hS hC hV hF hO db vals hvals hW K hK f m (hfin m hm) T' h') T hf

end

end Sqlframe.Views
