/-
Lemmas/C13Splice.lean — the simulation behind `C13_splice`: under the scope hypotheses, name resolution in
the spliced statement (over the plain database) and in the original statement (over the database extended
with the views' rows) agree, by induction on the unfolding depth.
-/
import SqlframeModel.Lemmas.C13
import SqlframeModel.Impl.C13Scope
namespace Sqlframe.Views
open Sqlframe Sqlframe.Gen

theorem assoc_some_pair_mem {β : Type} (l : List (Name × β)) (n : Name) (b : β) (h : assoc l n = some b) : (n, b) ∈ l := by
  induction l with
  | nil => simp [assoc] at h
  | cons hd t ih =>
    obtain ⟨k, v⟩ := hd
    simp only [assoc] at h
    split at h
    · rename_i hk; subst hk; cases h; simp
    · exact List.mem_cons_of_mem _ (ih h)

theorem names_map_snd {β γ : Type} (l : List (Name × β)) (g : Name × β → γ) :
    names (l.map (fun c => (c.1, g c))) = names l := by
  simp [names, List.map_map, Function.comp_def]

theorem resolveFuel_unbound (db : Db) (ctes : List CTE) (n : Name) (h : assoc ctes n = none) :
    ∀ f, resolveFuel db ctes f n = db n := by
  intro f; cases f <;> simp [resolveFuel, h]

theorem viewOf_some (cfg : SpliceCfg) (norm : Name → Name) (reg : Registry) (users : List Name) (n : Name) (e : Entry)
    (h : viewOf cfg norm reg users n = some e) : assoc reg (norm n) = some e := by
  unfold viewOf at h
  split at h
  · cases h
  · exact h

theorem wrapped_of_isWrapped (fr : Frame) (h : fr.isWrapped = true) : fr.Wrapped := by
  unfold Frame.isWrapped at h
  split at h
  · rename_i n b m hl hf
    exact ⟨n, b, hl, by rw [hf]; simp at h; rw [h]⟩
  · cases h

theorem isTableSrc_rename (ρ : Name → Name) (b : Body) : isTableSrc (b.rename ρ) = isTableSrc b := by
  cases b with
  | un op b =>
    cases op <;> cases b <;> try rfl
    rename_i op2 b2
    cases op2 <;> cases b2 <;> rfl
  | _ => rfl

theorem isSubSrc_rename (ρ : Name → Name) (b : Body) : isSubSrc (b.rename ρ) = isSubSrc b := by
  cases b with
  | un op b => cases op <;> cases b <;> rfl
  | _ => rfl

theorem needsSwap_rename (ρ : Name → Name) (b : Body) : needsSwap (b.rename ρ) = needsSwap b := by
  induction b with
  | un op b ih => cases op <;> simp [Body.rename, needsSwap, ih]
  | bin op l r _ _ => cases op <;> simp [Body.rename, needsSwap, isTableSrc_rename, isSubSrc_rename]
  | _ => rfl

theorem swap_id (b : Body) (h : needsSwap b = false) : swapSubFirst b = b := by
  induction b with
  | un op b ih =>
    cases op <;> try rfl
    simp only [needsSwap] at h
    simp [swapSubFirst, ih h]
  | bin op l r _ _ =>
    cases op <;> try rfl
    simp only [needsSwap] at h
    simp [swapSubFirst, h]
  | _ => rfl

/-- without stale catalog columns, shadowing CTEs and reordered `*` the rewrite of a body is the plain
    renaming of its references -/
theorem spliceBody_eq_rename (cfg : SpliceCfg) (norm : Name → Name) (reg : Registry) (users : List Name)
    (ucols : Name → Option (List Name)) (b : Body)
    (h : ∀ n ∈ b.refs, ∀ e, viewOf cfg norm reg users n = some e → e.stale = false ∧ users.contains n = false)
    (hsw : starSwaps b = false) :
    spliceBody cfg norm reg users ucols b = b.rename (spliceRho cfg norm reg users) := by
  induction b with
  | lit T => rfl
  | scan n => rfl
  | un op b ih =>
    simp only [starSwaps, Bool.or_eq_false_iff] at hsw
    have hb := ih (by simpa [Body.refs] using h) hsw.2
    have hs : hasStale cfg norm reg users b = false := by
      unfold hasStale
      rw [List.any_eq_false]
      intro n hn
      cases hv : viewOf cfg norm reg users n with
      | none => simp
      | some e =>
        have := h n (by simpa [Body.refs] using hn) e hv
        have h2 : n ∉ users := by simpa using this.2
        simp [this.1, h2]
    unfold spliceBody
    simp only [Body.rename]
    split
    · rename_i a n
      simp only [Body.rename, spliceBody] at hb ⊢
      cases hv : viewOf cfg norm reg users n with
      | none => rfl
      | some e =>
        have := h n (by simp [Body.refs]) e hv
        simp [this.1]
    · have hns : needsSwap b = false := by simpa using hsw.1
      simp only [hs, Bool.false_eq_true, if_false, hb]
      rw [swap_id _ (by rw [needsSwap_rename]; exact hns)]
    · simp only [hb]
  | bin op l r ihl ihr =>
    simp only [Body.refs, List.mem_append] at h
    simp only [starSwaps, Bool.or_eq_false_iff] at hsw
    simp [spliceBody, Body.rename, ihl (fun m hm => h m (Or.inl hm)) hsw.1, ihr (fun m hm => h m (Or.inr hm)) hsw.2]

theorem mem_refs_of_cte (q : Query) (n : Name) (b : Body) (h : (n, b) ∈ q.ctes) : ∀ m ∈ b.refs, m ∈ q.refs := by
  intro m hm
  unfold Query.refs
  rw [List.mem_append, List.mem_flatMap]
  exact Or.inr ⟨(n, b), h, hm⟩

/-- a fuel that suffices for every listed view that evaluates at all -/
theorem exists_fuel (db : Db) (V : List Entry) :
    ∃ K, ∀ e ∈ V, ∀ T, Evaluates db e.frame.query T → evalQueryFuel db e.frame.query K = some T := by
  induction V with
  | nil => exact ⟨0, by simp⟩
  | cons e rest ih =>
    obtain ⟨K, hK⟩ := ih
    by_cases hex : ∃ T, Evaluates db e.frame.query T
    · obtain ⟨T, f, hf⟩ := hex
      refine ⟨max K f, ?_⟩
      intro e' he' T' hT'
      cases List.mem_cons.1 he' with
      | inl h =>
        subst h
        have : T' = T := Evaluates_det db _ T' T hT' ⟨f, hf⟩
        subst this
        exact evalQueryFuel_mono db _ f _ (Nat.le_max_right _ _) _ hf
      | inr h => exact evalQueryFuel_mono db _ K _ (Nat.le_max_left _ _) _ (hK e' h T' hT')
    · refine ⟨K, ?_⟩
      intro e' he' T' hT'
      cases List.mem_cons.1 he' with
      | inl h => subst h; exact absurd ⟨T', hT'⟩ hex
      | inr h => exact hK e' h T' hT'

/-! ### scopes -/

theorem takeWhile_prefix (pre post : List CTE) (c : CTE) (h : c.1 ∉ names pre) :
    (pre ++ c :: post).takeWhile (fun x => decide (x.1 ≠ c.1)) = pre := by
  induction pre with
  | nil => simp
  | cons x xs ih =>
    simp only [names, List.map_cons, List.mem_cons, not_or] at h
    have hx : decide (x.1 ≠ c.1) = true := by simpa using fun e => h.1 e.symm
    simp only [List.cons_append, List.takeWhile, hx]
    congr 1
    exact ih (by simpa [names] using h.2)

/-- with pairwise distinct CTE names, the scope of a CTE is the list of names before it -/
theorem scopeBefore_prefix (pre post : List CTE) (c : CTE) (h : c.1 ∉ names pre) :
    scopeBefore (pre ++ c :: post) c.1 = names pre := by
  unfold scopeBefore
  rw [takeWhile_prefix pre post c h]

theorem takeWhile_sub (l : List CTE) (p : CTE → Bool) : ∀ x ∈ l.takeWhile p, x ∈ l := by
  induction l with
  | nil => simp
  | cons y ys ih =>
    intro x hx
    simp only [List.takeWhile] at hx
    split at hx
    · cases List.mem_cons.1 hx with
      | inl h => simp [h]
      | inr h => exact List.mem_cons_of_mem _ (ih x h)
    · simp at hx

theorem scopeBefore_sub (ctes : List CTE) (n : Name) : ∀ m ∈ scopeBefore ctes n, m ∈ names ctes := by
  intro m hm
  unfold scopeBefore names at hm
  obtain ⟨x, hx, rfl⟩ := List.mem_map.1 hm
  exact List.mem_map.2 ⟨x, takeWhile_sub _ _ x hx, rfl⟩

/-- a fuel that works for every reference of a list at once -/
theorem uniform_fuel (R : Nat → Name → Option Table)
    (hmono : ∀ f f', f ≤ f' → ∀ n T, R f n = some T → R f' n = some T)
    (env : Name → Option Table) (ρ : Name → Name) (refs : List Name)
    (h : ∀ m ∈ refs, ∀ T, env m = some T → ∃ f, R f (ρ m) = some T) :
    ∃ F, ∀ m ∈ refs, ∀ T, env m = some T → R F (ρ m) = some T := by
  induction refs with
  | nil => exact ⟨0, by simp⟩
  | cons m rest ih =>
    obtain ⟨F, hF⟩ := ih (fun m' hm' => h m' (by simp [hm']))
    cases hm : env m with
    | none =>
      refine ⟨F, ?_⟩
      intro m' hm' T hT
      cases List.mem_cons.1 hm' with
      | inl e => subst e; rw [hm] at hT; cases hT
      | inr e => exact hF m' e T hT
    | some T₀ =>
      obtain ⟨f, hf⟩ := h m (by simp) T₀ hm
      refine ⟨max F f, ?_⟩
      intro m' hm' T hT
      cases List.mem_cons.1 hm' with
      | inl e =>
        subst e
        rw [hm] at hT; cases hT
        exact hmono f _ (Nat.le_max_right _ _) _ _ hf
      | inr e => exact hmono F _ (Nat.le_max_left _ _) _ _ (hF m' e T hT)

/-- a body whose references are simulated one by one is simulated as a whole -/
theorem body_sim (db : Db) (C : List CTE) (env : Name → Option Table) (ρ : Name → Name) (b : Body)
    (h : ∀ m ∈ b.refs, ∀ T, (∃ f, resolveFuel db C f (ρ m) = some T) ↔ env m = some T) (T : Table) :
    (∃ f, evalBody (resolveFuel db C f) (b.rename ρ) = some T) ↔ evalBody env b = some T := by
  constructor
  · rintro ⟨f, hf⟩
    have hcongr := evalBody_congr (fun m => resolveFuel db C f (ρ m)) (resolveFuel db C f) ρ b (fun _ _ => rfl)
    rw [← hcongr] at hf
    exact evalBody_mono_id _ _ b (fun m hm T' h' => (h m hm T').1 ⟨f, h'⟩) T hf
  · intro hb
    obtain ⟨F, hF⟩ := uniform_fuel (resolveFuel db C) (fun f f' hle n T' => resolveFuel_mono db C f f' hle n T')
      env ρ b.refs (fun m hm T' h' => (h m hm T').2 h')
    exact ⟨F, evalBody_mono env (resolveFuel db C F) ρ b hF T hb⟩

section
variable (cfg : SpliceCfg) (norm : Name → Name) (reg : Registry) (q : Query)
variable (ha : cfg.append = .ifAbsent) (ht : cfg.target = .last) (hp : cfg.pos = .append)
variable (hS : noShadow cfg norm reg q = true) (hC : noClash cfg norm reg q = true)
variable (hV : viewsClosed cfg norm reg q = true) (hN : noCapture cfg norm reg q = true)
variable (hF : schemaFresh cfg norm reg q = true)
variable (hO : starsOrdered q = true)
variable (hD : ctesNodup q = true) (hL : lexicalRefs cfg norm reg q = true)

local notation "U" => names q.ctes
local notation "ρ" => spliceRho cfg norm reg
local notation "V" => visited cfg norm reg q
local notation "UC" => stmtCols norm reg q.ctes (q.ctes.length + 1)

theorem visited_mem_final (n : Name) (hn : n ∈ q.final.refs) (e : Entry) (h : viewOf cfg norm reg U n = some e) : e ∈ V := by
  unfold visited viewRefs
  rw [List.mem_append, List.mem_filterMap]
  exact Or.inl ⟨n, hn, h⟩

theorem visited_mem_cte (c : CTE) (hc : c ∈ q.ctes) (n : Name) (hn : n ∈ c.2.refs) (e : Entry)
    (h : viewOf cfg norm reg (scopeBefore q.ctes c.1) n = some e) : e ∈ V := by
  unfold visited viewRefs
  rw [List.mem_append, List.mem_flatMap]
  exact Or.inr ⟨c, hc, List.mem_filterMap.2 ⟨n, hn, h⟩⟩

/-- every visited entry is a registry entry -/
theorem visited_registered (e : Entry) (he : e ∈ V) : ∃ k, assoc reg k = some e := by
  unfold visited viewRefs at he
  rw [List.mem_append] at he
  cases he with
  | inl h =>
    obtain ⟨n, _, hv⟩ := List.mem_filterMap.1 h
    exact ⟨_, viewOf_some _ _ _ _ _ _ hv⟩
  | inr h =>
    obtain ⟨c, _, hc⟩ := List.mem_flatMap.1 h
    obtain ⟨n, _, hv⟩ := List.mem_filterMap.1 hc
    exact ⟨_, viewOf_some _ _ _ _ _ _ hv⟩

include hS in
/-- a CTE of the statement that is in scope is never treated as a view reference -/
theorem user_not_view (S : List Name) (hSU : ∀ n ∈ S, n ∈ U) (n : Name) (hn : n ∈ S) : viewOf cfg norm reg S n = none := by
  unfold viewOf
  unfold noShadow at hS
  rw [Bool.or_eq_true] at hS
  cases hS with
  | inl h => simp [h, hn]
  | inr h =>
    rw [List.all_eq_true] at h
    have := h n (hSU n hn)
    split
    · rfl
    · simpa using this

include hS in
theorem rho_user (S : List Name) (hSU : ∀ n ∈ S, n ∈ U) (n : Name) (hn : n ∈ S) : ρ S n = n := by
  unfold spliceRho
  rw [user_not_view cfg norm reg q hS S hSU n hn]

include hF in
theorem fresh_of_visited (e : Entry) (he : e ∈ V) : e.stale = false := by
  unfold schemaFresh at hF
  rw [List.all_eq_true] at hF
  simpa using hF e he

include hS in
/-- a reference that is treated as a view reference is not a CTE in scope -/
theorem view_not_user (S : List Name) (hSU : ∀ n ∈ S, n ∈ U) (n : Name) (e : Entry)
    (h : viewOf cfg norm reg S n = some e) : S.contains n = false := by
  cases hc : S.contains n with
  | false => rfl
  | true =>
    rw [user_not_view cfg norm reg q hS S hSU n (by simpa using hc)] at h
    cases h

include hS hF hO in
theorem spliceBody_final : spliceBody cfg norm reg U UC q.final = q.final.rename (ρ U) :=
  spliceBody_eq_rename cfg norm reg U UC q.final
    (fun n hn e h => ⟨fresh_of_visited cfg norm reg q hF e (visited_mem_final cfg norm reg q n hn e h),
      view_not_user cfg norm reg q hS U (fun _ h => h) n e h⟩)
    (by unfold starsOrdered at hO; simp only [Bool.and_eq_true, Bool.not_eq_true'] at hO; exact hO.1)

include hS hF hO in
theorem spliceBody_cte (c : CTE) (h : c ∈ q.ctes) :
    spliceBody cfg norm reg (scopeBefore q.ctes c.1) UC c.2 = c.2.rename (ρ (scopeBefore q.ctes c.1)) :=
  spliceBody_eq_rename cfg norm reg _ UC c.2
    (fun m hm e he => ⟨fresh_of_visited cfg norm reg q hF e (visited_mem_cte cfg norm reg q c h m hm e he),
      view_not_user cfg norm reg q hS _ (scopeBefore_sub q.ctes c.1) m e he⟩)
    (by
      unfold starsOrdered at hO
      simp only [Bool.and_eq_true, Bool.not_eq_true', List.all_eq_true] at hO
      exact hO.2 c h)

/-- facts about one referenced view, unpacked from the Boolean scope hypotheses -/
structure ViewFacts (e : Entry) : Prop where
  wrapped : e.frame.Wrapped
  disjoint : ∀ n ∈ names e.frame.ctes, n ∉ U
  agree : ∀ e' ∈ V, ∀ n b₁ b₂, assoc e.frame.ctes n = some b₁ → assoc e'.frame.ctes n = some b₂ → b₁ = b₂
  refs : ∀ c ∈ e.frame.ctes, ∀ m ∈ c.2.refs,
      (m ∈ names e.frame.ctes ∨ (m ∉ U ∧ ∀ e' ∈ V, m ∉ names e'.frame.ctes))

include hC hV hN in
theorem view_facts (e : Entry) (he : e ∈ V) : ViewFacts cfg norm reg q e := by
  unfold noClash at hC
  simp only [Bool.and_eq_true] at hC
  obtain ⟨⟨h1, h2⟩, _⟩ := hC
  unfold viewsClosed at hV
  unfold noCapture at hN
  rw [List.all_eq_true] at h1 h2 hV hN
  have hv := hV e he
  rw [Bool.and_eq_true] at hv
  refine ⟨wrapped_of_isWrapped _ hv.1, ?_, ?_, ?_⟩
  · intro n hn
    have := h1 e he
    rw [List.all_eq_true] at this
    simpa using this n hn
  · intro e' he' n b₁ b₂ hb₁ hb₂
    have := h2 e he
    rw [List.all_eq_true] at this
    have := this e' he'
    unfold chainsAgree at this
    rw [List.all_eq_true] at this
    have := this n (assoc_some_mem _ n b₁ hb₁)
    simpa [hb₁, hb₂] using this
  · intro c hc m hm
    have := hv.2
    rw [List.all_eq_true] at this
    have := this c hc
    rw [List.all_eq_true] at this
    have := this m hm
    rw [Bool.or_eq_true] at this
    have hn := hN e he
    rw [List.all_eq_true] at hn
    have hn := hn c hc
    rw [List.all_eq_true] at hn
    have hn := hn m hm
    rw [Bool.or_eq_true] at hn
    cases this with
    | inl h => exact Or.inl (by simpa using h)
    | inr h =>
      cases hn with
      | inl h' => exact Or.inl (by simpa using h')
      | inr h' =>
        unfold isBaseName at h
        rw [List.all_eq_true] at h
        exact Or.inr ⟨by simpa using h', fun e' he' => by simpa using h e' he'⟩

include hC in
/-- a reference that is neither a CTE of the statement nor a view is not a generated name -/
theorem base_not_generated (n : Name) (hn : n ∈ q.refs) (hu : n ∉ U) (hv : assoc reg (norm n) = none) :
    ∀ e ∈ V, n ∉ names e.frame.ctes := by
  unfold noClash at hC
  simp only [Bool.and_eq_true] at hC
  obtain ⟨_, h3⟩ := hC
  rw [List.all_eq_true] at h3
  have := h3 n hn
  have hvo : viewOf cfg norm reg U n = none := by
    unfold viewOf; split
    · rfl
    · exact hv
  simp only [Bool.or_eq_true, hvo, Option.isSome_none, Bool.false_eq_true, or_false] at this
  cases this with
  | inl h => exact absurd (by simpa using h) hu
  | inr h =>
    rw [List.all_eq_true] at h
    intro e he
    simpa using h e he

/-- chains of the referenced views, in reference order -/
def chainsOf : List (List CTE) := (visited cfg norm reg q).map (fun e => e.frame.ctes)

/-- the WITH list of the spliced statement -/
def splicedCtes : List CTE :=
  (addChains cfg (viewRefs cfg norm reg q) q.ctes).map
    (fun c => if (names q.ctes).contains c.1
      then (c.1, spliceBody cfg norm reg (scopeBefore q.ctes c.1) (stmtCols norm reg q.ctes (q.ctes.length + 1)) c.2) else c)

local notation "C'" => splicedCtes cfg norm reg q

include ha hp in
theorem assoc_spliced (n : Name) :
    assoc C' n = (match assoc q.ctes n with
      | some b => some b
      | none => firstBind (chainsOf cfg norm reg q) n).map
        (fun b => if (names q.ctes).contains n then spliceBody cfg norm reg (scopeBefore q.ctes n) UC b else b) := by
  unfold splicedCtes
  rw [assoc_map_cond_key _ (fun k => (names q.ctes).contains k)
      (fun k b => spliceBody cfg norm reg (scopeBefore q.ctes k) UC b),
    addChains_eq_addAll cfg ha hp, assoc_addAll]
  rfl

include ha hp hS hF hO in
theorem assoc_spliced_user (n : Name) (b : Body) (h : assoc q.ctes n = some b) :
    assoc C' n = some (b.rename (ρ (scopeBefore q.ctes n))) := by
  rw [assoc_spliced cfg norm reg q ha hp, h]
  have hmem : n ∈ names q.ctes := assoc_some_mem _ n b h
  have := spliceBody_cte cfg norm reg q hS hF hO (n, b) (assoc_some_pair_mem _ n b h)
  simp only at this
  simp [this, hmem]

include ha hp hC hV hN in
theorem assoc_spliced_chain (e : Entry) (he : e ∈ V) (n : Name) (b : Body) (h : assoc e.frame.ctes n = some b) :
    assoc C' n = some b := by
  have vf := view_facts cfg norm reg q hC hV hN e he
  have hu : assoc q.ctes n = none := (assoc_none_iff _ n).2 (vf.disjoint n (assoc_some_mem _ n b h))
  rw [assoc_spliced cfg norm reg q ha hp, hu]
  have hfb : firstBind (chainsOf cfg norm reg q) n = some b := by
    apply firstBind_agree _ _ e.frame.ctes (List.mem_map.2 ⟨e, he, rfl⟩) n b h
    intro c₁ hc₁ c₂ hc₂ m b₁ b₂ h₁ h₂
    obtain ⟨e₁, he₁, rfl⟩ := List.mem_map.1 hc₁
    obtain ⟨e₂, he₂, rfl⟩ := List.mem_map.1 hc₂
    exact (view_facts cfg norm reg q hC hV hN e₁ he₁).agree e₂ he₂ m b₁ b₂ h₁ h₂
  have hnu : n ∉ names q.ctes := vf.disjoint n (assoc_some_mem _ n b h)
  simp [hfb, hnu]

include ha hp in
theorem assoc_spliced_none (n : Name) (hu : n ∉ U) (hg : ∀ e ∈ V, n ∉ names e.frame.ctes) : assoc C' n = none := by
  rw [assoc_spliced cfg norm reg q ha hp, (assoc_none_iff _ n).2 hu]
  rw [firstBind_none _ n (fun ch hch => by
    obtain ⟨e, he, rfl⟩ := List.mem_map.1 hch
    exact hg e he)]
  rfl

include ha hp hC hV hN in
theorem chain_closedIn (e : Entry) (he : e ∈ V) : ClosedIn e.frame.ctes C' := by
  intro n b hb
  have vf := view_facts cfg norm reg q hC hV hN e he
  refine ⟨assoc_spliced_chain cfg norm reg q ha hp hC hV hN e he n b hb, ?_⟩
  intro m hm
  by_cases hmem : m ∈ names e.frame.ctes
  · exact Or.inl hmem
  · refine Or.inr ⟨hmem, ?_⟩
    cases (vf.refs (n, b) (assoc_some_pair_mem _ n b hb) m hm) with
    | inl h => exact absurd h hmem
    | inr h =>
      rw [← assoc_none_iff]
      exact assoc_spliced_none cfg norm reg q ha hp m h.1 h.2

/-- H_uniqueOutputNames for the referenced views: the value of a view's last CTE is well-formed -/
def ViewsWF (db : Db) : Prop :=
  ∀ e ∈ visited cfg norm reg q, ∀ l, e.frame.lastName = some l → ∀ f T, resolveFuel db e.frame.ctes f l = some T → T.WF

include ha hp ht hC hV hN in
/-- inside the spliced statement the replacement name of a view reference means what the view's own frame means -/
theorem view_target (db : Db) (hW : ViewsWF cfg norm reg q db) (S : List Name) (n : Name) (e : Entry) (he : e ∈ V)
    (hv : viewOf cfg norm reg S n = some e) :
    ∀ f T, resolveFuel db C' f (ρ S n) = some T ↔ evalQueryFuel db e.frame.query f = some T := by
  intro f T
  have vf := view_facts cfg norm reg q hC hV hN e he
  obtain ⟨l, b, hl, hleaf⟩ := vf.wrapped
  have hlast : e.frame.lastName = some l := by simp [Frame.lastName, hl]
  have hρ : ρ S n = l := by
    unfold spliceRho
    simp [hv, viewTarget, ht, hlast]
  have hmem : l ∈ names e.frame.ctes := by
    have : (l, b) ∈ e.frame.ctes := List.mem_of_getLast? hl
    exact List.mem_map.2 ⟨(l, b), this, rfl⟩
  have hemb := resolveFuel_embed db _ _ (chain_closedIn cfg norm reg q ha hp hC hV hN e he) f l (Or.inl hmem)
  rw [hρ, ← hemb]
  unfold evalQueryFuel Frame.query
  simp only [hleaf, evalBody]
  cases hx : resolveFuel db e.frame.ctes f l with
  | none => simp
  | some T₀ =>
    have := byName_of_wf T₀ (hW e he l hlast f T₀ hx)
    simp [Option.bind, this]

variable (db : Db) (vals : Name → Option Table) (hvals : ViewVals db reg vals)

local notation "dbV" => withViews norm reg vals db

/-- what the simulation knows after the definitions `pre`: a name defined so far has a value in the spliced
    statement (over the plain database) iff it has that value in Spark's environment; every other name
    still means what it means outside the statement -/
def Inv (pre : List CTE) (env : Db) : Prop :=
  (∀ n ∈ names pre, ∀ T, (∃ f, resolveFuel db C' f n = some T) ↔ env n = some T) ∧
  (∀ n, n ∉ names pre → env n = dbV n)

include ha hp ht hS hC hV hN hvals in
/-- one reference, judged in the scope `S = names pre` -/
theorem ref_sim (hW : ViewsWF cfg norm reg q db) (pre : List CTE) (env : Db) (hSU : ∀ n ∈ names pre, n ∈ U)
    (hinv : Inv cfg norm reg q db vals pre env) (m : Name) (hmq : m ∈ q.refs)
    (hvis : ∀ e, viewOf cfg norm reg (names pre) m = some e → e ∈ V)
    (hok : m ∈ names pre ∨ m ∉ U ∨ (viewOf cfg norm reg (names pre) m).isSome = true) (T : Table) :
    (∃ f, resolveFuel db C' f (ρ (names pre) m) = some T) ↔ env m = some T := by
  by_cases hm : m ∈ names pre
  · rw [rho_user cfg norm reg q hS (names pre) hSU m hm]
    exact hinv.1 m hm T
  · rw [hinv.2 m hm]
    cases hv : viewOf cfg norm reg (names pre) m with
    | some e =>
      have he := hvis e hv
      have hreg := viewOf_some cfg norm reg (names pre) m e hv
      simp only [withViews, hreg]
      constructor
      · rintro ⟨f, hf⟩
        exact (hvals (norm m) e hreg T).2 ⟨f, (view_target cfg norm reg q ha ht hp hC hV hN db hW (names pre) m e he hv f T).1 hf⟩
      · intro h
        obtain ⟨f, hf⟩ := (hvals (norm m) e hreg T).1 h
        exact ⟨f, (view_target cfg norm reg q ha ht hp hC hV hN db hW (names pre) m e he hv f T).2 hf⟩
    | none =>
      have hnu : m ∉ U := by
        rcases hok with h | h | h
        · exact absurd h hm
        · exact h
        · rw [hv] at h; cases h
      have hreg : assoc reg (norm m) = none := by
        unfold viewOf at hv
        split at hv
        · rename_i hc; simp at hc; exact absurd hc.2 hm
        · exact hv
      have hρ : ρ (names pre) m = m := by unfold spliceRho; rw [hv]
      have hnone := assoc_spliced_none cfg norm reg q ha hp m hnu (base_not_generated cfg norm reg q hC m hmq hnu hreg)
      simp only [withViews, hreg, hρ, resolveFuel_unbound _ _ m hnone]
      constructor
      · rintro ⟨_, h⟩; exact h
      · intro h; exact ⟨0, h⟩

include ha hp ht hS hC hV hN hF hO hD hL hvals in
/-- one more definition -/
theorem inv_step (hW : ViewsWF cfg norm reg q db) (pre post : List CTE) (c : CTE) (hq : q.ctes = pre ++ c :: post)
    (env : Db) (hinv : Inv cfg norm reg q db vals pre env) :
    Inv cfg norm reg q db vals (pre ++ [c]) (bindCte env c) := by
  have hnd : (names q.ctes).Nodup := by unfold ctesNodup at hD; simpa using hD
  have hcq : c ∈ q.ctes := by rw [hq]; simp
  have hcpre : c.1 ∉ names pre := by
    rw [hq] at hnd
    simp only [names, List.map_append, List.map_cons] at hnd
    have := (List.nodup_append.1 hnd).2.2
    intro hmem
    exact this c.1 hmem c.1 (by simp) rfl
  have hscope : scopeBefore q.ctes c.1 = names pre := by rw [hq]; exact scopeBefore_prefix pre post c hcpre
  have hSU : ∀ n ∈ names pre, n ∈ U := by
    intro n hn; rw [hq]; simp only [names, List.map_append, List.mem_append]; exact Or.inl hn
  have hassoc : assoc q.ctes c.1 = some c.2 := by
    rw [hq, assoc_append, (assoc_none_iff _ _).2 hcpre]; simp [assoc]
  have hC' : assoc C' c.1 = some (c.2.rename (ρ (names pre))) := by
    rw [assoc_spliced_user cfg norm reg q ha hp hS hF hO c.1 c.2 hassoc, hscope]
  have hrefs : ∀ m ∈ c.2.refs, ∀ T, (∃ f, resolveFuel db C' f (ρ (names pre) m) = some T) ↔ env m = some T := by
    intro m hm T
    apply ref_sim cfg norm reg q ha ht hp hS hC hV hN db vals hvals hW pre env hSU hinv m
      (mem_refs_of_cte q c.1 c.2 hcq m hm)
    · intro e he
      rw [← hscope] at he
      exact visited_mem_cte cfg norm reg q c hcq m hm e he
    · unfold lexicalRefs at hL
      rw [List.all_eq_true] at hL
      have := hL c hcq
      rw [List.all_eq_true] at this
      have := this m hm
      rw [hscope] at this
      simp only [Bool.or_eq_true, List.contains_eq_mem, decide_eq_true_eq, Bool.not_eq_true', decide_eq_false_iff_not] at this
      rcases this with (h | h) | h
      · exact Or.inl h
      · exact Or.inr (Or.inl h)
      · exact Or.inr (Or.inr h)
  constructor
  · intro n hn T
    simp only [names, List.map_append, List.map_cons, List.map_nil, List.mem_append, List.mem_singleton] at hn
    by_cases hnc : n = c.1
    · subst hnc
      simp only [bindCte, if_true]
      rw [← body_sim db C' env (ρ (names pre)) c.2 hrefs T]
      constructor
      · rintro ⟨f, hf⟩
        cases f with
        | zero => simp [resolveFuel, hC'] at hf
        | succ f => simp only [resolveFuel, hC'] at hf; exact ⟨f, hf⟩
      · rintro ⟨f, hf⟩
        exact ⟨f + 1, by simp only [resolveFuel, hC']; exact hf⟩
    · have hnp : n ∈ names pre := by
        cases hn with
        | inl h => exact h
        | inr h => exact absurd h hnc
      simp only [bindCte, hnc, if_false]
      exact hinv.1 n hnp T
  · intro n hn
    simp only [names, List.map_append, List.map_cons, List.map_nil, List.mem_append, List.mem_singleton, not_or] at hn
    simp only [bindCte, hn.2, if_false]
    exact hinv.2 n hn.1

include ha hp ht hS hC hV hN hF hO hD hL hvals in
theorem inv_all (hW : ViewsWF cfg norm reg q db) : ∀ (post pre : List CTE) (env : Db), q.ctes = pre ++ post →
    Inv cfg norm reg q db vals pre env → Inv cfg norm reg q db vals (pre ++ post) (post.foldl bindCte env) := by
  intro post
  induction post with
  | nil => intro pre env _ h; simpa using h
  | cons c post ih =>
    intro pre env hq hinv
    have hstep := inv_step cfg norm reg q ha ht hp hS hC hV hN hF hO hD hL db vals hvals hW pre post c hq env hinv
    have := ih (pre ++ [c]) (bindCte env c) (by rw [hq]; simp) hstep
    simpa using this

include ha hp ht hS hC hV hN hF hO hD hL hvals in
/-- the splice theorem for any configuration that appends absent CTEs and targets the last CTE: the statement
    `session.sql` builds, read by name (the engine), has exactly the value the user's statement has when it is
    read the way Spark reads it, over the database in which view names denote the registered frames' rows -/
theorem splice_correct (hW : ViewsWF cfg norm reg q db) (T : Table) :
    Evaluates db (spliceWith cfg norm reg q) T ↔ evalLex dbV q = some T := by
  have hq : spliceWith cfg norm reg q = ⟨C', q.final.rename (ρ U)⟩ := by
    unfold spliceWith splicedCtes
    simp only [spliceBody_final cfg norm reg q hS hF hO]
  have hinv : Inv cfg norm reg q db vals q.ctes (lexEnv dbV q.ctes) := by
    have := inv_all cfg norm reg q ha ht hp hS hC hV hN hF hO hD hL db vals hvals hW q.ctes [] dbV (by simp)
      ⟨by simp [names], fun _ _ => rfl⟩
    simpa [lexEnv] using this
  rw [hq]
  unfold Evaluates evalQueryFuel evalLex
  simp only
  apply body_sim db C' (lexEnv dbV q.ctes) (ρ U) q.final
  intro m hm T'
  apply ref_sim cfg norm reg q ha ht hp hS hC hV hN db vals hvals hW q.ctes _ (fun _ h => h) hinv m
    (by unfold Query.refs; simp [hm])
  · intro e he; exact visited_mem_final cfg norm reg q m hm e he
  · by_cases h : m ∈ U
    · exact Or.inl h
    · exact Or.inr (Or.inl h)

end

end Sqlframe.Views
