/-
Lemmas/C19Sort.lean — helper lemmas for C19: `sorted(rows, key=str)` as transcribed (`Sf.sortRows`, a stable insertion
sort on the `str()` of each row) returns a sorted permutation of its input, and two permutations of each other sort to
the SAME list when rows with the same `str()` are the same row.
-/
import SqlframeModel.Impl.C19Row
import SqlframeModel.Lemmas.C19Dict
namespace Sqlframe.C19
open Sqlframe.Gen.RowCompat

/-! ### `<` on str is a strict total order -/

theorem ltChars_irrefl : ∀ a : List Char, Py.ltChars a a = false
  | [] => rfl
  | c :: cs => by simp only [Py.ltChars, Nat.lt_irrefl, if_false, ltChars_irrefl cs]

theorem ltChars_trans : ∀ a b c : List Char, Py.ltChars a b = true → Py.ltChars b c = true → Py.ltChars a c = true
  | [], [], _, h, _ => by simp [Py.ltChars] at h
  | [], _ :: _, [], _, h => by simp [Py.ltChars] at h
  | [], _ :: _, _ :: _, _, _ => rfl
  | _ :: _, [], _, h, _ => by simp [Py.ltChars] at h
  | _ :: _, _ :: _, [], _, h => by simp [Py.ltChars] at h
  | x :: xs, y :: ys, z :: zs, h1, h2 => by
    simp only [Py.ltChars] at h1 h2 ⊢
    by_cases hxy : x.toNat < y.toNat
    · by_cases hyz : y.toNat < z.toNat
      · have : x.toNat < z.toNat := Nat.lt_trans hxy hyz
        simp only [this, if_true]
      · simp only [hyz, if_false] at h2
        by_cases hzy : z.toNat < y.toNat
        · simp [hzy] at h2
        · have : x.toNat < z.toNat := by omega
          simp only [this, if_true]
    · simp only [hxy, if_false] at h1
      by_cases hyx : y.toNat < x.toNat
      · simp [hyx] at h1
      · simp only [hyx, if_false] at h1
        have hxe : x.toNat = y.toNat := by omega
        by_cases hyz : y.toNat < z.toNat
        · have : x.toNat < z.toNat := by omega
          simp only [this, if_true]
        · simp only [hyz, if_false] at h2
          by_cases hzy : z.toNat < y.toNat
          · simp [hzy] at h2
          · simp only [hzy, if_false] at h2
            have h3 : ¬ x.toNat < z.toNat := by omega
            have h4 : ¬ z.toNat < x.toNat := by omega
            simp only [h3, h4, if_false]
            exact ltChars_trans xs ys zs h1 h2

theorem ltChars_total : ∀ a b : List Char, Py.ltChars a b = false → Py.ltChars b a = false → a = b
  | [], [], _, _ => rfl
  | [], _ :: _, h, _ => by simp [Py.ltChars] at h
  | _ :: _, [], _, h => by simp [Py.ltChars] at h
  | x :: xs, y :: ys, h1, h2 => by
    simp only [Py.ltChars] at h1 h2
    by_cases hxy : x.toNat < y.toNat
    · simp [hxy] at h1
    · by_cases hyx : y.toNat < x.toNat
      · simp [hyx] at h2
      · simp only [hxy, hyx, if_false] at h1 h2
        have hc : x = y := Char.toNat_inj.mp (by omega)
        rw [hc, ltChars_total xs ys h1 h2]

theorem strLt_irrefl (a : String) : Py.strLt a a = false := ltChars_irrefl _

theorem strLt_trans (a b c : String) : Py.strLt a b = true → Py.strLt b c = true → Py.strLt a c = true :=
  ltChars_trans _ _ _

theorem strLt_total (a b : String) (h1 : Py.strLt a b = false) (h2 : Py.strLt b a = false) : a = b :=
  String.toList_inj.mp (ltChars_total _ _ h1 h2)

/-- `¬ (b < a)`, i.e. a ≤ b -/
def keyLe (key : Val → String) (x y : Val) : Prop := Py.strLt (key y) (key x) = false

theorem keyLe_trans (key : Val → String) (x y z : Val) (h1 : keyLe key x y) (h2 : keyLe key y z) : keyLe key x z := by
  unfold keyLe at *
  cases h : Py.strLt (key z) (key x) with
  | false => rfl
  | true =>
    -- z < x and ¬ (y < x): then z < y or …; use totality
    cases hzy : Py.strLt (key z) (key y) with
    | true => rw [hzy] at h2; cases h2
    | false =>
      have hyz : key y = key z := strLt_total _ _ (by
        cases hyz' : Py.strLt (key y) (key z) with
        | false => rfl
        | true =>
          have := strLt_trans _ _ _ hyz' h
          rw [this] at h1; cases h1) hzy
      rw [← hyz] at h
      rw [h] at h1; cases h1

/-! ### the insertion sort -/

theorem insertBy_perm (key : Val → String) (x : Val) : ∀ l : List Val, (Sf.insertBy key x l).Perm (x :: l)
  | [] => List.Perm.refl _
  | y :: ys => by
    simp only [Sf.insertBy]
    split
    · exact List.Perm.refl _
    · exact ((insertBy_perm key x ys).cons y).trans (List.Perm.swap x y ys)

theorem sortRows_perm : ∀ l : List Val, (Sf.sortRows l).Perm l
  | [] => List.Perm.refl _
  | x :: xs => by
    have ih := sortRows_perm xs
    simp only [Sf.sortRows, List.foldr_cons] at ih ⊢
    exact (insertBy_perm _ x _).trans (ih.cons x)

theorem insertBy_sorted (key : Val → String) (x : Val) : ∀ l : List Val, l.Pairwise (keyLe key) →
    (Sf.insertBy key x l).Pairwise (keyLe key)
  | [], _ => by simp [Sf.insertBy]
  | y :: ys, h => by
    have hy := (List.pairwise_cons.mp h)
    simp only [Sf.insertBy]
    split
    · rename_i hlt
      -- x < y: x goes first; x ≤ y and y ≤ every later element
      have hxy : keyLe key x y := by
        unfold keyLe
        cases hh : Py.strLt (key y) (key x) with
        | false => rfl
        | true => have := strLt_trans _ _ _ hlt hh; rw [strLt_irrefl] at this; cases this
      refine List.pairwise_cons.mpr ⟨?_, h⟩
      intro z hz
      cases List.mem_cons.mp hz with
      | inl e => rw [e]; exact hxy
      | inr hm => exact keyLe_trans key x y z hxy (hy.1 z hm)
    · rename_i hnlt
      have hyx : keyLe key y x := by
        unfold keyLe
        cases hh : Py.strLt (key x) (key y) with
        | false => rfl
        | true => exact absurd hh hnlt
      refine List.pairwise_cons.mpr ⟨?_, insertBy_sorted key x ys hy.2⟩
      intro z hz
      have := (insertBy_perm key x ys).mem_iff.mp hz
      cases List.mem_cons.mp this with
      | inl e => rw [e]; exact hyx
      | inr hm => exact hy.1 z hm

theorem sortRows_sorted : ∀ l : List Val, (Sf.sortRows l).Pairwise (keyLe Sf.repr)
  | [] => List.Pairwise.nil
  | x :: xs => by
    have ih := sortRows_sorted xs
    simp only [Sf.sortRows, List.foldr_cons] at ih ⊢
    exact insertBy_sorted _ x _ ih

/-- two sorted lists that are permutations of each other are equal, when equal keys mean equal elements -/
theorem sorted_perm_unique (key : Val → String) : ∀ (l1 l2 : List Val), l1.Perm l2 →
    l1.Pairwise (keyLe key) → l2.Pairwise (keyLe key) →
    (∀ x y, x ∈ l1 → y ∈ l1 → key x = key y → x = y) → l1 = l2
  | [], l2, hp, _, _, _ => hp.nil_eq
  | x :: t1, [], hp, _, _, _ => by have := hp.eq_nil; cases this
  | x :: t1, y :: t2, hp, h1, h2, hinj => by
    have hs1 := List.pairwise_cons.mp h1
    have hs2 := List.pairwise_cons.mp h2
    have hy1 : y ∈ x :: t1 := hp.mem_iff.mpr (List.mem_cons_self)
    have hx2 : x ∈ y :: t2 := hp.mem_iff.mp (List.mem_cons_self)
    have hxy : keyLe key x y := by
      cases List.mem_cons.mp hy1 with
      | inl e => rw [e]; exact strLt_irrefl _
      | inr hm => exact hs1.1 y hm
    have hyx : keyLe key y x := by
      cases List.mem_cons.mp hx2 with
      | inl e => rw [e]; exact strLt_irrefl _
      | inr hm => exact hs2.1 x hm
    have hk : key x = key y := strLt_total _ _ hyx hxy
    have he : x = y := hinj x y List.mem_cons_self hy1 hk
    subst he
    have ht := sorted_perm_unique key t1 t2 hp.cons_inv hs1.2 hs2.2
      (fun a b ha hb => hinj a b (List.mem_cons_of_mem _ ha) (List.mem_cons_of_mem _ hb))
    rw [ht]

/-- **sorting forgets the order**: permutations of each other sort to the same list (rows with equal `str()` equal) -/
theorem sortRows_perm_eq (l1 l2 : List Val) (hp : l1.Perm l2)
    (hinj : ∀ x y, x ∈ l1 → y ∈ l1 → Sf.repr x = Sf.repr y → x = y) : Sf.sortRows l1 = Sf.sortRows l2 := by
  apply sorted_perm_unique Sf.repr
  · exact (sortRows_perm l1).trans (hp.trans (sortRows_perm l2).symm)
  · exact sortRows_sorted l1
  · exact sortRows_sorted l2
  · intro x y hx hy
    exact hinj x y ((sortRows_perm l1).mem_iff.mp hx) ((sortRows_perm l1).mem_iff.mp hy)

/-! ### a value compares equal to itself -/

-- well-formed Python values: the keys of a dict are distinct and it has as many values as keys
mutual
def Val.WF : Val → Prop
  | .list xs => xs.WF
  | .dict ks vs => ks.Nodup ∧ ks.length = vs.length ∧ vs.WF
  | .row _ _ vs => vs.WF
  | _ => True
def Vals.WF : Vals → Prop
  | .nil => True
  | .cons v vs => v.WF ∧ vs.WF
end

theorem lookupP_mem : ∀ (l : List (String × Val)) (p : String × Val), (l.map Prod.fst).Nodup → p ∈ l →
    Py.lookupP p.1 l = some p.2
  | [], _, _, h => by cases h
  | q :: r, p, hnd, h => by
    simp only [List.map_cons, List.nodup_cons] at hnd
    simp only [Py.lookupP]
    cases List.mem_cons.mp h with
    | inl e => rw [e]; simp
    | inr hm =>
      have hne : ¬ p.1 = q.1 := by
        intro e
        exact hnd.1 (e ▸ List.mem_map_of_mem (f := Prod.fst) hm)
      rw [if_neg hne]
      exact lookupP_mem r p hnd.2 hm

theorem pairs_mem_tail {k : String} {v : Val} {ks : List String} {vs : Vals} {p : String × Val}
    (h : p ∈ Py.pairs ks vs) : p ∈ Py.pairs (k :: ks) (.cons v vs) := by
  simp only [Py.pairs]; exact List.mem_cons_of_mem _ h

mutual
theorem compareVals_refl (close : Int → Int → Bool) (hc : ∀ x, close x x = true) : ∀ v : Val, v.WF →
    Sf.compareVals close v v = true
  | .none, _ => rfl
  | .int _, _ => by simp [Sf.compareVals, Py.eq]
  | .str _, _ => by simp [Sf.compareVals, Py.eq]
  | .dec _ _ _, _ => by simp [Sf.compareVals, Py.eq]
  | .flt a _, _ => by
    have h : floatFormula = true := by decide
    simp only [Sf.compareVals, h, if_true, hc]
  | .list xs, h => by
    simp only [Sf.compareVals, compareAll_refl close hc xs h, Bool.and_true]
    split <;> simp
  | .row _ _ xs, h => by
    simp only [Sf.compareVals, compareAll_refl close hc xs h, Bool.and_true]
    split <;> simp
  | .dict ks vs, h => by
    have hb : dictPairing = .byKey := by decide
    have hnd : ((Py.pairs ks vs).map Prod.fst).Nodup := by rw [pairs_keys ks vs h.2.1]; exact h.1
    have hd := compareDict_self close hc ks vs ks vs h.2.2
      (fun p hp => by rw [lookup_pairs]; exact lookupP_mem _ p hnd hp)
    simp only [Sf.compareVals, hb, hd, Bool.and_true]
    have hall : ks.all ks.contains = true := by
      simp only [List.all_eq_true, List.contains_iff_mem]
      intro x hx; exact hx
    simp only [hall, Bool.and_self]
    split <;> split <;> simp
theorem compareAll_refl (close : Int → Int → Bool) (hc : ∀ x, close x x = true) : ∀ vs : Vals, vs.WF →
    Sf.compareAll close vs vs = true
  | .nil, _ => rfl
  | .cons v vs, h => by
    simp only [Sf.compareAll, compareVals_refl close hc v h.1, compareAll_refl close hc vs h.2, Bool.and_self]
theorem compareDict_self (close : Int → Int → Bool) (hc : ∀ x, close x x = true) :
    ∀ (k1 : List String) (v1 : Vals) (k2 : List String) (v2 : Vals), v1.WF →
    (∀ p, p ∈ Py.pairs k1 v1 → Py.lookup p.1 k2 v2 = some p.2) → Sf.compareDict close k1 v1 k2 v2 = true
  | [], _, _, _, _, _ => by simp only [Sf.compareDict]
  | _ :: _, .nil, _, _, _, _ => by simp only [Sf.compareDict]
  | k :: ks, .cons v vs, k2, v2, h, hl => by
    have h1 := hl (k, v) (by simp only [Py.pairs]; exact List.mem_cons_self)
    simp only [Sf.compareDict, h1, compareVals_refl close hc v h.1, Bool.true_and]
    exact compareDict_self close hc ks vs k2 v2 h.2 (fun p hp => hl p (pairs_mem_tail hp))
end

theorem zipLongestAll_refl (close : Int → Int → Bool) (hc : ∀ x, close x x = true) : ∀ l : List Val,
    (∀ r, r ∈ l → r.WF) → Sf.zipLongestAll close l l = true
  | [], _ => by
    simp only [Sf.zipLongestAll, Sf.restRight]; split <;> rfl
  | x :: xs, h => by
    simp only [Sf.zipLongestAll, Sf.compareRows, compareVals_refl close hc x (h x List.mem_cons_self), Bool.true_and]
    exact zipLongestAll_refl close hc xs (fun r hr => h r (List.mem_cons_of_mem _ hr))

end Sqlframe.C19
