/-
Lemmas/C19Dict.lean — helper lemmas for C19: a Python dict seen as a list of (key, value) entries; looking a key up
does not depend on the insertion order; tuple positions found by `list.index`.
-/
import SqlframeModel.Impl.C19Row
namespace Sqlframe.C19
open Sqlframe.Gen.RowCompat

/-- the entries of a dict given as parallel key / value lists -/
def Py.pairs : List String → Vals → List (String × Val)
  | k :: ks, .cons v vs => (k, v) :: Py.pairs ks vs
  | _, _ => []

/-- `d[k]` on the entry list -/
def Py.lookupP (k : String) : List (String × Val) → Option Val
  | [] => none
  | p :: r => if k = p.1 then some p.2 else Py.lookupP k r

theorem lookup_pairs (k : String) : ∀ (ks : List String) (vs : Vals), Py.lookup k ks vs = Py.lookupP k (Py.pairs ks vs)
  | [], _ => by simp only [Py.lookup, Py.pairs, Py.lookupP]
  | _ :: _, .nil => by simp only [Py.lookup, Py.pairs, Py.lookupP]
  | k' :: ks, .cons v vs => by
    simp only [Py.lookup, Py.pairs, Py.lookupP, lookup_pairs k ks vs]

theorem pairs_keys : ∀ (ks : List String) (vs : Vals), ks.length = vs.length → (Py.pairs ks vs).map Prod.fst = ks
  | [], .nil, _ => rfl
  | [], .cons _ _, h => by simp [Vals.length] at h
  | _ :: _, .nil, h => by simp [Vals.length] at h
  | k :: ks, .cons v vs, h => by
    have hl : ks.length = vs.length := by simpa [Vals.length] using h
    simp only [Py.pairs, List.map_cons, pairs_keys ks vs hl]

/-- **lookup does not depend on the insertion order** (keys of a dict are distinct) -/
theorem lookupP_perm (k : String) {l1 l2 : List (String × Val)} (hp : l1.Perm l2) :
    (l1.map Prod.fst).Nodup → Py.lookupP k l1 = Py.lookupP k l2 := by
  induction hp with
  | nil => intro _; rfl
  | cons x _ ih =>
    intro hnd
    simp only [List.map_cons, List.nodup_cons] at hnd
    simp only [Py.lookupP, ih hnd.2]
  | swap x y l =>
    intro hnd
    simp only [List.map_cons, List.nodup_cons, List.mem_cons, not_or] at hnd
    have hne : y.1 ≠ x.1 := hnd.1.1
    simp only [Py.lookupP]
    by_cases h1 : k = y.1
    · have h2 : ¬ k = x.1 := fun e => hne (h1.symm.trans e)
      simp only [h1, if_true]
      rw [if_neg (fun e => hne e)]
    · simp only [if_neg h1]
  | trans h12 _ ih1 ih2 =>
    intro hnd
    have hnd2 := (h12.map Prod.fst).nodup hnd
    rw [ih1 hnd, ih2 hnd2]

/-- `compare_vals(val1[k], val2[k]) for k in val1.keys()` as one `all` over the entries of the first dict -/
theorem compareDict_all (close : Int → Int → Bool) : ∀ (k1 : List String) (v1 : Vals) (k2 : List String) (v2 : Vals),
    Sf.compareDict close k1 v1 k2 v2 =
      (Py.pairs k1 v1).all (fun p => match Py.lookupP p.1 (Py.pairs k2 v2) with
        | some w => Sf.compareVals close p.2 w
        | none => false)
  | [], _, _, _ => by simp only [Sf.compareDict, Py.pairs, List.all_nil]
  | _ :: _, .nil, _, _ => by simp only [Sf.compareDict, Py.pairs, List.all_nil]
  | k :: ks, .cons v vs, k2, v2 => by
    simp only [Sf.compareDict, Py.pairs, List.all_cons, compareDict_all close ks vs k2 v2, lookup_pairs]
    cases Py.lookupP k (Py.pairs k2 v2) <;> rfl

theorem all_perm {α : Type} (f : α → Bool) {l1 l2 : List α} (hp : l1.Perm l2) : l1.all f = l2.all f := by
  induction hp with
  | nil => rfl
  | cons x _ ih => simp only [List.all_cons, ih]
  | swap x y l => simp only [List.all_cons]; cases f x <;> cases f y <;> rfl
  | trans _ _ ih1 ih2 => rw [ih1, ih2]

theorem all_contains_perm {ka ka' kb kb' : List String} (ha : ka.Perm ka') (hb : kb.Perm kb') :
    ka.all kb.contains = ka'.all kb'.contains := by
  rw [all_perm _ ha]
  apply List.all_congr rfl
  intro x
  exact hb.contains_eq

/-! positions -/

theorem get?_lt : ∀ (vs : Vals) (k : Nat), k < vs.length → ∃ v, vs.get? k = some v
  | .nil, _, h => by simp [Vals.length] at h
  | .cons v _, 0, _ => ⟨v, rfl⟩
  | .cons _ vs, k + 1, h => by
    have : k < vs.length := by simp only [Vals.length] at h; omega
    simpa only [Vals.get?] using get?_lt vs k this

/-- `item in fields` → `fields.index(item)` is a position inside the list -/
theorem indexOf_of_contains (item : Val) : ∀ (fs : Vals) (n : Nat), Py.contains item fs = true →
    ∃ k, Py.indexOf item fs n = some k ∧ k < n + fs.length
  | .nil, _, h => by simp [Py.contains] at h
  | .cons v vs, n, h => by
    simp only [Py.contains, Bool.or_eq_true] at h
    by_cases hv : Py.eq v item = true
    · exact ⟨n, by simp only [Py.indexOf, hv, if_true], by simp only [Vals.length]; omega⟩
    · have hc : Py.contains item vs = true := by
        cases h with
        | inl h => exact absurd h hv
        | inr h => exact h
      obtain ⟨k, hk, hlt⟩ := indexOf_of_contains item vs (n + 1) hc
      refine ⟨k, ?_, by simp only [Vals.length]; omega⟩
      simp only [Py.indexOf, hv, hk]
      simp

theorem indexOf_ge (item : Val) : ∀ (fs : Vals) (n k : Nat), Py.indexOf item fs n = some k → n ≤ k
  | .nil, _, _, h => by simp [Py.indexOf] at h
  | .cons v vs, n, k, h => by
    simp only [Py.indexOf] at h
    by_cases hv : Py.eq v item = true
    · simp only [hv, if_true, Option.some.injEq] at h; omega
    · simp only [hv] at h
      have := indexOf_ge item vs (n + 1) k (by simpa using h)
      omega

end Sqlframe.C19
