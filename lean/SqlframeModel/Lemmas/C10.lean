/-
Lemmas/C10.lean — the invariant that ties the display-name map to PySpark's spelling list, and its
preservation by every naming step.
-/
import SqlframeModel.Impl.C10Names
namespace Sqlframe.C10
open Gen

/-- the model frame `d` shows exactly the spellings `sp` -/
def R (F : NameFns) (d : NDF) (sp : List String) : Prop :=
  d.cols = sp.map F.low ∧ (sp.map F.low).Nodup ∧ ∀ s ∈ sp, Has F d s

theorem lookup_append_some {k : String} {v : String} {l₁ l₂ : List (String × String)}
    (h : l₁.lookup k = some v) : (l₁ ++ l₂).lookup k = some v := by
  induction l₁ with
  | nil => simp at h
  | cons e rest ih =>
    obtain ⟨a, b⟩ := e
    by_cases hk : k = a
    · subst hk; simp at h ⊢; exact h
    · have : (k == a) = false := beq_false_of_ne hk
      simp [List.lookup_cons, this] at h ⊢
      exact ih h

theorem lookup_append_none {k : String} {l₁ l₂ : List (String × String)}
    (h : l₁.lookup k = none) : (l₁ ++ l₂).lookup k = l₂.lookup k := by
  induction l₁ with
  | nil => simp
  | cons e rest ih =>
    obtain ⟨a, b⟩ := e
    by_cases hk : k = a
    · subst hk; simp [List.lookup_cons] at h
    · have : (k == a) = false := beq_false_of_ne hk
      simp only [List.lookup_cons, this, List.cons_append] at h ⊢
      exact ih h

/-- entries written for names none of which normalises to `low s` leave `s`'s entry alone -/
theorem lookup_entries_other (F : NameFns) (L : NameLaws F) (ns : List String) (s : String)
    (h : ∀ n ∈ ns, F.low n ≠ F.low s) : (ns.map (entry F)).lookup (F.key (F.low s)) = none := by
  induction ns with
  | nil => simp
  | cons n rest ih =>
    have hn : F.low n ≠ F.low s := h n (by simp)
    have hk : F.key (F.low s) ≠ F.key (F.low n) := fun e => hn (L.key_inj _ _ e).symm
    have : (F.key (F.low s) == F.key (F.low n)) = false := beq_false_of_ne hk
    simp only [List.map_cons, entry, List.lookup_cons, this]
    exact ih (fun x hx => h x (by simp [hx]))

/-- entries written for a list of names distinct up to normalisation: each name finds its own spelling -/
theorem lookup_entries_self (F : NameFns) (L : NameLaws F) (ns : List String) (hnd : (ns.map F.low).Nodup)
    (n : String) (hn : n ∈ ns) : (ns.map (entry F)).lookup (F.key (F.low n)) = some n := by
  induction ns with
  | nil => simp at hn
  | cons m rest ih =>
    have hnd' : (rest.map F.low).Nodup := (List.nodup_cons.mp (by simpa using hnd)).2
    have hm : F.low m ∉ rest.map F.low := (List.nodup_cons.mp (by simpa using hnd)).1
    rcases List.mem_cons.mp hn with e | hr
    · subst e; simp [entry]
    · have hne : F.low n ≠ F.low m := fun e => hm (e ▸ List.mem_map_of_mem hr)
      have hk : F.key (F.low n) ≠ F.key (F.low m) := fun e => hne (L.key_inj _ _ e)
      have : (F.key (F.low n) == F.key (F.low m)) = false := beq_false_of_ne hk
      simp only [List.map_cons, entry, List.lookup_cons, this]
      exact ih hnd' hr

theorem has_of_entries (F : NameFns) (L : NameLaws F) (ns : List String) (old : List (String × String))
    (hnd : (ns.map F.low).Nodup) (n : String) (hn : n ∈ ns) :
    (ns.map (entry F) ++ old).lookup (F.key (F.low n)) = some n :=
  lookup_append_some (lookup_entries_self F L ns hnd n hn)

theorem itemEntries_eq (F : NameFns) (items : List Item) :
    itemEntries F items = (items.map Item.spelling).map (entry F) := by
  have h1 : colSetsDisplay = true := by decide
  have h2 : aliasSetsDisplay = true := by decide
  induction items with
  | nil => rfl
  | cons it rest ih =>
    cases it <;> simp [itemEntries, Item.display, Item.spelling, entry, h1, h2] at ih ⊢ <;> exact ih

theorem columns_of_R (F : NameFns) (d : NDF) (sp : List String) (h : R F d sp) :
    columns F d = sp := by
  obtain ⟨hc, _, hh⟩ := h
  unfold columns
  rw [hc, List.map_map]
  have : ∀ s ∈ sp, ((fun c => (d.disp.lookup (F.key c)).getD c) ∘ F.low) s = s := by
    intro s hs
    have := hh s hs
    unfold Has at this
    simp [this]
  calc sp.map ((fun c => (d.disp.lookup (F.key c)).getD c) ∘ F.low) = sp.map id :=
        List.map_congr_left this
    _ = sp := by simp

theorem pandas_of_R (F : NameFns) (d : NDF) (sp : List String) (h : R F d sp) :
    pandas F d = sp := by
  obtain ⟨hc, _, hh⟩ := h
  unfold pandas
  rw [hc, List.map_map]
  have : ∀ s ∈ sp, ((fun c => match d.disp.lookup (F.key c) with | some s => s | none => F.low c) ∘ F.low) s = s := by
    intro s hs
    have := hh s hs
    unfold Has at this
    simp [this]
  calc _ = sp.map id := List.map_congr_left this
    _ = sp := by simp

theorem fields_of_R (F : NameFns) (d : NDF) (sp : List String) (h : R F d sp) (hb : H_collectReparse F sp) :
    fields F d = sp := by
  obtain ⟨hc, _, hh⟩ := h
  unfold fields
  rw [hc, List.map_map]
  have : ∀ s ∈ sp, ((fun c => match d.disp.lookup (F.key c) with
      | some s => if collectParsesNames then F.back s else s
      | none => if collectParsesNames then F.back (F.low c) else F.low c) ∘ F.low) s = s := by
    intro s hs
    have := hh s hs
    unfold Has at this
    rcases hb with hb | hb
    · simp [this, hb]
    · simp [this, hb s hs]
  calc _ = sp.map id := List.map_congr_left this
    _ = sp := by simp

theorem schema_of_R (F : NameFns) (L : NameLaws F) (d : NDF) (sp : List String) (h : R F d sp)
    (hq : H_quoteAgree F sp) : schemaNames F d = sp := by
  obtain ⟨hc, _, hh⟩ := h
  unfold schemaNames
  rw [hc, List.map_map]
  have : ∀ s ∈ sp, ((fun c => (d.disp.lookup (F.typed (F.low c))).getD (F.typed (F.low c))) ∘ F.low) s = s := by
    intro s hs
    have h1 := hh s hs
    unfold Has at h1
    have h2 := hq s hs
    simp [L.low_idem, h2, h1]
  calc _ = sp.map id := List.map_congr_left this
    _ = sp := by simp

theorem create_R (F : NameFns) (L : NameLaws F) (names : List String) (hnd : (names.map F.low).Nodup) :
    R F (create F names) names := by
  have hc : createRecordsDisplay = true := by decide
  refine ⟨by simp [create], hnd, ?_⟩
  intro s hs
  unfold Has create
  simp only [hc, if_true]
  exact lookup_entries_self F L names hnd s hs

end Sqlframe.C10
