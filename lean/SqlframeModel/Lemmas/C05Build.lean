/-
Lemmas/C05Build.lean — inside the scope hypotheses the built tree is well-parenthesised, hence the
engine evaluates exactly the user's expression.
-/
import SqlframeModel.Lemmas.C05Scope
namespace Sqlframe.C05
open Sqlframe

/-! ### folding a repaired-flag into the per-node predicate -/

theorem allNodes_true (e : PyExpr) : allNodes (fun _ => true) e = true := by
  induction e <;> simp_all [allNodes]

theorem allNodes_or (f : Bool) (p : PyExpr → Bool) (e : PyExpr) :
    (f || allNodes p e) = allNodes (fun n => f || p n) e := by
  cases f
  · simp
  · simp [allNodes_true]

/-! ### operands -/

theorem level_wrapOperand_ge (cfg : Cfg) (p : String) (t : SqlExpr) : level t ≤ level (wrapOperand cfg p t) := by
  unfold wrapOperand
  split
  · exact level_wrapUnder_ge cfg p t
  · exact Nat.le_refl _

theorem wellParen_wrapOperand (cfg : Cfg) (p : String) (t : SqlExpr) : wellParen (wrapOperand cfg p t) = wellParen t := by
  unfold wrapOperand
  split
  · exact wellParen_wrapUnder cfg p t
  · rfl

theorem wellParen_subject (cfg : Cfg) (m : Gen.DirectOp) (p : String) (t : SqlExpr) :
    wellParen (subject cfg m p t) = wellParen t := by
  unfold subject
  split
  · exact wellParen_wrapUnder cfg p t
  · rfl

theorem level_subject_ge (cfg : Cfg) (m : Gen.DirectOp) (p : String) (t : SqlExpr) : level t ≤ level (subject cfg m p t) := by
  unfold subject
  split
  · exact level_wrapUnder_ge cfg p t
  · exact Nat.le_refl _

/-- an operand of a non-connective `binary_op` node is an atom or unary minus: because the repaired
    helper parenthesises it, or because the user-level hypothesis says it is atomic -/
theorem level_operand (cfg : Cfg) (ht : tableOK cfg = true) (hp : parenOK cfg = true) (p : String)
    (hpc : isA p "Connector" = false) (e : PyExpr) (h : fixCmp cfg = true ∨ atomicP cfg e = true) :
    10 ≤ level (wrapOperand cfg p (opnd cfg e)) := by
  rcases h with h | h
  · simp only [fixCmp, Bool.and_eq_true] at h
    rcases opnd_atom_or_class cfg ht hp e with h10 | hc
    · exact Nat.le_trans h10 (level_wrapOperand_ge cfg p _)
    · simp [wrapOperand, h.1, level_wrapUnder_atom cfg h.2 p hpc _ hc, atomLevel]
  · exact Nat.le_trans (level_atomicP cfg ht hp e h) (level_wrapOperand_ge cfg p _)

/-- the same for the subject of a predicate method -/
theorem level_subject (cfg : Cfg) (ht : tableOK cfg = true) (hp : parenOK cfg = true) (m : Gen.DirectOp) (p : String)
    (hpc : isA p "Connector" = false) (e : PyExpr)
    (h : (m.subjectWrap = true ∧ wrapOK cfg = true) ∨ atomicP cfg e = true) :
    10 ≤ level (subject cfg m p (opnd cfg e)) := by
  rcases h with h | h
  · rcases opnd_atom_or_class cfg ht hp e with h10 | hc
    · exact Nat.le_trans h10 (level_subject_ge cfg m p _)
    · simp [subject, h.1, level_wrapUnder_atom cfg h.2 p hpc _ hc, atomLevel]
  · exact Nat.le_trans (level_atomicP cfg ht hp e h) (level_subject_ge cfg m p _)

theorem level_lit_operand (cfg : Cfg) (p : String) (v : LitNode) : 10 ≤ level (wrapOperand cfg p (.lit v)) :=
  Nat.le_trans (by simp [level, atomLevel]) (level_wrapOperand_ge cfg p (.lit v))

theorem wellParen_applyBin (cfg : Cfg) (o : Gen.ColOp) (s t : SqlExpr)
    (hs : wellParen s = true) (ht : wellParen t = true) (hk : 0 < infixLevel o.klass)
    (h1 : infixLevel o.klass < level (wrapOperand cfg o.klass s))
    (h2 : infixLevel o.klass < level (wrapOperand cfg o.klass t)) :
    wellParen (applyBin cfg o s t) = true := by
  cases hp : o.paren <;> cases hsf : o.selfFirst <;>
    simp [applyBin, hp, hsf, wellParen, wellParen_wrapOperand, hs, ht, hk, h1, h2] <;>
    exact Or.inr (by omega)

theorem notAlias_build (cfg : Cfg) (e : PyExpr) (h : notAlias cfg e = true) : unaliasS (build cfg e) = build cfg e := by
  cases e with
  | lit v =>
    simp only [notAlias, Bool.not_eq_true'] at h
    simp [build, fnExpr, h, unaliasS]
  | raw s v =>
    simp only [notAlias, Bool.not_eq_true', Bool.and_eq_false_iff] at h
    simp only [build]
    cases hk : cfg.coerce s
    · simp [litExpr, unaliasS]
    · simp [litExpr, unaliasS]
    · rcases h with h | h
      · simp [hk] at h
      · simp [litExpr, fnExpr, h, unaliasS]
  | _ => first
    | rfl
    | (simp only [build]; exact unaliasS_applyBin _ _ _ _)
    | (simp only [build]; exact unaliasS_mkCast _ _)
    | (simp [notAlias] at h)

/-- **scope**: with every per-node hypothesis holding (repaired flag, or pattern avoided at that node),
    the operand form of the built tree is well-parenthesised -/
theorem build_wellParen (cfg : Cfg) (ht : tableOK cfg = true) (hp : parenOK cfg = true) : ∀ e : PyExpr,
    allNodes (fun n => fixCmp cfg || cmpAt cfg n) e = true →
    allNodes (fun n => fixSubj cfg || subjAt cfg n) e = true →
    allNodes (fun n => fixRefl cfg || reflAt n) e = true →
    allNodes (fun n => fixBound cfg || boundAt cfg n) e = true →
    wellParen (opnd cfg e) = true := by
  intro e
  obtain ⟨hneg, hinv, hens, _, hlike, _⟩ := tableOK_misc ht
  have hun := parenOK_unary hp
  induction e with
  | col n => intros; rfl
  | lit v => intros; simp [opnd, build, unaliasS_fnExpr, wellParen]
  | raw s v => intros; simp [opnd, build, unaliasS_litExpr, wellParen]
  | arith op a b iha ihb =>
    intro h1 h2 h3 h4
    simp only [allNodes, Bool.and_eq_true, Bool.or_eq_true, cmpAt] at h1 h2 h3 h4
    obtain ⟨hk, _, _, _⟩ := tableOK_arith ht op
    have hlv := infixLevel_arith op
    have hle := infixLevel_le (arithKlass op)
    have ha := level_operand cfg ht hp (arithKlass op) (isA_arith_conn op) a (h1.1.1.imp id (·.1))
    have hb := level_operand cfg ht hp (arithKlass op) (isA_arith_conn op) b (h1.1.1.imp id (·.2))
    simp only [opnd] at *
    simp only [build, unaliasS_applyBin]
    apply wellParen_applyBin
    · exact iha h1.1.2 h2.1.2 h3.1.2 h4.1.2
    · exact ihb h1.2 h2.2 h3.2 h4.2
    · rw [hk]; omega
    · rw [hk]; omega
    · rw [hk]; omega
  | arithL op v b ihb =>
    intro h1 h2 h3 h4
    simp only [allNodes, Bool.and_eq_true, Bool.or_eq_true, cmpAt] at h1 h2 h3 h4
    obtain ⟨_, _, hk, _⟩ := tableOK_arith ht op
    have hlv := infixLevel_arith op
    have hle := infixLevel_le (arithKlass op)
    have hb := level_operand cfg ht hp (arithKlass op) (isA_arith_conn op) b h1.1
    have hv := level_lit_operand cfg (arithKlass op) (coerceNode cfg.lit cfg.coInverse v)
    simp only [opnd] at *
    simp only [build, unaliasS_applyBin]
    apply wellParen_applyBin
    · exact ihb h1.2 h2.2 h3.2 h4.2
    · rfl
    · rw [hk]; omega
    · rw [hk]; omega
    · rw [hk]; omega
  | cmp op a b iha ihb =>
    intro h1 h2 h3 h4
    simp only [allNodes, Bool.and_eq_true, Bool.or_eq_true, cmpAt] at h1 h2 h3 h4
    obtain ⟨hk, _⟩ := tableOK_cmp ht op
    have hlv := infixLevel_cmp op
    have ha := level_operand cfg ht hp (cmpKlass op) (isA_cmp_conn op) a (h1.1.1.imp id (·.1))
    have hb := level_operand cfg ht hp (cmpKlass op) (isA_cmp_conn op) b (h1.1.1.imp id (·.2))
    simp only [opnd] at *
    simp only [build, unaliasS_applyBin]
    apply wellParen_applyBin
    · exact iha h1.1.2 h2.1.2 h3.1.2 h4.1.2
    · exact ihb h1.2 h2.2 h3.2 h4.2
    · rw [hk]; omega
    · rw [hk]; omega
    · rw [hk]; omega
  | cmpL op v b ihb =>
    intro h1 h2 h3 h4
    simp only [allNodes, Bool.and_eq_true, Bool.or_eq_true, cmpAt] at h1 h2 h3 h4
    obtain ⟨hk, _⟩ := tableOK_cmp ht op.swap
    have hlv := infixLevel_cmp op.swap
    have hb := level_operand cfg ht hp (cmpKlass op.swap) (isA_cmp_conn op.swap) b h1.1
    have hv := level_lit_operand cfg (cmpKlass op.swap) (coerceNode cfg.lit cfg.coBinary v)
    simp only [opnd] at *
    simp only [build, unaliasS_applyBin]
    apply wellParen_applyBin
    · exact ihb h1.2 h2.2 h3.2 h4.2
    · rfl
    · rw [hk]; omega
    · rw [hk]; omega
    · rw [hk]; omega
  | logic op a b iha ihb =>
    intro h1 h2 h3 h4
    simp only [allNodes, Bool.and_eq_true, Bool.or_eq_true, reflAt] at h1 h2 h3 h4
    obtain ⟨hk, _, _, _⟩ := tableOK_logic ht op
    have hlv := infixLevel_logic op
    have ha := Nat.le_trans (level_ge3 cfg ht hp a (h3.1.1.imp id (·.1))) (level_wrapOperand_ge cfg (logicKlass op) _)
    have hb := Nat.le_trans (level_ge3 cfg ht hp b (h3.1.1.imp id (·.2))) (level_wrapOperand_ge cfg (logicKlass op) _)
    simp only [opnd] at *
    simp only [build, unaliasS_applyBin]
    apply wellParen_applyBin
    · exact iha h1.1.2 h2.1.2 h3.1.2 h4.1.2
    · exact ihb h1.2 h2.2 h3.2 h4.2
    · rw [hk]; omega
    · rw [hk]; omega
    · rw [hk]; omega
  | logicL op v b ihb =>
    intro h1 h2 h3 h4
    simp only [allNodes, Bool.and_eq_true, Bool.or_eq_true, reflAt] at h1 h2 h3 h4
    obtain ⟨_, _, hk, _⟩ := tableOK_logic ht op
    have hlv := infixLevel_logic op
    have hb := Nat.le_trans (level_ge3 cfg ht hp b h3.1) (level_wrapOperand_ge cfg (logicKlass op) _)
    have hv := level_lit_operand cfg (logicKlass op) (coerceNode cfg.lit cfg.coInverse v)
    simp only [opnd] at *
    simp only [build, unaliasS_applyBin]
    apply wellParen_applyBin
    · exact ihb h1.2 h2.2 h3.2 h4.2
    · rfl
    · rw [hk]; omega
    · rw [hk]; omega
    · rw [hk]; omega
  | neg a iha =>
    intro h1 h2 h3 h4
    simp only [allNodes, Bool.and_eq_true] at h1 h2 h3 h4
    have := iha h1.2 h2.2 h3.2 h4.2
    have h10 : prefixLevel "Neg" = 10 := rfl
    simp only [opnd] at *
    simp only [build, applyUn, hun, if_true, unaliasS_un, wellParen, hneg, h10, level, atomLevel, this]
    decide
  | not a iha =>
    intro h1 h2 h3 h4
    simp only [allNodes, Bool.and_eq_true] at h1 h2 h3 h4
    have := iha h1.2 h2.2 h3.2 h4.2
    have h3' : prefixLevel "Not" = 3 := rfl
    simp only [opnd] at *
    simp only [build, applyUn, hun, if_true, unaliasS_un, wellParen, hinv, h3', level, atomLevel, this]
    decide
  | isNull a iha =>
    intro h1 h2 h3 h4
    simp only [allNodes, Bool.and_eq_true, Bool.or_eq_true, subjAt] at h1 h2 h3 h4
    have hs := level_subject cfg ht hp cfg.isNull "Is" (by decide) a
      (h2.1.imp (fun h => by simp only [fixSubj, Bool.and_eq_true] at h; exact ⟨h.1.1.1.1.1.1, h.2⟩) id)
    have := iha h1.2 h2.2 h3.2 h4.2
    simp only [opnd] at *
    simp only [build, unaliasS_isNull, wellParen, wellParen_subject, Bool.and_eq_true, isNullLevel]
    exact ⟨this, decide_eq_true (by omega)⟩
  | isNotNull a iha =>
    intro h1 h2 h3 h4
    simp only [allNodes, Bool.and_eq_true, Bool.or_eq_true, subjAt] at h1 h2 h3 h4
    have hs := level_subject cfg ht hp cfg.isNotNull "Is" (by decide) a
      (h2.1.imp (fun h => by simp only [fixSubj, Bool.and_eq_true] at h; exact ⟨h.1.1.1.1.1.2, h.2⟩) id)
    have := iha h1.2 h2.2 h3.2 h4.2
    have h3' : prefixLevel "Not" = 3 := rfl
    have h4' : ∀ x : SqlExpr, level (.isNull x) = 4 := fun _ => rfl
    simp only [opnd] at *
    simp only [build, unaliasS_un, wellParen, wellParen_subject, Bool.and_eq_true, isNullLevel,
      h3', h4']
    exact ⟨⟨⟨this, decide_eq_true (by omega)⟩, decide_eq_true (by omega)⟩, decide_eq_true (by omega)⟩
  | eqNullSafe a b iha ihb =>
    intro h1 h2 h3 h4
    simp only [allNodes, Bool.and_eq_true, Bool.or_eq_true, cmpAt] at h1 h2 h3 h4
    have hlv : infixLevel "NullSafeEQ" = 4 := rfl
    have ha := level_operand cfg ht hp "NullSafeEQ" (by decide) a (h1.1.1.imp id (·.1))
    have hb := level_operand cfg ht hp "NullSafeEQ" (by decide) b (h1.1.1.imp id (·.2))
    simp only [opnd] at *
    simp only [build, unaliasS_applyBin]
    apply wellParen_applyBin
    · exact iha h1.1.2 h2.1.2 h3.1.2 h4.1.2
    · exact ihb h1.2 h2.2 h3.2 h4.2
    · rw [hens]; omega
    · rw [hens]; omega
    · rw [hens]; omega
  | isin a vs iha =>
    intro h1 h2 h3 h4
    simp only [allNodes, Bool.and_eq_true, Bool.or_eq_true, subjAt] at h1 h2 h3 h4
    have hs := level_subject cfg ht hp cfg.isin "In" (by decide) a
      (h2.1.imp (fun h => by simp only [fixSubj, Bool.and_eq_true] at h; exact ⟨h.1.1.1.1.2, h.2⟩) id)
    have := iha h1.2 h2.2 h3.2 h4.2
    simp only [opnd] at *
    simp only [build, unaliasS_inList, wellParen, wellParen_subject, Bool.and_eq_true, inLevel]
    exact ⟨this, decide_eq_true (by omega)⟩
  | between a lo hi iha ihlo ihhi =>
    intro h1 h2 h3 h4
    simp only [allNodes, Bool.and_eq_true, Bool.or_eq_true, subjAt, boundAt] at h1 h2 h3 h4
    have hs := level_subject cfg ht hp cfg.between "Between" (by decide) a
      (h2.1.1.1.imp (fun h => by simp only [fixSubj, Bool.and_eq_true] at h; exact ⟨h.1.1.1.2, h.2⟩) (·.1.1))
    have hwa := iha h1.1.1.2 h2.1.1.2 h3.1.1.2 h4.1.1.2
    have hwlo := ihlo h1.1.2 h2.1.2 h3.1.2 h4.1.2
    have hwhi := ihhi h1.2 h2.2 h3.2 h4.2
    -- a bound: un-aliased by the method, or not an alias to begin with
    have hbound : ∀ x : PyExpr, wellParen (opnd cfg x) = true →
        (fixBound cfg = true ∨ notAlias cfg x = true) →
        ((fixSubj cfg = true) ∨ atomicP cfg x = true) →
        wellParen (bound cfg (build cfg x)) = true ∧ 10 ≤ level (bound cfg (build cfg x))
          ∧ bExpr (bound cfg (build cfg x)) = true := by
      intro x hwx hal hat
      have hu : (if cfg.betweenBoundsUnalias then unaliasS (build cfg x) else build cfg x) = opnd cfg x := by
        rcases hal with h | h
        · simp only [fixBound] at h; simp [h, opnd]
        · cases cfg.betweenBoundsUnalias <;> simp [opnd, notAlias_build cfg x h]
      have hlev : 10 ≤ level (if cfg.betweenBoundsWrap then wrapUnder cfg "Between" (opnd cfg x) else opnd cfg x) := by
        rcases hat with h | h
        · simp only [fixSubj, Bool.and_eq_true] at h
          rcases opnd_atom_or_class cfg ht hp x with h10 | hc
          · split
            · exact Nat.le_trans h10 (level_wrapUnder_ge cfg _ _)
            · exact h10
          · simp [h.1.2, level_wrapUnder_atom cfg h.2 "Between" (by decide) _ hc, atomLevel]
        · have h10 := level_atomicP cfg ht hp x h
          split
          · exact Nat.le_trans h10 (level_wrapUnder_ge cfg _ _)
          · exact h10
      have hbe : bExpr (if cfg.betweenBoundsWrap then wrapUnder cfg "Between" (opnd cfg x) else opnd cfg x) = true := by
        rcases hat with h | h
        · simp only [fixSubj, Bool.and_eq_true] at h
          rcases opnd_atom_or_class cfg ht hp x with h10 | hc
          · split
            · exact bExpr_wrapUnder cfg _ _ (bExpr_opnd cfg ht hp x h10)
            · exact bExpr_opnd cfg ht hp x h10
          · have hs : cfg.skipParents.any (isA "Between") = false := by
              have hw := h.2
              simp only [wrapOK, Bool.and_eq_true, beq_iff_eq] at hw
              rw [hw.1.1.1]; decide
            have hany : cfg.wrapClasses.any (isA (rootClass (opnd cfg x))) = true := by
              have hw := h.2
              simp only [wrapOK, Bool.and_eq_true, beq_iff_eq, List.contains_iff_mem] at hw
              rw [List.any_eq_true]
              rcases hc with h' | h' | h'
              · exact ⟨_, hw.1.1.2, h'⟩
              · exact ⟨_, hw.1.2, h'⟩
              · exact ⟨_, hw.2, h'⟩
            simp [h.1.2, wrapUnder, hs, hany, bExpr]
        · have h10 := level_atomicP cfg ht hp x h
          split
          · exact bExpr_wrapUnder cfg _ _ (bExpr_opnd cfg ht hp x h10)
          · exact bExpr_opnd cfg ht hp x h10
      simp only [bound, hu]
      refine ⟨?_, hlev, hbe⟩
      split
      · simpa [wellParen_wrapUnder] using hwx
      · exact hwx
    obtain ⟨hblo, _, hbelo⟩ := hbound lo hwlo (h4.1.1.1.imp id (·.1)) (h2.1.1.1.imp id (·.1.2))
    obtain ⟨hbhi, hlhi, _⟩ := hbound hi hwhi (h4.1.1.1.imp id (·.2)) (h2.1.1.1.imp id (·.2))
    simp only [opnd] at *
    simp only [build, unaliasS_between, wellParen, wellParen_subject, Bool.and_eq_true, betweenLevel]
    exact ⟨⟨⟨⟨⟨hwa, hblo⟩, hbhi⟩, decide_eq_true (by omega)⟩, decide_eq_true (by omega)⟩, hbelo⟩
  | like a p iha =>
    intro h1 h2 h3 h4
    simp only [allNodes, Bool.and_eq_true, Bool.or_eq_true, subjAt] at h1 h2 h3 h4
    have hs := level_subject cfg ht hp cfg.like "Like" (by decide) a
      (h2.1.imp (fun h => by simp only [fixSubj, Bool.and_eq_true] at h; exact ⟨h.1.1.2, h.2⟩) id)
    have := iha h1.2 h2.2 h3.2 h4.2
    have h6 : infixLevel "Like" = 6 := rfl
    have hla : leftAssocLevel 6 = false := rfl
    have hlit : ∀ l : LitNode, level (SqlExpr.lit l) = 100 := fun _ => rfl
    have hwl : ∀ l : LitNode, wellParen (SqlExpr.lit l) = true := fun _ => rfl
    simp only [opnd] at *
    simp only [build, hlike, unaliasS_bin, wellParen_subject, wellParen, h6, hla, hlit, Bool.and_eq_true, decide_eq_true_eq]
    simp [this]
    omega
  | strFn f a b iha ihb =>
    intro h1 h2 h3 h4
    simp only [allNodes, Bool.and_eq_true] at h1 h2 h3 h4
    have ha := iha h1.1.2 h2.1.2 h3.1.2 h4.1.2
    have hb := ihb h1.2 h2.2 h3.2 h4.2
    simp only [opnd] at *
    simp only [build, unaliasS_fn2, wellParen, ha, hb, Bool.and_self]
  | substr a s l iha ihs ihl =>
    intro h1 h2 h3 h4
    simp only [allNodes, Bool.and_eq_true] at h1 h2 h3 h4
    have ha := iha h1.1.1.2 h2.1.1.2 h3.1.1.2 h4.1.1.2
    have hs := ihs h1.1.2 h2.1.2 h3.1.2 h4.1.2
    have hl := ihl h1.2 h2.2 h3.2 h4.2
    simp only [opnd] at *
    simp only [build, unaliasS_fn3, wellParen, ha, hs, hl, Bool.and_self]
  | when c v r ihc ihv ihr =>
    intro h1 h2 h3 h4
    simp only [allNodes, Bool.and_eq_true] at h1 h2 h3 h4
    have hc := ihc h1.1.1.2 h2.1.1.2 h3.1.1.2 h4.1.1.2
    have hv := ihv h1.1.2 h2.1.2 h3.1.2 h4.1.2
    have hr := ihr h1.2 h2.2 h3.2 h4.2
    simp only [opnd] at *
    simp only [build, unaliasS_alias, wellParen, hc, hv, hr, Bool.and_self]
  | noElse => intros; rfl
  | otherwise d ihd =>
    intro h1 h2 h3 h4
    simp only [allNodes, Bool.and_eq_true] at h1 h2 h3 h4
    have hd := ihd h1.2 h2.2 h3.2 h4.2
    simp only [opnd] at *
    simp only [build, unaliasS_caseElse, wellParen, hd]
  | cast a ty iha =>
    intro h1 h2 h3 h4
    simp only [allNodes, Bool.and_eq_true] at h1 h2 h3 h4
    have ha := iha h1.2 h2.2 h3.2 h4.2
    simp only [opnd] at *
    simp only [build, unaliasS_mkCast, wellParen_mkCast, ha]
  | alias a n iha =>
    intro h1 h2 h3 h4
    simp only [allNodes, Bool.and_eq_true] at h1 h2 h3 h4
    have ha := iha h1.2 h2.2 h3.2 h4.2
    simp only [opnd] at *
    simp only [build, unaliasS_alias]
    exact ha

end Sqlframe.C05
