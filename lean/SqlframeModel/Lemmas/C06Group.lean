/-
Lemmas/C06Group.lean — hash aggregation (`groupR`) produces one group per distinct key tuple, holding
exactly the rows with that key; a SELECT block with GROUP BY therefore evaluates to the specification.
-/
import SqlframeModel.Impl.C06Group
namespace Sqlframe
open Gen

theorem mem_distinctL (k : List Val) : ∀ l : List (List Val), k ∈ distinctL l ↔ k ∈ l
  | [] => by simp [distinctL]
  | x :: xs => by
    simp only [distinctL]
    by_cases hx : x ∈ xs
    · rw [if_pos hx, mem_distinctL k xs, List.mem_cons]
      constructor
      · exact Or.inr
      · rintro (e | h)
        · exact e ▸ hx
        · exact h
    · rw [if_neg hx, List.mem_cons, List.mem_cons, mem_distinctL k xs]

theorem distinctL_nodup : ∀ l : List (List Val), (distinctL l).Nodup
  | [] => by simp [distinctL]
  | x :: xs => by
    simp only [distinctL]
    by_cases hx : x ∈ xs
    · rw [if_pos hx]; exact distinctL_nodup xs
    · rw [if_neg hx, List.nodup_cons]
      exact ⟨fun h => hx ((mem_distinctL x xs).mp h), distinctL_nodup xs⟩

/-- **grouping**: one group per distinct key tuple (NULLs are key values like any other), each holding
    exactly the rows with that key, in input order -/
theorem groupR_spec (keyOf : Row → List Val) : ∀ rows : List Row,
    groupR keyOf rows = (distinctL (rows.map keyOf)).map (fun k => (k, rows.filter (fun r => keyOf r = k)))
  | [] => rfl
  | r :: rs => by
    have ih := groupR_spec keyOf rs
    have hany : (groupR keyOf rs).any (fun p => p.1 = keyOf r) = true ↔ keyOf r ∈ rs.map keyOf := by
      rw [ih, List.any_eq_true]
      constructor
      · rintro ⟨p, hp, he⟩
        obtain ⟨k, hk, rfl⟩ := List.mem_map.mp hp
        have : k = keyOf r := by simpa using he
        exact this ▸ (mem_distinctL k _).mp hk
      · intro h
        exact ⟨(keyOf r, rs.filter (fun r' => keyOf r' = keyOf r)),
          List.mem_map.mpr ⟨keyOf r, (mem_distinctL _ _).mpr h, rfl⟩, by simp⟩
    simp only [groupR, List.map_cons, distinctL]
    by_cases hm : keyOf r ∈ rs.map keyOf
    · rw [if_pos (hany.mpr hm), if_pos hm, ih, List.map_map]
      apply List.map_congr_left
      intro k _
      simp only [Function.comp, List.filter_cons]
      by_cases hk : k = keyOf r
      · subst hk; simp
      · have hk' : ¬ keyOf r = k := fun e => hk e.symm
        simp [hk, hk']
    · have hany' : ¬ (groupR keyOf rs).any (fun p => p.1 = keyOf r) = true := fun h => hm (hany.mp h)
      rw [if_neg hany', if_neg hm, List.map_cons, ih]
      congr 1
      · have : rs.filter (fun r' => keyOf r' = keyOf r) = [] := by
          rw [List.filter_eq_nil_iff]
          intro a ha hk
          exact hm (List.mem_map.mpr ⟨a, ha, by simpa using hk⟩)
        simp [List.filter_cons, this]
      · apply List.map_congr_left
        intro k hk
        have hne : ¬ keyOf r = k := by
          intro e
          exact hm (e ▸ (mem_distinctL k _).mp hk)
        simp [List.filter_cons, hne]

/-- a grouped expression has, inside its group, the value recorded in the key tuple -/
theorem keyValue_self : ∀ (es : List Expr) (kv : List Val), es.Nodup → kv.length = es.length →
    es.map (fun e => keyValue es kv e) = kv
  | [], [], _, _ => rfl
  | [], _ :: _, _, h => by simp at h
  | _ :: _, [], _, h => by simp at h
  | e :: es, v :: vs, hnd, hlen => by
    have hnd' := List.nodup_cons.mp hnd
    simp only [List.map_cons, keyValue, if_true]
    congr 1
    rw [← keyValue_self es vs hnd'.2 (by simpa using hlen)]
    apply List.map_congr_left
    intro e' he'
    have : e ≠ e' := fun h => hnd'.1 (h ▸ he')
    rw [keyValue_self es vs hnd'.2 (by simpa using hlen)]
    simp [keyValue, this]

/-! ### which keys reach GROUP BY, and how the engine reads them -/

/-- **every key reaches the GROUP BY clause** (whatever the class of its expression): the filter of the
    regenerated comprehension `[x.column_expression for x in self.group_by_cols <if …>]` keeps everything -/
theorem groupByKeeps_all : ∀ c : KeyClass, groupByKeeps c = true := by
  intro c; cases c <;> rfl

/-- the same for the tuple of a grouping set -/
theorem groupingSetKeeps_all : ∀ c : KeyClass, groupingSetKeeps c = true := by
  intro c; cases c <;> rfl

theorem groupByList_eq (keys : List (Name × Expr)) : groupByList keys = keys.map (·.2) := by
  unfold groupByList
  rw [List.filter_eq_self.mpr (fun k _ => groupByKeeps_all _)]

theorem groupingSetList_eq (S : List (Name × Expr)) : groupingSetList S = S.map (·.2) := by
  unfold groupingSetList
  rw [List.filter_eq_self.mpr (fun k _ => groupingSetKeeps_all _)]

/-- a GROUP BY term that is not an integer constant stands for itself -/
theorem groupByTerm_self (sel : List (Name × GItem)) (e : Expr) (h : e.isIntLit = false) : groupByTerm sel e = some e := by
  cases e with
  | lit v => cases v <;> first | rfl | (simp [Expr.isIntLit] at h)
  | _ => rfl

theorem resolveGroupBy_self (sel : List (Name × GItem)) : ∀ es : List Expr, (∀ e ∈ es, e.isIntLit = false) →
    resolveGroupBy sel es = some es
  | [], _ => rfl
  | e :: es, h => by
    simp only [resolveGroupBy, groupByTerm_self sel e (h e (by simp)),
      resolveGroupBy_self sel es (fun x hx => h x (by simp [hx]))]

theorem resolveSets_self (sel : List (Name × GItem)) : ∀ Ss : List (List Expr), (∀ S ∈ Ss, ∀ e ∈ S, e.isIntLit = false) →
    resolveSets sel Ss = some Ss
  | [], _ => rfl
  | S :: Ss, h => by
    simp only [resolveSets, resolveGroupBy_self sel S (h S (by simp)),
      resolveSets_self sel Ss (fun x hx => h x (by simp [hx]))]

theorem filter_true' {α} (l : List α) (p : α → Bool) (h : ∀ a, p a = true) : l.filter p = l := by
  apply List.filter_eq_self.mpr; intro a _; exact h a

/-- **a SELECT block with GROUP BY on the un-aliased keys and select list keys ++ aggregates evaluates to
    the specification applied to the filtered source** (for every table, key list, aggregate list) -/
theorem evalGBlock_spec (wher : List Expr) (keys : List (Name × Expr)) (aggs : List (Name × AExpr)) (T0 : Table)
    (hk : (keys.map (·.2)).Nodup) (hn : ∀ k ∈ keys, k.2.isIntLit = false) :
    evalGBlock { wher := wher, groupBy := groupByList keys,
                 sel := keys.map (fun k => (k.1, GItem.key k.2)) ++ aggs.map (fun a => (a.1, GItem.agg a.2)) } T0
      = aggSpec keys aggs { cols := T0.cols, rows := stWhere wher T0 } := by
  have hres : resolveGroupBy (keys.map (fun k => (k.1, GItem.key k.2)) ++ aggs.map (fun a => (a.1, GItem.agg a.2)))
      (groupByList keys) = some (keys.map (·.2)) := by
    rw [groupByList_eq]
    exact resolveGroupBy_self _ _ (fun e he => by
      obtain ⟨k, hk', rfl⟩ := List.mem_map.mp he
      exact hn k hk')
  simp only [evalGBlock, hres, aggSpec]
  congr 1
  · simp [List.map_append, List.map_map, Function.comp_def]
  · cases keys with
    | nil =>
      simp only [List.map_nil, if_true, List.map_cons, List.nil_append]
      congr 1
      simp only [List.map_map, Function.comp_def]
      rw [filter_true' _ _ (by simp)]
    | cons k ks =>
      have hne : ¬ ((k :: ks).map (·.2) = []) := by simp
      have hne' : ¬ ((k :: ks) = []) := by simp
      rw [if_neg hne, if_neg hne', groupR_spec]
      have hmap : (fun r => List.map (eval T0.cols r) (List.map (fun x => x.snd) (k :: ks)))
          = (fun r => List.map (fun k => eval T0.cols r k.snd) (k :: ks)) := by
        funext r; simp [List.map_map, Function.comp_def]
      rw [hmap, List.map_map]
      apply List.map_congr_left
      intro kv hkv
      have hlen : kv.length = ((k :: ks).map (·.2)).length := by
        obtain ⟨r, _, rfl⟩ := List.mem_map.mp ((mem_distinctL kv _).mp hkv)
        simp
      simp only [Function.comp, List.map_append, List.map_map]
      congr 1
      · have := keyValue_self ((k :: ks).map (·.2)) kv hk hlen
        rw [List.map_map] at this
        exact this

end Sqlframe
