/-
Lemmas/C17Compose.lean — helper lemmas for the theorems of Props/C17.lean about Impl/C17Compose.lean:
the splice loop of format_string_with_pipes, the split of a plain format against java.util.Formatter's scan,
and the object heap of CASE nodes (a well-formed heap only grows, so earlier trees keep their meaning).
-/
import SqlframeModel.Impl.C17Compose
namespace Sqlframe.C17
open Sqlframe.Gen.Emul

theorem render_last (v a : List Char) : renderPieces fmtLast v a = v := by
  simp [renderPieces, fmtLast]
theorem render_mid (v a : List Char) : renderPieces fmtMid v a = v ++ a := by
  simp [renderPieces, fmtMid]
theorem render_init (v a : List Char) : renderPieces fmtInit v a = v ++ a := by
  simp [renderPieces, fmtInit]

theorem fmtLoop_spec (cols : List (List Char)) :
    ∀ (vs : List (List Char)) (i : Nat) (acc : List Char), i ≤ cols.length → vs.length = cols.length - i + 1 →
      fmtLoopWith fmtLast fmtMid cols i vs acc = some (acc ++ interleave vs (cols.drop i)) := by
  intro vs
  induction vs with
  | nil => intro i acc _ h; simp at h
  | cons v vs ih =>
    intro i acc hi hl
    unfold fmtLoopWith
    by_cases he : i = cols.length
    · subst he
      have hvs : vs = [] := by
        have : vs.length = 0 := by rw [List.length_cons] at hl; omega
        exact List.eq_nil_of_length_eq_zero this
      subst hvs
      simp [render_last, fmtLoopWith, interleave]
    · have hlt : i < cols.length := by omega
      simp only [he, ↓reduceIte]
      rw [List.getElem?_eq_getElem hlt]
      simp only []
      rw [ih (i + 1) _ (by omega) (by rw [List.length_cons] at hl; omega)]
      rw [List.drop_eq_getElem_cons hlt]
      simp [render_mid, interleave]

/-- the splice loop, for EVERY list of segments and columns of matching lengths: segment, column, segment, … in order;
    in particular an EMPTY segment (two adjacent placeholders, a placeholder first or last) drops nothing. -/
theorem format_values (values cols : List (List Char)) (h : values.length = cols.length + 1) (hc : cols ≠ []) :
    emulFormatValues values cols = some (interleave values cols) := by
  unfold emulFormatValues emulFormatValuesWith
  have ha : fmtArityOffset = 1 := rfl
  rw [ha]
  simp only [h, ne_eq, not_true_eq_false, ↓reduceIte]
  match values, cols, h, hc with
  | v0 :: vs, c0 :: cs, h, _ =>
    simp only []
    rw [fmtLoop_spec (c0 :: cs) vs 1 _ (by simp) (by simp only [List.length_cons] at h ⊢; omega)]
    simp [render_init, interleave]
  | [], _, h, _ => simp at h
  | _ :: _, [], _, hc => exact absurd rfl hc

theorem split_ne_nil (L : List Char) : ∀ f, splitFmtWith L f ≠ [] := by
  intro f
  fun_induction splitFmtWith L f with
  | case1 => simp
  | case2 => simp
  | case3 => simp
  | case4 c d rest h ih =>
    cases hs : splitFmtWith L (d :: rest) with
    | nil => exact absurd hs ih
    | cons a b => simp [consHead]

theorem interleave_consHead (c : Char) (ss : List (List Char)) (hs : ss ≠ []) (args : List (List Char)) :
    interleave (consHead c ss) args = c :: interleave ss args ∧ (consHead c ss).length = ss.length := by
  cases ss with
  | nil => exact absurd rfl hs
  | cons h t => cases args <;> simp [consHead, interleave]

theorem spark_split : ∀ (fmt : List Char) (args : List (List Char)), plainFmt fmt = true →
    (splitFmtWith ['d', 's'] fmt).length = args.length + 1 →
    sparkFormat fmt args = some (interleave (splitFmtWith ['d', 's'] fmt) args) := by
  intro fmt
  fun_induction splitFmtWith ['d', 's'] fmt with
  | case1 =>
    intro args _ hl
    have : args = [] := by simpa using hl
    subst this
    simp [sparkFormat, interleave]
  | case2 c =>
    intro args hp hl
    have : args = [] := by simpa using hl
    subst this
    have hc : c ≠ '%' := by simpa [plainFmt] using hp
    simp [sparkFormat, interleave, hc]
  | case3 c d rest h ih =>
    intro args hp hl
    obtain ⟨hc, hd⟩ := h
    subst hc
    have hd' : d = 's' ∨ d = 'd' := by
      simp at hd; exact hd.symm
    have hp' : plainFmt rest = true := by
      simp [plainFmt, hd'] at hp; exact hp
    cases args with
    | nil =>
      have := split_ne_nil ['d', 's'] rest
      simp at hl; exact absurd hl this
    | cons a as =>
      have hl' : (splitFmtWith ['d', 's'] rest).length = as.length + 1 := by simpa using hl
      simp [sparkFormat, hd', ih as hp' hl', interleave]
  | case4 c d rest h ih =>
    intro args hp hl
    have hc : c ≠ '%' := by
      intro hc
      subst hc
      simp [plainFmt] at hp
      apply h
      refine ⟨rfl, ?_⟩
      rcases hp.1 with h1 | h1 <;> simp [h1]
    have hp' : plainFmt (d :: rest) = true := by simpa [plainFmt, hc] using hp
    have hne := split_ne_nil ['d', 's'] (d :: rest)
    obtain ⟨e1, e2⟩ := interleave_consHead c _ hne args
    rw [e2] at hl
    rw [e1]
    simp [sparkFormat, hc, ih args hp' hl]

theorem resolve_append (heap extra : List CaseObj) : ∀ e : HExpr, e.wf heap.length → resolve (heap ++ extra) e = resolve heap e := by
  intro e
  induction e with
  | case id => intro h; simp only [HExpr.wf] at h; simp [resolve, List.getElem?_append_left h]
  | un op e ih => intro h; simp only [HExpr.wf] at h; simp [resolve, ih h]

theorem wf_mono (n m : Nat) (hnm : n ≤ m) : ∀ e : HExpr, e.wf n → e.wf m := by
  intro e
  induction e with
  | case id => intro h; simp only [HExpr.wf] at h ⊢; omega
  | un op e ih => intro h; simp only [HExpr.wf] at h ⊢; exact ih h

theorem view_append (s : HSt) (hw : s.wf) (extra : List CaseObj) :
    s.binds.map (resolve (s.heap ++ extra)) = s.view := by
  unfold HSt.view
  apply List.map_congr_left
  intro e he
  exact resolve_append _ _ e (hw e he)

/-- pushing a new CASE object and a binding for it -/
theorem push_ok (s : HSt) (hw : s.wf) (c : CaseObj) :
    (HSt.mk (s.heap ++ [c]) (s.binds ++ [.case s.heap.length])).wf ∧
    (HSt.mk (s.heap ++ [c]) (s.binds ++ [.case s.heap.length])).view = s.view ++ [.case c] := by
  constructor
  · intro e he
    simp only [List.mem_append, List.mem_singleton] at he
    simp only [List.length_append, List.length_singleton]
    cases he with
    | inl h => exact wf_mono _ _ (by omega) e (hw e h)
    | inr h => subst h; simp [HExpr.wf]
  · simp only [HSt.view, List.map_append, List.map_cons, List.map_nil]
    rw [view_append s hw [c]]
    simp [resolve, HSt.view]

theorem view_get (s : HSt) (on : Nat) : s.view[on]? = (s.binds[on]?).map (resolve s.heap) := by
  simp [HSt.view]

theorem step_ok (s : HSt) (hw : s.wf) (st : Step) :
    (hstep true true s st).wf ∧ (hstep true true s st).view = pstep s.view st := by
  cases st with
  | start b => simpa [hstep, pstep] using push_ok s hw ⟨[b], none⟩
  | when on b =>
    simp only [hstep, pstep, view_get]
    cases hb : s.binds[on]? with
    | none => simpa using push_ok s hw ⟨[b], none⟩
    | some e =>
      cases e with
      | un op e' => simpa [resolve] using push_ok s hw ⟨[b], none⟩
      | case id =>
        have hid : id < s.heap.length := by
          have := hw _ (List.mem_of_getElem? hb); simpa [HExpr.wf] using this
        simp only [Option.map_some, resolve, List.getElem?_eq_getElem hid, Option.getD_some, ↓reduceIte]
        exact push_ok s hw _
  | otherwise on v =>
    simp only [hstep, pstep, view_get]
    cases hb : s.binds[on]? with
    | none => exact ⟨hw, rfl⟩
    | some e =>
      cases e with
      | un op e' =>
        simp only [Option.map_some, resolve]
        constructor
        · intro x hx
          simp only [List.mem_append, List.mem_singleton] at hx
          cases hx with
          | inl h => exact hw x h
          | inr h => subst h; exact hw _ (List.mem_of_getElem? hb)
        · simp [HSt.view, resolve]
      | case id =>
        have hid : id < s.heap.length := by
          have := hw _ (List.mem_of_getElem? hb); simpa [HExpr.wf] using this
        simp only [Option.map_some, resolve, List.getElem?_eq_getElem hid, Option.getD_some, ↓reduceIte]
        exact push_ok s hw _
  | un on op =>
    simp only [hstep, pstep, view_get]
    cases hb : s.binds[on]? with
    | none => exact ⟨hw, rfl⟩
    | some e =>
      simp only [Option.map_some]
      constructor
      · intro x hx
        simp only [List.mem_append, List.mem_singleton] at hx
        cases hx with
        | inl h => exact hw x h
        | inr h => subst h; simp only [HExpr.wf]; exact hw _ (List.mem_of_getElem? hb)
      · simp [HSt.view, resolve]

theorem run_ok (prog : List Step) : ∀ s : HSt, s.wf →
    (prog.foldl (hstep true true) s).wf ∧ (prog.foldl (hstep true true) s).view = prog.foldl pstep s.view := by
  induction prog with
  | nil => intro s hw; exact ⟨hw, rfl⟩
  | cons st rest ih =>
    intro s hw
    obtain ⟨h1, h2⟩ := step_ok s hw st
    have := ih _ h1
    simp only [List.foldl_cons]
    rw [← h2]
    exact this

theorem pstep_prefix (bs : List PExpr) (st : Step) : ∃ ext, pstep bs st = bs ++ ext := by
  cases st with
  | start b => exact ⟨_, rfl⟩
  | when on b =>
    simp only [pstep]
    split <;> exact ⟨_, rfl⟩
  | otherwise on v =>
    simp only [pstep]
    split
    · exact ⟨_, rfl⟩
    · exact ⟨_, rfl⟩
    · exact ⟨[], by simp⟩
  | un on op =>
    simp only [pstep]
    split
    · exact ⟨_, rfl⟩
    · exact ⟨[], by simp⟩

theorem prun_prefix (more : List Step) : ∀ bs, ∃ ext, more.foldl pstep bs = bs ++ ext := by
  induction more with
  | nil => intro bs; exact ⟨[], by simp⟩
  | cons st rest ih =>
    intro bs
    obtain ⟨e1, h1⟩ := pstep_prefix bs st
    obtain ⟨e2, h2⟩ := ih (pstep bs st)
    exact ⟨e1 ++ e2, by rw [List.foldl_cons, h2, h1, List.append_assoc]⟩


theorem interleave_length : ∀ (values cols : List (List Char)), values.length = cols.length + 1 →
    (interleave values cols).length = (values.map List.length).sum + (cols.map List.length).sum := by
  intro values
  induction values with
  | nil => intro cols h; simp at h
  | cons v vs ih =>
    intro cols h
    cases cols with
    | nil =>
      have : vs = [] := List.eq_nil_of_length_eq_zero (by simpa using h)
      subst this
      simp [interleave]
    | cons c cs =>
      have h' : vs.length = cs.length + 1 := by simpa using h
      simp [interleave, ih cs h']
      omega

theorem lev_fold_nil (a : List Char) : ∀ n : Nat, a.foldl (levStep []) [n] = [n + a.length] := by
  induction a with
  | nil => intro n; simp
  | cons c cs ih => intro n; simp [List.foldl_cons, levStep, levRow, ih]; omega

end Sqlframe.C17
