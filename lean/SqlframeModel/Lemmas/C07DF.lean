/-
Lemmas/C07DF.lean — the DataFrame-level model of the set operations evaluates to the table-level
operators; the result is a freshly started block (so any C01 chain continues from it).
Uses the clause-order invariant of C01 (`Inv`, `enter_*`, `C01_step`).
-/
import SqlframeModel.Props.C01
import SqlframeModel.Lemmas.C07ByName
namespace Sqlframe
open Gen

theorem inv_eval_WF (d : DF) (h : Inv d) : d.eval.WF := evalBlock_WF d.blk d.src h.2.1

theorem setLast_eval (d : DF) (l : Op) : ({ d with last := l } : DF).eval = d.eval := rfl

/-- `_set_operation` on a receiver whose open block has no ORDER BY / LIMIT -/
theorem bodySetOp_eval (op : SetKind × Bool) (other self : DF) (hs : Inv self) (ho : Inv other)
    (hord : self.blk.order = []) (hlim : self.blk.limit = none)
    (harity : other.eval.cols.length = self.eval.cols.length) :
    Fresh (bodySetOp op other self) ∧ (bodySetOp op other self).eval = setopTable op self.eval other.eval := by
  have hw : other.wrap.eval = other.eval := wrap_eval other ho
  have hsrc : (bodySetOp op other self).src = setopTable op self.eval other.eval := by
    simp only [bodySetOp, hord, hlim, and_self, if_true, hw]
    rfl
  have hfresh : Fresh (bodySetOp op other self) := by
    refine ⟨?_, rfl, rfl, rfl, rfl, rfl⟩
    rw [hsrc]
    refine ⟨hs.2.1, ?_⟩
    intro r hr
    have hL := inv_eval_WF self hs
    have hR := inv_eval_WF other ho
    rcases mem_evalSetop op _ _ r hr with h | h
    · exact hL.2 r h
    · rw [hR.2 r h]; exact harity
  exact ⟨hfresh, by rw [fresh_eval _ hfresh, hsrc]⟩

theorem SetMethod.tag_from (m : SetMethod) : m.tag = some Op.from_ := by cases m <;> rfl

/-- `a.<m>(b)`: the wrapper (tag FROM) guarantees the receiver's block is plain -/
theorem setop_df (m : SetMethod) (a b : DF) (ha : Inv a) (hb : Inv b)
    (harity : b.eval.cols.length = a.eval.cols.length) :
    Fresh (a.setop m b) ∧ (a.setop m b).eval = setopTable m.op a.eval b.eval := by
  have hop : Op.from_ ≠ Op.noOp := by decide
  obtain ⟨hi, he⟩ := enter_inv .from_ a ha
  have hr := enter_ready .from_ hop (by decide) a ha
  unfold DF.setop
  rw [m.tag_from, wrapper_eq _ hop]
  obtain ⟨hf, hev⟩ := bodySetOp_eval m.op b (enter .from_ a) hi hb hr.2.2.1 hr.2.2.2 (by rw [he]; exact harity)
  refine ⟨hf.setLast _, ?_⟩
  rw [setLast_eval, hev, he]

/-! ### unionByName -/

/-- a decorated `select` on any DataFrame satisfying the invariant -/
theorem select_df (d : DF) (h : Inv d) (items : List (Name × Expr))
    (hn : (items.map (·.1)).Nodup) (hrefs : ∀ it ∈ items, ∀ n ∈ it.2.refs, n ∈ d.eval.cols) :
    (d.apply (.select items)).eval = d.eval.project items ∧ Inv (d.apply (.select items)) ∧
      (d.apply (.select items)).blk.order = [] ∧ (d.apply (.select items)).blk.limit = none := by
  obtain ⟨he, hi, _⟩ := C01_step d (.select items) h ⟨hn, hrefs⟩ (by simp [Step.isOrderBy]) rfl
  have hl : (d.apply (.select items)).last = .select := by
    simp only [DF.apply, tag_select, wrapper_eq _ (show Op.select ≠ Op.noOp by decide)]
  refine ⟨he, hi, hi.2.2.2.1 (by rw [hl]; decide), hi.2.2.2.2 (by rw [hl]; decide)⟩

theorem toItem_map_names (cols out : List Name) :
    (((out.map (sideItem cols)).map PItem.toItem).map (·.1)) = out := by
  rw [List.map_map, List.map_map]
  calc _ = out.map id := List.map_congr_left (fun c _ => by simp [Function.comp, sideItem_name])
    _ = out := by simp

theorem toItem_refs (cols out : List Name) :
    ∀ it ∈ (out.map (sideItem cols)).map PItem.toItem, ∀ n ∈ it.2.refs, n ∈ cols := by
  intro it hit n hn
  simp only [List.mem_map] at hit
  obtain ⟨p, ⟨c, _, rfl⟩, rfl⟩ := hit
  unfold sideItem at hn
  by_cases hc : c ∈ cols
  · rw [if_pos hc] at hn
    simp [PItem.toItem, Expr.refs] at hn
    rw [hn]; exact hc
  · rw [if_neg hc] at hn
    simp [PItem.toItem, Expr.refs] at hn

theorem project_side (T : Table) (out : List Name) :
    T.project ((out.map (sideItem T.cols)).map PItem.toItem) = { cols := out, rows := T.rows.map (padRow T.cols out) } := by
  simp only [Table.project, toItem_map_names]
  congr 1
  apply List.map_congr_left
  intro r _
  simp only [padRow, List.map_map]
  apply List.map_congr_left
  intro c _
  simp only [Function.comp, sideItem]
  by_cases hc : c ∈ T.cols <;> simp [hc, PItem.toItem, eval]

theorem own_items (lc : List Name) : (lc.map PItem.own).map PItem.toItem = identSel lc := by
  simp [identSel, PItem.toItem, Function.comp_def]

theorem byNameOp_append (A B : List Row) : evalSetop byNameOp A B = A ++ B := rfl

theorem byName_df (am : Bool) (a b : DF) (ha : Inv a) (hb : Inv b)
    (hcompat : am = false → b.eval.cols.length = a.eval.cols.length ∧ ∀ c ∈ a.eval.cols, c ∈ b.eval.cols) :
    Fresh (a.unionByName am b) ∧ (a.unionByName am b).eval = byNameSpec am a.eval b.eval := by
  have hop : Op.from_ ≠ Op.noOp := by decide
  obtain ⟨hi, he⟩ := enter_inv .from_ a ha
  have hr := enter_ready .from_ hop (by decide) a ha
  have htag : tag_unionByName = some Op.from_ := rfl
  unfold DF.unionByName
  rw [htag, wrapper_eq _ hop]
  generalize enter Op.from_ a = a' at hi he hr
  have hla : a'.outNames = a.eval.cols := by rw [← he]; rfl
  have hlb : b.outNames = b.eval.cols := rfl
  have hbw : Inv b.wrap := (wrap_fresh b hb).inv
  have hbwe : b.wrap.eval = b.eval := wrap_eval b hb
  have hlnd : a.eval.cols.Nodup := (inv_eval_WF a ha).1
  have hrnd : b.eval.cols.Nodup := (inv_eval_WF b hb).1
  cases am with
  | true =>
    obtain ⟨hlE, hrE⟩ := byNameMissing_names a.eval.cols b.eval.cols hrnd
    have hout := byNameCols_nodup true a.eval.cols b.eval.cols hlnd hrnd
    have haw : Inv a'.wrap := (wrap_fresh a' hi).inv
    have hawe : a'.wrap.eval = a.eval := by rw [wrap_eval a' hi, he]
    simp only [bodyByName, if_true, hla, hlb, hlE, hrE]
    obtain ⟨r1, r2, _, _⟩ := select_df b.wrap hbw (((byNameCols true a.eval.cols b.eval.cols).map (sideItem b.eval.cols)).map PItem.toItem) (by rw [toItem_map_names]; exact hout)
      (by rw [hbwe]; exact toItem_refs b.eval.cols _)
    obtain ⟨l1, l2, l3, l4⟩ := select_df a'.wrap haw (((byNameCols true a.eval.cols b.eval.cols).map (sideItem a.eval.cols)).map PItem.toItem) (by rw [toItem_map_names]; exact hout)
      (by rw [hawe]; exact toItem_refs a.eval.cols _)
    rw [hbwe, project_side] at r1
    rw [hawe, project_side] at l1
    obtain ⟨hf, hev⟩ := bodySetOp_eval byNameOp _ _ l2 r2 l3 l4 (by rw [r1, l1])
    refine ⟨hf.setLast _, ?_⟩
    rw [setLast_eval, hev, r1, l1]
    simp [setopTable, byNameSpec, byNameOp_append]
  | false =>
    obtain ⟨hlen, hsub⟩ := hcompat rfl
    simp only [bodyByName, Bool.false_eq_true, if_false, hla, hlb, byNameStrict_unfold, own_items]
    obtain ⟨r1, r2, _, _⟩ := select_df b.wrap hbw (identSel a.eval.cols) (by rw [identSel_names]; exact hlnd)
      (by
        rw [hbwe]
        intro it hit n hn
        simp only [identSel, List.mem_map] at hit
        obtain ⟨c, hc, rfl⟩ := hit
        simp [Expr.refs] at hn
        rw [hn]; exact hsub c hc)
    rw [hbwe] at r1
    obtain ⟨hf, hev⟩ := bodySetOp_eval byNameOp _ a' hi r2 hr.2.2.1 hr.2.2.2
      (by rw [r1, he]; simp [Table.project])
    refine ⟨hf.setLast _, ?_⟩
    rw [setLast_eval, hev, r1, he]
    have hwf := inv_eval_WF a ha
    simp only [setopTable, byNameSpec, byNameOp_append, byNameCols, Bool.false_eq_true, if_false, Table.project, identSel_names]
    congr 1
    congr 1
    · symm
      calc _ = List.map id a.eval.rows := by
            apply List.map_congr_left
            intro r hr
            simp only [padRow, id]
            rw [← map_lookup_self a.eval.cols r hwf.1 (hwf.2 r hr)]
            apply List.map_congr_left
            intro c hc
            rw [map_lookup_self a.eval.cols r hwf.1 (hwf.2 r hr)]
            simp [hc]
        _ = a.eval.rows := by simp
    · apply List.map_congr_left
      intro r _
      simp only [padRow, identSel, List.map_map]
      apply List.map_congr_left
      intro c hc
      simp [Function.comp, eval, hsub c hc]

end Sqlframe
