/-
Lemmas/C13Lexical.lean — Spark's reading of a WITH list (`evalLex`: a CTE is visible to later definitions and to
the main query) and the engine's (`Evaluates`: every reference is bound by name, wherever it stands) agree on
every statement whose CTE names are pairwise distinct and whose definitions refer only to earlier CTEs or to
names that are no CTE of the statement.
-/
import SqlframeModel.Lemmas.C13Splice
namespace Sqlframe.Views
open Sqlframe Sqlframe.Gen

/-- no definition refers to its own name or to a later CTE -/
def orderedCtes (q : Query) : Bool :=
  q.ctes.all (fun c => c.2.refs.all (fun m => (scopeBefore q.ctes c.1).contains m || !(names q.ctes).contains m))

section
variable (db : Db) (q : Query)

def InvL (pre : List CTE) (env : Db) : Prop :=
  (∀ n ∈ names pre, ∀ T, (∃ f, resolveFuel db q.ctes f n = some T) ↔ env n = some T) ∧
  (∀ n, n ∉ names pre → env n = db n)

theorem refL (pre : List CTE) (env : Db) (hinv : InvL db q pre env) (m : Name)
    (hok : m ∈ names pre ∨ m ∉ names q.ctes) (T : Table) :
    (∃ f, resolveFuel db q.ctes f (id m) = some T) ↔ env m = some T := by
  by_cases hm : m ∈ names pre
  · exact hinv.1 m hm T
  · have hnu : m ∉ names q.ctes := by
      cases hok with
      | inl h => exact absurd h hm
      | inr h => exact h
    rw [hinv.2 m hm]
    simp only [id, resolveFuel_unbound db q.ctes m ((assoc_none_iff _ m).2 hnu)]
    constructor
    · rintro ⟨_, h⟩; exact h
    · intro h; exact ⟨0, h⟩

theorem stepL (hD : (names q.ctes).Nodup) (hO : orderedCtes q = true) (pre post : List CTE) (c : CTE)
    (hq : q.ctes = pre ++ c :: post) (env : Db) (hinv : InvL db q pre env) :
    InvL db q (pre ++ [c]) (bindCte env c) := by
  have hcq : c ∈ q.ctes := by rw [hq]; simp
  have hcpre : c.1 ∉ names pre := by
    rw [hq] at hD
    simp only [names, List.map_append, List.map_cons] at hD
    have := (List.nodup_append.1 hD).2.2
    intro hmem
    exact this c.1 hmem c.1 (by simp) rfl
  have hscope : scopeBefore q.ctes c.1 = names pre := by rw [hq]; exact scopeBefore_prefix pre post c hcpre
  have hassoc : assoc q.ctes c.1 = some c.2 := by
    rw [hq, assoc_append, (assoc_none_iff _ _).2 hcpre]; simp [assoc]
  have hrefs : ∀ m ∈ c.2.refs, ∀ T, (∃ f, resolveFuel db q.ctes f (id m) = some T) ↔ env m = some T := by
    intro m hm T
    apply refL db q pre env hinv m
    unfold orderedCtes at hO
    rw [List.all_eq_true] at hO
    have := hO c hcq
    rw [List.all_eq_true] at this
    have := this m hm
    rw [hscope] at this
    simp only [Bool.or_eq_true, List.contains_eq_mem, decide_eq_true_eq, Bool.not_eq_true', decide_eq_false_iff_not] at this
    exact this
  constructor
  · intro n hn T
    simp only [names, List.map_append, List.map_cons, List.map_nil, List.mem_append, List.mem_singleton] at hn
    by_cases hnc : n = c.1
    · subst hnc
      simp only [bindCte, if_true]
      have hb := body_sim db q.ctes env id c.2 hrefs T
      rw [rename_eq_self id c.2 (fun _ _ => rfl)] at hb
      rw [← hb]
      constructor
      · rintro ⟨f, hf⟩
        cases f with
        | zero => simp [resolveFuel, hassoc] at hf
        | succ f => simp only [resolveFuel, hassoc] at hf; exact ⟨f, hf⟩
      · rintro ⟨f, hf⟩
        exact ⟨f + 1, by simp only [resolveFuel, hassoc]; exact hf⟩
    · have hnp : n ∈ names pre := by
        cases hn with
        | inl h => exact h
        | inr h => exact absurd h hnc
      simp only [bindCte, hnc, if_false]
      exact hinv.1 n hnp T
  · intro n hn
    simp only [names, List.map_append, List.map_cons, List.map_nil, List.mem_append, List.mem_singleton, not_or] at hn
    simp only [bindCte, hn.2, if_false]
    exact hinv.2 n hn.1

theorem allL (hD : (names q.ctes).Nodup) (hO : orderedCtes q = true) : ∀ (post pre : List CTE) (env : Db),
    q.ctes = pre ++ post → InvL db q pre env → InvL db q (pre ++ post) (post.foldl bindCte env) := by
  intro post
  induction post with
  | nil => intro pre env _ h; simpa using h
  | cons c post ih =>
    intro pre env hq hinv
    have := ih (pre ++ [c]) (bindCte env c) (by rw [hq]; simp) (stepL db q hD hO pre post c hq env hinv)
    simpa using this

/-- on a statement without self / forward references Spark's and the engine's reading of the WITH list agree -/
theorem lexical_nameBased (hD : (names q.ctes).Nodup) (hO : orderedCtes q = true) (T : Table) :
    Evaluates db q T ↔ evalLex db q = some T := by
  have hinv : InvL db q q.ctes (lexEnv db q.ctes) := by
    have := allL db q hD hO q.ctes [] db (by simp) ⟨by simp [names], fun _ _ => rfl⟩
    simpa [lexEnv] using this
  unfold Evaluates evalQueryFuel evalLex
  have hb := body_sim db q.ctes (lexEnv db q.ctes) id q.final
    (fun m _ T' => refL db q q.ctes _ hinv m (by
      by_cases h : m ∈ names q.ctes
      · exact Or.inl h
      · exact Or.inr h) T') T
  rw [rename_eq_self id q.final (fun _ _ => rfl)] at hb
  exact hb

end

end Sqlframe.Views
