/-
Lemmas/C12.lean — helper lemmas for C12: the replacement chain on one character, ASCII case folding.
-/
import SqlframeModel.Impl.C12Names
namespace Sqlframe.C12
open Sqlframe.Gen

/-! ### the replacement chain -/

/-- a character that no replacement consumes passes through unchanged -/
theorem sanitizeChar_not_source (reps : List (Char × Char)) (c : Char) (h : ∀ p ∈ reps, c ≠ p.1) :
    sanitizeChar reps c = c := by
  induction reps with
  | nil => rfl
  | cons p rest ih =>
    obtain ⟨a, b⟩ := p
    have hca : c ≠ a := h (a, b) (List.mem_cons_self)
    simp only [sanitizeChar, if_neg hca]
    exact ih (fun q hq => h q (List.mem_cons_of_mem _ hq))

theorem CleanChain.tail {p : Char × Char} {rest : List (Char × Char)} (h : CleanChain (p :: rest)) : CleanChain rest :=
  fun x hx y hy => h x (List.mem_cons_of_mem _ hx) y (List.mem_cons_of_mem _ hy)

/-- under a clean chain a character is either untouched or becomes the target of one replacement -/
theorem sanitizeChar_cases (reps : List (Char × Char)) (hc : CleanChain reps) (c : Char) :
    sanitizeChar reps c = c ∨ ∃ p ∈ reps, sanitizeChar reps c = p.2 := by
  induction reps generalizing c with
  | nil => exact Or.inl rfl
  | cons p rest ih =>
    obtain ⟨a, b⟩ := p
    by_cases hca : c = a
    · refine Or.inr ⟨(a, b), List.mem_cons_self, ?_⟩
      simp only [sanitizeChar, if_pos hca]
      exact sanitizeChar_not_source rest b (fun q hq => hc (a, b) List.mem_cons_self q (List.mem_cons_of_mem _ hq))
    · simp only [sanitizeChar, if_neg hca]
      rcases ih hc.tail c with h | ⟨q, hq, h⟩
      · exact Or.inl h
      · exact Or.inr ⟨q, List.mem_cons_of_mem _ hq, h⟩

/-- under a clean chain the result is never a character the chain consumes -/
theorem sanitizeChar_safe (reps : List (Char × Char)) (hc : CleanChain reps) (c : Char) :
    ∀ q ∈ reps, sanitizeChar reps c ≠ q.1 := by
  induction reps generalizing c with
  | nil => intro q hq; cases hq
  | cons p rest ih =>
    obtain ⟨a, b⟩ := p
    intro q hq
    by_cases hca : c = a
    · simp only [sanitizeChar, if_pos hca]
      rw [sanitizeChar_not_source rest b (fun q hq => hc (a, b) List.mem_cons_self q (List.mem_cons_of_mem _ hq))]
      exact hc (a, b) List.mem_cons_self q hq
    · simp only [sanitizeChar, if_neg hca]
      rcases List.mem_cons.mp hq with rfl | hq'
      · -- the head's source: the tail's result is c (≠ a) or a target (≠ a by cleanliness)
        rcases sanitizeChar_cases rest hc.tail c with h | ⟨r, hr, h⟩
        · rw [h]; exact hca
        · rw [h]; exact hc r (List.mem_cons_of_mem _ hr) (a, b) List.mem_cons_self
      · exact ih hc.tail c q hq'

theorem sanitizeChar_idem (reps : List (Char × Char)) (hc : CleanChain reps) (c : Char) :
    sanitizeChar reps (sanitizeChar reps c) = sanitizeChar reps c :=
  sanitizeChar_not_source reps _ (sanitizeChar_safe reps hc c)

/-! ### ASCII letter case -/

theorem toNat_ofNat_small (n : Nat) (h : n < 55296) : (Char.ofNat n).toNat = n := by
  have hv : n.isValidChar := Or.inl h
  simp [Char.ofNat, hv, Char.toNat, Char.ofNatAux]

theorem lowerC_upperC (c : Char) : lowerC (upperC c) = lowerC c := by
  unfold lowerC upperC
  by_cases h : 97 ≤ c.toNat ∧ c.toNat ≤ 122
  · have e : (Char.ofNat (c.toNat - 32)).toNat = c.toNat - 32 := toNat_ofNat_small _ (by omega)
    rw [if_pos h, e]
    have h1 : 65 ≤ c.toNat - 32 ∧ c.toNat - 32 ≤ 90 := by omega
    have h2 : ¬ (65 ≤ c.toNat ∧ c.toNat ≤ 90) := by omega
    rw [if_pos h1, if_neg h2]
    have : c.toNat - 32 + 32 = c.toNat := by omega
    rw [this]
    simp [Char.ofNat_toNat]
  · rw [if_neg h]

theorem lowerC_lowerC (c : Char) : lowerC (lowerC c) = lowerC c := by
  unfold lowerC
  by_cases h : 65 ≤ c.toNat ∧ c.toNat ≤ 90
  · have e : (Char.ofNat (c.toNat + 32)).toNat = c.toNat + 32 := toNat_ofNat_small _ (by omega)
    rw [if_pos h, e]
    have h2 : ¬ (65 ≤ c.toNat + 32 ∧ c.toNat + 32 ≤ 90) := by omega
    rw [if_neg h2]
  · rw [if_neg h, if_neg h]

theorem lower_upper (s : List Char) : lower (upper s) = lower s := by
  simp [lower, upper, List.map_map, Function.comp_def, lowerC_upperC]

theorem lower_lower (s : List Char) : lower (lower s) = lower s := by
  simp [lower, List.map_map, Function.comp_def, lowerC_lowerC]

theorem CaseEq.refl (a : List Char) : CaseEq a a := rfl
theorem CaseEq.symm {a b : List Char} (h : CaseEq a b) : CaseEq b a := Eq.symm h
theorem CaseEq.trans {a b c : List Char} (h₁ : CaseEq a b) (h₂ : CaseEq b c) : CaseEq a c := Eq.trans h₁ h₂

/-- every normalisation strategy changes at most the letter case of a name and never its quoting -/
theorem normalizeIdent_caseEq (st : Strategy) (m : Bool) (i : Ident) :
    CaseEq (normalizeIdent st m i).name i.name ∧ (normalizeIdent st m i).quoted = i.quoted := by
  unfold normalizeIdent CaseEq
  cases m <;> cases st <;> cases hq : i.quoted <;> simp [lower_lower, lower_upper, hq]

/-- … hence so does any sequence of passes -/
theorem foldl_normalize_caseEq (strat : NsSide → Strategy) (m : Bool) (sides : List NsSide) (i : Ident) :
    CaseEq (sides.foldl (fun acc side => normalizeIdent (strat side) m acc) i).name i.name := by
  induction sides generalizing i with
  | nil => exact CaseEq.refl _
  | cons s rest ih =>
    simp only [List.foldl_cons]
    exact (ih _).trans (normalizeIdent_caseEq _ _ _).1

/-- a marked identifier goes through any sequence of passes unchanged -/
theorem foldl_normalize_marked (strat : NsSide → Strategy) (sides : List NsSide) (i : Ident) :
    sides.foldl (fun acc side => normalizeIdent (strat side) true acc) i = i := by
  induction sides generalizing i with
  | nil => rfl
  | cons s rest ih => simp only [List.foldl_cons]; rw [show normalizeIdent (strat s) true i = i from rfl]; exact ih i

end Sqlframe.C12

namespace Sqlframe.C12
open Sqlframe.Gen

/-! ### sanitising commutes with case folding when the chain only touches caseless characters -/

def isLetter (c : Char) : Bool := (65 ≤ c.toNat && c.toNat ≤ 90) || (97 ≤ c.toNat && c.toNat ≤ 122)

/-- no replacement consumes or produces an ASCII letter -/
def CaselessChain (reps : List (Char × Char)) : Prop := ∀ p ∈ reps, isLetter p.1 = false ∧ isLetter p.2 = false

instance (reps : List (Char × Char)) : Decidable (CaselessChain reps) := by unfold CaselessChain; infer_instance

theorem lowerC_of_not_letter (c : Char) (h : isLetter c = false) : lowerC c = c := by
  unfold lowerC
  have : ¬ (65 ≤ c.toNat ∧ c.toNat ≤ 90) := by
    intro hh
    simp [isLetter] at h
    omega
  rw [if_neg this]

/-- `lowerC` either leaves a character alone or produces a letter -/
theorem lowerC_eq_or_letter (c : Char) : lowerC c = c ∨ isLetter (lowerC c) = true := by
  unfold lowerC
  by_cases h : 65 ≤ c.toNat ∧ c.toNat ≤ 90
  · right
    rw [if_pos h]
    have e : (Char.ofNat (c.toNat + 32)).toNat = c.toNat + 32 := toNat_ofNat_small _ (by omega)
    simp [isLetter, e]
    omega
  · left; rw [if_neg h]

theorem lowerC_sanitizeChar (reps : List (Char × Char)) (hc : CaselessChain reps) (c : Char) :
    lowerC (sanitizeChar reps c) = sanitizeChar reps (lowerC c) := by
  induction reps generalizing c with
  | nil => rfl
  | cons p rest ih =>
    obtain ⟨a, b⟩ := p
    have hab := hc (a, b) List.mem_cons_self
    have hrest : CaselessChain rest := fun q hq => hc q (List.mem_cons_of_mem _ hq)
    by_cases hca : c = a
    · subst hca
      have hl : lowerC c = c := lowerC_of_not_letter c hab.1
      simp only [sanitizeChar, hl, if_pos]
      rw [ih hrest b, lowerC_of_not_letter b hab.2]
    · have hla : lowerC c ≠ a := by
        intro h
        rcases lowerC_eq_or_letter c with h' | h'
        · exact hca (h' ▸ h)
        · rw [h] at h'; rw [hab.1] at h'; cases h'
      simp only [sanitizeChar, if_neg hca, if_neg hla]
      exact ih hrest c

theorem lower_sanitizeWith (reps : List (Char × Char)) (hc : CaselessChain reps) (s : List Char) :
    lower (sanitizeWith reps s) = sanitizeWith reps (lower s) := by
  simp [lower, sanitizeWith, List.map_map, Function.comp_def, lowerC_sanitizeChar reps hc]

/-- sanitising respects equality up to case -/
theorem sanitizeWith_caseEq (reps : List (Char × Char)) (hc : CaselessChain reps) {a b : List Char} (h : CaseEq a b) :
    CaseEq (sanitizeWith reps a) (sanitizeWith reps b) := by
  unfold CaseEq at *
  rw [lower_sanitizeWith reps hc, lower_sanitizeWith reps hc, h]

end Sqlframe.C12
