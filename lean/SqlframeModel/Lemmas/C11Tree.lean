/-
Lemmas/C11Tree.lean — tree programs (Impl/C11Tree.lean): the `hist`-carrying set operations are C07's (same
value, same block, same `last_op`), every program keeps the clause-order invariant of C01, and its DataFrame
evaluates to the sequential meaning `Prog.sem`.
-/
import SqlframeModel.Impl.C11Tree
import SqlframeModel.Lemmas.C11
import SqlframeModel.Lemmas.C07DF
namespace Sqlframe
open Gen

theorem enter11_eq (op : Op) (d : DF) : enter11 (some op) d = enter op d := rfl

theorem setop_last (m : SetMethod) (a b : DF) : (a.setop m b).last = .from_ := by
  unfold DF.setop
  rw [m.tag_from, wrapper_eq _ (by decide)]

theorem unionByName_last (am : Bool) (a b : DF) : (a.unionByName am b).last = .from_ := by
  unfold DF.unionByName
  have htag : tag_unionByName = some Op.from_ := rfl
  rw [htag, wrapper_eq _ (by decide)]

/-- `setop11` differs from C07's `setop` in the ghost CTE list only -/
theorem setop11_df (m : SetMethod) (a b : DF) (ha : Inv a) (hb : Inv b)
    (harity : b.eval.cols.length = a.eval.cols.length) :
    Fresh (a.setop11 m b) ∧ (a.setop11 m b).eval = setopTable m.op a.eval b.eval ∧ (a.setop11 m b).last = .from_ := by
  obtain ⟨hf, he⟩ := setop_df m a b ha hb harity
  exact ⟨hf, he, setop_last m a b⟩

theorem unionByName11_df (am : Bool) (a b : DF) (ha : Inv a) (hb : Inv b)
    (hcompat : am = false → b.eval.cols.length = a.eval.cols.length ∧ ∀ c ∈ a.eval.cols, c ∈ b.eval.cols) :
    Fresh (a.unionByName11 am b) ∧ (a.unionByName11 am b).eval = byNameSpec am a.eval b.eval ∧
      (a.unionByName11 am b).last = .from_ := by
  obtain ⟨hf, he⟩ := byName_df am a b ha hb hcompat
  exact ⟨hf, he, unionByName_last am a b⟩

theorem topOrderBy_step (p : Prog) (s : Step) : (Prog.step p s).topOrderBy = s.isOrderBy := rfl

/-- every tree program: invariant, value, and "the last call was not an orderBy unless the program ends in one" -/
theorem tree_run (env : List Table) : ∀ p : Prog, p.WF11 env →
    Inv (p.run11 env) ∧ (p.run11 env).eval = p.sem env ∧ (p.topOrderBy = false → (p.run11 env).last ≠ .orderBy)
  | .base i, h => by
    have hf := init_fresh _ h.2
    refine ⟨hf.inv, by rw [Prog.run11, fresh_eval _ hf]; rfl, fun _ => ?_⟩
    simp [Prog.run11, DF.init]
  | .step p s, h => by
    obtain ⟨hi, he, hl⟩ := tree_run env p h.1
    have hs : s.WF (p.run11 env).eval.cols := by rw [he]; exact h.2.1
    have hno : s.isOrderBy = true → (p.run11 env).last ≠ .orderBy := fun ho => hl (h.2.2 ho)
    obtain ⟨he', hi', hl'⟩ := C01_step (p.run11 env) s hi hs hno rfl
    simp only [Prog.run11, Prog.sem, apply11_eq_apply, topOrderBy_step]
    exact ⟨hi', by rw [he', he], hl'⟩
  | .setop m l r, h => by
    obtain ⟨hil, hel, _⟩ := tree_run env l h.1
    obtain ⟨hir, her, _⟩ := tree_run env r h.2.1
    obtain ⟨hf, he, hl⟩ := setop11_df m _ _ hil hir (by rw [hel, her]; exact h.2.2)
    simp only [Prog.run11, Prog.sem]
    exact ⟨hf.inv, by rw [he, hel, her], fun _ => by rw [hl]; decide⟩
  | .byName am l r, h => by
    obtain ⟨hil, hel, _⟩ := tree_run env l h.1
    obtain ⟨hir, her, _⟩ := tree_run env r h.2.1
    obtain ⟨hf, he, hl⟩ := unionByName11_df am _ _ hil hir (by rw [hel, her]; exact h.2.2)
    simp only [Prog.run11, Prog.sem]
    exact ⟨hf.inv, by rw [he, hel, her], fun _ => by rw [hl]; decide⟩

end Sqlframe
