/-
Lemmas/C01Memo.lean — when is a remembered column list harmless?  Exactly when nobody writes into it.
-/
import SqlframeModel.Impl.C01Memo
import SqlframeModel.Lemmas.C01Steps
namespace Sqlframe
open Gen

/-! ### built from the recomputed list, the projection lists are those of `DF.apply` -/

theorem withColItemsC_fresh (ns : List Name) (n : Name) (e : Expr) :
    withColItemsC (identSel ns) n e = withColItems ns n e := by
  unfold withColItemsC withColItems
  rw [identSel_names]
  by_cases h : n ∈ ns
  · rw [if_pos h, if_pos h]
    simp only [identSel, List.map_map]
    apply List.map_congr_left
    intro c _
    by_cases hc : c = n <;> simp [hc, Function.comp]
  · rw [if_neg h, if_neg h]

theorem renameItemsC_fresh (ns : List Name) (a b : Name) :
    renameItemsC (identSel ns) a b = renameItems ns a b := by
  simp [renameItemsC, renameItems, identSel, List.map_map, Function.comp]

theorem dropItemsC_fresh (ns xs : List Name) : dropItemsC (identSel ns) xs = dropItems ns xs := by
  simp only [dropItemsC, dropItems, identSel, List.filter_map]
  rfl

theorem fillItemsC_fresh (ns : List Name) (v : Val) (sub : List Name) :
    fillItemsC (identSel ns) v sub = fillItems ns v sub := by
  simp only [fillItemsC, fillItems, identSel, List.map_map]
  apply List.map_congr_left
  intro c _
  by_cases hc : c ∈ sub <;> simp [hc, Function.comp]

theorem replaceItemsC_fresh (ns : List Name) (pairs : List (Val × Val)) (sub : List Name) :
    replaceItemsC (identSel ns) pairs sub = replaceItems ns pairs sub := by
  simp only [replaceItemsC, replaceItems, identSel, List.map_map]
  apply List.map_congr_left
  intro c _
  by_cases hc : c ∈ sub <;> simp [hc, Function.comp]

/-- reading the recomputed list is `DF.apply` -/
theorem applyWith_fresh (d : DF) (s : Step) : d.applyWith freshCols s = d.apply s := by
  cases s <;>
    simp only [DF.applyWith, DF.apply, freshCols, withColItemsC_fresh, renameItemsC_fresh, dropItemsC_fresh,
      fillItemsC_fresh, replaceItemsC_fresh]

/-! ### the memo invariant: every remembered entry is what would be recomputed -/

def MemoOK (M : Memo) : Prop := ∀ k v, M.lookup k = some v → v = identSel (k.2.sel.map (·.1))

theorem memoOK_nil : MemoOK [] := by intro k v h; simp at h

theorem colsAt_ok (memo : Bool) (M : Memo) (h : MemoOK M) : colsAt memo M = freshCols := by
  funext d
  unfold colsAt
  cases memo with
  | false => rfl
  | true =>
    simp only [if_true]
    cases hl : M.lookup d.key with
    | none => rfl
    | some v => exact h _ _ hl

/-- one call: with an untouched memo, or no memo at all, the result is `DF.apply`'s and the memo stays untouched -/
theorem stepM_sound (memo inpl : Bool) (hf : memo = false ∨ inpl = false) (M : Memo) (hM : MemoOK M) (d : DF) (s : Step) :
    (stepM memo inpl M d s).1 = d.apply s ∧ (stepM memo inpl M d s).2 = M := by
  have hand : (memo && inpl) = false := by rcases hf with h | h <;> simp [h]
  refine ⟨?_, ?_⟩
  · simp only [stepM, colsAt_ok memo M hM, applyWith_fresh]
  · cases s <;> simp [stepM, hand]

theorem runHistory_sound (memo inpl : Bool) (hf : memo = false ∨ inpl = false) (calls : List (DF × Step)) :
    ∀ (M : Memo), MemoOK M → runHistory memo inpl M calls = calls.map (fun c => c.1.apply c.2) := by
  induction calls with
  | nil => intro _ _; rfl
  | cons c rest ih =>
    intro M hM
    obtain ⟨d, s⟩ := c
    obtain ⟨h1, h2⟩ := stepM_sound memo inpl hf M hM d s
    simp only [runHistory, List.map_cons, h1, h2]
    rw [ih M hM]

theorem runChainM_sound (memo inpl : Bool) (hf : memo = false ∨ inpl = false) (steps : List Step) :
    ∀ (M : Memo) (d : DF), MemoOK M → runChainM memo inpl M d steps = (d.run steps, M) := by
  induction steps with
  | nil => intro _ _ _; rfl
  | cons s ss ih =>
    intro M d hM
    obtain ⟨h1, h2⟩ := stepM_sound memo inpl hf M hM d s
    simp only [runChainM, h1, h2, DF.run, List.foldl_cons]
    rw [ih M _ hM]
    rfl

theorem runScenarioFrom_sound (memo inpl : Bool) (hf : memo = false ∨ inpl = false) (T : Table) (chains : List (List Step)) :
    ∀ (M : Memo), MemoOK M → runScenarioFrom memo inpl T M chains = chains.map (fun c => ((DF.init T).run c).eval) := by
  induction chains with
  | nil => intro _ _; rfl
  | cons c cs ih =>
    intro M hM
    simp only [runScenarioFrom, List.map_cons, runChainM_sound memo inpl hf c M _ hM]
    rw [ih M hM]

end Sqlframe
