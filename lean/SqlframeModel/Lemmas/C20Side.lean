/-
Lemmas/C20Side.lean — frame lemmas for the parts of the state that imports and (de)activation never write: the session
singleton, the class-level builders and the caller's config dicts; the conn/config statements of `activate` and the
caller's dicts; the guarded body of `DuckDBSession.__init__` and the attribute its guard looks at.
-/
import SqlframeModel.Lemmas.C20
namespace Sqlframe.C20
open Sqlframe.Gen.Act Sqlframe.Gen.ActS

/-- `b` has the singleton, the builders and the caller's dicts of `a` -/
structure SideEq (a b : State) : Prop where
  inst : b.inst = a.inst
  builders : b.builders = a.builders
  caller : b.caller = a.caller

theorem SideEq.rfl' (a : State) : SideEq a a := ⟨rfl, rfl, rfl⟩
theorem SideEq.trans {a b c : State} (h1 : SideEq a b) (h2 : SideEq b c) : SideEq a c :=
  ⟨h2.inst.trans h1.inst, h2.builders.trans h1.builders, h2.caller.trans h1.caller⟩

/-! ### imports -/

theorem realImport_side (env : Env) (st : State) (key : String) : SideEq st (realImport env st key).1 := by
  unfold realImport
  split
  · exact SideEq.rfl' st
  · simp only
    split <;> exact ⟨rfl, rfl, rfl⟩

theorem importCanon_side (st : State) (e f : String) : SideEq st (importCanon st e f).1 := by
  unfold importCanon
  split
  · exact SideEq.rfl' st
  · split
    · split
      · exact SideEq.rfl' st
      · exact ⟨rfl, rfl, rfl⟩
    · exact SideEq.rfl' st

theorem setPkgAttr_side (st : State) (e n : String) (o : Obj) : SideEq st (setPkgAttr st e n o) := ⟨rfl, rfl, rfl⟩
theorem setFileAttr_side (st : State) (e f n : String) (o : Obj) : SideEq st (setFileAttr st e f n o) := ⟨rfl, rfl, rfl⟩

theorem loadChild_side (env : Env) (st : State) (pk c : String) : SideEq st (loadChild env st pk c).1 := by
  unfold loadChild
  simp only
  split
  · exact SideEq.rfl' st
  · split
    · split
      · exact ⟨rfl, rfl, rfl⟩
      · exact SideEq.rfl' st
    · exact realImport_side env st _
    · exact SideEq.rfl' st

theorem loadTop_side (env : Env) (st : State) (top : String) : SideEq st (loadTop env st top).1 := by
  unfold loadTop
  split
  · exact SideEq.rfl' st
  · exact realImport_side env st _

theorem gcdGo_side (env : Env) (rest : List String) : ∀ (st : State) (pk : String) (o : Obj),
    SideEq st (gcdGo env st pk o rest).1 := by
  induction rest with
  | nil => intro st pk o; exact SideEq.rfl' st
  | cons c rest ih =>
    intro st pk o
    have h1 := loadChild_side env st pk c
    unfold gcdGo
    cases h : loadChild env st pk c with
    | mk st1 r =>
      rw [h] at h1
      cases r with
      | error x => exact h1
      | ok o' => exact SideEq.trans h1 (ih st1 _ o')

theorem gcdImport_side (env : Env) (st : State) (path : List String) : SideEq st (gcdImport env st path).1 := by
  cases path with
  | nil => exact SideEq.rfl' st
  | cons top rest =>
    have h1 := loadTop_side env st top
    simp only [gcdImport]
    cases h : loadTop env st top with
    | mk st1 r =>
      rw [h] at h1
      cases r with
      | error x => exact h1
      | ok o => exact SideEq.trans h1 (gcdGo_side env rest st1 top o)

theorem userImport_side (env : Env) (st : State) (f : ImportForm) : SideEq st (userImport env st f).1 := by
  cases f with
  | importModule path => exact gcdImport_side env st path
  | importAs path =>
    have h1 := gcdImport_side env st path
    simp only [userImport]
    cases h : gcdImport env st path with
    | mk st1 r =>
      rw [h] at h1
      cases r with
      | error x => exact h1
      | ok o =>
        simp only
        cases path with
        | nil => exact h1
        | cons top rest =>
          simp only
          split <;> exact h1
  | fromImport path name =>
    have h1 := gcdImport_side env st path
    simp only [userImport]
    cases h : gcdImport env st path with
    | mk st1 r =>
      rw [h] at h1
      cases r with
      | error x => exact h1
      | ok m =>
        simp only
        split
        · -- the attribute exists
          split
          · split
            · exact h1
            · split
              · next heq =>
                have h2 := congrArg Prod.fst heq
                simp only at h2
                simp only
                rw [← h2]
                exact SideEq.trans h1 (realImport_side _ _ _)
              · next heq =>
                have h2 := congrArg Prod.fst heq
                simp only at h2
                simp only
                rw [← h2]
                exact SideEq.trans h1 (realImport_side _ _ _)
          · exact h1
        · split
          · split
            · next heq =>
              have h2 := congrArg Prod.fst heq
              simp only at h2
              simp only
              rw [← h2]
              exact SideEq.trans h1 (importCanon_side _ _ _)
            · next heq =>
              have h2 := congrArg Prod.fst heq
              simp only at h2
              simp only
              rw [← h2]
              exact SideEq.trans h1 (importCanon_side _ _ _)
          · exact h1

/-! ### activate -/

theorem loopStep_side (e pre : String) (st : State) (res : List String) (kv : String × Obj)
    (st' : State) (res' : List String) (h : loopStep e pre (st, res) kv = some (st', res')) : SideEq st st' := by
  unfold loopStep at h
  simp only at h
  split at h
  · cases h; exact SideEq.rfl' st
  · have h2 := importCanon_side (setPkgAttr st e (unprefixed pre kv.1) kv.2) e (fileFor (unprefixed pre kv.1))
    cases hc : importCanon (setPkgAttr st e (unprefixed pre kv.1) kv.2) e (fileFor (unprefixed pre kv.1)) with
    | mk st1 r =>
      rw [hc] at h h2
      cases r with
      | error x => simp at h
      | ok o =>
        simp only at h
        split at h
        · simp only [Option.some.injEq, Prod.mk.injEq] at h
          rw [← h.1]
          exact SideEq.trans (SideEq.trans (setPkgAttr_side st e _ _) h2) ⟨rfl, rfl, rfl⟩
        · simp only [Option.some.injEq, Prod.mk.injEq] at h
          rw [← h.1]
          exact SideEq.trans (SideEq.trans (setPkgAttr_side st e _ _) h2) ⟨rfl, rfl, rfl⟩

theorem loopRun_side (e pre : String) (l : List (String × Obj)) : ∀ (st : State) (res : List String),
    SideEq st (loopRun e pre (st, res) l).1 := by
  induction l with
  | nil => intro st res; exact SideEq.rfl' st
  | cons kv rest ih =>
    intro st res
    unfold loopRun
    cases h : loopStep e pre (st, res) kv with
    | none => exact ⟨rfl, rfl, rfl⟩
    | some acc =>
      obtain ⟨st', res'⟩ := acc
      exact SideEq.trans (loopStep_side e pre st res kv st' res' h) (ih st' res')

theorem ensurePkg_side (st : State) (e : String) : SideEq st (ensurePkg st e) := by
  unfold ensurePkg; split <;> exact ⟨rfl, rfl, rfl⟩

theorem activateEngine_side (e pre : String) (st : State) : SideEq st (activateEngine e pre st).1 := by
  unfold activateEngine
  simp only [preimportFunctions, setsSql, setsTop, mockSql, if_true, Bool.and_self]
  refine SideEq.trans ?_ (loopRun_side e pre _ _ _)
  exact SideEq.trans (SideEq.trans (ensurePkg_side st e) (importCanon_side _ e "functions")) ⟨rfl, rfl, rfl⟩

/-! ### the conn / config statements and the caller's dicts -/

/-- static check of the generated statements: a store into the local `config` happens only after the local has been
    rebound to a copy (`own`: the local is certainly not the caller's dict) -/
def aliasFree : List CfgStmt → Bool → Bool
  | [], _ => true
  | .rebind copy :: r, own => aliasFree r (own || copy)
  | .connToLocal _ :: r, own => own && aliasFree r own
  | _ :: r, own => aliasFree r own

def Loc.isAlias : Loc → Bool
  | .alias _ => true
  | _ => false

theorem storeCfg_caller (conn : Option Nat) (ss : List CfgStmt) : ∀ (acc : State × Loc) (own : Bool),
    aliasFree ss own = true → (own = true → acc.2.isAlias = false) →
    (storeCfg conn ss acc).1.caller = acc.1.caller := by
  induction ss with
  | nil => intro acc own _ _; rfl
  | cons s rest ih =>
    intro acc own hfree hown
    simp only [storeCfg]
    cases s with
    | rebind copy =>
      simp only [aliasFree] at hfree
      have hc : (cfgStep conn acc (.rebind copy)).1.caller = acc.1.caller := by
        unfold cfgStep; simp only; split <;> (try split) <;> rfl
      rw [ih _ (own || copy) hfree ?_, hc]
      intro ho
      unfold cfgStep
      simp only
      split
      · rfl
      · split
        · rfl
        · rename_i hcopy
          have : own = true := by
            cases own with
            | true => rfl
            | false => simp at ho; exact absurd ho hcopy
          exact hown this
    | connToGlobal k =>
      simp only [aliasFree] at hfree
      have hc : (cfgStep conn acc (.connToGlobal k)).1.caller = acc.1.caller ∧ (cfgStep conn acc (.connToGlobal k)).2 = acc.2 := by
        unfold cfgStep; cases conn <;> exact ⟨rfl, rfl⟩
      rw [ih _ own hfree (by rw [hc.2]; exact hown), hc.1]
    | itemsToGlobal =>
      simp only [aliasFree] at hfree
      exact (ih (cfgStep conn acc .itemsToGlobal) own hfree hown).trans rfl
    | connToLocal k =>
      simp only [aliasFree, Bool.and_eq_true] at hfree
      have hno : acc.2.isAlias = false := hown hfree.1
      have hc : (cfgStep conn acc (.connToLocal k)).1.caller = acc.1.caller ∧
          (cfgStep conn acc (.connToLocal k)).2.isAlias = false := by
        obtain ⟨st, loc⟩ := acc
        cases loc with
        | alias d => simp [Loc.isAlias] at hno
        | none => unfold cfgStep; cases conn <;> exact ⟨rfl, rfl⟩
        | fresh c => unfold cfgStep; cases conn <;> exact ⟨rfl, rfl⟩
      rw [ih _ own hfree.2 (fun _ => hc.2), hc.1]

theorem callerIntact_ensure (st : State) (d : String) (h : callerIntact st = true) :
    callerIntact (ensureCaller st d) = true := by
  unfold ensureCaller
  split
  · exact h
  · rename_i hnone
    unfold callerIntact at h ⊢
    simp only
    -- appended at the end: the key is not present
    have : ∀ (m : List (String × List (String × Cfg))), (aget m d).isSome = false →
        m.all (fun dc => dc.2 == callerInit dc.1) = true →
        (aset m d (callerInit d)).all (fun dc => dc.2 == callerInit dc.1) = true := by
      intro m
      induction m with
      | nil => intro _ _; simp [aset]
      | cons x t ih =>
        intro hn hall
        obtain ⟨k, v⟩ := x
        simp only [aget] at hn
        simp only [List.all_cons, Bool.and_eq_true] at hall
        by_cases hk : k = d
        · simp [hk] at hn
        · simp only [hk, if_false] at hn
          simp only [aset, hk, if_false, List.all_cons, Bool.and_eq_true]
          exact ⟨hall.1, ih hn hall.2⟩
    exact this st.caller (by simpa using hnone) h

/-- **the statements as generated never write into the caller's dict** -/
theorem activatePre_callerIntact (hfree : aliasFree cfgStmts false = true) (c : Option Nat) (d : Option String)
    (st : State) (h : callerIntact st = true) : callerIntact (activatePre c d st) = true := by
  unfold activatePre
  simp only [setsTop, setsTesting, if_true]
  cases d with
  | none =>
    simp only
    unfold callerIntact
    rw [storeCfg_caller c cfgStmts _ false hfree (fun h => by cases h)]
    exact h
  | some d =>
    simp only
    unfold callerIntact
    rw [storeCfg_caller c cfgStmts _ false hfree (fun h => by cases h)]
    exact callerIntact_ensure _ d h

theorem activatePre_side2 (c : Option Nat) (d : Option String) (st : State) :
    (activatePre c d st).inst = st.inst ∧ (activatePre c d st).builders = st.builders := by
  unfold activatePre
  simp only [setsTop, setsTesting, if_true]
  cases d with
  | none =>
    obtain ⟨_, _, _, _, h5, h6, _⟩ := storeCfg_frame c cfgStmts
      ({ st with mods := aset (aset st.mods "pyspark" .mock) "pyspark.testing" .testing, mockSql := none, mockTesting := mockTesting }, Loc.none)
    exact ⟨h5, h6⟩
  | some d =>
    obtain ⟨_, _, _, _, h5, h6, _⟩ := storeCfg_frame c cfgStmts
      (ensureCaller { st with mods := aset (aset st.mods "pyspark" .mock) "pyspark.testing" .testing, mockSql := none, mockTesting := mockTesting } d, Loc.alias d)
    obtain ⟨_, _, _, _, e5, e6, _⟩ := ensureCaller_frame
      { st with mods := aset (aset st.mods "pyspark" .mock) "pyspark.testing" .testing, mockSql := none, mockTesting := mockTesting } d
    exact ⟨h5.trans e5, h6.trans e6⟩

/-- what every event except session creation preserves -/
structure Keeps (a b : State) : Prop where
  inst : b.inst = a.inst
  builders : b.builders = a.builders
  caller : callerIntact a = true → callerIntact b = true

theorem Keeps.rfl' (a : State) : Keeps a a := ⟨rfl, rfl, fun h => h⟩
theorem Keeps.trans {a b c : State} (h1 : Keeps a b) (h2 : Keeps b c) : Keeps a c :=
  ⟨h2.inst.trans h1.inst, h2.builders.trans h1.builders, fun h => h2.caller (h1.caller h)⟩
theorem Keeps.of_side {a b : State} (h : SideEq a b) : Keeps a b :=
  ⟨h.inst, h.builders, fun hc => by unfold callerIntact at hc ⊢; rw [h.caller]; exact hc⟩

theorem activate_keeps (hfree : aliasFree cfgStmts false = true) (env : Env) (eng : Option String) (c : Option Nat)
    (d : Option String) (st : State) : Keeps st (activate env eng c d st).1 := by
  have hpre : Keeps st (activatePre c d st) :=
    ⟨(activatePre_side2 c d st).1, (activatePre_side2 c d st).2, activatePre_callerIntact hfree c d st⟩
  unfold activate
  simp only
  cases eng with
  | none => exact hpre
  | some e0 =>
    simp only
    split
    · exact hpre
    · split
      · exact hpre
      · exact Keeps.trans hpre (Keeps.of_side (activateEngine_side _ _ _))

/-! ### deactivate / activate_context -/

theorem reimport_side (env : Env) (caught : List Exc) (coll : List String) : ∀ st : State,
    SideEq st (reimport env caught st coll).1 := by
  induction coll with
  | nil => intro st; exact SideEq.rfl' st
  | cons k rest ih =>
    intro st
    have h1 := gcdImport_side env st (splitDots k)
    unfold reimport
    cases h : gcdImport env st (splitDots k) with
    | mk st1 r =>
      rw [h] at h1
      cases r with
      | ok o =>
        simp only
        exact SideEq.trans h1 (SideEq.trans (b := { st1 with mods := aset st1.mods k o }) ⟨rfl, rfl, rfl⟩ (ih _))
      | error x =>
        simp only
        split
        · exact SideEq.trans h1 (ih _)
        · exact h1

theorem deactRun_side (env : Env) (steps : List DeactStep) : ∀ (coll : List String) (st : State),
    SideEq st (deactRun env steps coll st).1 := by
  induction steps with
  | nil => intro coll st; exact SideEq.rfl' st
  | cons s rest ih =>
    intro coll st
    cases s with
    | collect t => simp only [deactRun]; exact ih _ st
    | deleteCollected =>
      simp only [deactRun]
      exact SideEq.trans (b := { st with mods := st.mods.filter (fun kv => !coll.contains kv.1),
                                         cur := if coll.contains "pyspark.sql" then none else st.cur }) ⟨rfl, rfl, rfl⟩ (ih coll _)
    | clearConfig =>
      simp only [deactRun]
      exact SideEq.trans (b := { st with config := [] }) ⟨rfl, rfl, rfl⟩ (ih coll _)
    | reimportCollected caught =>
      have h1 := reimport_side env caught coll st
      unfold deactRun
      cases h : reimport env caught st coll with
      | mk st1 r =>
        rw [h] at h1
        cases r with
        | some x => exact h1
        | none => exact SideEq.trans h1 (ih coll st1)

theorem deactivate_side (env : Env) (st : State) : SideEq st (deactivate env st).1 := deactRun_side env _ _ st

theorem runCalls_keeps (hfree : aliasFree cfgStmts false = true) (env : Env) (eng : Option String) (c : Option Nat)
    (d : Option String) (calls : List CtxCall) : ∀ st : State, Keeps st (runCalls env eng c d calls st).1 := by
  induction calls with
  | nil => intro st; exact Keeps.rfl' st
  | cons call rest ih =>
    intro st
    have h1 : Keeps st (runCall env eng c d call st).1 := by
      cases call with
      | activate => exact activate_keeps hfree env eng c d st
      | deactivate => exact Keeps.of_side (deactivate_side env st)
    unfold runCalls
    cases h : runCall env eng c d call st with
    | mk st1 r =>
      rw [h] at h1
      cases r with
      | some x => exact h1
      | none => exact Keeps.trans h1 (ih st1)

theorem ctxEnter_keeps (hfree : aliasFree cfgStmts false = true) (env : Env) (eng : Option String) (c : Option Nat)
    (d : Option String) (st : State) : Keeps st (ctxEnter env eng c d st).1 := by
  have h1 := runCalls_keeps hfree env eng c d ctxIR.pre st
  unfold ctxEnter
  cases h : runCalls env eng c d ctxIR.pre st with
  | mk st1 r =>
    rw [h] at h1
    cases r with
    | none => exact Keeps.trans h1 ⟨rfl, rfl, fun hc => hc⟩
    | some x =>
      simp only
      split
      · exact Keeps.trans h1 (runCalls_keeps hfree env none none none ctxIR.fin st1)
      · exact h1

theorem ctxExit_keeps (hfree : aliasFree cfgStmts false = true) (env : Env) (k : ExitKind) (st : State) :
    Keeps st (ctxExit env k st).1 := by
  unfold ctxExit
  cases hc : st.ctx with
  | zero => exact Keeps.rfl' st
  | succ n =>
    simp only
    have h0 : Keeps st { st with ctx := n } := ⟨rfl, rfl, fun h => h⟩
    have h1 := runCalls_keeps hfree env none none none (exitSegment ctxIR k) { st with ctx := n }
    have h2 := runCalls_keeps hfree env none none none ctxIR.fin (runCalls env none none none (exitSegment ctxIR k) { st with ctx := n }).1
    exact Keeps.trans h0 (Keeps.trans h1 h2)

/-! ### session creation -/

/-- the generated body sets `_connection` (the base initialiser) only after every use of the connection that may
    raise: an `__init__` that fails leaves an object the guard still sees as uninitialised -/
def marksLast : List InitStep → Bool
  | [] => true
  | .superInit _ :: r => r.all (fun s => match s with | .useConn _ _ => false | _ => true)
  | _ :: r => marksLast r

theorem runInit_noUse (env : Env) (r : List InitStep)
    (h : r.all (fun s => match s with | .useConn _ _ => false | _ => true) = true) :
    ∀ (loc : ConnV) (a : Option ConnV), (runInit env r loc a).2 = none := by
  induction r with
  | nil => intro loc a; rfl
  | cons s rest ih =>
    intro loc a
    simp only [List.all_cons, Bool.and_eq_true] at h
    cases s with
    | useConn v c => simp at h
    | defaultConn => exact ih h.2 _ _
    | superInit dflt => exact ih h.2 _ _
    | setAttr n => exact ih h.2 _ _

/-- if the body raises, `_connection` has not been set -/
theorem runInit_raise_unset (env : Env) (steps : List InitStep) (h : marksLast steps = true) :
    ∀ (loc : ConnV) (x : Exc), (runInit env steps loc none).2 = some x → (runInit env steps loc none).1 = none := by
  induction steps with
  | nil => intro loc x hx; rfl
  | cons s rest ih =>
    intro loc x hx
    cases s with
    | defaultConn => exact ih h _ x hx
    | setAttr n => exact ih h _ x hx
    | superInit dflt =>
      simp only [marksLast] at h
      have := runInit_noUse env rest h loc
      simp only [runInit] at hx
      rw [this] at hx
      cases hx
    | useConn v caught =>
      simp only [marksLast] at h
      cases v with
      | true =>
        simp only [runInit, if_true, Option.getD_none] at hx ⊢
        by_cases h2 : (caught.any fun x => catches x Exc.attributeError) = true
        · simp only [if_pos h2] at hx ⊢; exact ih h _ x hx
        · simp only [if_neg h2]
      | false =>
        simp only [runInit, Bool.false_eq_true, if_false] at hx ⊢
        by_cases h1 : loc = ConnV.none
        · simp only [if_pos h1] at hx ⊢
          by_cases h2 : (caught.any fun x => catches x Exc.attributeError) = true
          · simp only [if_pos h2] at hx ⊢; exact ih h _ x hx
          · simp only [if_neg h2]
        · simp only [if_neg h1] at hx ⊢
          by_cases h2 : (connIsBad env loc && !caught.any fun x => catches x Exc.exception) = true
          · simp only [if_pos h2]
          · simp only [if_neg h2] at hx ⊢; exact ih h _ x hx

/-- a `DuckDBSession.__init__` that raises leaves the object without `_connection` -/
theorem initInstance_raise (hm : marksLast duckInit = true) (env : Env) (e : String) (b : Builder) (e' : String) (x : Exc)
    (h : (initInstance env e b (.allocated e')).2 = some x) :
    (initInstance env e b (.allocated e')).1 = .allocated e' ∧ e' = e ∧ e = "duckdb" := by
  unfold initInstance at h ⊢
  by_cases he : e' ≠ e
  · simp only [if_pos he] at h; cases h
  · simp only [if_neg he] at h ⊢
    have he' : e' = e := Classical.not_not.mp he
    by_cases hd : e = "duckdb"
    · simp only [if_pos hd] at h ⊢
      cases hr : runInit env duckInit (builderConn b) none with
      | mk a r =>
        rw [hr] at h
        have h1 := runInit_raise_unset env duckInit hm (builderConn b)
        rw [hr] at h1
        cases a with
        | none => simp only at h ⊢; exact ⟨by rw [he'], he', hd⟩
        | some c =>
          simp only at h
          have := h1 x h
          cases this
    · simp only [if_neg hd] at h; cases h

theorem createVia_side (env : Env) (e : String) (st : State) : (createVia env e st).1.caller = st.caller := by
  unfold createVia
  simp only
  split
  · rfl
  · split <;> rfl

/-- a `getOrCreate()` that does not return a session leaves no usable session object behind -/
theorem createVia_pristine (hm : marksLast duckInit = true) (env : Env) (e : String) (st : State)
    (hp : st.inst.pristine = true) (hno : ∀ e' c d, (createVia env e st).2 ≠ .session e' c d) :
    (createVia env e st).1.inst.pristine = true := by
  unfold createVia at hno ⊢
  simp only at hno ⊢
  split
  · exact hp
  · rename_i hvalid
    simp only [hvalid, if_false, Bool.false_eq_true] at hno
    -- the object `__new__` returns
    have hs1 : ∃ e1, newObject e st.inst = .allocated e1 ∧ (e1 = e ∨ e1 = "duckdb") := by
      cases hi : st.inst with
      | absent => exact ⟨e, by simp [newObject, singletonInNew], Or.inl rfl⟩
      | allocated e1 =>
        rw [hi] at hp
        simp only [Single.pristine, beq_iff_eq] at hp
        exact ⟨e1, rfl, Or.inr hp⟩
      | ready i => rw [hi] at hp; simp [Single.pristine] at hp
    obtain ⟨e1, hs1, he1⟩ := hs1
    rw [hs1] at hno ⊢
    cases hr : initInstance env e (applyCfg (getBuilder st e) st.config) (.allocated e1) with
    | mk s2 r =>
      rw [hr] at hno
      cases r with
      | some x =>
        simp only
        have := initInstance_raise hm env e _ e1 x (by rw [hr])
        rw [hr] at this
        simp only at this
        rw [this.1, this.2.1, this.2.2]
        rfl
      | none =>
        cases s2 with
        | ready i => exact absurd rfl (hno _ _ _)
        | allocated e2 => exact absurd rfl (hno _ _ _)
        | absent => exact hp

/-- the duckdb engine's `getOrCreate()` with a usable connection in the builder, while no usable session object
    exists, yields a DuckDB session on that connection with the builder's dialect -/
theorem createVia_good (env : Env) (st : State) (n : Nat)
    (hp : st.inst.pristine = true)
    (hc : (applyCfg (getBuilder st "duckdb") st.config).conn = some n)
    (hgood : env.badConns.contains n = false)
    (hd : validDialects.contains (applyCfg (getBuilder st "duckdb") st.config).dialect = true)
    (hinit : (runInit env duckInit (.given n) none) = (some (.given n), none)) :
    (createVia env "duckdb" st).2 = .session "duckdb" (.given n) (applyCfg (getBuilder st "duckdb") st.config).dialect := by
  unfold createVia
  simp only [hd, Bool.not_true, Bool.false_eq_true, if_false]
  have hs1 : newObject "duckdb" st.inst = .allocated "duckdb" := by
    cases hi : st.inst with
    | absent => simp [newObject, singletonInNew]
    | allocated e1 =>
      rw [hi] at hp
      simp only [Single.pristine, beq_iff_eq] at hp
      rw [hp]; rfl
    | ready i => rw [hi] at hp; simp [Single.pristine] at hp
  rw [hs1]
  have : initInstance env "duckdb" (applyCfg (getBuilder st "duckdb") st.config) (.allocated "duckdb") =
      (.ready { engine := "duckdb", conn := .given n, dialect := defaultInputDialect }, none) := by
    have hbc : builderConn (applyCfg (getBuilder st "duckdb") st.config) = .given n := by
      unfold builderConn; rw [hc]
    unfold initInstance
    simp only [ne_eq, not_true_eq_false, if_false, if_true, hbc, hinit]
    simp
  rw [this]

end Sqlframe.C20
