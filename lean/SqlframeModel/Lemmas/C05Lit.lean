/-
Lemmas/C05Lit.lean — the literal conversion is faithful: the engine's lexer reads Python's spelling of
every int (`str`) and of every finite float (`repr`, in each of its four layouts: exponent form,
`0.00ddd`, `ddd.ddd`, `ddd000.0`) back as exactly the number it spells; and, for chains that satisfy
`litChainOK`, every None / bool / int / finite float / NaN / str is read back as itself at every call site.
-/
import SqlframeModel.Impl.C05Lit
namespace Sqlframe.C05
open Sqlframe

/-! ### digits -/

theorem charDigit_digitChar : ∀ d : Nat, d < 10 → charDigit? (digitChar d) = some d
  | 0, _ => rfl | 1, _ => rfl | 2, _ => rfl | 3, _ => rfl | 4, _ => rfl
  | 5, _ => rfl | 6, _ => rfl | 7, _ => rfl | 8, _ => rfl | 9, _ => rfl
  | n + 10, h => absurd h (by omega)

theorem digitsRev_lt10 : ∀ (f n : Nat), ∀ d ∈ digitsRev f n, d < 10 := by
  intro f
  induction f with
  | zero => intro n d h; simp [digitsRev] at h
  | succ f ih =>
    intro n d h
    unfold digitsRev at h
    split at h
    · simp at h; omega
    · simp at h
      rcases h with h | h
      · omega
      · exact ih _ _ h

theorem ofDigitsRev_digitsRev : ∀ (f n : Nat), n < f → ofDigitsRev (digitsRev f n) = n := by
  intro f
  induction f with
  | zero => intro n h; omega
  | succ f ih =>
    intro n h
    unfold digitsRev
    split
    · simp [ofDigitsRev]
    · simp only [ofDigitsRev]
      rw [ih (n / 10) (by omega)]
      omega

theorem digitsRev_ne_nil (f n : Nat) : digitsRev (f + 1) n ≠ [] := by
  unfold digitsRev
  split <;> simp

theorem natDigits_lt10 (n : Nat) : ∀ d ∈ natDigits n, d < 10 := by
  intro d h
  simp only [natDigits, List.mem_reverse] at h
  exact digitsRev_lt10 _ _ d h

theorem natDigits_ne_nil (n : Nat) : natDigits n ≠ [] := by
  simp only [natDigits, ne_eq, List.reverse_eq_nil_iff]
  exact digitsRev_ne_nil n n

theorem ofDigits_natDigits (n : Nat) : ofDigits (natDigits n) = n := by
  simp only [ofDigits, natDigits, List.reverse_reverse]
  exact ofDigitsRev_digitsRev (n + 1) n (by omega)

theorem ofDigitsRev_append (a b : List Nat) : ofDigitsRev (a ++ b) = ofDigitsRev a + 10 ^ a.length * ofDigitsRev b := by
  induction a with
  | nil => simp [ofDigitsRev]
  | cons d a ih =>
    simp only [List.cons_append, ofDigitsRev, ih, List.length_cons, Nat.pow_succ]
    rw [Nat.mul_add, Nat.mul_comm (10 ^ a.length) 10, Nat.mul_assoc]
    omega

theorem ofDigits_snoc (ds : List Nat) (d : Nat) : ofDigits (ds ++ [d]) = 10 * ofDigits ds + d := by
  simp [ofDigits, ofDigitsRev]
  omega

theorem ofDigits_cons_zero (ds : List Nat) : ofDigits (0 :: ds) = ofDigits ds := by
  simp [ofDigits, ofDigitsRev_append, ofDigitsRev]

theorem ofDigits_zeros_append (k : Nat) (ds : List Nat) : ofDigits (List.replicate k 0 ++ ds) = ofDigits ds := by
  induction k with
  | zero => simp
  | succ k ih => rw [List.replicate_succ, List.cons_append, ofDigits_cons_zero, ih]

theorem ofDigits_append_zeros (ds : List Nat) (k : Nat) : ofDigits (ds ++ List.replicate k 0) = ofDigits ds * 10 ^ k := by
  induction k with
  | zero => simp
  | succ k ih =>
    rw [List.replicate_succ', ← List.append_assoc, ofDigits_snoc, ih, Nat.pow_succ]
    rw [Nat.mul_comm 10, Nat.mul_assoc]
    omega


/-! ### the lexer on digit runs -/

/-- `rest` does not start with a digit -/
def noDigitHead : List Char → Prop
  | [] => True
  | c :: _ => charDigit? c = none

theorem spanDigits_show (ds : List Nat) (hd : ∀ d ∈ ds, d < 10) (rest : List Char) (hr : noDigitHead rest) :
    spanDigits (showDigits ds ++ rest) = (ds, rest) := by
  induction ds with
  | nil =>
    cases rest with
    | nil => rfl
    | cons c r => simp only [showDigits, List.map_nil, List.nil_append, spanDigits]; simp only [noDigitHead] at hr; rw [hr]
  | cons d ds ih =>
    have hd' : ∀ x ∈ ds, x < 10 := fun x hx => hd x (List.mem_cons_of_mem _ hx)
    have h1 := charDigit_digitChar d (hd d (List.mem_cons_self ..))
    have := ih hd'
    simp only [showDigits, List.map_cons, List.cons_append] at this ⊢
    simp only [spanDigits, h1, this]

theorem spanDigits_show_nil (ds : List Nat) (hd : ∀ d ∈ ds, d < 10) : spanDigits (showDigits ds) = (ds, []) := by
  have := spanDigits_show ds hd [] trivial
  simpa using this

/-! ### ints -/

theorem readUnsigned_digits (neg : Bool) (ds : List Nat) (hne : ds ≠ []) (hd : ∀ d ∈ ds, d < 10) :
    readUnsigned neg (showDigits ds) = some (.int (signed neg (ofDigits ds))) := by
  unfold readUnsigned
  rw [spanDigits_show_nil ds hd]
  cases ds with
  | nil => exact absurd rfl hne
  | cons d ds => simp

theorem readNumber_digitHead (d : Nat) (hd : d < 10) (cs : List Char) :
    readNumber (digitChar d :: cs) = readUnsigned false (digitChar d :: cs) := by
  match d, hd with
  | 0, _ => rfl | 1, _ => rfl | 2, _ => rfl | 3, _ => rfl | 4, _ => rfl
  | 5, _ => rfl | 6, _ => rfl | 7, _ => rfl | 8, _ => rfl | 9, _ => rfl
  | n + 10, h => exact absurd h (by omega)

theorem readNumber_digits (ds : List Nat) (hne : ds ≠ []) (hd : ∀ d ∈ ds, d < 10) :
    readNumber (showDigits ds) = readUnsigned false (showDigits ds) := by
  cases ds with
  | nil => exact absurd rfl hne
  | cons d ds => exact readNumber_digitHead d (hd d (List.mem_cons_self ..)) _

/-- **ints**: the engine reads Python's `str(i)` back as `i` -/
theorem readNumber_showInt (i : Int) : readNumber (showInt i) = some (.int i) := by
  unfold showInt
  split
  · next h =>
    show readUnsigned true _ = _
    rw [readUnsigned_digits true _ (natDigits_ne_nil _) (natDigits_lt10 _), ofDigits_natDigits]
    simp only [signed, if_true]
    congr 2
    omega
  · next h =>
    rw [readNumber_digits _ (natDigits_ne_nil _) (natDigits_lt10 _),
      readUnsigned_digits false _ (natDigits_ne_nil _) (natDigits_lt10 _), ofDigits_natDigits]
    simp only [signed]
    congr 2
    simp
    omega


/-! ### normalisation -/

theorem normAux_fuel : ∀ (f1 f2 : Nat) (m e : Int), m.natAbs < f1 → m.natAbs < f2 → normAux f1 m e = normAux f2 m e := by
  intro f1
  induction f1 with
  | zero => intro f2 m e h; omega
  | succ f1 ih =>
    intro f2 m e h1 h2
    cases f2 with
    | zero => omega
    | succ f2 =>
      unfold normAux
      split
      · rfl
      · split
        · next hm h10 => exact ih f2 (m / 10) (e + 1) (by omega) (by omega)
        · rfl

theorem mk_mul10 (m e : Int) : Dbl.mk (m * 10) e = Dbl.mk m (e + 1) := by
  by_cases hm : m = 0
  · subst hm; simp [Dbl.mk, normAux]
  · unfold Dbl.mk
    rw [show (m * 10).natAbs + 1 = ((m * 10).natAbs) + 1 from rfl]
    conv => lhs; unfold normAux
    have h1 : ¬ (m * 10 = 0) := by omega
    have h2 : m * 10 % 10 = 0 := by omega
    have h3 : m * 10 / 10 = m := by omega
    simp only [h1, h2, h3, if_false, if_true]
    exact normAux_fuel _ _ m (e + 1) (by omega) (by omega)

theorem mk_mul_pow10 (m e : Int) (k : Nat) : Dbl.mk (m * (10 : Int) ^ k) e = Dbl.mk m (e + k) := by
  induction k generalizing e with
  | zero => simp
  | succ k ih =>
    rw [Int.pow_succ, ← Int.mul_assoc, mk_mul10, ih]
    congr 1
    omega

theorem signed_mul (neg : Bool) (a b : Nat) : signed neg (a * b) = signed neg a * (b : Int) := by
  cases neg <;> simp [signed, Int.neg_mul]


/-! ### floats -/

theorem showDigits_append (a b : List Nat) : showDigits (a ++ b) = showDigits a ++ showDigits b := by
  simp [showDigits]

theorem pad2_lt10 (ds : List Nat) (hd : ∀ d ∈ ds, d < 10) : ∀ d ∈ pad2 ds, d < 10 := by
  intro d h
  unfold pad2 at h
  split at h
  · simp at h
    rcases h with h | h
    · omega
    · exact hd d h
  · exact hd d h

theorem pad2_ne_nil (ds : List Nat) (h : ds ≠ []) : pad2 ds ≠ [] := by
  unfold pad2
  split
  · simp
  · exact h

theorem ofDigits_pad2 (ds : List Nat) : ofDigits (pad2 ds) = ofDigits ds := by
  unfold pad2
  split
  · exact ofDigits_cons_zero ds
  · rfl

theorem replicate_zero_lt10 (k : Nat) : ∀ d ∈ List.replicate k 0, d < 10 := by
  intro d h
  have := List.eq_of_mem_replicate h
  omega

/-- the exponent part -/
theorem readExp_expText (neg : Bool) (ds : List Nat) (frac : Nat) (x : Int) :
    readExp neg ds frac (expText x) = some (.dbl (Dbl.mk (signed neg (ofDigits ds)) (x - frac))) := by
  have hsp := spanDigits_show_nil (pad2 (natDigits x.natAbs)) (pad2_lt10 _ (natDigits_lt10 _))
  have hne := pad2_ne_nil _ (natDigits_ne_nil x.natAbs)
  have hval : ofDigits (pad2 (natDigits x.natAbs)) = x.natAbs := by rw [ofDigits_pad2, ofDigits_natDigits]
  unfold expText
  by_cases hx : x < 0
  · simp only [hx, if_true, readExp, hsp]
    cases hp : pad2 (natDigits x.natAbs) with
    | nil => exact absurd hp hne
    | cons a as =>
      rw [hp] at hval
      simp only [List.isEmpty_cons, List.isEmpty_nil, Bool.not_true, Bool.or_self, Bool.false_eq_true, if_false, hval, signed, if_true]
      congr 3
      omega
  · simp only [hx, if_false, readExp, hsp]
    cases hp : pad2 (natDigits x.natAbs) with
    | nil => exact absurd hp hne
    | cons a as =>
      rw [hp] at hval
      simp only [List.isEmpty_cons, List.isEmpty_nil, Bool.not_true, Bool.or_self, Bool.false_eq_true, if_false, hval, signed]
      congr 3
      simp
      omega


theorem noDigitHead_dot (r : List Char) : noDigitHead ('.' :: r) := rfl
theorem noDigitHead_e (r : List Char) : noDigitHead ('e' :: r) := rfl

/-- `ip.fp` followed by nothing or an exponent -/
theorem readUnsigned_point (neg : Bool) (ip fp : List Nat) (hip : ip ≠ []) (hfp : fp ≠ [])
    (hdi : ∀ d ∈ ip, d < 10) (hdf : ∀ d ∈ fp, d < 10) (tail : List Char) (ht : noDigitHead tail) :
    readUnsigned neg (showDigits ip ++ '.' :: (showDigits fp ++ tail)) = readExp neg (ip ++ fp) fp.length tail := by
  unfold readUnsigned
  rw [spanDigits_show ip hdi _ (noDigitHead_dot _)]
  cases ip with
  | nil => exact absurd rfl hip
  | cons a as =>
    simp only [List.isEmpty_cons, Bool.false_eq_true, if_false]
    rw [spanDigits_show fp hdf tail ht]
    cases fp with
    | nil => exact absurd rfl hfp
    | cons b bs => simp

theorem noDigitHead_expText (x : Int) : noDigitHead (expText x) := rfl

theorem readExp_nil (neg : Bool) (ds : List Nat) (frac : Nat) :
    readExp neg ds frac [] = some (.dbl (Dbl.mk (signed neg (ofDigits ds)) (-(frac : Int)))) := rfl

/-- **floats**: the engine reads Python's `repr` of a non-negative finite float back as the decimal it spells -/
theorem readUnsigned_floatBody (neg : Bool) (ds : List Nat) (pt : Int) (hne : ds ≠ []) (hd : ∀ d ∈ ds, d < 10) :
    readUnsigned neg (floatBody ds pt) = some (.dbl (Dbl.mk (signed neg (ofDigits ds)) (pt - ds.length))) := by
  unfold floatBody
  split
  · -- exponent form
    cases ds with
    | nil => exact absurd rfl hne
    | cons d rest =>
      have hd0 : d < 10 := hd d (List.mem_cons_self ..)
      have hdr : ∀ x ∈ rest, x < 10 := fun x hx => hd x (List.mem_cons_of_mem _ hx)
      cases rest with
      | nil =>
        -- d e±XX
        simp only [List.isEmpty_nil, if_true, List.singleton_append]
        unfold readUnsigned
        have hs := spanDigits_show [d] (by simpa using hd0) (expText (pt - 1)) (noDigitHead_expText _)
        simp only [showDigits, List.map_cons, List.map_nil, List.singleton_append] at hs
        rw [hs]
        simp only [List.isEmpty_cons, Bool.false_eq_true, if_false]
        have := readExp_expText neg [d] 0 (pt - 1)
        simp only [expText] at this ⊢
        rw [this]
        congr 3
        simp
      | cons r rs =>
        simp only [List.isEmpty_cons, Bool.false_eq_true, if_false]
        have := readUnsigned_point neg [d] (r :: rs) (by simp) (by simp) (by simpa using hd0) hdr (expText (pt - 1)) (noDigitHead_expText _)
        simp only [showDigits, List.map_cons, List.map_nil, List.cons_append, List.nil_append] at this ⊢
        rw [this, readExp_expText]
        congr 3
        simp
        omega
  · split
    · -- 0.000ddd
      next h1 h2 =>
      have hz := replicate_zero_lt10 (-pt).toNat
      have hfp : ∀ d ∈ List.replicate (-pt).toNat 0 ++ ds, d < 10 := by
        intro d h
        rcases List.mem_append.mp h with h | h
        · exact hz d h
        · exact hd d h
      have := readUnsigned_point neg [0] (List.replicate (-pt).toNat 0 ++ ds) (by simp) (by simp [hne]) (by simp) hfp [] trivial
      have h0 : digitChar 0 = '0' := rfl
      simp only [showDigits_append, List.append_nil] at this
      simp only [showDigits, List.map_cons, List.map_nil, List.singleton_append, h0] at this ⊢
      rw [this, readExp_nil, ofDigits_cons_zero, ofDigits_zeros_append]
      congr 3
      rw [List.length_append, List.length_replicate]
      omega
    · split
      · -- ddd.ddd
        next h1 h2 h3 =>
        have hti : ∀ d ∈ ds.take pt.toNat, d < 10 := fun d h => hd d (List.mem_of_mem_take h)
        have hdi : ∀ d ∈ ds.drop pt.toNat, d < 10 := fun d h => hd d (List.mem_of_mem_drop h)
        have hpos : 0 < pt.toNat := by omega
        have htn : ds.take pt.toNat ≠ [] := by
          intro h
          have hl : (ds.take pt.toNat).length = min pt.toNat ds.length := List.length_take ..
          rw [h, List.length_nil] at hl
          omega
        have hdn : ds.drop pt.toNat ≠ [] := by
          intro h
          have hl : (ds.drop pt.toNat).length = ds.length - pt.toNat := List.length_drop ..
          rw [h, List.length_nil] at hl
          omega
        have := readUnsigned_point neg (ds.take pt.toNat) (ds.drop pt.toNat) htn hdn hti hdi [] trivial
        simp only [List.append_nil] at this
        rw [this, readExp_nil, List.take_append_drop]
        congr 3
        rw [List.length_drop]
        omega
      · -- ddd000.0
        next h1 h2 h3 =>
        have hz := replicate_zero_lt10 (pt.toNat - ds.length)
        have hip : ∀ d ∈ ds ++ List.replicate (pt.toNat - ds.length) 0, d < 10 := by
          intro d h
          rcases List.mem_append.mp h with h | h
          · exact hd d h
          · exact hz d h
        have := readUnsigned_point neg (ds ++ List.replicate (pt.toNat - ds.length) 0) [0] (by simp [hne]) (by simp) hip (by simp) [] trivial
        have h0 : digitChar 0 = '0' := rfl
        simp only [showDigits_append, List.append_nil] at this
        simp only [showDigits, List.map_cons, List.map_nil, List.append_assoc, h0] at this ⊢
        rw [this, readExp_nil]
        rw [← List.append_assoc, ofDigits_snoc, ofDigits_append_zeros]
        have hm : (10 * (ofDigits ds * 10 ^ (pt.toNat - ds.length)) + 0 : Nat) = ofDigits ds * 10 ^ (pt.toNat - ds.length + 1) := by
          rw [Nat.pow_succ, Nat.add_zero, Nat.mul_comm 10, Nat.mul_assoc]
        rw [hm, signed_mul]
        have hc : ((10 ^ (pt.toNat - ds.length + 1) : Nat) : Int) = (10 : Int) ^ (pt.toNat - ds.length + 1) := by
          simp
        rw [hc, mk_mul_pow10]
        congr 3
        simp only [List.length_singleton]
        clear hm hc
        omega


theorem floatBody_digitHead (ds : List Nat) (pt : Int) (hne : ds ≠ []) (hd : ∀ d ∈ ds, d < 10) :
    ∃ d cs, d < 10 ∧ floatBody ds pt = digitChar d :: cs := by
  cases ds with
  | nil => exact absurd rfl hne
  | cons d rest =>
    have hd0 : d < 10 := hd d (List.mem_cons_self ..)
    unfold floatBody
    split
    · exact ⟨d, _, hd0, rfl⟩
    · split
      · exact ⟨0, _, by omega, rfl⟩
      · split
        · next h1 h2 h3 =>
          have hpos : 0 < pt.toNat := by omega
          obtain ⟨k, hk⟩ : ∃ k, pt.toNat = k + 1 := ⟨pt.toNat - 1, by omega⟩
          rw [hk]
          exact ⟨d, _, hd0, rfl⟩
        · exact ⟨d, _, hd0, rfl⟩

/-- **floats**: the engine reads Python's `repr` of every finite float back as the decimal it spells -/
theorem readNumber_floatRepr (neg : Bool) (ds : List Nat) (pt : Int) (hne : ds ≠ []) (hd : ∀ d ∈ ds, d < 10) :
    readNumber (floatRepr neg ds pt) = some (pyValue (.float (.fin neg ds pt))) := by
  have hv : pyValue (.float (.fin neg ds pt)) = .dbl (Dbl.mk (signed neg (ofDigits ds)) (pt - ds.length)) := by
    cases neg <;> rfl
  rw [hv]
  cases neg with
  | true =>
    show readUnsigned true (floatBody ds pt) = _
    exact readUnsigned_floatBody true ds pt hne hd
  | false =>
    obtain ⟨d, cs, hd0, hb⟩ := floatBody_digitHead ds pt hne hd
    show readNumber (floatBody ds pt) = _
    rw [hb, readNumber_digitHead d hd0, ← hb]
    exact readUnsigned_floatBody false ds pt hne hd


/-! ### the decision chains -/

/-- values no guard of the chains is about -/
def PyVal.plain : PyVal → Bool
  | .none => true
  | .bool _ => true
  | .int _ => true
  | .float (.fin _ _ _) => true
  | _ => false

theorem guardHolds_plain (g : Gen.LitGuard) (v : PyVal) (h : v.plain = true) : guardHolds g v = false := by
  cases v with
  | none => cases g <;> rfl
  | bool b => cases g <;> rfl
  | int i => cases g <;> rfl
  | float f => cases f <;> first | (cases g <;> rfl) | (simp [PyVal.plain] at h)
  | str s => simp [PyVal.plain] at h

theorem find?_none_of_false {α : Type} (l : List α) (p : α → Bool) (h : ∀ a, p a = false) : l.find? p = none := by
  induction l with
  | nil => rfl
  | cons a l ih => simp [List.find?, h a, ih]

theorem firstAction_plain (chain : List (Gen.LitGuard × Gen.LitAction)) (fall : Gen.LitAction) (v : PyVal)
    (h : v.plain = true) : firstAction chain fall v = fall := by
  unfold firstAction
  have : chain.find? (fun ga => guardHolds ga.1 v) = none :=
    find?_none_of_false chain (fun ga => guardHolds ga.1 v) (fun ga => guardHolds_plain ga.1 v h)
  rw [this]

theorem guardHolds_str (g : Gen.LitGuard) (s s' : String) : guardHolds g (.str s) = guardHolds g (.str s') := by
  cases g <;> rfl

theorem firstAction_str (chain : List (Gen.LitGuard × Gen.LitAction)) (fall : Gen.LitAction) (s : String) :
    firstAction chain fall (.str s) = firstAction chain fall (.str "") := by
  unfold firstAction
  have : (fun ga : Gen.LitGuard × Gen.LitAction => guardHolds ga.1 (.str s)) = (fun ga => guardHolds ga.1 (.str "")) :=
    funext fun ga => guardHolds_str ga.1 s ""
  rw [this]

theorem initGuardHolds_nonStr (g : Gen.InitGuard) (v : PyVal) (h : ∀ s, v ≠ .str s) :
    initGuardHolds g v = initGuardHolds g .none := by
  cases v with
  | str s => exact absurd rfl (h s)
  | _ => cases g <;> rfl

theorem toList_ofList (l : List Char) : (String.ofList l).toList = l := by simp

/-- what the engine reads from `exp.convert(v)` -/
theorem readsBack_convert (v : PyVal) (hwf : v.wf = true) (hp : v.plain = true ∨ ∃ s, v = .str s) :
    readsBack (convert v) v = true := by
  unfold readsBack
  rw [decide_eq_true_eq]
  cases v with
  | none => rfl
  | bool b => rfl
  | int i =>
    show readNumber (String.ofList (showInt i)).toList = _
    rw [toList_ofList, readNumber_showInt]; rfl
  | float f =>
    cases f with
    | fin neg ds pt =>
      simp only [PyVal.wf, Bool.and_eq_true, Bool.not_eq_true', List.all_eq_true, decide_eq_true_eq] at hwf
      show readNumber (String.ofList (floatRepr neg ds pt)).toList = _
      rw [toList_ofList]
      exact readNumber_floatRepr neg ds pt (by intro h; simp [h] at hwf) hwf.2
    | nan => rcases hp with hp | ⟨s, hs⟩ <;> simp [PyVal.plain] at *
    | inf n => rcases hp with hp | ⟨s, hs⟩ <;> simp [PyVal.plain] at *
  | str s => rfl

/-- facts `litChainOK` gives -/
theorem litChainOK_facts {c : LitCfg} (h : litChainOK c = true) :
    c.litFall = .convert ∧ firstAction c.litChain c.litFall (.str "") = .convert
    ∧ (∃ s ty, firstAction c.litChain c.litFall (.float .nan) = .castStrConst s ty
        ∧ castDouble? s = some (.dbl .nan) ∧ sqlTypeName ty = "DOUBLE")
    ∧ (firstAction c.fnChain c.fnFall (.str "") = .stringOfValue ∨ firstAction c.fnChain c.fnFall (.str "") = .stringOfStr)
    ∧ c.fnFall = .columnInit ∧ firstAction c.fnChain c.fnFall (.float .nan) = .columnInit
    ∧ c.initChain.find? (fun ga => initGuardHolds ga.1 .none) = some (.isNoneOrNotStrOrExpr, .viaLit) := by
  simp only [litChainOK, Bool.and_eq_true, beq_iff_eq, Bool.or_eq_true] at h
  obtain ⟨⟨⟨⟨⟨⟨⟨⟨⟨⟨⟨⟨h1, _⟩, _⟩, _⟩, h5⟩, h6⟩, h7⟩, h8⟩, _⟩, _⟩, _⟩, h12⟩, h13⟩ := h
  rw [firstAction_plain _ _ _ rfl] at h1 h8
  refine ⟨h1, h5, ?_, h7, h8, h12, h13⟩
  split at h6
  · next s ty heq =>
    simp only [Bool.and_eq_true, beq_iff_eq] at h6
    exact ⟨s, ty, heq, h6.1, h6.2⟩
  · simp at h6

theorem rawLit_readsBack (c : LitCfg) (hok : litChainOK c = true) (v : PyVal) (hwf : v.wf = true) (hfin : v.finite = true) :
    readsBack (rawLit c v) v = true := by
  obtain ⟨hfall, hstr, ⟨s, ty, hnan, hs, hty⟩, _, _, _, _⟩ := litChainOK_facts hok
  unfold rawLit
  by_cases hp : v.plain = true
  · rw [firstAction_plain _ _ _ hp, hfall]
    exact readsBack_convert v hwf (Or.inl hp)
  · cases v with
    | str t =>
      rw [firstAction_str, hstr]
      exact readsBack_convert _ hwf (Or.inr ⟨t, rfl⟩)
    | float f =>
      cases f with
      | nan =>
        rw [hnan]
        simp only [actRaw, readsBack, decide_eq_true_eq, hty]
        show castDouble? s = _
        rw [hs]; rfl
      | inf n => simp [PyVal.finite] at hfin
      | fin n ds pt => simp [PyVal.plain] at hp
    | none => simp [PyVal.plain] at hp
    | bool b => simp [PyVal.plain] at hp
    | int i => simp [PyVal.plain] at hp

theorem initLit_nonStr (c : LitCfg) (hok : litChainOK c = true) (v : PyVal) (h : ∀ s, v ≠ .str s) : initLit c v = rawLit c v := by
  obtain ⟨_, _, _, _, _, _, hinit⟩ := litChainOK_facts hok
  unfold initLit
  have : (fun ga : Gen.InitGuard × Gen.InitAction => initGuardHolds ga.1 v) = (fun ga => initGuardHolds ga.1 .none) :=
    funext fun ga => initGuardHolds_nonStr ga.1 v h
  rw [this, hinit]

theorem fnNode_readsBack (c : LitCfg) (hok : litChainOK c = true) (v : PyVal) (hwf : v.wf = true) (hfin : v.finite = true) :
    readsBack (fnNode c v) v = true := by
  obtain ⟨_, _, _, hfs, hff, hfn, _⟩ := litChainOK_facts hok
  unfold fnNode
  by_cases hp : v.plain = true
  · rw [firstAction_plain _ _ _ hp, hff]
    have hns : ∀ s, v ≠ .str s := by intro s hs; subst hs; simp [PyVal.plain] at hp
    simp only [initLit_nonStr c hok v hns]
    exact rawLit_readsBack c hok v hwf hfin
  · cases v with
    | str t =>
      rw [firstAction_str]
      rcases hfs with hfs | hfs <;> rw [hfs] <;> simp [actRaw, readsBack, LitNode.value?, Tok.value?, pyStr, pyValue]
    | float f =>
      cases f with
      | nan =>
        rw [hfn]
        simp only [initLit_nonStr c hok (.float .nan) (by intro s hs; cases hs)]
        exact rawLit_readsBack c hok _ hwf hfin
      | inf n => simp [PyVal.finite] at hfin
      | fin n ds pt => simp [PyVal.plain] at hp
    | none => simp [PyVal.plain] at hp
    | bool b => simp [PyVal.plain] at hp
    | int i => simp [PyVal.plain] at hp

/-- **literals are faithful**: at every call site, whichever coercion it uses, the engine reads the literal sqlframe
    writes for a None / bool / int / finite float / NaN / str back as that value -/
theorem coerceNode_readsBack (c : LitCfg) (hok : litChainOK c = true) (k : Gen.Coerce) (v : PyVal)
    (hwf : v.wf = true) (hfin : v.finite = true) : readsBack (coerceNode c k v) v = true := by
  cases k with
  | rawLit => exact rawLit_readsBack c hok v hwf hfin
  | litFn => exact fnNode_readsBack c hok v hwf hfin
  | strRawElseInit =>
    cases v with
    | str s => exact rawLit_readsBack c hok _ hwf hfin
    | none => simp only [coerceNode, initLit_nonStr c hok .none (by intro s hs; cases hs)]; exact rawLit_readsBack c hok _ hwf hfin
    | bool b => simp only [coerceNode, initLit_nonStr c hok (.bool b) (by intro s hs; cases hs)]; exact rawLit_readsBack c hok _ hwf hfin
    | int i => simp only [coerceNode, initLit_nonStr c hok (.int i) (by intro s hs; cases hs)]; exact rawLit_readsBack c hok _ hwf hfin
    | float f => simp only [coerceNode, initLit_nonStr c hok (.float f) (by intro s hs; cases hs)]; exact rawLit_readsBack c hok _ hwf hfin

/-- … and ±inf as well through a coercion that handles it (`infHandledVia`) -/
theorem coerceNode_readsBack_via (c : LitCfg) (hok : litChainOK c = true) (k : Gen.Coerce) (v : PyVal)
    (hwf : v.wf = true) (hi : infVia c k v = true) : readsBack (coerceNode c k v) v = true := by
  simp only [infVia, Bool.or_eq_true] at hi
  rcases hi with hfin | hinf
  · exact coerceNode_readsBack c hok k v hwf hfin
  · by_cases hfin : v.finite = true
    · exact coerceNode_readsBack c hok k v hwf hfin
    · simp only [infHandledVia, List.all_cons, List.all_nil, Bool.and_true, Bool.and_eq_true] at hinf
      cases v with
      | float f =>
        cases f with
        | inf n => cases n <;> simp_all
        | nan => simp [PyVal.finite] at hfin
        | fin n ds pt => simp [PyVal.finite] at hfin
      | none => simp [PyVal.finite] at hfin
      | bool b => simp [PyVal.finite] at hfin
      | int i => simp [PyVal.finite] at hfin
      | str s => simp [PyVal.finite] at hfin

end Sqlframe.C05
