/-
Lemmas/C10Steps.lean — every naming step preserves the invariant `R` (model frame shows exactly PySpark's
spellings), under the step's well-formedness and its named scope hypothesis.
-/
import SqlframeModel.Lemmas.C10
namespace Sqlframe.C10
open Gen

theorem has_cons_self (F : NameFns) (n : String) (old : List (String × String)) :
    (entry F n :: old).lookup (F.key (F.low n)) = some n := by
  simp [entry]

theorem has_cons_other (F : NameFns) (L : NameLaws F) (n s : String) (old : List (String × String))
    (h : F.low s ≠ F.low n) : (entry F n :: old).lookup (F.key (F.low s)) = old.lookup (F.key (F.low s)) := by
  have hk : F.key (F.low s) ≠ F.key (F.low n) := fun e => h (L.key_inj _ _ e)
  have : (F.key (F.low s) == F.key (F.low n)) = false := beq_false_of_ne hk
  simp only [entry, List.lookup_cons, this]

theorem map_low_low (F : NameFns) (L : NameLaws F) (sp : List String) : (sp.map F.low).map F.low = sp.map F.low := by
  rw [List.map_map]
  apply List.map_congr_left
  intro s _
  simp [L.low_idem]

theorem norm_R (F : NameFns) (L : NameLaws F) (d : NDF) (sp : List String) (h : R F d sp) :
    R F { d with cols := d.cols.map F.low } sp := by
  obtain ⟨hc, hnd, hh⟩ := h
  exact ⟨by simp only [hc, map_low_low F L], hnd, hh⟩

theorem select_R (F : NameFns) (L : NameLaws F) (d : NDF) (sp : List String) (items : List Item)
    (hwf : StepWF F sp (.select items)) : R F (nstep F d (.select items)) (specStep F sp (.select items)) := by
  have hf : selectRecordsDisplay = true := by decide
  have hnd : ((items.map Item.spelling).map F.low).Nodup := by rw [List.map_map]; exact hwf
  refine ⟨by simp [nstep, specStep, List.map_map], hnd, ?_⟩
  intro s hs
  unfold Has
  simp only [nstep, hf, if_true, itemEntries_eq]
  exact has_of_entries F L _ _ hnd s hs

theorem withColumn_R (F : NameFns) (L : NameLaws F) (d : NDF) (sp : List String) (n : String)
    (h : R F d sp) : R F (nstep F d (.withColumn n)) (specStep F sp (.withColumn n)) := by
  have hf : withColumnsRecordsDisplay = true := by decide
  obtain ⟨hc, hnd, hh⟩ := h
  by_cases hin : F.low n ∈ sp.map F.low
  · have hcont : (sp.map F.low).contains (F.low n) = true := by simpa using hin
    have hmap : (sp.map (fun s => if F.low s = F.low n then n else s)).map F.low = sp.map F.low := by
      rw [List.map_map]
      apply List.map_congr_left
      intro s _
      by_cases e : F.low s = F.low n <;> simp [e]
    refine ⟨?_, ?_, ?_⟩
    · simp only [nstep, specStep, hc, map_low_low F L, hcont, if_true, hmap]
    · simp only [specStep, hcont, if_true, hmap]; exact hnd
    · intro s' hs'
      simp only [specStep, hcont, if_true] at hs'
      obtain ⟨s, hs, rfl⟩ := List.mem_map.mp hs'
      unfold Has
      simp only [nstep, hf, if_true]
      by_cases e : F.low s = F.low n
      · simp only [e, if_true]; exact has_cons_self F n _
      · simp only [e, if_false]
        rw [has_cons_other F L n s _ e]
        exact hh s hs
  · have hcont : (sp.map F.low).contains (F.low n) = false := by simpa using hin
    have hspec : specStep F sp (.withColumn n) = sp ++ [n] := by
      simp only [specStep, hcont]; rfl
    have hcols : (nstep F d (.withColumn n)).cols = sp.map F.low ++ [F.low n] := by
      simp only [nstep, hc, map_low_low F L, hcont]; rfl
    rw [hspec]
    refine ⟨?_, ?_, ?_⟩
    · rw [hcols]; simp
    · simp only [List.map_append, List.map_cons, List.map_nil]
      rw [List.nodup_append]
      refine ⟨hnd, by simp, ?_⟩
      intro a ha b hb
      simp at hb
      subst hb
      intro e; exact hin (e ▸ ha)
    · intro s hs
      unfold Has
      simp only [nstep, hf, if_true]
      rcases List.mem_append.mp hs with hs | hs
      · have e : F.low s ≠ F.low n := fun e => hin (e ▸ List.mem_map_of_mem hs)
        rw [has_cons_other F L n s _ e]
        exact hh s hs
      · have : s = n := by simpa using hs
        subst this
        exact has_cons_self F s _

theorem nodup_replace (l : List String) (x y : String) (hnd : l.Nodup) (h : y ∉ l ∨ y = x) :
    (l.map (fun c => if c = x then y else c)).Nodup := by
  rcases h with h | h
  · induction l with
    | nil => simp
    | cons a rest ih =>
      have hnd' := (List.nodup_cons.mp hnd).2
      have ha := (List.nodup_cons.mp hnd).1
      have hy : y ∉ rest := fun m => h (by simp [m])
      have hya : y ≠ a := fun e => h (by simp [e])
      simp only [List.map_cons]
      rw [List.nodup_cons]
      refine ⟨?_, ih hnd' hy⟩
      intro m
      obtain ⟨c, hc, e⟩ := List.mem_map.mp m
      by_cases hax : a = x
      · simp only [hax, if_true] at e
        by_cases hcx : c = x
        · subst hcx; subst hax; exact ha hc
        · simp only [hcx, if_false] at e; exact hy (e ▸ hc)
      · simp only [hax, if_false] at e
        by_cases hcx : c = x
        · simp only [hcx, if_true] at e; exact hya e
        · simp only [hcx, if_false] at e; exact ha (e ▸ hc)
  · subst h
    have : l.map (fun c => if c = y then y else c) = l := by
      conv => rhs; rw [← List.map_id l]
      apply List.map_congr_left
      intro c _
      by_cases e : c = y <;> simp [e]
    rw [this]; exact hnd

theorem rename_R (F : NameFns) (L : NameLaws F) (d : NDF) (sp : List String) (a b : String)
    (h : R F d sp) (hwf : StepWF F sp (.withColumnRenamed a b)) :
    R F (nstep F d (.withColumnRenamed a b)) (specStep F sp (.withColumnRenamed a b)) := by
  have hf : renameRecordsDisplay = true := by decide
  obtain ⟨hc, hnd, hh⟩ := h
  obtain ⟨_, hb⟩ := hwf
  have hmap : (sp.map (fun s => if F.low s = F.low a then b else s)).map F.low
      = (sp.map F.low).map (fun c => if c = F.low a then F.low b else c) := by
    rw [List.map_map, List.map_map]
    apply List.map_congr_left
    intro s _
    by_cases e : F.low s = F.low a <;> simp [e]
  refine ⟨?_, ?_, ?_⟩
  · simp only [nstep, specStep, hc, map_low_low F L, hmap]
  · simp only [specStep, hmap]; exact nodup_replace _ _ _ hnd hb
  · intro s' hs'
    simp only [specStep] at hs'
    obtain ⟨s, hs, rfl⟩ := List.mem_map.mp hs'
    unfold Has
    simp only [nstep, hf, if_true]
    by_cases e : F.low s = F.low a
    · simp only [e, if_true]; exact has_cons_self F b _
    · simp only [e, if_false]
      have e' : F.low s ≠ F.low b := by
        rcases hb with hb | hb
        · intro x; exact hb (x ▸ List.mem_map_of_mem hs)
        · rw [hb]; exact e
      rw [has_cons_other F L b s _ e']
      exact hh s hs

theorem map_low_self (F : NameFns) (sp : List String) (h : ∀ s ∈ sp, F.low s = s) : sp.map F.low = sp := by
  conv => rhs; rw [← List.map_id sp]
  apply List.map_congr_left
  intro s hs; simp [h s hs]

/-- the re-select of all current columns keeps `R` when it does not fire or every spelling is already normalised -/
theorem reselectOf_R (F : NameFns) (L : NameLaws F) (m : String) (d : NDF) (sp : List String)
    (h : R F d sp) (hs : H_reselect F m sp) : R F (reselectOf F m d) sp := by
  obtain ⟨hc, hnd, hh⟩ := h
  unfold reselectOf
  by_cases hfire : (reselectMethods.contains m && selectRecordsDisplay) = true
  · simp only [hfire, if_true]
    have hall : ∀ s ∈ sp, F.low s = s := by
      rcases hs with hs | hs
      · simp only [Bool.and_eq_true] at hfire
        rw [hs] at hfire
        exact absurd hfire.1 (by simp)
      · exact hs
    refine ⟨hc, hnd, ?_⟩
    intro s hsm
    unfold Has
    have e1 : d.cols = sp := by rw [hc]; exact map_low_self F sp hall
    have e2 : d.cols.map (fun c => (F.key c, c)) = sp.map (entry F) := by
      rw [e1]
      apply List.map_congr_left
      intro c hcm
      simp [entry, hall c hcm]
    simp only [e2]
    exact has_of_entries F L sp _ hnd s hsm
  · simp only [hfire]
    exact ⟨hc, hnd, hh⟩

theorem filter_R (F : NameFns) (L : NameLaws F) (d : NDF) (sp : List String) (a : String) (h : R F d sp) :
    R F { d with cols := (d.cols.map F.low).filter (fun c => c ≠ F.low a) } (sp.filter (fun s => F.low s ≠ F.low a)) := by
  obtain ⟨hc, hnd, hh⟩ := h
  have hmap : (sp.filter (fun s => F.low s ≠ F.low a)).map F.low = (sp.map F.low).filter (fun c => c ≠ F.low a) := by
    rw [List.filter_map]; rfl
  refine ⟨?_, ?_, ?_⟩
  · simp only [hc, map_low_low F L, hmap]
  · rw [hmap]; exact hnd.sublist List.filter_sublist
  · intro s hs
    exact hh s (List.mem_filter.mp hs).1

theorem toDF_R (F : NameFns) (L : NameLaws F) (d : NDF) (sp : List String) (ns : List String)
    (hwf : StepWF F sp (.toDF ns)) (hs : H_toDF) : R F (nstep F d (.toDF ns)) (specStep F sp (.toDF ns)) := by
  have hnd : (ns.map F.low).Nodup := hwf
  unfold H_toDF at hs
  refine ⟨by simp [nstep, specStep, hs], hnd, ?_⟩
  intro s hsm
  unfold Has
  simp only [nstep, hs, if_true]
  exact has_of_entries F L ns _ hnd s hsm

theorem groupAgg_R (F : NameFns) (L : NameLaws F) (d : NDF) (sp : List String) (keys aliases : List String)
    (hwf : StepWF F sp (.groupAgg keys aliases)) (hs : H_groupAgg F d (keys ++ aliases)) :
    R F (nstep F d (.groupAgg keys aliases)) (specStep F sp (.groupAgg keys aliases)) := by
  have hnd : ((keys ++ aliases).map F.low).Nodup := hwf
  refine ⟨by simp [nstep, specStep], hnd, ?_⟩
  intro s hsm
  simp only [specStep] at hsm
  unfold Has
  by_cases hf : groupAggRecordsDisplay = true
  · simp only [nstep, hf, if_true]
    exact has_of_entries F L _ _ hnd s hsm
  · rcases hs with hs | hs
    · exact absurd hs hf
    · simp only [nstep, hf]
      exact hs s hsm

theorem filter_eq_singleton (l : List String) (x : String) (hnd : l.Nodup) (hx : x ∈ l) :
    l.filter (fun c => c = x) = [x] := by
  induction l with
  | nil => simp at hx
  | cons a rest ih =>
    have hnd' := (List.nodup_cons.mp hnd).2
    have ha := (List.nodup_cons.mp hnd).1
    by_cases e : a = x
    · subst e
      have : rest.filter (fun c => c = a) = [] := by
        rw [List.filter_eq_nil_iff]
        intro c hc; simp; intro e; exact ha (e ▸ hc)
      simp [List.filter_cons, this]
    · have hx' : x ∈ rest := by
        rcases List.mem_cons.mp hx with h | h
        · exact absurd h.symm e
        · exact h
      simp [List.filter_cons, e, ih hnd' hx']

theorem join_R (F : NameFns) (L : NameLaws F) (d : NDF) (sp : List String) (k : String) (right : List String)
    (h : R F d sp) (hwf : StepWF F sp (.joinUsing k right)) (hs : H_joinRight F d k right) :
    R F (nstep F d (.joinUsing k right)) (specStep F sp (.joinUsing k right)) := by
  obtain ⟨hc, hnd, hh⟩ := h
  obtain ⟨hk, hrnd, hdisj⟩ := hwf
  have m1 : (sp.filter (fun s => F.low s = F.low k)).map F.low = [F.low k] := by
    have : (sp.filter (fun s => F.low s = F.low k)).map F.low = (sp.map F.low).filter (fun c => c = F.low k) := by
      rw [List.filter_map]; rfl
    rw [this]; exact filter_eq_singleton _ _ hnd hk
  have m2 : (sp.filter (fun s => F.low s ≠ F.low k)).map F.low = (sp.map F.low).filter (fun c => c ≠ F.low k) := by
    rw [List.filter_map]; rfl
  have m3 : (right.filter (fun r => F.low r ≠ F.low k)).map F.low = (right.map F.low).filter (fun c => c ≠ F.low k) := by
    rw [List.filter_map]; rfl
  have hcols : (specStep F sp (.joinUsing k right)).map F.low
      = F.low k :: (sp.map F.low).filter (fun c => c ≠ F.low k) ++ (right.map F.low).filter (fun c => c ≠ F.low k) := by
    simp only [specStep, List.map_append, m1, m2, m3]
    simp
  refine ⟨?_, ?_, ?_⟩
  · simp only [nstep, hc, map_low_low F L, hcols]
  · rw [hcols]
    have n2 : ((sp.map F.low).filter (fun c => c ≠ F.low k)).Nodup := hnd.sublist List.filter_sublist
    have n3 : ((right.map F.low).filter (fun c => c ≠ F.low k)).Nodup := hrnd.sublist List.filter_sublist
    rw [List.cons_append, List.nodup_cons]
    refine ⟨?_, ?_⟩
    · intro m
      rcases List.mem_append.mp m with m | m
      · have := (List.mem_filter.mp m).2; simp at this
      · have := (List.mem_filter.mp m).2; simp at this
    · rw [List.nodup_append]
      refine ⟨n2, n3, ?_⟩
      intro a ha b hb e
      subst e
      have ha' := (List.mem_filter.mp ha).1
      have hb' := List.mem_filter.mp hb
      obtain ⟨r, hr, rfl⟩ := List.mem_map.mp hb'.1
      have hne : F.low r ≠ F.low k := by simpa using hb'.2
      exact hdisj r hr hne ha'
  · intro s hsm
    simp only [specStep] at hsm
    unfold Has
    have left_ok : ∀ s ∈ sp, (nstep F d (.joinUsing k right)).disp.lookup (F.key (F.low s)) = some s := by
      intro s hs0
      by_cases hf : joinKeepsRightDisplay = true
      · simp only [nstep, hf, if_true]
        rw [lookup_append_none]
        · exact hh s hs0
        · apply lookup_entries_other F L
          intro r hr e
          have hr' := List.mem_filter.mp hr
          have hne : F.low r ≠ F.low k := by simpa using hr'.2
          exact hdisj r hr'.1 hne (e ▸ List.mem_map_of_mem hs0)
      · simp only [nstep, hf]
        exact hh s hs0
    rcases List.mem_append.mp hsm with hl | hr
    · rcases List.mem_append.mp hl with hl | hl
      · exact left_ok s (List.mem_filter.mp hl).1
      · exact left_ok s (List.mem_filter.mp hl).1
    · have hr' := List.mem_filter.mp hr
      have hne : F.low s ≠ F.low k := by simpa using hr'.2
      by_cases hf : joinKeepsRightDisplay = true
      · simp only [nstep, hf, if_true]
        apply has_of_entries F L
        · rw [m3]; exact hrnd.sublist List.filter_sublist
        · exact hr
      · rcases hs with hs | hs
        · exact absurd hs hf
        · simp only [nstep, hf]
          exact hs s hr'.1 hne

theorem union_R (F : NameFns) (L : NameLaws F) (d : NDF) (sp : List String) (right : List String) (allow : Bool)
    (h : R F d sp) (hwf : StepWF F sp (.unionByName right allow)) (hs : H_unionMissing F sp right allow) :
    R F (nstep F d (.unionByName right allow)) (specStep F sp (.unionByName right allow)) := by
  obtain ⟨hc, hnd, hh⟩ := h
  have hrnd : (right.map F.low).Nodup := hwf
  rcases hs with ha | ⟨hf, hall⟩
  · subst ha
    simp only [nstep, unionStep, specStep, Bool.false_and]
    exact ⟨hc, hnd, hh⟩
  · cases allow with
    | false =>
      simp only [nstep, unionStep, specStep, Bool.false_and]
      exact ⟨hc, hnd, hh⟩
    | true =>
      have hlow : d.cols.map F.low = sp.map F.low := by rw [hc]; exact map_low_low F L sp
      let ro := rightOnly F (sp.map F.low) right
      have hsp' : specStep F sp (.unionByName right true) = sp ++ ro := by simp [specStep, ro]
      have hself : (sp ++ ro).map F.low = sp ++ ro := map_low_self F _ hall
      have hcols : (nstep F d (.unionByName right true)).cols = (sp ++ ro).map F.low := by
        simp only [nstep, unionStep, hf, Bool.and_self, if_true, hlow, List.map_append, ro]
      have hnd' : ((sp ++ ro).map F.low).Nodup := by
        rw [List.map_append, List.nodup_append]
        refine ⟨hnd, ?_, ?_⟩
        · exact hrnd.sublist ((List.filter_sublist).map F.low)
        · intro a ha b hb e
          subst e
          obtain ⟨r, hr, hrl⟩ := List.mem_map.mp hb
          have := (List.mem_filter.mp hr).2
          simp at this
          rw [← hrl] at ha
          obtain ⟨s0, hs0, hs0l⟩ := List.mem_map.mp ha
          exact this s0 hs0 hs0l
      rw [hsp']
      refine ⟨hcols, hnd', ?_⟩
      intro s hsm
      unfold Has
      have hdisp : (nstep F d (.unionByName right true)).disp
          = (sp ++ ro).map (entry F) ++ d.disp := by
        simp only [nstep, unionStep, hf, Bool.and_self, if_true, hlow]
        congr 1
        have e0 : sp.map F.low ++ (rightOnly F (sp.map F.low) right).map F.low = (sp ++ ro).map F.low := by
          simp [ro]
        rw [e0, hself]
        apply List.map_congr_left
        intro c hcm
        simp [entry, hall c hcm]
      rw [hdisp]
      exact has_of_entries F L (sp ++ ro) _ hnd' s hsm

/-- one step -/
theorem step_R (F : NameFns) (L : NameLaws F) (d : NDF) (sp : List String) (st : NStep)
    (h : R F d sp) (hwf : StepWF F sp st) (hs : StepInScope F d sp st) :
    R F (nstep F d st) (specStep F sp st) := by
  cases st with
  | select items => exact select_R F L d sp items hwf
  | withColumn n => exact withColumn_R F L d sp n h
  | withColumnRenamed a b => exact rename_R F L d sp a b h hwf
  | keep => exact h
  | drop a =>
    have := filter_R F L d sp a h
    exact reselectOf_R F L "drop" _ _ this hs
  | reselect m => exact reselectOf_R F L m _ sp (norm_R F L d sp h) hs
  | toDF ns => exact toDF_R F L d sp ns hwf hs
  | groupAgg keys aliases => exact groupAgg_R F L d sp keys aliases hwf hs
  | joinUsing k right => exact join_R F L d sp k right h hwf hs.2
  | unionByName right allow => exact union_R F L d sp right allow h hwf hs

/-- any chain of steps -/
theorem run_R (F : NameFns) (L : NameLaws F) (steps : List NStep) (d : NDF) (sp : List String)
    (h : R F d sp) (hok : StepsOK F d sp steps) : R F (runSteps F d steps) (specRun F sp steps) := by
  induction steps generalizing d sp with
  | nil => exact h
  | cons st rest ih =>
    obtain ⟨hwf, hs, hrest⟩ := hok
    exact ih _ _ (step_R F L d sp st h hwf hs) hrest

end Sqlframe.C10
