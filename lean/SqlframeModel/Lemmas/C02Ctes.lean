/-
Lemmas/C02Ctes.lean — the loop invariant of `_add_ctes_to_expression` (Impl/C02Ctes.lean `mergeStep`), used by
`C02_merge_preserves` (Props/C02.lean).
-/
import SqlframeModel.Impl.C02Ctes
set_option linter.unusedSimpArgs false
set_option linter.unusedVariables false
namespace Sqlframe
open Gen

theorem withEnv_append_single (I : Interp) (base : Env) (cs : List NCte) (c : NCte) (n : Name) :
    withEnv I base (cs ++ [c]) n = if n = c.name then c.body.eval I (withEnv I base cs) else withEnv I base cs n := by
  induction cs generalizing base with
  | nil => simp [withEnv]
  | cons d ds ih => simp only [List.cons_append, withEnv]; exact ih _

theorem withEnv_not_mem (I : Interp) (base : Env) (cs : List NCte) (n : Name) (h : n ∉ cs.map (·.name)) :
    withEnv I base cs n = base n := by
  induction cs generalizing base with
  | nil => rfl
  | cons d ds ih =>
    simp only [List.map_cons, List.mem_cons, not_or] at h
    simp only [withEnv]
    rw [ih _ h.2]
    simp [h.1]

/-- renaming the reads of a body and evaluating in an environment that has the renamed names is evaluating the body -/
theorem eval_rename (I : Interp) (m : List (Name × Name)) (env env' : Env) (b : Body)
    (h : ∀ n ∈ b.refs, env' (renameName m n) = env n) : (b.rename m).eval I env' = b.eval I env := by
  induction b with
  | lit T => rfl
  | ref n => simp only [Body.rename, Body.eval]; exact h n (by simp [Body.refs])
  | un f a ih =>
    simp only [Body.rename, Body.eval]
    rw [ih (fun n hn => h n (by simpa [Body.refs] using hn))]
  | bin f a b iha ihb =>
    simp only [Body.rename, Body.eval]
    rw [iha (fun n hn => h n (by simp [Body.refs, hn])), ihb (fun n hn => h n (by simp [Body.refs, hn]))]

theorem renameName_nil (n : Name) : renameName [] n = n := rfl

theorem renameName_cons (a b : Name) (m : List (Name × Name)) (n : Name) :
    renameName ((a, b) :: m) n = if a = n then b else renameName m n := by
  by_cases h : a = n <;> simp [renameName, List.find?, h]

/-- the invariant after the loop has processed the prefix `P` of the right side's CTEs -/
structure MInv (I : Interp) (base : Env) (gen : Nat → Name) (E P : List NCte) (st : MergeSt) : Prop where
  klen : st.k ≤ P.length
  names : st.out.map (·.name) = E.map (·.name) ++ P.map (fun c => renameName st.ren c.name)
  vals : ∀ p ∈ P.map (·.name), withEnv I base st.out (renameName st.ren p) = withEnv I base P p
  evals : ∀ n ∈ E.map (·.name), withEnv I base st.out n = withEnv I base E n
  untouched : ∀ n, n ∉ E.map (·.name) → n ∉ P.map (·.name) → (∀ j, j < st.k → n ≠ gen j) → withEnv I base st.out n = base n
  takenE : ∀ n ∈ E.map (·.name), n ∈ st.taken
  renKeys : ∀ a, a ∉ P.map (·.name) → renameName st.ren a = a
  renVals : ∀ p ∈ P.map (·.name), renameName st.ren p = p ∨ ∃ j, j < st.k ∧ renameName st.ren p = gen j

theorem minv_init (I : Interp) (base : Env) (gen : Nat → Name) (E : List NCte) : MInv I base gen E [] (mergeInit E) where
  klen := Nat.le_refl _
  names := by simp [mergeInit]
  vals := by intro p hp; simp at hp
  evals := by intro n _; rfl
  untouched := by intro n hE _ _; exact withEnv_not_mem I base E n hE
  takenE := by intro n hn; exact hn
  renKeys := by intro a _; rfl
  renVals := by intro p hp; simp at hp

/-- one iteration keeps the invariant -/
theorem mergeStep_inv (I : Interp) (base : Env) (gen : Nat → Name) (E P : List NCte) (c : NCte) (st : MergeSt)
    (Rn : List Name) (N : Nat)
    (inv : MInv I base gen E P st)
    (hPR : ∀ p ∈ P.map (·.name), p ∈ Rn) (hcP : c.name ∉ P.map (·.name))
    (hrefs : ∀ n ∈ c.body.refs, n ∈ P.map (·.name) ∨ (n ∉ E.map (·.name) ∧ n ∉ Rn))
    (hlen : P.length < N)
    (hinj : ∀ i j, i < N → j < N → gen i = gen j → i = j)
    (hfE : ∀ i, i < N → gen i ∉ E.map (·.name)) (hfR : ∀ i, i < N → gen i ∉ Rn) (hcR : c.name ∈ Rn)
    (hfc : ∀ i, i < N → gen i ∉ c.body.refs) :
    MInv I base gen E (P ++ [c]) (mergeStep gen st c) := by
  have hk : st.k < N := Nat.lt_of_le_of_lt inv.klen hlen
  have hcname : renameName st.ren c.name = c.name := inv.renKeys _ hcP
  -- the renamed body, read in the merged statement so far, has the value of the body in the right side's own statement
  have hbody : (c.body.rename st.ren).eval I (withEnv I base st.out) = c.body.eval I (withEnv I base P) := by
    apply eval_rename
    intro n hn
    rcases hrefs n hn with hp | ⟨hnE, hnR⟩
    · exact inv.vals n hp
    · have hnP : n ∉ P.map (·.name) := fun h => hnR (hPR n h)
      rw [inv.renKeys n hnP, withEnv_not_mem I base P n hnP]
      exact inv.untouched n hnE hnP (fun j hj e => hfc j (Nat.lt_trans hj hk) (e ▸ hn))
  -- a renamed earlier name is never the name the new CTE gets
  have hne_old : ∀ p ∈ P.map (·.name), renameName st.ren p ≠ c.name := by
    intro p hp
    rcases inv.renVals p hp with e | ⟨j, hj, e⟩
    · rw [e]; exact fun h => hcP (h ▸ hp)
    · rw [e]; exact fun h => hfR j (Nat.lt_trans hj hk) (h ▸ hcR)
  have hne_new : ∀ p ∈ P.map (·.name), renameName st.ren p ≠ gen st.k := by
    intro p hp
    rcases inv.renVals p hp with e | ⟨j, hj, e⟩
    · rw [e]; exact fun h => hfR st.k hk (h ▸ hPR p hp)
    · rw [e]; exact fun h => (Nat.ne_of_lt hj) (hinj j st.k (Nat.lt_trans hj hk) hk h)
  have hpc : ∀ p ∈ P.map (·.name), p ≠ c.name := fun p hp h => hcP (h ▸ hp)
  simp only [mergeStep, mergeStepF, genMergeFlags, mergeRenamesBeforeTest, mergeKeyIsOldName, if_true, hcname]
  by_cases hclash : c.name ∈ st.taken
  · -- the name is taken: the CTE is renamed to `gen st.k`
    simp only [hclash, if_true]
    have hrn : ∀ n, renameName ((c.name, gen st.k) :: st.ren) n = if c.name = n then gen st.k else renameName st.ren n :=
      fun n => renameName_cons _ _ _ _
    have hrnP : ∀ p ∈ P.map (·.name), renameName ((c.name, gen st.k) :: st.ren) p = renameName st.ren p := by
      intro p hp; rw [hrn]; simp [(hpc p hp).symm]
    refine ⟨?_, ?_, ?_, ?_, ?_, ?_, ?_, ?_⟩
    · simp only [List.length_append, List.length_cons, List.length_nil]; exact Nat.succ_le_succ inv.klen
    · simp only [List.map_append, List.map_cons, List.map_nil, inv.names, List.append_assoc, hrn, if_true]
      congr 2
      apply List.map_congr_left
      intro d hd
      have := hrnP d.name (List.mem_map.mpr ⟨d, hd, rfl⟩)
      rw [hrn] at this
      exact this.symm
    · intro p hp
      simp only [List.map_append, List.map_cons, List.map_nil, List.mem_append, List.mem_singleton] at hp
      rcases hp with hp | rfl
      · rw [hrnP p hp, withEnv_append_single, withEnv_append_single]
        simp only [hne_new p hp, hpc p hp, if_false]
        exact inv.vals p hp
      · rw [hrn, withEnv_append_single, withEnv_append_single]
        simp only [if_true]
        exact hbody
    · intro n hn
      rw [withEnv_append_single]
      have : n ≠ gen st.k := fun h => hfE st.k hk (h ▸ hn)
      simp only [this, if_false]
      exact inv.evals n hn
    · intro n hnE hnP hj
      simp only [List.map_append, List.map_cons, List.map_nil, List.mem_append, List.mem_singleton, not_or] at hnP
      rw [withEnv_append_single]
      have : n ≠ gen st.k := hj st.k (Nat.lt_succ_self _)
      simp only [this, if_false]
      exact inv.untouched n hnE hnP.1 (fun j hjk => hj j (Nat.lt_succ_of_lt hjk))
    · intro n hn
      have := inv.takenE n hn
      by_cases hf : mergeRecordsNewName = true <;> simp [hf, this]
    · intro a ha
      simp only [List.map_append, List.map_cons, List.map_nil, List.mem_append, List.mem_singleton, not_or] at ha
      rw [hrn]
      have : ¬ c.name = a := fun h => ha.2 h.symm
      simp only [this, if_false]
      exact inv.renKeys a ha.1
    · intro p hp
      simp only [List.map_append, List.map_cons, List.map_nil, List.mem_append, List.mem_singleton] at hp
      rcases hp with hp | rfl
      · rw [hrnP p hp]
        rcases inv.renVals p hp with e | ⟨j, hj, e⟩
        · exact Or.inl e
        · exact Or.inr ⟨j, Nat.lt_succ_of_lt hj, e⟩
      · rw [hrn]; simp only [if_true]
        exact Or.inr ⟨st.k, Nat.lt_succ_self _, rfl⟩
  · -- the name is free: the CTE is appended under its own name
    simp only [hclash, if_false]
    refine ⟨?_, ?_, ?_, ?_, ?_, ?_, ?_, ?_⟩
    · simp only [List.length_append, List.length_cons, List.length_nil]; exact Nat.le_succ_of_le inv.klen
    · simp only [List.map_append, List.map_cons, List.map_nil, inv.names, List.append_assoc, hcname]
    · intro p hp
      simp only [List.map_append, List.map_cons, List.map_nil, List.mem_append, List.mem_singleton] at hp
      rcases hp with hp | rfl
      · rw [withEnv_append_single, withEnv_append_single]
        simp only [hne_old p hp, hpc p hp, if_false]
        exact inv.vals p hp
      · rw [hcname, withEnv_append_single, withEnv_append_single]
        simp only [if_true]
        exact hbody
    · intro n hn
      rw [withEnv_append_single]
      have : n ≠ c.name := fun h => hclash (h ▸ inv.takenE n hn)
      simp only [this, if_false]
      exact inv.evals n hn
    · intro n hnE hnP hj
      simp only [List.map_append, List.map_cons, List.map_nil, List.mem_append, List.mem_singleton, not_or] at hnP
      rw [withEnv_append_single]
      simp only [hnP.2, if_false]
      exact inv.untouched n hnE hnP.1 hj
    · exact inv.takenE
    · intro a ha
      simp only [List.map_append, List.map_cons, List.map_nil, List.mem_append, List.mem_singleton, not_or] at ha
      exact inv.renKeys a ha.1
    · intro p hp
      simp only [List.map_append, List.map_cons, List.map_nil, List.mem_append, List.mem_singleton] at hp
      rcases hp with hp | rfl
      · exact inv.renVals p hp
      · exact Or.inl hcname

/-- the loop keeps the invariant over any suffix -/
theorem mergeFold_inv (I : Interp) (base : Env) (gen : Nat → Name) (E : List NCte) (Rn : List Name) (N : Nat)
    (hinj : ∀ i j, i < N → j < N → gen i = gen j → i = j)
    (hfE : ∀ i, i < N → gen i ∉ E.map (·.name)) (hfR : ∀ i, i < N → gen i ∉ Rn) :
    ∀ (S P : List NCte) (st : MergeSt), MInv I base gen E P st →
      (∀ p ∈ P.map (·.name), p ∈ Rn) → (∀ c ∈ S, c.name ∈ Rn) → ((P ++ S).map (·.name)).Nodup →
      ClosedFrom (E.map (·.name)) Rn (P.map (·.name)) S → P.length + S.length ≤ N →
      (∀ i, i < N → ∀ c ∈ S, gen i ∉ c.body.refs) →
      MInv I base gen E (P ++ S) (S.foldl (mergeStep gen) st)
  | [], P, st, inv, _, _, _, _, _, _ => by simpa using inv
  | c :: S, P, st, inv, hPR, hSR, hnd, hcl, hlen, hfc => by
    have hcP : c.name ∉ P.map (·.name) := by
      intro h
      rw [List.map_append, List.map_cons] at hnd
      exact (List.nodup_append.mp hnd).2.2 _ h _ (List.mem_cons_self) rfl
    have step := mergeStep_inv I base gen E P c st Rn N inv hPR hcP hcl.1
      (by simp only [List.length_cons] at hlen; omega) hinj hfE hfR (hSR c List.mem_cons_self)
      (fun i hi => hfc i hi c List.mem_cons_self)
    have := mergeFold_inv I base gen E Rn N hinj hfE hfR S (P ++ [c]) (mergeStep gen st c) step
      (by
        intro p hp
        simp only [List.map_append, List.map_cons, List.map_nil, List.mem_append, List.mem_singleton] at hp
        rcases hp with hp | rfl
        · exact hPR p hp
        · exact hSR c List.mem_cons_self)
      (fun d hd => hSR d (List.mem_cons_of_mem _ hd))
      (by simpa [List.append_assoc] using hnd)
      (by simpa [List.map_append] using hcl.2)
      (by simp only [List.length_append, List.length_cons, List.length_nil] at hlen ⊢; omega)
      (fun i hi d hd => hfc i hi d (List.mem_cons_of_mem _ hd))
    simpa [List.append_assoc] using this

end Sqlframe
