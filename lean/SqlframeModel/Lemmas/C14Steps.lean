/-
Lemmas/C14Steps.lean — one writer call: model = specification (generic in the decision table and flags).
-/
import SqlframeModel.Lemmas.C14
namespace Sqlframe.C14
open Sqlframe Sqlframe.Gen

/-! ### engine vs specification on an aligned frame -/

/-- what both sides reduce to once the frame to append is known -/
def appendOutcome (c : Cat) (n : Name) (T : TTable) (g : Option Frame) : Cat × Bool :=
  match g.bind (insertRows T) with
  | some T' => (c.put n T', true)
  | none => (c, false)

theorem exec_insert (c : Cat) (n : Name) (T : TTable) (g : Frame) (hg : c.get n = some T) :
    exec (.insertSel n false g) c = appendOutcome c n T (some g) := by
  simp only [exec, hg, appendOutcome, Option.bind]
  cases insertRows T g <;> simp

theorem specAppend_eq (T : TTable) (g : Option Frame)
    (hty : ∀ x, g = some x → typesOk T.tys x.tys = true) : g.bind (specAppend T) = g.bind (insertRows T) := by
  cases g with
  | none => rfl
  | some x => simp [specAppend, hty x rfl]

theorem byNameColsP_cat (src : ColSource) (skips : Bool) (st : St) (n : Name) :
    (byNameColsP src skips st n).1.cat = st.cat := by
  cases src <;> simp [byNameColsP, addTableP_cat]

theorem selFrameP_cat (fl : Flags) (n : Name) (bn : Bool) (f : Frame) (st : St) :
    (selFrameP fl n bn f st).1.cat = st.cat := by
  unfold selFrameP
  split
  · exact byNameColsP_cat _ _ _ _
  · rfl

/-- the model's insert, once the frame it selects is known -/
theorem insertStepP_outcome (fl : Flags) (hex : fl.executes = true) (n : Name) (bn : Bool) (f : Frame) (st : St)
    (T : TTable) (hg : st.cat.get n = some T) :
    (insertStepP fl n bn f st).1.cat = (appendOutcome st.cat n T (selFrameP fl n bn f st).2).1 ∧
    (insertStepP fl n bn f st).2 = ⟨(appendOutcome st.cat n T (selFrameP fl n bn f st).2).2, none⟩ := by
  have hc := selFrameP_cat fl n bn f st
  cases hp : (selFrameP fl n bn f st).2 with
  | none => simp [insertStepP, hp, hc, appendOutcome]
  | some g =>
    simp only [insertStepP, hp, hex, if_true]
    rw [hc, exec_insert st.cat n T g hg]
    simp

theorem insertStepP_missing (fl : Flags) (n : Name) (bn : Bool) (f : Frame) (st : St)
    (hg : st.cat.get n = none) :
    (insertStepP fl n bn f st).1.cat = st.cat ∧ ((insertStepP fl n bn f st).2.ok = true → fl.executes = false) ∧
    (insertStepP fl n bn f st).2.out = none := by
  have hc := selFrameP_cat fl n bn f st
  cases hp : (selFrameP fl n bn f st).2 with
  | none => simp [insertStepP, hp, hc]
  | some g =>
    by_cases hex : fl.executes = true
    · simp [insertStepP, hp, hex, hc, exec, hg]
    · simp [insertStepP, hp, hex, hc]

/-! ### which columns the byName branch uses -/

theorem byNameColsP_eq (src : ColSource) (skips : Bool) (st : St) (n : Name) (T : TTable)
    (hg : st.cat.get n = some T)
    (hknown : src ≠ .schemaCache ∨ (st.cached n).isSome = true)
    (hfresh : src = .engine ∨ (src = .cacheThenEngine ∧ skips = false) ∨ st.cached n = none ∨ st.cached n = some T.cols) :
    (byNameColsP src skips st n).2 = T.cols := by
  cases src with
  | engine => simp [byNameColsP, hg]
  | schemaCache =>
    simp only [byNameColsP]
    rcases hknown with h | h
    · exact absurd rfl h
    · rcases hfresh with h' | h' | h' | h'
      · cases h'
      · cases h'.1
      · simp [h'] at h
      · simp [h']
  | cacheThenEngine =>
    simp only [byNameColsP]
    have : (addTableP skips st n).cached n = some T.cols := by
      apply addTableP_cached skips st n T hg
      rcases hfresh with h' | h' | h' | h'
      · cases h'
      · exact Or.inl h'.2
      · exact Or.inr (Or.inl h')
      · exact Or.inr (Or.inr h')
    simp [this]

theorem all_mem_self (cs : List Name) : cs.all (fun c => c ∈ cs) = true := by
  simp [List.all_eq_true]

/-- `select(*T.cols)` is the by-name alignment -/
theorem selectCols_align (T : TTable) (f : Frame) (hne : T.cols ≠ []) :
    selectCols T.cols f = alignByName T f false := by
  simp [selectCols, alignByName, hne]

/-! ### session.table -/

theorem read_correct (skips : Bool) (n : Name) (st : St) (hwf : CatWF st.cat)
    (hfresh : ∀ T, st.cat.get n = some T → skips = false ∨ st.cached n = none ∨ st.cached n = some T.cols) :
    (readStepP skips n st).1.cat = st.cat ∧ (readStepP skips n st).2 = (specStep (.read n) st.cat).2 := by
  unfold readStepP
  cases hg : st.cat.get n with
  | none =>
    have h1 : (addTableP skips st n).cat.get n = none := by rw [addTableP_cat]; exact hg
    simp only [specStep, hg]
    constructor
    · cases (addTableP skips st n).cached n <;> simp [h1, hg, addTableP_cat]
    · cases (addTableP skips st n).cached n <;> simp [h1, hg]
  | some T =>
    have h1 : (addTableP skips st n).cat.get n = some T := by rw [addTableP_cat]; exact hg
    have h2 := addTableP_cached skips st n T hg (hfresh T hg)
    have hT := (catWF_get st.cat n T hwf hg).1
    simp [specStep, hg, h1, h2, addTableP_cat, TTable.project_self T hT]

/-! ### saveAsTable through a CREATE statement -/

theorem create_correct (m : Mode) (n : Name) (f : Frame) (c : Cat) (i r : Bool)
    (hadm : admissible m (c.get n).isSome (.create i r) = true) :
    exec (.createAs n i r f) c = specSave m n f c := by
  cases hg : c.get n with
  | none =>
    simp only [hg, Option.isSome_none, admissible, creates] at hadm
    cases i <;> cases r <;> simp_all [exec, specSave]
  | some T =>
    simp only [hg, Option.isSome_some] at hadm
    cases m <;> cases i <;> cases r <;> simp_all [exec, specSave, admissible]

theorem raise_correct (m : Mode) (n : Name) (f : Frame) (c : Cat)
    (hadm : admissible m (c.get n).isSome .raise = true) : (c, false) = specSave m n f c := by
  cases hg : c.get n with
  | none => simp [hg, admissible, creates] at hadm
  | some T =>
    simp only [hg, Option.isSome_some] at hadm
    cases m <;> simp_all [specSave, admissible]

/-! ### mode strings -/

theorem parse_names (s : String) (m : Mode) (h : Mode.parse s = some m) : s ∈ m.names := by
  unfold Mode.parse at h
  repeat' split at h
  all_goals first | (cases h; simp_all [Mode.names]) | simp at h

theorem effectiveMode_names (arg ms : Option String) (m : Mode) (h : specMode arg ms = some m)
    (ha : arg ≠ some "") (hs : ms ≠ some "") : Gen.effectiveMode arg ms ∈ m.names := by
  cases arg with
  | some a =>
    have ha' : a ≠ "" := fun e => ha (by rw [e])
    simp only [specMode] at h
    simpa [Gen.effectiveMode, Gen.pyOr, ha'] using parse_names a m h
  | none =>
    cases ms with
    | some s =>
      simp only [specMode] at h
      simpa [Gen.effectiveMode, Gen.pyOr, Gen.pyStr] using parse_names s m h
    | none =>
      simp only [specMode, Option.some.injEq] at h
      subst h
      simp [Gen.effectiveMode, Gen.pyOr, Gen.pyStr, Mode.names]

theorem tableOk_exists (sa : String → Bool → SaveAction) (h : tableOk sa = true) (m : Mode) (k : String)
    (hk : k ∈ m.names) : admissible m true (sa k true) = true := by
  simp only [tableOk, List.all_eq_true, Bool.and_eq_true] at h
  have hm : m ∈ Mode.all := by cases m <;> simp [Mode.all]
  exact (h m hm k hk).1

theorem tableOk_missing (sa : String → Bool → SaveAction) (h : tableOk sa = true) (m : Mode) (k : String)
    (hk : k ∈ m.names) (hm' : m ≠ .append) : admissible m false (sa k false) = true := by
  simp only [tableOk, List.all_eq_true, Bool.and_eq_true, Bool.or_eq_true, decide_eq_true_eq] at h
  have hm : m ∈ Mode.all := by cases m <;> simp [Mode.all]
  rcases (h m hm k hk).2 with h2 | h2
  · exact absurd h2 hm'
  · exact h2

/-! ### the frame the model selects is the specification's alignment -/

theorem selFrameP_pos (fl : Flags) (n : Name) (f : Frame) (st : St) : (selFrameP fl n false f st).2 = some f := by
  simp [selFrameP]

theorem selFrameP_byName (fl : Flags) (hre : fl.reorders = true) (n : Name) (f : Frame) (st : St) (T : TTable)
    (hg : st.cat.get n = some T) (hne : T.cols ≠ [])
    (hknown : fl.src ≠ .schemaCache ∨ (st.cached n).isSome = true)
    (hfresh : fl.src = .engine ∨ (fl.src = .cacheThenEngine ∧ fl.skips = false) ∨ st.cached n = none ∨ st.cached n = some T.cols) :
    (selFrameP fl n true f st).2 = alignByName T f false := by
  simp only [selFrameP, hre, Bool.and_self, if_true]
  rw [byNameColsP_eq fl.src fl.skips st n T hg hknown hfresh]
  exact selectCols_align T f hne

theorem align_same_cols (T : TTable) (f : Frame) (hf : f.WF) (h : f.cols = T.cols) (b : Bool) :
    alignByName T f b = some f := by
  have hc : T.cols = f.cols := h.symm
  simp [alignByName, hc, all_mem_self, Frame.project_self f hf]

theorem align_same_count (T : TTable) (f : Frame) (h : f.cols.length = T.cols.length) :
    alignByName T f true = alignByName T f false := by
  simp [alignByName, h]

theorem res_eq (r : Res) (b : Bool) (h1 : r.ok = b) (h2 : r.out = none) : r = ⟨b, none⟩ := by
  cases r; simp_all

/-- **one call**: for every decision table and flag setting that is admissible where no hypothesis
    excuses it, a well-formed in-scope call has the specified effect on the catalog and the same outcome -/
theorem step_generic (sa : String → Bool → SaveAction) (fl : Flags) (htab : tableOk sa = true)
    (hre : fl.reorders = true) (hex : fl.executes = true)
    (o : Op) (st : St) (hwf : CatWF st.cat) (ho : o.WF) (hs : InScope sa fl o st) :
    (stepP sa fl o st).1.cat = (specStep o st.cat).1 ∧ (stepP sa fl o st).2 = (specStep o st.cat).2 := by
  obtain ⟨hAT, hAB, hKn, hFr, hTy, hMode⟩ := hs
  cases o with
  | read n =>
    have hspec : (specStep (.read n) st.cat).1 = st.cat := by
      simp only [specStep]; cases st.cat.get n <;> rfl
    simp only [stepP]
    rw [hspec]
    apply read_correct fl.skips n st hwf
    intro T hT
    simpa [H_schemaCacheFresh, hT] using hFr
  | drop n => simp [stepP, specStep]
  | insertInto n bn f =>
    simp only [stepP, specStep, specInsert]
    cases hg : st.cat.get n with
    | none =>
      obtain ⟨h1, h2, h3⟩ := insertStepP_missing fl n bn f st hg
      refine ⟨h1, res_eq _ false ?_ h3⟩
      cases hok : (insertStepP fl n bn f st).2.ok with
      | false => rfl
      | true => have := h2 hok; rw [hex] at this; cases this
    | some T =>
      obtain ⟨hTwf, hne⟩ := catWF_get st.cat n T hwf hg
      obtain ⟨h1, h2⟩ := insertStepP_outcome fl hex n bn f st T hg
      have hsel : (selFrameP fl n bn f st).2 = (if bn then alignByName T f false else some f) := by
        cases bn with
        | false => simpa using selFrameP_pos fl n f st
        | true =>
          simp only [if_true]
          apply selFrameP_byName fl hre n f st T hg hne
          · simpa [H_byNameSchemaKnown, byNameTarget, hg] using hKn
          · simpa [H_schemaCacheFresh, byNameTarget, hg] using hFr
      have hty : ∀ x, (if bn then alignByName T f false else some f) = some x → typesOk T.tys x.tys = true := by
        intro x hx
        simp only [D_illTypedInsert, specAligned, hg, hx, Option.map_some] at hTy
        exact hTy
      rw [h1, h2, hsel]
      simp only [appendOutcome, ← specAppend_eq T _ hty]
      cases ((if bn then alignByName T f false else some f).bind (specAppend T)) <;> simp
  | save n arg ms f =>
    obtain ⟨hf, hfne, harg, hms⟩ := ho
    simp only [D_knownMode] at hMode
    cases hm : specMode arg ms with
    | none => simp [hm] at hMode
    | some m =>
      have hkey := effectiveMode_names arg ms m hm harg hms
      simp only [stepP, specStep, hm, saveStepP]
      cases hg : st.cat.get n with
      | none =>
        have hadm : admissible m false (sa (Gen.effectiveMode arg ms) false) = true := by
          by_cases hma : m = .append
          · subst hma
            have := hAT hm hg
            simpa [admissible] using this
          · exact tableOk_missing sa htab m _ hkey hma
        simp only [Option.isSome_none]
        cases ha : sa (Gen.effectiveMode arg ms) false with
        | insert b => simp [ha, admissible, creates] at hadm
        | raise => simp [ha, admissible, creates] at hadm
        | create i r =>
          rw [ha] at hadm
          have := create_correct m n f st.cat i r (by simpa [hg] using hadm)
          simp [this]
      | some T =>
        obtain ⟨hTwf, hne⟩ := catWF_get st.cat n T hwf hg
        have hadm := tableOk_exists sa htab m _ hkey
        simp only [Option.isSome_some]
        cases ha : sa (Gen.effectiveMode arg ms) true with
        | create i r =>
          rw [ha] at hadm
          have := create_correct m n f st.cat i r (by simpa [hg] using hadm)
          simp [this]
        | raise =>
          rw [ha] at hadm
          have := raise_correct m n f st.cat (by simpa [hg] using hadm)
          simp [← this]
        | insert b =>
          rw [ha] at hadm
          have hma : m = .append := by cases m <;> simp_all [admissible]
          subst hma
          obtain ⟨h1, h2⟩ := insertStepP_outcome fl hex n b f st T hg
          have hAB' := hAB hm
          simp only [hg] at hAB'
          have hsel : (selFrameP fl n b f st).2 = alignByName T f true := by
            cases b with
            | false =>
              rw [selFrameP_pos]
              rcases hAB' with h | h
              · rw [ha] at h; simp at h
              · exact (align_same_cols T f hf h true).symm
            | true =>
              have e : (selFrameP fl n true f st).2 = alignByName T f false := by
                apply selFrameP_byName fl hre n f st T hg hne
                · simpa [H_byNameSchemaKnown, byNameTarget, hg, ha] using hKn
                · simpa [H_schemaCacheFresh, byNameTarget, hg, ha] using hFr
              rw [e]
              rcases hAB' with h | h
              · exact (align_same_count T f h.2).symm
              · rw [align_same_cols T f hf h true, align_same_cols T f hf h false]
          have hty : ∀ x, alignByName T f true = some x → typesOk T.tys x.tys = true := by
            intro x hx
            simp only [D_illTypedInsert, specAligned, hg, hm, hx, Option.map_some] at hTy
            exact hTy
          rw [h1, h2, hsel]
          simp only [specSave, hg, appendOutcome, ← specAppend_eq T _ hty]
          cases ((alignByName T f true).bind (specAppend T)) <;> simp

/-- the specification keeps every stored table well-formed -/
theorem specStep_WF (o : Op) (c : Cat) (hwf : CatWF c) (ho : o.WF) : CatWF (specStep o c).1 := by
  cases o with
  | read n => simp only [specStep]; cases c.get n <;> exact hwf
  | drop n =>
    simp only [specStep, exec]
    cases c.get n with
    | none => exact hwf
    | some T => exact catWF_del c n hwf
  | insertInto n bn f =>
    simp only [specStep, specInsert]
    cases hg : c.get n with
    | none => exact hwf
    | some T =>
      simp only
      cases hb : ((if bn then alignByName T f false else some f).bind (specAppend T)) with
      | none => exact hwf
      | some T' =>
        simp only
        apply catWF_put c n T' hwf
        obtain ⟨g, _, hg2⟩ := Option.bind_eq_some_iff.mp hb
        unfold specAppend at hg2
        split at hg2
        · exact insertRows_WF T T' g (catWF_get c n T hwf hg) hg2
        · simp at hg2
  | save n arg ms f =>
    obtain ⟨hf, hfne, _, _⟩ := ho
    simp only [specStep]
    cases specMode arg ms with
    | none => exact hwf
    | some m =>
      simp only [specSave]
      cases hg : c.get n with
      | none =>
        simp only
        split
        · exact hwf
        · exact catWF_put c n f.table hwf (frame_table_WF f hf hfne)
      | some T =>
        cases m with
        | default => exact hwf
        | error => exact hwf
        | errorifexists => exact hwf
        | ignore => exact hwf
        | overwrite =>
          simp only
          split
          · exact hwf
          · exact catWF_put c n f.table hwf (frame_table_WF f hf hfne)
        | append =>
          simp only
          cases hb : ((alignByName T f true).bind (specAppend T)) with
          | none => exact hwf
          | some T' =>
            simp only
            apply catWF_put c n T' hwf
            obtain ⟨g, _, hg2⟩ := Option.bind_eq_some_iff.mp hb
            unfold specAppend at hg2
            split at hg2
            · exact insertRows_WF T T' g (catWF_get c n T hwf hg) hg2
            · simp at hg2

end Sqlframe.C14
