/-
Lemmas/C01.lean — helper lemmas for the clause-ordering theorem (no property statements here).
-/
import SqlframeModel.Impl.C01Scope
namespace Sqlframe
open Gen

/-! ### lists -/

theorem filter_all_append (ps : List Expr) (p : Expr) (cols : List Name) (rows : List Row) :
    rows.filter (fun r => (ps ++ [p]).all (fun q => isTrue (eval cols r q)))
      = (rows.filter (fun r => ps.all (fun q => isTrue (eval cols r q)))).filter
          (fun r => isTrue (eval cols r p)) := by
  rw [List.filter_filter]
  congr 1
  funext r
  simp [List.all_append, Bool.and_comm]

theorem lookup_not_mem (cs : List Name) (c : Name) (vs : Row) (v : Val) (h : c ∉ cs) (n : Name) (hn : n ∈ cs) :
    lookup (c :: cs) (v :: vs) n = lookup cs vs n := by
  have : c ≠ n := fun e => h (e ▸ hn)
  simp [lookup, this]

theorem map_lookup_self : ∀ (cs : List Name) (r : Row), cs.Nodup → r.length = cs.length →
    cs.map (fun c => lookup cs r c) = r
  | [], [], _, _ => rfl
  | [], _ :: _, _, h => by simp at h
  | _ :: _, [], _, h => by simp at h
  | c :: cs, v :: vs, hnd, hlen => by
    have hnd' := List.nodup_cons.mp hnd
    simp only [List.map_cons, lookup, if_true]
    congr 1
    have ih := map_lookup_self cs vs hnd'.2 (by simpa using hlen)
    rw [← ih]
    apply List.map_congr_left
    intro n hn
    rw [ih]
    exact lookup_not_mem cs c vs v hnd'.1 n hn

theorem ident_row (cols : List Name) (r : Row) (hnd : cols.Nodup) (hl : r.length = cols.length) :
    (identSel cols).map (fun it => eval cols r it.2) = r := by
  simp only [identSel, List.map_map, Function.comp_def, eval]
  exact map_lookup_self cols r hnd hl

@[simp] theorem identSel_names (cols : List Name) : (identSel cols).map (·.1) = cols := by
  simp [identSel, Function.comp_def]

theorem filter_true {α} (l : List α) : l.filter (fun _ => true) = l := by
  induction l <;> simp_all

/-! ### block evaluation -/

theorem stWhere_len (w : List Expr) (T0 : Table) (h : T0.WF) : ∀ r ∈ stWhere w T0, r.length = T0.cols.length := by
  intro r hr; exact h.2 r (List.mem_filter.mp hr).1

theorem stSelect_ident (T0 : Table) (rows : List Row) (hnd : T0.cols.Nodup)
    (h : ∀ r ∈ rows, r.length = T0.cols.length) : stSelect (identSel T0.cols) T0.cols rows = rows := by
  simp only [stSelect]
  calc _ = List.map id rows := List.map_congr_left (fun r hr => ident_row T0.cols r hnd (h r hr))
    _ = rows := by simp

/-- a block whose later clauses are still empty evaluates to the filtered source -/
theorem evalBlock_plain (w : List Expr) (T0 : Table) (h : T0.WF) :
    evalBlock { wher := w, sel := identSel T0.cols, distinct := false, order := [], limit := none } T0
      = { cols := T0.cols, rows := stWhere w T0 } := by
  simp only [evalBlock, identSel_names, stLimit, stOrder, stDistinct]
  congr 1
  exact stSelect_ident T0 _ h.1 (stWhere_len w T0 h)

theorem dedup_len (l : List Row) (n : Nat) (h : ∀ r ∈ l, r.length = n) : ∀ r ∈ dedup l, r.length = n := by
  induction l with
  | nil => intro r hr; simp [dedup] at hr
  | cons x xs ih =>
    intro r hr
    simp only [dedup, List.mem_cons, List.mem_filter] at hr
    rcases hr with rfl | ⟨hr, _⟩
    · exact h _ (by simp)
    · exact ih (fun r hr => h r (by simp [hr])) r hr

theorem insertBy_mem {α} (le : α → α → Bool) (x : α) (l : List α) (y : α) :
    y ∈ insertBy le x l ↔ y = x ∨ y ∈ l := by
  induction l with
  | nil => simp [insertBy]
  | cons z zs ih =>
    simp only [insertBy]
    split
    · simp
    · simp only [List.mem_cons, ih]
      constructor
      · rintro (h | h | h) <;> simp [h]
      · rintro (h | h | h) <;> simp [h]

theorem sortBy_mem {α} (le : α → α → Bool) (l : List α) (y : α) : y ∈ sortBy le l ↔ y ∈ l := by
  induction l with
  | nil => simp [sortBy]
  | cons x xs ih => simp [sortBy, insertBy_mem, ih]

theorem insertBy_perm {α} (le : α → α → Bool) (x : α) (l : List α) : (insertBy le x l).Perm (x :: l) := by
  induction l with
  | nil => exact List.Perm.refl _
  | cons y ys ih =>
    simp only [insertBy]
    split
    · exact List.Perm.refl _
    · exact (List.Perm.cons y ih).trans (List.Perm.swap x y ys)

theorem sortBy_perm {α} (le : α → α → Bool) (l : List α) : (sortBy le l).Perm l := by
  induction l with
  | nil => exact List.Perm.refl _
  | cons x xs ih => exact (insertBy_perm le x _).trans (List.Perm.cons x ih)

theorem stSelect_len (sel : List (Name × Expr)) (cols : List Name) (rows : List Row) :
    ∀ r ∈ stSelect sel cols rows, r.length = sel.length := by
  intro r hr
  simp only [stSelect, List.mem_map] at hr
  obtain ⟨a, _, rfl⟩ := hr
  simp

theorem stDistinct_len (d : Bool) (rows : List Row) (n : Nat) (h : ∀ r ∈ rows, r.length = n) :
    ∀ r ∈ stDistinct d rows, r.length = n := by
  cases d
  · simpa [stDistinct] using h
  · simpa [stDistinct] using dedup_len rows n h

theorem stOrder_len (c : List Name) (ks : List OrdKey) (rows : List Row) (n : Nat) (h : ∀ r ∈ rows, r.length = n) :
    ∀ r ∈ stOrder c ks rows, r.length = n := by
  cases ks with
  | nil => simpa [stOrder] using h
  | cons k ks => intro r hr; simp only [stOrder] at hr; exact h r ((sortBy_mem _ _ _).mp hr)

theorem stLimit_len (l : Option Nat) (rows : List Row) (n : Nat) (h : ∀ r ∈ rows, r.length = n) :
    ∀ r ∈ stLimit l rows, r.length = n := by
  cases l with
  | none => simpa [stLimit] using h
  | some k => intro r hr; simp only [stLimit] at hr; exact h r (List.mem_of_mem_take hr)

/-- every output row of a block has the arity of its select list -/
theorem evalBlock_WF (b : Block) (T0 : Table) (hs : (b.sel.map (·.1)).Nodup) : (evalBlock b T0).WF := by
  refine ⟨hs, ?_⟩
  have hlen : (evalBlock b T0).cols.length = b.sel.length := by simp [evalBlock]
  rw [hlen]
  exact stLimit_len _ _ _ (stOrder_len _ _ _ _ (stDistinct_len _ _ _ (stSelect_len _ _ _)))

end Sqlframe
