/-
Lemmas/C06DF.lean — the DataFrame-level model of groupBy().agg / shortcuts / count / DataFrame.agg / cube
evaluates to the specification on the receiver's value, and re-establishes C01's clause-order invariant
(so the result "can be filtered, joined or re-aggregated like any other DataFrame").
-/
import SqlframeModel.Props.C01
import SqlframeModel.Lemmas.C06Group
import SqlframeModel.Lemmas.C06Cube
namespace Sqlframe
open Gen

/-- the two decorators take the same decisions (both are generated) -/
theorem wrapperGroup_eq (tag : Option Op) (body : DF → DF) (d : DF) : wrapperGroup tag body d = wrapper tag body d := by
  cases tag <;> rfl

theorem enterOp_some (op : Op) (d : DF) : enterOp (some op) d = enter op d := rfl

theorem aggSpec_WF (keys : List (Name × Expr)) (aggs : List (Name × AExpr)) (T : Table)
    (hn : (keys.map (·.1) ++ aggs.map (·.1)).Nodup) : (aggSpec keys aggs T).WF := by
  refine ⟨hn, ?_⟩
  intro r hr
  simp only [aggSpec, List.mem_map] at hr
  obtain ⟨kv, hkv, rfl⟩ := hr
  have hlen : kv.length = keys.length := by
    cases keys with
    | nil => simp at hkv; simp [hkv]
    | cons k ks =>
      rw [if_neg (by simp)] at hkv
      obtain ⟨r, _, rfl⟩ := List.mem_map.mp ((mem_distinctL kv _).mp hkv)
      simp
  simp [aggSpec, hlen]

/-- body of `GroupedData.agg` (no grouping sets) on a block that is ready for a SELECT -/
theorem bodyAgg_plain (keys : List (Name × Expr)) (aggs : List (Name × AExpr)) (d : DF) (hi : Inv d) (hr : Ready d)
    (hwf : aggsWF d.eval.cols keys aggs) (hn : ∀ k ∈ keys, k.2.isIntLit = false) :
    Fresh (bodyAgg keys none aggs d) ∧ (bodyAgg keys none aggs d).eval = aggSpec keys aggs d.eval := by
  have hsrc : (bodyAgg keys none aggs d).src = aggSpec keys aggs d.eval := by
    simp only [bodyAgg, hr.2.1, hr.2.2.1, hr.2.2.2, and_self, if_true]
    rw [evalGBlock_spec _ _ _ _ hwf.2.1 hn, ready_eval d hi hr]
  have hf : Fresh (bodyAgg keys none aggs d) := by
    refine ⟨?_, rfl, rfl, rfl, rfl, rfl⟩
    rw [hsrc]; exact aggSpec_WF keys aggs _ hwf.1
  exact ⟨hf, by rw [fresh_eval _ hf, hsrc]⟩

theorem groupAgg_df (d : DF) (hi : Inv d) (keys : List (Name × Expr)) (aggs : List (Name × AExpr))
    (hwf : aggsWF d.eval.cols keys aggs) (hn : ∀ k ∈ keys, k.2.isIntLit = false) :
    ((d.groupBy keys).agg aggs).eval = aggSpec keys aggs d.eval ∧ Fresh ((d.groupBy keys).agg aggs) := by
  have hg : Op.groupBy ≠ Op.noOp := by decide
  have hs : Op.select ≠ Op.noOp := by decide
  have htag : tag_groupBy = some Op.groupBy := rfl
  have hatag : groupAggTag = some Op.select := rfl
  obtain ⟨hi1, he1⟩ := enter_inv .groupBy d hi
  obtain ⟨hi2, he2⟩ := enter_inv .select (enter .groupBy d) hi1
  have hr2 := enter_ready .select hs (by decide) (enter .groupBy d) hi1
  simp only [GroupedData.agg, DF.groupBy, htag, hatag, enterOp_some, wrapperGroup_eq, wrapper_eq _ hs]
  have hwf' : aggsWF (enter .select (enter .groupBy d)).eval.cols keys aggs := by rw [he2, he1]; exact hwf
  obtain ⟨hf, hev⟩ := bodyAgg_plain keys aggs _ hi2 hr2 hwf' hn
  refine ⟨?_, hf.setLast _⟩
  show (bodyAgg keys none aggs (enter .select (enter .groupBy d))).eval = _
  rw [hev, he2, he1]

theorem dfAgg_df (d : DF) (hi : Inv d) (aggs : List (Name × AExpr)) (hwf : aggsWF d.eval.cols [] aggs) :
    (d.aggAll aggs).eval = aggSpec [] aggs d.eval ∧ Fresh (d.aggAll aggs) := by
  have hs : Op.select ≠ Op.noOp := by decide
  have htag : tag_agg = some Op.select := rfl
  obtain ⟨hi1, he1⟩ := enter_inv .select d hi
  simp only [DF.aggAll, htag, wrapper_eq _ hs]
  obtain ⟨hev, hf⟩ := groupAgg_df (enter .select d) hi1 [] aggs (by rw [he1]; exact hwf) (fun k hk => absurd hk (by simp))
  refine ⟨?_, hf.setLast _⟩
  show (((enter .select d).groupBy []).agg aggs).eval = _
  rw [hev, he1]

/-! ### shortcut names -/

/-- **shortcut aggregates are named and computed as in PySpark** (`sum(c)`, `avg(c)` also for `mean`, …):
    the generated method table + alias format give, for *every* method name and column list, exactly
    PySpark's aggregate list; unknown method names are unknown on both sides -/
theorem shortcutAggs_spec (m : String) (cs : List Name) : shortcutAggs m cs = specShortcutAggs m cs := by
  by_cases h1 : m = "avg"
  · subst h1; rfl
  by_cases h2 : m = "max"
  · subst h2; rfl
  by_cases h3 : m = "mean"
  · subst h3; rfl
  by_cases h4 : m = "min"
  · subst h4; rfl
  by_cases h5 : m = "sum"
  · subst h5; rfl
  have b1 : (m == "avg") = false := by simpa using h1
  have b2 : (m == "max") = false := by simpa using h2
  have b3 : (m == "mean") = false := by simpa using h3
  have b4 : (m == "min") = false := by simpa using h4
  have b5 : (m == "sum") = false := by simpa using h5
  have hl : shortcutTable.lookup m = none := by
    simp [shortcutTable, List.lookup, b1, b2, b3, b4, b5]
  have hsp : sparkShortcut m = none := by
    unfold sparkShortcut
    split <;> simp_all
  simp [shortcutAggs, specShortcutAggs, hl, hsp]

theorem countAggs_spec : countAggs = specCountAggs := by decide

theorem implParts_spec (g : GOp) : g.implParts = g.specParts := by
  cases g <;> simp [GOp.implParts, GOp.specParts, shortcutAggs_spec, countAggs_spec]

/-! ### one step of a chain -/

def GStep.okForChain : GStep → Bool
  | .plain s => !s.isOrderBy && s.inTheorem
  | .group g => !g.isCube

/-- under `H_intLiteralKey` no key of the step is an integer literal -/
theorem keys_not_intLit (g : GOp) (hc : g.isCube = false) (hn : g.intLitKeyInGroupBy = false)
    (keys : List (Name × Expr)) (aggs : List (Name × AExpr)) (hp : g.specParts = some (keys, aggs)) :
    ∀ k ∈ keys, k.2.isIntLit = false := by
  have hkeep : groupByKeeps .numLit = true := groupByKeeps_all _
  simp only [GOp.intLitKeyInGroupBy, hp, hc, Bool.false_eq_true, if_false, hkeep, Bool.true_and] at hn
  intro k hk
  cases h : k.2.isIntLit with
  | false => rfl
  | true =>
    have : keys.any (fun k => k.2.isIntLit) = true := List.any_eq_true.mpr ⟨k, hk, h⟩
    rw [this] at hn; exact absurd hn (by decide)

theorem applyG_step (d : DF) (s : GStep) (hi : Inv d) (hs : s.WF d.eval.cols) (hok : s.okForChain = true)
    (hn : s.intLitKeyInGroupBy = false) :
    (d.applyG s).eval = specG d.eval s ∧ Inv (d.applyG s) := by
  cases s with
  | plain s =>
    have hno : s.isOrderBy = true → d.last ≠ .orderBy := by
      intro h; simp [GStep.okForChain, h] at hok
    have hin : s.inTheorem = true := by
      simp only [GStep.okForChain, Bool.and_eq_true] at hok; exact hok.2
    obtain ⟨he, hi', _⟩ := C01_step d s hi hs hno hin
    exact ⟨he, hi'⟩
  | group g =>
    have hc : g.isCube = false := by simpa [GStep.okForChain] using hok
    simp only [DF.applyG, specG, implParts_spec]
    simp only [GStep.WF, GOp.WF] at hs
    cases hp : g.specParts with
    | none => rw [hp] at hs; exact absurd hs (by simp)
    | some p =>
      obtain ⟨keys, aggs⟩ := p
      rw [hp] at hs
      have hnk := keys_not_intLit g hc hn keys aggs hp
      simp only [hc, Bool.false_eq_true, if_false]
      by_cases hd : g.isDfAgg = true
      · have hk : keys = [] := by
          cases g <;> simp_all [GOp.isDfAgg, GOp.specParts]
        subst hk
        rw [if_pos hd]
        obtain ⟨he, hf⟩ := dfAgg_df d hi aggs hs
        exact ⟨he, hf.inv⟩
      · rw [if_neg hd]
        obtain ⟨he, hf⟩ := groupAgg_df d hi keys aggs hs hnk
        exact ⟨he, hf.inv⟩

/-! ### cube -/

theorem distinctL_const_nil : ∀ (rows : List Row), rows ≠ [] → distinctL (rows.map (fun _ => ([] : List Val))) = [[]]
  | [], h => absurd rfl h
  | [_], _ => by simp [distinctL]
  | _ :: b :: rs, _ => by
    have ih := distinctL_const_nil (b :: rs) (by simp)
    simp only [List.map_cons] at ih ⊢
    simp only [distinctL, List.mem_cons, true_or, if_true]
    simpa [distinctL] using ih

theorem snd_inj_of_nodup {α β} : ∀ (l : List (α × β)), (l.map (·.2)).Nodup → ∀ a ∈ l, ∀ b ∈ l, a.2 = b.2 → a = b
  | [], _, a, ha, _, _, _ => by simp at ha
  | x :: xs, h, a, ha, b, hb, e => by
    have h' : x.2 ∉ xs.map (·.2) ∧ (xs.map (·.2)).Nodup := List.nodup_cons.mp h
    rcases List.mem_cons.mp ha with rfl | ha' <;> rcases List.mem_cons.mp hb with rfl | hb'
    · rfl
    · exact absurd (List.mem_map.mpr ⟨b, hb', e.symm⟩) h'.1
    · exact absurd (List.mem_map.mpr ⟨a, ha', e⟩) h'.1
    · exact snd_inj_of_nodup xs h'.2 a ha' b hb' e

/-- rows contributed by one grouping set: engine (GROUPING SETS) = specification, on a non-empty input -/
theorem cube_set_rows (keys S : List (Name × Expr)) (aggs : List (Name × AExpr)) (cols : List Name) (rows0 : List Row)
    (hk : (keys.map (·.2)).Nodup) (hS : ∀ x ∈ S, x ∈ keys) (hne : rows0 ≠ []) :
    ((if S.map (·.2) = [] then [([], rows0)] else groupR (fun r => (S.map (·.2)).map (eval cols r)) rows0).map (fun kg =>
        keys.map (fun k => if k.2 ∈ S.map (·.2) then keyValue (S.map (·.2)) kg.1 k.2 else .null) ++
        aggs.map (fun a => evalAExpr cols kg.2 a.2)))
    = (distinctL (rows0.map (fun r => S.map (fun k => eval cols r k.2)))).map (fun kv =>
        keys.map (fun k => if k ∈ S then keyValue (S.map (·.2)) kv k.2 else .null) ++
        aggs.map (fun a => evalAExpr cols (rows0.filter (fun r => S.map (fun k => eval cols r k.2) = kv)) a.2)) := by
  have hmem : ∀ k ∈ keys, (k.2 ∈ S.map (·.2)) ↔ k ∈ S := by
    intro k hkm
    constructor
    · intro h
      obtain ⟨k', hk', e⟩ := List.mem_map.mp h
      have := snd_inj_of_nodup keys hk k' (hS k' hk') k hkm e
      exact this ▸ hk'
    · intro h; exact List.mem_map.mpr ⟨k, h, rfl⟩
  have hkeys : ∀ kv : List Val,
      keys.map (fun k => if k.2 ∈ S.map (·.2) then keyValue (S.map (·.2)) kv k.2 else Val.null)
        = keys.map (fun k => if k ∈ S then keyValue (S.map (·.2)) kv k.2 else Val.null) := by
    intro kv
    apply List.map_congr_left
    intro k hkm
    by_cases h : k ∈ S
    · rw [if_pos h, if_pos ((hmem k hkm).mpr h)]
    · rw [if_neg h, if_neg (fun h' => h ((hmem k hkm).mp h'))]
  cases S with
  | nil =>
    simp only [List.map_nil, if_true, List.map_cons]
    rw [distinctL_const_nil rows0 hne]
    simp only [List.map_cons, List.map_nil]
    rw [filter_true' _ _ (by simp)]
    simp
  | cons s ss =>
    rw [if_neg (by simp), groupR_spec, List.map_map]
    have hmap : (fun r => List.map (eval cols r) (List.map (fun x => x.snd) (s :: ss)))
        = (fun r => List.map (fun k => eval cols r k.snd) (s :: ss)) := by
      funext r; simp [List.map_map, Function.comp_def]
    rw [hmap]
    apply List.map_congr_left
    intro kv _
    simp only [Function.comp]
    rw [hkeys kv]
    simp only [List.map_map, Function.comp_def]

/-- the grouping-sets block when every set is read as written and every key is grouped in some set:
    a key outside the current set is NULL -/
def gsTable (wher : List Expr) (sets : List (List Expr)) (keys : List (Name × Expr)) (aggs : List (Name × AExpr)) (T0 : Table) : Table :=
  { cols := keys.map (·.1) ++ aggs.map (·.1),
    rows := sets.flatMap (fun S =>
      (if S = [] then [([], stWhere wher T0)] else groupR (fun r => S.map (eval T0.cols r)) (stWhere wher T0)).map (fun kg =>
        keys.map (fun k => if k.2 ∈ S then keyValue S kg.1 k.2 else .null) ++
        aggs.map (fun a => evalAExpr T0.cols kg.2 a.2))) }

/-- **grouping sets are read as written** when no key is an integer literal (no positional reading), every
    key reaches its set's tuple (the regenerated filter keeps everything) and the full key list is one of the sets -/
theorem evalGSBlock_sets (wher : List Expr) (keys : List (Name × Expr)) (aggs : List (Name × AExpr)) (T0 : Table)
    (Ss : List (List (Name × Expr))) (hn : ∀ k ∈ keys, k.2.isIntLit = false)
    (hsub : ∀ S ∈ Ss, ∀ k ∈ S, k ∈ keys) (hfull : keys ∈ Ss) :
    evalGSBlock { wher := wher, sets := Ss.map groupingSetList, keys := keys, aggs := aggs } T0
      = gsTable wher (Ss.map (fun S => S.map (·.2))) keys aggs T0 := by
  have hsets : Ss.map groupingSetList = Ss.map (fun S => S.map (·.2)) :=
    List.map_congr_left (fun S _ => groupingSetList_eq S)
  have hres : resolveSets (keys.map (fun k => (k.1, GItem.key k.2)) ++ aggs.map (fun a => (a.1, GItem.agg a.2)))
      (Ss.map (fun S => S.map (·.2))) = some (Ss.map (fun S => S.map (·.2))) := by
    apply resolveSets_self
    intro S hS e he
    obtain ⟨S', hS', rfl⟩ := List.mem_map.mp hS
    obtain ⟨k, hk, rfl⟩ := List.mem_map.mp he
    exact hn k (hsub S' hS' k hk)
  simp only [evalGSBlock, hsets, hres, gsTable]
  congr 1
  apply flatMap_congr_mem
  intro S _
  apply List.map_congr_left
  intro kg _
  congr 1
  apply List.map_congr_left
  intro k hk
  have hany : (Ss.map (fun S => S.map (·.2))).any (fun S' => decide (k.2 ∈ S')) = true := by
    rw [List.any_eq_true]
    exact ⟨keys.map (·.2), List.mem_map.mpr ⟨keys, hfull, rfl⟩, by simpa using ⟨k.1, by simpa using hk⟩⟩
  simp [hany]

theorem keys_mem_cubeSets {α} (keys : List α) : keys ∈ cubeSets keys :=
  (cubeSets_perm keys).mem_iff.mpr ((mem_sublistsL keys keys).mpr (List.Sublist.refl _))

theorem cubeSets_subset {α} (keys S : List α) (h : S ∈ cubeSets keys) : ∀ x ∈ S, x ∈ keys :=
  sublistsL_subset keys S ((cubeSets_perm keys).mem_iff.mp h)

theorem cube_df (d : DF) (hi : Inv d) (keys : List (Name × Expr)) (aggs : List (Name × AExpr))
    (hwf : aggsWF d.eval.cols keys aggs) (hne : d.eval.rows ≠ []) (hn : ∀ k ∈ keys, k.2.isIntLit = false) :
    ((d.cube keys).agg aggs).eval.cols = (cubeSpec keys aggs d.eval).cols ∧
    ((d.cube keys).agg aggs).eval.rows.Perm (cubeSpec keys aggs d.eval).rows ∧
    Inv ((d.cube keys).agg aggs) := by
  have hs : Op.select ≠ Op.noOp := by decide
  have htag : tag_cube = none := rfl
  have hatag : groupAggTag = some Op.select := rfl
  obtain ⟨hi2, he2⟩ := enter_inv .select d hi
  have hr2 := enter_ready .select hs (by decide) d hi
  simp only [GroupedData.agg, DF.cube, htag, hatag, enterOp, wrapperGroup_eq, wrapper_eq _ hs]
  generalize enter Op.select d = d2 at hi2 he2 hr2
  have hev : d2.eval = { cols := d2.src.cols, rows := stWhere d2.blk.wher d2.src } := ready_eval d2 hi2 hr2
  have hrows : d.eval.rows = stWhere d2.blk.wher d2.src := by rw [← he2, hev]
  have hcols : d.eval.cols = d2.src.cols := by rw [← he2, hev]
  -- the frozen result
  have hsrc : (bodyAgg keys (some (cubeSets keys)) aggs d2).src =
      gsTable d2.blk.wher ((cubeSets keys).map (fun S => S.map (·.2))) keys aggs d2.src := by
    simp only [bodyAgg, hr2.2.1, hr2.2.2.1, hr2.2.2.2, and_self, if_true]
    exact evalGSBlock_sets _ keys aggs _ (cubeSets keys) hn (cubeSets_subset keys) (keys_mem_cubeSets keys)
  -- rows of the engine's result, set by set
  have hrowsEq : (gsTable d2.blk.wher ((cubeSets keys).map (fun S => S.map (·.2))) keys aggs d2.src).rows.Perm
      (cubeSpec keys aggs d.eval).rows := by
    simp only [gsTable, cubeSpec, List.flatMap_map]
    rw [← hrows, ← hcols]
    refine ((cubeSets_perm keys).flatMap_right _).trans ?_
    rw [flatMap_congr_mem (sublistsL keys) _ _
      (fun S hS => cube_set_rows keys S aggs d.eval.cols d.eval.rows hwf.2.1 (sublistsL_subset keys S hS) hne)]
  have hlen : ∀ r ∈ (gsTable d2.blk.wher ((cubeSets keys).map (fun S => S.map (·.2))) keys aggs d2.src).rows,
      r.length = (keys.map (·.1) ++ aggs.map (·.1)).length := by
    intro r hr
    simp only [gsTable, List.mem_flatMap, List.mem_map] at hr
    obtain ⟨_, _, _, _, rfl⟩ := hr
    simp
  have hf : Fresh (bodyAgg keys (some (cubeSets keys)) aggs d2) := by
    refine ⟨?_, rfl, rfl, rfl, rfl, rfl⟩
    rw [hsrc]
    exact ⟨hwf.1, hlen⟩
  refine ⟨?_, ?_, (hf.setLast _).inv⟩
  · show (bodyAgg keys (some (cubeSets keys)) aggs d2).eval.cols = _
    rw [fresh_eval _ hf, hsrc]; rfl
  · show (bodyAgg keys (some (cubeSets keys)) aggs d2).eval.rows.Perm _
    rw [fresh_eval _ hf, hsrc]; exact hrowsEq

end Sqlframe
