/-
Lemmas/C11.lean — helper lemmas for C11 (unique field names; `limit11` under the regenerated lookup rule).
-/
import SqlframeModel.Impl.C11
import SqlframeModel.Lemmas.C01Steps
namespace Sqlframe
open Gen

theorem foldl_max_ge (l : List String) (m : Nat) : m ≤ l.foldl (fun m s => max m s.length) m := by
  induction l generalizing m with
  | nil => exact Nat.le_refl _
  | cons x xs ih => exact Nat.le_trans (Nat.le_max_left _ _) (ih _)

theorem le_maxLen_aux (l : List String) (m : Nat) : ∀ s ∈ l, s.length ≤ l.foldl (fun m s => max m s.length) m := by
  induction l generalizing m with
  | nil => intro s hs; simp at hs
  | cons x xs ih =>
    intro s hs
    simp only [List.mem_cons] at hs
    simp only [List.foldl_cons]
    rcases hs with rfl | hs
    · exact Nat.le_trans (Nat.le_max_right _ _) (foldl_max_ge xs _)
    · exact ih _ s hs

theorem le_maxLen (acc : List String) : ∀ s ∈ acc, s.length ≤ maxLen acc := le_maxLen_aux acc 0

/-- with enough fuel the `while` loop ends on a name that is not taken -/
theorem freshen_not_mem (acc : List String) (sfx : String) (hs : 1 ≤ sfx.length) :
    ∀ (fuel : Nat) (f : String), maxLen acc < f.length + fuel → freshen acc sfx fuel f ∉ acc := by
  intro fuel
  induction fuel with
  | zero =>
    intro f h hm
    have := le_maxLen acc f hm
    simp [freshen] at *
    omega
  | succ n ih =>
    intro f h
    simp only [freshen]
    split
    · apply ih
      rw [String.length_append]
      omega
    · assumption

theorem uniqueSuffix_len (i : Nat) : 1 ≤ (uniqueSuffix i).length := by
  simp only [uniqueSuffix, String.length_append]
  have : "_".length = 1 := by decide
  omega

/-- the name chosen for a field is never one already used -/
theorem renameOne_not_mem (acc : List String) (i : Nat) (f : String) : renameOne acc i f ∉ acc := by
  simp only [renameOne, uniqueLoop]
  exact freshen_not_mem acc _ (uniqueSuffix_len i) _ f (by omega)

theorem renameOne_fresh_id (acc : List String) (i : Nat) (f : String) (h : f ∉ acc) : renameOne acc i f = f := by
  simp [renameOne, uniqueLoop, freshen, h]

theorem uniqueGo_nodup : ∀ (fs : List String) (i : Nat) (acc : List String), acc.Nodup → (uniqueGo i acc fs).Nodup := by
  intro fs
  induction fs with
  | nil => intro i acc h; exact h
  | cons f fs ih =>
    intro i acc h
    simp only [uniqueGo]
    apply ih
    rw [List.nodup_append]
    refine ⟨h, by simp, ?_⟩
    intro a ha b hb
    simp at hb; subst hb
    exact fun e => renameOne_not_mem acc i f (e ▸ ha)

theorem uniqueGo_length : ∀ (fs : List String) (i : Nat) (acc : List String), (uniqueGo i acc fs).length = acc.length + fs.length := by
  intro fs
  induction fs with
  | nil => intro i acc; simp [uniqueGo]
  | cons f fs ih => intro i acc; simp only [uniqueGo, ih, List.length_append, List.length_cons, List.length_nil]; omega

theorem uniqueGo_id : ∀ (fs : List String) (i : Nat) (acc : List String), (acc ++ fs).Nodup → uniqueGo i acc fs = acc ++ fs := by
  intro fs
  induction fs with
  | nil => intro i acc _; simp [uniqueGo]
  | cons f fs ih =>
    intro i acc h
    have hf : f ∉ acc := by
      rw [List.nodup_append] at h
      intro hm
      exact h.2.2 f hm f (by simp) rfl
    simp only [uniqueGo, renameOne_fresh_id acc i f hf]
    rw [ih (i + 1) (acc ++ [f]) (by simpa using h)]
    simp

/-! ### `limit` consults the open block only

`Gen.limitLookup` is regenerated from the body of `limit`; the two lemmas below are where it enters every proof
about head / first / show / isEmpty / limit().collect(): they stop building when `limit` starts to look anywhere
else than at the LIMIT of the statement's outer SELECT. -/

theorem bodyLimit11_eq (n : Nat) : bodyLimitWith limitLookup n = bodyLimit n := by
  funext d
  simp [bodyLimitWith, bodyLimit, foundLimitWith, limitLookup]

/-- with the lookup the source has, `limit` is the `limit` step of the C01 model -/
theorem limit11_eq_apply (d : DF) (n : Nat) : d.limit11 n = d.apply (.limit n) := by
  simp only [DF.limit11, DF.limitWith, DF.apply, bodyLimit11_eq]

theorem apply11_eq_apply (d : DF) (s : Step) : d.apply11 s = d.apply s := by
  cases s <;> simp only [DF.apply11, limit11_eq_apply]

theorem run11_eq_run (steps : List Step) : ∀ d : DF, d.run11 steps = d.run steps := by
  induction steps with
  | nil => intro d; rfl
  | cons s ss ih => intro d; simp only [DF.run11, DF.run, List.foldl_cons, apply11_eq_apply]; exact ih _

end Sqlframe
