/-
Lemmas/C01Wrap.lean — the clause-order invariant, what the *generated* wrap rule must guarantee,
and the per-clause lemmas ("adding a clause to a ready block = applying the operation to the
block's result").
-/
import SqlframeModel.Lemmas.C01
namespace Sqlframe
open Gen

/-! ### obligations on the generated decorator (`Gen.Operations`) -/

/-- Everything the wrap rule must guarantee, decided over the generated predicate:
    without a wrap the new clause is not earlier than the last one, and two SELECTs never share a block. -/
theorem wrapCond_sound : ∀ last new : Op, wrapCond last new = false →
    last.toInt ≤ new.toInt ∧ ¬ (last = .select ∧ new = .select) := by
  intro last new; cases last <;> cases new <;> decide

theorem newOp_tag : ∀ op last : Op, op ≠ .noOp → newOp op last = op := by
  intro op last; cases op <;> cases last <;> decide

theorem lastAfter_new : ∀ new last : Op, lastAfter new last = new := by
  intro new last; rfl

theorem initReset_not_init : initCond initReset = false := by decide

/-! ### invariant -/

/-- a block that has just been started by `_convert_leaf_to_cte` -/
def Fresh (d : DF) : Prop :=
  d.src.WF ∧ d.blk.wher = [] ∧ d.blk.sel = identSel d.src.cols ∧ d.blk.distinct = false ∧
  d.blk.order = [] ∧ d.blk.limit = none

/-- clause-order invariant: clauses later (in SQL order) than `last` are still empty -/
def Inv (d : DF) : Prop :=
  d.src.WF ∧ (d.blk.sel.map (·.1)).Nodup ∧
  (d.last.toInt < Op.select.toInt → d.blk.sel = identSel d.src.cols ∧ d.blk.distinct = false) ∧
  (d.last.toInt < Op.orderBy.toInt → d.blk.order = []) ∧
  (d.last.toInt < Op.limit.toInt → d.blk.limit = none)

/-- the block can take a WHERE / SELECT / DISTINCT -/
def Ready (d : DF) : Prop :=
  d.blk.sel = identSel d.src.cols ∧ d.blk.distinct = false ∧ d.blk.order = [] ∧ d.blk.limit = none

/-- the block can take an ORDER BY -/
def ReadyO (d : DF) : Prop := d.blk.order = [] ∧ d.blk.limit = none

theorem Fresh.inv {d : DF} (h : Fresh d) : Inv d := by
  obtain ⟨hwf, _, hs, hd, ho, hl⟩ := h
  refine ⟨hwf, ?_, fun _ => ⟨hs, hd⟩, fun _ => ho, fun _ => hl⟩
  rw [hs, identSel_names]; exact hwf.1

theorem Fresh.ready {d : DF} (h : Fresh d) : Ready d := ⟨h.2.2.1, h.2.2.2.1, h.2.2.2.2.1, h.2.2.2.2.2⟩

theorem Fresh.setLast {d : DF} (h : Fresh d) (l : Op) : Fresh { d with last := l } := h

theorem init_fresh (T : Table) (h : T.WF) : Fresh (DF.init T) := ⟨h, rfl, rfl, rfl, rfl, rfl⟩

theorem wrap_fresh (d : DF) (h : Inv d) : Fresh d.wrap :=
  ⟨evalBlock_WF d.blk d.src h.2.1, rfl, rfl, rfl, rfl, rfl⟩

theorem fresh_eval (d : DF) (h : Fresh d) : d.eval = d.src := by
  obtain ⟨hwf, hw, hs, hd, ho, hl⟩ := h
  have e : d.blk = { wher := [], sel := identSel d.src.cols, distinct := false, order := [], limit := none } := by
    cases hb : d.blk; simp_all
  simp only [DF.eval]
  rw [e, evalBlock_plain _ _ hwf]
  simp [stWhere, filter_true]

theorem wrap_eval (d : DF) (h : Inv d) : d.wrap.eval = d.eval :=
  fresh_eval d.wrap (wrap_fresh d h)

/-! ### what the body of a decorated method sees -/

/-- the INIT branch of the wrapper -/
def afterInit (d : DF) : DF := if initCond d.last then { d.wrap with last := initReset } else d

/-- the wrap test of the wrapper -/
def maybeWrap (new : Op) (d : DF) : DF := if wrapCond d.last new then d.wrap else d

/-- the DataFrame handed to the body by `operation(op).wrapper` -/
def enter (op : Op) (d : DF) : DF :=
  let d1 := afterInit d
  maybeWrap (newOp op d1.last) d1

theorem wrapper_eq (op : Op) (hop : op ≠ .noOp) (body : DF → DF) (d : DF) :
    wrapper (some op) body d = { body (enter op d) with last := op } := by
  simp only [wrapper, enter, afterInit, maybeWrap, lastAfter_new, newOp_tag _ _ hop]

theorem afterInit_inv (d : DF) (h : Inv d) : Inv (afterInit d) ∧ (afterInit d).eval = d.eval := by
  unfold afterInit
  by_cases hi : initCond d.last = true
  · rw [if_pos hi]
    exact ⟨((wrap_fresh d h).setLast _).inv, wrap_eval d h⟩
  · rw [if_neg hi]; exact ⟨h, rfl⟩

theorem maybeWrap_inv (new : Op) (d : DF) (h : Inv d) : Inv (maybeWrap new d) ∧ (maybeWrap new d).eval = d.eval := by
  unfold maybeWrap
  by_cases hw : wrapCond d.last new = true
  · rw [if_pos hw]; exact ⟨(wrap_fresh d h).inv, wrap_eval d h⟩
  · rw [if_neg hw]; exact ⟨h, rfl⟩

/-- the DataFrame the body sees evaluates like the receiver and satisfies the invariant -/
theorem enter_inv (op : Op) (d : DF) (h : Inv d) : Inv (enter op d) ∧ (enter op d).eval = d.eval := by
  unfold enter
  have h1 := afterInit_inv d h
  have h2 := maybeWrap_inv (newOp op (afterInit d).last) (afterInit d) h1.1
  exact ⟨h2.1, h2.2.trans h1.2⟩

/-- readiness for clauses up to SELECT, from the invariant and the generated wrap rule -/
theorem maybeWrap_ready (op : Op) (hle : op.toInt ≤ Op.select.toInt) (d : DF) (h : Inv d) :
    Ready (maybeWrap op d) := by
  unfold maybeWrap
  by_cases hw : wrapCond d.last op = true
  · rw [if_pos hw]; exact (wrap_fresh d h).ready
  · rw [if_neg hw]
    have hw' : wrapCond d.last op = false := by simpa using hw
    obtain ⟨hle', hns⟩ := wrapCond_sound _ _ hw'
    obtain ⟨_, _, hsel, hord, hlim⟩ := h
    have hlt : d.last.toInt < Op.select.toInt := by
      by_cases he : op = .select
      · subst he
        have hne : d.last ≠ .select := fun e => hns ⟨e, rfl⟩
        revert hle' hne; cases d.last <;> simp [Op.toInt]
      · have : op.toInt < Op.select.toInt := by
          revert hle he; cases op <;> simp [Op.toInt]
        omega
    have h1 := hsel hlt
    exact ⟨h1.1, h1.2, hord (by simp [Op.toInt] at hlt ⊢; omega), hlim (by simp [Op.toInt] at hlt ⊢; omega)⟩

theorem enter_ready (op : Op) (hop : op ≠ .noOp) (hle : op.toInt ≤ Op.select.toInt) (d : DF) (h : Inv d) :
    Ready (enter op d) := by
  unfold enter
  simp only [newOp_tag _ _ hop]
  exact maybeWrap_ready op hle _ (afterInit_inv d h).1

theorem afterInit_last (d : DF) (hno : d.last ≠ .orderBy) : (afterInit d).last ≠ .orderBy := by
  unfold afterInit
  by_cases hi : initCond d.last = true
  · rw [if_pos hi]; show initReset ≠ Op.orderBy; decide
  · rw [if_neg hi]; exact hno

/-- readiness for ORDER BY needs, in addition, that the previous operation was not itself an ORDER BY -/
theorem enter_readyO (d : DF) (h : Inv d) (hno : d.last ≠ .orderBy) : ReadyO (enter .orderBy d) := by
  unfold enter
  simp only [newOp_tag _ _ (show Op.orderBy ≠ .noOp by decide)]
  have h1 := (afterInit_inv d h).1
  have hno1 := afterInit_last d hno
  generalize afterInit d = d1 at h1 hno1
  unfold maybeWrap
  by_cases hw : wrapCond d1.last .orderBy = true
  · rw [if_pos hw]; exact ⟨rfl, rfl⟩
  · rw [if_neg hw]
    have hw' : wrapCond d1.last .orderBy = false := by simpa using hw
    obtain ⟨hle', _⟩ := wrapCond_sound _ _ hw'
    obtain ⟨_, _, _, hord, hlim⟩ := h1
    have hlt : d1.last.toInt < Op.orderBy.toInt := by
      revert hle' hno1; cases d1.last <;> simp [Op.toInt]
    exact ⟨hord hlt, hlim (by simp [Op.toInt] at hlt ⊢; omega)⟩

end Sqlframe
