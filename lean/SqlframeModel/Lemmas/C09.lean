/-
Lemmas/C09.lean — helper lemmas for Props/C09.lean: integer text round trip, Python `split` / `strip`
on the DDL text written for simple fields, dict rows.
-/
import SqlframeModel.Impl.C09Values
import SqlframeModel.Lemmas.C09Lex
namespace Sqlframe.C09
open Gen

-- ------------------------------------------------------------------------------------------------
-- integers
-- ------------------------------------------------------------------------------------------------

theorem readNat_toDigits (n : Nat) : readNat (Nat.toDigits 10 n) = some n := by
  unfold readNat
  have h1 : Nat.toDigits 10 n ≠ [] := Nat.toDigits_ne_nil
  have h2 : (Nat.toDigits 10 n).all Char.isDigit = true := by
    rw [List.all_eq_true]
    intro c hc
    exact Nat.isDigit_of_mem_toDigits (by decide) (by decide) hc
  simp [h1, h2]

theorem toDigits_head_ne_dash (n : Nat) (c : Char) (ds : List Char) (h : Nat.toDigits 10 n = c :: ds) : c ≠ '-' := by
  intro e
  have hc : c ∈ Nat.toDigits 10 n := by rw [h]; simp
  have := Nat.isDigit_of_mem_toDigits (b := 10) (by decide) (by decide) hc
  rw [e] at this
  exact absurd this (by decide)

theorem readIntText_renderInt (i : Int) : readIntText (renderInt i) = some i := by
  unfold renderInt
  by_cases h : i < 0
  · simp only [h, if_true, readIntText, readNat_toDigits]
    simp
    omega
  · simp only [h, if_false]
    cases hd : Nat.toDigits 10 i.natAbs with
    | nil => exact absurd hd Nat.toDigits_ne_nil
    | cons c ds =>
      have hc : c ≠ '-' := toDigits_head_ne_dash _ c ds hd
      simp only [readIntText, hc, if_false]
      rw [← hd, readNat_toDigits]
      simp
      omega

-- ------------------------------------------------------------------------------------------------
-- split / strip
-- ------------------------------------------------------------------------------------------------

theorem splitOn_ne_nil (sep : Char) (l : List Char) : splitOn sep l ≠ [] := by
  cases l with
  | nil => simp [splitOn]
  | cons c cs =>
    simp only [splitOn]
    split
    · simp
    · split <;> simp

theorem splitOn_not_mem (sep : Char) (a : List Char) (h : sep ∉ a) : splitOn sep a = [a] := by
  induction a with
  | nil => simp [splitOn]
  | cons c cs ih =>
    have hc : c ≠ sep := fun e => h (by simp [e])
    have hcs : sep ∉ cs := fun m => h (by simp [m])
    simp [splitOn, hc, ih hcs]

theorem splitOn_append (sep : Char) (a b : List Char) (h : sep ∉ a) :
    splitOn sep (a ++ sep :: b) = a :: splitOn sep b := by
  induction a with
  | nil => simp [splitOn]
  | cons c cs ih =>
    have hc : c ≠ sep := fun e => h (by simp [e])
    have hcs : sep ∉ cs := fun m => h (by simp [m])
    simp [splitOn, hc, ih hcs]

theorem dropWhile_all (p : Char → Bool) (pre m : List Char) (h : ∀ c ∈ pre, p c = true) :
    (pre ++ m).dropWhile p = m.dropWhile p := by
  induction pre with
  | nil => simp
  | cons c cs ih =>
    have hc : p c = true := h c (by simp)
    simp [hc, ih (fun x hx => h x (by simp [hx]))]

/-- `strip` removes a whitespace prefix and nothing else from a text that starts and ends with non-whitespace -/
theorem strip_wrap (pre : List Char) (a z : Char) (mid : List Char)
    (hpre : ∀ c ∈ pre, isWs c = true) (ha : isWs a = false) (hz : isWs z = false) :
    strip (pre ++ (a :: mid ++ [z])) = a :: mid ++ [z] := by
  unfold strip
  rw [dropWhile_all isWs pre _ hpre]
  simp [ha, hz]

theorem strip_single (pre : List Char) (a : Char) (hpre : ∀ c ∈ pre, isWs c = true) (ha : isWs a = false) :
    strip (pre ++ [a]) = [a] := by
  unfold strip
  rw [dropWhile_all isWs pre _ hpre]
  simp [ha]

/-- every non-empty list is `[a]` or `a :: mid ++ [z]` -/
theorem list_shape (l : List Char) (h : l ≠ []) :
    (∃ a, l = [a]) ∨ (∃ a mid z, l = a :: mid ++ [z]) := by
  cases l with
  | nil => exact absurd rfl h
  | cons a t =>
    cases ht : t.reverse with
    | nil =>
      left; refine ⟨a, ?_⟩
      have : t = [] := by simpa using ht
      simp [this]
    | cons z r =>
      right; refine ⟨a, r.reverse, z, ?_⟩
      have : t = r.reverse ++ [z] := by
        have := congrArg List.reverse ht
        simpa using this
      simp [this]

/-- a text whose first and last characters are not whitespace is a fixed point of `strip`,
    also after a whitespace prefix -/
theorem strip_ends (pre l : List Char) (hpre : ∀ c ∈ pre, isWs c = true) (hne : l ≠ [])
    (hfirst : ∀ a t, l = a :: t → isWs a = false) (hlast : ∀ t z, l = t ++ [z] → isWs z = false) :
    strip (pre ++ l) = l := by
  rcases list_shape l hne with ⟨a, rfl⟩ | ⟨a, mid, z, rfl⟩
  · exact strip_single pre a hpre (hfirst a [] rfl)
  · exact strip_wrap pre a z mid hpre (hfirst a (mid ++ [z]) rfl) (hlast (a :: mid) z rfl)

theorem strip_noWs (l : List Char) (h : ∀ c ∈ l, isWs c = false) : strip l = l := by
  by_cases hne : l = []
  · subst hne; simp [strip]
  · have := strip_ends [] l (by simp) hne
      (fun a t e => h a (by simp [e])) (fun t z e => h z (by simp [e]))
    simpa using this

-- ------------------------------------------------------------------------------------------------
-- the DDL text of simple fields
-- ------------------------------------------------------------------------------------------------

def simpleField (f : List Char × List Char) : Prop := simpleWord f.1 ∧ simpleWord f.2

theorem simpleWord_noWs {w : List Char} (h : simpleWord w) : ∀ c ∈ w, isWs c = false := fun c hc => (h.2 c hc).1
theorem simpleWord_noComma {w : List Char} (h : simpleWord w) : ',' ∉ w := fun m => (h.2 ',' m).2 rfl
theorem simpleWord_noSpace {w : List Char} (h : simpleWord w) : ' ' ∉ w := fun m => by
  have := (h.2 ' ' m).1
  simp [isWs] at this

theorem renderField_noComma {f : List Char × List Char} (h : simpleField f) : ',' ∉ renderField f := by
  unfold renderField
  intro m
  simp at m
  rcases m with m | m
  · exact simpleWord_noComma h.1 m
  · exact simpleWord_noComma h.2 m

theorem renderField_strip (pre : List Char) (hpre : ∀ c ∈ pre, isWs c = true) {f : List Char × List Char}
    (h : simpleField f) : strip (pre ++ renderField f) = renderField f := by
  apply strip_ends pre _ hpre
  · unfold renderField; simp
  · intro a t e
    unfold renderField at e
    obtain ⟨hne, hall⟩ := h.1
    cases hn : f.1 with
    | nil => exact absurd hn hne
    | cons x xs =>
      rw [hn] at e
      simp at e
      have : x ∈ f.1 := by rw [hn]; simp
      rw [← e.1]; exact (hall x this).1
  · intro t z e
    unfold renderField at e
    obtain ⟨hne, hall⟩ := h.2
    rcases list_shape f.2 hne with ⟨a, ha⟩ | ⟨a, mid, y, ha⟩
    · rw [ha] at e
      have e' : (f.1 ++ [' ']) ++ [a] = t ++ [z] := by simpa using e
      have := List.append_inj_right' e' rfl
      have hz : a = z := by simpa using this
      rw [← hz]; exact (hall a (by rw [ha]; simp)).1
    · rw [ha] at e
      have e' : (f.1 ++ ' ' :: a :: mid) ++ [y] = t ++ [z] := by simpa using e
      have := List.append_inj_right' e' rfl
      have hz : y = z := by simpa using this
      rw [← hz]; exact (hall y (by rw [ha]; simp)).1

theorem ws_noComma {pre : List Char} (hpre : ∀ c ∈ pre, isWs c = true) : ',' ∉ pre := fun m => by
  have := hpre ',' m
  simp [isWs] at this

/-- splitting the rendered DDL on ',' and stripping each part gives back the rendered fields -/
theorem ddl_parts (fs : List (List Char × List Char)) (hne : fs ≠ []) (hs : ∀ f ∈ fs, simpleField f)
    (pre : List Char) (hpre : ∀ c ∈ pre, isWs c = true) :
    (splitOn ',' (pre ++ renderDDL fs)).map strip = fs.map renderField := by
  induction fs generalizing pre with
  | nil => exact absurd rfl hne
  | cons f rest ih =>
    have hf : simpleField f := hs f (by simp)
    cases rest with
    | nil =>
      have hno : ',' ∉ pre ++ renderField f := by
        intro m
        rcases List.mem_append.mp m with m | m
        · exact ws_noComma hpre m
        · exact renderField_noComma hf m
      simp [renderDDL, splitOn_not_mem _ _ hno, renderField_strip pre hpre hf]
    | cons g rest' =>
      have hno : ',' ∉ pre ++ renderField f := by
        intro m
        rcases List.mem_append.mp m with m | m
        · exact ws_noComma hpre m
        · exact renderField_noComma hf m
      have e : pre ++ renderDDL (f :: g :: rest') = (pre ++ renderField f) ++ ',' :: ([' '] ++ renderDDL (g :: rest')) := by
        simp [renderDDL, List.append_assoc]
      rw [e, splitOn_append _ _ _ hno]
      have ih' := ih (by simp) (fun x hx => hs x (by simp [hx])) [' '] (by intro c hc; simp at hc; subst hc; decide)
      have ih'' : List.map strip (splitOn ',' (' ' :: renderDDL (g :: rest'))) = List.map renderField (g :: rest') := ih'
      simp only [List.singleton_append, List.map_cons, renderField_strip pre hpre hf, ih'']

theorem splitOn_renderField {f : List Char × List Char} (h : simpleField f) :
    splitOn ' ' (renderField f) = [f.1, f.2] := by
  unfold renderField
  rw [splitOn_append _ _ _ (simpleWord_noSpace h.1), splitOn_not_mem _ _ (simpleWord_noSpace h.2)]

theorem parseField_renderField {f : List Char × List Char} (h : simpleField f) :
    parseField (renderField f) = some f := by
  unfold parseField
  have e1 : ddlNameTypeSep = ' ' := by decide
  have e2 : ddlNameIdx = 0 := by decide
  have e3 : ddlTypeIdx = 1 := by decide
  rw [e1, e2, e3, splitOn_renderField h]
  simp [strip_noWs _ (simpleWord_noWs h.1), strip_noWs _ (simpleWord_noWs h.2)]

theorem mapM_parseField (fs : List (List Char × List Char)) (hs : ∀ f ∈ fs, simpleField f) :
    (fs.map renderField).mapM parseField = some fs := by
  induction fs with
  | nil => simp
  | cons f rest ih =>
    have := ih (fun x hx => hs x (by simp [hx]))
    simp [parseField_renderField (hs f (by simp)), this]

/-- the DDL splitter returns exactly the declared (name, type) pairs for simple fields -/
theorem ddlFields_renderDDL (fs : List (List Char × List Char)) (hne : fs ≠ []) (hs : ∀ f ∈ fs, simpleField f)
    (hstruct : isStructSpelling (renderDDL fs) = false) :
    ddlFields (renderDDL fs) = some fs := by
  unfold ddlFields
  have e1 : ddlFieldSep = ',' := by decide
  have e2 : ddlNameTypeSep = ' ' := by decide
  have hp := ddl_parts fs hne hs [] (by simp)
  simp only [List.nil_append] at hp
  rw [e1, e2, hp]
  have hsingle : ¬ ((fs.map renderField).length = 1 ∧ (splitOn ' ' ((fs.map renderField).headD [])).length = 1) := by
    intro ⟨h1, h2⟩
    cases fs with
    | nil => exact hne rfl
    | cons f rest =>
      simp at h2
      rw [splitOn_renderField (hs f (by simp))] at h2
      simp at h2
  simp only [hsingle, if_false, hstruct]
  exact mapM_parseField fs hs

-- ------------------------------------------------------------------------------------------------
-- dict rows
-- ------------------------------------------------------------------------------------------------

theorem lookup_own_keys {α : Type} (row : List (String × α)) (hnd : (row.map (·.1)).Nodup) :
    (row.map (·.1)).map (fun c => row.lookup c) = row.map (fun kv => some kv.2) := by
  induction row with
  | nil => simp
  | cons kv rest ih =>
    obtain ⟨k, v⟩ := kv
    have hnd' : (rest.map (·.1)).Nodup := (List.nodup_cons.mp (by simpa using hnd)).2
    have hk : k ∉ rest.map (·.1) := (List.nodup_cons.mp (by simpa using hnd)).1
    have hrest : (rest.map (·.1)).map (fun c => ((k, v) :: rest).lookup c) = (rest.map (·.1)).map (fun c => rest.lookup c) := by
      apply List.map_congr_left
      intro c hc
      have hne : (c == k) = false := by
        apply beq_false_of_ne
        intro e; exact hk (e ▸ hc)
      simp [List.lookup_cons, hne]
    simp only [List.map_cons, List.lookup_cons_self]
    rw [hrest, ih hnd']

end Sqlframe.C09
