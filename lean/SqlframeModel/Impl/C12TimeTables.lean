/-
Impl/C12TimeTables.lean — sqlglot 26.14's description of the engines' time-format languages (THIRD PARTY, hand-copied):
`Dialect.TIME_FORMAT` (the dialect's default timestamp format) and `Dialect.TIME_MAPPING` (format element -> strftime directive,
in the dict's own order).  `INVERSE_TIME_MAPPING` is `{v: k for k, v in TIME_MAPPING.items()}` in every one of the seven dialects
(`inverseOf` in Impl/C12Fns.lean).  No theorem is ABOUT these tables; C12_default_time_format / C12_try_to_timestamp_default are
relative to them, and every entry is compared with the live sqlglot classes on each run of the check (driver kind "timetables").
-/
namespace Sqlframe.C12

/-- `Dialect.TIME_FORMAT` without the quotes -/
def timeFormatOf : String → String
  | "spark" => "yyyy-MM-dd HH:mm:ss"
  | "databricks" => "yyyy-MM-dd HH:mm:ss"
  | "duckdb" => "%Y-%m-%d %H:%M:%S"
  | "bigquery" => "%Y-%m-%d %H:%M:%S"
  | "snowflake" => "YYYY-MM-DD HH24:MI:SS"
  | "postgres" => "YYYY-MM-DD HH24:MI:SS"
  | "redshift" => "YYYY-MM-DD HH24:MI:SS"
  | _ => "%Y-%m-%d %H:%M:%S"   -- sqlglot's base Dialect

/-- `Dialect.TIME_MAPPING`, in dict order -/
def timeMappingOf : String → List (String × String)
  | "spark" => [("y", "%Y"), ("Y", "%Y"), ("YYYY", "%Y"), ("yyyy", "%Y"), ("YY", "%y"), ("yy", "%y"), ("MMMM", "%B"), ("MMM", "%b"), ("MM", "%m"), ("M", "%-m"), ("dd", "%d"), ("d", "%-d"), ("HH", "%H"), ("H", "%-H"), ("hh", "%I"), ("h", "%-I"), ("mm", "%M"), ("m", "%-M"), ("ss", "%S"), ("s", "%-S"), ("SSSSSS", "%f"), ("a", "%p"), ("DD", "%j"), ("D", "%-j"), ("E", "%a"), ("EE", "%a"), ("EEE", "%a"), ("EEEE", "%A"), ("z", "%Z"), ("Z", "%z")]
  | "databricks" => [("y", "%Y"), ("Y", "%Y"), ("YYYY", "%Y"), ("yyyy", "%Y"), ("YY", "%y"), ("yy", "%y"), ("MMMM", "%B"), ("MMM", "%b"), ("MM", "%m"), ("M", "%-m"), ("dd", "%d"), ("d", "%-d"), ("HH", "%H"), ("H", "%-H"), ("hh", "%I"), ("h", "%-I"), ("mm", "%M"), ("m", "%-M"), ("ss", "%S"), ("s", "%-S"), ("SSSSSS", "%f"), ("a", "%p"), ("DD", "%j"), ("D", "%-j"), ("E", "%a"), ("EE", "%a"), ("EEE", "%a"), ("EEEE", "%A"), ("z", "%Z"), ("Z", "%z")]
  | "duckdb" => []
  | "bigquery" => [("%D", "%m/%d/%y"), ("%E6S", "%S.%f"), ("%e", "%-d")]
  | "snowflake" => [("YYYY", "%Y"), ("yyyy", "%Y"), ("YY", "%y"), ("yy", "%y"), ("MMMM", "%B"), ("mmmm", "%B"), ("MON", "%b"), ("mon", "%b"), ("MM", "%m"), ("mm", "%m"), ("DD", "%d"), ("dd", "%-d"), ("DY", "%a"), ("dy", "%w"), ("HH24", "%H"), ("hh24", "%H"), ("HH12", "%I"), ("hh12", "%I"), ("MI", "%M"), ("mi", "%M"), ("SS", "%S"), ("ss", "%S"), ("FF6", "%f"), ("ff6", "%f")]
  | "postgres" => [("AM", "%p"), ("PM", "%p"), ("d", "%u"), ("D", "%u"), ("dd", "%d"), ("DD", "%d"), ("ddd", "%j"), ("DDD", "%j"), ("FMDD", "%-d"), ("FMDDD", "%-j"), ("FMHH12", "%-I"), ("FMHH24", "%-H"), ("FMMI", "%-M"), ("FMMM", "%-m"), ("FMSS", "%-S"), ("HH12", "%I"), ("HH24", "%H"), ("mi", "%M"), ("MI", "%M"), ("mm", "%m"), ("MM", "%m"), ("OF", "%z"), ("ss", "%S"), ("SS", "%S"), ("TMDay", "%A"), ("TMDy", "%a"), ("TMMon", "%b"), ("TMMonth", "%B"), ("TZ", "%Z"), ("US", "%f"), ("ww", "%U"), ("WW", "%U"), ("yy", "%y"), ("YY", "%y"), ("yyyy", "%Y"), ("YYYY", "%Y")]
  | "redshift" => [("AM", "%p"), ("PM", "%p"), ("d", "%u"), ("D", "%u"), ("dd", "%d"), ("DD", "%d"), ("ddd", "%j"), ("DDD", "%j"), ("FMDD", "%-d"), ("FMDDD", "%-j"), ("FMHH12", "%-I"), ("FMHH24", "%-H"), ("FMMI", "%-M"), ("FMMM", "%-m"), ("FMSS", "%-S"), ("HH12", "%I"), ("HH24", "%H"), ("mi", "%M"), ("MI", "%M"), ("mm", "%m"), ("MM", "%m"), ("OF", "%z"), ("ss", "%S"), ("SS", "%S"), ("TMDay", "%A"), ("TMDy", "%a"), ("TMMon", "%b"), ("TMMonth", "%B"), ("TZ", "%Z"), ("US", "%f"), ("ww", "%U"), ("WW", "%U"), ("yy", "%y"), ("YY", "%y"), ("yyyy", "%Y"), ("YYYY", "%Y"), ("MON", "%b"), ("HH", "%I")]
  | _ => []

/-- the dialect names the tables cover -/
def timeTableDialects : List String := ["spark", "databricks", "duckdb", "bigquery", "snowflake", "postgres", "redshift"]

end Sqlframe.C12
