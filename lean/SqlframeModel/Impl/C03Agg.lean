/-
Impl/C03Agg.lean — what sqlglot's optimizer can see of an aggregating block that sqlframe builds.

`df.sql(optimize=True)` runs sqlglot's rule list over the statement.  `merge_subqueries` inlines a CTE into the
block that reads it unless `_mergeable` refuses; as far as the *inner* block alone decides, it refuses iff
  * one of `UNMERGABLE_ARGS` is set on it (GROUP BY, DISTINCT, LIMIT, …), or
  * one of its projections contains a node whose class is AggFunc / Select / Explode or derives from one of them.
For an aggregation without grouping keys (`df.groupBy().avg("x")`, `df.agg(…)`) nothing of the first kind is set:
the *class* of the aggregate nodes is all that keeps `SELECT AVG(x) AS a FROM t` apart from `… WHERE x > a`.
Which class a request for an aggregate ends up as is sqlframe's decision:
  * `functions.<f>` — a typed sqlglot node, or `exp.Anonymous` (`Gen.fnNodeTable`, regenerated from functions.py);
  * GroupedData's by-name routes — `avg/max/min/sum/mean(*cols)`, `count()`, `agg({col: fn})` — through
    `_get_function_applied_columns` (`getattr(F, func_name.lower())(name).alias(f"{func_name}({name})")`).

The model follows those routes to the list of aggregate items of the SELECT that `GroupedData.agg` builds, builds the
block as `_mergeable` reads it (which Select arguments are set, the classes in each projection), and evaluates the
inner half of `_mergeable` with the class lists and argument lists regenerated from the installed sqlglot.
-/
import SqlframeModel.Gen.C03Agg
namespace Sqlframe
open Gen

/-- one aggregate item of the select list `GroupedData.agg` builds -/
structure AggItem where
  fn : String                 -- the function of `sqlframe.base.functions` that built it
  node : Option FnNode        -- the root node it returns (`none`: the model does not know the function)
  arg : String
  alias : String
  deriving Repr, DecidableEq

/-- the ways a program asks `GroupedData` for aggregates -/
inductive Route
  | fns (items : List (String × String × String))       -- agg(F.<fn>(<col>).alias(<alias>), …)   [DataFrame.agg too]
  | shortcut (method : String) (cols : List String)      -- avg / max / min / sum / mean (*cols)
  | dict (pairs : List (String × String))                -- agg({<col>: <fn>, …})
  | count                                                -- count()
  deriving Repr

/-- Python's `str.lower()` on the ASCII letters function names consist of -/
def pyLower (s : String) : String := String.ofList (s.toList.map Char.toLower)

/-- `_get_function_applied_columns(func_name, cols)` -/
def byName (fn : String) (cols : List String) : List AggItem :=
  let f := if byNameLowers then pyLower fn else fn
  cols.map fun n => { fn := f, node := fnNode f, arg := n, alias := byNameAlias f n }

def fnItem (x : String × String × String) : AggItem := { fn := x.1, node := fnNode x.1, arg := x.2.1, alias := x.2.2 }

/-- the aggregate items a route hands to `agg` (`none`: no such shortcut method) -/
def Route.items : Route → Option (List AggItem)
  | .fns items => some (items.map fnItem)
  | .shortcut m cols => (byNameShortcuts.lookup m).map fun f => byName f cols
  | .dict pairs => some (pairs.flatMap fun p => (byName p.2 [p.1]).take 1)     -- `[…][0]` per (column, function) item
  | .count => some [{ fn := groupCountFn, node := fnNode groupCountFn, arg := groupCountArg, alias := groupCountAlias }]

/-- is this root node an aggregate *as far as sqlglot can tell* -/
def Gen.FnNode.isAggClass : FnNode → Bool
  | .typed c => aggFuncClasses.contains c
  | .anonymous _ => false

/-- is this root node of a class that keeps a block apart (AggFunc / Select / Explode and their subclasses) -/
def Gen.FnNode.isBarrierClass : FnNode → Bool
  | .typed c => mergeBarrierClasses.contains c
  | .anonymous _ => false

def AggItem.typedAgg (i : AggItem) : Bool :=
  match i.node with
  | some n => n.isAggClass
  | none => false

def AggItem.barrier (i : AggItem) : Bool :=
  match i.node with
  | some n => n.isBarrierClass
  | none => false

/-- the class `e.find(…)` meets at the root of a projection `<node> AS alias` -/
def Gen.FnNode.rootClass : FnNode → String
  | .typed c => c
  | .anonymous _ => "Anonymous"

/-- a SELECT as the inner half of `_mergeable` reads it -/
structure InnerBlock where
  args : List String              -- the Select arguments that are set
  projs : List (List String)      -- per projection: classes of the nodes `find` walks over
  deriving Repr, DecidableEq

/-- `self._df.expression.group_by(*keys).select(*(keys ++ items), append=False)`: GROUP BY is set iff there is a key
    (`Select.group_by()` without expressions returns the select unchanged); a key projects a column -/
def aggBlock (keys : List String) (items : List AggItem) : InnerBlock :=
  { args := ["expressions", "from"] ++ (if keys.isEmpty then [] else ["group"]),
    projs := keys.map (fun _ => ["Column", "Identifier"]) ++
             items.map (fun i => ["Alias", (i.node.map FnNode.rootClass).getD "?", "Column", "Identifier"]) }

/-- the inner half of sqlglot's `_mergeable`: true = the block is never inlined into its reader -/
def innerRefuses (b : InnerBlock) : Bool :=
  b.args.any (fun a => unmergeableArgs.contains a) || b.projs.any (fun p => p.any (fun c => mergeBarrierClasses.contains c))

/-- scope hypothesis: every aggregate the program asks for is one sqlglot recognises (a typed AggFunc node) -/
def H_optOpaqueAggregate (items : List AggItem) : Prop := ∀ i ∈ items, i.typedAgg = true

instance (items : List AggItem) : Decidable (H_optOpaqueAggregate items) := by
  unfold H_optOpaqueAggregate; exact inferInstance

/-- the functions among `items` that are emitted as a node the optimizer cannot recognise -/
def opaqueFns (items : List AggItem) : List String := (items.filter (fun i => !i.typedAgg)).map (·.fn)

def violatedC03Agg (items : List AggItem) : List String :=
  if opaqueFns items = [] then [] else ["H_optOpaqueAggregate"]

end Sqlframe
